/-
  Bridge: extension-building programs and extensions ↔ s-expression (property C10).

  Program (payload of `ext.roundtrip`):
    (ext "name" "version" ("req"…) STEP…)
    STEP ::= (type "name" "desc" (P…) D)                         add_type_def(TypeDef(...))
           | (op "name" "desc" J SIG b)                           add_op_def(OpDef(name, OpDefSig(SIG, b), desc, misc))
           | (regop "cls" DOC NAME RSIG DESC MISC)                register_op(NAME, RSIG, DESC, MISC)(cls)
           | (value "name" E)                                     add_extension_value(ExtensionValue(name, E))
    SIG  ::= none | (poly (P…) (T…) (T…) ("req"…))
    RSIG ::= SIG | (sig SIG b)        DOC, NAME, DESC ::= none | "text"        MISC ::= none | J
  P, D, T as in Bridge/Tys.lean, J as in Bridge/Json.lean, E as in Bridge/Val.lean.

  Extension dump (set-typed lists sorted, JSON with sorted keys, bodies of function values elided):
    (ext "name" "version" ("req"…) (types (KEY TD)…) (ops (KEY OD)…) (values (KEY V)…))
    TD ::= (typedef OWNER "name" "desc" (P…) D)     OD ::= (opdef OWNER "name" "desc" J SIG b)
    V  ::= (value OWNER "name" VAL)                 OWNER ::= none | "name"
-/
import HugrVerif.Bridge.Val
import HugrVerif.Ext

namespace HugrVerif.Bridge
open HugrVerif HugrVerif.Ext

def optText : Sexp → Option (Option String)
  | .atom "none" => some none
  | s => s.text?.map some

def polyOfSexp : Sexp → Option (Option Poly)
  | .atom "none" => some none
  | s => match tyOfSexp s with
    | some (.poly ps i o r) => some (some ⟨ps, i, o, r⟩)
    | _ => none

def boolOfSexp : Sexp → Option Bool
  | .atom "true" => some true
  | .atom "false" => some false
  | _ => none

def miscOfSexp (s : Sexp) : Option (List (String × Json)) :=
  match jsonOfSexp s with
  | some (.obj kvs) => some kvs
  | _ => none

inductive Step where
  | type (td : TypeDef)
  | op (name desc : String) (misc : List (String × Json)) (sig : Option Poly) (binary : Bool)
  | regop (cls : String) (doc name : Option String) (sig : Option Poly ⊕ (Option Poly × Bool))
      (desc : Option String) (misc : Option (List (String × Json)))
  | value (name : String) (e : StdConsts.CExpr)

def stepOfSexp : Sexp → Option Step
  | .list [.atom "type", n, d, .list ps, b] => do
    some (.type { owner := none, name := ← n.text?, description := ← d.text?,
                  params := ← ps.mapM paramOfSexp, bound := ← defBoundOfSexp b })
  | .list [.atom "op", n, d, m, s, b] => do
    some (.op (← n.text?) (← d.text?) (← miscOfSexp m) (← polyOfSexp s) (← boolOfSexp b))
  | .list [.atom "regop", c, doc, n, s, d, m] => do
    let sig ← match s with
      | .list [.atom "sig", s', b] => do some (.inr (← polyOfSexp s', ← boolOfSexp b))
      | s' => (polyOfSexp s').map .inl
    let misc ← match m with
      | .atom "none" => some none
      | m' => (miscOfSexp m').map some
    some (.regop (← c.text?) (← optText doc) (← optText n) sig (← optText d) misc)
  | .list [.atom "value", n, e] => do some (.value (← n.text?) (← exprOfSexp e))
  | _ => none

structure Program where
  name : String
  version : String
  reqs : List String
  steps : List Step

def programOfSexp : Sexp → Option Program
  | .list (.atom "ext" :: n :: v :: r :: steps) => do
    some { name := ← n.text?, version := ← v.text?, reqs := ← strsOfSexp r, steps := ← steps.mapM stepOfSexp }
  | _ => none

/-! printing -/

def sortStrs (l : List String) : List String := sortDedup l

def ownerSexp : Option String → Sexp
  | none => .atom "none"
  | some o => .str o

def sigSexp : Option Poly → Sexp
  | none => .atom "none"
  | some p => .list [.atom "poly", .list (p.params.map paramSexp), rowSexp p.inp, rowSexp p.out,
      .list ((sortStrs p.reqs).map .str)]

def typeDefObs (td : TypeDef) : Sexp :=
  .list [.atom "typedef", ownerSexp td.owner, .str td.name, .str td.description,
    .list (td.params.map paramSexp), defBoundSexp td.bound]

def opDefObs (od : OpDef) : Sexp :=
  .list [.atom "opdef", ownerSexp od.owner, .str od.name, .str od.description,
    jsonSexp (Json.obj od.misc).canon, sigSexp od.sig.poly, Sexp.ofBool od.sig.binary]

def extObs (valObs : Value → Sexp) (e : Extension) : Sexp :=
  .list [.atom "ext", .str e.name, .str e.version, .list ((sortStrs e.runtimeReqs).map .str),
    .list (.atom "types" :: e.types.map fun (k, td) => .list [.str k, typeDefObs td]),
    .list (.atom "ops" :: e.operations.map fun (k, od) => .list [.str k, opDefObs od]),
    .list (.atom "values" :: e.values.map fun (k, v) =>
      .list [.str k, .list [.atom "value", ownerSexp v.owner, .str v.name, valObs v.val]])]

end HugrVerif.Bridge
