/-
  Bridge: types / type arguments / type parameters ↔ s-expression.
    T ::= (sum (R…)) with R ::= (T…) | (unit n) | (var i B) | (rowvar i B) | usize | (alias "name" B)
        | (fn (T…) (T…) ("req"…)) | (poly (P…) (T…) (T…) ("req"…))
        | (ext (def "ext" "name" "desc" (P…) D) (A…)) | (opaque "id" B (A…) "ext") | qubit
    D ::= (explicit B) | (from i…)          B ::= C | A
    A ::= (ty T) | (nat n) | (str "s") | (seq (A…)) | (exts ("e"…)) | (varg i P)
    P ::= (ptype B) | (pnat none|n) | pstr | (plist P) | (ptuple (P…)) | pexts
-/
import HugrVerif.Sexp
import HugrVerif.Tys

namespace HugrVerif.Bridge
open HugrVerif

def boundOfSexp : Sexp → Option Bound
  | .atom "C" => some .copyable
  | .atom "A" => some .any
  | _ => none

def boundSexp : Bound → Sexp
  | .copyable => .atom "C"
  | .any => .atom "A"

def strsOfSexp : Sexp → Option (List String)
  | .list xs => xs.mapM Sexp.text?
  | _ => none

partial def paramOfSexp : Sexp → Option TypeParam
  | .list [.atom "ptype", b] => (boundOfSexp b).map .type
  | .list [.atom "pnat", .atom "none"] => some (.boundedNat none)
  | .list [.atom "pnat", n] => n.toInt?.map (fun i => .boundedNat (some i))
  | .atom "pstr" => some .string
  | .list [.atom "plist", p] => (paramOfSexp p).map .list
  | .list [.atom "ptuple", .list ps] => (ps.mapM paramOfSexp).map .tuple
  | .atom "pexts" => some .extensions
  | _ => none

partial def paramSexp : TypeParam → Sexp
  | .type b => .list [.atom "ptype", boundSexp b]
  | .boundedNat none => .list [.atom "pnat", .atom "none"]
  | .boundedNat (some n) => .list [.atom "pnat", Sexp.ofInt n]
  | .string => .atom "pstr"
  | .list p => .list [.atom "plist", paramSexp p]
  | .tuple ps => .list [.atom "ptuple", .list (ps.map paramSexp)]
  | .extensions => .atom "pexts"

def defBoundOfSexp : Sexp → Option DefBound
  | .list [.atom "explicit", b] => (boundOfSexp b).map .explicit
  | .list (.atom "from" :: is) => (is.mapM Sexp.toInt?).map .fromParams
  | _ => none

def defBoundSexp : DefBound → Sexp
  | .explicit b => .list [.atom "explicit", boundSexp b]
  | .fromParams is => .list (.atom "from" :: is.map Sexp.ofInt)

def typeDefOfSexp : Sexp → Option TypeDefRef
  | .list [.atom "def", e, n, d, .list ps, b] => do
    some { ext := ← e.text?, name := ← n.text?, description := ← d.text?,
           params := ← ps.mapM paramOfSexp, bound := ← defBoundOfSexp b }
  | _ => none

def typeDefSexp (d : TypeDefRef) : Sexp :=
  .list [.atom "def", .str d.ext, .str d.name, .str d.description, .list (d.params.map paramSexp), defBoundSexp d.bound]

mutual
  partial def tyOfSexp : Sexp → Option Ty
    | .list [.atom "sum", .list rows] => (rows.mapM rowOfSexp).map .sum
    | .list [.atom "unit", n] => n.toNat?.map .unitSum
    | .list [.atom "var", i, b] => do some (.variable (← i.toNat?) (← boundOfSexp b))
    | .list [.atom "rowvar", i, b] => do some (.rowVariable (← i.toNat?) (← boundOfSexp b))
    | .atom "usize" => some .usize
    | .list [.atom "alias", n, b] => do some (.alias (← n.text?) (← boundOfSexp b))
    | .list [.atom "fn", i, o, r] => do some (.function (← rowOfSexp i) (← rowOfSexp o) (← strsOfSexp r))
    | .list [.atom "poly", .list ps, i, o, r] => do
      some (.poly (← ps.mapM paramOfSexp) (← rowOfSexp i) (← rowOfSexp o) (← strsOfSexp r))
    | .list [.atom "ext", d, .list args] => do some (.extType (← typeDefOfSexp d) (← args.mapM argOfSexp))
    | .list [.atom "opaque", id, b, .list args, e] => do
      some (.opaque (← id.text?) (← boundOfSexp b) (← args.mapM argOfSexp) (← e.text?))
    | .atom "qubit" => some .qubit
    | _ => none
  partial def rowOfSexp : Sexp → Option (List Ty)
    | .list ts => ts.mapM tyOfSexp
    | _ => none
  partial def argOfSexp : Sexp → Option TypeArg
    | .list [.atom "ty", t] => (tyOfSexp t).map .type
    | .list [.atom "nat", n] => n.toInt?.map .boundedNat
    | .list [.atom "str", s] => s.text?.map .string
    | .list [.atom "seq", .list es] => (es.mapM argOfSexp).map .sequence
    | .list [.atom "exts", es] => (strsOfSexp es).map .extensions
    | .list [.atom "varg", i, p] => do some (.variable (← i.toNat?) (← paramOfSexp p))
    | _ => none
end

mutual
  partial def tySexp : Ty → Sexp
    | .sum rows => .list [.atom "sum", .list (rows.map rowSexp)]
    | .unitSum n => .list [.atom "unit", Sexp.ofNat n]
    | .variable i b => .list [.atom "var", Sexp.ofNat i, boundSexp b]
    | .rowVariable i b => .list [.atom "rowvar", Sexp.ofNat i, boundSexp b]
    | .usize => .atom "usize"
    | .alias n b => .list [.atom "alias", .str n, boundSexp b]
    | .function i o r => .list [.atom "fn", rowSexp i, rowSexp o, .list (r.map .str)]
    | .poly ps i o r => .list [.atom "poly", .list (ps.map paramSexp), rowSexp i, rowSexp o, .list (r.map .str)]
    | .extType d args => .list [.atom "ext", typeDefSexp d, .list (args.map argSexp)]
    | .opaque id b args e => .list [.atom "opaque", .str id, boundSexp b, .list (args.map argSexp), .str e]
    | .qubit => .atom "qubit"
  partial def rowSexp (ts : List Ty) : Sexp := .list (ts.map tySexp)
  partial def argSexp : TypeArg → Sexp
    | .type t => .list [.atom "ty", tySexp t]
    | .boundedNat n => .list [.atom "nat", Sexp.ofInt n]
    | .string s => .list [.atom "str", .str s]
    | .sequence es => .list [.atom "seq", .list (es.map argSexp)]
    | .extensions es => .list [.atom "exts", .list (es.map .str)]
    | .variable i p => .list [.atom "varg", Sexp.ofNat i, paramSexp p]
end

end HugrVerif.Bridge
