/-
  Bridge: extension registries ↔ s-expression, hugr-model terms → s-expression (property C11).

    REG ::= (reg ("key" EXT)…)
    EXT ::= (ext "name" "version" ("req"…) (types ("key" TD)…) (ops ("key" OD)…))
    TD  ::= (typedef OWNER "name" "desc" (P…) D)
    OD  ::= (opdef OWNER "name" "desc" SIG b)       SIG ::= none | (poly (P…) (T…) (T…) ("req"…))
    OWNER ::= none | "extension name"                b ::= true | false
  P, D, T as in Bridge/Tys.lean.  `misc`, `values` and `lower_funcs` are not transported (resolution
  does not read them): the parsed extension has `misc := []`, `values := []`.

    M ::= (Apply "symbol" (l M…)) | (List (l M…)) | (Literal n) | (Literal "s") | (Var "name") | (Splice M)
  is the structural dump of a `hugr.model` term (dataclass name, then its fields).
-/
import HugrVerif.Bridge.Ops
import HugrVerif.Resolve

namespace HugrVerif.Bridge.Resolve
open HugrVerif HugrVerif.Bridge HugrVerif.Resolve

def ownerOfSexp : Sexp → Option (Option String)
  | .atom "none" => some none
  | .str s => some (some s)
  | _ => none

def ownerSexp : Option String → Sexp
  | none => .atom "none"
  | some o => .str o

def typeDefOfSexp : Sexp → Option Ext.TypeDef
  | .list [.atom "typedef", o, n, d, .list ps, b] => do
    some { owner := ← ownerOfSexp o, name := ← n.text?, description := ← d.text?,
           params := ← ps.mapM paramOfSexp, bound := ← defBoundOfSexp b }
  | _ => none

def typeDefSexp (td : Ext.TypeDef) : Sexp :=
  .list [.atom "typedef", ownerSexp td.owner, .str td.name, .str td.description,
    .list (td.params.map paramSexp), defBoundSexp td.bound]

def extPolyOfSexp : Sexp → Option (Option Ext.Poly)
  | .atom "none" => some none
  | s => match tyOfSexp s with
    | some (.poly ps i o r) => some (some ⟨ps, i, o, r⟩)
    | _ => none

def extPolySexp : Option Ext.Poly → Sexp
  | none => .atom "none"
  | some p => tySexp p.toTy

def boolOfSexp : Sexp → Option Bool
  | .atom "true" => some true
  | .atom "false" => some false
  | _ => none

def opDefOfSexp : Sexp → Option Ext.OpDef
  | .list [.atom "opdef", o, n, d, s, b] => do
    some { owner := ← ownerOfSexp o, name := ← n.text?, description := ← d.text?,
           sig := ⟨← extPolyOfSexp s, ← boolOfSexp b⟩, misc := [] }
  | _ => none

def opDefSexp (od : Ext.OpDef) : Sexp :=
  .list [.atom "opdef", ownerSexp od.owner, .str od.name, .str od.description, extPolySexp od.sig.poly,
    Sexp.ofBool od.sig.binary]

def entriesOfSexp {α : Type} (f : Sexp → Option α) (xs : List Sexp) : Option (List (String × α)) :=
  xs.mapM fun (kv : Sexp) => match kv with
    | Sexp.list [Sexp.str k, v] => (f v).map (fun a => (k, a))
    | _ => none

def extOfSexp : Sexp → Option Ext.Extension
  | .list [.atom "ext", n, v, r, .list (.atom "types" :: ts), .list (.atom "ops" :: os)] => do
    some { name := ← n.text?, version := ← v.text?, runtimeReqs := ← strsOfSexp r,
           types := ← entriesOfSexp typeDefOfSexp ts, values := [],
           operations := ← entriesOfSexp opDefOfSexp os }
  | _ => none

def extSexp (e : Ext.Extension) : Sexp :=
  .list [.atom "ext", .str e.name, .str e.version, .list (e.runtimeReqs.map .str),
    .list (.atom "types" :: e.types.map fun (k, td) => .list [.str k, typeDefSexp td]),
    .list (.atom "ops" :: e.operations.map fun (k, od) => .list [.str k, opDefSexp od])]

def registryOfSexp : Sexp → Option Registry
  | .list (.atom "reg" :: es) => (entriesOfSexp extOfSexp es).map Registry.mk
  | _ => none

def registrySexp (r : Registry) : Sexp :=
  .list (.atom "reg" :: r.extensions.map fun (k, e) => .list [.str k, extSexp e])

/-- every definition has an owner (otherwise `typeDefRef` cannot name the owning extension) -/
def allOwned (r : Registry) : Bool :=
  r.extensions.all fun (_, e) => e.types.all (fun (_, td) => td.owner.isSome)

partial def mtermSexp : MTerm → Sexp
  | .apply s args => .list [.atom "Apply", .str s, .list (.atom "l" :: args.map mtermSexp)]
  | .list parts => .list [.atom "List", .list (.atom "l" :: parts.map mtermSexp)]
  | .litInt n => .list [.atom "Literal", Sexp.ofInt n]
  | .litStr s => .list [.atom "Literal", .str s]
  | .var n => .list [.atom "Var", .str n]
  | .splice t => .list [.atom "Splice", mtermSexp t]

end HugrVerif.Bridge.Resolve
