/-
  Bridge: Json ↔ s-expression (payloads) and Json → JSON text (observations).
  sexp syntax:  null | true | false | (i 42) | (n "1.5e3") | (s "text") | (a v…) | (o ("key" v)…)
-/
import HugrVerif.Sexp
import HugrVerif.Json

namespace HugrVerif.Bridge
open HugrVerif

partial def jsonOfSexp : Sexp → Option Json
  | .atom "null" => some .null
  | .atom "true" => some (.bool true)
  | .atom "false" => some (.bool false)
  | .list [.atom "i", x] => x.toInt?.map .int
  | .list [.atom "n", .str lit] => some (.num lit)
  | .list [.atom "s", .str s] => some (.str s)
  | .list (.atom "a" :: xs) => (xs.mapM jsonOfSexp).map .arr
  | .list (.atom "o" :: kvs) =>
    (kvs.mapM fun (kv : Sexp) => match kv with
      | Sexp.list [Sexp.str k, v] => (jsonOfSexp v).map (fun j => (k, j))
      | _ => none).map .obj
  | _ => none

def hexDigit (n : Nat) : Char := if n < 10 then Char.ofNat (48 + n) else Char.ofNat (87 + n)

def escapeJsonString (s : String) : String :=
  s.foldl (fun acc c =>
    match c with
    | '"' => acc ++ "\\\""
    | '\\' => acc ++ "\\\\"
    | '\n' => acc ++ "\\n"
    | '\t' => acc ++ "\\t"
    | '\r' => acc ++ "\\r"
    | c =>
      if c.toNat < 32 then
        acc ++ "\\u00" ++ String.singleton (hexDigit (c.toNat / 16)) ++ String.singleton (hexDigit (c.toNat % 16))
      else acc.push c) ""

/-- JSON text (one line). Strings are written as UTF-8 with the mandatory escapes only. -/
partial def jsonText : Json → String
  | .null => "null"
  | .bool b => if b then "true" else "false"
  | .int i => toString i
  | .num lit => lit
  | .str s => "\"" ++ escapeJsonString s ++ "\""
  | .arr xs => "[" ++ ",".intercalate (xs.map jsonText) ++ "]"
  | .obj kvs => "{" ++ ",".intercalate (kvs.map fun (k, v) => "\"" ++ escapeJsonString k ++ "\":" ++ jsonText v) ++ "}"

end HugrVerif.Bridge
