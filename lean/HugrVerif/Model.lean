/-
  L7: the hugr-model data structures — the dataclasses of `hugr/model/__init__.py`
  (hugr-py/src/hugr/model/__init__.py), one constructor per class.  Import-free.

  * `Term`       `Wildcard | Var | Apply | List | Tuple | Literal | Func`; `Splice` (a `SeqPart`, not a
                 `Term` in the Python typing) is a constructor of the same type because the Python is untyped:
                 `to_model` of a row variable returns a `Splice` wherever a term is expected
                 (`cast(model.Term, …)` does nothing at run time).
  * `Lit`        `Literal.value : str | float | int | bytes` (floats as their text, never computed with).
  * `Param`, `Symbol`, `Operation`, `Node`, `Region`, `Module`, `Package`.

  The Python classes are plain records; the structure of the Rust AST they mirror is
  `hugr-model/src/v0/ast/mod.rs`.
-/
namespace HugrVerif.Model

/-- `Literal.value` -/
inductive Lit where
  | str (s : String)
  | int (i : Int)
  | float (text : String)
  | bytes (b : List Nat)
deriving DecidableEq, Repr, Inhabited

/-- `RegionKind` -/
inductive RegionKind where
  | dataFlow | controlFlow | module
deriving DecidableEq, Repr, Inhabited

mutual
  inductive Term where
    | wildcard
    | var (name : String)
    | apply (symbol : String) (args : List Term)
    | splice (seq : Term)
    | list (parts : List Term)
    | tuple (parts : List Term)
    | literal (value : Lit)
    | func (region : Region)
  inductive Param where
    | mk (name : String) (type : Term)
  inductive Symbol where
    | mk (name : String) (params : List Param) (constraints : List Term) (signature : Term)
  inductive Operation where
    | invalid
    | dfg
    | cfg
    | block
    | defineFunc (symbol : Symbol)
    | declareFunc (symbol : Symbol)
    | custom (operation : Term)
    | defineAlias (symbol : Symbol) (value : Term)
    | declareAlias (symbol : Symbol)
    | tailLoop
    | conditional
    | declareConstructor (symbol : Symbol)
    | declareOperation (symbol : Symbol)
    | import_ (name : String)
  inductive Node where
    | mk (operation : Operation) (inputs outputs : List String) (regions : List Region)
        (metas : List Term) (signature : Option Term)
  inductive Region where
    | mk (kind : RegionKind) (sources targets : List String) (children : List Node)
        (metas : List Term) (signature : Option Term)
end

instance : Inhabited Term := ⟨.wildcard⟩
instance : Inhabited Operation := ⟨.invalid⟩
instance : Inhabited Node := ⟨.mk .invalid [] [] [] [] none⟩
instance : Inhabited Region := ⟨.mk .dataFlow [] [] [] [] none⟩

/-- `Module` -/
structure Module where
  root : Region

/-- `Package` -/
structure Package where
  modules : List Module

namespace Symbol
def name : Symbol → String | .mk n _ _ _ => n
def params : Symbol → List Param | .mk _ p _ _ => p
def constraints : Symbol → List Term | .mk _ _ c _ => c
def signature : Symbol → Term | .mk _ _ _ s => s
end Symbol

namespace Node
def operation : Node → Operation | .mk o _ _ _ _ _ => o
def inputs : Node → List String | .mk _ i _ _ _ _ => i
def outputs : Node → List String | .mk _ _ o _ _ _ => o
def regions : Node → List Region | .mk _ _ _ r _ _ => r
def metas : Node → List Term | .mk _ _ _ _ m _ => m
def signature : Node → Option Term | .mk _ _ _ _ _ s => s
end Node

namespace Region
def kind : Region → RegionKind | .mk k _ _ _ _ _ => k
def sources : Region → List String | .mk _ s _ _ _ _ => s
def targets : Region → List String | .mk _ _ t _ _ _ => t
def children : Region → List Node | .mk _ _ _ c _ _ => c
def metas : Region → List Term | .mk _ _ _ _ m _ => m
def signature : Region → Option Term | .mk _ _ _ _ _ s => s
end Region

/-- The symbol an operation defines or declares, if any. -/
def Operation.symbol? : Operation → Option Symbol
  | .defineFunc s | .declareFunc s | .defineAlias s _ | .declareAlias s
  | .declareConstructor s | .declareOperation s => some s
  | _ => none

/-- Class names and field names of the dataclasses as this file models them (compared with the
    translated tables of `Gen/ModelAttrs.lean` in `Props/C12.lean`). -/
def modelledFields : List (String × List String) :=
  [("Apply", ["symbol", "args"]), ("Block", []), ("Cfg", []), ("Conditional", []),
   ("CustomOp", ["operation"]), ("DeclareAlias", ["symbol"]), ("DeclareConstructor", ["symbol"]),
   ("DeclareFunc", ["symbol"]), ("DeclareOperation", ["symbol"]), ("DefineAlias", ["symbol", "value"]),
   ("DefineFunc", ["symbol"]), ("Dfg", []), ("Func", ["region"]), ("Import", ["name"]), ("InvalidOp", []),
   ("List", ["parts"]), ("Literal", ["value"]), ("Module", ["root"]),
   ("Node", ["operation", "inputs", "outputs", "regions", "meta", "signature"]),
   ("Package", ["modules"]), ("Param", ["name", "type"]),
   ("Region", ["kind", "sources", "targets", "children", "meta", "signature"]), ("Splice", ["seq"]),
   ("Symbol", ["name", "params", "constraints", "signature"]), ("TailLoop", []), ("Tuple", ["parts"]),
   ("Var", ["name"]), ("Wildcard", [])]

end HugrVerif.Model
