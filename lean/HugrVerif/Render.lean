/-
  L4: rendering a HUGR to Graphviz — `hugr/hugr/render.py` (`DotRenderer.render`, `_viz_node`,
  `_viz_link`, `RenderConfig`, `Palette`, `PALETTE`) and `Hugr.render_dot` (hugr/hugr/base.py), statement by
  statement.  Import-free apart from Store / Ops / Serial (`Meta`).

  What is modelled is the STRUCTURE of the DOT source (`graphviz.Digraph.source`): the tree of
  `subgraph cluster<idx>` blocks, the node statements (id, display name, one cell per entry of the two
  port rows, metadata lines, colours), the edge statements (endpoints `<idx>:out.<off>` / `<idx>:in.<off>`,
  label, colour, the constant attributes) and the graph attributes.  The HTML label templates
  (`_HTML_LABEL_TEMPLATE`, `_HTML_PORTS_ROW_TEMPLATE`, `_HTML_PORT_TEMPLATE`) are not modelled beyond the
  values substituted into them; the harness parses the source text back into this structure.

  Python `str()` of types, type arguments, constant values and metadata values is a PARAMETER of the
  model (`Strs`): the drawing structure does not depend on it, the theorems hold for every choice, and the
  driver instantiates it with `PyStr.lean` (the `__str__` / `__repr__` of the classes `deserialize()`
  produces).

  Port counts: `_viz_node` draws `hugr.num_in_ports(node)` / `hugr.num_out_ports(node)` cells, i.e. the
  TRACKED counters `_num_inps` / `_num_outs` of the store (`NodeData.numInps / numOuts`), not the arity of
  the operation's signature.
-/
import HugrVerif.Store
import HugrVerif.Ops
import HugrVerif.Serial

namespace HugrVerif

/-! ### display names (`Op.name()`, `ops.py`) -/

/-- `OpDef.qualified_name()` (`ext.py:221-225`) -/
def OpDefRef.qualifiedName (d : OpDefRef) : String :=
  match d.ext with
  | some e => if e = "" then d.name else e ++ "." ++ d.name
  | none => d.name

namespace Render

/-- The Python string conversions render.py applies to payload data. -/
structure Strs where
  /-- `str(ty)` — edge labels -/
  tyStr : Ty → String
  /-- `comma_sep_str(type_args)` — `AsExtOp.name()` -/
  argsStr : List TypeArg → String
  /-- `str(val)` — `Const.__repr__` -/
  valStr : Value → String
  /-- `str(value)` of a metadata value — `f"{key}: {value}"` -/
  mdStr : Json → String

/-- `op.name()` per class (`ops.py`; classes without an override use `str(self)`). -/
def opFullName (E : Strs) : Op → String
  | .input _ => "Input"
  | .output _ => "Output"
  | .custom n _ _ _ _ => "Custom(" ++ n ++ ")"
  -- `AsExtOp.name`: the qualified name of the definition, with the type arguments if there are any
  | .extOp d _ args =>
    if args.length = 0 then d.qualifiedName else d.qualifiedName ++ "<" ++ E.argsStr args ++ ">"
  | .makeTuple _ => "MakeTuple"
  | .unpackTuple _ => "UnpackTuple"
  | .noop _ => "Noop"
  | .tag t _ => "Tag(" ++ toString t ++ ")"           -- `Tag.__repr__`
  | .dfg .. => "DFG"
  | .cfg .. => "CFG"
  | .dataflowBlock .. => "DataflowBlock"
  | .exitBlock _ => "ExitBlock"
  | .const v => "Const(" ++ E.valStr v ++ ")"          -- `Const.__repr__`
  | .loadConst _ => "LoadConst"
  | .conditional .. => "Conditional"
  | .case .. => "Case"
  | .tailLoop .. => "TailLoop"
  | .funcDefn n _ _ _ => "FuncDefn(" ++ n ++ ")"
  | .funcDecl n _ => "FuncDecl(" ++ n ++ ")"
  | .module => "Module"
  | .call .. => "Call"
  | .callIndirect _ => "CallIndirect"
  | .loadFunc .. => "LoadFunc"
  | .aliasDecl n _ => "AliasDecl(" ++ n ++ ")"
  | .aliasDefn n _ => "AliasDefn(" ++ n ++ ")"

/-- `isinstance(op, AsExtOp)` -/
def isAsExtOp : Op → Bool
  | .extOp .. | .makeTuple _ | .unpackTuple _ | .noop _ => true
  | _ => false

/-- `op.op_def().name` of the `AsExtOp` classes -/
def opDefName : Op → String
  | .extOp d _ _ => d.name
  | .makeTuple _ => "MakeTuple"
  | .unpackTuple _ => "UnpackTuple"
  | .noop _ => "Noop"
  | _ => ""

/-- `render.py:230-234`:
    `if isinstance(op, AsExtOp) and not self.config.qualify_op_name: op_name = op.op_def().name
     else: op_name = op.name()` -/
def displayName (E : Strs) (qualify : Bool) (op : Op) : String :=
  if isAsExtOp op ∧ ¬ qualify then opDefName op else opFullName E op

/-! ### configuration (`render.py:17-76`) -/

structure Palette where
  background : String
  node : String
  edge : String
  dark : String
  const : String
  discard : String
  nodeBorder : String
  portBorder : String
deriving Repr, DecidableEq

namespace Palette
def default : Palette :=
  ⟨"white", "#ACCBF9", "#1CADE4", "black", "#77CEEF", "#ff8888", "white", "#1CADE4"⟩
def nb : Palette :=
  ⟨"white", "#7952B3", "#FFC107", "#343A40", "#7c55b4", "#ff8888", "#9d80c7", "#ffd966"⟩
def zx : Palette :=
  ⟨"white", "#629DD1", "#297FD5", "#112D4E", "#a1eea1", "#ff8888", "#D8F8D8", "#E8A5A5"⟩
/-- `Palette.named(name)` = `PALETTE[name]` (`KeyError` for an unknown name) -/
def named (name : String) : Option Palette :=
  if name = "default" then some default
  else if name = "nb" then some nb
  else if name = "zx" then some zx
  else none
end Palette

/-- `RenderConfig` -/
structure RenderConfig where
  palette : Palette := Palette.default
  qualifyOpName : Bool := false
deriving Repr, DecidableEq

/-! ### the structure of the DOT source -/

/-- One `_HTML_PORT_TEMPLATE` cell. -/
structure Cell where
  /-- `id_prefix`: `"in."` / `"out."` -/
  pfx : String
  /-- the port offset `i` of `range(num_ports)` -/
  idx : Nat
  /-- `back_colour` -/
  bg : String
  /-- `border_colour` -/
  border : String
  /-- `font_colour` -/
  font : String
deriving Repr, DecidableEq

/-- `PORT="{port_id}"` -/
def Cell.portId (c : Cell) : String := c.pfx ++ toString c.idx
/-- the cell text `{port}` -/
def Cell.text (c : Cell) : String := toString c.idx

/-- A node statement `graph.node(f"{node.idx}", shape="plain", label=<html>)`. -/
structure NodeStmt where
  idx : Nat
  /-- `node_label` -/
  name : String
  inCells : List Cell
  outCells : List Cell
  /-- the `f"{key}: {value}"` lines of `node_data` -/
  metaLines : List String
  /-- `node_back_color` -/
  fill : String
  /-- `border_colour` -/
  border : String
  /-- `label_color` -/
  font : String
deriving Repr, DecidableEq

/-- the statement's identifier `f"{node.idx}"` -/
def NodeStmt.id (n : NodeStmt) : String := toString n.idx

/-- A statement of the node part of the source: a node statement or a `subgraph cluster<idx> { … }`
    whose body ends with `label="" margin=10 color=<color>`. -/
inductive Item where
  | node (n : NodeStmt)
  | cluster (idx : Nat) (color : String) (body : List Item)

def Item.clusterName (idx : Nat) : String := "cluster" ++ toString idx

/-- An edge statement `graph.edge(src, tgt, label=…, color=…, **edge_attr)`. -/
structure EdgeStmt where
  srcNode : Nat
  srcOff : Int
  dstNode : Nat
  dstOff : Int
  label : String
  color : String
deriving Repr, DecidableEq

/-- `_out_port_name`: `f"{p.node.idx}:{self._OUTPUT_PREFIX}{p.offset}"` -/
def EdgeStmt.srcName (e : EdgeStmt) : String := toString e.srcNode ++ ":" ++ "out." ++ toString e.srcOff
/-- `_in_port_name`: `f"{p.node.idx}:{self._INPUT_PREFIX}{p.offset}"` -/
def EdgeStmt.dstName (e : EdgeStmt) : String := toString e.dstNode ++ ":" ++ "in." ++ toString e.dstOff

/-- the constant `edge_attr` of `_viz_link` -/
def edgeAttrs : List (String × String) :=
  [("penwidth", "1.5"), ("arrowhead", "none"), ("arrowsize", "1.0"), ("fontname", "monospace"),
   ("fontsize", "9"), ("fontcolor", "black")]

/-- the constant part of `graph_attr` of `render` -/
def graphAttrs : List (String × String) :=
  [("rankdir", ""), ("ranksep", "0.1"), ("nodesep", "0.15"), ("margin", "0")]

/-- the constant attributes of a node statement besides its label: `shape="plain"` -/
def nodeAttrs : List (String × String) := [("shape", "plain")]

/-- the constant attributes of a cluster: `sub.attr(label="", margin="10", …)` -/
def clusterAttrs : List (String × String) := [("label", ""), ("margin", "10")]

structure RenderOut where
  /-- the name of the digraph -/
  name : String
  /-- `bgcolor` -/
  bgcolor : String
  root : Item
  edges : List EdgeStmt

/-! ### the renderer -/

inductive Err where
  | keyError              -- `hugr[node]` of a missing node
  | op (e : OpErr)        -- raised by `port_kind`
  | recursion             -- `RecursionError`: the children relation is cyclic (unreachable under the hierarchy invariants)
  | typeError             -- `graphviz` quoting a graph name that is not a string (raised when `.source` is read)
deriving Repr, DecidableEq

def Err.name : Err → String
  | .keyError => "KeyError"
  | .op .incompleteOp => "IncompleteOp"
  | .op .invalidPort => "InvalidPort"
  | .op .valueError => "ValueError"
  | .op .indexError => "IndexError"
  | .op .noConcreteFunc => "NoConcreteFunc"
  | .op .assertion => "AssertionError"
  | .op .validationError => "ValidationError"
  | .op .noMethod => "AttributeError"
  | .recursion => "RecursionError"
  | .typeError => "TypeError"

abbrev St := Store Op Serial.Meta

def liftS {α : Type} : Except Store.Err α → Except Err α
  | .ok a => .ok a
  | .error _ => .error .keyError      -- `getNode` only raises `KeyError`

def liftO {α : Type} : Except OpErr α → Except Err α
  | .ok a => .ok a
  | .error e => .error (.op e)

/-- `bool(value)` of a JSON value held as a Python object -/
def truthy : Json → Bool
  | .null => false
  | .bool b => b
  | .int i => i ≠ 0
  | .num lit => !(lit = "0.0" ∨ lit = "-0.0")
  | .str s => s ≠ ""
  | .arr xs => !xs.isEmpty
  | .obj kvs => !kvs.isEmpty

/-- `if not (name := hugr[hugr.root].metadata.get("name", None)): name = ""` followed by
    `gv.Digraph(name, …)`: a name that is not a string makes graphviz's quoting raise `TypeError`. -/
def graphName (m : Serial.Meta) : Except Err String :=
  match Serial.fld "name" m with
  | none => .ok ""
  | some v =>
    if truthy v then
      match v with
      | .str s => .ok s
      | _ => .error .typeError
    else .ok ""

/-- `[str(i) for i in range(n)]` turned into cells by `_html_ports(ports, id_prefix)` -/
def cells (c : RenderConfig) (pfx : String) (n : Nat) : List Cell :=
  (List.range n).map fun i =>
    { pfx, idx := i, bg := c.palette.background, border := c.palette.portBorder, font := c.palette.dark }

/-- `f"{key}: {value}" for key, value in meta.items()` -/
def metaLines (E : Strs) (m : Serial.Meta) : List String :=
  m.map fun (k, v) => k ++ ": " ++ E.mdStr v

/-- the node statement of `_viz_node` (both branches; `parent` = the node has children) -/
def nodeStmt (E : Strs) (c : RenderConfig) (i : Nat) (d : Store.NodeData Op Serial.Meta) : NodeStmt :=
  let parent := !d.children.isEmpty
  { idx := i
    name := displayName E c.qualifyOpName d.op
    inCells := cells c "in." d.numInps
    outCells := cells c "out." d.numOuts
    metaLines := metaLines E d.md
    fill := if parent then c.palette.edge else c.palette.node
    border := if parent then c.palette.portBorder else c.palette.background
    font := c.palette.dark }

/-- `for child in hugr.children(node): self._viz_node(child, hugr, sub)` -/
def vizKids (f : Nat → Except Err Item) : List Store.Handle → Except Err (List Item)
  | [] => .ok []
  | h :: hs =>
    match f h.1 with
    | .error e => .error e
    | .ok it =>
      match vizKids f hs with
      | .error e => .error e
      | .ok its => .ok (it :: its)

/-- `_viz_node(node, hugr, graph)`; the fuel bounds the recursion depth. -/
def vizNode (E : Strs) (c : RenderConfig) (s : St) : Nat → Nat → Except Err Item
  | 0, _ => .error .recursion
  | fuel + 1, i =>
    match liftS (Store.getNode s i) with
    | .error e => .error e
    | .ok d =>
      if d.children.isEmpty then .ok (.node (nodeStmt E c i d))
      else
        match vizKids (vizNode E c s fuel) d.children with
        | .error e => .error e
        | .ok kids => .ok (.cluster i c.palette.edge (kids ++ [.node (nodeStmt E c i d)]))

/-- `label` of `_viz_link`: `str(ty)` for a value edge, else `""` -/
def kindLabel (E : Strs) : Kind → String
  | .value t => E.tyStr t
  | _ => ""

/-- `color` of `_viz_link` -/
def kindColor (c : RenderConfig) : Kind → String
  | .value _ => c.palette.edge
  | .order => c.palette.dark
  | .const _ | .function _ => c.palette.const
  | .cf => c.palette.dark

/-- `kind = hugr.port_kind(src_port); self._viz_link(src_port, tgt_port, kind, graph)` -/
def vizLink (E : Strs) (c : RenderConfig) (s : St) (l : Port × Port) : Except Err EdgeStmt :=
  match liftS (Store.getNode s l.1.1) with
  | .error e => .error e
  | .ok d =>
    match liftO (Op.hugrPortKind d.op .out l.1.2) with
    | .error e => .error e
    | .ok k =>
      .ok { srcNode := l.1.1, srcOff := l.1.2, dstNode := l.2.1, dstOff := l.2.2,
            label := kindLabel E k, color := kindColor c k }

/-- `for src_port, tgt_port in hugr.links(): …` -/
def vizLinks (E : Strs) (c : RenderConfig) (s : St) : List (Port × Port) → Except Err (List EdgeStmt)
  | [] => .ok []
  | l :: ls =>
    match vizLink E c s l with
    | .error e => .error e
    | .ok e =>
      match vizLinks E c s ls with
      | .error er => .error er
      | .ok es => .ok (e :: es)

/-- `DotRenderer(config).render(hugr)` as observed through `.source`. -/
def render (E : Strs) (s : St) (c : RenderConfig) : Except Err RenderOut :=
  match liftS (Store.getNode s s.root) with
  | .error e => .error e
  | .ok d =>
    match vizNode E c s (s.nodes.length + 1) s.root with
    | .error e => .error e
    | .ok root =>
      match vizLinks E c s (Store.linksList s) with
      | .error e => .error e
      | .ok edges =>
        -- the graph name is only looked at when the source text is produced
        match graphName d.md with
        | .error e => .error e
        | .ok name => .ok { name, bgcolor := c.palette.background, root, edges }

/-! ### views used by the property statements -/

mutual
  /-- node statements in document order -/
  def Item.nodeStmts : Item → List NodeStmt
    | .node n => [n]
    | .cluster _ _ body => Item.nodeStmtsList body
  def Item.nodeStmtsList : List Item → List NodeStmt
    | [] => []
    | it :: its => Item.nodeStmts it ++ Item.nodeStmtsList its
end

mutual
  /-- indices of the clusters in document order -/
  def Item.clusters : Item → List Nat
    | .node _ => []
    | .cluster i _ body => i :: Item.clustersList body
  def Item.clustersList : List Item → List Nat
    | [] => []
    | it :: its => Item.clusters it ++ Item.clustersList its
end

mutual
  /-- apply `f` to every node statement and `g` to every cluster colour -/
  def Item.map (f : NodeStmt → NodeStmt) (g : String → String) : Item → Item
    | .node n => .node (f n)
    | .cluster i col body => .cluster i (g col) (Item.mapList f g body)
  def Item.mapList (f : NodeStmt → NodeStmt) (g : String → String) : List Item → List Item
    | [] => []
    | it :: its => Item.map f g it :: Item.mapList f g its
end

def Cell.eraseColours (c : Cell) : Cell := { c with bg := "", border := "", font := "" }

def NodeStmt.eraseColours (n : NodeStmt) : NodeStmt :=
  { n with fill := "", border := "", font := "",
           inCells := n.inCells.map Cell.eraseColours, outCells := n.outCells.map Cell.eraseColours }

def NodeStmt.eraseName (n : NodeStmt) : NodeStmt := { n with name := "" }

def EdgeStmt.eraseColours (e : EdgeStmt) : EdgeStmt := { e with color := "" }

/-- the source with every colour erased -/
def RenderOut.eraseColours (o : RenderOut) : RenderOut :=
  { o with bgcolor := "", root := o.root.map NodeStmt.eraseColours (fun _ => ""),
           edges := o.edges.map EdgeStmt.eraseColours }

/-- the source with every operation name erased -/
def RenderOut.eraseNames (o : RenderOut) : RenderOut :=
  { o with root := o.root.map NodeStmt.eraseName id }

end Render
end HugrVerif
