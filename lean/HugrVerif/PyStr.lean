/-
  Python `str()` / `repr()` of the objects render.py prints: types (`hugr/tys.py`), type arguments and
  parameters, constant values (`hugr/val.py`) and JSON-like metadata / payload values.  Import-free apart
  from Tys / Val / Json.

  FAITHFUL FOR THE CLASSES `deserialize()` PRODUCES (`tys.Sum`, `tys.UnitSum`, `Variable`, `RowVariable`,
  `USize`, `Alias`, `FunctionType`, `PolyFuncType`, `Opaque`, `Qubit`; `val.Sum`, `val.Tuple`,
  `val.Extension`): the sugar classes (`tys.Tuple`, `tys.Option`, `val.Some`, …) print differently although
  they denote the same `Ty` / `Value`, so a HUGR is rendered by the model in the form `Hugr.load_json`
  gives it.  `none` = not modelled (`repr` of an `ExtType`, which prints its whole `TypeDef`, and of a
  `val.Function`, which prints a `Hugr` object): the driver answers `!unsupported`.

  `str.isprintable` of a non-ASCII character is the Unicode database's business: the set `np` of
  non-printable non-ASCII code points occurring in the input is supplied by the harness.
-/
import HugrVerif.Tys
import HugrVerif.Val

namespace HugrVerif.PyStr

def hexDigit (n : Nat) : Char := if n < 10 then Char.ofNat (48 + n) else Char.ofNat (87 + n)

/-- `width` lower-case hexadecimal digits of `n` -/
def hex : Nat → Nat → String
  | 0, _ => ""
  | w + 1, n => hex w (n / 16) ++ String.singleton (hexDigit (n % 16))

/-- one character of `repr(str)` (CPython `unicode_repr`) -/
def reprChar (np : List Nat) (quote : Char) (c : Char) : String :=
  let n := c.toNat
  if c = quote ∨ c = '\\' then "\\" ++ String.singleton c
  else if c = '\t' then "\\t"
  else if c = '\n' then "\\n"
  else if c = '\r' then "\\r"
  else if n < 32 ∨ n = 127 then "\\x" ++ hex 2 n
  else if n < 127 then String.singleton c
  else if np.contains n then
    if n < 256 then "\\x" ++ hex 2 n
    else if n < 65536 then "\\u" ++ hex 4 n
    else "\\U" ++ hex 8 n
  else String.singleton c

/-- `repr(s)` of a Python `str`: single quotes unless the string contains `'` and no `"`. -/
def reprStr (np : List Nat) (s : String) : String :=
  let cs := s.toList
  let quote : Char := if cs.contains '\'' ∧ ¬ cs.contains '"' then '"' else '\''
  String.singleton quote ++ String.join (cs.map (reprChar np quote)) ++ String.singleton quote

def commaSep (xs : List String) : String := ", ".intercalate xs
/-- `repr` of a Python list given the `repr`s of its elements -/
def listRepr (xs : List String) : String := "[" ++ commaSep xs ++ "]"

/-- `str(TypeBound)` -/
def boundStr : Bound → String
  | .copyable => "Copyable"
  | .any => "Any"
/-- `repr(TypeBound)` (an `Enum`) -/
def boundRepr : Bound → String
  | .copyable => "<TypeBound.Copyable: 'C'>"
  | .any => "<TypeBound.Any: 'A'>"

mutual
  /-- `str(param)` -/
  def paramStr : TypeParam → String
    | .type b => boundStr b
    | .boundedNat none => "Nat"
    | .boundedNat (some n) => "Nat(" ++ toString n ++ ")"
    | .string => "String"
    | .list p => "[" ++ paramStr p ++ "]"
    | .tuple ps => "(" ++ commaSep (paramsStr ps) ++ ")"
    | .extensions => "Extensions"
  def paramsStr : List TypeParam → List String
    | [] => []
    | p :: ps => paramStr p :: paramsStr ps
end

mutual
  /-- `repr(param)` (the dataclass `repr`) -/
  def paramRepr : TypeParam → String
    | .type b => "TypeTypeParam(bound=" ++ boundRepr b ++ ")"
    | .boundedNat none => "BoundedNatParam(upper_bound=None)"
    | .boundedNat (some n) => "BoundedNatParam(upper_bound=" ++ toString n ++ ")"
    | .string => "StringParam()"
    | .list p => "ListParam(param=" ++ paramRepr p ++ ")"
    | .tuple ps => "TupleParam(params=" ++ listRepr (paramsRepr ps) ++ ")"
    | .extensions => "ExtensionsParam()"
  def paramsRepr : List TypeParam → List String
    | [] => []
    | p :: ps => paramRepr p :: paramsRepr ps
end

/-- `_type_str(name, args)` given the `str`s of the arguments -/
def typeStr (name : String) (args : List String) : String :=
  if args.length = 0 then name else name ++ "<" ++ commaSep args ++ ">"

mutual
  /-- `str(ty)` -/
  def tyStr (np : List Nat) : Ty → Option String
    | .function i o _ => do
      pure (commaSep (← rowStr np i) ++ " -> " ++ commaSep (← rowStr np o))
    | .poly ps i o _ => do
      pure ("∀ " ++ commaSep (paramsStr ps) ++ ". " ++ commaSep (← rowStr np i) ++ " -> " ++ commaSep (← rowStr np o))
    | .extType d args => do pure (typeStr d.name (← argsStr np args))
    | .opaque id _ args _ => do pure (typeStr id (← argsStr np args))
    -- the other classes define `__repr__` only
    | .sum rows => do pure ("Sum(" ++ listRepr (← rowsRepr np rows) ++ ")")
    | .unitSum n => pure (if n = 2 then "Bool" else if n = 1 then "Unit" else "UnitSum(" ++ toString n ++ ")")
    | .variable i _ => pure ("$" ++ toString i)
    | .rowVariable i _ => pure ("$" ++ toString i)
    | .usize => pure "USize"
    | .alias name _ => pure name
    | .qubit => pure "Qubit"
  /-- `repr(ty)` -/
  def tyRepr (np : List Nat) : Ty → Option String
    | .sum rows => do pure ("Sum(" ++ listRepr (← rowsRepr np rows) ++ ")")
    | .unitSum n => pure (if n = 2 then "Bool" else if n = 1 then "Unit" else "UnitSum(" ++ toString n ++ ")")
    | .variable i _ => pure ("$" ++ toString i)
    | .rowVariable i _ => pure ("$" ++ toString i)
    | .usize => pure "USize"
    | .alias name _ => pure name
    | .function i o _ => do
      pure ("FunctionType(" ++ listRepr (← rowRepr np i) ++ ", " ++ listRepr (← rowRepr np o) ++ ")")
    | .poly ps i o _ => do
      pure ("PolyFuncType(params=" ++ listRepr (paramsRepr ps) ++ ", body=FunctionType(" ++
        listRepr (← rowRepr np i) ++ ", " ++ listRepr (← rowRepr np o) ++ "))")
    | .extType _ _ => none
    | .opaque id b args ext => do
      pure ("Opaque(id=" ++ reprStr np id ++ ", bound=" ++ boundRepr b ++ ", args=" ++
        listRepr (← argsRepr np args) ++ ", extension=" ++ reprStr np ext ++ ")")
    | .qubit => pure "Qubit"
  def rowStr (np : List Nat) : List Ty → Option (List String)
    | [] => pure []
    | t :: ts => do pure ((← tyStr np t) :: (← rowStr np ts))
  def rowRepr (np : List Nat) : List Ty → Option (List String)
    | [] => pure []
    | t :: ts => do pure ((← tyRepr np t) :: (← rowRepr np ts))
  /-- the `repr` of every row (a Python list of types) -/
  def rowsRepr (np : List Nat) : List (List Ty) → Option (List String)
    | [] => pure []
    | r :: rs => do pure (listRepr (← rowRepr np r) :: (← rowsRepr np rs))
  /-- `str(arg)` -/
  def argStr (np : List Nat) : TypeArg → Option String
    | .type t => do pure ("Type(" ++ (← tyStr np t) ++ ")")
    | .boundedNat n => pure (toString n)
    | .string s => pure ("\"" ++ s ++ "\"")
    | .sequence es => do pure ("(" ++ commaSep (← argsStr np es) ++ ")")
    | .extensions es => pure ("Extensions(" ++ commaSep es ++ ")")
    | .variable i _ => pure ("$" ++ toString i)
  /-- `repr(arg)` (the dataclass `repr`) -/
  def argRepr (np : List Nat) : TypeArg → Option String
    | .type t => do pure ("TypeTypeArg(ty=" ++ (← tyRepr np t) ++ ")")
    | .boundedNat n => pure ("BoundedNatArg(n=" ++ toString n ++ ")")
    | .string s => pure ("StringArg(value=" ++ reprStr np s ++ ")")
    | .sequence es => do pure ("SequenceArg(elems=" ++ listRepr (← argsRepr np es) ++ ")")
    | .extensions es => pure ("ExtensionsArg(extensions=" ++ listRepr (es.map (reprStr np)) ++ ")")
    | .variable i p => pure ("VariableArg(idx=" ++ toString i ++ ", param=" ++ paramRepr p ++ ")")
  def argsStr (np : List Nat) : List TypeArg → Option (List String)
    | [] => pure []
    | a :: as => do pure ((← argStr np a) :: (← argsStr np as))
  def argsRepr (np : List Nat) : List TypeArg → Option (List String)
    | [] => pure []
    | a :: as => do pure ((← argRepr np a) :: (← argsRepr np as))
end

mutual
  /-- `repr(v)` of a JSON value held as Python objects (`dict`, `list`, `str`, `int`, `float`, `bool`,
      `None`); a `float` carries its `repr` as the literal. -/
  def jsonRepr (np : List Nat) : Json → String
    | .null => "None"
    | .bool b => if b then "True" else "False"
    | .int i => toString i
    | .num lit => lit
    | .str s => reprStr np s
    | .arr xs => "[" ++ commaSep (jsonReprList np xs) ++ "]"
    | .obj kvs => "{" ++ commaSep (jsonReprFields np kvs) ++ "}"
  def jsonReprList (np : List Nat) : List Json → List String
    | [] => []
    | x :: xs => jsonRepr np x :: jsonReprList np xs
  def jsonReprFields (np : List Nat) : List (String × Json) → List String
    | [] => []
    | (k, v) :: rest => (reprStr np k ++ ": " ++ jsonRepr np v) :: jsonReprFields np rest
end

/-- `str(v)` of such a value: a `str` prints itself. -/
def jsonStr (np : List Nat) : Json → String
  | .str s => s
  | j => jsonRepr np j

mutual
  /-- `str(v)` = `repr(v)` of a constant value (`val.Sum` is a plain dataclass, `val.Tuple` has its own
      `__repr__`, `val.Extension` is a plain dataclass). -/
  def valRepr (np : List Nat) : Value → Option String
    | .sum tag typ vals => do
      pure ("Sum(tag=" ++ toString tag ++ ", typ=" ++ (← tyRepr np typ) ++ ", vals=" ++
        listRepr (← valsRepr np vals) ++ ")")
    | .tuple vals => do pure ("Tuple(" ++ commaSep (← valsRepr np vals) ++ ")")
    | .function _ _ _ _ => none
    | .ext name typ payload exts => do
      pure ("Extension(name=" ++ reprStr np name ++ ", typ=" ++ (← tyRepr np typ) ++ ", val=" ++
        jsonRepr np payload ++ ", extensions=" ++ listRepr (exts.map (reprStr np)) ++ ")")
  def valsRepr (np : List Nat) : List Value → Option (List String)
    | [] => pure []
    | v :: vs => do pure ((← valRepr np v) :: (← valsRepr np vs))
end

end HugrVerif.PyStr
