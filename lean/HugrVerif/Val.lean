/-
  L2/L3: constant values — `hugr/val.py` and the value models of `hugr/_serialization/ops.py`.
  Import-free apart from `Json`/`Tys`.

  * `sum`    — `val.Sum(tag, typ, vals)`; the sugar `UnitSum / Some / None_ / Left / Right / bool_value`
               are ordinary `sum`s built by the helper functions below (they encode as `SumValue`).
  * `tuple`  — `val.Tuple(*vals)`: a separate constructor because it encodes as `TupleValue`,
               although it compares equal to `sum 0 (Tuple types) vals`.
  * `function` — `val.Function(body)`: the body HUGR is carried as its serialised document together
               with the inner signature of its root operation (what `type_()` reports).
  * `ext`    — `val.Extension(name, typ, val, extensions)` with an arbitrary JSON payload.
-/
import HugrVerif.Tys

namespace HugrVerif

inductive Value where
  | sum (tag : Nat) (typ : Ty) (vals : List Value)
  | tuple (vals : List Value)
  | function (inp out : List Ty) (reqs : List String) (body : Json)
  | ext (name : String) (typ : Ty) (payload : Json) (exts : List String)

instance : Inhabited Value := ⟨.tuple []⟩

namespace Value

mutual
  /-- `type_()` -/
  def typeOf : Value → Ty
    | .sum _ typ _ => typ
    | .tuple vals => Ty.tuple (typesOf vals)
    | .function i o r _ => .function i o r
    | .ext _ typ _ _ => typ
  def typesOf : List Value → List Ty
    | [] => []
    | v :: vs => typeOf v :: typesOf vs
end

/-! helper constructors (`val.py:96-288`) -/
def unitSum (tag size : Nat) : Value := .sum tag (.unitSum size) []
def boolValue (b : Bool) : Value := unitSum (if b then 1 else 0) 2
def unit : Value := unitSum 0 1
def some (vals : List Value) : Value := .sum 1 (Ty.option (typesOf vals)) vals
def none (tys : List Ty) : Value := .sum 0 (Ty.option tys) []
def left (vals : List Value) (rightTy : List Ty) : Value := .sum 0 (Ty.either (typesOf vals) rightTy) vals
def right (leftTy : List Ty) (vals : List Value) : Value := .sum 1 (Ty.either leftTy (typesOf vals)) vals

end Value

namespace Codec
open Json

mutual
  /-- `_to_serial_root()` + `model_dump` -/
  def encVal : Value → Except EncErr Json
    | .sum tag typ vals => do
      pure (.obj [("v", .str "Sum"), ("tag", .int tag), ("typ", ← encTy typ), ("vs", .arr (← encVals vals))])
    | .tuple vals => do pure (.obj [("v", .str "Tuple"), ("vs", .arr (← encVals vals))])
    | .function _ _ _ body => pure (.obj [("v", .str "Function"), ("hugr", body)])
    | .ext name typ payload exts => do
      pure (.obj [("v", .str "Extension"), ("extensions", encStrs exts), ("typ", ← encTy typ),
        ("value", .obj [("c", .str name), ("v", payload)])])
  def encVals : List Value → Except EncErr (List Json)
    | [] => pure []
    | v :: vs => do pure ((← encVal v) :: (← encVals vs))
end

/-- Decoding; `fnSig` gives the inner signature of the root operation of a serialised HUGR
    (`Hugr._from_serial(...).root_op().inner_signature()`), supplied by the operation layer. -/
def decVal (fnSig : Json → Except DecErr (List Ty × List Ty × List String)) : Nat → Json → Except DecErr Value
  | 0, _ => throw .fuel
  | fuel + 1, j => do
    let kvs ← asObj j
    match ← asStr (← req "v" kvs) with
    | "Sum" => do
      let typ ← decSumType fuel (← req "typ" kvs)
      pure (.sum (← asNat (← req "tag" kvs)) typ (← (← asArr (← req "vs" kvs)).mapM (decVal fnSig fuel)))
    | "Tuple" => do pure (.tuple (← (← asArr (← req "vs" kvs)).mapM (decVal fnSig fuel)))
    | "Function" => do
      let body ← req "hugr" kvs
      let (i, o, r) ← fnSig body
      pure (.function i o r body)
    | "Extension" => do
      let vkvs ← asObj (← req "value" kvs)
      pure (.ext (← asStr (← req "c" vkvs)) (← decTy fuel (← req "typ" kvs)) (← req "v" vkvs)
        (← decStrs (← req "extensions" kvs)))
    | _ => throw .validation

end Codec
end HugrVerif
