/-
  L2/L3: the type layer of the data model — `hugr/tys.py` and `hugr/_serialization/tys.py`.
  Types, type parameters, type arguments; `type_bound`; JSON encoding (`_to_serial` +
  `model_dump`) and decoding (pydantic structural validation as configured + `deserialize`).
  Import-free apart from `Json`.

  Sugar classes (`Tuple`, `Option`, `Either`) build an ordinary `Sum` with particular rows and are
  not separate constructors: `Ty.tuple ts = .sum [ts]` etc.  `UnitSum` *is* a separate constructor
  because it encodes differently although it compares equal to the general sum with empty rows.
-/
import HugrVerif.Json

namespace HugrVerif

inductive Bound where
  | copyable | any
deriving DecidableEq, Repr, Inhabited

/-- `TypeBound.join`, as the loop is written. -/
def Bound.join (bs : List Bound) : Bound :=
  let rec go (res : Bound) : List Bound → Bound
    | [] => res
    | b :: rest => if b = .any then .any else go (if res = .copyable then b else res) rest
  go .copyable bs

inductive TypeParam where
  | type (b : Bound)
  | boundedNat (ub : Option Int)
  | string
  | list (p : TypeParam)
  | tuple (ps : List TypeParam)
  | extensions
deriving Repr, Inhabited

/-- `TypeDef.bound`: explicit, or the join over the type arguments at the given indices. -/
inductive DefBound where
  | explicit (b : Bound)
  | fromParams (idxs : List Int)
deriving Repr, Inhabited, DecidableEq

/-- The part of a `TypeDef` a type refers to. -/
structure TypeDefRef where
  ext : String
  name : String
  description : String
  params : List TypeParam
  bound : DefBound
deriving Repr, Inhabited

mutual
  inductive Ty where
    | sum (rows : List (List Ty))
    | unitSum (size : Nat)
    | variable (idx : Nat) (b : Bound)
    | rowVariable (idx : Nat) (b : Bound)
    | usize
    | alias (name : String) (b : Bound)
    | function (inp out : List Ty) (reqs : List String)
    | poly (params : List TypeParam) (inp out : List Ty) (reqs : List String)
    | extType (d : TypeDefRef) (args : List TypeArg)
    | opaque (id : String) (b : Bound) (args : List TypeArg) (ext : String)
    | qubit
  inductive TypeArg where
    | type (t : Ty)
    | boundedNat (n : Int)
    | string (s : String)
    | sequence (elems : List TypeArg)
    | extensions (es : List String)
    | variable (idx : Nat) (p : TypeParam)
end

instance : Inhabited Ty := ⟨.qubit⟩
instance : Inhabited TypeArg := ⟨.boundedNat 0⟩

namespace Ty

/-- sugar constructors -/
def tuple (ts : List Ty) : Ty := .sum [ts]
def option (ts : List Ty) : Ty := .sum [[], ts]
def either (l r : List Ty) : Ty := .sum [l, r]
def bool : Ty := .unitSum 2
def unit : Ty := .unitSum 1

inductive BErr where
  | indexError   -- `self.args[idx]` out of range in `ExtType.type_bound`
deriving Repr, DecidableEq

/-- Python list indexing with an `int` (negative indices count from the end). -/
def pyIndex {α : Type} (l : List α) (i : Int) : Option α :=
  if 0 ≤ i then l[i.toNat]?
  else if -(l.length : Int) ≤ i then l[((l.length : Int) + i).toNat]?
  else none

mutual
  /-- `type_bound()` -/
  def bound : Ty → Except BErr Bound
    | .sum rows => do pure (Bound.join (← boundRows rows))
    | .unitSum _ => pure .copyable        -- join over no element types
    | .variable _ b => pure b
    | .rowVariable _ b => pure b
    | .usize => pure .copyable
    | .alias _ b => pure b
    | .function _ _ _ => pure .copyable
    | .poly _ _ _ _ => pure .copyable
    | .extType d args =>
      match d.bound with
      | .explicit b => pure b
      | .fromParams idxs => do
        -- `for idx in indices: arg = self.args[idx]; if isinstance(arg, TypeTypeArg): …`
        let bs := boundArgs args
        let picked ← idxs.mapM (fun i => match pyIndex bs i with
          | some none => pure none                         -- not a type argument: skipped
          | some (some (.ok b)) => pure (some b)
          | some (some (.error e)) => throw e              -- nested `type_bound()` raised
          | none => throw BErr.indexError)
        pure (Bound.join (picked.filterMap id))
    | .opaque _ b _ _ => pure b
    | .qubit => pure .any
  /-- bounds of all element types of all rows, flattened in order -/
  def boundRows : List (List Ty) → Except BErr (List Bound)
    | [] => pure []
    | r :: rs => do pure ((← boundRow r) ++ (← boundRows rs))
  def boundRow : List Ty → Except BErr (List Bound)
    | [] => pure []
    | t :: ts => do pure ((← bound t) :: (← boundRow ts))
  /-- per argument: `some (type_bound of the type)` for a `TypeTypeArg`, `none` otherwise
      (evaluated lazily in Python: an error only matters if the argument is indexed) -/
  def boundArgs : List TypeArg → List (Option (Except BErr Bound))
    | [] => []
    | .type t :: as => some (bound t) :: boundArgs as
    | _ :: as => none :: boundArgs as
end

end Ty

/-! ### encoding -/

namespace Codec
open Json

def encBound : Bound → Json
  | .copyable => .str "C"
  | .any => .str "A"

def encStrs (xs : List String) : Json := .arr (xs.map .str)

mutual
  def encParam : TypeParam → Json
    | .type b => .obj [("tp", .str "Type"), ("b", encBound b)]
    | .boundedNat ub => .obj [("tp", .str "BoundedNat"), ("bound", match ub with | none => .null | some n => .int n)]
    | .string => .obj [("tp", .str "String")]
    | .list p => .obj [("tp", .str "List"), ("param", encParam p)]
    | .tuple ps => .obj [("tp", .str "Tuple"), ("params", .arr (encParams ps))]
    | .extensions => .obj [("tp", .str "Extensions")]
  def encParams : List TypeParam → List Json
    | [] => []
    | p :: ps => encParam p :: encParams ps
end

/-- Serialised `bound` of an extension type: `type_bound()`; when that raises, encoding raises.
    `validationError`: `PolyFuncType._to_serial_root()` — a polymorphic function type is not a member
    of the serialised `Type` union, so it raises pydantic's `ValidationError` wherever a *type* is
    serialised (row element, `TypeTypeArg.ty`); it is only serialisable as a field (`_to_serial()`),
    which is what `encTy (.poly …)` at the root gives. -/
inductive EncErr where
  | indexError
  | validationError
deriving Repr, DecidableEq

mutual
  def encTy : Ty → Except EncErr Json
    | .sum rows => do pure (.obj [("t", .str "Sum"), ("s", .str "General"), ("rows", .arr (← encRows rows))])
    | .unitSum n => pure (.obj [("t", .str "Sum"), ("s", .str "Unit"), ("size", .int n)])
    | .variable i b => pure (.obj [("t", .str "V"), ("i", .int i), ("b", encBound b)])
    | .rowVariable i b => pure (.obj [("t", .str "R"), ("i", .int i), ("b", encBound b)])
    | .usize => pure (.obj [("t", .str "I")])
    | .alias name b => pure (.obj [("t", .str "Alias"), ("bound", encBound b), ("name", .str name)])
    | .function inp out reqs => do
      pure (.obj [("t", .str "G"), ("input", .arr (← encRow inp)), ("output", .arr (← encRow out)),
        ("runtime_reqs", encStrs reqs)])
    | .poly ps inp out reqs => do
      pure (.obj [("params", .arr (encParams ps)),
        ("body", .obj [("t", .str "G"), ("input", .arr (← encRow inp)), ("output", .arr (← encRow out)),
          ("runtime_reqs", encStrs reqs)])])
    | .extType d args => do
      let b ← match Ty.bound (.extType d args) with
        | .ok b => pure b
        | .error _ => throw EncErr.indexError
      pure (.obj [("t", .str "Opaque"), ("extension", .str d.ext), ("id", .str d.name),
        ("args", .arr (← encArgs args)), ("bound", encBound b)])
    | .opaque id b args ext => do
      pure (.obj [("t", .str "Opaque"), ("extension", .str ext), ("id", .str id),
        ("args", .arr (← encArgs args)), ("bound", encBound b)])
    | .qubit => pure (.obj [("t", .str "Q")])
  def encRow : List Ty → Except EncErr (List Json)
    | [] => pure []
    | .poly _ _ _ _ :: _ => throw EncErr.validationError     -- `ser_it`: `_to_serial_root()` raises
    | t :: ts => do pure ((← encTy t) :: (← encRow ts))
  def encRows : List (List Ty) → Except EncErr (List Json)
    | [] => pure []
    | r :: rs => do pure (.arr (← encRow r) :: (← encRows rs))
  def encArg : TypeArg → Except EncErr Json
    | .type (.poly _ _ _ _) => throw EncErr.validationError  -- `self.ty._to_serial_root()` raises
    | .type t => do pure (.obj [("tya", .str "Type"), ("ty", ← encTy t)])
    | .boundedNat n => pure (.obj [("tya", .str "BoundedNat"), ("n", .int n)])
    | .string s => pure (.obj [("tya", .str "String"), ("arg", .str s)])
    | .sequence es => do pure (.obj [("tya", .str "Sequence"), ("elems", .arr (← encArgs es))])
    | .extensions es => pure (.obj [("tya", .str "Extensions"), ("es", encStrs es)])
    | .variable i p => pure (.obj [("tya", .str "Variable"), ("idx", .int i), ("cached_decl", encParam p)])
  def encArgs : List TypeArg → Except EncErr (List Json)
    | [] => pure []
    | a :: as => do pure ((← encArg a) :: (← encArgs as))
end

/-! ### decoding (pydantic structural validation + `deserialize`) -/

inductive DecErr where
  | validation       -- pydantic `ValidationError`
  | fuel             -- recursion budget exhausted (driver passes the document size: unreachable)
deriving Repr, DecidableEq

def field (k : String) : List (String × Json) → Option Json
  | [] => none
  | (l, v) :: rest => if l = k then some v else field k rest

def req (k : String) (kvs : List (String × Json)) : Except DecErr Json :=
  match field k kvs with
  | some v => pure v
  | none => throw .validation

def asStr : Json → Except DecErr String
  | .str s => pure s
  | _ => throw .validation

def asInt : Json → Except DecErr Int
  | .int i => pure i
  | _ => throw .validation

def asNat (j : Json) : Except DecErr Nat := do
  let i ← asInt j
  if 0 ≤ i then pure i.toNat else throw .validation

def asArr : Json → Except DecErr (List Json)
  | .arr xs => pure xs
  | _ => throw .validation

def asObj : Json → Except DecErr (List (String × Json))
  | .obj kvs => pure kvs
  | _ => throw .validation

def decBound : Json → Except DecErr Bound
  | .str "C" => pure .copyable
  | .str "A" => pure .any
  | _ => throw .validation

def decStrs (j : Json) : Except DecErr (List String) := do (← asArr j).mapM asStr

/-- `runtime_reqs: ExtensionSet = Field(default_factory=ExtensionSet)` -/
def decReqs (kvs : List (String × Json)) : Except DecErr (List String) :=
  match field "runtime_reqs" kvs with
  | none => pure []
  | some j => decStrs j

def decParam : Nat → Json → Except DecErr TypeParam
  | 0, _ => throw .fuel
  | fuel + 1, j => do
    let kvs ← asObj j
    match ← asStr (← req "tp" kvs) with
    | "Type" => do pure (.type (← decBound (← req "b" kvs)))
    | "BoundedNat" => do
      match ← req "bound" kvs with
      | .null => pure (.boundedNat none)
      | .int n => pure (.boundedNat (some n))
      | _ => throw .validation
    | "String" => pure .string
    | "List" => do pure (.list (← decParam fuel (← req "param" kvs)))
    | "Tuple" => do pure (.tuple (← (← asArr (← req "params" kvs)).mapM (decParam fuel)))
    | "Extensions" => pure .extensions
    | _ => throw .validation

mutual
  def decTy : Nat → Json → Except DecErr Ty
    | 0, _ => throw .fuel
    | fuel + 1, j => do
      let kvs ← asObj j
      match ← asStr (← req "t" kvs) with
      | "Q" => pure .qubit
      | "V" => do pure (.variable (← asNat (← req "i" kvs)) (← decBound (← req "b" kvs)))
      | "R" => do pure (.rowVariable (← asNat (← req "i" kvs)) (← decBound (← req "b" kvs)))
      | "I" => pure .usize
      | "G" => do
        pure (.function (← decRow fuel (← req "input" kvs)) (← decRow fuel (← req "output" kvs)) (← decReqs kvs))
      | "Sum" => do
        match ← asStr (← req "s" kvs) with
        | "Unit" => do pure (.unitSum (← asNat (← req "size" kvs)))
        | "General" => do pure (.sum (← (← asArr (← req "rows" kvs)).mapM (decRow fuel)))
        | _ => throw .validation
      | "Opaque" => do
        pure (.opaque (← asStr (← req "id" kvs)) (← decBound (← req "bound" kvs))
          (← (← asArr (← req "args" kvs)).mapM (decArg fuel)) (← asStr (← req "extension" kvs)))
      | "Alias" => do pure (.alias (← asStr (← req "name" kvs)) (← decBound (← req "bound" kvs)))
      | _ => throw .validation
  def decRow : Nat → Json → Except DecErr (List Ty)
    | 0, _ => throw .fuel
    | fuel + 1, j => do (← asArr j).mapM (decTy fuel)
  def decArg : Nat → Json → Except DecErr TypeArg
    | 0, _ => throw .fuel
    | fuel + 1, j => do
      let kvs ← asObj j
      match ← asStr (← req "tya" kvs) with
      | "Type" => do pure (.type (← decTy fuel (← req "ty" kvs)))
      | "BoundedNat" => do pure (.boundedNat (← asInt (← req "n" kvs)))
      | "String" => do pure (.string (← asStr (← req "arg" kvs)))
      | "Sequence" => do pure (.sequence (← (← asArr (← req "elems" kvs)).mapM (decArg fuel)))
      | "Extensions" => do pure (.extensions (← decStrs (← req "es" kvs)))
      | "Variable" => do pure (.variable (← asNat (← req "idx" kvs)) (← decParam fuel (← req "cached_decl" kvs)))
      | _ => throw .validation
end

/-- `SumType` as a field (`SumValue.typ`): discriminated by `s`; the `t` tag has a default. -/
def decSumType (fuel : Nat) (j : Json) : Except DecErr Ty := do
  let kvs ← asObj j
  match field "t" kvs with
  | none => pure ()
  | some (.str "Sum") => pure ()
  | some _ => throw .validation
  match ← asStr (← req "s" kvs) with
  | "Unit" => do pure (.unitSum (← asNat (← req "size" kvs)))
  | "General" => do pure (.sum (← (← asArr (← req "rows" kvs)).mapM (decRow fuel)))
  | _ => throw .validation

/-- `FunctionType` as a field (`signature`, `body`): the `t` tag has a default and is not required. -/
def decFuncType (fuel : Nat) (j : Json) : Except DecErr (List Ty × List Ty × List String) := do
  let kvs ← asObj j
  match field "t" kvs with
  | none => pure ()
  | some (.str "G") => pure ()
  | some _ => throw .validation
  pure (← decRow fuel (← req "input" kvs), ← decRow fuel (← req "output" kvs), ← decReqs kvs)

/-- `PolyFuncType` as a field (`signature` of FuncDefn/FuncDecl, `func_sig`). -/
def decPoly (fuel : Nat) (j : Json) : Except DecErr Ty := do
  let kvs ← asObj j
  let ps ← (← asArr (← req "params" kvs)).mapM (decParam fuel)
  let (i, o, r) ← decFuncType fuel (← req "body" kvs)
  pure (.poly ps i o r)

end Codec

/-! ### what decoding an encoded type gives back: extension types in opaque form -/

namespace Ty
mutual
  def norm : Ty → Ty
    | .sum rows => .sum (normRows rows)
    | .function i o r => .function (normRow i) (normRow o) r
    | .poly ps i o r => .poly ps (normRow i) (normRow o) r
    | .extType d args =>
      match bound (.extType d args) with
      | .ok b => .opaque d.name b (normArgs args) d.ext
      | .error _ => .extType d (normArgs args)     -- cannot be encoded at all
    | .opaque id b args ext => .opaque id b (normArgs args) ext
    | t => t
  def normRow : List Ty → List Ty
    | [] => []
    | t :: ts => norm t :: normRow ts
  def normRows : List (List Ty) → List (List Ty)
    | [] => []
    | r :: rs => normRow r :: normRows rs
  def normArg : TypeArg → TypeArg
    | .type t => .type (norm t)
    | .sequence es => .sequence (normArgs es)
    | a => a
  def normArgs : List TypeArg → List TypeArg
    | [] => []
    | a :: as => normArg a :: normArgs as
end
end Ty

end HugrVerif
