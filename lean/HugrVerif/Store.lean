/-
  L1: model of the HUGR graph store, `hugr.hugr.base.Hugr` (hugr-py/src/hugr/hugr/base.py),
  statement by statement, for the mutators and queries property C04 enumerates
  (and `insert_hugr`, C08).  Import-free.

  * nodes      `_nodes : list[NodeData | None]`
  * links      `_links : BiMap[_SubPort[OutPort], _SubPort[InPort]]`
  * free       `_free_nodes` (a stack: `pop()` takes the last element)
  * the operation payload `Ω` and metadata `μ` are parameters: the store never inspects them.

  Python exceptions are `Except Err`; a raising call ends a history (the state after a raise
  is not modelled, DESIGN F25).
-/
import HugrVerif.BiMap

namespace HugrVerif
open Py

/-- `_SubPort(port, sub_offset)`; the direction is fixed by which side of the BiMap it is on. -/
structure SubPort where
  node : Nat
  offset : Int
  sub : Nat
deriving DecidableEq, Repr

/-- `InPort` / `OutPort` as (node index, offset); equality ignores handle metadata. -/
abbrev Port := Nat × Int

def SubPort.port (p : SubPort) : Port := (p.node, p.offset)
def SubPort.next (p : SubPort) : SubPort := { p with sub := p.sub + 1 }

namespace Store

inductive Err where
  | keyError          -- `self[node]` on a missing node, dict lookups
  | valueError        -- `list.remove` / `list.index` of an absent element
  | parentBeforeChild
deriving Repr, DecidableEq

/-- A `Node` handle as stored in a children list: index and `_num_out_ports`. -/
abbrev Handle := Nat × Option Nat

structure NodeData (Ω μ : Type) where
  op : Ω
  parent : Option Nat
  numInps : Nat
  numOuts : Nat
  children : List Handle
  md : μ
deriving Repr

end Store

structure Store (Ω μ : Type) where
  nodes : List (Option (Store.NodeData Ω μ))
  links : BiMap SubPort SubPort
  free : List Nat
  root : Nat
deriving Repr

namespace Store
variable {Ω μ : Type}

/-- `self[node]` (`__getitem__`): `KeyError` for an index out of range or a deleted slot. -/
def getNode (s : Store Ω μ) (i : Nat) : Except Err (NodeData Ω μ) :=
  match s.nodes[i]? with
  | some (some d) => .ok d
  | _ => .error .keyError

def setNode (s : Store Ω μ) (i : Nat) (d : Option (NodeData Ω μ)) : Store Ω μ :=
  { s with nodes := s.nodes.set i d }

/-- Update the data of a live node in place (`self[node].field = …`). -/
def modifyNode (s : Store Ω μ) (i : Nat) (f : NodeData Ω μ → NodeData Ω μ) : Except Err (Store Ω μ) := do
  let d ← getNode s i
  pure (setNode s i (some (f d)))

/-- `children[pos] = node` with `pos = children.index(node)` (first handle with that index). -/
def replaceFirst (i : Nat) (h : Handle) : List Handle → Option (List Handle)
  | [] => none
  | c :: cs => if c.1 = i then some (h :: cs) else (replaceFirst i h cs).map (c :: ·)

/-- `children.remove(node)` (first handle with that index). -/
def removeFirst (i : Nat) : List Handle → Option (List Handle)
  | [] => none
  | c :: cs => if c.1 = i then some cs else (removeFirst i cs).map (c :: ·)

/-- `_update_port_count(node, num_outs=k)` for `k` not None. -/
def updateNodeOuts (s : Store Ω μ) (i : Nat) (k : Nat) : Except Err (Store Ω μ) := do
  let s ← modifyNode s i (fun d => { d with numOuts := k })
  let d ← getNode s i
  match d.parent with
  | none => pure s
  | some p =>
    let pd ← getNode s p
    match replaceFirst i (i, some k) pd.children with
    | none => .error .valueError
    | some cs => modifyNode s p (fun pd => { pd with children := cs })

/-- Slot allocation of `_add_node`: pop the free stack, else append. -/
def allocSlot (s : Store Ω μ) (d : NodeData Ω μ) : Store Ω μ × Nat :=
  match s.free.getLast? with
  | some i => ({ s with free := s.free.dropLast, nodes := s.nodes.set i (some d) }, i)
  | none => ({ s with nodes := s.nodes ++ [some d] }, s.nodes.length)

/-- `if parent: self[parent].children.append(node)` -/
def registerChild (s : Store Ω μ) (parent : Option Nat) (h : Handle) : Except Err (Store Ω μ) :=
  match parent with
  | none => pure s
  | some p => modifyNode s p (fun pd => { pd with children := pd.children ++ [h] })

/-- `_update_node_outs(node, num_outs)` (no-op for `None`). -/
def setOutsOpt (s : Store Ω μ) (i : Nat) (numOuts : Option Nat) : Except Err (Store Ω μ) :=
  match numOuts with
  | none => pure s
  | some k => updateNodeOuts s i k

/-- `_add_node(op, parent, num_outs, metadata)`; returns the new index. -/
def addNodeRaw (s : Store Ω μ) (op : Ω) (parent : Option Nat) (numOuts : Option Nat) (m : μ) :
    Except Err (Store Ω μ × Nat) :=
  let r := allocSlot s { op, parent, numInps := 0, numOuts := 0, children := [], md := m }
  match registerChild r.1 parent (r.2, numOuts) with
  | .error e => .error e
  | .ok s1 =>
    match setOutsOpt s1 r.2 numOuts with
    | .error e => .error e
    | .ok s2 => .ok (s2, r.2)

/-- `Hugr.__init__`: the root is added with `num_outs = 0`. -/
def init (rootOp : Ω) (m : μ) : Store Ω μ :=
  let s0 : Store Ω μ := { nodes := [], links := BiMap.empty, free := [], root := 0 }
  match addNodeRaw s0 rootOp none (some 0) m with
  | .ok (s, i) => { s with root := i }
  | .error _ => s0   -- unreachable: `addNodeRaw` on the empty store with no parent cannot raise

/-- `add_node`: `parent = parent or self.root`. -/
def addNode (s : Store Ω μ) (op : Ω) (parent : Option Nat) (numOuts : Option Nat) (m : μ) :
    Except Err (Store Ω μ × Nat) :=
  addNodeRaw s op (some (parent.getD s.root)) numOuts m

/-- `_unused_sub_offset`: first sub-offset of the port that is not a key of `d`. -/
def unusedSub (d : Dict SubPort SubPort) (n : Nat) (off : Int) : Nat → Nat → Nat
  | 0, k => k
  | fuel + 1, k =>
    match Dict.get ⟨n, off, k⟩ d with
    | some _ => unusedSub d n off fuel (k + 1)
    | none => k

/-- `_linked_ports(port, links)`: peers at sub-offsets 0, 1, … until the first unused one. -/
def linkedFrom (d : Dict SubPort SubPort) (n : Nat) (off : Int) : Nat → Nat → List Port
  | 0, _ => []
  | fuel + 1, k =>
    match Dict.get ⟨n, off, k⟩ d with
    | some q => q.port :: linkedFrom d n off fuel (k + 1)
    | none => []

def linkedOut (s : Store Ω μ) (p : Port) : List Port :=
  linkedFrom s.links.fwd p.1 p.2 (s.links.fwd.length + 1) 0
def linkedIn (s : Store Ω μ) (p : Port) : List Port :=
  linkedFrom s.links.bck p.1 p.2 (s.links.bck.length + 1) 0

def hasLink (s : Store Ω μ) (src dst : Port) : Bool := (linkedOut s src).contains dst

def offsetPlusOne (off : Int) : Nat := (off + 1).toNat

/-- `add_link`. -/
def addLink (s : Store Ω μ) (src dst : Port) : Except Err (Store Ω μ) := do
  let ks := unusedSub s.links.fwd src.1 src.2 (s.links.fwd.length + 1) 0
  let kd := unusedSub s.links.bck dst.1 dst.2 (s.links.bck.length + 1) 0
  let s := { s with links := BiMap.insertLeft s.links ⟨src.1, src.2, ks⟩ ⟨dst.1, dst.2, kd⟩ }
  let s ← modifyNode s src.1 (fun d => { d with numOuts := max d.numOuts (offsetPlusOne src.2) })
  modifyNode s dst.1 (fun d => { d with numInps := max d.numInps (offsetPlusOne dst.2) })

/-- `add_order_link`. -/
def addOrderLink (s : Store Ω μ) (src dst : Nat) : Except Err (Store Ω μ) :=
  if hasLink s (src, -1) (dst, -1) then pure s else addLink s (src, -1) (dst, -1)

def findIdx (dst : Port) : List Port → Nat → Option Nat
  | [], _ => none
  | q :: qs, i => if q = dst then some i else findIdx dst qs (i + 1)

/-- Gap closing on the source port (first `while` loop of the repaired `delete_link`). -/
def closeGapOut : Nat → BiMap SubPort SubPort → SubPort → Except Err (BiMap SubPort SubPort)
  | 0, m, _ => pure m
  | fuel + 1, m, cur =>
    match BiMap.getRight m cur.next with
    | none => pure m
    | some other =>
      match BiMap.deleteLeft m cur.next with
      | none => .error .keyError
      | some m1 => closeGapOut fuel (BiMap.insertLeft m1 cur other) cur.next

/-- Gap closing on the target port (second loop). -/
def closeGapIn : Nat → BiMap SubPort SubPort → SubPort → Except Err (BiMap SubPort SubPort)
  | 0, m, _ => pure m
  | fuel + 1, m, cur =>
    match BiMap.getLeft m cur.next with
    | none => pure m
    | some other =>
      match BiMap.deleteRight m cur.next with
      | none => .error .keyError
      | some m1 => closeGapIn fuel (BiMap.insertRight m1 cur other) cur.next

/-- `delete_link` (as repaired: sub-offsets of both ports stay contiguous). -/
def deleteLinkMap (m : BiMap SubPort SubPort) (src dst : Port) : Except Err (BiMap SubPort SubPort) :=
  let peers := linkedFrom m.fwd src.1 src.2 (m.fwd.length + 1) 0
  match findIdx dst peers 0 with
  | none => pure m
  | some i =>
    let srcSub : SubPort := ⟨src.1, src.2, i⟩
    match Dict.get srcSub m.fwd with
    | none => .error .keyError
    | some dstSub =>
      match BiMap.deleteLeft m srcSub with
      | none => .error .keyError
      | some m1 => do
        let m2 ← closeGapOut (m1.fwd.length + 1) m1 srcSub
        closeGapIn (m2.bck.length + 1) m2 dstSub

def deleteLink (s : Store Ω μ) (src dst : Port) : Except Err (Store Ω μ) := do
  let m ← deleteLinkMap s.links src dst
  pure { s with links := m }

/-- `for x in list(linked_ports(port)): delete_link(…)` over a snapshot of the peers. -/
def deleteAll (s : Store Ω μ) (mk : Port → Port × Port) : List Port → Except Err (Store Ω μ)
  | [] => pure s
  | q :: qs => do
    let (a, b) := mk q
    let s ← deleteLink s a b
    deleteAll s mk qs

/-- offsets `range(-1, n)` -/
def offsetsFromMinusOne (n : Nat) : List Int := (List.range (n + 1)).map (fun (k : Nat) => (k : Int) - 1)

def deleteInLinks (s : Store Ω μ) (node : Nat) : List Int → Except Err (Store Ω μ)
  | [] => pure s
  | off :: offs => do
    let s ← deleteAll s (fun out => (out, (node, off))) (linkedIn s (node, off))
    deleteInLinks s node offs

def deleteOutLinks (s : Store Ω μ) (node : Nat) : List Int → Except Err (Store Ω μ)
  | [] => pure s
  | off :: offs => do
    let s ← deleteAll s (fun inp => ((node, off), inp)) (linkedOut s (node, off))
    deleteOutLinks s node offs

/-- `if parent: self[parent].children.remove(node)` -/
def detach (s : Store Ω μ) (node : Nat) (parent : Option Nat) : Except Err (Store Ω μ) :=
  match parent with
  | none => pure s
  | some p =>
    match getNode s p with
    | .error e => .error e
    | .ok pd =>
      match removeFirst node pd.children with
      | none => .error .valueError
      | some cs => modifyNode s p (fun pd => { pd with children := cs })

/-- `delete_node` (as repaired: every incident link is removed, order links included). -/
def deleteNode (s : Store Ω μ) (node : Nat) : Except Err (Store Ω μ) :=
  match getNode s node with
  | .error e => .error e
  | .ok d =>
    match detach s node d.parent with
    | .error e => .error e
    | .ok s1 =>
      match getNode s1 node with
      | .error e => .error e
      | .ok d1 =>
        match deleteInLinks s1 node (offsetsFromMinusOne d1.numInps) with
        | .error e => .error e
        | .ok s2 =>
          match getNode s2 node with
          | .error e => .error e
          | .ok d2 =>
            match deleteOutLinks s2 node (offsetsFromMinusOne d2.numOuts) with
            | .error e => .error e
            | .ok s3 => .ok { s3 with nodes := s3.nodes.set node none, free := s3.free ++ [node] }

/-! ### queries -/

/-- `__iter__`: indices of live nodes in index order. -/
def liveNodes (s : Store Ω μ) : List Nat :=
  (List.range s.nodes.length).filter (fun i => match s.nodes[i]? with | some (some _) => true | _ => false)

/-- `num_nodes()` = `len(self._nodes) - len(self._free_nodes)`. -/
def numNodes (s : Store Ω μ) : Nat := s.nodes.length - s.free.length

/-- `links()`. -/
def linksList (s : Store Ω μ) : List (Port × Port) := s.links.fwd.map (fun (a, b) => (a.port, b.port))

/-- `outgoing_links(node)` flattened to (offset, peer) pairs. -/
def outgoingFlat (s : Store Ω μ) (node : Nat) (numOuts : Nat) : List (Int × Port) :=
  (List.range numOuts).flatMap (fun (k : Nat) => (linkedOut s (node, (k : Int))).map (fun q => ((k : Int), q)))
def incomingFlat (s : Store Ω μ) (node : Nat) (numInps : Nat) : List (Int × Port) :=
  (List.range numInps).flatMap (fun (k : Nat) => (linkedIn s (node, (k : Int))).map (fun q => ((k : Int), q)))

/-! ### `_hierarchy_order` -/

/-- `heapq.heappop`: the smallest element and the rest (one occurrence removed). -/
def popMin : List Nat → Option (Nat × List Nat)
  | [] => none
  | x :: xs =>
    match popMin xs with
    | none => some (x, [])
    | some (m, rest) => if x ≤ m then some (x, xs) else some (m, x :: rest)

/-- `for child, sibling in zip(children, children[1:]): next_sibling[child.idx] = sibling.idx` -/
def recordSiblings (ns : Dict Nat Nat) : List Handle → Dict Nat Nat
  | a :: b :: rest => recordSiblings (Dict.set a.1 b.1 ns) (b :: rest)
  | _ => ns

/-- The `while ready:` loop of `_hierarchy_order` (`acc` is `order`, oldest first). -/
def hierLoop (s : Store Ω μ) : Nat → List Nat → Dict Nat Nat → List Nat → Except Err (List Nat)
  | 0, _, _, acc => .ok acc
  | fuel + 1, ready, ns, acc =>
    match popMin ready with
    | none => .ok acc
    | some (idx, ready) =>
      match getNode s idx with
      | .error e => .error e
      | .ok d =>
        let ns := recordSiblings ns d.children
        let ready := match d.children with
          | [] => ready
          | c :: _ => c.1 :: ready
        match Dict.get idx ns with
        | some sib => hierLoop s fuel (sib :: ready) (Dict.del idx ns) (acc ++ [idx])
        | none => hierLoop s fuel ready ns (acc ++ [idx])

/-- `_hierarchy_order()`: every node after its parent and its preceding siblings; nodes outside
    the root's hierarchy follow in index order. -/
def hierarchyOrder (s : Store Ω μ) : Except Err (List Nat) :=
  match hierLoop s (s.nodes.length + 1) [s.root] [] [] with
  | .error e => .error e
  | .ok order => .ok (order ++ (liveNodes s).filter (fun i => !order.contains i))

/-! ### insert_hugr -/

/-- `mapping[node_data.parent] if node_data.parent else parent` (`KeyError` → `ParentBeforeChild`). -/
def resolveParent (mp : Dict Nat Nat) (parent : Option Nat) (dp : Option Nat) : Except Err (Option Nat) :=
  match dp with
  | some p =>
    match Dict.get p mp with
    | some p' => .ok (some p')
    | none => .error .parentBeforeChild
  | none => .ok parent

/-- the node-copy loop of `insert_hugr`; `mp` is the mapping built so far (a dict). -/
def insertNodes (s : Store Ω μ) (b : Store Ω μ) (parent : Option Nat) :
    List Nat → Dict Nat Nat → Except Err (Store Ω μ × Dict Nat Nat)
  | [], mp => .ok (s, mp)
  | i :: is, mp =>
    match getNode b i with
    | .error e => .error e
    | .ok d =>
      match resolveParent mp parent d.parent with
      | .error e => .error e
      | .ok np =>
        match addNode s d.op np (some d.numOuts) d.md with
        | .error e => .error e
        | .ok r => insertNodes r.1 b parent is (Dict.set i r.2 mp)

def insertLinks (s : Store Ω μ) (mp : Dict Nat Nat) : List (SubPort × SubPort) → Except Err (Store Ω μ)
  | [] => pure s
  | (a, c) :: ls => do
    match Dict.get a.node mp, Dict.get c.node mp with
    | some a', some c' =>
      let s ← addLink s (a', a.offset) (c', c.offset)
      insertLinks s mp ls
    | _, _ => .error .keyError

/-- `insert_hugr(hugr, parent)`; returns the mapping as an ordered dict. -/
def insertHugr (s : Store Ω μ) (b : Store Ω μ) (parent : Option Nat) :
    Except Err (Store Ω μ × Dict Nat Nat) := do
  let order ← hierarchyOrder b
  let (s, mp) ← insertNodes s b parent order []
  let s ← insertLinks s mp b.links.fwd
  pure (s, mp)

end Store
end HugrVerif
