/-
  Model of hugr-py/src/hugr/envelope.py (+ the envelope entry points of package.py).
  Import-free, total.  Parametric in

  * `Consts` — every literal the Python code uses (magic number, the codes of `EnvelopeFormat`, the
    flag masks of `to_bytes`/`from_bytes`, the indices/lengths `10`, `[:8]`, `[8]`, `[9]`, `[10:]`,
    the default configurations).  The instance regenerated from the source is `EnvelopePy.py`.
  * `Env` — the library functions the envelope code calls and the model does not look into:
    `pyzstd.compress/decompress`, `str.encode/bytes.decode("utf-8")`, the pydantic package codec
    (`_to_serial().model_dump_json()`, `model_validate_json(..).deserialize()`), the model exporter.

  The functions mirror the Python statement by statement, including what is *not* checked
  (reserved flag bits are ignored on reading; the format is looked up before the flags are read).
-/
namespace HugrVerif.Envelope

/-- `class EnvelopeFormat(Enum)`, members in definition order. -/
inductive Format where
  | module          -- MODULE
  | moduleWithExts  -- MODULE_WITH_EXTS
  | json            -- JSON
deriving DecidableEq, Repr, Inhabited

/-- Iteration order of the enum (`list(EnvelopeFormat)`); value lookup takes the first match. -/
def Format.all : List Format := [.module, .moduleWithExts, .json]

/-- The Python member name. -/
def Format.pyName : Format → String
  | .module => "MODULE"
  | .moduleWithExts => "MODULE_WITH_EXTS"
  | .json => "JSON"

/-- Exception classes the property distinguishes. `UnicodeDecodeError`, pydantic's
    `ValidationError` and pyzstd's "illegal compression level" are `ValueError`s. -/
inductive Err where
  | valueError
  | indexError
  | other
deriving DecidableEq, Repr, Inhabited

/-- `EnvelopeConfig` (dataclass): `format`, `zstd : int | None`. -/
structure Config where
  format : Format := .json
  zstd : Option Int := none
deriving DecidableEq, Repr

/-- `EnvelopeHeader` (dataclass): `format`, `zstd : bool`. -/
structure Header where
  format : Format
  zstd : Bool := false
deriving DecidableEq, Repr

/-- Every literal of envelope.py that the model depends on. -/
structure Consts where
  magic : List UInt8                 -- MAGIC_NUMBERS
  code : Format → UInt8              -- EnvelopeFormat.<member>.value
  asciiPrintable : Format → Bool     -- EnvelopeFormat.ascii_printable
  flagsBase : UInt8                  -- to_bytes: `flags = 0b01000000`
  zstdSet : UInt8                    -- to_bytes: `flags |= 0b00000001`
  zstdRead : UInt8                   -- from_bytes: `flags & 0b00000001`
  minLen : Nat                       -- from_bytes: `len(data) < 10`
  magicLen : Nat                     -- from_bytes: `data[:8]`
  fmtIdx : Nat                       -- from_bytes: `data[8]`
  flagsIdx : Nat                     -- from_bytes: `data[9]`
  payloadStart : Nat                 -- read_envelope: `envelope[10:]`
  textDefault : Config               -- EnvelopeConfig.TEXT
  binaryDefault : Config             -- EnvelopeConfig.BINARY

/-- `EnvelopeFormat(b)`: the first member whose value is `b`; `none` = `ValueError`. -/
def ofCode (c : Consts) (b : UInt8) : Option Format :=
  Format.all.find? (fun f => c.code f == b)

/-- The flags byte of `EnvelopeHeader.to_bytes`: `flags = 0b01000000; if self.zstd: flags |= 0b00000001`. -/
def toBytes.flagsOf (c : Consts) (zstd : Bool) : UInt8 :=
  let flags := c.flagsBase
  if zstd then flags ||| c.zstdSet else flags

/-- `EnvelopeHeader.to_bytes`. -/
def toBytes (c : Consts) (h : Header) : List UInt8 :=
  let headerBytes := c.magic                       -- bytearray(MAGIC_NUMBERS)
  let headerBytes := headerBytes ++ [c.code h.format]  -- .append(self.format.value)
  let flags := toBytes.flagsOf c h.zstd
  headerBytes ++ [flags]                           -- .append(flags)

/-- `EnvelopeHeader.from_bytes` on an arbitrary byte string. -/
def fromBytes (c : Consts) (d : List UInt8) : Except Err Header :=
  if d.length < c.minLen then .error .valueError
  else if d.take c.magicLen != c.magic then .error .valueError
  else
    match d[c.fmtIdx]? with
    | none => .error .indexError                   -- data[8] out of range
    | some fb =>
      match ofCode c fb with
      | none => .error .valueError                 -- EnvelopeFormat(data[8]) raises ValueError
      | some f =>
        match d[c.flagsIdx]? with
        | none => .error .indexError               -- data[9] out of range
        | some flags => .ok { format := f, zstd := (flags &&& c.zstdRead) != 0 }

/-- `EnvelopeConfig._make_header`: `zstd = self.zstd is not None` (level `0` compresses). -/
def makeHeader (cfg : Config) : Header :=
  { format := cfg.format, zstd := cfg.zstd.isSome }

/-- The library functions called by the envelope code. -/
structure Env (Pkg Str : Type) where
  /-- `package._to_serial().model_dump_json()` -/
  dumpJson : Pkg → Except Err Str
  /-- `str.encode("utf-8")` (on strings produced by the codec or by `decode`) -/
  utf8enc : Str → List UInt8
  /-- `bytes.decode("utf-8")`; `none` = `UnicodeDecodeError` (a `ValueError`) -/
  utf8dec : List UInt8 → Option Str
  /-- `ext_s.Package.model_validate_json(payload).deserialize()` -/
  loadJson : List UInt8 → Except Err Pkg
  /-- `bytes(package.to_model())` -/
  encModel : Pkg → Except Err (List UInt8)
  /-- `json.dumps([ext._to_serial().model_dump(mode="json") ...]).encode("utf8")` -/
  encExts : Pkg → Except Err (List UInt8)
  /-- `pyzstd.compress(payload, level)` -/
  compress : List UInt8 → Int → Except Err (List UInt8)
  /-- `pyzstd.decompress(payload)` -/
  decompress : List UInt8 → Except Err (List UInt8)

variable {Pkg Str : Type}

/-- The `match config.format` of `make_envelope`. -/
def encodePayload (e : Env Pkg Str) (p : Pkg) (f : Format) : Except Err (List UInt8) :=
  match f with
  | .json =>
    match e.dumpJson p with
    | .error x => .error x
    | .ok s => .ok (e.utf8enc s)
  | .module => e.encModel p
  | .moduleWithExts =>
    match e.encModel p with
    | .error x => .error x
    | .ok pb =>
      match e.encExts p with
      | .error x => .error x
      | .ok eb => .ok (pb ++ eb)

/-- `make_envelope(package, config)`. -/
def makeEnvelope (c : Consts) (e : Env Pkg Str) (p : Pkg) (cfg : Config) : Except Err (List UInt8) :=
  let envelope := toBytes c (makeHeader cfg)
  match encodePayload e p cfg.format with
  | .error x => .error x
  | .ok payload =>
    match cfg.zstd with
    | none => .ok (envelope ++ payload)            -- `if config.zstd is not None` not taken
    | some level =>
      match e.compress payload level with
      | .error x => .error x
      | .ok z => .ok (envelope ++ z)

/-- `make_envelope_str(package, config)`. -/
def makeEnvelopeStr (c : Consts) (e : Env Pkg Str) (p : Pkg) (cfg : Config) : Except Err Str :=
  if !c.asciiPrintable cfg.format then .error .valueError
  else
    match makeEnvelope c e p cfg with
    | .error x => .error x
    | .ok b =>
      match e.utf8dec b with
      | none => .error .valueError                 -- UnicodeDecodeError
      | some s => .ok s

/-- `read_envelope(envelope)`. -/
def readEnvelope (c : Consts) (e : Env Pkg Str) (d : List UInt8) : Except Err Pkg :=
  match fromBytes c d with
  | .error x => .error x
  | .ok header =>
    let payload := d.drop c.payloadStart
    let payload := if header.zstd then e.decompress payload else .ok payload
    match payload with
    | .error x => .error x
    | .ok payload =>
      match header.format with
      | .json => e.loadJson payload
      | .module | .moduleWithExts => .error .valueError  -- "not supported yet"

/-- `read_envelope_str(envelope)`. -/
def readEnvelopeStr (c : Consts) (e : Env Pkg Str) (s : Str) : Except Err Pkg :=
  readEnvelope c e (e.utf8enc s)

/-- `Package.to_bytes(config=None)`: `config or EnvelopeConfig.BINARY` (a dataclass instance is truthy). -/
def pkgToBytes (c : Consts) (e : Env Pkg Str) (p : Pkg) (cfg : Option Config) : Except Err (List UInt8) :=
  match cfg with
  | none => makeEnvelope c e p c.binaryDefault
  | some cfg => makeEnvelope c e p cfg

/-- `Package.to_str(config=None)`: `config or EnvelopeConfig.TEXT`. -/
def pkgToStr (c : Consts) (e : Env Pkg Str) (p : Pkg) (cfg : Option Config) : Except Err Str :=
  match cfg with
  | none => makeEnvelopeStr c e p c.textDefault
  | some cfg => makeEnvelopeStr c e p cfg

/-- `Package.from_bytes`, `Package.from_str`. -/
def pkgFromBytes (c : Consts) (e : Env Pkg Str) (d : List UInt8) : Except Err Pkg := readEnvelope c e d
def pkgFromStr (c : Consts) (e : Env Pkg Str) (s : Str) : Except Err Pkg := readEnvelopeStr c e s

/-- ASCII printable: `0x20 ≤ b ≤ 0x7e`. -/
def printable (b : UInt8) : Bool := 0x20 ≤ b.toNat && b.toNat ≤ 0x7e

end HugrVerif.Envelope
