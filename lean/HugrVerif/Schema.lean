/-
  JSON-Schema semantics (draft 2020-12) for the keyword subset that the published HUGR schema
  files and pydantic's generator use, and a schema-aware normalisation.  Core Lean only.

  `eval P defs fuel s j : Option Bool`
    * `some true` / `some false` — the document `j` is accepted / rejected by schema `s`
      (`defs` is the `$defs` table that `$ref: "#/$defs/<name>"` resolves in);
    * `none` — no verdict: fuel exhausted, a schema that is not an object or a boolean, a
      keyword whose value has the wrong shape, a dangling `$ref`, or a keyword *outside the
      modelled subset* (nothing is silently ignored, so "same verdict" never holds just because
      both schemas use something the model does not understand — both sides then say `none`).
    `none` is strict: it propagates through every combinator.
  `accepts … := eval … == some true`.

  Modelled keywords
    applicators: `$ref` (local `#/$defs/…`), `properties`, `additionalProperties` (bool or schema;
                 names taken from the sibling `properties`), `items` (elements after the sibling
                 `prefixItems`), `prefixItems`, `anyOf`, `oneOf`, `allOf`
    assertions:  `type` (name or list of names), `required`, `const`, `enum` (JSON equality
                 `Json.eqv`), `minItems`, `maxItems`, `uniqueItems`,
                 `pattern` (regular-expression matching is the parameter `P`)
    annotations (no effect on the verdict): `title`, `description`, `default`, `discriminator`,
                 `$defs`, `$schema`, `$id`, `$comment`, `examples`, `deprecated`, `readOnly`,
                 `writeOnly`
  One unit of fuel is spent per descent into a subschema; boolean schemas need none.
-/
import HugrVerif.Json

namespace HugrVerif.Schema
open HugrVerif

abbrev Fields := List (String × Json)

/-- First member with the given key. -/
def get : Fields → String → Option Json
  | [], _ => none
  | (k, v) :: rest, key => if k == key then some v else get rest key

/-- Target of a local reference `#/$defs/<name>`. -/
def resolve : Fields → String → Option Json
  | [], _ => none
  | (k, v) :: rest, r => if "#/$defs/" ++ k == r then some v else resolve rest r

/-! ### Three-valued combinators (strict in `none`) -/

def andO : Option Bool → Option Bool → Option Bool
  | some a, some b => some (a && b)
  | _, _ => none

def allO {α : Type} (f : α → Option Bool) : List α → Option Bool
  | [] => some true
  | x :: xs => andO (f x) (allO f xs)

/-- Number of elements on which `f` says `true`. -/
def countO {α : Type} (f : α → Option Bool) : List α → Option Nat
  | [] => some 0
  | x :: xs =>
    match f x, countO f xs with
    | some b, some n => some (if b then n + 1 else n)
    | _, _ => none

/-- Pointwise check of a list of schemas against the leading elements (`prefixItems`). -/
def zipAllO (r : Json → Json → Option Bool) : List Json → List Json → Option Bool
  | s :: ss, x :: xs => andO (r s x) (zipAllO r ss xs)
  | _, _ => some true

/-! ### Assertions on one document -/

def typeOk (t : String) (j : Json) : Option Bool :=
  if t == "null" then some (match j with | .null => true | _ => false)
  else if t == "boolean" then some (match j with | .bool _ => true | _ => false)
  else if t == "integer" then some (match j with | .int _ => true | _ => false)
  else if t == "number" then some (match j with | .int _ => true | .num _ => true | _ => false)
  else if t == "string" then some (match j with | .str _ => true | _ => false)
  else if t == "array" then some (match j with | .arr _ => true | _ => false)
  else if t == "object" then some (match j with | .obj _ => true | _ => false)
  else none

def typeKw (v j : Json) : Option Bool :=
  match v with
  | .str t => typeOk t j
  | .arr ts =>
    (countO (fun t => match t with | .str t => typeOk t j | _ => none) ts).map (fun n => decide (0 < n))
  | _ => none

def requiredKw (v j : Json) : Option Bool :=
  match v with
  | .arr names =>
    match j with
    | .obj fs => allO (fun n => match n with | .str n => some (get fs n).isSome | _ => none) names
    | _ => allO (fun n => match n with | .str _ => some true | _ => none) names
  | _ => none

def enumKw (v j : Json) : Option Bool :=
  match v with
  | .arr vs => some (vs.any (fun c => Json.eqv c j))
  | _ => none

/-- No two elements are JSON-equal. -/
def distinct : List Json → Bool
  | [] => true
  | x :: xs => !(xs.any (fun y => Json.eqv x y)) && distinct xs

def uniqueKw (v j : Json) : Option Bool :=
  match v with
  | .bool true => some (match j with | .arr xs => distinct xs | _ => true)
  | .bool false => some true
  | _ => none

def minItemsKw (v j : Json) : Option Bool :=
  match v with
  | .int n => some (match j with | .arr xs => decide (n ≤ (xs.length : Int)) | _ => true)
  | _ => none

def maxItemsKw (v j : Json) : Option Bool :=
  match v with
  | .int n => some (match j with | .arr xs => decide ((xs.length : Int) ≤ n) | _ => true)
  | _ => none

def patternKw (P : String → String → Option Bool) (v j : Json) : Option Bool :=
  match v with
  | .str p => (match j with | .str t => P p t | _ => some true)
  | _ => none

/-- Names declared by a sibling `properties` keyword. -/
def propNames (sibs : Fields) : List String :=
  match get sibs "properties" with
  | some (.obj ps) => ps.map (·.1)
  | _ => []

/-- Number of schemas in a sibling `prefixItems` keyword. -/
def prefixLen (sibs : Fields) : Nat :=
  match get sibs "prefixItems" with
  | some (.arr ss) => ss.length
  | _ => 0

def isAnnotation (k : String) : Bool :=
  k == "title" || k == "description" || k == "default" || k == "discriminator" || k == "$defs"
  || k == "$schema" || k == "$id" || k == "$comment" || k == "examples" || k == "deprecated"
  || k == "readOnly" || k == "writeOnly"

/-! ### Applicators -/

def refKw (defs : Fields) (r : Json → Json → Option Bool) (v j : Json) : Option Bool :=
  match v with
  | .str name =>
    match resolve defs name with
    | some s => r s j
    | none => none
  | _ => none

def propertiesKw (r : Json → Json → Option Bool) (v j : Json) : Option Bool :=
  match v with
  | .obj ps =>
    match j with
    | .obj fs => allO (fun p => match get fs p.1 with | some x => r p.2 x | none => some true) ps
    | _ => some true
  | _ => none

def addPropsKw (r : Json → Json → Option Bool) (sibs : Fields) (v j : Json) : Option Bool :=
  match j with
  | .obj fs => allO (fun f => if (propNames sibs).contains f.1 then some true else r v f.2) fs
  | _ => some true

def itemsKw (r : Json → Json → Option Bool) (sibs : Fields) (v j : Json) : Option Bool :=
  match j with
  | .arr xs => allO (fun x => r v x) (xs.drop (prefixLen sibs))
  | _ => some true

def prefixItemsKw (r : Json → Json → Option Bool) (v j : Json) : Option Bool :=
  match v with
  | .arr ss => (match j with | .arr xs => zipAllO r ss xs | _ => some true)
  | _ => none

def anyOfKw (r : Json → Json → Option Bool) (v j : Json) : Option Bool :=
  match v with
  | .arr ss => (countO (fun s => r s j) ss).map (fun n => decide (0 < n))
  | _ => none

def oneOfKw (r : Json → Json → Option Bool) (v j : Json) : Option Bool :=
  match v with
  | .arr ss => (countO (fun s => r s j) ss).map (fun n => n == 1)
  | _ => none

def allOfKw (r : Json → Json → Option Bool) (v j : Json) : Option Bool :=
  match v with
  | .arr ss => allO (fun s => r s j) ss
  | _ => none

/-- Verdict of one keyword `k: v` of a schema object with members `sibs` on document `j`;
    `r` evaluates subschemas. -/
def kw (P : String → String → Option Bool) (defs : Fields) (r : Json → Json → Option Bool)
    (sibs : Fields) (j : Json) (k : String) (v : Json) : Option Bool :=
  if k == "$ref" then refKw defs r v j
  else if k == "type" then typeKw v j
  else if k == "properties" then propertiesKw r v j
  else if k == "required" then requiredKw v j
  else if k == "additionalProperties" then addPropsKw r sibs v j
  else if k == "items" then itemsKw r sibs v j
  else if k == "prefixItems" then prefixItemsKw r v j
  else if k == "anyOf" then anyOfKw r v j
  else if k == "oneOf" then oneOfKw r v j
  else if k == "allOf" then allOfKw r v j
  else if k == "const" then some (Json.eqv v j)
  else if k == "enum" then enumKw v j
  else if k == "minItems" then minItemsKw v j
  else if k == "maxItems" then maxItemsKw v j
  else if k == "uniqueItems" then uniqueKw v j
  else if k == "pattern" then patternKw P v j
  else if isAnnotation k then some true
  else none

/-- One level of evaluation: every keyword of the schema object must hold. -/
def step (P : String → String → Option Bool) (defs : Fields) (r : Json → Json → Option Bool)
    (s j : Json) : Option Bool :=
  match s with
  | .bool b => some b
  | .obj kvs => allO (fun m => kw P defs r kvs j m.1 m.2) kvs
  | _ => none

def eval (P : String → String → Option Bool) (defs : Fields) : Nat → Json → Json → Option Bool
  | 0 => fun s _ => match s with | .bool b => some b | _ => none
  | n + 1 => step P defs (eval P defs n)

def accepts (P : String → String → Option Bool) (defs : Fields) (fuel : Nat) (s j : Json) : Bool :=
  eval P defs fuel s j == some true

/-- The schema `{"$ref": "#/$defs/<name>"}`. -/
def ref (name : String) : Json := .obj [("$ref", .str ("#/$defs/" ++ name))]

/-! ### Normalisation

Removes what has no effect on the verdict, **in schema positions only**:
`additionalProperties: true` (the default) and the pure annotations `title`, `description`.
`default` and `discriminator` are kept (the property speaks about defaults and discriminators),
instance data under `const`/`enum`/`default`/… is left untouched, and the members of a
`properties`/`$defs` map are *names* (a property called `description`, as in `OpDef`, stays). -/

/-- A keyword/value pair that `normalize` drops. -/
def dropped (k : String) (v : Json) : Bool :=
  k == "title" || k == "description"
  || (k == "additionalProperties" && (match v with | .bool true => true | _ => false))

/-- The value of the keyword is a schema. -/
def isSchemaKw (k : String) : Bool := k == "items" || k == "additionalProperties"
/-- The value of the keyword is a list of schemas. -/
def isSchemaListKw (k : String) : Bool :=
  k == "prefixItems" || k == "anyOf" || k == "oneOf" || k == "allOf"
/-- The value of the keyword is a map from names to schemas. -/
def isSchemaMapKw (k : String) : Bool := k == "properties" || k == "$defs"

mutual
  def normalize : Json → Json
    | .obj kvs => .obj (normFields kvs)
    | j => j
  /-- A list of schemas. -/
  def normArr : Json → Json
    | .arr xs => .arr (normList xs)
    | j => j
  /-- A map from names to schemas. -/
  def normMap : Json → Json
    | .obj kvs => .obj (normMapFields kvs)
    | j => j
  def normFields : List (String × Json) → List (String × Json)
    | [] => []
    | (k, v) :: rest =>
      if dropped k v then normFields rest
      else if isSchemaKw k then (k, normalize v) :: normFields rest
      else if isSchemaListKw k then (k, normArr v) :: normFields rest
      else if isSchemaMapKw k then (k, normMap v) :: normFields rest
      else (k, v) :: normFields rest
  def normList : List Json → List Json
    | [] => []
    | x :: xs => normalize x :: normList xs
  def normMapFields : List (String × Json) → List (String × Json)
    | [] => []
    | (k, v) :: rest => (k, normalize v) :: normMapFields rest
end

/-- Normalisation of a `$defs` table. -/
abbrev normDefs (defs : Fields) : Fields := normMapFields defs

/-- How `normFields` rewrites the value of a kept keyword. -/
def normVal (k : String) (v : Json) : Json :=
  if isSchemaKw k then normalize v
  else if isSchemaListKw k then normArr v
  else if isSchemaMapKw k then normMap v
  else v

/-! ### Which keywords occur (used by the translator-side sanity theorems) -/

def isKnownKw (k : String) : Bool :=
  k == "$ref" || k == "type" || k == "properties" || k == "required"
  || k == "additionalProperties" || k == "items" || k == "prefixItems" || k == "anyOf"
  || k == "oneOf" || k == "allOf" || k == "const" || k == "enum" || k == "minItems"
  || k == "maxItems" || k == "uniqueItems" || k == "pattern" || isAnnotation k

mutual
  /-- Every keyword in every schema position of `s` is in the modelled subset. -/
  def supported : Json → Bool
    | .obj kvs => supportedFields kvs
    | .bool _ => true
    | _ => false
  def supportedArr : Json → Bool
    | .arr xs => supportedList xs
    | _ => false
  def supportedMap : Json → Bool
    | .obj kvs => supportedMapFields kvs
    | _ => false
  def supportedFields : List (String × Json) → Bool
    | [] => true
    | (k, v) :: rest =>
      isKnownKw k
      && (if isSchemaKw k then supported v
          else if isSchemaListKw k then supportedArr v
          else if isSchemaMapKw k then supportedMap v
          else true)
      && supportedFields rest
  def supportedList : List Json → Bool
    | [] => true
    | x :: xs => supported x && supportedList xs
  def supportedMapFields : List (String × Json) → Bool
    | [] => true
    | (_, v) :: rest => supported v && supportedMapFields rest
end

end HugrVerif.Schema
