/-
  Decidable equality on the type layer (`TypeParam`, `TypeDefRef`, `Ty`, `TypeArg`).

  `deriving DecidableEq` does not work on these nested/mutual inductives, so (as for `Json`) a Boolean
  structural equality is written by hand, shown to decide `=` (`beq_iff`), and the `DecidableEq`
  instances are built from it.  Import-free apart from `Tys`.
-/
import HugrVerif.Tys

namespace HugrVerif

/-! ### TypeParam -/

mutual
  def TypeParam.beq : TypeParam → TypeParam → Bool
    | .type a, .type b => a == b
    | .boundedNat a, .boundedNat b => a == b
    | .string, .string => true
    | .list p, .list q => TypeParam.beq p q
    | .tuple ps, .tuple qs => TypeParam.beqList ps qs
    | .extensions, .extensions => true
    | _, _ => false
  def TypeParam.beqList : List TypeParam → List TypeParam → Bool
    | [], [] => true
    | p :: ps, q :: qs => TypeParam.beq p q && TypeParam.beqList ps qs
    | _, _ => false
end

mutual
  theorem TypeParam.beq_sound : ∀ (a b : TypeParam), TypeParam.beq a b = true → a = b
    | .type _, b, h => by cases b <;> simp_all [TypeParam.beq]
    | .boundedNat _, b, h => by cases b <;> simp_all [TypeParam.beq]
    | .string, b, h => by cases b <;> simp_all [TypeParam.beq]
    | .list p, b, h => by
      cases b <;> simp [TypeParam.beq] at h
      rename_i q
      exact congrArg _ (TypeParam.beq_sound p q h)
    | .tuple ps, b, h => by
      cases b <;> simp [TypeParam.beq] at h
      rename_i qs
      exact congrArg _ (TypeParam.beqList_sound ps qs h)
    | .extensions, b, h => by cases b <;> simp_all [TypeParam.beq]
  theorem TypeParam.beqList_sound : ∀ (xs ys : List TypeParam), TypeParam.beqList xs ys = true → xs = ys
    | [], ys, h => by cases ys <;> simp_all [TypeParam.beqList]
    | x :: xs, ys, h => by
      cases ys with
      | nil => simp [TypeParam.beqList] at h
      | cons y ys =>
        simp [TypeParam.beqList] at h
        rw [TypeParam.beq_sound x y h.1, TypeParam.beqList_sound xs ys h.2]
end

mutual
  theorem TypeParam.beq_refl : ∀ (a : TypeParam), TypeParam.beq a a = true
    | .type _ => by simp [TypeParam.beq]
    | .boundedNat _ => by simp [TypeParam.beq]
    | .string => by simp [TypeParam.beq]
    | .list p => by simp [TypeParam.beq, TypeParam.beq_refl p]
    | .tuple ps => by simp [TypeParam.beq, TypeParam.beqList_refl ps]
    | .extensions => by simp [TypeParam.beq]
  theorem TypeParam.beqList_refl : ∀ (xs : List TypeParam), TypeParam.beqList xs xs = true
    | [] => by simp [TypeParam.beqList]
    | x :: xs => by simp [TypeParam.beqList, TypeParam.beq_refl x, TypeParam.beqList_refl xs]
end

theorem TypeParam.beq_iff (a b : TypeParam) : TypeParam.beq a b = true ↔ a = b :=
  ⟨TypeParam.beq_sound a b, fun h => h ▸ TypeParam.beq_refl a⟩

theorem TypeParam.beqList_iff (a b : List TypeParam) : TypeParam.beqList a b = true ↔ a = b :=
  ⟨TypeParam.beqList_sound a b, fun h => h ▸ TypeParam.beqList_refl a⟩

instance : DecidableEq TypeParam := fun a b =>
  if h : TypeParam.beq a b = true then isTrue (TypeParam.beq_sound a b h)
  else isFalse (fun e => h (e ▸ TypeParam.beq_refl a))

/-! ### TypeDefRef -/

def TypeDefRef.beq (a b : TypeDefRef) : Bool :=
  a.ext == b.ext && a.name == b.name && a.description == b.description &&
    TypeParam.beqList a.params b.params && a.bound == b.bound

theorem TypeDefRef.beq_iff (a b : TypeDefRef) : TypeDefRef.beq a b = true ↔ a = b := by
  cases a; cases b
  simp [TypeDefRef.beq, TypeParam.beqList_iff, and_assoc]

instance : DecidableEq TypeDefRef := fun a b =>
  if h : TypeDefRef.beq a b = true then isTrue ((TypeDefRef.beq_iff a b).1 h)
  else isFalse (fun e => h ((TypeDefRef.beq_iff a b).2 e))

/-! ### Ty / TypeArg -/

mutual
  def Ty.beq : Ty → Ty → Bool
    | .sum r, .sum s => Ty.beqRows r s
    | .unitSum a, .unitSum b => a == b
    | .variable i b, .variable j c => i == j && b == c
    | .rowVariable i b, .rowVariable j c => i == j && b == c
    | .usize, .usize => true
    | .alias n b, .alias m c => n == m && b == c
    | .function i o r, .function i' o' r' => Ty.beqRow i i' && Ty.beqRow o o' && r == r'
    | .poly ps i o r, .poly ps' i' o' r' =>
      TypeParam.beqList ps ps' && Ty.beqRow i i' && Ty.beqRow o o' && r == r'
    | .extType d a, .extType d' a' => TypeDefRef.beq d d' && TypeArg.beqList a a'
    | .opaque id b a e, .opaque id' b' a' e' => id == id' && b == b' && TypeArg.beqList a a' && e == e'
    | .qubit, .qubit => true
    | _, _ => false
  def Ty.beqRow : List Ty → List Ty → Bool
    | [], [] => true
    | x :: xs, y :: ys => Ty.beq x y && Ty.beqRow xs ys
    | _, _ => false
  def Ty.beqRows : List (List Ty) → List (List Ty) → Bool
    | [], [] => true
    | x :: xs, y :: ys => Ty.beqRow x y && Ty.beqRows xs ys
    | _, _ => false
  def TypeArg.beq : TypeArg → TypeArg → Bool
    | .type t, .type u => Ty.beq t u
    | .boundedNat n, .boundedNat m => n == m
    | .string s, .string t => s == t
    | .sequence es, .sequence fs => TypeArg.beqList es fs
    | .extensions es, .extensions fs => es == fs
    | .variable i p, .variable j q => i == j && TypeParam.beq p q
    | _, _ => false
  def TypeArg.beqList : List TypeArg → List TypeArg → Bool
    | [], [] => true
    | x :: xs, y :: ys => TypeArg.beq x y && TypeArg.beqList xs ys
    | _, _ => false
end

mutual
  theorem Ty.beq_sound : ∀ (a b : Ty), Ty.beq a b = true → a = b
    | .sum r, b, h => by
      cases b <;> simp [Ty.beq] at h
      rename_i s
      exact congrArg _ (Ty.beqRows_sound r s h)
    | .unitSum _, b, h => by cases b <;> simp_all [Ty.beq]
    | .variable _ _, b, h => by cases b <;> simp_all [Ty.beq]
    | .rowVariable _ _, b, h => by cases b <;> simp_all [Ty.beq]
    | .usize, b, h => by cases b <;> simp_all [Ty.beq]
    | .alias _ _, b, h => by cases b <;> simp_all [Ty.beq]
    | .function i o r, b, h => by
      cases b <;> simp [Ty.beq] at h
      rename_i i' o' r'
      rw [Ty.beqRow_sound i i' h.1.1, Ty.beqRow_sound o o' h.1.2, h.2]
    | .poly ps i o r, b, h => by
      cases b <;> simp [Ty.beq] at h
      rename_i ps' i' o' r'
      rw [TypeParam.beqList_sound ps ps' h.1.1.1, Ty.beqRow_sound i i' h.1.1.2,
        Ty.beqRow_sound o o' h.1.2, h.2]
    | .extType d a, b, h => by
      cases b <;> simp [Ty.beq] at h
      rename_i d' a'
      rw [(TypeDefRef.beq_iff d d').1 h.1, TypeArg.beqList_sound a a' h.2]
    | .opaque id bd a e, b, h => by
      cases b <;> simp [Ty.beq] at h
      rename_i id' b' a' e'
      rw [h.1.1.1, h.1.1.2, TypeArg.beqList_sound a a' h.1.2, h.2]
    | .qubit, b, h => by cases b <;> simp_all [Ty.beq]
  theorem Ty.beqRow_sound : ∀ (xs ys : List Ty), Ty.beqRow xs ys = true → xs = ys
    | [], ys, h => by cases ys <;> simp_all [Ty.beqRow]
    | x :: xs, ys, h => by
      cases ys with
      | nil => simp [Ty.beqRow] at h
      | cons y ys =>
        simp [Ty.beqRow] at h
        rw [Ty.beq_sound x y h.1, Ty.beqRow_sound xs ys h.2]
  theorem Ty.beqRows_sound : ∀ (xs ys : List (List Ty)), Ty.beqRows xs ys = true → xs = ys
    | [], ys, h => by cases ys <;> simp_all [Ty.beqRows]
    | x :: xs, ys, h => by
      cases ys with
      | nil => simp [Ty.beqRows] at h
      | cons y ys =>
        simp [Ty.beqRows] at h
        rw [Ty.beqRow_sound x y h.1, Ty.beqRows_sound xs ys h.2]
  theorem TypeArg.beq_sound : ∀ (a b : TypeArg), TypeArg.beq a b = true → a = b
    | .type t, b, h => by
      cases b <;> simp [TypeArg.beq] at h
      rename_i u
      exact congrArg _ (Ty.beq_sound t u h)
    | .boundedNat _, b, h => by cases b <;> simp_all [TypeArg.beq]
    | .string _, b, h => by cases b <;> simp_all [TypeArg.beq]
    | .sequence es, b, h => by
      cases b <;> simp [TypeArg.beq] at h
      rename_i fs
      exact congrArg _ (TypeArg.beqList_sound es fs h)
    | .extensions _, b, h => by cases b <;> simp_all [TypeArg.beq]
    | .variable i p, b, h => by
      cases b <;> simp [TypeArg.beq] at h
      rename_i j q
      rw [h.1, TypeParam.beq_sound p q h.2]
  theorem TypeArg.beqList_sound : ∀ (xs ys : List TypeArg), TypeArg.beqList xs ys = true → xs = ys
    | [], ys, h => by cases ys <;> simp_all [TypeArg.beqList]
    | x :: xs, ys, h => by
      cases ys with
      | nil => simp [TypeArg.beqList] at h
      | cons y ys =>
        simp [TypeArg.beqList] at h
        rw [TypeArg.beq_sound x y h.1, TypeArg.beqList_sound xs ys h.2]
end

mutual
  theorem Ty.beq_refl : ∀ (a : Ty), Ty.beq a a = true
    | .sum r => by simp [Ty.beq, Ty.beqRows_refl r]
    | .unitSum _ => by simp [Ty.beq]
    | .variable _ _ => by simp [Ty.beq]
    | .rowVariable _ _ => by simp [Ty.beq]
    | .usize => by simp [Ty.beq]
    | .alias _ _ => by simp [Ty.beq]
    | .function i o _ => by simp [Ty.beq, Ty.beqRow_refl i, Ty.beqRow_refl o]
    | .poly ps i o _ => by simp [Ty.beq, TypeParam.beqList_refl ps, Ty.beqRow_refl i, Ty.beqRow_refl o]
    | .extType d a => by simp [Ty.beq, (TypeDefRef.beq_iff d d).2 rfl, TypeArg.beqList_refl a]
    | .opaque _ _ a _ => by simp [Ty.beq, TypeArg.beqList_refl a]
    | .qubit => by simp [Ty.beq]
  theorem Ty.beqRow_refl : ∀ (xs : List Ty), Ty.beqRow xs xs = true
    | [] => by simp [Ty.beqRow]
    | x :: xs => by simp [Ty.beqRow, Ty.beq_refl x, Ty.beqRow_refl xs]
  theorem Ty.beqRows_refl : ∀ (xs : List (List Ty)), Ty.beqRows xs xs = true
    | [] => by simp [Ty.beqRows]
    | x :: xs => by simp [Ty.beqRows, Ty.beqRow_refl x, Ty.beqRows_refl xs]
  theorem TypeArg.beq_refl : ∀ (a : TypeArg), TypeArg.beq a a = true
    | .type t => by simp [TypeArg.beq, Ty.beq_refl t]
    | .boundedNat _ => by simp [TypeArg.beq]
    | .string _ => by simp [TypeArg.beq]
    | .sequence es => by simp [TypeArg.beq, TypeArg.beqList_refl es]
    | .extensions _ => by simp [TypeArg.beq]
    | .variable _ p => by simp [TypeArg.beq, TypeParam.beq_refl p]
  theorem TypeArg.beqList_refl : ∀ (xs : List TypeArg), TypeArg.beqList xs xs = true
    | [] => by simp [TypeArg.beqList]
    | x :: xs => by simp [TypeArg.beqList, TypeArg.beq_refl x, TypeArg.beqList_refl xs]
end

theorem Ty.beq_iff (a b : Ty) : Ty.beq a b = true ↔ a = b :=
  ⟨Ty.beq_sound a b, fun h => h ▸ Ty.beq_refl a⟩

theorem Ty.beqRow_iff (a b : List Ty) : Ty.beqRow a b = true ↔ a = b :=
  ⟨Ty.beqRow_sound a b, fun h => h ▸ Ty.beqRow_refl a⟩

theorem Ty.beqRows_iff (a b : List (List Ty)) : Ty.beqRows a b = true ↔ a = b :=
  ⟨Ty.beqRows_sound a b, fun h => h ▸ Ty.beqRows_refl a⟩

theorem TypeArg.beq_iff (a b : TypeArg) : TypeArg.beq a b = true ↔ a = b :=
  ⟨TypeArg.beq_sound a b, fun h => h ▸ TypeArg.beq_refl a⟩

instance : DecidableEq Ty := fun a b =>
  if h : Ty.beq a b = true then isTrue (Ty.beq_sound a b h)
  else isFalse (fun e => h (e ▸ Ty.beq_refl a))

instance : DecidableEq TypeArg := fun a b =>
  if h : TypeArg.beq a b = true then isTrue (TypeArg.beq_sound a b h)
  else isFalse (fun e => h (e ▸ TypeArg.beq_refl a))

end HugrVerif
