/- REGENERATED on every run by harness/props/C19.py from hugr-py/src/hugr/qsystem/result.py.
   Do not edit.  `Props.C19.pattern_is_modelled` compares these with the pattern that the
   hand-written matcher `Qsys.parseTag` implements. -/
namespace HugrVerif.Gen.QsysPattern

def pattern : String := "^([a-z][\\w_]*)\\[(\\d+)\\]$"
def flags : String := ""
def usedAs : String := "match(P,_)"

end HugrVerif.Gen.QsysPattern
