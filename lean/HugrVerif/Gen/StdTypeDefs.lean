/- REGENERATED on every run by harness/props/C07.py from the extension files bundled under
   hugr-py/src/hugr/std/_json_defs (what `hugr.std._load_extension` reads) and from the AST of
   hugr/std/collections/{array,list,static_array}.py.  Do not edit. -/
import HugrVerif.Tys
namespace HugrVerif.Gen.StdTypeDefs
open HugrVerif

/-- `Array`: `EXTENSION.types['array']` of `collections.array` -/
def arrayDef : TypeDefRef :=
  { ext := "collections.array", name := "array", description := "Fixed-length array",
    params := [(.boundedNat none), (.type .any)], bound := .fromParams [(1)] }
/-- `Array.ty` reads `self.args[1]` -/
def arrayTyIndex : Nat := 1

/-- `List`: `EXTENSION.types['List']` of `collections.list` -/
def listDef : TypeDefRef :=
  { ext := "collections.list", name := "List", description := "Generic dynamically sized list of type T.",
    params := [(.type .any)], bound := .fromParams [(0)] }
/-- `List.ty` reads `self.args[0]` -/
def listTyIndex : Nat := 0

/-- `StaticArray`: `EXTENSION.types['static_array']` of `collections.static_array` -/
def staticArrayDef : TypeDefRef :=
  { ext := "collections.static_array", name := "static_array", description := "Fixed-length constant array",
    params := [(.type .copyable)], bound := .explicit .copyable }
/-- `StaticArray.ty` reads `self.args[0]` -/
def staticArrayTyIndex : Nat := 0

/-- every type definition of every bundled extension file -/
def allStd : List TypeDefRef := [
  { ext := "arithmetic.float.types", name := "float64", description := "64-bit IEEE 754-2019 floating-point value",
    params := [], bound := .explicit .copyable },
  { ext := "arithmetic.int.types", name := "int", description := "integral value of a given bit width",
    params := [(.boundedNat (some 7))], bound := .explicit .copyable },
  { ext := "collections.array", name := "array", description := "Fixed-length array",
    params := [(.boundedNat none), (.type .any)], bound := .fromParams [(1)] },
  { ext := "collections.list", name := "List", description := "Generic dynamically sized list of type T.",
    params := [(.type .any)], bound := .fromParams [(0)] },
  { ext := "collections.static_array", name := "static_array", description := "Fixed-length constant array",
    params := [(.type .copyable)], bound := .explicit .copyable },
  { ext := "prelude", name := "error", description := "Simple opaque error type.",
    params := [], bound := .explicit .copyable },
  { ext := "prelude", name := "qubit", description := "qubit",
    params := [], bound := .explicit .any },
  { ext := "prelude", name := "string", description := "string",
    params := [], bound := .explicit .copyable },
  { ext := "prelude", name := "usize", description := "usize",
    params := [], bound := .explicit .copyable },
  { ext := "ptr", name := "ptr", description := "Standard extension pointer type.",
    params := [(.type .copyable)], bound := .explicit .copyable }]

end HugrVerif.Gen.StdTypeDefs
