/-
  L3: function-valued constants inside a document.

  `val.Function(body)` holds a *HUGR*; `FunctionValue.deserialize` loads the nested document
  (`Hugr._from_serial(SerialHugr(**hugr))`) and `Function._to_serial` saves it again
  (`body._to_serial()`).  `Val.lean` carries the body as its serialised document; that is exact
  for a body document that is a fixed point of load/save (every document the library wrote), and
  `Nested.codec` adds the general case on top of `SerialCodecs.opsCodec`: when a node is decoded,
  the body document of every function constant in it is replaced by its re-saved form, recursively.
  Import-free apart from `SerialCodecs`.
-/
import HugrVerif.SerialCodecs

namespace HugrVerif.Nested
open HugrVerif HugrVerif.Serial

mutual
  /-- apply `g` to the body document of every function constant inside a value -/
  def mapBodies (g : Json → Except Serial.Err Json) : Value → Except Serial.Err Value
    | .sum t ty vs => do pure (.sum t ty (← mapBodiesList g vs))
    | .tuple vs => do pure (.tuple (← mapBodiesList g vs))
    | .function i o r body => do pure (.function i o r (← g body))
    | .ext n t p e => pure (.ext n t p e)
  def mapBodiesList (g : Json → Except Serial.Err Json) : List Value → Except Serial.Err (List Value)
    | [] => pure []
    | v :: vs => do pure ((← mapBodies g v) :: (← mapBodiesList g vs))
end

/-- … inside the constant an operation carries -/
def mapConst (g : Json → Except Serial.Err Json) : Op → Except Serial.Err Op
  | .const v => do pure (.const (← mapBodies g v))
  | op => pure op

/-- `opsCodec` with the function bodies of a decoded node re-saved by `g` -/
def codecWith (g : Json → Except Serial.Err Json) (fuel : Nat) : OpCodec Op where
  enc := (opsCodec fuel).enc
  dec := fun j =>
    match (opsCodec fuel).dec j with
    | .error e => .error e
    | .ok (op, p) =>
      match mapConst g op with
      | .ok op' => .ok (op', p)
      | .error e => .error e.name
  orderOff := (opsCodec fuel).orderOff

/-- `Hugr._from_serial(SerialHugr(**doc))._to_serial()` as a JSON value, for a nested document
    (`n`: nesting budget, `fuel`: decoding fuel of the operation layer). -/
def resave : Nat → Nat → Json → Except Serial.Err Json
  | 0, _, _ => .error .validation
  | n + 1, fuel, j =>
    match loadJson (codecWith (resave n fuel) fuel) j with
    | .error e => .error e
    | .ok s =>
      match toSerial (codecWith (resave n fuel) fuel) s with
      | .error e => .error e
      | .ok d => .ok (encDoc d)

/-- The operation codec of `Hugr.load_json` / `to_json` with nested documents handled. -/
def codec (n fuel : Nat) : OpCodec Op := codecWith (resave n fuel) fuel

mutual
  /-- every function body inside the value satisfies `P` -/
  def AllBodies (P : Json → Prop) : Value → Prop
    | .sum _ _ vs => AllBodiesList P vs
    | .tuple vs => AllBodiesList P vs
    | .function _ _ _ body => P body
    | .ext _ _ _ _ => True
  def AllBodiesList (P : Json → Prop) : List Value → Prop
    | [] => True
    | v :: vs => AllBodies P v ∧ AllBodiesList P vs
end

end HugrVerif.Nested
