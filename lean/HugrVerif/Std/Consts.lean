/-
  The standard-extension constant classes of hugr-py and the expressions that build constants.

  * `intVal / floatVal / stringVal / arrayVal / listVal / staticArrayVal` mirror the `to_value()`
    methods of `std/int.py:62-72`, `std/float.py:21-30`, `std/prelude.py:18-31`,
    `std/collections/array.py:61-81`, `list.py:38-57`, `static_array.py:41-62`: the
    `val.Extension(name, typ, payload, extensions)` they return.  `type_()` and `_to_serial()` of these
    classes go through `to_value()` (`val.py:338-353`), so a std constant *is* its extension value
    as far as type, encoding and nesting are concerned.
  * The std types are instances of the type definitions regenerated from the bundled extension
    files (`Gen/StdValDefs.lean`); `Array/List/StaticArray` override `type_bound()` by the bound of
    the element type, which is what `Ty.bound` gives for `FromParams [i]` resp. what the constructor
    of `StaticArray` enforces (`ValueError` otherwise).
  * Floats are carried as the JSON number the payload shows (literal text), never computed with.
  * `CExpr` is the syntax of constant-building Python expressions (general constructors, the sugar
    helpers of `val.py`, the std classes); `CExpr.eval` is what evaluating such an expression gives.
  Import-free apart from the model files.
-/
import HugrVerif.Val
import HugrVerif.Gen.StdValDefs

namespace HugrVerif.StdConsts
open HugrVerif Gen

/-! ### std types -/

/-- `int_t(width)` = `INT_T_DEF.instantiate([BoundedNatArg(width)])` — the width is not checked. -/
def intT (width : Int) : Ty := .extType StdValDefs.int [.boundedNat width]
/-- `FLOAT_T` -/
def floatT : Ty := .extType StdValDefs.float64 []
/-- `STRING_T` -/
def stringT : Ty := .extType StdValDefs.string []
/-- `Array(ty, size)`: args `[size, ty]` -/
def arrayT (size : Nat) (ty : Ty) : Ty := .extType StdValDefs.array [.boundedNat size, .type ty]
/-- `List(ty)` -/
def listT (ty : Ty) : Ty := .extType StdValDefs.list [.type ty]
/-- `StaticArray(ty)` -/
def staticArrayT (ty : Ty) : Ty := .extType StdValDefs.staticArray [.type ty]

/-- Does a type argument fit a type parameter?  (`TypeArg` vs `TypeParam` in the specification:
    a bounded natural below the bound, a type whose bound is within the parameter's bound.)
    Only the parameter kinds the std type definitions use are covered; everything else is `false`. -/
def argFits : TypeArg → TypeParam → Bool
  | .boundedNat n, .boundedNat none => decide (0 ≤ n)
  | .boundedNat n, .boundedNat (some ub) => decide (0 ≤ n) && decide (n < ub)
  | .type t, .type b =>
    match Ty.bound t with
    | .ok bt => bt == .copyable || b == .any
    | .error _ => false
  | _, _ => false

def argsFit : List TypeArg → List TypeParam → Bool
  | [], [] => true
  | a :: as, p :: ps => argFits a p && argsFit as ps
  | _, _ => false

/-! ### std constants -/

inductive Err where
  | valueError          -- `StaticArray.__init__`: "Static array elements must be copyable"
  | enc (e : Codec.EncErr)   -- serialising an element / the element type raised
  | bound               -- `elem_ty.type_bound()` raised (`IndexError` of a malformed extension type)
  | polyElem            -- `PolyFuncType._to_serial_root()` raises (pydantic validation)
deriving Repr, DecidableEq

def isPoly : Ty → Bool
  | .poly _ _ _ _ => true
  | _ => false

/-- `IntVal(v, width).to_value()` -/
def intVal (v width : Int) : Value :=
  .ext "ConstInt" (intT width) (.obj [("log_width", .int width), ("value", .int v)]) [StdValDefs.intExt]

/-- `FloatVal(v).to_value()`; `lit` is the JSON form of the float. -/
def floatVal (lit : Json) : Value :=
  .ext "ConstF64" floatT (.obj [("value", lit)]) [StdValDefs.float64Ext]

/-- `StringVal(v).to_value()` -/
def stringVal (s : String) : Value :=
  .ext "ConstString" stringT (.obj [("value", .str s)]) [StdValDefs.stringExt]

/-- `{"values": [v._to_serial_root() for v in self.v], "typ": self.ty.ty._to_serial_root()}` -/
def collPayload (vs : List Value) (ty : Ty) : Except Err Json := do
  let js ← match Codec.encVals vs with
    | .ok js => pure js
    | .error e => throw (.enc e)
  if isPoly ty then throw .polyElem
  let jt ← match Codec.encTy ty with
    | .ok jt => pure jt
    | .error e => throw (.enc e)
  pure (.obj [("values", .arr js), ("typ", jt)])

/-- `ArrayVal(v, elem_ty).to_value()`; the type is `Array(elem_ty, len(v))`. -/
def arrayVal (vs : List Value) (ty : Ty) : Except Err Value := do
  let p ← collPayload vs ty
  pure (.ext "ArrayValue" (arrayT vs.length ty) p [StdValDefs.arrayExt])

/-- `ListVal(v, elem_ty).to_value()` -/
def listVal (vs : List Value) (ty : Ty) : Except Err Value := do
  let p ← collPayload vs ty
  pure (.ext "ListValue" (listT ty) p [StdValDefs.listExt])

/-- `StaticArrayVal(v, elem_ty, name)`: the constructor builds `StaticArray(elem_ty)`, which raises
    `ValueError` unless the element type is copyable; then `to_value()`. -/
def staticArrayVal (vs : List Value) (ty : Ty) (name : String) : Except Err Value := do
  match Ty.bound ty with
  | .ok .copyable => pure ()
  | .ok .any => throw .valueError
  | .error _ => throw .bound
  let p ← collPayload vs ty
  pure (.ext "StaticArrayValue" (staticArrayT ty) (.obj [("value", p), ("name", .str name)])
    [StdValDefs.staticArrayExt])

/-! ### constant-building expressions -/

inductive CExpr where
  | sum (tag : Nat) (typ : Ty) (vals : List CExpr)         -- `val.Sum(tag, typ, vals)`
  | tuple (vals : List CExpr)                              -- `val.Tuple(*vals)`
  | some (vals : List CExpr)                               -- `val.Some(*vals)`
  | none (tys : List Ty)                                   -- `val.None_(*tys)`
  | left (vals : List CExpr) (rightTy : List Ty)           -- `val.Left(vals, right_typ)`
  | right (leftTy : List Ty) (vals : List CExpr)           -- `val.Right(left_typ, vals)`
  | unitSum (tag size : Nat)                               -- `val.UnitSum(tag, size)`
  | bool (b : Bool)                                        -- `val.bool_value(b)` / `TRUE` / `FALSE`
  | unit                                                   -- `val.Unit`
  | function (inp out : List Ty) (reqs : List String) (body : Json)   -- `val.Function(body)`
  | ext (name : String) (typ : Ty) (payload : Json) (exts : List String)  -- `val.Extension(…)`
  | intVal (v width : Int)
  | floatVal (lit : Json)
  | stringVal (s : String)
  | arrayVal (vs : List CExpr) (ty : Ty)
  | listVal (vs : List CExpr) (ty : Ty)
  | staticArrayVal (vs : List CExpr) (ty : Ty) (name : String)

instance : Inhabited CExpr := ⟨.unit⟩

mutual
  def CExpr.eval : CExpr → Except Err Value
    | .sum tag typ vals => do pure (.sum tag typ (← CExpr.evalList vals))
    | .tuple vals => do pure (.tuple (← CExpr.evalList vals))
    | .some vals => do pure (Value.some (← CExpr.evalList vals))
    | .none tys => pure (Value.none tys)
    | .left vals r => do pure (Value.left (← CExpr.evalList vals) r)
    | .right l vals => do pure (Value.right l (← CExpr.evalList vals))
    | .unitSum tag size => pure (Value.unitSum tag size)
    | .bool b => pure (Value.boolValue b)
    | .unit => pure Value.unit
    | .function i o r body => pure (.function i o r body)
    | .ext name typ payload exts => pure (.ext name typ payload exts)
    | .intVal v w => pure (StdConsts.intVal v w)
    | .floatVal lit => pure (StdConsts.floatVal lit)
    | .stringVal s => pure (StdConsts.stringVal s)
    | .arrayVal vs ty => do StdConsts.arrayVal (← CExpr.evalList vs) ty
    | .listVal vs ty => do StdConsts.listVal (← CExpr.evalList vs) ty
    | .staticArrayVal vs ty name => do StdConsts.staticArrayVal (← CExpr.evalList vs) ty name
  def CExpr.evalList : List CExpr → Except Err (List Value)
    | [] => pure []
    | e :: es => do pure ((← CExpr.eval e) :: (← CExpr.evalList es))
end

end HugrVerif.StdConsts
