/-
  L0: slicing of `range(n)` (equivalently of any length-`n` sequence by position), after CPython.

  `Objects/sliceobject.c`:

    PySlice_Unpack:   step None -> 1; step == 0 -> ValueError;
                      start None -> (step < 0 ? PY_SSIZE_T_MAX : 0);
                      stop  None -> (step < 0 ? PY_SSIZE_T_MIN : PY_SSIZE_T_MAX)
    PySlice_AdjustIndices(length, &start, &stop, step):
        if (*start < 0) { *start += length; if (*start < 0) *start = (step < 0) ? -1 : 0; }
        else if (*start >= length) *start = (step < 0) ? length - 1 : length;
        (the same for *stop)
        if (step < 0) { if (*stop < *start) return (*start - *stop - 1) / (-step) + 1; }
        else          { if (*start < *stop) return (*stop - *start - 1) / step + 1; }
        return 0;
    element j of the slice (0 <= j < returned length) is position  start + j * step.

  This file is the SPECIFICATION used by property C16; it is itself validated against real
  `list(range(n))[s:e:k]` by the check harness (stream `pyslice`).  Import-free.
-/
namespace HugrVerif.Py.Slice

/-- `PySlice_AdjustIndices` on one bound (`start` and `stop` are treated alike). -/
def adjustBound (length : Nat) (step : Int) (b : Int) : Int :=
  if b < 0 then
    let b' := b + length
    if b' < 0 then (if step < 0 then -1 else 0) else b'
  else if b ≥ length then (if step < 0 then (length : Int) - 1 else length)
  else b

/-- Adjusted `start` (a `None` start is `PY_SSIZE_T_MAX` / `0`, which adjusts to `length-1` / `0`). -/
def adjStart (length : Nat) (step : Int) : Option Int → Int
  | some s => adjustBound length step s
  | none => if step < 0 then (length : Int) - 1 else 0

/-- Adjusted `stop` (a `None` stop is `PY_SSIZE_T_MIN` / `PY_SSIZE_T_MAX`: adjusts to `-1` / `length`). -/
def adjStop (length : Nat) (step : Int) : Option Int → Int
  | some e => adjustBound length step e
  | none => if step < 0 then -1 else length

/-- The slice length returned by `PySlice_AdjustIndices` (for already adjusted bounds). -/
def sliceLen (start stop step : Int) : Nat :=
  if step < 0 then
    if stop < start then ((start - stop - 1) / (-step) + 1).toNat else 0
  else
    if start < stop then ((stop - start - 1) / step + 1).toNat else 0

/-- Positions selected by `[start:stop:step]` on a length-`n` sequence, as integers.
    `step = 0` (Python: `ValueError: slice step cannot be zero`) is outside the domain; callers
    state `step ≠ 0` (C16 only uses `step > 0`). -/
def positions (n : Nat) (start stop : Option Int) (step : Int) : List Int :=
  let a := adjStart n step start
  let b := adjStop n step stop
  (List.range (sliceLen a b step)).map (fun (j : Nat) => a + (j : Int) * step)

/-- `list(range(n))[start:stop:step]`. Every position is in `0 .. n-1` (`positions_bounds` in
    `Proofs/Handle.lean`), so the conversion to `Nat` loses nothing. -/
def range (n : Nat) (start stop : Option Int) (step : Int) : List Nat :=
  (positions n start stop step).map Int.toNat

/-- `range(n)[i]` for an integer `i`: `none` = `IndexError`. -/
def item (n : Nat) (i : Int) : Option Nat :=
  if i < 0 then (if i + n < 0 then none else some (i + n).toNat)
  else if i ≥ n then none else some i.toNat

end HugrVerif.Py.Slice
