/-
  L0: Python `dict` semantics as an insertion-ordered association list.

  * `get`   = `d.get(k)`            (`none` = absent)
  * `set`   = `d[k] = v`            (update in place, append when new)
  * `del`   = `del d[k]`            (caller checks presence; absent key → unchanged)
  * `keys`  = `list(d)`

  Import-free (core Lean only) so the driver can run it.
-/
namespace HugrVerif.Py

abbrev Dict (α β : Type) := List (α × β)

namespace Dict
variable {α β : Type} [DecidableEq α]

def get (k : α) : Dict α β → Option β
  | [] => none
  | (a, b) :: t => if a = k then some b else get k t

def set (k : α) (v : β) : Dict α β → Dict α β
  | [] => [(k, v)]
  | (a, b) :: t => if a = k then (a, v) :: t else (a, b) :: set k v t

def del (k : α) : Dict α β → Dict α β
  | [] => []
  | (a, b) :: t => if a = k then t else (a, b) :: del k t

def keys (d : Dict α β) : List α := d.map (·.1)

def NodupKeys (d : Dict α β) : Prop := (keys d).Nodup

@[simp] theorem get_nil (k : α) : get k ([] : Dict α β) = none := rfl
@[simp] theorem keys_nil : keys ([] : Dict α β) = [] := rfl
@[simp] theorem keys_cons (a : α) (b : β) (t : Dict α β) : keys ((a, b) :: t) = a :: keys t := rfl

theorem get_none_iff (k : α) (d : Dict α β) : get k d = none ↔ k ∉ keys d := by
  induction d with
  | nil => simp
  | cons h t ih => obtain ⟨a, b⟩ := h; grind [get, keys_cons]

theorem get_some_mem (k : α) (v : β) (d : Dict α β) (h : get k d = some v) : (k, v) ∈ d := by
  induction d with
  | nil => simp at h
  | cons hd t ih => obtain ⟨a, b⟩ := hd; grind [get]

theorem get_isSome_iff (k : α) (d : Dict α β) : (get k d).isSome ↔ k ∈ keys d := by
  have := get_none_iff k d
  cases h : get k d <;> simp_all

theorem get_set (k k' : α) (v : β) (d : Dict α β) :
    get k' (set k v d) = if k' = k then some v else get k' d := by
  induction d with
  | nil => grind [set, get]
  | cons hd t ih => obtain ⟨a, b⟩ := hd; grind [set, get]

theorem keys_set (k : α) (v : β) (d : Dict α β) :
    keys (set k v d) = if k ∈ keys d then keys d else keys d ++ [k] := by
  induction d with
  | nil => simp [set]
  | cons hd t ih => obtain ⟨a, b⟩ := hd; grind [set, keys_cons]

theorem nodup_set (k : α) (v : β) (d : Dict α β) (h : NodupKeys d) : NodupKeys (set k v d) := by
  unfold NodupKeys at *
  rw [keys_set]
  split
  · exact h
  · rename_i hk
    rw [List.nodup_append]
    refine ⟨h, by simp, ?_⟩
    intro a ha b hb
    simp at hb
    subst hb
    intro hab; subst hab; exact hk ha

theorem keys_del_sublist (k : α) (d : Dict α β) : (keys (del k d)).Sublist (keys d) := by
  induction d with
  | nil => simp [del]
  | cons hd t ih =>
    obtain ⟨a, b⟩ := hd
    by_cases hak : a = k
    · simp [del, hak]
    · simp [del, hak, ih]

theorem nodup_del (k : α) (d : Dict α β) (h : NodupKeys d) : NodupKeys (del k d) :=
  List.Nodup.sublist (keys_del_sublist k d) h

theorem get_del (k k' : α) (d : Dict α β) (h : NodupKeys d) :
    get k' (del k d) = if k' = k then none else get k' d := by
  induction d with
  | nil => simp [del]
  | cons hd t ih =>
    obtain ⟨a, b⟩ := hd
    have hnd : NodupKeys t := (List.nodup_cons.mp h).2
    have hat : a ∉ keys t := (List.nodup_cons.mp h).1
    have := (get_none_iff a t).mpr hat
    grind [del, get]

theorem mem_keys_del (k k' : α) (d : Dict α β) (h : NodupKeys d) :
    k' ∈ keys (del k d) ↔ k' ≠ k ∧ k' ∈ keys d := by
  have h1 := get_none_iff k' (del k d)
  have h2 := get_none_iff k' d
  rw [get_del k k' d h] at h1
  grind

theorem length_set (k : α) (v : β) (d : Dict α β) :
    (set k v d).length = if k ∈ keys d then d.length else d.length + 1 := by
  induction d with
  | nil => simp [set]
  | cons hd t ih => obtain ⟨a, b⟩ := hd; grind [set, keys_cons]

theorem length_del (k : α) (d : Dict α β) :
    (del k d).length = if k ∈ keys d then d.length - 1 else d.length := by
  induction d with
  | nil => simp [del]
  | cons hd t ih =>
    obtain ⟨a, b⟩ := hd
    have : k ∈ keys t → 0 < t.length := by
      cases t <;> simp
    grind [del, keys_cons]

theorem set_of_not_mem (k : α) (v : β) (d : Dict α β) (h : k ∉ keys d) : set k v d = d ++ [(k, v)] := by
  induction d with
  | nil => simp [set]
  | cons hd t ih => obtain ⟨a, b⟩ := hd; grind [set, keys_cons]

theorem get_some_iff_mem (k : α) (v : β) (d : Dict α β) (h : NodupKeys d) :
    get k d = some v ↔ (k, v) ∈ d := by
  induction d with
  | nil => simp
  | cons hd t ih =>
    obtain ⟨a, b⟩ := hd
    have hnd : NodupKeys t := (List.nodup_cons.mp h).2
    have hat : a ∉ keys t := (List.nodup_cons.mp h).1
    have hm : ∀ x, (a, x) ∈ t → a ∈ keys t := by
      intro x hx; exact List.mem_map.mpr ⟨(a, x), hx, rfl⟩
    grind [get]

theorem keys_append (d e : Dict α β) : keys (d ++ e) = keys d ++ keys e := by
  simp [keys]

theorem foldl_set_eq (ps acc : Dict α β) (h : NodupKeys (acc ++ ps)) :
    ps.foldl (fun d p => set p.1 p.2 d) acc = acc ++ ps := by
  induction ps generalizing acc with
  | nil => simp
  | cons p ps ih =>
    obtain ⟨a, b⟩ := p
    have hnd : (keys acc ++ a :: keys ps).Nodup := by
      simpa [NodupKeys, keys_append] using h
    have hna : a ∉ keys acc := by
      intro hm
      have := (List.nodup_append.mp hnd).2.2 a hm a (by simp)
      exact this rfl
    simp only [List.foldl_cons]
    rw [set_of_not_mem a b acc hna, ih]
    · simp
    · simpa using h

theorem nodup_of_nodup_map {γ δ : Type} (f : γ → δ) (l : List γ) (h : (l.map f).Nodup) : l.Nodup := by
  induction l with
  | nil => simp
  | cons a t ih =>
    simp only [List.map_cons, List.nodup_cons, List.mem_map, not_exists, not_and] at h ⊢
    exact ⟨fun hm => h.1 a hm rfl, ih h.2⟩

end Dict
end HugrVerif.Py
