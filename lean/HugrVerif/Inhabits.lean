/-
  Specification for C14: when does a constant value inhabit a type?

  Transcribed from the Rust reference implementation:

  * `SumType::get_variant`           (hugr-core/src/types.rs:235-241)      → `Ty.variant`
  * `SumType::new` / `From<SumType> for TypeBase` (types.rs:205-217, 281-288): a general sum all of
    whose rows are empty *is* the unit sum of that size (types are normalised when built or read),
    which is also what the Python `tys.Sum.__eq__` says (`UnitSum(n).variant_rows == [[]]*n`)
                                                                           → `Ty.canon`, `Ty.Same`
  * `SumType::check_type`            (hugr-core/src/types/check.rs:63-98)  → the `sum` clause of `Inhabits`
  * `Value::get_type`                (hugr-core/src/ops/constant.rs:381-390) → `Value.typeOf` (in Val.lean)
  * `Value::validate`, `Value::sum`, `Value::tuple`, `mono_fn_type`
                                     (constant.rs:365-377, 395-415, 538-554) → the other clauses
  * `TryFrom<SerSimpleType> for TypeBase<NoRV>` (types/serialize.rs:44-62): the type of a value is a
    single type, never a row variable                                     → the `isRowVar` side condition

  `Inhabits v t` is the declarative, recursive statement ("each field inhabits the corresponding
  element of the tagged variant row"); `inhabits v t` is the executable check in the shape the Rust
  code has (`validate` on the value, then `get_type() == t`).  `Proofs/Val.lean` shows they agree.
  Import-free apart from `Val`/`TysEq`.
-/
import HugrVerif.Val
import HugrVerif.TysEq

namespace HugrVerif

namespace Ty

/-- `SumType::get_variant(tag)`: the row of the `tag`th variant, if the type is a sum with such a
    variant (`Unit { size }` has `size` empty rows). -/
def variant : Ty → Nat → Option (List Ty)
  | .sum rows, tag => rows[tag]?
  | .unitSum n, tag => if tag < n then some [] else none
  | _, _ => none

/-- `SumType::num_variants` (0 for a non-sum). -/
def numVariants : Ty → Nat
  | .sum rows => rows.length
  | .unitSum n => n
  | _ => 0

def isSum : Ty → Bool
  | .sum _ => true
  | .unitSum _ => true
  | _ => false

def isRowVar : Ty → Bool
  | .rowVariable _ _ => true
  | _ => false

mutual
  /-- Canonical form for comparing types: every unit sum is written as the general sum with `size`
      empty rows, at any depth (`SumType::new` normalises in the other direction; the induced
      equivalence is the same).  Nothing else is identified. -/
  def canon : Ty → Ty
    | .sum rows => .sum (canonRows rows)
    | .unitSum n => .sum (List.replicate n [])
    | .function i o r => .function (canonRow i) (canonRow o) r
    | .poly ps i o r => .poly ps (canonRow i) (canonRow o) r
    | .extType d args => .extType d (canonArgs args)
    | .opaque id b args ext => .opaque id b (canonArgs args) ext
    | t => t
  def canonRow : List Ty → List Ty
    | [] => []
    | t :: ts => canon t :: canonRow ts
  def canonRows : List (List Ty) → List (List Ty)
    | [] => []
    | r :: rs => canonRow r :: canonRows rs
  def canonArg : TypeArg → TypeArg
    | .type t => .type (canon t)
    | .sequence es => .sequence (canonArgs es)
    | a => a
  def canonArgs : List TypeArg → List TypeArg
    | [] => []
    | a :: as => canonArg a :: canonArgs as
end

/-- Type equality as the specification has it (`Type: PartialEq` on normalised types). -/
def Same (a b : Ty) : Prop := canon a = canon b
def SameRow (a b : List Ty) : Prop := canonRow a = canonRow b

def same (a b : Ty) : Bool := Ty.beq (canon a) (canon b)
def sameRow (a b : List Ty) : Bool := Ty.beqRow (canonRow a) (canonRow b)

end Ty

namespace Value

mutual
  /-- `Inhabits v t`: the value `v` is a well-formed constant of type `t`.

      * `sum`: `check_type` — `get_variant(tag)` exists (else `InvalidTag`), the number of fields is
        the length of that row (else `WrongVariantLength`; here: `InhabitsRow` is `False` on lists
        of different lengths), and every field is of the corresponding type (else
        `InvalidValueType`), recursively; the value's type is its `sum_type` (`get_type`).
        `VariantNotConcrete` (a row variable in the row) is implied: nothing inhabits a row variable
        (`Proofs/Val.lean: not_rowVar_of_inhabits`).
      * `tuple`: `Value::tuple` = `sum(0, vs, new_tuple(types))` — a sum with the one row of its
        fields' types.
      * `function`: `get_type` = `Type::new_function(mono_fn_type(hugr))` — the function type of the
        body's signature.
      * `ext`: `OpaqueValue::get_type` — the type it reports; a value's type is a single type. -/
  def Inhabits : Value → Ty → Prop
    | .sum tag typ vals, t =>
      Ty.Same typ t ∧ ∃ row, Ty.variant typ tag = Option.some row ∧ InhabitsRow vals row
    | .tuple vals, t => ∃ row, Ty.Same (.sum [row]) t ∧ InhabitsRow vals row
    | .function i o r _, t => Ty.Same (.function i o r) t
    | .ext _ typ _ _, t => Ty.Same typ t ∧ typ.isRowVar = false
  /-- field-wise, same length -/
  def InhabitsRow : List Value → List Ty → Prop
    | [], [] => True
    | v :: vs, t :: ts => Inhabits v t ∧ InhabitsRow vs ts
    | [], _ :: _ => False
    | _ :: _, [] => False
end

mutual
  /-- `Value::validate`, applied to every nested value: for a sum `check_type` with the comparison
      `v.get_type() != *t` on the fields. -/
  def valid : Value → Bool
    | .sum tag typ vals =>
      match Ty.variant typ tag with
      | Option.some row => Ty.sameRow (typesOf vals) row && validList vals
      | Option.none => false
    | .tuple vals => validList vals
    | .function _ _ _ _ => true
    | .ext _ typ _ _ => !typ.isRowVar
  def validList : List Value → Bool
    | [] => true
    | v :: vs => valid v && validList vs
end

/-- Executable form: the value validates and the type it reports is the expected one. -/
def inhabits (v : Value) (t : Ty) : Bool := valid v && Ty.same (typeOf v) t

/-- Well-formed arguments of the general constructor `Sum(tag, typ, vals)` (the caller supplies all
    three): the tag is in range and the field types are the tagged row. -/
def SumArgsOk (tag : Nat) (typ : Ty) (vals : List Value) : Prop :=
  ∃ row, Ty.variant typ tag = Option.some row ∧ Ty.SameRow (typesOf vals) row

end Value
end HugrVerif
