/-
  L5 (part 3): builder PROGRAMS — the command language of harness/progs.py, one `step` per command,
  `runProgram`.  A program names builders and nodes by strings; references are evaluated left to
  right before the method is called (as the Python interpreter evaluates the argument expressions).

  A command applied to a builder whose class does not have the method, an unbound name, a HUGR that
  has been inserted elsewhere (W8) … are outside the language: `.unsupported`.
-/
import HugrVerif.Build.State

namespace HugrVerif.Build
open HugrVerif BuildState

/-- a reference to a node (`ToNode`) -/
inductive NodeRef where
  | var (n : String)
  | builder (b : String)     -- the builder itself: its current `parent_node`
  | input (b : String)
  | output (b : String)
  | entry (c : String)
  | exit (c : String)
  | root (b : String)
  | condNode (b : String)
  | raw (idx : Nat)
deriving Repr

/-- a wire expression -/
inductive WireRef where
  | out (n : NodeRef) (k : Int)    -- `n.out(k)`
  | idx (n : NodeRef) (k : Nat)    -- `n[k]`
  | inp (b : String) (k : Nat)     -- `b.inputs()[k]`
  | node (n : NodeRef)             -- the node itself (port 0)
deriving Repr

inductive CWRef where
  | wire (w : WireRef)
  | tracked (i : Nat)
deriving Repr

inductive LoadSrc where
  | val (v : Value) (constParent : Option NodeRef)
  | const (n : NodeRef)

inductive Cmd where
  | newDfg (b : String) (tys : List Ty)
  | newFunction (b : String) (name : String) (ins : List Ty) (params : List TypeParam)
  | newModule (b : String)
  | newCfg (b : String) (tys : List Ty)
  | newConditional (b : String) (sm : SumTy) (other : List Ty)
  | newTailLoop (b : String) (ji rest : List Ty)
  | newTracked (b : String) (tys : List Ty) (trackInputs : Bool)
  | addOp (b n : String) (op : Op) (args : List WireRef) (md : Serial.Meta)
  | add (b n : String) (op : Op) (args : List CWRef) (md : Serial.Meta)
  | extend (b : String) (ns : List String) (coms : List (Op × List CWRef))
  | load (b n : String) (src : LoadSrc)
  | addConst (b n : String) (v : Value) (parent : Option NodeRef)
  | addAliasDefn (b n : String) (name : String) (t : Ty) (parent : Option NodeRef)
  | addAliasDecl (b n : String) (name : String) (bd : Bound)
  | call (b n : String) (f : NodeRef) (args : List WireRef) (inst : Option Sig) (targs : Option (List TypeArg))
  | loadFunction (b n : String) (f : NodeRef) (inst : Option Sig) (targs : Option (List TypeArg))
  | addNested (b nb : String) (args : List WireRef)
  | insertNested (b n o : String) (args : List WireRef)          -- also insert_cfg
  | addCfg (b nb : String) (args : List WireRef)
  | addConditional (b nb : String) (w : WireRef) (args : List WireRef)
  | insertConditional (b n o : String) (w : WireRef) (args : List WireRef)
  | addIf (b nb : String) (w : WireRef) (args : List WireRef)
  | addElse (b nb : String)
  | addTailLoop (b nb : String) (ji rest : List WireRef)
  | insertTailLoop (b n o : String) (ji rest : List WireRef)
  | defineFunction (b nb : String) (name : String) (ins : List Ty) (outs : Option (List Ty))
      (params : Option (List TypeParam)) (parent : Option NodeRef)
  | defineMain (b nb : String) (ins : List Ty)
  | declareFunction (b n : String) (name : String) (sig : Poly)
  | declareOutputs (b : String) (outs : List Ty)
  | addStateOrder (b : String) (src dst : NodeRef)
  | setOutputs (b : String) (args : List WireRef)
  | setBlockOutputs (b : String) (w : WireRef) (args : List WireRef)
  | setSingleSuccOutputs (b : String) (args : List WireRef)
  | setLoopOutputs (b : String) (w : WireRef) (args : List WireRef)
  | addEntry (c nb : String)
  | addBlock (c nb : String) (tys : List Ty)
  | addSuccessor (c nb : String) (w : WireRef)
  | branch (c : String) (w : WireRef) (dst : NodeRef)
  | branchExit (c : String) (w : WireRef)
  | addCase (c nb : String) (k : Int)
  | exitConditional (c : String)
  | trackWire (b : String) (w : WireRef)
  | trackWires (b : String) (ws : List WireRef)
  | trackInputs (b : String)
  | untrackWire (b : String) (i : Nat)
  | trackedWire (b : String) (i : Nat)
  | setIndexedOutputs (b : String) (args : List CWRef)
  | setTrackedOutputs (b : String)
  | toJson (b : String)
  /-- constructing an argument of the command raised (e.g. `ops.Call(...)` given as an operation) -/
  | fail (e : BuildErr)

/-- what a command returns -/
inductive Result where
  | none
  | node (h : Handle)
  | nodes (hs : List Handle)
  | builder (bi : Nat)
  | int (i : Nat)
  | ints (is : List Nat)
  | wire (w : Wire)
  | doc (j : Json)

def lookup {α : Type} (k : String) : List (String × α) → Option α
  | [] => none
  | (a, v) :: rest => if a = k then some v else lookup k rest

def bindVar {α : Type} (k : String) (v : α) (env : List (String × α)) : List (String × α) := (k, v) :: env

namespace BuildState

/-- the builder object a variable denotes -/
def bvar (st : BuildState) (b : String) : Except BuildErr Nat :=
  match lookup b st.benv with
  | some bi => .ok bi
  | none => .error .unsupported

def bindB (st : BuildState) (b : String) (bi : Nat) : BuildState := { st with benv := bindVar b bi st.benv }
def bindN (st : BuildState) (n : String) (h : Handle) : BuildState := { st with nenv := bindVar n h st.nenv }

/-- builder variable → (object, record), required to be of a kind satisfying `p` and not spent -/
def builderOf (st : BuildState) (b : String) (p : BKind → Bool) : Except BuildErr (Nat × BRec) :=
  match st.bvar b with
  | .error e => .error e
  | .ok bi =>
    match st.liveB bi with
    | .error e => .error e
    | .ok r => if p r.kind then .ok (bi, r) else .error .unsupported

/-- as `builderOf`, but the HUGR may have been inserted elsewhere (read-only uses) -/
def builderOfRO (st : BuildState) (b : String) (p : BKind → Bool) : Except BuildErr (Nat × BRec) :=
  match st.bvar b with
  | .error e => .error e
  | .ok bi =>
    match st.getB bi with
    | .error e => .error e
    | .ok r => if p r.kind then .ok (bi, r) else .error .unsupported

end BuildState

def hasParentNode (k : BKind) : Bool := k != .module

/-- evaluation of a node reference to a handle -/
def evalNode (st : BuildState) : NodeRef → Except BuildErr Handle
  | .var n =>
    match lookup n st.nenv with
    | some h => .ok h
    | none => .error .unsupported
  | .builder b =>
    match st.builderOfRO b hasParentNode with
    | .error e => .error e
    | .ok (_, r) => .ok r.parent
  | .input b =>
    match st.builderOfRO b BKind.isDf with
    | .error e => .error e
    | .ok (_, r) => .ok r.input
  | .output b =>
    match st.builderOfRO b BKind.isDf with
    | .error e => .error e
    | .ok (_, r) => .ok r.output
  | .entry c =>
    match st.builderOfRO c (· == .cfg) with
    | .error e => .error e
    | .ok (_, r) =>
      match r.entry with
      | none => .error .unsupported
      | some eb =>
        match st.getB eb with
        | .error e => .error e
        | .ok er => .ok er.parent
  | .exit c =>
    match st.builderOfRO c (· == .cfg) with
    | .error e => .error e
    | .ok (_, r) => .ok r.exit
  | .root b =>
    match st.builderOfRO b (fun _ => true) with
    | .error e => .error e
    | .ok (_, r) =>
      match st.getHugr r.hid with
      | .error e => .error e
      | .ok s => .ok (s.root, some 0)
  | .condNode b =>
    match st.builderOfRO b (fun k => k == .ifB || k == .elseB) with
    | .error e => .error e
    | .ok (bi, _) =>
      match parentConditional st bi with
      | .error e => .error e
      | .ok ci =>
        match st.getB ci with
        | .error e => .error e
        | .ok c => .ok c.parent
  | .raw i => .ok (i, none)

/-- `Node._normalize_index(k)` for `k ≥ 0` without `allow_overflow` -/
def normalizeIndex (h : Handle) (k : Nat) : Except BuildErr Wire :=
  match h.2 with
  | some m => if k ≥ m then .error .indexError else .ok (h.1, (k : Int))
  | none => .ok (h.1, (k : Int))

def evalWire (st : BuildState) : WireRef → Except BuildErr Wire
  | .out n k =>
    match evalNode st n with
    | .error e => .error e
    | .ok h => .ok (h.1, k)
  | .idx n k =>
    match evalNode st n with
    | .error e => .error e
    | .ok h => normalizeIndex h k
  | .inp b k =>
    match st.builderOfRO b BKind.isDf with
    | .error e => .error e
    | .ok (bi, _) =>
      match inputsOf st bi with
      | .error e => .error e
      | .ok ws =>
        match ws[k]? with
        | some w => .ok w
        | none => .error .indexError
  | .node n =>
    match evalNode st n with
    | .error e => .error e
    | .ok h => .ok (h.1, 0)

def evalWires (st : BuildState) : List WireRef → Except BuildErr (List Wire)
  | [] => .ok []
  | w :: ws =>
    match evalWire st w with
    | .error e => .error e
    | .ok x =>
      match evalWires st ws with
      | .error e => .error e
      | .ok xs => .ok (x :: xs)

def evalCW (st : BuildState) : CWRef → Except BuildErr ComWire
  | .wire w =>
    match evalWire st w with
    | .error e => .error e
    | .ok x => .ok (.wire x)
  | .tracked i => .ok (.idx i)

def evalCWs (st : BuildState) : List CWRef → Except BuildErr (List ComWire)
  | [] => .ok []
  | w :: ws =>
    match evalCW st w with
    | .error e => .error e
    | .ok x =>
      match evalCWs st ws with
      | .error e => .error e
      | .ok xs => .ok (x :: xs)

def evalOptNode (st : BuildState) : Option NodeRef → Except BuildErr (Option Nat)
  | none => .ok none
  | some r =>
    match evalNode st r with
    | .error e => .error e
    | .ok h => .ok (some h.1)

def evalComs (st : BuildState) : List (Op × List CWRef) → Except BuildErr (List (Op × List ComWire))
  | [] => .ok []
  | (op, ws) :: rest =>
    match evalCWs st ws with
    | .error e => .error e
    | .ok xs =>
      match evalComs st rest with
      | .error e => .error e
      | .ok ys => .ok ((op, xs) :: ys)

def bindNodes (st : BuildState) : List String → List Handle → BuildState
  | n :: ns, h :: hs => bindNodes (st.bindN n h) ns hs
  | _, _ => st

def retB (b : String) : Except BuildErr (BuildState × Nat) → Except BuildErr (BuildState × Result)
  | .error e => .error e
  | .ok (st, bi) => .ok (st.bindB b bi, .builder bi)

def retN (n : String) : Except BuildErr (BuildState × Handle) → Except BuildErr (BuildState × Result)
  | .error e => .error e
  | .ok (st, h) => .ok (st.bindN n h, .node h)

def retU : Except BuildErr BuildState → Except BuildErr (BuildState × Result)
  | .error e => .error e
  | .ok st => .ok (st, .none)

def isKind (k : BKind) : BKind → Bool := (· == k)

/-- One command.  `enc` is the encoder string of `to_json`. -/
def step (enc : String) (st : BuildState) : Cmd → Except BuildErr (BuildState × Result)
  | .fail e => .error e
  | .newDfg b tys => retB b (newStandaloneDf st .dfg (.dfg tys none []))
  | .newFunction b name ins params => retB b (newStandaloneDf st .function (.funcDefn name ins params none))
  | .newTailLoop b ji rest => retB b (newStandaloneDf st .tailLoop (.tailLoop ji rest none []))
  | .newTracked b tys ti =>
    match newStandaloneDf st .tracked (.dfg tys none []) with
    | .error e => .error e
    | .ok (st1, bi) =>
      if ti then
        match inputsOf st1 bi, st1.getB bi with
        | .ok ws, .ok r => .ok ((st1.setB bi { r with tracked := ws.map some }).bindB b bi, .builder bi)
        | .error e, _ => .error e
        | _, .error e => .error e
      else .ok (st1.bindB b bi, .builder bi)
  | .newModule b =>
    let s0 : St := Store.init .module []
    let (st1, hid) := st.newHugr s0
    let (st2, bi) := st1.newB { kind := .module, hid, parent := (s0.root, some 0) }
    .ok (st2.bindB b bi, .builder bi)
  | .newCfg b tys =>
    let s0 : St := Store.init (.cfg tys none) []
    let (st1, hid) := st.newHugr s0
    retB b (cfgInit st1 hid (s0.root, some 0) tys)
  | .newConditional b sm other =>
    let s0 : St := Store.init (.conditional sm other none) []
    let (st1, hid) := st.newHugr s0
    retB b (condInit st1 hid (s0.root, some 0) sm.rows.length)
  | .addOp b n op args md =>
    match st.builderOf b BKind.isDf with
    | .error e => .error e
    | .ok (bi, _) =>
      match evalWires st args with
      | .error e => .error e
      | .ok ws => retN n (Build.addOp st bi op ws md)
  | .add b n op args md =>
    match st.builderOf b BKind.isDf with
    | .error e => .error e
    | .ok (bi, _) =>
      match evalCWs st args with
      | .error e => .error e
      | .ok ws => retN n (addCom st bi op ws md)
  | .extend b ns coms =>
    match st.builderOf b BKind.isDf with
    | .error e => .error e
    | .ok (bi, _) =>
      if ns.length ≠ coms.length then .error .unsupported else
      match evalComs st coms with
      | .error e => .error e
      | .ok cs =>
        match Build.extend bi st cs with
        | .error e => .error e
        | .ok (st1, hs) => .ok (bindNodes st1 ns hs, .nodes hs)
  | .load b n src =>
    match st.builderOf b BKind.isDf with
    | .error e => .error e
    | .ok (bi, _) =>
      match src with
      | .val v cp =>
        match evalOptNode st cp with
        | .error e => .error e
        | .ok p => retN n (loadValue st bi v p)
      | .const c =>
        match evalNode st c with
        | .error e => .error e
        | .ok h => retN n (loadConstNode st bi h.1)
  | .addConst b n v parent =>
    match st.builderOf b BKind.isDefBuilder with
    | .error e => .error e
    | .ok (bi, _) =>
      match evalOptNode st parent with
      | .error e => .error e
      | .ok p => retN n (Build.addConst st bi v p)
  | .addAliasDefn b n name t parent =>
    match st.builderOf b BKind.isDefBuilder with
    | .error e => .error e
    | .ok (bi, _) =>
      match evalOptNode st parent with
      | .error e => .error e
      | .ok p => retN n (addPlainNode st bi (.aliasDefn name t) p)
  | .addAliasDecl b n name bd =>
    match st.builderOf b (isKind .module) with
    | .error e => .error e
    | .ok (bi, _) => retN n (addPlainNode st bi (.aliasDecl name bd) none)
  | .call b n f args inst targs =>
    match st.builderOf b BKind.isDf with
    | .error e => .error e
    | .ok (bi, _) =>
      match evalNode st f with
      | .error e => .error e
      | .ok fh =>
        match evalWires st args with
        | .error e => .error e
        | .ok ws => retN n (Build.call st bi fh.1 ws inst targs)
  | .loadFunction b n f inst targs =>
    match st.builderOf b BKind.isDf with
    | .error e => .error e
    | .ok (bi, _) =>
      match evalNode st f with
      | .error e => .error e
      | .ok fh => retN n (Build.loadFunction st bi fh.1 inst targs)
  | .addNested b nb args =>
    match st.builderOf b BKind.isDf with
    | .error e => .error e
    | .ok (bi, _) =>
      match evalWires st args with
      | .error e => .error e
      | .ok ws => retB nb (Build.addNested st bi ws)
  | .insertNested b n o args =>
    match st.builderOf b BKind.isDf, st.builderOfRO o hasParentNode with
    | .ok (bi, _), .ok (oi, _) =>
      match evalWires st args with
      | .error e => .error e
      | .ok ws => retN n (Build.insertNested st bi oi ws)
    | .error e, _ => .error e
    | _, .error e => .error e
  | .addCfg b nb args =>
    match st.builderOf b BKind.isDf with
    | .error e => .error e
    | .ok (bi, _) =>
      match evalWires st args with
      | .error e => .error e
      | .ok ws => retB nb (Build.addCfg st bi ws)
  | .addConditional b nb w args =>
    match st.builderOf b BKind.isDf with
    | .error e => .error e
    | .ok (bi, _) =>
      match evalWires st (w :: args) with
      | .error e => .error e
      | .ok ws => retB nb (Build.addConditional st bi ws)
  | .insertConditional b n o w args =>
    match st.builderOf b BKind.isDf, st.builderOfRO o hasParentNode with
    | .ok (bi, _), .ok (oi, _) =>
      match evalWires st (w :: args) with
      | .error e => .error e
      | .ok ws => retN n (Build.insertNested st bi oi ws)
    | .error e, _ => .error e
    | _, .error e => .error e
  | .addIf b nb w args =>
    match st.builderOf b BKind.isDf with
    | .error e => .error e
    | .ok (bi, _) =>
      match evalWires st (w :: args) with
      | .error e => .error e
      | .ok ws => retB nb (Build.addIf st bi ws)
  | .addElse b nb =>
    match st.builderOf b (isKind .ifB) with
    | .error e => .error e
    | .ok (bi, _) => retB nb (Build.addElse st bi)
  | .addTailLoop b nb ji rest =>
    match st.builderOf b BKind.isDf with
    | .error e => .error e
    | .ok (bi, _) =>
      match evalWires st ji, evalWires st rest with
      | .ok a, .ok c => retB nb (Build.addTailLoop st bi a c)
      | .error e, _ => .error e
      | _, .error e => .error e
  | .insertTailLoop b n o ji rest =>
    match st.builderOf b BKind.isDf, st.builderOfRO o hasParentNode with
    | .ok (bi, _), .ok (oi, _) =>
      match evalWires st ji, evalWires st rest with
      | .ok a, .ok c => retN n (Build.insertNested st bi oi (a ++ c))
      | .error e, _ => .error e
      | _, .error e => .error e
    | .error e, _ => .error e
    | _, .error e => .error e
  | .defineFunction b nb name ins outs params parent =>
    match st.builderOf b BKind.isDefBuilder with
    | .error e => .error e
    | .ok (bi, _) =>
      match evalOptNode st parent with
      | .error e => .error e
      | .ok p => retB nb (Build.defineFunction st bi name ins outs params p)
  | .defineMain b nb ins =>
    match st.builderOf b (isKind .module) with
    | .error e => .error e
    | .ok (bi, _) => retB nb (Build.defineFunction st bi "main" ins none none none)
  | .declareFunction b n name sig =>
    match st.builderOf b (isKind .module) with
    | .error e => .error e
    | .ok (bi, _) => retN n (addPlainNode st bi (.funcDecl name sig) none)
  | .declareOutputs b outs =>
    match st.builderOf b (isKind .function) with
    | .error e => .error e
    | .ok (bi, _) => retU (Build.declareOutputs st bi outs)
  | .addStateOrder b src dst =>
    match st.builderOf b BKind.isDf with
    | .error e => .error e
    | .ok (_, r) =>
      match evalNode st src, evalNode st dst with
      | .ok a, .ok c =>
        match st.getHugr r.hid with
        | .error e => .error e
        | .ok s =>
          match liftS (Store.addOrderLink s a.1 c.1) with
          | .error e => .error e
          | .ok s1 => .ok (st.setHugr r.hid s1, .none)
      | .error e, _ => .error e
      | _, .error e => .error e
  | .setOutputs b args =>
    match st.builderOf b BKind.isDf with
    | .error e => .error e
    | .ok (bi, _) =>
      match evalWires st args with
      | .error e => .error e
      | .ok ws => retU (Build.setOutputs st bi ws)
  | .setBlockOutputs b w args =>
    match st.builderOf b (isKind .block) with
    | .error e => .error e
    | .ok (bi, _) =>
      match evalWires st (w :: args) with
      | .error e => .error e
      | .ok ws => retU (setOutputsBlock st bi ws)
  | .setSingleSuccOutputs b args =>
    match st.builderOf b (isKind .block) with
    | .error e => .error e
    | .ok (bi, _) =>
      match evalWires st args with
      | .error e => .error e
      | .ok ws => retU (Build.setSingleSuccOutputs st bi ws)
  | .setLoopOutputs b w args =>
    match st.builderOf b (isKind .tailLoop) with
    | .error e => .error e
    | .ok (bi, _) =>
      match evalWires st (w :: args) with
      | .error e => .error e
      | .ok ws => retU (setOutputsTailLoop st bi ws)
  | .addEntry c nb =>
    match st.builderOf c (isKind .cfg) with
    | .error e => .error e
    | .ok (_, r) =>
      match r.entry with
      | none => .error .unsupported
      | some eb => .ok (st.bindB nb eb, .builder eb)
  | .addBlock c nb tys =>
    match st.builderOf c (isKind .cfg) with
    | .error e => .error e
    | .ok (ci, _) => retB nb (Build.addBlock st ci tys)
  | .addSuccessor c nb w =>
    match st.builderOf c (isKind .cfg) with
    | .error e => .error e
    | .ok (ci, _) =>
      match evalWire st w with
      | .error e => .error e
      | .ok x => retB nb (Build.addSuccessor st ci x)
  | .branch c w dst =>
    match st.builderOf c (isKind .cfg) with
    | .error e => .error e
    | .ok (ci, _) =>
      match evalWire st w, evalNode st dst with
      | .ok x, .ok d => retU (Build.branch st ci x d.1)
      | .error e, _ => .error e
      | _, .error e => .error e
  | .branchExit c w =>
    match st.builderOf c (isKind .cfg) with
    | .error e => .error e
    | .ok (ci, _) =>
      match evalWire st w with
      | .error e => .error e
      | .ok x => retU (Build.branchExit st ci x)
  | .addCase c nb k =>
    match st.builderOf c (isKind .conditional) with
    | .error e => .error e
    | .ok (ci, _) => retB nb (Build.addCase st ci k)
  | .exitConditional c =>
    match st.builderOf c (isKind .conditional) with
    | .error e => .error e
    | .ok (ci, _) =>
      match condExit st ci with
      | .error e => .error e
      | .ok () => .ok (st, .none)
  | .trackWire b w =>
    match st.builderOf b (isKind .tracked) with
    | .error e => .error e
    | .ok (bi, _) =>
      match evalWire st w with
      | .error e => .error e
      | .ok x =>
        match Build.trackWire st bi x with
        | .error e => .error e
        | .ok (st1, i) => .ok (st1, .int i)
  | .trackWires b ws =>
    match st.builderOf b (isKind .tracked) with
    | .error e => .error e
    | .ok (bi, _) =>
      match evalWires st ws with
      | .error e => .error e
      | .ok xs =>
        match Build.trackWires bi st xs with
        | .error e => .error e
        | .ok (st1, is) => .ok (st1, .ints is)
  | .trackInputs b =>
    match st.builderOf b (isKind .tracked) with
    | .error e => .error e
    | .ok (bi, _) =>
      match inputsOf st bi with
      | .error e => .error e
      | .ok xs =>
        match Build.trackWires bi st xs with
        | .error e => .error e
        | .ok (st1, is) => .ok (st1, .ints is)
  | .untrackWire b i =>
    match st.builderOf b (isKind .tracked) with
    | .error e => .error e
    | .ok (bi, _) =>
      match Build.untrackWire st bi i with
      | .error e => .error e
      | .ok (st1, w) => .ok (st1, .wire w)
  | .trackedWire b i =>
    match st.builderOf b (isKind .tracked) with
    | .error e => .error e
    | .ok (_, r) =>
      match Build.trackedWire r.tracked i with
      | .error e => .error e
      | .ok w => .ok (st, .wire w)
  | .setIndexedOutputs b args =>
    match st.builderOf b (isKind .tracked) with
    | .error e => .error e
    | .ok (bi, _) =>
      match evalCWs st args with
      | .error e => .error e
      | .ok ws => retU (Build.setIndexedOutputs st bi ws)
  | .setTrackedOutputs b =>
    match st.builderOf b (isKind .tracked) with
    | .error e => .error e
    | .ok (bi, _) => retU (Build.setTrackedOutputs st bi)
  | .toJson b =>
    match st.builderOfRO b (fun _ => true) with
    | .error e => .error e
    | .ok (bi, _) =>
      match Build.toJson st bi enc with
      | .error e => .error e
      | .ok j => .ok (st, .doc j)

/-- the outcome of one command as the harness observes it: the result together with the state it
    refers to (builder results are printed from their records), or the exception class -/
inductive Outcome where
  | ok (st : BuildState) (r : Result)
  | err (e : BuildErr)

/-- Run a program: outcomes up to and including the first raising command, and the final state. -/
def runProgram (enc : String) : BuildState → List Cmd → List Outcome × BuildState
  | st, [] => ([], st)
  | st, c :: cs =>
    match step enc st c with
    | .error e => ([.err e], st)
    | .ok (st1, r) =>
      let (os, stf) := runProgram enc st1 cs
      (.ok st1 r :: os, stf)

/-- the state-only view: `.error` as soon as a command raises -/
def run (enc : String) : BuildState → List Cmd → Except BuildErr BuildState
  | st, [] => .ok st
  | st, c :: cs =>
    match step enc st c with
    | .error e => .error e
    | .ok (st1, _) => run enc st1 cs

end HugrVerif.Build
