/-
  The operation layer of the codec (reused by C05): `decOp (encOp op p) = (norm op, p)` for every
  complete operation, `encOp (norm op) = encOp op`, and the derived facts of `norm op` are those of
  `op`.  The type layer comes from `Proofs/TysCodec.lean` (C07); the value layer is a hypothesis about
  the constant an operation carries (`ValOK`), to be discharged from `Proofs/ValCodec.lean` (C14).
-/
import HugrVerif.Proofs.Ops
import HugrVerif.Proofs.TysCodec

set_option linter.unusedSimpArgs false
set_option linter.unusedVariables false

namespace HugrVerif.OpProofs
open HugrVerif HugrVerif.Op HugrVerif.Codec

/-! ### the `Except` monad -/

theorem bind_eq_ok {ε α β : Type} (x : Except ε α) (f : α → Except ε β) (b : β) :
    (x >>= f) = .ok b ↔ ∃ a, x = .ok a ∧ f a = .ok b := by
  cases x <;> simp [bind, Except.bind]

theorem pure_eq_ok {ε α : Type} (a b : α) : (pure a : Except ε α) = .ok b ↔ a = b := by
  simp [pure, Except.pure]

theorem liftEnc_ok {α : Type} (x : Except EncErr α) (a : α) : liftEnc x = .ok a ↔ x = .ok a := by
  cases x with
  | ok v => simp [liftEnc]
  | error e => cases e <;> simp [liftEnc]

theorem need_ok {α : Type} (x : Option α) (a : α) : need x = .ok a ↔ x = some a := by
  cases x <;> simp [need]

/-! ### what the pieces of an encoding look like, and how they decode -/

theorem encRowJ_ok (ts : List Ty) (j : Json) : encRowJ ts = .ok j ↔ ∃ js, encRow ts = .ok js ∧ j = .arr js := by
  simp only [encRowJ, bind_eq_ok, pure_eq_ok, liftEnc_ok]
  constructor <;> (rintro ⟨a, h, rfl⟩; exact ⟨a, h, rfl⟩)

theorem encRowsJ_ok (rows : List (List Ty)) (j : Json) :
    encRowsJ rows = .ok j ↔ ∃ js, encRows rows = .ok js ∧ j = .arr js := by
  simp only [encRowsJ, bind_eq_ok, pure_eq_ok, liftEnc_ok]
  constructor <;> (rintro ⟨a, h, rfl⟩; exact ⟨a, h, rfl⟩)

theorem encArgsJ_ok (as : List TypeArg) (j : Json) :
    encArgsJ as = .ok j ↔ ∃ js, encArgs as = .ok js ∧ j = .arr js := by
  simp only [encArgsJ, bind_eq_ok, pure_eq_ok, liftEnc_ok]
  constructor <;> (rintro ⟨a, h, rfl⟩; exact ⟨a, h, rfl⟩)

theorem encTypeField_ok (t : Ty) (j : Json) : encTypeField t = .ok j ↔ t.isPoly = false ∧ encTy t = .ok j := by
  cases t <;> simp [encTypeField, Ty.isPoly, liftEnc_ok]

theorem dec_row (fuel : Nat) (ts : List Ty) (j : Json) (h : encRowJ ts = .ok j) (hd : Ty.depthRow ts + 1 ≤ fuel) :
    decRow fuel j = .ok (Ty.normRow ts) := by
  obtain ⟨js, h', rfl⟩ := (encRowJ_ok ts j).1 h
  exact decRow_encRow_arr ts js fuel h' hd

theorem dec_rows (fuel : Nat) (rows : List (List Ty)) (j : Json) (h : encRowsJ rows = .ok j)
    (hd : Ty.depthRows rows + 1 ≤ fuel) : decRowsField fuel j = .ok (Ty.normRows rows) := by
  obtain ⟨js, h', rfl⟩ := (encRowsJ_ok rows j).1 h
  have := mapM_decRow_encRows rows js fuel h' (fun _ _ t _ => rt_all.1 t) hd
  simp [decRowsField, asArr, bind, Except.bind, pure, Except.pure, this]

theorem dec_args (fuel : Nat) (as : List TypeArg) (j : Json) (h : encArgsJ as = .ok j)
    (hd : Ty.depthArgs as ≤ fuel) : decArgsField fuel j = .ok (Ty.normArgs as) := by
  obtain ⟨js, h', rfl⟩ := (encArgsJ_ok as j).1 h
  have := mapM_decArg_encArgs_ok as js fuel h' hd
  simp [decArgsField, asArr, bind, Except.bind, pure, Except.pure, this]

/-- fuel sufficient for a signature field -/
def dSig (s : Sig) : Nat := max (Ty.depthRow s.inp) (Ty.depthRow s.out) + 1

theorem dec_sig (fuel : Nat) (s : Sig) (j : Json) (h : encSig s = .ok j) (hd : dSig s ≤ fuel) :
    decSigField fuel j = .ok s.norm := by
  simp only [encSig, liftEnc_ok, Sig.toTy] at h
  have := decFuncType_encTy s.inp s.out s.reqs j fuel h hd
  simp [decSigField, this, bind, Except.bind, pure, Except.pure, Sig.norm]

theorem dec_poly (fuel : Nat) (p : Poly) (j : Json) (h : encPoly p = .ok j) (hd : p.toTy.depth ≤ fuel) :
    decPolyField fuel j = .ok p.norm := by
  simp only [encPoly, liftEnc_ok, Poly.toTy] at h
  have := decPoly_encTy p.params p.body.inp p.body.out p.body.reqs j fuel h hd
  simp [decPolyField, this, bind, Except.bind, pure, Except.pure, Poly.norm, Sig.norm, Ty.norm]

theorem dec_type (fuel : Nat) (t : Ty) (j : Json) (h : encTypeField t = .ok j) (hd : t.depth ≤ fuel) :
    decTy fuel j = .ok t.norm := by
  obtain ⟨hp, h⟩ := (encTypeField_ok t j).1 h
  exact decTy_encTy t j fuel h hp hd

/-! ### sufficient fuel for an operation -/

def depth : Op → Nat
  | .input ts => Ty.depthRow ts + 1
  | .output (some ts) => Ty.depthRow ts + 1
  | .custom _ s _ _ a => max (dSig s) (Ty.depthArgs a)
  | .extOp d s? a =>
    max (match extOpCustom d s? with | .ok (_, s, _) => dSig s | .error _ => 0) (Ty.depthArgs a)
  | .makeTuple (some ts) => max (dSig ⟨ts, [Ty.tuple ts], ["prelude"]⟩) (Ty.depthArgs [.sequence (ts.map .type)])
  | .unpackTuple (some ts) => max (dSig ⟨[Ty.tuple ts], ts, ["prelude"]⟩) (Ty.depthArgs [.sequence (ts.map .type)])
  | .noop (some t) => max (dSig ⟨[t], [t], ["prelude"]⟩) (Ty.depthArgs [.type t])
  | .tag _ s => Ty.depthRows s.rows + 1
  | .dfg i (some o) d => dSig ⟨i, o, d⟩
  | .cfg i (some o) => dSig ⟨i, o, []⟩
  | .dataflowBlock i (some s) (some oo) _ => max (Ty.depthRow i + 1) (max (Ty.depthRows s.rows + 1) (Ty.depthRow oo + 1))
  | .exitBlock (some o) => Ty.depthRow o + 1
  | .loadConst (some t) => t.depth
  | .conditional s oi (some o) => max (Ty.depthRows s.rows + 1) (max (Ty.depthRow oi + 1) (Ty.depthRow o + 1))
  | .case i (some o) => dSig ⟨i, o, []⟩
  | .tailLoop ji rest (some jo) _ => max (Ty.depthRow ji + 1) (max (Ty.depthRow jo + 1) (Ty.depthRow rest + 1))
  | .funcDefn _ i ps (some o) => (Poly.toTy ⟨ps, ⟨i, o, []⟩⟩).depth
  | .funcDecl _ p => p.toTy.depth
  | .call p inst a => max p.toTy.depth (max (dSig inst) (Ty.depthArgs a))
  | .callIndirect (some s) => dSig s
  | .loadFunc p inst a => max p.toTy.depth (max (dSig inst) (Ty.depthArgs a))
  | .aliasDefn _ t => t.depth
  | _ => 0

/-- The value layer's round trip for the constant the operation carries (`nv`: the value normal form). -/
def ValOK (nv : Value → Value) (vdec : Json → Except DecErr Value) : Op → Prop
  | .const v => ∀ j, encVal v = .ok j → vdec j = .ok (nv v)
  | _ => True

theorem encCustom_ok (p : Int) (n : String) (s : Sig) (d e : String) (a : List TypeArg) (j : Json) :
    encCustom p n s d e a = .ok j ↔ ∃ js ja, encSig s = .ok js ∧ encArgsJ a = .ok ja ∧
      j = .obj [("parent", .int p), ("op", .str "Extension"), ("extension", .str e), ("name", .str n),
        ("signature", js), ("description", .str d), ("args", ja)] := by
  simp only [encCustom, bind_eq_ok, pure_eq_ok]
  constructor
  · rintro ⟨js, h1, ja, h2, rfl⟩; exact ⟨js, ja, h1, h2, rfl⟩
  · rintro ⟨js, ja, h1, h2, rfl⟩; exact ⟨js, h1, ja, h2, rfl⟩

theorem dec_custom (vdec) (fuel : Nat) (p : Int) (n : String) (s : Sig) (d e : String) (a : List TypeArg) (j : Json)
    (h : encCustom p n s d e a = .ok j) (h1 : dSig s ≤ fuel) (h2 : Ty.depthArgs a ≤ fuel) :
    decWith vdec fuel j = .ok (.custom n s.norm d e (Ty.normArgs a), p) := by
  obtain ⟨js, ja, hs, ha, rfl⟩ := (encCustom_ok p n s d e a j).1 h
  have e1 := dec_sig fuel s js hs h1
  have e2 := dec_args fuel a ja ha h2
  simp [decWith, decKind, decExtensionOp, liftDec, asObj, req, field, asStr, asInt, optField, e1, e2,
    bind, Except.bind, pure, Except.pure]

theorem normArgs_length (a : List TypeArg) : (Ty.normArgs a).length = a.length := by
  rw [Ty.normArgs_eq_map, List.length_map]

theorem dec_callFields (fuel : Nat) (p : Poly) (inst : Sig) (a : List TypeArg) (jp ja ji : Json)
    (hp : encPoly p = .ok jp) (ha : encArgsJ a = .ok ja) (hi : encSig inst = .ok ji)
    (hc : if p.params.length = 0 then inst = p.body ∧ a = [] else p.params.length = a.length)
    (h1 : p.toTy.depth ≤ fuel) (h2 : dSig inst ≤ fuel) (h3 : Ty.depthArgs a ≤ fuel) (tag : String) (par : Int) :
    decCallFields fuel [("parent", .int par), ("op", .str tag), ("func_sig", jp), ("type_args", ja), ("instantiation", ji)]
      = .ok (if p.params.length = 0 then (p.norm, p.body.norm, []) else (p.norm, inst.norm, Ty.normArgs a)) := by
  have e1 := dec_poly fuel p jp hp h1
  have e2 := dec_args fuel a ja ha h3
  have e3 := dec_sig fuel inst ji hi h2
  by_cases h0 : p.params.length = 0
  · simp [decCallFields, liftDec, req, field, e1, e2, e3, bind, Except.bind, pure, Except.pure, callOrLoadInit,
      Poly.norm, h0]
  · simp only [h0, if_false] at hc
    have hne : ¬ a = [] := by
      intro h; subst h; exact h0 (by simpa using hc)
    simp [decCallFields, liftDec, req, field, e1, e2, e3, bind, Except.bind, pure, Except.pure, callOrLoadInit,
      Poly.norm, h0, normArgs_length, hc, hne]

/-- **Round trip of operations**, relative to a value decoder. -/
theorem decWith_encOp (nv : Value → Value) (vdec : Json → Except DecErr Value) (op : Op) (p : Int) (j : Json)
    (fuel : Nat) (h : encOp op p = .ok j) (hc : CallOK op) (hd : depth op ≤ fuel) (hv : ValOK nv vdec op) :
    decWith vdec fuel j = .ok (norm nv op, p) := by
  cases op
  case input ts =>
    simp only [encOp, bind_eq_ok, pure_eq_ok] at h
    obtain ⟨jr, hr, rfl⟩ := h
    have := dec_row fuel ts jr hr hd
    simp [decWith, decKind, decInput, liftDec, asObj, req, field, asStr, asInt, optField, this, Op.norm,
      bind, Except.bind, pure, Except.pure]
  case output ts =>
    cases ts with
    | none => simp [encOp, need, bind, Except.bind] at h
    | some ts =>
      simp only [encOp, bind_eq_ok, pure_eq_ok, need_ok, Option.some.injEq, exists_eq_left'] at h
      obtain ⟨jr, hr, rfl⟩ := h
      have := dec_row fuel ts jr hr hd
      simp [decWith, decKind, decOutput, liftDec, asObj, req, field, asStr, asInt, optField, this, Op.norm,
        bind, Except.bind, pure, Except.pure]
  case custom n s d e a =>
    simp only [encOp] at h
    simp only [depth] at hd
    simpa [Op.norm] using dec_custom vdec fuel p n s d e a j h (by omega) (by omega)
  case extOp d sg a =>
    simp only [encOp, bind_eq_ok] at h
    obtain ⟨⟨n, s, e⟩, hx, h⟩ := h
    simp only [depth, hx] at hd
    simp only [Op.norm, hx]
    exact dec_custom vdec fuel p n s d.description e a j h (by omega) (by omega)
  case makeTuple ts =>
    cases ts with
    | none => simp [encOp, need, bind, Except.bind] at h
    | some ts =>
      simp only [encOp, bind_eq_ok, need_ok, Option.some.injEq, exists_eq_left'] at h
      simp only [depth] at hd
      simpa [Op.norm] using dec_custom vdec fuel p _ _ _ _ _ j h (by omega) (by omega)
  case unpackTuple ts =>
    cases ts with
    | none => simp [encOp, need, bind, Except.bind] at h
    | some ts =>
      simp only [encOp, bind_eq_ok, need_ok, Option.some.injEq, exists_eq_left'] at h
      simp only [depth] at hd
      simpa [Op.norm] using dec_custom vdec fuel p _ _ _ _ _ j h (by omega) (by omega)
  case noop t =>
    cases t with
    | none => simp [encOp, need, bind, Except.bind] at h
    | some t =>
      simp only [encOp, bind_eq_ok, need_ok, Option.some.injEq, exists_eq_left'] at h
      simp only [depth] at hd
      simpa [Op.norm] using dec_custom vdec fuel p _ _ _ _ _ j h (by omega) (by omega)
  case tag t s =>
    simp only [encOp, bind_eq_ok, pure_eq_ok] at h
    obtain ⟨jr, hr, rfl⟩ := h
    have := dec_rows fuel s.rows jr hr hd
    simp [decWith, decKind, decTag, liftDec, asObj, req, field, asStr, asInt, this, Op.norm,
      bind, Except.bind, pure, Except.pure]
  case dfg i o d =>
    cases o with
    | none => simp [encOp, need, bind, Except.bind] at h
    | some o =>
      simp only [encOp, bind_eq_ok, pure_eq_ok, need_ok, Option.some.injEq, exists_eq_left'] at h
      obtain ⟨js, hs, rfl⟩ := h
      have := dec_sig fuel ⟨i, o, d⟩ js hs hd
      simp [decWith, decKind, decDFG, liftDec, asObj, req, field, asStr, asInt, optField, this, Op.norm, Sig.norm,
        bind, Except.bind, pure, Except.pure]
  case cfg i o =>
    cases o with
    | none => simp [encOp, need, bind, Except.bind] at h
    | some o =>
      simp only [encOp, bind_eq_ok, pure_eq_ok, need_ok, Option.some.injEq, exists_eq_left'] at h
      obtain ⟨js, hs, rfl⟩ := h
      have := dec_sig fuel ⟨i, o, []⟩ js hs hd
      simp [decWith, decKind, decCFG, liftDec, asObj, req, field, asStr, asInt, optField, this, Op.norm, Sig.norm,
        bind, Except.bind, pure, Except.pure]
  case dataflowBlock i s oo d =>
    cases s with
    | none =>
      simp only [encOp, bind_eq_ok, need_ok] at h
      obtain ⟨_, _, _, h, _⟩ := h; cases h
    | some s =>
      cases oo with
      | none =>
        simp only [encOp, bind_eq_ok, need_ok] at h
        obtain ⟨_, _, _, _, _, _, _, h, _⟩ := h; cases h
      | some oo =>
        simp only [encOp, bind_eq_ok, pure_eq_ok, need_ok, Option.some.injEq, exists_eq_left'] at h
        obtain ⟨ji, h1, jr, h2, jo, h3, rfl⟩ := h
        simp only [depth] at hd
        have e1 := dec_row fuel i ji h1 (by omega)
        have e2 := dec_rows fuel s.rows jr h2 (by omega)
        have e3 := dec_row fuel oo jo h3 (by omega)
        simp [decWith, decKind, decDataflowBlock, liftDec, asObj, req, field, asStr, asInt, optField, e1, e2, e3,
          Op.norm, decStrs_encStrs, bind, Except.bind, pure, Except.pure]
  case exitBlock o =>
    cases o with
    | none => simp [encOp, need, bind, Except.bind] at h
    | some o =>
      simp only [encOp, bind_eq_ok, pure_eq_ok, need_ok, Option.some.injEq, exists_eq_left'] at h
      obtain ⟨jr, hr, rfl⟩ := h
      have := dec_row fuel o jr hr hd
      simp [decWith, decKind, decExitBlock, liftDec, asObj, req, field, asStr, asInt, this, Op.norm,
        bind, Except.bind, pure, Except.pure]
  case const v =>
    simp only [encOp, bind_eq_ok, pure_eq_ok, liftEnc_ok] at h
    obtain ⟨jv, hjv, rfl⟩ := h
    have := hv jv hjv
    simp [decWith, decKind, decConst, liftDec, asObj, req, field, asStr, asInt, this, Op.norm,
      bind, Except.bind, pure, Except.pure]
  case loadConst t =>
    cases t with
    | none => simp [encOp, need, bind, Except.bind] at h
    | some t =>
      simp only [encOp, bind_eq_ok, pure_eq_ok, need_ok, Option.some.injEq, exists_eq_left'] at h
      obtain ⟨jt, ht, rfl⟩ := h
      have := dec_type fuel t jt ht hd
      simp [decWith, decKind, decLoadConstant, liftDec, asObj, req, field, asStr, asInt, this, Op.norm,
        bind, Except.bind, pure, Except.pure]
  case conditional s oi o =>
    cases o with
    | none =>
      simp only [encOp, bind_eq_ok, need_ok] at h
      obtain ⟨_, _, _, _, _, h, _⟩ := h; cases h
    | some o =>
      simp only [encOp, bind_eq_ok, pure_eq_ok, need_ok, Option.some.injEq, exists_eq_left'] at h
      obtain ⟨jr, h1, ji, h2, jo, h3, rfl⟩ := h
      simp only [depth] at hd
      have e1 := dec_rows fuel s.rows jr h1 (by omega)
      have e2 := dec_row fuel oi ji h2 (by omega)
      have e3 := dec_row fuel o jo h3 (by omega)
      simp [decWith, decKind, decConditional, liftDec, asObj, req, field, asStr, asInt, optField, e1, e2, e3,
        Op.norm, decStrs, asArr, bind, Except.bind, pure, Except.pure]
  case case i o =>
    cases o with
    | none => simp [encOp, need, bind, Except.bind] at h
    | some o =>
      simp only [encOp, bind_eq_ok, pure_eq_ok, need_ok, Option.some.injEq, exists_eq_left'] at h
      obtain ⟨js, hs, rfl⟩ := h
      have := dec_sig fuel ⟨i, o, []⟩ js hs hd
      simp [decWith, decKind, decCase, liftDec, asObj, req, field, asStr, asInt, optField, this, Op.norm, Sig.norm,
        bind, Except.bind, pure, Except.pure]
  case tailLoop ji rest jo d =>
    cases jo with
    | none =>
      simp only [encOp, bind_eq_ok, need_ok] at h
      obtain ⟨_, _, _, h, _⟩ := h; cases h
    | some jo =>
      simp only [encOp, bind_eq_ok, pure_eq_ok, need_ok, Option.some.injEq, exists_eq_left'] at h
      obtain ⟨a, h1, b, h2, c, h3, rfl⟩ := h
      simp only [depth] at hd
      have e1 := dec_row fuel ji a h1 (by omega)
      have e2 := dec_row fuel jo b h2 (by omega)
      have e3 := dec_row fuel rest c h3 (by omega)
      simp [decWith, decKind, decTailLoop, liftDec, asObj, req, field, asStr, asInt, optField, e1, e2, e3,
        Op.norm, decStrs_encStrs, bind, Except.bind, pure, Except.pure]
  case funcDefn n i ps o =>
    cases o with
    | none => simp [encOp, need, bind, Except.bind] at h
    | some o =>
      simp only [encOp, bind_eq_ok, pure_eq_ok, need_ok, Option.some.injEq, exists_eq_left'] at h
      obtain ⟨jp, hp, rfl⟩ := h
      have := dec_poly fuel ⟨ps, ⟨i, o, []⟩⟩ jp hp hd
      simp [decWith, decKind, decFuncDefn, liftDec, asObj, req, field, asStr, asInt, this, Op.norm, Poly.norm,
        Sig.norm, bind, Except.bind, pure, Except.pure]
  case funcDecl n q =>
    simp only [encOp, bind_eq_ok, pure_eq_ok] at h
    obtain ⟨jp, hp, rfl⟩ := h
    have := dec_poly fuel q jp hp hd
    simp [decWith, decKind, decFuncDecl, liftDec, asObj, req, field, asStr, asInt, this, Op.norm,
      bind, Except.bind, pure, Except.pure]
  case module =>
    simp only [encOp, pure_eq_ok] at h
    subst h
    simp [decWith, decKind, decModule, liftDec, asObj, req, field, asStr, asInt, Op.norm,
      bind, Except.bind, pure, Except.pure]
  case call q inst a =>
    simp only [encOp, bind_eq_ok, pure_eq_ok] at h
    obtain ⟨jp, hp, ja, ha, ji, hi, rfl⟩ := h
    simp only [depth] at hd
    have := dec_callFields fuel q inst a jp ja ji hp ha hi hc (by omega) (by omega) (by omega) "Call" p
    by_cases h0 : q.params.length = 0 <;>
      simp [decWith, decKind, decCall, liftDec, asObj, req, field, asStr, asInt, this, Op.norm, h0,
        bind, Except.bind, pure, Except.pure]
  case callIndirect s =>
    cases s with
    | none => simp [encOp, need, bind, Except.bind] at h
    | some s =>
      simp only [encOp, bind_eq_ok, pure_eq_ok, need_ok, Option.some.injEq, exists_eq_left'] at h
      obtain ⟨js, hs, rfl⟩ := h
      have := dec_sig fuel s js hs hd
      simp [decWith, decKind, decCallIndirect, liftDec, asObj, req, field, asStr, asInt, optField, this, Op.norm,
        bind, Except.bind, pure, Except.pure]
  case loadFunc q inst a =>
    simp only [encOp, bind_eq_ok, pure_eq_ok] at h
    obtain ⟨jp, hp, ja, ha, ji, hi, rfl⟩ := h
    simp only [depth] at hd
    have := dec_callFields fuel q inst a jp ja ji hp ha hi hc (by omega) (by omega) (by omega) "LoadFunction" p
    by_cases h0 : q.params.length = 0 <;>
      simp [decWith, decKind, decLoadFunction, liftDec, asObj, req, field, asStr, asInt, this, Op.norm, h0,
        bind, Except.bind, pure, Except.pure]
  case aliasDecl n b =>
    simp only [encOp, pure_eq_ok] at h
    subst h
    cases b <;>
      simp [decWith, decKind, decAliasDecl, liftDec, asObj, req, field, asStr, asInt, Op.norm, encBound, decBound,
        bind, Except.bind, pure, Except.pure]
  case aliasDefn n t =>
    simp only [encOp, bind_eq_ok, pure_eq_ok] at h
    obtain ⟨jt, ht, rfl⟩ := h
    have := dec_type fuel t jt ht hd
    simp [decWith, decKind, decAliasDefn, liftDec, asObj, req, field, asStr, asInt, this, Op.norm,
      bind, Except.bind, pure, Except.pure]

/-- **`decOp ∘ encOp`**: for every complete (= encodable) operation, with fuel `depth op + 1`. -/
theorem decOp_encOp (nv : Value → Value) (op : Op) (p : Int) (j : Json) (fuel : Nat)
    (h : encOp op p = .ok j) (hc : CallOK op) (hd : depth op ≤ fuel)
    (hv : ValOK nv (decVal (fnSig fuel) fuel) op) : decOp (fuel + 1) j = .ok (norm nv op, p) := by
  rw [decOp]
  exact decWith_encOp nv _ op p j fuel h hc hd hv


/-! ### the normal form encodes to the same document -/

theorem encRowJ_norm (ts : List Ty) : encRowJ (Ty.normRow ts) = encRowJ ts := by
  simp only [encRowJ, encRow_normRow ts (fun t _ => encTy_norm t)]

theorem encRowsJ_norm (rows : List (List Ty)) : encRowsJ (Ty.normRows rows) = encRowsJ rows := by
  simp only [encRowsJ, encRows_normRows rows (fun _ _ t _ => encTy_norm t)]

theorem encArgsJ_norm (a : List TypeArg) : encArgsJ (Ty.normArgs a) = encArgsJ a := by
  simp only [encArgsJ, encArgs_normArgs a (fun x _ => encArg_normArg x)]

theorem encSig_norm (s : Sig) : encSig s.norm = encSig s := by
  have := encTy_norm (.function s.inp s.out s.reqs)
  simp only [Ty.norm] at this
  simp only [encSig, Sig.norm, Sig.toTy, this]

theorem encPoly_norm (p : Poly) : encPoly p.norm = encPoly p := by
  have := encTy_norm (.poly p.params p.body.inp p.body.out p.body.reqs)
  simp only [Ty.norm] at this
  simp only [encPoly, Poly.norm, Sig.norm, Poly.toTy, this]

theorem encTypeField_eq (t : Ty) :
    encTypeField t = if t.isPoly then .error .validationError else liftEnc (encTy t) := by
  cases t <;> simp [encTypeField, Ty.isPoly]

theorem encTypeField_norm (t : Ty) : encTypeField t.norm = encTypeField t := by
  rw [encTypeField_eq, encTypeField_eq, Ty.isPoly_norm, encTy_norm]

theorem encCustom_norm (p : Int) (n : String) (s : Sig) (d e : String) (a : List TypeArg) :
    encCustom p n s.norm d e (Ty.normArgs a) = encCustom p n s d e a := by
  simp only [encCustom, encSig_norm, encArgsJ_norm]

theorem need_some_bind {α β : Type} (a : α) (f : α → Except OpErr β) : (need (some a) >>= f) = f a := rfl

theorem rows_general (rows : List (List Ty)) : (SumTy.general rows).rows = rows := rfl

/-- **`encOp (norm op) = encOp op`** for every encodable operation. -/
theorem encOp_norm (nv : Value → Value) (op : Op) (p : Int) (j : Json) (h : encOp op p = .ok j) (hc : CallOK op)
    (hv : ∀ v, op = .const v → encVal (nv v) = encVal v) : encOp (norm nv op) p = .ok j := by
  cases op
  case input ts => simpa only [need_some_bind, Op.norm, encOp, encRowJ_norm] using h
  case output ts => cases ts <;> simpa only [need_some_bind, Op.norm, encOp, encRowJ_norm] using h
  case custom n s d e a => simpa only [need_some_bind, Op.norm, encOp, encCustom_norm] using h
  case extOp d sg a =>
    simp only [encOp, bind_eq_ok] at h
    obtain ⟨⟨n, s, e⟩, hx, h⟩ := h
    simpa only [need_some_bind, Op.norm, hx, encOp, encCustom_norm] using h
  case makeTuple ts =>
    cases ts with
    | none => simpa only [Op.norm] using h
    | some ts =>
      simp only [encOp, bind_eq_ok, need_ok, Option.some.injEq, exists_eq_left'] at h
      simpa only [need_some_bind, Op.norm, encOp, encCustom_norm] using h
  case unpackTuple ts =>
    cases ts with
    | none => simpa only [Op.norm] using h
    | some ts =>
      simp only [encOp, bind_eq_ok, need_ok, Option.some.injEq, exists_eq_left'] at h
      simpa only [need_some_bind, Op.norm, encOp, encCustom_norm] using h
  case noop t =>
    cases t with
    | none => simpa only [Op.norm] using h
    | some t =>
      simp only [encOp, bind_eq_ok, need_ok, Option.some.injEq, exists_eq_left'] at h
      simpa only [need_some_bind, Op.norm, encOp, encCustom_norm] using h
  case tag t s => simpa only [need_some_bind, Op.norm, encOp, rows_general, encRowsJ_norm] using h
  case dfg i o d =>
    cases o with
    | none => simpa only [Op.norm] using h
    | some o =>
      have := encSig_norm ⟨i, o, d⟩
      simp only [Sig.norm] at this
      simpa only [need_some_bind, Op.norm, encOp, this] using h
  case cfg i o =>
    cases o with
    | none => simpa only [Op.norm] using h
    | some o =>
      have := encSig_norm ⟨i, o, []⟩
      simp only [Sig.norm] at this
      simpa only [need_some_bind, Op.norm, encOp, this] using h
  case dataflowBlock i s oo d =>
    cases s <;> cases oo <;> simpa only [need_some_bind, Op.norm, encOp, rows_general, encRowsJ_norm, encRowJ_norm] using h
  case exitBlock o => cases o <;> simpa only [need_some_bind, Op.norm, encOp, encRowJ_norm] using h
  case const v => simpa only [need_some_bind, Op.norm, encOp, hv v rfl] using h
  case loadConst t => cases t <;> simpa only [need_some_bind, Op.norm, encOp, encTypeField_norm] using h
  case conditional s oi o =>
    cases o <;> simpa only [need_some_bind, Op.norm, encOp, rows_general, encRowsJ_norm, encRowJ_norm] using h
  case case i o =>
    cases o with
    | none => simpa only [Op.norm] using h
    | some o =>
      have := encSig_norm ⟨i, o, []⟩
      simp only [Sig.norm] at this
      simpa only [need_some_bind, Op.norm, encOp, this] using h
  case tailLoop ji rest jo d => cases jo <;> simpa only [need_some_bind, Op.norm, encOp, encRowJ_norm] using h
  case funcDefn n i ps o =>
    cases o with
    | none => simpa only [Op.norm] using h
    | some o =>
      have := encPoly_norm ⟨ps, ⟨i, o, []⟩⟩
      simp only [Poly.norm, Sig.norm] at this
      simpa only [need_some_bind, Op.norm, encOp, this] using h
  case funcDecl n q => simpa only [need_some_bind, Op.norm, encOp, encPoly_norm] using h
  case module => simpa only [Op.norm] using h
  case call q inst a =>
    by_cases h0 : q.params.length = 0
    · simp only [CallOK, h0, if_true] at hc
      obtain ⟨rfl, rfl⟩ := hc
      have : Ty.normArgs ([] : List TypeArg) = [] := rfl
      simpa only [need_some_bind, Op.norm, h0, if_true, encOp, encPoly_norm, encSig_norm] using h
    · simpa only [need_some_bind, Op.norm, h0, if_false, encOp, encPoly_norm, encSig_norm, encArgsJ_norm] using h
  case callIndirect s => cases s <;> simpa only [need_some_bind, Op.norm, encOp, encSig_norm] using h
  case loadFunc q inst a =>
    by_cases h0 : q.params.length = 0
    · simp only [CallOK, h0, if_true] at hc
      obtain ⟨rfl, rfl⟩ := hc
      simpa only [need_some_bind, Op.norm, h0, if_true, encOp, encPoly_norm, encSig_norm] using h
    · simpa only [need_some_bind, Op.norm, h0, if_false, encOp, encPoly_norm, encSig_norm, encArgsJ_norm] using h
  case aliasDecl n b => simpa only [Op.norm] using h
  case aliasDefn n t => simpa only [need_some_bind, Op.norm, encOp, encTypeField_norm] using h


/-! ### the normal form has the same derived facts

Equality of types across the codec is Python's `==`, which identifies `UnitSum(n)` with the general
sum of `n` empty rows; the only place where an operation's normal form differs in this way from the
operation is the operation's *own* sum type (`Tag.sum_ty`, `Conditional.sum_ty`), which appears at
the top level of a row.  `genTop` maps both spellings to the general one. -/

def genTop : Ty → Ty
  | .unitSum n => .sum (List.replicate n [])
  | t => t

def sigGen (s : Sig) : Sig := ⟨s.inp.map genTop, s.out.map genTop, s.reqs⟩

def kindNorm : Kind → Kind
  | .value t => .value t.norm
  | .const t => .const t.norm
  | .function p => .function p.norm
  | k => k

def kindGen : Kind → Kind
  | .value t => .value (genTop t)
  | .const t => .const (genTop t)
  | k => k

theorem normRow_length (ts : List Ty) : (Ty.normRow ts).length = ts.length := by
  rw [Ty.normRow_eq_map, List.length_map]

theorem normRows_length (rows : List (List Ty)) : (Ty.normRows rows).length = rows.length := by
  rw [Ty.normRows_eq_map, List.length_map]

theorem normRows_replicate (n : Nat) : Ty.normRows (List.replicate n []) = List.replicate n [] := by
  induction n with
  | zero => rfl
  | succ n ih => simp only [List.replicate_succ, Ty.normRows, Ty.normRow, ih]

theorem genTop_norm_sumTy (s : SumTy) : genTop (Ty.norm s.toTy) = .sum (Ty.normRows s.rows) := by
  cases s with
  | general rows => simp [SumTy.toTy, SumTy.rows, Ty.norm, genTop]
  | unit n => simp [SumTy.toTy, SumTy.rows, Ty.norm, genTop, normRows_replicate]

theorem except_map_map {ε α β γ : Type} (x : Except ε α) (f : α → β) (g : β → γ) :
    (x.map f).map g = x.map (fun a => g (f a)) := by
  cases x <;> rfl

theorem sigPortType_gen (s : Sig) (d : Dir) (off : Int) :
    sigPortType (sigGen s) d off = (sigPortType s d off).map genTop := by
  unfold sigPortType sigGen
  by_cases h : off = -1
  · simp [h, Except.map]
  · cases d <;> simp [h, index_map]

theorem sigPortType_norm (s : Sig) (d : Dir) (off : Int) :
    sigPortType s.norm d off = (sigPortType s d off).map Ty.norm := by
  unfold sigPortType Sig.norm
  by_cases h : off = -1
  · simp [h, Except.map]
  · cases d <;> simp [h, Ty.normRow_eq_map, index_map]

theorem dfPortKind_congr (op1 op2 : Op) (hd1 : op1.isDataflowOp = true) (hd2 : op2.isDataflowOp = true)
    (hs : (outerSig op1).map sigGen = (outerSig op2).map (fun s => sigGen s.norm)) (d : Dir) (off : Int) :
    (dfPortKind op1 d off).map kindGen = (dfPortKind op2 d off).map (fun k => kindGen (kindNorm k)) := by
  unfold dfPortKind
  by_cases h : off = -1
  · simp [h, Except.map, kindGen, kindNorm]
  · simp only [h, if_false, portType, hd1, hd2, if_true]
    cases h1 : outerSig op1 with
    | error e1 =>
      cases h2 : outerSig op2 with
      | error e2 =>
        rw [h1, h2] at hs
        simp only [Except.map, Except.error.injEq] at hs
        subst hs
        simp [bind, Except.bind, Except.map]
      | ok s2 => rw [h1, h2] at hs; simp [Except.map] at hs
    | ok s1 =>
      cases h2 : outerSig op2 with
      | error e2 => rw [h1, h2] at hs; simp [Except.map] at hs
      | ok s2 =>
        rw [h1, h2] at hs
        simp only [Except.map, Except.ok.injEq] at hs
        have e1 := sigPortType_gen s1 d off
        have e2 := sigPortType_gen s2.norm d off
        rw [hs, e2, sigPortType_norm] at e1
        simp only [bind, Except.bind, pure, Except.pure]
        cases h3 : sigPortType s1 d off <;> cases h4 : sigPortType s2 d off <;>
          simp_all [Except.map, kindGen, kindNorm]

/-- the outer signature of the normal form -/
theorem outerSig_norm (nv : Value → Value) (op : Op) (p : Int) (j : Json) (h : encOp op p = .ok j) (hc : CallOK op) :
    (outerSig (norm nv op)).map sigGen = (outerSig op).map (fun s => sigGen s.norm) := by
  cases op
  case extOp d sg a =>
    simp only [encOp, bind_eq_ok] at h
    obtain ⟨⟨n, s, e⟩, hx, h⟩ := h
    simp only [Op.norm, hx, outerSig]
    cases sg with
    | some s' =>
      simp [extOpCustom, bind, Except.bind, pure, Except.pure] at hx
      obtain ⟨_, rfl, _⟩ := hx
      simp [Except.map]
    | none =>
      cases hp : d.polyFunc with
      | none => simp [extOpCustom, hp, bind, Except.bind, throw, throwThe, MonadExceptOf.throw] at hx
      | some q =>
        by_cases hq : q.params.length > 0
        · simp [extOpCustom, hp, hq, bind, Except.bind, throw, throwThe, MonadExceptOf.throw] at hx
        · simp [extOpCustom, hp, hq, bind, Except.bind, pure, Except.pure] at hx
          obtain ⟨_, rfl, _⟩ := hx
          simp [Except.map]
  case tag t s =>
    simp only [Op.norm, outerSig, rows_general, Ty.normRows_eq_map, index_map]
    cases index s.rows t with
    | error e => simp [Except.map, bind, Except.bind]
    | ok r =>
      have := genTop_norm_sumTy s
      simp [Except.map, bind, Except.bind, pure, Except.pure, Functor.map, sigGen, Sig.norm,
        Ty.normRow, this, ← Ty.normRows_eq_map]
      simp [SumTy.toTy, genTop]
  case conditional s oi o =>
    cases o with
    | none =>
      simp only [encOp, bind_eq_ok, need_ok] at h
      obtain ⟨_, _, _, _, _, h, _⟩ := h; cases h
    | some o =>
      have := genTop_norm_sumTy s
      simp [Op.norm, outerSig, need, Except.map, bind, Except.bind, pure, Except.pure, Functor.map, sigGen, Sig.norm,
        Ty.normRow, this]
      simp [SumTy.toTy, genTop]
  case call q inst a =>
    by_cases h0 : q.params.length = 0 <;> simp [Op.norm, h0, outerSig, Except.map]
  case loadFunc q inst a =>
    by_cases h0 : q.params.length = 0
    · simp only [CallOK, h0, if_true] at hc
      obtain ⟨rfl, rfl⟩ := hc
      simp [Op.norm, h0, outerSig, Except.map, sigGen, Sig.norm, Sig.toTy, Ty.normRow, Ty.norm, genTop]
    · simp [Op.norm, h0, outerSig, Except.map, sigGen, Sig.norm, Sig.toTy, Ty.normRow, Ty.norm, genTop]
  case input ts => simp [Op.norm, outerSig, Except.map, sigGen, Sig.norm, Ty.normRow]
  case output ts =>
    cases ts <;> simp [Op.norm, outerSig, need, Except.map, Functor.map, sigGen, Sig.norm, Ty.normRow]
  case custom n s d e a => simp [Op.norm, outerSig, Except.map]
  case makeTuple ts =>
    cases ts <;> simp [Op.norm, outerSig, need, Except.map, Functor.map, sigGen, Sig.norm, Ty.normRow]
  case unpackTuple ts =>
    cases ts <;> simp [Op.norm, outerSig, need, Except.map, Functor.map, sigGen, Sig.norm, Ty.normRow]
  case noop t =>
    cases t <;> simp [Op.norm, outerSig, need, Except.map, Functor.map, sigGen, Sig.norm, Ty.normRow]
  case dfg i o d =>
    cases o <;> simp [Op.norm, outerSig, need, Except.map, Functor.map, sigGen, Sig.norm, Ty.normRow]
  case cfg i o =>
    cases o <;> simp [Op.norm, outerSig, need, Except.map, Functor.map, sigGen, Sig.norm, Ty.normRow]
  case loadConst t =>
    cases t <;> simp [Op.norm, outerSig, need, Except.map, Functor.map, sigGen, Sig.norm, Ty.normRow]
  case tailLoop ji rest jo d =>
    cases jo <;>
      simp [Op.norm, outerSig, need, Except.map, Functor.map, sigGen, Sig.norm, Ty.normRow, Ty.normRow_eq_map]
  case callIndirect sg =>
    cases sg <;>
      simp [Op.norm, outerSig, need, Except.map, Functor.map, sigGen, Sig.norm, Ty.normRow, Sig.toTy, Ty.norm, genTop]
  case dataflowBlock i sm oo d =>
    cases sm <;> cases oo <;> simp [Op.norm, outerSig, Except.map]
  case exitBlock o => cases o <;> simp [Op.norm, outerSig, Except.map]
  case const v => simp [Op.norm, outerSig, Except.map]
  case case i o => cases o <;> simp [Op.norm, outerSig, Except.map]
  case funcDefn n i ps o => cases o <;> simp [Op.norm, outerSig, Except.map]
  case funcDecl n q => simp [Op.norm, outerSig, Except.map]
  case module => simp [Op.norm, outerSig, Except.map]
  case aliasDecl n b => simp [Op.norm, outerSig, Except.map]
  case aliasDefn n t => simp [Op.norm, outerSig, Except.map]


theorem extOpCustom_sig (d : OpDefRef) (sg : Option Sig) (n : String) (s : Sig) (e : String)
    (hx : extOpCustom d sg = .ok (n, s, e)) (a : List TypeArg) : outerSig (.extOp d sg a) = .ok s := by
  cases sg with
  | some s' =>
    simp [extOpCustom, bind, Except.bind, pure, Except.pure] at hx
    obtain ⟨_, rfl, _⟩ := hx
    simp [outerSig]
  | none =>
    cases hp : d.polyFunc with
    | none => simp [extOpCustom, hp, bind, Except.bind, throw, throwThe, MonadExceptOf.throw] at hx
    | some q =>
      by_cases hq : q.params.length > 0
      · simp [extOpCustom, hp, hq, bind, Except.bind, throw, throwThe, MonadExceptOf.throw] at hx
      · simp [extOpCustom, hp, hq, bind, Except.bind, pure, Except.pure] at hx
        obtain ⟨_, rfl, _⟩ := hx
        simp [outerSig, hp]

/-- the output count of the normal form -/
theorem numOut_norm (nv : Value → Value) (op : Op) (p : Int) (j : Json) (h : encOp op p = .ok j) (hc : CallOK op) :
    numOut (norm nv op) = numOut op := by
  cases op
  case extOp d sg a =>
    simp only [encOp, bind_eq_ok] at h
    obtain ⟨⟨n, s, e⟩, hx, h⟩ := h
    simp [Op.norm, hx, numOut, extOpCustom_sig d sg n s e hx a, bind, Except.bind, pure, Except.pure, Sig.norm,
      normRow_length]
  case call q inst a =>
    by_cases h0 : q.params.length = 0
    · simp only [CallOK, h0, if_true] at hc
      obtain ⟨rfl, rfl⟩ := hc
      simp [Op.norm, h0, numOut, Sig.norm, normRow_length]
    · simp [Op.norm, h0, numOut, Sig.norm, normRow_length]
  case loadFunc q inst a => by_cases h0 : q.params.length = 0 <;> simp [Op.norm, h0, numOut]
  case input ts => simp [Op.norm, numOut, normRow_length]
  case output ts => cases ts <;> simp [Op.norm, numOut]
  case custom n s d e a => simp [Op.norm, numOut, Sig.norm, normRow_length]
  case makeTuple ts => cases ts <;> simp [Op.norm, numOut, Sig.norm, Ty.normRow]
  case unpackTuple ts =>
    cases ts <;> simp [Op.norm, numOut, Sig.norm, normRow_length, need, bind, Except.bind, pure, Except.pure]
  case noop t => cases t <;> simp [Op.norm, numOut, Sig.norm, Ty.normRow]
  case tag t s => simp [Op.norm, numOut]
  case dfg i o d => cases o <;> simp [Op.norm, numOut, normRow_length, need, bind, Except.bind, pure, Except.pure]
  case cfg i o => cases o <;> simp [Op.norm, numOut, normRow_length, need, bind, Except.bind, pure, Except.pure]
  case loadConst t => cases t <;> simp [Op.norm, numOut]
  case conditional s oi o =>
    cases o <;> simp [Op.norm, numOut, normRow_length, need, bind, Except.bind, pure, Except.pure]
  case tailLoop ji rest jo d =>
    cases jo <;> simp [Op.norm, numOut, normRow_length, need, bind, Except.bind, pure, Except.pure]
  case callIndirect sg =>
    cases sg <;> simp [Op.norm, numOut, Sig.norm, normRow_length, need, bind, Except.bind, pure, Except.pure]
  case dataflowBlock i sm oo d =>
    cases sm <;> cases oo <;>
      simp [Op.norm, numOut, rows_general, normRows_length, need, bind, Except.bind, pure, Except.pure]
  case exitBlock o => cases o <;> simp [Op.norm, numOut]
  case const v => simp [Op.norm, numOut]
  case case i o => cases o <;> simp [Op.norm, numOut]
  case funcDefn n i ps o => cases o <;> simp [Op.norm, numOut]
  case funcDecl n q => simp [Op.norm, numOut]
  case module => simp [Op.norm, numOut]
  case aliasDecl n b => simp [Op.norm, numOut]
  case aliasDefn n t => simp [Op.norm, numOut]


/-- the port kinds of the normal form -/
theorem portKind_norm (nv : Value → Value) (op : Op) (p : Int) (j : Json) (h : encOp op p = .ok j) (hc : CallOK op)
    (hnv : ∀ v, op = .const v → (nv v).typeOf = v.typeOf.norm) (d : Dir) (off : Int) :
    (portKind (norm nv op) d off).map kindGen = (portKind op d off).map (fun k => kindGen (kindNorm k)) := by
  have hs := outerSig_norm nv op p j h hc
  -- the operations using the default `DataflowOp.port_kind`
  have dflt : ∀ (op' : Op), norm nv op = op' → op'.isDataflowOp = true → op.isDataflowOp = true →
      portKind op' d off = dfPortKind op' d off → portKind op d off = dfPortKind op d off →
      (portKind (norm nv op) d off).map kindGen = (portKind op d off).map (fun k => kindGen (kindNorm k)) := by
    intro op' e hd1 hd2 e1 e2
    rw [e, e1, e2]
    rw [e] at hs
    exact dfPortKind_congr op' op hd1 hd2 hs d off
  cases op
  case extOp dd sg a =>
    simp only [encOp, bind_eq_ok] at h
    obtain ⟨⟨n, s, e⟩, hx, h⟩ := h
    exact dflt (.custom n s.norm dd.description e (Ty.normArgs a)) (by simp only [Op.norm, hx]) rfl rfl rfl rfl
  case input ts => exact dflt _ rfl rfl rfl rfl rfl
  case custom n s dd e a => exact dflt _ rfl rfl rfl rfl rfl
  case tag t s => exact dflt _ rfl rfl rfl rfl rfl
  case output ts =>
    cases ts with
    | none => simp [encOp, need, bind, Except.bind] at h
    | some ts => exact dflt _ rfl rfl rfl rfl rfl
  case makeTuple ts =>
    cases ts with
    | none => simp [encOp, need, bind, Except.bind] at h
    | some ts => exact dflt _ rfl rfl rfl rfl rfl
  case unpackTuple ts =>
    cases ts with
    | none => simp [encOp, need, bind, Except.bind] at h
    | some ts => exact dflt _ rfl rfl rfl rfl rfl
  case noop t =>
    cases t with
    | none => simp [encOp, need, bind, Except.bind] at h
    | some t => exact dflt _ rfl rfl rfl rfl rfl
  case dfg i o dd =>
    cases o with
    | none => simp [encOp, need, bind, Except.bind] at h
    | some o => exact dflt _ rfl rfl rfl rfl rfl
  case cfg i o =>
    cases o with
    | none => simp [encOp, need, bind, Except.bind] at h
    | some o => exact dflt _ rfl rfl rfl rfl rfl
  case conditional s oi o =>
    cases o with
    | none => exact dflt _ rfl rfl rfl rfl rfl
    | some o => exact dflt _ rfl rfl rfl rfl rfl
  case tailLoop ji rest jo dd =>
    cases jo with
    | none => exact dflt _ rfl rfl rfl rfl rfl
    | some jo => exact dflt _ rfl rfl rfl rfl rfl
  case callIndirect sg =>
    cases sg with
    | none => exact dflt _ rfl rfl rfl rfl rfl
    | some sg => exact dflt _ rfl rfl rfl rfl rfl
  case loadConst t =>
    cases t with
    | none => simp [encOp, need, bind, Except.bind] at h
    | some t =>
      simp only [Op.norm, portKind]
      by_cases h1 : off = -1
      · simp [h1, Except.map, kindGen, kindNorm]
      · by_cases h0 : off = 0
        · cases d <;> simp [h0, need, bind, Except.bind, pure, Except.pure, Except.map, kindGen, kindNorm]
        · simp [h1, h0, Except.map]
  case call q inst a =>
    have key : ∀ (inst' : Sig) (a' : List TypeArg), inst'.inp.length = inst.inp.length →
        (∀ dd oo, sigPortType inst' dd oo = (sigPortType inst dd oo).map Ty.norm) →
        (portKind (.call q.norm inst' a') d off).map kindGen =
          (portKind (.call q inst a) d off).map (fun k => kindGen (kindNorm k)) := by
      intro inst' a' hl hsp
      simp only [portKind, hl]
      by_cases h1 : off = -1
      · simp [h1, Except.map, kindGen, kindNorm]
      · simp only [h1, if_false]
        by_cases h2 : d = .inc ∧ off = (inst.inp.length : Int)
        · simp [h2, Except.map, kindGen, kindNorm]
        · simp only [h2, if_false, hsp]
          cases sigPortType inst d off <;> simp [Except.map, bind, Except.bind, pure, Except.pure, kindGen, kindNorm]
    by_cases h0 : q.params.length = 0
    · simp only [CallOK, h0, if_true] at hc
      obtain ⟨rfl, rfl⟩ := hc
      simp only [Op.norm, h0, if_true]
      exact key _ _ (by simp [Sig.norm, normRow_length]) (fun dd oo => sigPortType_norm _ dd oo)
    · simp only [Op.norm, h0, if_false]
      exact key _ _ (by simp [Sig.norm, normRow_length]) (fun dd oo => sigPortType_norm _ dd oo)
  case loadFunc q inst a =>
    have key : ∀ (a' : List TypeArg),
        (portKind (.loadFunc q.norm inst.norm a') d off).map kindGen =
          (portKind (.loadFunc q inst a) d off).map (fun k => kindGen (kindNorm k)) := by
      intro a'
      simp only [portKind]
      by_cases h1 : off = -1
      · simp [h1, Except.map, kindGen, kindNorm]
      · by_cases h0 : off = 0
        · cases d <;> simp [h0, Except.map, kindGen, kindNorm, Sig.toTy, Sig.norm, Ty.norm, genTop]
        · simp [h1, h0, Except.map]
    by_cases h0 : q.params.length = 0
    · simp only [CallOK, h0, if_true] at hc
      obtain ⟨rfl, rfl⟩ := hc
      simp only [Op.norm, h0, if_true]
      exact key _
    · simp only [Op.norm, h0, if_false]
      exact key _
  case const v =>
    simp only [Op.norm, portKind, hnv v rfl]
    split <;> simp [Except.map, kindGen, kindNorm]
  case funcDefn n i ps o =>
    cases o with
    | none => simp [encOp, need, bind, Except.bind] at h
    | some o =>
      simp only [Op.norm, portKind]
      split <;> simp [need, bind, Except.bind, pure, Except.pure, Except.map, kindGen, kindNorm, Poly.norm, Sig.norm,
        Ty.normRow]
  case funcDecl n q =>
    simp only [Op.norm, portKind]
    split <;> simp [Except.map, kindGen, kindNorm]
  case dataflowBlock i sm oo dd => cases sm <;> cases oo <;> simp [Op.norm, portKind, Except.map, kindGen, kindNorm]
  case exitBlock o => cases o <;> simp [Op.norm, portKind, Except.map, kindGen, kindNorm]
  case case i o => cases o <;> simp [Op.norm, portKind, Except.map]
  case module => simp [Op.norm, portKind, Except.map]
  case aliasDecl n b => simp [Op.norm, portKind, Except.map]
  case aliasDefn n t => simp [Op.norm, portKind, Except.map]

end HugrVerif.OpProofs
