/-
  The hierarchy walk of a freshly loaded HUGR is index order (C02): when every node's parent has a
  smaller index and every node's children are listed in increasing index order, the smallest-index-
  first walk of `_hierarchy_order` pops 0, 1, 2, … .
-/
import HugrVerif.Proofs.StoreOrder

namespace HugrVerif.Store
open Py HugrVerif

variable {Ω μ : Type}

theorem popMin_none : ∀ (l : List Nat), popMin l = none ↔ l = [] := by
  intro l
  cases l with
  | nil => simp [popMin]
  | cons x xs =>
    simp only [popMin]
    cases popMin xs with
    | none => simp
    | some r => obtain ⟨m, rest⟩ := r; by_cases h : x ≤ m <;> simp [h]

theorem popMin_perm : ∀ (l : List Nat) (m : Nat) (rest : List Nat), popMin l = some (m, rest) →
    (∀ x ∈ l, m ≤ x) ∧ l.Perm (m :: rest) := by
  intro l
  induction l with
  | nil => intro m rest h; simp [popMin] at h
  | cons x xs ih =>
    intro m rest h
    unfold popMin at h
    cases hp : popMin xs with
    | none =>
      simp [hp] at h; obtain ⟨rfl, rfl⟩ := h
      have : xs = [] := (popMin_none xs).mp hp
      subst this; simp
    | some r =>
      obtain ⟨m', rest'⟩ := r
      simp only [hp] at h
      obtain ⟨h1, h2⟩ := ih m' rest' hp
      by_cases hx : x ≤ m'
      · simp [hx] at h; obtain ⟨rfl, rfl⟩ := h
        refine ⟨?_, List.Perm.refl _⟩
        intro y hy
        rcases List.mem_cons.mp hy with rfl | hy
        · exact Nat.le_refl _
        · exact Nat.le_trans hx (h1 y hy)
      · simp [hx] at h; obtain ⟨rfl, rfl⟩ := h
        refine ⟨?_, ?_⟩
        · intro y hy
          rcases List.mem_cons.mp hy with rfl | hy
          · omega
          · exact h1 y hy
        · exact (List.Perm.cons x h2).trans (List.Perm.swap _ _ _)

theorem recordSiblings_nodup : ∀ (l : List Handle) (ns : Dict Nat Nat), Dict.NodupKeys ns →
    Dict.NodupKeys (recordSiblings ns l) := by
  intro l
  induction l with
  | nil => intro ns h; simpa [recordSiblings] using h
  | cons a t ih =>
    intro ns h
    cases t with
    | nil => simpa [recordSiblings] using h
    | cons b t' =>
      simp only [recordSiblings]
      exact ih _ (Dict.nodup_set _ _ _ h)

/-- the entry of `c` after recording the siblings of a strictly increasing child list: the next
    larger child, if `c` is a child and has one. -/
theorem recordSiblings_get : ∀ (l : List Handle) (ns : Dict Nat Nat) (c : Nat),
    (l.map (·.1)).Pairwise (· < ·) →
    Dict.get c (recordSiblings ns l) =
      if c ∈ l.map (·.1) then
        (match ((l.map (·.1)).filter (fun x => decide (c < x))).head? with
         | some b => some b
         | none => Dict.get c ns)
      else Dict.get c ns := by
  intro l
  induction l with
  | nil => intro ns c _; simp [recordSiblings]
  | cons a t ih =>
    intro ns c hp
    cases t with
    | nil =>
      simp only [recordSiblings, List.map_cons, List.map_nil, List.mem_singleton]
      by_cases hc : c = a.1
      · subst hc; simp
      · simp [hc]
    | cons b t' =>
      simp only [recordSiblings]
      have hp' : (((b :: t').map (·.1))).Pairwise (· < ·) := (List.pairwise_cons.mp hp).2
      have hlt : ∀ y ∈ (b :: t').map (·.1), a.1 < y := (List.pairwise_cons.mp hp).1
      rw [ih _ c hp', Dict.get_set]
      by_cases hc : c = a.1
      · subst hc
        have hnm : a.1 ∉ (b :: t').map (·.1) := fun hm => Nat.lt_irrefl _ (hlt _ hm)
        have hb : a.1 < b.1 := hlt b.1 (by simp)
        simp only [hnm, if_false, if_true]
        simp [hb]
      · have hmem : c ∈ (a :: b :: t').map (·.1) ↔ c ∈ (b :: t').map (·.1) := by
          simp [hc]
        by_cases hm : c ∈ (b :: t').map (·.1)
        · have hac : a.1 < c := hlt c hm
          have hna : ¬ c < a.1 := by omega
          simp only [hm, hmem.mpr hm, if_true, hc, if_false]
          have : ((a :: b :: t').map (·.1)).filter (fun x => decide (c < x)) =
              ((b :: t').map (·.1)).filter (fun x => decide (c < x)) := by
            simp [List.filter_cons, hna]
          rw [this]
        · have hm' : c ∉ (a :: b :: t').map (·.1) := fun h => hm (hmem.mp h)
          simp only [hm, hm', if_false, hc]

/-! ### the walk -/

section Walk
variable (n : Nat) (parOf : Nat → Nat)

def kids (m : Nat) : List Nat := (List.range n).filter (fun c => decide (0 < c ∧ parOf c = m))

def sibs (c : Nat) : List Nat := (List.range n).filter (fun c' => decide (c < c' ∧ 0 < c' ∧ parOf c' = parOf c))

def InReady (k c : Nat) : Prop :=
  k ≤ c ∧ c < n ∧ (c = 0 ∨ (parOf c < k ∧ ∀ c', c' < c → 0 < c' → parOf c' = parOf c → c' < k))

structure WInv (k : Nat) (ready : List Nat) (ns : Dict Nat Nat) : Prop where
  nd : ready.Nodup
  mem : ∀ c, c ∈ ready ↔ InReady n parOf k c
  keys : Dict.NodupKeys ns
  ns : ∀ c, k ≤ c → Dict.get c ns = if 0 < c ∧ c < n ∧ parOf c < k then (sibs n parOf c).head? else none

theorem mem_kids (m c : Nat) : c ∈ kids n parOf m ↔ c < n ∧ 0 < c ∧ parOf c = m := by
  simp [kids]

theorem mem_sibs (c c' : Nat) : c' ∈ sibs n parOf c ↔ c' < n ∧ c < c' ∧ 0 < c' ∧ parOf c' = parOf c := by
  simp [sibs]

theorem kids_sorted (m : Nat) : (kids n parOf m).Pairwise (· < ·) :=
  List.Pairwise.filter _ List.pairwise_lt_range

theorem sibs_sorted (c : Nat) : (sibs n parOf c).Pairwise (· < ·) :=
  List.Pairwise.filter _ List.pairwise_lt_range

theorem head_min (l : List Nat) (h : l.Pairwise (· < ·)) (a : Nat) (ha : l.head? = some a) :
    a ∈ l ∧ ∀ x ∈ l, a ≤ x := by
  cases l with
  | nil => simp at ha
  | cons b t =>
    simp at ha; subst ha
    refine ⟨by simp, ?_⟩
    intro x hx
    rcases List.mem_cons.mp hx with rfl | hx
    · exact Nat.le_refl _
    · exact Nat.le_of_lt ((List.pairwise_cons.mp h).1 x hx)

theorem kids_filter (m c : Nat) (hc : parOf c = m) :
    (kids n parOf m).filter (fun x => decide (c < x)) = sibs n parOf c := by
  simp only [kids, sibs, List.filter_filter]
  apply List.filter_congr
  intro x _
  simp only [hc]
  by_cases h1 : c < x <;> by_cases h2 : 0 < x <;> by_cases h3 : parOf x = m <;> simp [h1, h2, h3]

end Walk

/-- One step of the walk under the invariant, and the conclusion. -/
theorem hierLoop_range (s : Store Ω μ) (n : Nat) (parOf : Nat → Nat)
    (hpar : ∀ k, 0 < k → k < n → parOf k < k)
    (hnode : ∀ m, m < n → ∃ dm, getNode s m = .ok dm ∧ childIdxs dm = kids n parOf m) :
    ∀ (j k : Nat) (ready : List Nat) (ns : Dict Nat Nat), k + j = n → WInv n parOf k ready ns →
      ∀ fuel, j + 1 ≤ fuel → hierLoop s fuel ready ns (List.range k) = .ok (List.range n) := by
  intro j
  induction j with
  | zero =>
    intro k ready ns hk hw fuel hf
    have hkn : k = n := by omega
    subst hkn
    have : ready = [] := by
      cases ready with
      | nil => rfl
      | cons c t =>
        have := (hw.mem c).mp (by simp)
        obtain ⟨a, b, _⟩ := this
        omega
    subst this
    cases fuel with
    | zero => omega
    | succ f => simp [hierLoop, popMin]
  | succ j ih =>
    intro k ready ns hk hw fuel hf
    have hkn : k < n := by omega
    cases fuel with
    | zero => omega
    | succ f =>
    -- k is ready, and it is the minimum
    have hkr : k ∈ ready := by
      refine (hw.mem k).mpr ⟨Nat.le_refl _, hkn, ?_⟩
      by_cases h0 : k = 0
      · exact Or.inl h0
      · exact Or.inr ⟨hpar k (by omega) hkn, fun c' h _ _ => h⟩
    cases hp : popMin ready with
    | none => rw [(popMin_none ready).mp hp] at hkr; simp at hkr
    | some r =>
      obtain ⟨m, rest⟩ := r
      obtain ⟨hmin, hperm⟩ := popMin_perm ready m rest hp
      have hmr : m ∈ ready := hperm.mem_iff.mpr (by simp)
      have hmk : m = k := by
        have h1 := hmin k hkr
        have h2 := ((hw.mem m).mp hmr).1
        omega
      subst hmk
      have hnd' : (m :: rest).Nodup := hperm.nodup_iff.mp hw.nd
      have hmrest : m ∉ rest := (List.nodup_cons.mp hnd').1
      have hrnd : rest.Nodup := (List.nodup_cons.mp hnd').2
      have hrest : ∀ c, c ∈ rest ↔ c ∈ ready ∧ c ≠ m := by
        intro c
        rw [hperm.mem_iff]
        constructor
        · intro h; exact ⟨by simp [h], fun e => hmrest (e ▸ h)⟩
        · intro ⟨h, hne⟩; rcases List.mem_cons.mp h with e | h
          · exact absurd e hne
          · exact h
      obtain ⟨dm, hdm, hch⟩ := hnode m hkn
      have hch' : dm.children.map (·.1) = kids n parOf m := hch
      have hsorted : (dm.children.map (·.1)).Pairwise (· < ·) := by rw [hch']; exact kids_sorted n parOf m
      -- sibling table after recording the children of m
      have hns1 : ∀ c, Dict.get c (recordSiblings ns dm.children) =
          if c ∈ kids n parOf m then
            (match (sibs n parOf c).head? with | some b => some b | none => Dict.get c ns)
          else Dict.get c ns := by
        intro c
        rw [recordSiblings_get dm.children ns c hsorted, hch']
        by_cases hc : c ∈ kids n parOf m
        · simp only [hc, if_true]
          rw [kids_filter n parOf m c ((mem_kids n parOf m c).mp hc).2.2]
        · simp only [hc, if_false]
      have hkeys1 := recordSiblings_nodup dm.children ns hw.keys
      have hmk : m ∉ kids n parOf m := by
        intro h
        have := (mem_kids n parOf m m).mp h
        have := hpar m this.2.1 this.1
        omega
      have hgetm : Dict.get m (recordSiblings ns dm.children) =
          if 0 < m then (sibs n parOf m).head? else none := by
        rw [hns1 m]; simp only [hmk, if_false]
        rw [hw.ns m (Nat.le_refl _)]
        by_cases h0 : 0 < m
        · have := hpar m h0 hkn
          simp [h0, hkn, this]
        · simp [h0]
      -- first child
      let ready1 := match dm.children with
        | [] => rest
        | c :: _ => c.1 :: rest
      have hready1 : ∀ c, c ∈ ready1 ↔ c ∈ rest ∨ (kids n parOf m).head? = some c := by
        intro c
        simp only [ready1]
        rw [← hch']
        cases dm.children with
        | nil => simp
        | cons a t => simp [eq_comm, or_comm]
      have hfirst : ∀ c, (kids n parOf m).head? = some c ↔
          (c < n ∧ 0 < c ∧ parOf c = m ∧ ∀ c', c' < c → 0 < c' → parOf c' = m → False) := by
        intro c
        constructor
        · intro h
          obtain ⟨h1, h2⟩ := head_min _ (kids_sorted n parOf m) c h
          have h1' := (mem_kids n parOf m c).mp h1
          refine ⟨h1'.1, h1'.2.1, h1'.2.2, ?_⟩
          intro c' hlt h0 hp'
          have := h2 c' ((mem_kids n parOf m c').mpr ⟨by omega, h0, hp'⟩)
          omega
        · intro ⟨h1, h2, h3, h4⟩
          have hmem : c ∈ kids n parOf m := (mem_kids n parOf m c).mpr ⟨h1, h2, h3⟩
          cases hk' : kids n parOf m with
          | nil => rw [hk'] at hmem; simp at hmem
          | cons a t =>
            simp only [List.head?_cons, Option.some.injEq]
            have ha : a ∈ kids n parOf m := by rw [hk']; simp
            have ha' := (mem_kids n parOf m a).mp ha
            have hac : a ≤ c := (head_min _ (kids_sorted n parOf m) a (by rw [hk']; rfl)).2 c hmem
            by_cases hlt : a < c
            · exact absurd (h4 a hlt ha'.2.1 ha'.2.2) id
            · omega
      have hnd1 : ready1.Nodup := by
        simp only [ready1]
        have hch2 := hch'
        cases hcs : dm.children with
        | nil => exact hrnd
        | cons a t =>
          simp only
          refine List.nodup_cons.mpr ⟨?_, hrnd⟩
          intro hin
          have hin' := ((hrest a.1).mp hin).1
          have hra := (hw.mem a.1).mp hin'
          have ha : a.1 ∈ kids n parOf m := by rw [← hch2, hcs]; simp
          have ha' := (mem_kids n parOf m a.1).mp ha
          rcases hra.2.2 with h0 | ⟨h1, _⟩
          · omega
          · omega
      have hsib : ∀ sib, (sibs n parOf m).head? = some sib →
          (sib < n ∧ m < sib ∧ 0 < sib ∧ parOf sib = parOf m ∧
            ∀ c', m < c' → c' < sib → 0 < c' → parOf c' = parOf m → False) := by
        intro sib h
        obtain ⟨h1, h2⟩ := head_min _ (sibs_sorted n parOf m) sib h
        have h1' := (mem_sibs n parOf m sib).mp h1
        refine ⟨h1'.1, h1'.2.1, h1'.2.2.1, h1'.2.2.2, ?_⟩
        intro c' a b c0 d
        have := h2 c' ((mem_sibs n parOf m c').mpr ⟨by omega, a, c0, d⟩)
        omega
      have hnosib : (sibs n parOf m).head? = none → ∀ c', c' < n → m < c' → 0 < c' → parOf c' = parOf m → False := by
        intro h c' a b c0 d
        have hm : c' ∈ sibs n parOf m := (mem_sibs n parOf m c').mpr ⟨a, b, c0, d⟩
        cases hs : sibs n parOf m with
        | nil => rw [hs] at hm; simp at hm
        | cons x t => rw [hs] at h; simp at h
      -- assemble
      have hrange : List.range m ++ [m] = List.range (m + 1) := by rw [List.range_succ]
      unfold hierLoop
      simp only [hp, hdm]
      show (match Dict.get m (recordSiblings ns dm.children) with
        | some sib => hierLoop s f (sib :: ready1) (Dict.del m (recordSiblings ns dm.children)) (List.range m ++ [m])
        | none => hierLoop s f ready1 (recordSiblings ns dm.children) (List.range m ++ [m])) = _
      rw [hrange]
      -- the invariant for m + 1, in both branches
      have hmemcore : ∀ c, InReady n parOf (m + 1) c ↔
          ((c ∈ rest ∨ (kids n parOf m).head? = some c) ∨ (0 < m ∧ (sibs n parOf m).head? = some c)) := by
        intro c
        rw [hrest c, hw.mem c, hfirst c]
        constructor
        · intro ⟨h1, h2, h3⟩
          rcases h3 with h0 | ⟨h3, h4⟩
          · omega
          · by_cases hpm : parOf c = m
            · left; right
              refine ⟨h2, by omega, hpm, ?_⟩
              intro c' hlt h0 hp'
              have := h4 c' hlt h0 (by rw [hp', hpm])
              have := hpar c' h0 (by omega)
              omega
            · have hpc : parOf c < m := by omega
              by_cases hall : ∀ c', c' < c → 0 < c' → parOf c' = parOf c → c' < m
              · left; left
                exact ⟨⟨by omega, h2, Or.inr ⟨hpc, hall⟩⟩, by omega⟩
              · right
                -- m itself is an earlier sibling of c: c is the next sibling of m
                have hex : ∃ c', c' < c ∧ 0 < c' ∧ parOf c' = parOf c ∧ ¬ c' < m := by
                  apply Classical.byContradiction
                  intro hne
                  apply hall
                  intro c' a b d
                  apply Classical.byContradiction
                  intro hnl
                  exact hne ⟨c', a, b, d, hnl⟩
                obtain ⟨c', a, b, d, e⟩ := hex
                have hc'm : c' = m := by have := h4 c' a b d; omega
                subst hc'm
                refine ⟨b, ?_⟩
                cases hs : (sibs n parOf c').head? with
                | none => exact absurd (hnosib hs c h2 (by omega) (by omega) d.symm) id
                | some sib =>
                  obtain ⟨s1, s2, s3, s4, s5⟩ := hsib sib hs
                  have : ¬ sib < c := by
                    intro hlt
                    have := h4 sib hlt s3 (by rw [s4, d])
                    omega
                  have : ¬ c < sib := by
                    intro hlt
                    exact s5 c (by omega) hlt (by omega) d.symm
                  congr 1; omega
        · intro h
          rcases h with (⟨⟨h1, h2, h3⟩, hne⟩ | ⟨h1, h2, h3, h4⟩) | ⟨h0, hs⟩
          · refine ⟨by omega, h2, ?_⟩
            rcases h3 with h0 | ⟨h3, h4⟩
            · omega
            · exact Or.inr ⟨by omega, fun c' a b d => by have := h4 c' a b d; omega⟩
          · have := hpar c h2 h1
            refine ⟨by omega, h1, Or.inr ⟨by omega, ?_⟩⟩
            intro c' a b d
            exact absurd (h4 c' a b (by rw [d, h3])) id
          · obtain ⟨s1, s2, s3, s4, s5⟩ := hsib c hs
            have := hpar m h0 hkn
            refine ⟨by omega, s1, Or.inr ⟨by omega, ?_⟩⟩
            intro c' a b d
            apply Classical.byContradiction
            intro hnl
            have hrm := (hw.mem m).mp hkr
            by_cases hcm : c' = m
            · omega
            · exact s5 c' (by omega) a b (by rw [d, s4])
      have hnscore : ∀ (ns2 : Dict Nat Nat), (∀ c, m + 1 ≤ c → Dict.get c ns2 = Dict.get c (recordSiblings ns dm.children)) →
          ∀ c, m + 1 ≤ c → Dict.get c ns2 =
            if 0 < c ∧ c < n ∧ parOf c < m + 1 then (sibs n parOf c).head? else none := by
        intro ns2 h2 c hc
        rw [h2 c hc, hns1 c, hw.ns c (by omega)]
        by_cases hk' : c ∈ kids n parOf m
        · have hk2 := (mem_kids n parOf m c).mp hk'
          have h1 : ¬ (0 < c ∧ c < n ∧ parOf c < m) := by omega
          have h2' : 0 < c ∧ c < n ∧ parOf c < m + 1 := by omega
          have h3 : ¬ parOf c < m := by omega
          cases hh : (sibs n parOf c).head? <;> simp [hk', h3, h2']
        · simp only [hk', if_false]
          have hne : ¬ (c < n ∧ 0 < c ∧ parOf c = m) := fun h => hk' ((mem_kids n parOf m c).mpr h)
          by_cases hcond : 0 < c ∧ c < n ∧ parOf c < m
          · have : 0 < c ∧ c < n ∧ parOf c < m + 1 := by omega
            simp only [hcond, this, if_true, and_self]
          · have : ¬ (0 < c ∧ c < n ∧ parOf c < m + 1) := by omega
            simp only [hcond, this, if_false]
      rw [hgetm]
      by_cases h0 : 0 < m
      · simp only [h0, if_true]
        cases hs : (sibs n parOf m).head? with
        | none =>
          simp only
          apply ih (m + 1) ready1 _ (by omega) ?_ f (by omega)
          refine ⟨hnd1, ?_, hkeys1, hnscore _ (fun _ _ => rfl)⟩
          intro c
          rw [hmemcore c, hready1 c, hs]; simp
        | some sib =>
          simp only
          apply ih (m + 1) (sib :: ready1) _ (by omega) ?_ f (by omega)
          obtain ⟨s1, s2, s3, s4, s5⟩ := hsib sib hs
          refine ⟨?_, ?_, Dict.nodup_del _ _ hkeys1, hnscore _ ?_⟩
          · refine List.nodup_cons.mpr ⟨?_, hnd1⟩
            intro hin
            rcases (hready1 sib).mp hin with hin | hin
            · have := (hw.mem sib).mp ((hrest sib).mp hin).1
              rcases this.2.2 with e | ⟨_, e⟩
              · omega
              · have := e m s2 h0 s4.symm; omega
            · have := (hfirst sib).mp hin
              have := hpar m h0 hkn
              omega
          · intro c
            rw [hmemcore c, hs, List.mem_cons, hready1 c]
            constructor
            · rintro (h | h)
              · right; exact ⟨h0, by rw [h]⟩
              · left; exact h
            · rintro (h | ⟨_, e⟩)
              · exact Or.inr h
              · left; exact (Option.some.inj e).symm
          · intro c hc
            rw [Dict.get_del _ _ _ hkeys1]
            have : c ≠ m := by omega
            simp [this]
      · simp only [h0, if_false]
        apply ih (m + 1) ready1 _ (by omega) ?_ f (by omega)
        refine ⟨hnd1, ?_, hkeys1, hnscore _ (fun _ _ => rfl)⟩
        intro c
        rw [hmemcore c, hready1 c]; simp [h0]

end HugrVerif.Store
