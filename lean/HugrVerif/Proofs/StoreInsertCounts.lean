/-
  `insert_hugr` (C08): the out-port counts of the copies are EXACTLY those of B (not just at least):
  the node-copy loop stamps B's count, and the link-copy loop cannot raise it because every link of B
  already fits under B's counts (`PortBound`, part of `SInv`).
-/
import HugrVerif.Proofs.StoreInsert

namespace HugrVerif.Store
open Py HugrVerif

variable {Ω μ : Type}

theorem getNode_withLinks (s : Store Ω μ) (m : BiMap SubPort SubPort) (j : Nat) :
    getNode { s with links := m } j = getNode s j := rfl

/-- `add_link` raises the out-port count of the source to at most `offset + 1`, and no other out-port count. -/
theorem addLink_outs_cap (s s' : Store Ω μ) (src dst : Port) (cap : Nat → Nat)
    (h : addLink s src dst = .ok s')
    (hc : ∀ j d, getNode s j = .ok d → d.numOuts ≤ cap j) (hsrc : offsetPlusOne src.2 ≤ cap src.1) :
    ∀ j d, getNode s' j = .ok d → d.numOuts ≤ cap j := by
  unfold addLink at h
  simp only [bind, Except.bind] at h
  split at h
  · cases h
  · rename_i s1 h1
    intro j d hd
    rw [modifyNode_get _ _ _ j _ h] at hd
    have key : ∀ j d, getNode s1 j = .ok d → d.numOuts ≤ cap j := by
      intro j d hd
      rw [modifyNode_get _ _ _ j _ h1] at hd
      by_cases hj : j = src.1
      · simp only [hj, if_true, getNode_withLinks] at hd
        cases hg : getNode s src.1 with
        | error e => simp [hg, Except.map] at hd
        | ok d0 =>
          simp only [hg, Except.map] at hd
          injection hd with hd; subst hd
          have := hc src.1 d0 hg
          subst hj
          simp only []
          exact Nat.max_le.mpr ⟨this, hsrc⟩
      · simp only [hj, if_false, getNode_withLinks] at hd
        exact hc j d hd
    by_cases hj : j = dst.1
    · simp only [hj, if_true] at hd
      cases hg : getNode s1 dst.1 with
      | error e => simp [hg, Except.map] at hd
      | ok d0 =>
        simp only [hg, Except.map] at hd
        injection hd with hd; subst hd
        subst hj
        exact key dst.1 d0 hg
    · simp only [hj, if_false] at hd
      exact key j d hd

/-- the link-copy loop keeps every out-port count under a cap that bounds the renamed source offsets -/
theorem insertLinks_outs_cap (mp : Dict Nat Nat) (cap : Nat → Nat) : ∀ (ls : List (SubPort × SubPort)) (s s' : Store Ω μ),
    insertLinks s mp ls = .ok s' →
    (∀ j d, getNode s j = .ok d → d.numOuts ≤ cap j) →
    (∀ e ∈ ls, ∀ a', Dict.get e.1.node mp = some a' → offsetPlusOne e.1.offset ≤ cap a') →
    ∀ j d, getNode s' j = .ok d → d.numOuts ≤ cap j := by
  intro ls
  induction ls with
  | nil =>
    intro s s' h hc _
    simp [insertLinks, pure, Except.pure] at h
    subst h; exact hc
  | cons e ls ih =>
    intro s s' h hc hl
    obtain ⟨a, c⟩ := e
    unfold insertLinks at h
    cases ha : Dict.get a.node mp with
    | none => simp [ha] at h
    | some a' =>
      cases hcc : Dict.get c.node mp with
      | none => simp [ha, hcc] at h
      | some c' =>
        simp only [ha, hcc, bind, Except.bind] at h
        cases h1 : addLink s (a', a.offset) (c', c.offset) with
        | error err => simp [h1] at h
        | ok s1 =>
          simp only [h1] at h
          have hc1 := addLink_outs_cap s s1 (a', a.offset) (c', c.offset) cap h1 hc
            (hl (a, c) (List.mem_cons_self ..) a' ha)
          exact ih s1 s' h hc1 (fun e he => hl e (List.mem_cons_of_mem _ he))

end HugrVerif.Store
