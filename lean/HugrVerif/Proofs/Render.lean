/-
  Helper lemmas about the rendering model (`Render.lean`): the recursion principle of `_viz_node`,
  what a successful `render` consists of, the drawn nodes as the set of live nodes (under the hierarchy
  invariants), edges, and independence of the configuration.  The property theorems are in
  `Props/C20.lean`.
-/
import HugrVerif.Render
import HugrVerif.RenderCheck
import HugrVerif.Proofs.StoreHier
import HugrVerif.Proofs.Ops

namespace HugrVerif.Render
open HugrVerif HugrVerif.Store

/-! ### definitions used by the statements -/

/-- indices of the node statements, in document order -/
def Item.drawn (it : Item) : List Nat := (Item.nodeStmts it).map (·.idx)
def Item.drawnList (its : List Item) : List Nat := (Item.nodeStmtsList its).map (·.idx)

/-- the node has children -/
def hasKids (s : St) (i : Nat) : Bool :=
  match Store.getNode s i with
  | .ok d => !d.children.isEmpty
  | .error _ => false

/-- The hierarchy is well-founded: a rank decreases from every node to its children and is bounded by
    the number of slots on live nodes (for a finite forest such a rank exists iff the children relation
    is acyclic: take the height). -/
def HierWF (s : St) : Prop :=
  ∃ r : Nat → Nat,
    (∀ p dp c, Store.getNode s p = .ok dp → c ∈ childIdxs dp → r c < r p) ∧
    (∀ i d, Store.getNode s i = .ok d → r i ≤ s.nodes.length)

/-- Children have larger indices than their parents (what `_from_serial` and every builder program
    without node deletion produce): a sufficient condition for `HierWF`. -/
def ParentBelow (s : St) : Prop :=
  ∀ p dp c, Store.getNode s p = .ok dp → c ∈ childIdxs dp → p < c ∧ c < s.nodes.length

theorem hierWF_of_parentBelow (s : St) (h : ParentBelow s) : HierWF s := by
  refine ⟨fun i => s.nodes.length - i, ?_, ?_⟩
  · intro p dp c hp hc
    have := h p dp c hp hc
    show s.nodes.length - c < s.nodes.length - p
    omega
  · intro i d _
    show s.nodes.length - i ≤ s.nodes.length
    omega

/-- every link leaves a port that the port layout of the specification gives the (complete) operation
    of its source node -/
def AllOpsComplete (s : St) : Prop :=
  ∀ l ∈ Store.linksList s, ∃ d k, Store.getNode s l.1.1 = .ok d ∧ Spec.PortHasKind d.op .out l.1.2 k

/-- the `"name"` entry of the root's metadata, if there is one, is a string (or falsy) -/
def GraphNameOk (s : St) : Prop :=
  ∀ d, Store.getNode s s.root = .ok d → ∃ n, graphName d.md = .ok n

mutual
  /-- **The drawing mirrors the hierarchy**: the item drawn for node `i` is a plain node statement if
      `i` has no children, and otherwise a cluster named after `i`, coloured with the palette's edge
      colour, whose members are the items of the children of `i` in order followed by the node statement
      of `i` itself. -/
  inductive Mirrors (E : Strs) (c : RenderConfig) (s : St) : Nat → Item → Prop
    | leaf (i : Nat) (d : NodeData Op Serial.Meta) : Store.getNode s i = .ok d → d.children = [] →
        Mirrors E c s i (.node (nodeStmt E c i d))
    | parent (i : Nat) (d : NodeData Op Serial.Meta) (kids : List Item) : Store.getNode s i = .ok d →
        d.children ≠ [] → MirrorsList E c s (childIdxs d) kids →
        Mirrors E c s i (.cluster i c.palette.edge (kids ++ [.node (nodeStmt E c i d)]))
  inductive MirrorsList (E : Strs) (c : RenderConfig) (s : St) : List Nat → List Item → Prop
    | nil : MirrorsList E c s [] []
    | cons (k : Nat) (ks : List Nat) (it : Item) (its : List Item) : Mirrors E c s k it →
        MirrorsList E c s ks its → MirrorsList E c s (k :: ks) (it :: its)
end

/-! ### unfolding -/

theorem liftS_ok {α : Type} (x : Except Store.Err α) (a : α) : liftS x = .ok a ↔ x = .ok a := by
  cases x <;> simp [liftS]

theorem vizKids_nil (f : Nat → Except Err Item) : vizKids f [] = .ok [] := rfl

theorem vizKids_cons_ok (f : Nat → Except Err Item) (h : Handle) (hs : List Handle) (r : List Item) :
    vizKids f (h :: hs) = .ok r ↔ ∃ it its, f h.1 = .ok it ∧ vizKids f hs = .ok its ∧ r = it :: its := by
  simp only [vizKids]
  cases f h.1 with
  | error e => simp
  | ok it =>
    cases vizKids f hs with
    | error e => simp
    | ok its => simp [eq_comm]

theorem vizNode_zero (E : Strs) (c : RenderConfig) (s : St) (i : Nat) :
    vizNode E c s 0 i = .error .recursion := rfl

theorem vizNode_succ_ok (E : Strs) (c : RenderConfig) (s : St) (fuel i : Nat) (it : Item) :
    vizNode E c s (fuel + 1) i = .ok it ↔
      ∃ d, Store.getNode s i = .ok d ∧
        ((d.children = [] ∧ it = .node (nodeStmt E c i d)) ∨
         (d.children ≠ [] ∧ ∃ kids, vizKids (vizNode E c s fuel) d.children = .ok kids ∧
            it = .cluster i c.palette.edge (kids ++ [.node (nodeStmt E c i d)]))) := by
  simp only [vizNode]
  cases hg : Store.getNode s i with
  | error e =>
    simp only [liftS]
    constructor
    · intro h; cases h
    · rintro ⟨d, hd, _⟩; cases hd
  | ok d =>
    simp only [liftS]
    by_cases hc : d.children = []
    · have he : d.children.isEmpty = true := by rw [hc]; rfl
      simp only [he, if_true]
      constructor
      · intro h; injection h with h; exact ⟨d, rfl, Or.inl ⟨hc, h.symm⟩⟩
      · rintro ⟨d', hd', h⟩
        injection hd' with hd'; subst hd'
        rcases h with ⟨_, rfl⟩ | ⟨hne, _⟩
        · rfl
        · exact absurd hc hne
    · have he : d.children.isEmpty = false := by
        cases hcc : d.children with
        | nil => exact absurd hcc hc
        | cons _ _ => rfl
      simp only [he, Bool.false_eq_true, if_false]
      cases hk : vizKids (vizNode E c s fuel) d.children with
      | error e =>
        constructor
        · intro h; cases h
        · rintro ⟨d', hd', h⟩
          injection hd' with hd'; subst hd'
          rcases h with ⟨h1, _⟩ | ⟨_, kids, h1, _⟩
          · exact absurd h1 hc
          · rw [hk] at h1; cases h1
      | ok kids =>
        constructor
        · intro h; injection h with h; exact ⟨d, rfl, Or.inr ⟨hc, kids, hk, h.symm⟩⟩
        · rintro ⟨d', hd', h⟩
          injection hd' with hd'; subst hd'
          rcases h with ⟨h1, _⟩ | ⟨_, kids', h1, rfl⟩
          · exact absurd h1 hc
          · rw [hk] at h1; injection h1 with h1; subst h1; rfl

/-- **Recursion principle of `_viz_node`**: a property of (node, item) pairs that holds for leaves and
    is passed from the children's items to the cluster holds for everything `_viz_node` returns. -/
theorem vizNode_rec (E : Strs) (c : RenderConfig) (s : St)
    {P : Nat → Item → Prop} {Q : List Nat → List Item → Prop}
    (leaf : ∀ i d, Store.getNode s i = .ok d → d.children = [] → P i (.node (nodeStmt E c i d)))
    (par : ∀ i d kids, Store.getNode s i = .ok d → d.children ≠ [] → Q (childIdxs d) kids →
      P i (.cluster i c.palette.edge (kids ++ [.node (nodeStmt E c i d)])))
    (nil : Q [] [])
    (cons : ∀ k ks it its, P k it → Q ks its → Q (k :: ks) (it :: its)) :
    ∀ fuel i it, vizNode E c s fuel i = .ok it → P i it := by
  intro fuel
  induction fuel with
  | zero => intro i it h; simp [vizNode_zero] at h
  | succ fuel ih =>
    intro i it h
    obtain ⟨d, hd, hcase⟩ := (vizNode_succ_ok E c s fuel i it).1 h
    rcases hcase with ⟨hc, rfl⟩ | ⟨hc, kids, hk, rfl⟩
    · exact leaf i d hd hc
    · refine par i d kids hd hc ?_
      have : ∀ (hs : List Handle) (kids : List Item), vizKids (vizNode E c s fuel) hs = .ok kids →
          Q (hs.map (·.1)) kids := by
        intro hs
        induction hs with
        | nil => intro kids hk; simp [vizKids_nil] at hk; subst hk; exact nil
        | cons h hs ihs =>
          intro kids hk
          obtain ⟨it, its, h1, h2, rfl⟩ := (vizKids_cons_ok _ h hs kids).1 hk
          exact cons h.1 _ it its (ih h.1 it h1) (ihs its h2)
      exact this d.children kids hk

theorem vizNode_mirrors (E : Strs) (c : RenderConfig) (s : St) (fuel i : Nat) (it : Item)
    (h : vizNode E c s fuel i = .ok it) : Mirrors E c s i it :=
  vizNode_rec E c s (P := Mirrors E c s) (Q := MirrorsList E c s)
    (fun i d hd hc => .leaf i d hd hc) (fun i d kids hd hc hq => .parent i d kids hd hc hq)
    .nil (fun k ks it its hp hq => .cons k ks it its hp hq) fuel i it h

/-! ### what a successful `render` consists of -/

theorem render_ok (E : Strs) (s : St) (c : RenderConfig) (out : RenderOut) (h : render E s c = .ok out) :
    ∃ d, Store.getNode s s.root = .ok d ∧
      vizNode E c s (s.nodes.length + 1) s.root = .ok out.root ∧
      vizLinks E c s (Store.linksList s) = .ok out.edges ∧
      graphName d.md = .ok out.name ∧ out.bgcolor = c.palette.background := by
  unfold render at h
  cases hg : Store.getNode s s.root with
  | error e => simp [hg, liftS] at h
  | ok d =>
    simp only [hg, liftS] at h
    cases hv : vizNode E c s (s.nodes.length + 1) s.root with
    | error e => simp [hv] at h
    | ok root =>
      simp only [hv] at h
      cases hl : vizLinks E c s (Store.linksList s) with
      | error e => simp [hl] at h
      | ok edges =>
        simp only [hl] at h
        cases hn : graphName d.md with
        | error e => simp [hn] at h
        | ok name =>
          simp only [hn, Except.ok.injEq] at h
          subst h
          exact ⟨d, rfl, by first | rfl | exact hv, by first | rfl | exact hl, by first | rfl | exact hn, rfl⟩

/-! ### node statements -/

theorem nodeStmts_cluster (i : Nat) (col : String) (body : List Item) :
    Item.nodeStmts (.cluster i col body) = Item.nodeStmtsList body := by simp [Item.nodeStmts]

theorem nodeStmtsList_append (a b : List Item) :
    Item.nodeStmtsList (a ++ b) = Item.nodeStmtsList a ++ Item.nodeStmtsList b := by
  induction a with
  | nil => simp [Item.nodeStmtsList]
  | cons x xs ih => simp [Item.nodeStmtsList, ih]

theorem clustersList_append (a b : List Item) :
    Item.clustersList (a ++ b) = Item.clustersList a ++ Item.clustersList b := by
  induction a with
  | nil => simp [Item.clustersList]
  | cons x xs ih => simp [Item.clustersList, ih]

theorem drawn_leaf (n : NodeStmt) : Item.drawn (.node n) = [n.idx] := by simp [Item.drawn, Item.nodeStmts]

theorem drawn_cluster (i : Nat) (col : String) (kids : List Item) (n : NodeStmt) :
    Item.drawn (.cluster i col (kids ++ [.node n])) = Item.drawnList kids ++ [n.idx] := by
  simp [Item.drawn, Item.drawnList, Item.nodeStmts, nodeStmtsList_append, Item.nodeStmtsList]

theorem drawnList_nil : Item.drawnList [] = [] := by simp [Item.drawnList, Item.nodeStmtsList]

theorem drawnList_cons (it : Item) (its : List Item) :
    Item.drawnList (it :: its) = Item.drawn it ++ Item.drawnList its := by
  simp [Item.drawnList, Item.drawn, Item.nodeStmtsList]

theorem nodeStmt_idx (E : Strs) (c : RenderConfig) (i : Nat) (d : NodeData Op Serial.Meta) :
    (nodeStmt E c i d).idx = i := rfl

/-- every node statement is the statement `_viz_node` makes for a live node -/
theorem stmts_are_nodeStmts (E : Strs) (c : RenderConfig) (s : St) (fuel i : Nat) (it : Item)
    (h : vizNode E c s fuel i = .ok it) :
    ∀ n ∈ Item.nodeStmts it, ∃ d, Store.getNode s n.idx = .ok d ∧ n = nodeStmt E c n.idx d := by
  refine vizNode_rec E c s
    (P := fun _ it => ∀ n ∈ Item.nodeStmts it, ∃ d, Store.getNode s n.idx = .ok d ∧ n = nodeStmt E c n.idx d)
    (Q := fun _ its => ∀ n ∈ Item.nodeStmtsList its, ∃ d, Store.getNode s n.idx = .ok d ∧ n = nodeStmt E c n.idx d)
    ?_ ?_ ?_ ?_ fuel i it h
  · intro i d hd _ n hn
    simp [Item.nodeStmts] at hn; subst hn
    exact ⟨d, hd, rfl⟩
  · intro i d kids hd _ hq n hn
    simp only [nodeStmts_cluster, nodeStmtsList_append, List.mem_append] at hn
    rcases hn with hn | hn
    · exact hq n hn
    · simp [Item.nodeStmtsList, Item.nodeStmts] at hn; subst hn
      exact ⟨d, hd, rfl⟩
  · intro n hn; simp [Item.nodeStmtsList] at hn
  · intro k ks it its hp hq n hn
    simp only [Item.nodeStmtsList, List.mem_append] at hn
    rcases hn with hn | hn
    · exact hp n hn
    · exact hq n hn

/-! ### ancestors: following parent pointers upwards -/

/-- the `n`-th ancestor of `x` -/
def up (s : St) : Nat → Nat → Option Nat
  | 0, x => some x
  | n + 1, x =>
    match Store.getNode s x with
    | .ok d =>
      match d.parent with
      | some p => up s n p
      | none => none
    | .error _ => none

theorem up_add (s : St) : ∀ (a b x : Nat), up s (a + b) x = (up s a x).bind (up s b) := by
  intro a
  induction a with
  | zero => intro b x; simp [up]
  | succ a ih =>
    intro b x
    have e : a + 1 + b = (a + b) + 1 := by omega
    rw [e]
    simp only [up]
    cases hg : Store.getNode s x with
    | error _ => rfl
    | ok d =>
      cases hp : d.parent with
      | none => simp [hp]
      | some p => simp only [hp]; exact ih b p

/-- ranks grow strictly along parent pointers -/
theorem up_rank (s : St) (hh : HierInv s) (r : Nat → Nat)
    (hr : ∀ p dp c, Store.getNode s p = .ok dp → c ∈ childIdxs dp → r c < r p) :
    ∀ (n x y : Nat), up s n x = some y → r x + n ≤ r y := by
  intro n
  induction n with
  | zero => intro x y h; simp [up] at h; subst h; omega
  | succ n ih =>
    intro x y h
    simp only [up] at h
    cases hg : Store.getNode s x with
    | error _ => simp [hg] at h
    | ok d =>
      simp only [hg] at h
      cases hp : d.parent with
      | none => simp [hp] at h
      | some p =>
        simp only [hp] at h
        obtain ⟨dp, hdp, hmem⟩ := hh.parentChild x d p hg hp
        have h1 := hr p dp x hdp hmem
        have h2 := ih p y h
        omega

/-- two children of the same node have disjoint sets of descendants -/
theorem siblings_disjoint (s : St) (hh : HierInv s) (r : Nat → Nat)
    (hr : ∀ p dp c, Store.getNode s p = .ok dp → c ∈ childIdxs dp → r c < r p)
    (x k k' p n1 n2 : Nat) (dk dk' : NodeData Op Serial.Meta)
    (h1 : up s n1 x = some k) (h2 : up s n2 x = some k')
    (hk : Store.getNode s k = .ok dk) (hkp : dk.parent = some p)
    (hk' : Store.getNode s k' = .ok dk') (hkp' : dk'.parent = some p) : k = k' := by
  -- one of the two is an ancestor of the other
  have key : ∀ (a b ka kb : Nat) (da db : NodeData Op Serial.Meta), a ≤ b → up s a x = some ka → up s b x = some kb →
      Store.getNode s ka = .ok da → da.parent = some p → Store.getNode s kb = .ok db → db.parent = some p → ka = kb := by
    intro a b ka kb da db hab ha hb hda hpa hdb hpb
    obtain ⟨m, rfl⟩ : ∃ m, b = a + m := ⟨b - a, by omega⟩
    rw [up_add, ha] at hb
    simp only [Option.bind] at hb
    cases m with
    | zero => simp [up] at hb; exact hb
    | succ m =>
      simp only [up, hda, hpa] at hb
      have h3 := up_rank s hh r hr m p kb hb
      obtain ⟨dp, hdp, hmem⟩ := hh.parentChild kb db p hdb hpb
      have h4 := hr p dp kb hdp hmem
      omega
  rcases Nat.le_total n1 n2 with h | h
  · exact key n1 n2 k k' dk dk' h h1 h2 hk hkp hk' hkp'
  · exact (key n2 n1 k' k dk' dk h h2 h1 hk' hkp' hk hkp).symm

/-! ### the drawn nodes are exactly the live nodes, once each -/

/-- every drawn node is a descendant of the node the item was made for -/
theorem drawn_up (E : Strs) (c : RenderConfig) (s : St) (hh : HierInv s) (fuel i : Nat) (it : Item)
    (h : vizNode E c s fuel i = .ok it) :
    ∀ x ∈ Item.drawn it, (∃ d, Store.getNode s x = .ok d) ∧ ∃ n, up s n x = some i := by
  refine vizNode_rec E c s
    (P := fun i it => ∀ x ∈ Item.drawn it, (∃ d, Store.getNode s x = .ok d) ∧ ∃ n, up s n x = some i)
    (Q := fun ks its => ∀ x ∈ Item.drawnList its, (∃ d, Store.getNode s x = .ok d) ∧ ∃ k ∈ ks, ∃ n, up s n x = some k)
    ?_ ?_ ?_ ?_ fuel i it h
  · intro i d hd _ x hx
    simp [drawn_leaf, nodeStmt_idx] at hx; subst hx
    exact ⟨⟨d, hd⟩, 0, rfl⟩
  · intro i d kids hd _ hq x hx
    rw [drawn_cluster, List.mem_append] at hx
    rcases hx with hx | hx
    · obtain ⟨hl, k, hk, n, hn⟩ := hq x hx
      refine ⟨hl, n + 1, ?_⟩
      obtain ⟨dk, hdk, hpk⟩ := hh.childParent i d k hd hk
      rw [up_add, hn]
      simp [Option.bind, up, hdk, hpk]
    · simp [nodeStmt_idx] at hx; subst hx
      exact ⟨⟨d, hd⟩, 0, rfl⟩
  · intro x hx; simp [drawnList_nil] at hx
  · intro k ks it its hp hq x hx
    rw [drawnList_cons, List.mem_append] at hx
    rcases hx with hx | hx
    · obtain ⟨hl, n, hn⟩ := hp x hx
      exact ⟨hl, k, List.mem_cons_self, n, hn⟩
    · obtain ⟨hl, k', hk', n, hn⟩ := hq x hx
      exact ⟨hl, k', List.mem_cons_of_mem _ hk', n, hn⟩

/-- no node is drawn twice -/
theorem drawn_nodup (E : Strs) (c : RenderConfig) (s : St) (hh : HierInv s) (r : Nat → Nat)
    (hr : ∀ p dp c, Store.getNode s p = .ok dp → c ∈ childIdxs dp → r c < r p)
    (fuel i : Nat) (it : Item) (h : vizNode E c s fuel i = .ok it) : (Item.drawn it).Nodup := by
  have main := vizNode_rec E c s
    (P := fun i it => (Item.drawn it).Nodup ∧ ∀ x ∈ Item.drawn it, ∃ n, up s n x = some i)
    (Q := fun ks its => ∀ p, (∀ k ∈ ks, ∃ dk, Store.getNode s k = .ok dk ∧ dk.parent = some p) → ks.Nodup →
      (Item.drawnList its).Nodup ∧ ∀ x ∈ Item.drawnList its, ∃ k ∈ ks, ∃ n, up s n x = some k)
    ?_ ?_ ?_ ?_ fuel i it h
  · exact main.1
  · intro i d hd _
    refine ⟨by simp [drawn_leaf], ?_⟩
    intro x hx
    simp [drawn_leaf, nodeStmt_idx] at hx; subst hx
    exact ⟨0, rfl⟩
  · intro i d kids hd _ hq
    have hkids : ∀ k ∈ childIdxs d, ∃ dk, Store.getNode s k = .ok dk ∧ dk.parent = some i :=
      fun k hk => hh.childParent i d k hd hk
    obtain ⟨hn, hu⟩ := hq i hkids (hh.nodup i d hd)
    rw [drawn_cluster]
    refine ⟨?_, ?_⟩
    · rw [List.nodup_append]
      refine ⟨hn, by simp, ?_⟩
      intro a ha b hb
      simp [nodeStmt_idx] at hb; subst hb
      intro hab; subst hab
      obtain ⟨k, hk, n, hnk⟩ := hu a ha
      have h1 := up_rank s hh r hr n a k hnk
      have h2 := hr a d k hd hk
      omega
    · intro x hx
      rw [List.mem_append] at hx
      rcases hx with hx | hx
      · obtain ⟨k, hk, n, hnk⟩ := hu x hx
        obtain ⟨dk, hdk, hpk⟩ := hkids k hk
        refine ⟨n + 1, ?_⟩
        rw [up_add, hnk]
        simp [Option.bind, up, hdk, hpk]
      · simp [nodeStmt_idx] at hx; subst hx
        exact ⟨0, rfl⟩
  · intro p _ _
    exact ⟨by simp [drawnList_nil], by intro x hx; simp [drawnList_nil] at hx⟩
  · intro k ks it its hp hq p hpar hnd
    have hnd' := List.nodup_cons.mp hnd
    obtain ⟨hn2, hu2⟩ := hq p (fun k' hk' => hpar k' (List.mem_cons_of_mem _ hk')) hnd'.2
    rw [drawnList_cons]
    refine ⟨?_, ?_⟩
    · rw [List.nodup_append]
      refine ⟨hp.1, hn2, ?_⟩
      intro a ha b hb hab
      subst hab
      obtain ⟨n1, h1⟩ := hp.2 a ha
      obtain ⟨k', hk', n2, h2⟩ := hu2 a hb
      obtain ⟨dk, hdk, hpk⟩ := hpar k List.mem_cons_self
      obtain ⟨dk', hdk', hpk'⟩ := hpar k' (List.mem_cons_of_mem _ hk')
      have e := siblings_disjoint s hh r hr a k k' p n1 n2 dk dk' h1 h2 hdk hpk hdk' hpk'
      subst e
      exact hnd'.1 hk'
    · intro x hx
      rw [List.mem_append] at hx
      rcases hx with hx | hx
      · obtain ⟨n, hn⟩ := hp.2 x hx
        exact ⟨k, List.mem_cons_self, n, hn⟩
      · obtain ⟨k', hk', n, hn⟩ := hu2 x hx
        exact ⟨k', List.mem_cons_of_mem _ hk', n, hn⟩

/-- the drawn set contains the node itself and is closed under taking children -/
theorem drawn_closed (E : Strs) (c : RenderConfig) (s : St) (fuel i : Nat) (it : Item)
    (h : vizNode E c s fuel i = .ok it) :
    i ∈ Item.drawn it ∧ ∀ p ∈ Item.drawn it, ∀ dp, Store.getNode s p = .ok dp → ∀ j ∈ childIdxs dp, j ∈ Item.drawn it := by
  refine vizNode_rec E c s
    (P := fun i it => i ∈ Item.drawn it ∧
      ∀ p ∈ Item.drawn it, ∀ dp, Store.getNode s p = .ok dp → ∀ j ∈ childIdxs dp, j ∈ Item.drawn it)
    (Q := fun ks its => (∀ k ∈ ks, k ∈ Item.drawnList its) ∧
      ∀ p ∈ Item.drawnList its, ∀ dp, Store.getNode s p = .ok dp → ∀ j ∈ childIdxs dp, j ∈ Item.drawnList its)
    ?_ ?_ ?_ ?_ fuel i it h
  · intro i d hd hc
    refine ⟨by simp [drawn_leaf, nodeStmt_idx], ?_⟩
    intro p hp dp hdp j hj
    simp [drawn_leaf, nodeStmt_idx] at hp; subst hp
    rw [hd] at hdp; injection hdp with hdp; subst hdp
    simp [childIdxs, hc] at hj
  · intro i d kids hd _ hq
    rw [drawn_cluster]
    refine ⟨by simp [nodeStmt_idx], ?_⟩
    intro p hp dp hdp j hj
    rw [List.mem_append] at hp ⊢
    rcases hp with hp | hp
    · exact Or.inl (hq.2 p hp dp hdp j hj)
    · simp [nodeStmt_idx] at hp; subst hp
      rw [hd] at hdp; injection hdp with hdp; subst hdp
      exact Or.inl (hq.1 j hj)
  · exact ⟨by intro k hk; simp at hk, by intro p hp; simp [drawnList_nil] at hp⟩
  · intro k ks it its hp hq
    refine ⟨?_, ?_⟩
    · intro k' hk'
      rw [drawnList_cons, List.mem_append]
      rcases List.mem_cons.mp hk' with e | hm
      · subst e; exact Or.inl hp.1
      · exact Or.inr (hq.1 k' hm)
    · intro p hpm dp hdp j hj
      rw [drawnList_cons, List.mem_append] at hpm ⊢
      rcases hpm with hpm | hpm
      · exact Or.inl (hp.2 p hpm dp hdp j hj)
      · exact Or.inr (hq.2 p hpm dp hdp j hj)

/-- every live node is drawn (it reaches the root by parent pointers) -/
theorem live_drawn (E : Strs) (c : RenderConfig) (s : St) (hh : HierInv s) (hroot : RootInv s) (r : Nat → Nat)
    (hr : ∀ p dp c, Store.getNode s p = .ok dp → c ∈ childIdxs dp → r c < r p)
    (hb : ∀ i d, Store.getNode s i = .ok d → r i ≤ s.nodes.length)
    (fuel : Nat) (it : Item) (h : vizNode E c s fuel s.root = .ok it) :
    ∀ x d, Store.getNode s x = .ok d → x ∈ Item.drawn it := by
  obtain ⟨hself, hclosed⟩ := drawn_closed E c s fuel s.root it h
  have : ∀ (m x : Nat) (d : NodeData Op Serial.Meta), s.nodes.length - r x ≤ m → Store.getNode s x = .ok d →
      x ∈ Item.drawn it := by
    intro m
    induction m with
    | zero =>
      intro x d hm hd
      cases hp : d.parent with
      | none => rw [hroot.only x d hd hp]; exact hself
      | some p =>
        obtain ⟨dp, hdp, hmem⟩ := hh.parentChild x d p hd hp
        have h1 := hr p dp x hdp hmem
        have h2 := hb p dp hdp
        omega
    | succ m ih =>
      intro x d hm hd
      cases hp : d.parent with
      | none => rw [hroot.only x d hd hp]; exact hself
      | some p =>
        obtain ⟨dp, hdp, hmem⟩ := hh.parentChild x d p hd hp
        have h1 := hr p dp x hdp hmem
        have h2 := hb p dp hdp
        have hpd := ih p dp (by omega) hdp
        exact hclosed p hpd dp hdp x hmem
  intro x d hd
  exact this (s.nodes.length - r x) x d (Nat.le_refl _) hd

theorem mem_liveNodes (s : St) (i : Nat) : i ∈ Store.liveNodes s ↔ ∃ d, Store.getNode s i = .ok d := by
  unfold Store.liveNodes
  rw [List.mem_filter, List.mem_range]
  constructor
  · rintro ⟨_, h⟩
    unfold Store.getNode
    cases hg : s.nodes[i]? with
    | none => simp [hg] at h
    | some x =>
      cases x with
      | none => simp [hg] at h
      | some d => exact ⟨d, rfl⟩
  · rintro ⟨d, hd⟩
    refine ⟨Store.getNode_lt s i d hd, ?_⟩
    rw [(Store.getNode_ok_iff s i d).1 hd]

/-! ### clusters -/

theorem hasKids_false (s : St) (i : Nat) (d : NodeData Op Serial.Meta) (hd : Store.getNode s i = .ok d)
    (hc : d.children = []) : hasKids s i = false := by simp [hasKids, hd, hc]

theorem hasKids_true (s : St) (i : Nat) (d : NodeData Op Serial.Meta) (hd : Store.getNode s i = .ok d)
    (hc : d.children ≠ []) : hasKids s i = true := by
  simp only [hasKids, hd]
  cases hcc : d.children with
  | nil => exact absurd hcc hc
  | cons _ _ => rfl

theorem hasKids_iff (s : St) (i : Nat) : hasKids s i = true ↔ ∃ d, Store.getNode s i = .ok d ∧ d.children ≠ [] := by
  constructor
  · intro h
    unfold hasKids at h
    cases hg : Store.getNode s i with
    | error e => simp [hg] at h
    | ok d =>
      refine ⟨d, rfl, ?_⟩
      intro hc
      simp [hg, hc] at h
  · rintro ⟨d, hd, hc⟩; exact hasKids_true s i d hd hc

/-- the clusters are the drawn nodes that have children (as multisets) -/
theorem clusters_perm (E : Strs) (c : RenderConfig) (s : St) (fuel i : Nat) (it : Item)
    (h : vizNode E c s fuel i = .ok it) :
    (Item.clusters it).Perm ((Item.drawn it).filter (hasKids s)) := by
  refine vizNode_rec E c s
    (P := fun _ it => (Item.clusters it).Perm ((Item.drawn it).filter (hasKids s)))
    (Q := fun _ its => (Item.clustersList its).Perm ((Item.drawnList its).filter (hasKids s)))
    ?_ ?_ ?_ ?_ fuel i it h
  · intro i d hd hc
    simp [Item.clusters, drawn_leaf, nodeStmt_idx, hasKids_false s i d hd hc]
  · intro i d kids hd hc hq
    rw [drawn_cluster, List.filter_append]
    simp only [Item.clusters, clustersList_append, Item.clustersList, List.append_nil, nodeStmt_idx,
      List.filter_cons, hasKids_true s i d hd hc, if_true, List.filter_nil]
    exact ((List.Perm.cons i hq).trans (List.perm_append_singleton i _).symm)
  · simp [Item.clustersList, drawnList_nil]
  · intro k ks it its hp hq
    rw [drawnList_cons, List.filter_append]
    simp only [Item.clustersList]
    exact List.Perm.append hp hq

/-! ### edges -/

/-- the two endpoints an edge statement names -/
def EdgeStmt.ends (e : EdgeStmt) : Port × Port := ((e.srcNode, e.srcOff), (e.dstNode, e.dstOff))

theorem vizLink_ok (E : Strs) (c : RenderConfig) (s : St) (l : Port × Port) (e : EdgeStmt)
    (h : vizLink E c s l = .ok e) :
    e.ends = l ∧ ∃ d k, Store.getNode s e.srcNode = .ok d ∧ Op.hugrPortKind d.op .out e.srcOff = .ok k ∧
      e.label = kindLabel E k ∧ e.color = kindColor c k := by
  unfold vizLink at h
  cases hg : Store.getNode s l.1.1 with
  | error er => simp [hg, liftS] at h
  | ok d =>
    simp only [hg, liftS] at h
    cases hk : Op.hugrPortKind d.op .out l.1.2 with
    | error er => simp [hk, liftO] at h
    | ok k =>
      simp only [hk, liftO, Except.ok.injEq] at h
      subst h
      exact ⟨rfl, d, k, hg, hk, rfl, rfl⟩

theorem vizLinks_cons_ok (E : Strs) (c : RenderConfig) (s : St) (l : Port × Port) (ls : List (Port × Port))
    (r : List EdgeStmt) :
    vizLinks E c s (l :: ls) = .ok r ↔ ∃ e es, vizLink E c s l = .ok e ∧ vizLinks E c s ls = .ok es ∧ r = e :: es := by
  simp only [vizLinks]
  cases vizLink E c s l with
  | error e => simp
  | ok e =>
    cases vizLinks E c s ls with
    | error er => simp
    | ok es => simp [eq_comm]

theorem vizLinks_ok (E : Strs) (c : RenderConfig) (s : St) : ∀ (ls : List (Port × Port)) (es : List EdgeStmt),
    vizLinks E c s ls = .ok es →
    es.map EdgeStmt.ends = ls ∧
    ∀ e ∈ es, ∃ d k, Store.getNode s e.srcNode = .ok d ∧ Op.hugrPortKind d.op .out e.srcOff = .ok k ∧
      e.label = kindLabel E k ∧ e.color = kindColor c k := by
  intro ls
  induction ls with
  | nil => intro es h; simp [vizLinks] at h; subst h; simp
  | cons l ls ih =>
    intro es h
    obtain ⟨e, es', h1, h2, rfl⟩ := (vizLinks_cons_ok E c s l ls es).1 h
    obtain ⟨he, hk⟩ := vizLink_ok E c s l e h1
    obtain ⟨hes, hks⟩ := ih es' h2
    refine ⟨by simp [he, hes], ?_⟩
    intro e' he'
    rcases List.mem_cons.mp he' with rfl | hm
    · exact hk
    · exact hks e' hm

/-! ### independence of the configuration -/

mutual
  theorem Item.map_map (f1 : NodeStmt → NodeStmt) (g1 : String → String) (f2 : NodeStmt → NodeStmt)
      (g2 : String → String) : ∀ it : Item, Item.map f2 g2 (Item.map f1 g1 it) = Item.map (f2 ∘ f1) (g2 ∘ g1) it
    | .node n => by simp [Item.map]
    | .cluster i col body => by simp [Item.map, Item.mapList_mapList f1 g1 f2 g2 body]
  theorem Item.mapList_mapList (f1 : NodeStmt → NodeStmt) (g1 : String → String) (f2 : NodeStmt → NodeStmt)
      (g2 : String → String) : ∀ its : List Item,
        Item.mapList f2 g2 (Item.mapList f1 g1 its) = Item.mapList (f2 ∘ f1) (g2 ∘ g1) its
    | [] => by simp [Item.mapList]
    | it :: its => by simp [Item.mapList, Item.map_map f1 g1 f2 g2 it, Item.mapList_mapList f1 g1 f2 g2 its]
end

theorem mapList_append (f : NodeStmt → NodeStmt) (g : String → String) (a b : List Item) :
    Item.mapList f g (a ++ b) = Item.mapList f g a ++ Item.mapList f g b := by
  induction a with
  | nil => simp [Item.mapList]
  | cons x xs ih => simp [Item.mapList, ih]

/-- the source with every colour erased and `f` applied to every node statement -/
def RenderOut.eraseWith (f : NodeStmt → NodeStmt) (o : RenderOut) : RenderOut :=
  { name := o.name, bgcolor := "", root := o.root.map f (fun _ => ""),
    edges := o.edges.map EdgeStmt.eraseColours }

theorem eraseColours_eq (o : RenderOut) : o.eraseColours = o.eraseWith NodeStmt.eraseColours := rfl

theorem eraseNames_eraseColours_eq (o : RenderOut) :
    o.eraseColours.eraseNames = o.eraseWith (NodeStmt.eraseName ∘ NodeStmt.eraseColours) := by
  simp only [RenderOut.eraseNames, RenderOut.eraseColours, RenderOut.eraseWith, Item.map_map]
  rfl

theorem map_eq_cases {ε α β : Type} (φ : α → β) (x y : Except ε α) :
    x.map φ = y.map φ ↔ (∃ e, x = .error e ∧ y = .error e) ∨ (∃ a b, x = .ok a ∧ y = .ok b ∧ φ a = φ b) := by
  cases x <;> cases y <;> simp [Except.map] <;> exact eq_comm

theorem vizKids_congr (f1 f2 : Nat → Except Err Item) (φ : Item → Item) (ψ : List Item → List Item)
    (hnil : ψ [] = []) (hcons : ∀ a as, ψ (a :: as) = φ a :: ψ as)
    (hpt : ∀ i, (f1 i).map φ = (f2 i).map φ) :
    ∀ hs : List Handle, (vizKids f1 hs).map ψ = (vizKids f2 hs).map ψ := by
  intro hs
  induction hs with
  | nil => simp [vizKids, Except.map]
  | cons h hs ih =>
    simp only [vizKids]
    rcases (map_eq_cases φ _ _).1 (hpt h.1) with ⟨e, h1, h2⟩ | ⟨a, b, h1, h2, hab⟩
    · simp [h1, h2, Except.map]
    · rcases (map_eq_cases ψ _ _).1 ih with ⟨e, h3, h4⟩ | ⟨as, bs, h3, h4, habs⟩
      · simp [h1, h2, h3, h4, Except.map]
      · simp [h1, h2, h3, h4, Except.map, hcons, hab, habs]

theorem vizNode_congr (E : Strs) (c c' : RenderConfig) (s : St) (f : NodeStmt → NodeStmt)
    (hf : ∀ i d, f (nodeStmt E c i d) = f (nodeStmt E c' i d)) :
    ∀ fuel i, (vizNode E c s fuel i).map (Item.map f (fun _ => "")) =
      (vizNode E c' s fuel i).map (Item.map f (fun _ => "")) := by
  intro fuel
  induction fuel with
  | zero => intro i; rfl
  | succ fuel ih =>
    intro i
    simp only [vizNode]
    cases hg : Store.getNode s i with
    | error e => rfl
    | ok d =>
      simp only [liftS]
      by_cases hc : d.children.isEmpty = true
      · simp [hc, Except.map, Item.map, hf]
      · simp only [hc, Bool.false_eq_true, if_false]
        have hk := vizKids_congr (vizNode E c s fuel) (vizNode E c' s fuel) (Item.map f (fun _ => ""))
          (Item.mapList f (fun _ => "")) (by simp [Item.mapList]) (by intro a as; simp [Item.mapList]) ih d.children
        rcases (map_eq_cases _ _ _).1 hk with ⟨e, h1, h2⟩ | ⟨a, b, h1, h2, hab⟩
        · simp [h1, h2, Except.map]
        · simp [h1, h2, Except.map, Item.map, mapList_append, Item.mapList, hab, hf]

theorem vizLinks_congr (E : Strs) (c c' : RenderConfig) (s : St) : ∀ ls : List (Port × Port),
    (vizLinks E c s ls).map (List.map EdgeStmt.eraseColours) =
      (vizLinks E c' s ls).map (List.map EdgeStmt.eraseColours) := by
  intro ls
  induction ls with
  | nil => rfl
  | cons l ls ih =>
    simp only [vizLinks]
    have h1 : (vizLink E c s l).map EdgeStmt.eraseColours = (vizLink E c' s l).map EdgeStmt.eraseColours := by
      unfold vizLink
      cases Store.getNode s l.1.1 with
      | error e => rfl
      | ok d =>
        simp only [liftS]
        cases Op.hugrPortKind d.op .out l.1.2 with
        | error e => rfl
        | ok k => simp [liftO, Except.map, EdgeStmt.eraseColours]
    rcases (map_eq_cases _ _ _).1 h1 with ⟨e, h2, h3⟩ | ⟨a, b, h2, h3, hab⟩
    · simp [h2, h3, Except.map]
    · rcases (map_eq_cases _ _ _).1 ih with ⟨e, h4, h5⟩ | ⟨as, bs, h4, h5, habs⟩
      · simp [h2, h3, h4, h5, Except.map]
      · simp only [h2, h3, h4, h5, Except.map, List.map_cons, hab]
        rw [habs]

/-- two configurations that agree on `f ∘ nodeStmt` give the same source up to colours and `f` -/
theorem render_congr (E : Strs) (s : St) (c c' : RenderConfig) (f : NodeStmt → NodeStmt)
    (hf : ∀ i d, f (nodeStmt E c i d) = f (nodeStmt E c' i d)) :
    (render E s c).map (RenderOut.eraseWith f) = (render E s c').map (RenderOut.eraseWith f) := by
  unfold render
  cases hg : Store.getNode s s.root with
  | error e => rfl
  | ok d =>
    simp only [liftS]
    rcases (map_eq_cases _ _ _).1 (vizNode_congr E c c' s f hf (s.nodes.length + 1) s.root) with
      ⟨e, h1, h2⟩ | ⟨a, b, h1, h2, hab⟩
    · simp [h1, h2, Except.map]
    · simp only [h1, h2]
      rcases (map_eq_cases _ _ _).1 (vizLinks_congr E c c' s (Store.linksList s)) with
        ⟨e, h3, h4⟩ | ⟨as, bs, h3, h4, habs⟩
      · simp [h3, h4, Except.map]
      · simp only [h3, h4]
        cases graphName d.md with
        | error e => rfl
        | ok name => simp [Except.map, RenderOut.eraseWith, hab, habs]

theorem cells_erase (c c' : RenderConfig) (pfx : String) (n : Nat) :
    (cells c pfx n).map Cell.eraseColours = (cells c' pfx n).map Cell.eraseColours := by
  simp [cells, List.map_map, Cell.eraseColours, Function.comp_def]

theorem nodeStmt_eraseColours (E : Strs) (c c' : RenderConfig) (hq : c.qualifyOpName = c'.qualifyOpName)
    (i : Nat) (d : NodeData Op Serial.Meta) :
    NodeStmt.eraseColours (nodeStmt E c i d) = NodeStmt.eraseColours (nodeStmt E c' i d) := by
  simp [nodeStmt, NodeStmt.eraseColours, hq, cells_erase c c']

theorem nodeStmt_eraseBoth (E : Strs) (c c' : RenderConfig) (i : Nat) (d : NodeData Op Serial.Meta) :
    (NodeStmt.eraseName ∘ NodeStmt.eraseColours) (nodeStmt E c i d) =
      (NodeStmt.eraseName ∘ NodeStmt.eraseColours) (nodeStmt E c' i d) := by
  simp [nodeStmt, NodeStmt.eraseColours, NodeStmt.eraseName, cells_erase c c']

/-! ### success -/

theorem vizKids_succeeds (f : Nat → Except Err Item) : ∀ hs : List Handle,
    (∀ h ∈ hs, ∃ it, f h.1 = .ok it) → ∃ its, vizKids f hs = .ok its := by
  intro hs
  induction hs with
  | nil => intro _; exact ⟨[], rfl⟩
  | cons h hs ih =>
    intro hall
    obtain ⟨it, hit⟩ := hall h List.mem_cons_self
    obtain ⟨its, hits⟩ := ih (fun h' hm => hall h' (List.mem_cons_of_mem _ hm))
    exact ⟨it :: its, by simp [vizKids, hit, hits]⟩

theorem vizNode_succeeds (E : Strs) (c : RenderConfig) (s : St) (hh : HierInv s) (r : Nat → Nat)
    (hr : ∀ p dp c, Store.getNode s p = .ok dp → c ∈ childIdxs dp → r c < r p) :
    ∀ (fuel i : Nat) (d : NodeData Op Serial.Meta), Store.getNode s i = .ok d → r i < fuel →
      ∃ it, vizNode E c s fuel i = .ok it := by
  intro fuel
  induction fuel with
  | zero => intro i d _ h; omega
  | succ fuel ih =>
    intro i d hd hlt
    by_cases hc : d.children = []
    · exact ⟨_, (vizNode_succ_ok E c s fuel i _).2 ⟨d, hd, Or.inl ⟨hc, rfl⟩⟩⟩
    · have : ∃ kids, vizKids (vizNode E c s fuel) d.children = .ok kids := by
        apply vizKids_succeeds
        intro h hm
        have hmem : h.1 ∈ childIdxs d := List.mem_map.mpr ⟨h, hm, rfl⟩
        obtain ⟨dk, hdk, _⟩ := hh.childParent i d h.1 hd hmem
        have := hr i d h.1 hd hmem
        exact ih h.1 dk hdk (by omega)
      obtain ⟨kids, hk⟩ := this
      exact ⟨_, (vizNode_succ_ok E c s fuel i _).2 ⟨d, hd, Or.inr ⟨hc, kids, hk, rfl⟩⟩⟩

theorem vizLinks_succeeds (E : Strs) (c : RenderConfig) (s : St) : ∀ ls : List (Port × Port),
    (∀ l ∈ ls, ∃ e, vizLink E c s l = .ok e) → ∃ es, vizLinks E c s ls = .ok es := by
  intro ls
  induction ls with
  | nil => intro _; exact ⟨[], rfl⟩
  | cons l ls ih =>
    intro hall
    obtain ⟨e, he⟩ := hall l List.mem_cons_self
    obtain ⟨es, hes⟩ := ih (fun l' hm => hall l' (List.mem_cons_of_mem _ hm))
    exact ⟨e :: es, by simp [vizLinks, he, hes]⟩

theorem vizLink_succeeds (E : Strs) (c : RenderConfig) (s : St) (l : Port × Port)
    (d : NodeData Op Serial.Meta) (k : Kind) (hd : Store.getNode s l.1.1 = .ok d)
    (hk : Spec.PortHasKind d.op .out l.1.2 k) : ∃ e, vizLink E c s l = .ok e := by
  have := OpProofs.portKind_layout d.op .out l.1.2 k hk
  simp only [vizLink, hd, liftS, liftO, Op.hugrPortKind, this]
  exact ⟨_, rfl⟩

theorem render_succeeds_aux (E : Strs) (s : St) (c : RenderConfig) (hh : HierInv s) (hroot : RootInv s)
    (hwf : HierWF s) (hops : AllOpsComplete s) (hname : GraphNameOk s) : ∃ out, render E s c = .ok out := by
  obtain ⟨d, hd⟩ := hroot.live
  obtain ⟨r, hr, hb⟩ := hwf
  obtain ⟨root, hv⟩ := vizNode_succeeds E c s hh r hr (s.nodes.length + 1) s.root d hd
    (by have := hb s.root d hd; omega)
  obtain ⟨edges, hl⟩ := vizLinks_succeeds E c s (Store.linksList s) (by
    intro l hm
    obtain ⟨dl, k, hdl, hk⟩ := hops l hm
    exact vizLink_succeeds E c s l dl k hdl hk)
  obtain ⟨name, hn⟩ := hname d hd
  simp only [render, hd, liftS, hv, hl, hn]
  exact ⟨_, rfl⟩

/-! ### soundness of the executable hypothesis checks (`RenderCheck.lean`) -/

theorem nodupB_sound : ∀ l : List Nat, nodupB l = true → l.Nodup := by
  intro l
  induction l with
  | nil => intro _; exact List.nodup_nil
  | cons x xs ih =>
    intro h
    simp only [nodupB, Bool.and_eq_true, Bool.not_eq_true', List.contains_eq_mem, decide_eq_false_iff_not] at h
    exact List.nodup_cons.mpr ⟨h.1, ih h.2⟩

theorem forLive_sound (s : St) (f : Nat → NodeData Op Serial.Meta → Bool) (h : forLive s f = true)
    (i : Nat) (d : NodeData Op Serial.Meta) (hd : Store.getNode s i = .ok d) : f i d = true := by
  unfold forLive at h
  rw [List.all_eq_true] at h
  have := h i (List.mem_range.mpr (Store.getNode_lt s i d hd))
  simpa [hd] using this

theorem hierB_sound (s : St) (h : hierB s = true) : HierInv s := by
  unfold hierB at h
  refine ⟨?_, ?_, ?_⟩
  · intro p dp c hp hc
    have := forLive_sound s _ h p dp hp
    simp only [Bool.and_eq_true] at this
    obtain ⟨⟨h1, _⟩, _⟩ := this
    unfold childrenOkB at h1
    rw [List.all_eq_true] at h1
    obtain ⟨hh, hm, rfl⟩ := List.mem_map.mp hc
    have := h1 hh hm
    cases hg : Store.getNode s hh.1 with
    | error e => simp [hg] at this
    | ok dc =>
      simp only [hg, beq_iff_eq] at this
      exact ⟨dc, rfl, this⟩
  · intro c dc p hc hp
    have := forLive_sound s _ h c dc hc
    simp only [Bool.and_eq_true] at this
    obtain ⟨⟨_, h2⟩, _⟩ := this
    unfold parentOkB at h2
    simp only [hp] at h2
    cases hg : Store.getNode s p with
    | error e => simp [hg] at h2
    | ok dp =>
      simp only [hg, List.contains_eq_mem, decide_eq_true_eq] at h2
      exact ⟨dp, rfl, h2⟩
  · intro p dp hp
    have := forLive_sound s _ h p dp hp
    simp only [Bool.and_eq_true] at this
    exact nodupB_sound _ this.2

theorem rootB_sound (s : St) (h : rootB s = true) : RootInv s := by
  unfold rootB at h
  simp only [Bool.and_eq_true] at h
  obtain ⟨h1, h2⟩ := h
  cases hg : Store.getNode s s.root with
  | error e => simp [hg] at h1
  | ok d =>
    simp only [hg, Option.isNone_iff_eq_none] at h1
    refine ⟨⟨d, hg⟩, ?_, ?_⟩
    · intro d' hd'; rw [hg] at hd'; injection hd' with hd'; subst hd'; exact h1
    · intro i di hdi hp
      have := forLive_sound s _ h2 i di hdi
      simpa [hp] using this

theorem parentBelowB_sound (s : St) (h : parentBelowB s = true) : ParentBelow s := by
  intro p dp c hp hc
  have := forLive_sound s _ h p dp hp
  rw [List.all_eq_true] at this
  obtain ⟨hh, hm, rfl⟩ := List.mem_map.mp hc
  have := this hh hm
  simpa using this

theorem portBoundB_sound (s : St) (h : portBoundB s = true) : PortBound s := by
  intro l hl
  unfold portBoundB at h
  rw [List.all_eq_true] at h
  have := h l hl
  simp only [Bool.and_eq_true] at this
  obtain ⟨h1, h2⟩ := this
  constructor
  · cases hg : Store.getNode s l.1.1 with
    | error e => simp [hg] at h1
    | ok d =>
      simp only [hg, Bool.and_eq_true, decide_eq_true_eq] at h1
      exact ⟨d, rfl, h1.1, h1.2⟩
  · cases hg : Store.getNode s l.2.1 with
    | error e => simp [hg] at h2
    | ok d =>
      simp only [hg, Bool.and_eq_true, decide_eq_true_eq] at h2
      exact ⟨d, rfl, h2.1, h2.2⟩

/-- a store that passes the executable checks satisfies the store hypotheses of the C20 theorems -/
theorem hypsB_sound (s : St) (h : hypsB s = true) : HierInv s ∧ RootInv s ∧ HierWF s ∧ PortBound s := by
  unfold hypsB at h
  simp only [Bool.and_eq_true] at h
  obtain ⟨⟨⟨h1, h2⟩, h3⟩, h4⟩ := h
  exact ⟨hierB_sound s h1, rootB_sound s h2, hierWF_of_parentBelow s (parentBelowB_sound s h3), portBoundB_sound s h4⟩

end HugrVerif.Render
