/-
  `_from_serial` (C02): what the node loop builds from a sane document.
-/
import HugrVerif.Proofs.Serial

namespace HugrVerif.Serial
open HugrVerif HugrVerif.Store HugrVerif.Py

variable {Ω : Type}

/-! ### `_add_node` on a store without free slots -/

theorem modifyNode_meta {μ : Type} (s s' : Store Ω μ) (i : Nat) (f : NodeData Ω μ → NodeData Ω μ)
    (h : modifyNode s i f = .ok s') : s'.free = s.free ∧ s'.nodes.length = s.nodes.length :=
  ⟨(modifyNode_links s s' i f h).2.1, (modifyNode_links s s' i f h).2.2.2⟩

/-- With no free slot, `_add_node(op, parent, None, md)` appends at the end; it succeeds when the
    parent (if any) is live. -/
theorem addNodeRaw_nofree (s : St Ω) (hf : s.free = []) (op : Ω) (parent : Option Nat) (m : Meta)
    (hp : ∀ p, parent = some p → ∃ d, getNode s p = .ok d) :
    ∃ s', addNodeRaw s op parent none m = .ok (s', s.nodes.length) ∧ s'.free = [] ∧
      s'.nodes.length = s.nodes.length + 1 := by
  generalize hd0 : ({ op := op, parent := parent, numInps := 0, numOuts := 0, children := [], md := m } : NodeData Ω Meta) = d0
  have ha : allocSlot s d0 = ({ s with nodes := s.nodes ++ [some d0] }, s.nodes.length) := by
    simp [allocSlot, hf]
  cases parent with
  | none =>
    refine ⟨{ s with nodes := s.nodes ++ [some d0] }, ?_, hf, by simp⟩
    unfold addNodeRaw
    rw [hd0, ha]
    simp [registerChild, setOutsOpt, pure, Except.pure]
  | some p =>
    obtain ⟨d, hd⟩ := hp p rfl
    have hlt := getNode_lt s p d hd
    have hd' : getNode ({ s with nodes := s.nodes ++ [some d0] } : St Ω) p = .ok d := by
      unfold getNode at hd ⊢
      simp only [List.getElem?_append_left hlt]
      exact hd
    refine ⟨setNode { s with nodes := s.nodes ++ [some d0] } p
      (some { d with children := d.children ++ [(s.nodes.length, none)] }), ?_, hf, by simp [setNode]⟩
    unfold addNodeRaw
    rw [hd0, ha]
    simp [registerChild, modifyNode, hd', setOutsOpt, bind, Except.bind, pure, Except.pure]

/-! ### the node loop -/

/-- What the decoder says about the nodes of a document, as total functions of the position. -/
structure Decoded (c : OpCodec Ω) (nodes : List Json) (opOf : Nat → Ω) (parOf : Nat → Nat) : Prop where
  dec : ∀ k j, nodes[k]? = some j → c.dec j = .ok (opOf k, (parOf k : Int))
  root : parOf 0 = 0
  earlier : ∀ k, 0 < k → k < nodes.length → parOf k < k

/-- State of the store after the first `k` nodes have been loaded. -/
structure LoadedInv (md : Option (List (Option Meta))) (opOf : Nat → Ω) (parOf : Nat → Nat) (t : St Ω) (k : Nat) : Prop where
  len : t.nodes.length = k
  free : t.free = []
  links : t.links = BiMap.empty
  root : 0 < k → t.root = 0
  node : ∀ m, m < k → ∃ dm, getNode t m = .ok dm ∧ dm.op = opOf m ∧
    dm.parent = (if m = 0 then none else some (parOf m)) ∧ dm.md = getMeta md m ∧
    childIdxs dm = (List.range k).filter (fun m' => decide (0 < m' ∧ parOf m' = m))

theorem freeInv_of_nofree (t : St Ω) (hf : t.free = []) (hall : ∀ m, m < t.nodes.length → ∃ d, getNode t m = .ok d) :
    FreeInv t := by
  refine ⟨?_, by simp [hf]⟩
  intro i
  simp only [hf, List.not_mem_nil, false_iff]
  intro hc
  have hlt : i < t.nodes.length := (List.getElem?_eq_some_iff.mp hc).1
  obtain ⟨d, hd⟩ := hall i hlt
  rw [(getNode_ok_iff t i d).mp hd] at hc; cases hc

theorem loadNodes_spec (c : OpCodec Ω) (md : Option (List (Option Meta))) (nodes : List Json)
    (opOf : Nat → Ω) (parOf : Nat → Nat) (hdec : Decoded c nodes opOf parOf) :
    ∀ (js : List Json) (idx : Nat) (t : St Ω), nodes.drop idx = js → idx + js.length = nodes.length →
      LoadedInv md opOf parOf t idx →
      ∃ t', loadNodes c md js idx t = .ok t' ∧ LoadedInv md opOf parOf t' nodes.length := by
  intro js
  induction js with
  | nil =>
    intro idx t _ hlen hinv
    have : idx = nodes.length := by simpa using hlen
    subst this
    exact ⟨t, rfl, hinv⟩
  | cons j js ih =>
    intro idx t hdrop hlen hinv
    have hidx : idx < nodes.length := by simp at hlen; omega
    have hj : nodes[idx]? = some j := by
      have := congrArg List.head? hdrop
      simpa [List.head?_drop] using this
    have hdj := hdec.dec idx j hj
    unfold loadNodes
    simp only [hdj, liftO]
    -- the parent the loop passes to `_add_node`
    have hroot_iff : ((parOf idx : Int) = (idx : Int)) ↔ idx = 0 := by
      constructor
      · intro h
        have h' : parOf idx = idx := by exact_mod_cast h
        by_cases h0 : idx = 0
        · exact h0
        · have := hdec.earlier idx (by omega) hidx; omega
      · intro h; subst h; simp [hdec.root]
    have hneg : ¬ ((parOf idx : Int) < 0 ∧ ¬ (parOf idx : Int) = (idx : Int)) := by
      intro h; have := h.1; omega
    simp only [hneg, if_false]
    -- liveness of the parent
    have hpl : ∀ p, (if (parOf idx : Int) = (idx : Int) then none else some ((parOf idx : Int).toNat)) = some p →
        ∃ d, getNode t p = .ok d := by
      intro p hp
      by_cases h0 : idx = 0
      · simp [hroot_iff.mpr h0] at hp
      · have hne : ¬ (parOf idx : Int) = (idx : Int) := fun h => h0 (hroot_iff.mp h)
        simp [hne] at hp; subst hp
        obtain ⟨dm, e, _⟩ := hinv.node (parOf idx) (hdec.earlier idx (by omega) hidx)
        exact ⟨dm, e⟩
    obtain ⟨t1, hadd, hfree1, hlen1⟩ := addNodeRaw_nofree t hinv.free (opOf idx) _ (getMeta md idx) hpl
    rw [hinv.len] at hadd hlen1
    simp only [hadd, liftS]
    simp only [ne_eq, not_true_eq_false, if_false]
    -- facts about the new store
    have hfi : FreeInv t := freeInv_of_nofree t hinv.free (by
      intro m hm; rw [hinv.len] at hm; obtain ⟨dm, e, _⟩ := hinv.node m hm; exact ⟨dm, e⟩)
    obtain ⟨fresh, ⟨dn, en, eop, epar, emd, _, _⟩, keep, _, elinks, eroot, _⟩ :=
      addNodeRaw_spec t t1 hfi (opOf idx) _ none (getMeta md idx) idx hadd
    obtain ⟨keepc, ⟨dn', en', _, ecn⟩, _⟩ := addNodeRaw_children t t1 hfi (opOf idx) _ none (getMeta md idx) idx hadd
    rw [en] at en'; injection en' with en'; subst en'
    -- the store handed to the recursive call
    let t2 : St Ω := if (parOf idx : Int) = (idx : Int) then { t1 with root := idx } else t1
    have hget2 : ∀ m, getNode t2 m = getNode t1 m := by
      intro m; simp only [t2]; split <;> rfl
    have hinv2 : LoadedInv md opOf parOf t2 (idx + 1) := by
      refine ⟨?_, ?_, ?_, ?_, ?_⟩
      · simp only [t2]; split <;> simpa using hlen1
      · simp only [t2]; split <;> simpa using hfree1
      · simp only [t2]; split <;> simp [elinks, hinv.links]
      · intro _
        simp only [t2]
        by_cases h0 : idx = 0
        · subst h0; simp [hdec.root]
        · have hne : ¬ (parOf idx : Int) = (idx : Int) := fun h => h0 (hroot_iff.mp h)
          simp only [hne, if_false]
          rw [eroot]; exact hinv.root (by omega)
      · intro m hm
        rw [hget2]
        by_cases hmi : m = idx
        · subst hmi
          refine ⟨dn, en, eop, ?_, emd, ?_⟩
          · rw [epar]
            by_cases h0 : m = 0
            · subst h0; simp [hdec.root]
            · have hne : ¬ (parOf m : Int) = (m : Int) := fun h => h0 (hroot_iff.mp h)
              simp [hne, h0]
          · rw [ecn]
            have hnp : ¬ ((if (parOf m : Int) = (m : Int) then none else some ((parOf m : Int).toNat)) = some m) := by
              by_cases h0 : m = 0
              · simp [hroot_iff.mpr h0]
              · have hne : ¬ (parOf m : Int) = (m : Int) := fun h => h0 (hroot_iff.mp h)
                simp [hne]
                have := hdec.earlier m (by omega) hidx; omega
            simp only [hnp, if_false]
            -- no node loaded so far has `m` as parent
            symm
            rw [List.filter_eq_nil_iff]
            intro m' hm'
            have hm'lt : m' < m + 1 := List.mem_range.mp hm'
            simp only [decide_eq_true_eq, not_and]
            intro hpos heq
            have := hdec.earlier m' hpos (by omega)
            omega
        · have hmlt : m < idx := by omega
          obtain ⟨dm, e, o, p, mdm, ch⟩ := hinv.node m hmlt
          obtain ⟨dm', e', sm, _, _⟩ := keep m dm hmi e
          obtain ⟨dm'', e'', _, ch'⟩ := keepc m dm hmi e
          rw [e'] at e''; injection e'' with e''; subst e''
          refine ⟨dm', e', by rw [sm.op, o], by rw [sm.parent, p], by rw [sm.md, mdm], ?_⟩
          rw [ch', ch, List.range_succ, List.filter_append]
          congr 1
          by_cases h0 : idx = 0
          · omega
          · have hne : ¬ (parOf idx : Int) = (idx : Int) := fun h => h0 (hroot_iff.mp h)
            simp only [hne, if_false, List.filter_cons, List.filter_nil]
            by_cases hpm : parOf idx = m
            · simp [hpm, Nat.pos_of_ne_zero h0]
            · have : ¬ ((parOf idx : Int).toNat = m) := by simpa using hpm
              simp [hpm, this]
    have hdrop' : nodes.drop (idx + 1) = js := by
      have := congrArg List.tail hdrop
      simpa [List.tail_drop] using this
    obtain ⟨t', hl', hi'⟩ := ih (idx + 1) t2 hdrop' (by simp at hlen ⊢; omega) hinv2
    exact ⟨t', hl', hi'⟩

end HugrVerif.Serial

namespace HugrVerif.Serial
open HugrVerif HugrVerif.Store HugrVerif.Py

variable {Ω : Type}

/-! ### the edge loop -/

/-- `get_offset` as a pure function of the operation's order-port offset. -/
def loadOffP (order : Option Nat) (o : Int) : Int :=
  if order.map (fun k => (k : Int)) = some o then -1 else o

/-- The link `_from_serial` adds for an edge with explicit offsets. -/
def decodeEdge (ordOf : Nat → Bool → Option Nat) (e : Edge) : Port × Port :=
  ((e.src, loadOffP (ordOf e.src false) (e.srcOff.getD 0)), (e.dst, loadOffP (ordOf e.dst true) (e.dstOff.getD 0)))

/-- Nodes `0..n-1` are live and carry the operations `opOf`, whose order-port offsets are `ordOf`. -/
structure OpsAt (c : OpCodec Ω) (opOf : Nat → Ω) (ordOf : Nat → Bool → Option Nat) (n : Nat) (s : St Ω) : Prop where
  live : ∀ m, m < n → ∃ d, getNode s m = .ok d ∧ d.op = opOf m
  ord : ∀ m inc, m < n → c.orderOff (opOf m) inc = .ok (ordOf m inc)

theorem OpsAt.grow {c : OpCodec Ω} {opOf : Nat → Ω} {ordOf : Nat → Bool → Option Nat} {n : Nat} {s s' : St Ω}
    (h : OpsAt c opOf ordOf n s) (g : StoreGrow s s') : OpsAt c opOf ordOf n s' := by
  refine ⟨?_, h.ord⟩
  intro m hm
  obtain ⟨d, e, o⟩ := h.live m hm
  obtain ⟨d', e', gr⟩ := g.fwd m d e
  exact ⟨d', e', by rw [gr.op, o]⟩

theorem loadOffset_eq (c : OpCodec Ω) (opOf : Nat → Ω) (ordOf : Nat → Bool → Option Nat) (n : Nat) (s : St Ω)
    (h : OpsAt c opOf ordOf n s) (m : Nat) (hm : m < n) (inc : Bool) (o : Int) :
    loadOffset c s m (some o) inc = .ok (loadOffP (ordOf m inc) o) := by
  obtain ⟨d, e, hop⟩ := h.live m hm
  simp only [loadOffset, e, liftS, hop, h.ord m inc hm, liftO, loadOffP]
  split <;> rfl

theorem modifyNode_succeeds {μ : Type} (s : Store Ω μ) (i : Nat) (f : NodeData Ω μ → NodeData Ω μ)
    (h : ∃ d, getNode s i = .ok d) : ∃ s', modifyNode s i f = .ok s' := by
  obtain ⟨d, hd⟩ := h
  exact ⟨setNode s i (some (f d)), by simp [modifyNode, hd, bind, Except.bind, pure, Except.pure]⟩

/-- `add_link` between two live nodes does not raise. -/
theorem addLink_succeeds {μ : Type} (s : Store Ω μ) (src dst : Port)
    (hs : ∃ d, getNode s src.1 = .ok d) (hd : ∃ d, getNode s dst.1 = .ok d) :
    ∃ s', Store.addLink s src dst = .ok s' := by
  unfold Store.addLink
  simp only [bind, Except.bind]
  obtain ⟨s1, h1⟩ := modifyNode_succeeds
    ({ s with links := (BiMap.insertLeft s.links
        (SubPort.mk src.1 src.2 (unusedSub s.links.fwd src.1 src.2 (s.links.fwd.length + 1) 0))
        (SubPort.mk dst.1 dst.2 (unusedSub s.links.bck dst.1 dst.2 (s.links.bck.length + 1) 0))) } : Store Ω μ)
    src.1 (fun d => { d with numOuts := max d.numOuts (offsetPlusOne src.2) }) hs
  simp only [h1]
  have g := modifyNode_get _ s1 src.1 dst.1 _ h1
  have hd1 : ∃ d, getNode s1 dst.1 = .ok d := by
    rw [g]
    by_cases hsd : dst.1 = src.1
    · obtain ⟨ds, hds⟩ := hs
      simp only [hsd, if_true]
      show ∃ d, Except.map _ (getNode s src.1) = .ok d
      rw [hds]; exact ⟨_, rfl⟩
    · simp only [hsd, if_false]; exact hd
  exact modifyNode_succeeds s1 dst.1 _ hd1

/-- Edges of a document in the form the serialiser writes: endpoints in range, explicit offsets. -/
def EdgeOK (n : Nat) (e : Edge) : Prop :=
  e.src < n ∧ e.dst < n ∧ ∃ so d_, e.srcOff = some so ∧ e.dstOff = some d_ ∧ 0 ≤ so ∧ 0 ≤ d_

theorem loadEdges_spec (c : OpCodec Ω) (opOf : Nat → Ω) (ordOf : Nat → Bool → Option Nat) (n : Nat) :
    ∀ (es : List Edge) (s : St Ω), OpsAt c opOf ordOf n s → LInv s.links → (∀ e ∈ es, EdgeOK n e) →
    ∃ s', loadEdges c es s = .ok s' ∧ StoreGrow s s' ∧ LInv s'.links ∧
      linksList s' = linksList s ++ es.map (decodeEdge ordOf) := by
  intro es
  induction es with
  | nil => intro s _ hl _; exact ⟨s, rfl, StoreGrow.refl s, hl, by simp⟩
  | cons e es ih =>
    intro s ho hl hok
    obtain ⟨h1, h2, so, d_, e1, e2, _, _⟩ := hok e (by simp)
    unfold loadEdges
    rw [e1, e2, loadOffset_eq c opOf ordOf n s ho e.src h1 false so,
        loadOffset_eq c opOf ordOf n s ho e.dst h2 true d_]
    simp only []
    -- `add_link` succeeds: both nodes are live
    obtain ⟨ds, hds, _⟩ := ho.live e.src h1
    obtain ⟨dd, hdd, _⟩ := ho.live e.dst h2
    have hadd := addLink_succeeds s (e.src, loadOffP (ordOf e.src false) so) (e.dst, loadOffP (ordOf e.dst true) d_)
      ⟨ds, hds⟩ ⟨dd, hdd⟩
    obtain ⟨s1, hs1⟩ := hadd
    simp only [hs1, liftS]
    obtain ⟨el, hl1⟩ := addLink_links s s1 hl _ _ hs1
    obtain ⟨G, _, _⟩ := addLink_nodes s s1 _ _ hs1
    obtain ⟨s', a, g, li, ll⟩ := ih s1 (ho.grow G) hl1 (fun x hx => hok x (List.mem_cons_of_mem _ hx))
    refine ⟨s', a, G.trans g, li, ?_⟩
    rw [ll, el]
    simp [decodeEdge, e1, e2]

end HugrVerif.Serial

namespace HugrVerif.Serial
open HugrVerif HugrVerif.Store HugrVerif.Py

variable {Ω : Type}

/-! ### serialising the loaded store again -/

theorem indexOf_range' (i : Nat) : ∀ (n s k0 : Nat), s ≤ i → i < s + n →
    indexOf i (List.range' s n) k0 = some (k0 + (i - s)) := by
  intro n
  induction n with
  | zero => intro s k0 h1 h2; omega
  | succ n ih =>
    intro s k0 h1 h2
    simp only [List.range'_succ, indexOf]
    by_cases hs : s = i
    · simp [hs]
    · simp only [hs, if_false]
      rw [ih (s + 1) (k0 + 1) (by omega) (by omega)]
      congr 1; omega

theorem rekey_range (n i : Nat) (h : i < n) : rekey (List.range n) i = .ok i := by
  unfold rekey
  rw [List.range_eq_range', indexOf_range' i n 0 0 (Nat.zero_le _) (by omega)]
  simp

theorem mapM_ok_zip {α β ε : Type} (f : α → Except ε β) : ∀ (l : List α) (r : List β), l.length = r.length →
    (∀ i (hi : i < l.length) (hr : i < r.length), f l[i] = .ok r[i]) → l.mapM f = .ok r := by
  intro l
  induction l with
  | nil => intro r hl _; cases r with | nil => rfl | cons _ _ => simp at hl
  | cons a t ih =>
    intro r hl h
    cases r with
    | nil => simp at hl
    | cons b u =>
      have h0 := h 0 (by simp) (by simp)
      simp only [List.getElem_cons_zero] at h0
      have ht := ih u (by simpa using hl) (fun i hi hr => by
        have := h (i + 1) (by simp; omega) (by simp; omega)
        simpa using this)
      simp [List.mapM_cons, h0, ht, bind, Except.bind, pure, Except.pure]

/-- A document in the normal form the serialiser writes. -/
structure NormalDoc (c : OpCodec Ω) (d : Doc) (opOf : Nat → Ω) (parOf : Nat → Nat)
    (ordOf : Nat → Bool → Option Nat) : Prop where
  nonempty : d.nodes ≠ []
  dec : Decoded c d.nodes opOf parOf
  enc : ∀ k j, d.nodes[k]? = some j → c.enc (opOf k) (parOf k) = .ok j
  ord : ∀ m inc, m < d.nodes.length → c.orderOff (opOf m) inc = .ok (ordOf m inc)
  md : ∃ l, d.metadata = some l ∧ l.length = d.nodes.length ∧ ∀ x ∈ l, x ≠ some []
  edges : ∀ e ∈ d.edges, EdgeOK d.nodes.length e

theorem getMeta_entry (l : List (Option Meta)) (k : Nat) (hk : k < l.length) (hn : ∀ x ∈ l, x ≠ some []) :
    (if (getMeta (some l) k).isEmpty then none else some (getMeta (some l) k)) = l[k] := by
  have hne : l.isEmpty = false := by cases l with | nil => simp at hk | cons _ _ => rfl
  simp only [getMeta, hne, Bool.false_eq_true, if_false, List.getElem?_eq_getElem hk]
  cases hx : l[k] with
  | none => simp
  | some m =>
    have : m ≠ [] := by
      intro e; subst e
      exact hn (some []) (by rw [← hx]; exact List.getElem_mem hk) rfl
    cases m with
    | nil => exact absurd rfl this
    | cons _ _ => simp

/-- re-serialising one decoded link gives the edge back -/
theorem serialLink_decodeEdge (c : OpCodec Ω) (opOf : Nat → Ω) (ordOf : Nat → Bool → Option Nat) (n : Nat) (s : St Ω)
    (ho : OpsAt c opOf ordOf n s) (e : Edge) (he : EdgeOK n e) (a b : SubPort)
    (hab : (a.port, b.port) = decodeEdge ordOf e) :
    serialLink c s (List.range n) (a, b) = .ok e := by
  obtain ⟨h1, h2, so, d_, e1, e2, p1, p2⟩ := he
  simp only [decodeEdge, e1, e2, Option.getD_some, SubPort.port, Prod.mk.injEq] at hab
  obtain ⟨⟨an, ao⟩, ⟨bn, bo⟩⟩ := hab
  obtain ⟨ds, hds, hops⟩ := ho.live e.src h1
  obtain ⟨dd, hdd, hopd⟩ := ho.live e.dst h2
  have cs : constrainOffset c s a.node a.offset false = .ok so := by
    rw [an, ao]
    unfold loadOffP
    by_cases hk : (ordOf e.src false).map (fun k => (k : Int)) = some so
    · simp only [hk, if_true]
      cases hko : ordOf e.src false with
      | none => simp [hko] at hk
      | some k =>
        simp [hko] at hk
        have := constrainOffset_order c s e.src false ds k hds (by rw [hops, ho.ord e.src false h1, hko])
        rw [this, hk]
    · simp only [hk, if_false]
      exact constrainOffset_value c s e.src false so p1
  have cd : constrainOffset c s b.node b.offset true = .ok d_ := by
    rw [bn, bo]
    unfold loadOffP
    by_cases hk : (ordOf e.dst true).map (fun k => (k : Int)) = some d_
    · simp only [hk, if_true]
      cases hko : ordOf e.dst true with
      | none => simp [hko] at hk
      | some k =>
        simp [hko] at hk
        have := constrainOffset_order c s e.dst true dd k hdd (by rw [hopd, ho.ord e.dst true h2, hko])
        rw [this, hk]
    · simp only [hk, if_false]
      exact constrainOffset_value c s e.dst true d_ p2
  simp only [serialLink, cs, cd, an, bn, rekey_range n e.src h1, rekey_range n e.dst h2]
  cases e; simp_all

theorem modifyNode_shape {μ : Type} (s s' : Store Ω μ) (i : Nat) (f : NodeData Ω μ → NodeData Ω μ)
    (h : modifyNode s i f = .ok s') : s'.root = s.root ∧ s'.nodes.length = s.nodes.length := by
  unfold modifyNode at h
  simp only [bind, Except.bind] at h
  cases hg : getNode s i with
  | error e => simp [hg] at h
  | ok d =>
    simp only [hg, pure, Except.pure] at h
    injection h with h; subst h
    simp [setNode]

theorem addLink_shape {μ : Type} (s s' : Store Ω μ) (src dst : Port) (h : addLink s src dst = .ok s') :
    s'.root = s.root ∧ s'.nodes.length = s.nodes.length := by
  unfold addLink at h
  simp only [bind, Except.bind] at h
  split at h
  · cases h
  · rename_i s1 h1
    obtain ⟨a1, a2⟩ := modifyNode_shape _ _ _ _ h1
    obtain ⟨b1, b2⟩ := modifyNode_shape _ _ _ _ h
    exact ⟨b1.trans a1, b2.trans a2⟩

theorem loadEdges_shape (c : OpCodec Ω) : ∀ (es : List Edge) (s s' : St Ω), loadEdges c es s = .ok s' →
    s'.root = s.root ∧ s'.nodes.length = s.nodes.length := by
  intro es
  induction es with
  | nil => intro s s' h; simp [loadEdges] at h; subst h; exact ⟨rfl, rfl⟩
  | cons e es ih =>
    intro s s' h
    unfold loadEdges at h
    cases h1 : loadOffset c s e.src e.srcOff false with
    | error er => simp [h1] at h
    | ok so =>
      simp only [h1] at h
      cases h2 : loadOffset c s e.dst e.dstOff true with
      | error er => simp [h2] at h
      | ok d_ =>
        simp only [h2] at h
        cases h3 : Store.addLink s (e.src, so) (e.dst, d_) with
        | error er => simp [h3, liftS] at h
        | ok s1 =>
          simp only [h3, liftS] at h
          obtain ⟨a1, a2⟩ := addLink_shape _ _ _ _ h3
          obtain ⟨b1, b2⟩ := ih s1 s' h
          exact ⟨b1.trans a1, b2.trans a2⟩

/-- **Load-then-save is the identity on documents in normal form** (given that the hierarchy walk
    of the loaded HUGR is index order, which holds because every parent index is smaller than its
    child's and siblings are loaded in index order — see `loaded_hierarchy_order`). -/
theorem fromSerial_toSerial (c : OpCodec Ω) (d : Doc) (opOf : Nat → Ω) (parOf : Nat → Nat)
    (ordOf : Nat → Bool → Option Nat) (hn : NormalDoc c d opOf parOf ordOf) :
    ∃ s', fromSerial c d = .ok s' ∧ LInv s'.links ∧
      (s'.root = 0 ∧ s'.nodes.length = d.nodes.length ∧ ∀ m, m < d.nodes.length → ∃ dm, getNode s' m = .ok dm ∧
        childIdxs dm = (List.range d.nodes.length).filter (fun m' => decide (0 < m' ∧ parOf m' = m))) ∧
      (hierarchyOrder s' = .ok (List.range d.nodes.length) →
        ∃ d', toSerial c s' = .ok d' ∧ d'.nodes = d.nodes ∧ d'.edges = d.edges ∧ d'.metadata = d.metadata) := by
  obtain ⟨l, hml, hll, hlne⟩ := hn.md
  -- stage 1: nodes
  have hinit : LoadedInv d.metadata opOf parOf ({ nodes := [], links := BiMap.empty, free := [], root := 0 } : St Ω) 0 :=
    ⟨rfl, rfl, rfl, by intro h; omega, by intro m hm; omega⟩
  obtain ⟨t, ht, hti⟩ := loadNodes_spec c d.metadata d.nodes opOf parOf hn.dec d.nodes 0 _ rfl (by simp) hinit
  have hot : OpsAt c opOf ordOf d.nodes.length t := by
    refine ⟨?_, hn.ord⟩
    intro m hm
    obtain ⟨dm, e, o, _⟩ := hti.node m hm
    exact ⟨dm, e, o⟩
  have hlt : LInv t.links := by rw [hti.links]; exact linv_empty
  -- stage 2: edges
  obtain ⟨s', hs', G, hls, hll'⟩ := loadEdges_spec c opOf ordOf d.nodes.length d.edges t hot hlt hn.edges
  have hfrom : fromSerial c d = .ok s' := by
    unfold fromSerial
    have : d.nodes.isEmpty = false := by
      cases hd : d.nodes with
      | nil => exact absurd hd hn.nonempty
      | cons _ _ => rfl
    simp only [this, Bool.false_eq_true, if_false, ht, hs']
  have hshape : s'.root = 0 ∧ s'.nodes.length = d.nodes.length ∧ ∀ m, m < d.nodes.length → ∃ dm, getNode s' m = .ok dm ∧
        childIdxs dm = (List.range d.nodes.length).filter (fun m' => decide (0 < m' ∧ parOf m' = m)) := by
    obtain ⟨r1, r2⟩ := loadEdges_shape c d.edges t s' hs'
    have hpos : 0 < d.nodes.length := List.length_pos_iff.mpr hn.nonempty
    refine ⟨r1.trans (hti.root hpos), r2.trans hti.len, ?_⟩
    intro m hm
    obtain ⟨dm, e, _, _, _, ch⟩ := hti.node m hm
    obtain ⟨dm', e', gr⟩ := G.fwd m dm e
    exact ⟨dm', e', by unfold childIdxs at ch ⊢; rw [gr.children]; exact ch⟩
  refine ⟨s', hfrom, hls, hshape, ?_⟩
  intro hord
  have hos : OpsAt c opOf ordOf d.nodes.length s' := hot.grow G
  -- nodes of the re-serialised document
  have hnode : ∀ k (hk : k < d.nodes.length),
      serialNode c s' (List.range d.nodes.length) k = .ok (d.nodes[k], l[k]'(by omega)) := by
    intro k hk
    obtain ⟨dm, e, o, p, mdm, _⟩ := hti.node k hk
    obtain ⟨dm', e', gr⟩ := G.fwd k dm e
    have hrk : rekey (List.range d.nodes.length) (dm'.parent.getD k) = .ok (parOf k) := by
      rw [gr.parent, p]
      by_cases h0 : k = 0
      · subst h0; simp [hn.dec.root, rekey_range _ 0 hk]
      · have := hn.dec.earlier k (by omega) hk
        simp only [h0, if_false, Option.getD_some]
        exact rekey_range _ (parOf k) (by omega)
    have henc := hn.enc k d.nodes[k] (List.getElem?_eq_getElem hk)
    simp only [serialNode, e', liftS, hrk, gr.op, o, henc, liftO, gr.md, mdm]
    rw [hml, getMeta_entry l k (by omega) hlne]
  have hnodes : (List.range d.nodes.length).mapM (serialNode c s' (List.range d.nodes.length)) =
      .ok ((List.range d.nodes.length).map fun k => (d.nodes[k]?.getD .null, l[k]?.getD none)) := by
    apply mapM_ok_zip
    · simp
    · intro i hi hr
      simp only [List.length_range] at hi
      simp only [List.getElem_range, List.getElem_map]
      rw [hnode i hi]
      simp [List.getElem?_eq_getElem hi, List.getElem?_eq_getElem (show i < l.length by omega)]
  -- edges of the re-serialised document
  have hfwd : s'.links.fwd.map (fun e => (e.1.port, e.2.port)) = d.edges.map (decodeEdge ordOf) := by
    have : linksList t = [] := by simp [linksList, hti.links, BiMap.empty]
    have h2 : linksList s' = d.edges.map (decodeEdge ordOf) := by rw [hll', this]; simp
    simpa [linksList] using h2
  have hedges : s'.links.fwd.mapM (serialLink c s' (List.range d.nodes.length)) = .ok d.edges := by
    apply mapM_ok_zip
    · have := congrArg List.length hfwd; simpa using this
    · intro i hi hr
      have hmem : d.edges[i] ∈ d.edges := List.getElem_mem hr
      have hpi : (s'.links.fwd[i].1.port, s'.links.fwd[i].2.port) = decodeEdge ordOf d.edges[i] := by
        have := congrArg (fun x => x[i]?) hfwd
        simp only [List.getElem?_map, List.getElem?_eq_getElem hi, List.getElem?_eq_getElem hr, Option.map_some] at this
        exact Option.some.inj this
      exact serialLink_decodeEdge c opOf ordOf d.nodes.length s' hos d.edges[i] (hn.edges _ hmem) _ _ hpi
  let ns := (List.range d.nodes.length).map fun k => (d.nodes[k]?.getD Json.null, l[k]?.getD none)
  refine ⟨{ nodes := ns.map (·.1), edges := d.edges, metadata := some (ns.map (·.2)), encoder := none }, ?_, ?_, rfl, ?_⟩
  · unfold toSerial
    simp only [hord, liftS, hnodes, hedges, ns]
  · show ns.map (·.1) = d.nodes
    simp only [ns, List.map_map]
    apply List.ext_getElem
    · simp
    · intro i h1 h2
      simp [List.getElem?_eq_getElem h2]
  · show some (ns.map (·.2)) = d.metadata
    rw [hml]
    congr 1
    simp only [ns, List.map_map]
    apply List.ext_getElem
    · simp [hll]
    · intro i h1 h2
      simp [List.getElem?_eq_getElem h2]

end HugrVerif.Serial
