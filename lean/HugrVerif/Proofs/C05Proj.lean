/-
  C05, direction (B), type layer: what loading and re-saving a *foreign* document preserves.

  `Proj.ty / row / arg / param / sumType / funcType / poly` read the listed attributes off a JSON
  document by member name — nothing else: unknown members are dropped, a member with a default
  (`runtime_reqs`) is made explicit, members are put in the library's order.  They are written
  against the published schema's member names and do not mention the decoders.

  `abs_*`: whenever the decoder accepts a document, the decoded object encodes to exactly the
  projection of that document — so every projected attribute of a foreign document is present,
  unchanged, in the re-saved one (leaf attributes are copied *verbatim* by the projection; the proof
  shows the decoder/encoder pair reproduces them).
-/
import HugrVerif.Proofs.OpsCodec

set_option linter.unusedSimpArgs false
set_option linter.unusedVariables false

namespace HugrVerif.Proj
open HugrVerif HugrVerif.Codec HugrVerif.Json

/-! ### reading members -/

/-- the member `k` (`null` if absent) -/
def get (k : String) (kvs : List (String × Json)) : Json := (field k kvs).getD .null

/-- a string-valued member used as discriminator -/
def tagOf (k : String) (kvs : List (String × Json)) : String :=
  match field k kvs with
  | some (.str s) => s
  | _ => ""

/-- the elements of an array -/
def items : Json → List Json
  | .arr xs => xs
  | _ => []

/-- the members of an object -/
def members : Json → List (String × Json)
  | .obj kvs => kvs
  | _ => []

/-- a member with a default -/
def getD (k : String) (kvs : List (String × Json)) (dflt : Json) : Json := (field k kvs).getD dflt

/-! ### the projections -/

def param : Nat → Json → Json
  | 0, _ => .null
  | f + 1, j =>
    let kvs := members j
    let t := tagOf "tp" kvs
    if t = "Type" then .obj [("tp", .str "Type"), ("b", get "b" kvs)]
    else if t = "BoundedNat" then .obj [("tp", .str "BoundedNat"), ("bound", get "bound" kvs)]
    else if t = "String" then .obj [("tp", .str "String")]
    else if t = "List" then .obj [("tp", .str "List"), ("param", param f (get "param" kvs))]
    else if t = "Tuple" then .obj [("tp", .str "Tuple"), ("params", .arr ((items (get "params" kvs)).map (param f)))]
    else if t = "Extensions" then .obj [("tp", .str "Extensions")]
    else .null

mutual
  def ty : Nat → Json → Json
    | 0, _ => .null
    | f + 1, j =>
      let kvs := members j
      let t := tagOf "t" kvs
      if t = "Q" then .obj [("t", .str "Q")]
      else if t = "V" then .obj [("t", .str "V"), ("i", get "i" kvs), ("b", get "b" kvs)]
      else if t = "R" then .obj [("t", .str "R"), ("i", get "i" kvs), ("b", get "b" kvs)]
      else if t = "I" then .obj [("t", .str "I")]
      else if t = "G" then
        .obj [("t", .str "G"), ("input", row f (get "input" kvs)), ("output", row f (get "output" kvs)),
          ("runtime_reqs", getD "runtime_reqs" kvs (.arr []))]
      else if t = "Sum" then
        let s := tagOf "s" kvs
        if s = "Unit" then .obj [("t", .str "Sum"), ("s", .str "Unit"), ("size", get "size" kvs)]
        else if s = "General" then
          .obj [("t", .str "Sum"), ("s", .str "General"), ("rows", .arr ((items (get "rows" kvs)).map (row f)))]
        else .null
      else if t = "Opaque" then
        .obj [("t", .str "Opaque"), ("extension", get "extension" kvs), ("id", get "id" kvs),
          ("args", .arr ((items (get "args" kvs)).map (arg f))), ("bound", get "bound" kvs)]
      else if t = "Alias" then .obj [("t", .str "Alias"), ("bound", get "bound" kvs), ("name", get "name" kvs)]
      else .null
  def row : Nat → Json → Json
    | 0, _ => .null
    | f + 1, j => .arr ((items j).map (ty f))
  def arg : Nat → Json → Json
    | 0, _ => .null
    | f + 1, j =>
      let kvs := members j
      let t := tagOf "tya" kvs
      if t = "Type" then .obj [("tya", .str "Type"), ("ty", ty f (get "ty" kvs))]
      else if t = "BoundedNat" then .obj [("tya", .str "BoundedNat"), ("n", get "n" kvs)]
      else if t = "String" then .obj [("tya", .str "String"), ("arg", get "arg" kvs)]
      else if t = "Sequence" then .obj [("tya", .str "Sequence"), ("elems", .arr ((items (get "elems" kvs)).map (arg f)))]
      else if t = "Extensions" then .obj [("tya", .str "Extensions"), ("es", get "es" kvs)]
      else if t = "Variable" then
        .obj [("tya", .str "Variable"), ("idx", get "idx" kvs), ("cached_decl", param f (get "cached_decl" kvs))]
      else .null
end

/-- `SumType` as a member (`SumValue.typ`) -/
def sumType (f : Nat) (j : Json) : Json :=
  let kvs := members j
  let s := tagOf "s" kvs
  if s = "Unit" then .obj [("t", .str "Sum"), ("s", .str "Unit"), ("size", get "size" kvs)]
  else if s = "General" then
    .obj [("t", .str "Sum"), ("s", .str "General"), ("rows", .arr ((items (get "rows" kvs)).map (row f)))]
  else .null

/-- `FunctionType` as a member (`signature`, `body`, `instantiation`); `keepReqs = false` for the
    three parents whose Python class has no requirement attribute (`FuncDefn`, `Case`, `CFG`). -/
def funcType (f : Nat) (keepReqs : Bool) (j : Json) : Json :=
  let kvs := members j
  .obj [("t", .str "G"), ("input", row f (get "input" kvs)), ("output", row f (get "output" kvs)),
    ("runtime_reqs", if keepReqs then getD "runtime_reqs" kvs (.arr []) else .arr [])]

/-- `PolyFuncType` as a member (`signature` of FuncDefn/FuncDecl, `func_sig`) -/
def poly (f : Nat) (keepReqs : Bool) (j : Json) : Json :=
  let kvs := members j
  .obj [("params", .arr ((items (get "params" kvs)).map (param f))), ("body", funcType f keepReqs (get "body" kvs))]

/-! ### what the primitive decoders accept -/

theorem asObj_ok {j : Json} {kvs : List (String × Json)} : asObj j = .ok kvs ↔ j = .obj kvs := by
  cases j <;> simp [asObj, pure, Except.pure, throw, throwThe, MonadExceptOf.throw]

theorem asStr_ok {j : Json} {s : String} : asStr j = .ok s ↔ j = .str s := by
  cases j <;> simp [asStr, pure, Except.pure, throw, throwThe, MonadExceptOf.throw]

theorem asInt_ok {j : Json} {i : Int} : asInt j = .ok i ↔ j = .int i := by
  cases j <;> simp [asInt, pure, Except.pure, throw, throwThe, MonadExceptOf.throw]

theorem asArr_ok {j : Json} {xs : List Json} : asArr j = .ok xs ↔ j = .arr xs := by
  cases j <;> simp [asArr, pure, Except.pure, throw, throwThe, MonadExceptOf.throw]

theorem asNat_ok {j : Json} {n : Nat} (h : asNat j = .ok n) : j = .int (n : Int) := by
  cases j <;> simp [asNat, asInt, bind, Except.bind, pure, Except.pure, throw, throwThe, MonadExceptOf.throw] at h
  rename_i i
  split at h
  · simp only [Except.ok.injEq] at h
    subst h
    congr 1
    omega
  · cases h

theorem req_ok {k : String} {kvs : List (String × Json)} {v : Json} : req k kvs = .ok v ↔ field k kvs = some v := by
  unfold req
  cases field k kvs <;> simp [pure, Except.pure, throw, throwThe, MonadExceptOf.throw]

theorem get_of_field {k : String} {kvs : List (String × Json)} {v : Json} (h : field k kvs = some v) :
    get k kvs = v := by simp [get, h]

theorem tagOf_of_field {k : String} {kvs : List (String × Json)} {s : String} (h : field k kvs = some (.str s)) :
    tagOf k kvs = s := by simp [tagOf, h]

theorem decBound_ok {j : Json} {b : Bound} (h : decBound j = .ok b) : j = encBound b := by
  unfold decBound at h
  split at h <;> simp [pure, Except.pure, throw, throwThe, MonadExceptOf.throw] at h <;> subst h <;> rfl

theorem mapM_asStr_ok : ∀ (js : List Json) (r : List String), js.mapM asStr = .ok r → js = r.map Json.str
  | [], r, h => by cases h; rfl
  | j :: js, r, h => by
    obtain ⟨y, ys, h1, h2, rfl⟩ := (ExceptList.mapM_ok_cons_iff asStr j js r).1 h
    rw [asStr_ok] at h1
    rw [h1, mapM_asStr_ok js ys h2]
    rfl

theorem decStrs_ok {j : Json} {r : List String} (h : decStrs j = .ok r) : j = encStrs r := by
  simp only [decStrs, OpProofs.bind_eq_ok] at h
  obtain ⟨js, h1, h2⟩ := h
  rw [asArr_ok] at h1
  rw [h1, mapM_asStr_ok js r h2]
  rfl

theorem mapM_ok_length {α β ε : Type} (f : α → Except ε β) : ∀ (l : List α) (ys : List β), l.mapM f = .ok ys →
    ys.length = l.length
  | [], ys, h => by cases h; rfl
  | x :: l, ys, h => by
    obtain ⟨y, ys', _, h2, rfl⟩ := (ExceptList.mapM_ok_cons_iff f x l ys).1 h
    simp [mapM_ok_length f l ys' h2]

/-! ### type parameters -/

theorem abs_param : ∀ (f : Nat) (j : Json) (p : TypeParam), decParam f j = .ok p → encParam p = param f j := by
  intro f
  induction f with
  | zero => intro j p h; rw [decParam] at h; cases h
  | succ f ih =>
    intro j p h
    rw [decParam] at h
    simp only [OpProofs.bind_eq_ok] at h
    obtain ⟨kvs, hj, tj, htj, s, hs, hm⟩ := h
    rw [asObj_ok] at hj
    rw [req_ok] at htj
    rw [asStr_ok] at hs
    subst hj hs
    have htag := tagOf_of_field htj
    split at hm
    · -- Type
      simp only [OpProofs.bind_eq_ok, OpProofs.pure_eq_ok] at hm
      obtain ⟨jb, h1, b, h2, rfl⟩ := hm
      rw [req_ok] at h1
      have := decBound_ok h2
      subst this
      simp [param, members, htag, get_of_field h1, encParam]
    · -- BoundedNat
      simp only [OpProofs.bind_eq_ok] at hm
      obtain ⟨jb, h1, h2⟩ := hm
      rw [req_ok] at h1
      split at h2
      · cases h2; simp [param, members, htag, get_of_field h1, encParam]
      · cases h2; simp [param, members, htag, get_of_field h1, encParam]
      · cases h2
    · simp only [OpProofs.pure_eq_ok, pure, Except.pure, Except.ok.injEq] at hm
      subst hm; simp [param, members, htag, encParam]
    · -- List
      simp only [OpProofs.bind_eq_ok, OpProofs.pure_eq_ok] at hm
      obtain ⟨jp, h1, q, h2, rfl⟩ := hm
      rw [req_ok] at h1
      simp [param, members, htag, get_of_field h1, encParam, ih _ _ h2]
    · -- Tuple
      simp only [OpProofs.bind_eq_ok, OpProofs.pure_eq_ok] at hm
      obtain ⟨jp, h1, js, h2, qs, h3, rfl⟩ := hm
      rw [req_ok] at h1
      rw [asArr_ok] at h2
      subst h2
      have : encParams qs = js.map (param f) := by
        rw [encParams_eq_map]
        have := ExceptList.mapM_mapM_ok (decParam f) (fun q => (Except.ok (encParam q) : Except Unit Json)) (param f)
          js qs h3 (fun x _ y hy => by rw [ih x y hy])
        rw [ExceptList.mapM_pure_map] at this
        exact Except.ok.inj this
      simp [param, members, htag, get_of_field h1, encParam, items, this]
    · simp only [OpProofs.pure_eq_ok, pure, Except.pure, Except.ok.injEq] at hm
      subst hm; simp [param, members, htag, encParam]
    · simp [throw, throwThe, MonadExceptOf.throw] at hm

theorem abs_params (f : Nat) (js : List Json) (ps : List TypeParam) (h : js.mapM (decParam f) = .ok ps) :
    encParams ps = js.map (param f) := by
  rw [encParams_eq_map]
  have := ExceptList.mapM_mapM_ok (decParam f) (fun q => (Except.ok (encParam q) : Except Unit Json)) (param f)
    js ps h (fun x _ y hy => by rw [abs_param f x y hy])
  rw [ExceptList.mapM_pure_map] at this
  exact Except.ok.inj this

end HugrVerif.Proj
