/-
  C05, direction (B), type layer: what loading and re-saving a *foreign* document preserves.

  `Proj.ty / row / arg / param / sumType / funcType / poly` read the listed attributes off a JSON
  document by member name — nothing else: unknown members are dropped, a member with a default
  (`runtime_reqs`) is made explicit, members are put in the library's order.  They are written
  against the published schema's member names and do not mention the decoders.

  `abs_*`: whenever the decoder accepts a document, the decoded object encodes to exactly the
  projection of that document — so every projected attribute of a foreign document is present,
  unchanged, in the re-saved one (leaf attributes are copied *verbatim* by the projection; the proof
  shows the decoder/encoder pair reproduces them).
-/
import HugrVerif.Proofs.OpsCodec
import HugrVerif.Inhabits

set_option linter.unusedSimpArgs false
set_option linter.unusedVariables false

namespace HugrVerif.Proj
open HugrVerif HugrVerif.Codec HugrVerif.Json

/-! ### reading members -/

/-- the member `k` (`null` if absent) -/
def get (k : String) (kvs : List (String × Json)) : Json := (field k kvs).getD .null

/-- a string-valued member used as discriminator -/
def tagOf (k : String) (kvs : List (String × Json)) : String :=
  match field k kvs with
  | some (.str s) => s
  | _ => ""

/-- the elements of an array -/
def items : Json → List Json
  | .arr xs => xs
  | _ => []

/-- the members of an object -/
def members : Json → List (String × Json)
  | .obj kvs => kvs
  | _ => []

/-- a member with a default -/
def getD (k : String) (kvs : List (String × Json)) (dflt : Json) : Json := (field k kvs).getD dflt

/-! ### the projections -/

def param : Nat → Json → Json
  | 0, _ => .null
  | f + 1, j =>
    let kvs := members j
    let t := tagOf "tp" kvs
    if t = "Type" then .obj [("tp", .str "Type"), ("b", get "b" kvs)]
    else if t = "BoundedNat" then .obj [("tp", .str "BoundedNat"), ("bound", get "bound" kvs)]
    else if t = "String" then .obj [("tp", .str "String")]
    else if t = "List" then .obj [("tp", .str "List"), ("param", param f (get "param" kvs))]
    else if t = "Tuple" then .obj [("tp", .str "Tuple"), ("params", .arr ((items (get "params" kvs)).map (param f)))]
    else if t = "Extensions" then .obj [("tp", .str "Extensions")]
    else .null

mutual
  def ty : Nat → Json → Json
    | 0, _ => .null
    | f + 1, j =>
      let kvs := members j
      let t := tagOf "t" kvs
      if t = "Q" then .obj [("t", .str "Q")]
      else if t = "V" then .obj [("t", .str "V"), ("i", get "i" kvs), ("b", get "b" kvs)]
      else if t = "R" then .obj [("t", .str "R"), ("i", get "i" kvs), ("b", get "b" kvs)]
      else if t = "I" then .obj [("t", .str "I")]
      else if t = "G" then
        .obj [("t", .str "G"), ("input", row f (get "input" kvs)), ("output", row f (get "output" kvs)),
          ("runtime_reqs", getD "runtime_reqs" kvs (.arr []))]
      else if t = "Sum" then
        let s := tagOf "s" kvs
        if s = "Unit" then .obj [("t", .str "Sum"), ("s", .str "Unit"), ("size", get "size" kvs)]
        else if s = "General" then
          .obj [("t", .str "Sum"), ("s", .str "General"), ("rows", .arr ((items (get "rows" kvs)).map (row f)))]
        else .null
      else if t = "Opaque" then
        .obj [("t", .str "Opaque"), ("extension", get "extension" kvs), ("id", get "id" kvs),
          ("args", .arr ((items (get "args" kvs)).map (arg f))), ("bound", get "bound" kvs)]
      else if t = "Alias" then .obj [("t", .str "Alias"), ("bound", get "bound" kvs), ("name", get "name" kvs)]
      else .null
  def row : Nat → Json → Json
    | 0, _ => .null
    | f + 1, j => .arr ((items j).map (ty f))
  def arg : Nat → Json → Json
    | 0, _ => .null
    | f + 1, j =>
      let kvs := members j
      let t := tagOf "tya" kvs
      if t = "Type" then .obj [("tya", .str "Type"), ("ty", ty f (get "ty" kvs))]
      else if t = "BoundedNat" then .obj [("tya", .str "BoundedNat"), ("n", get "n" kvs)]
      else if t = "String" then .obj [("tya", .str "String"), ("arg", get "arg" kvs)]
      else if t = "Sequence" then .obj [("tya", .str "Sequence"), ("elems", .arr ((items (get "elems" kvs)).map (arg f)))]
      else if t = "Extensions" then .obj [("tya", .str "Extensions"), ("es", get "es" kvs)]
      else if t = "Variable" then
        .obj [("tya", .str "Variable"), ("idx", get "idx" kvs), ("cached_decl", param f (get "cached_decl" kvs))]
      else .null
end

/-- `SumType` as a member (`SumValue.typ`) -/
def sumType (f : Nat) (j : Json) : Json :=
  let kvs := members j
  let s := tagOf "s" kvs
  if s = "Unit" then .obj [("t", .str "Sum"), ("s", .str "Unit"), ("size", get "size" kvs)]
  else if s = "General" then
    .obj [("t", .str "Sum"), ("s", .str "General"), ("rows", .arr ((items (get "rows" kvs)).map (row f)))]
  else .null

/-- `FunctionType` as a member (`signature`, `body`, `instantiation`); `keepReqs = false` for the
    three parents whose Python class has no requirement attribute (`FuncDefn`, `Case`, `CFG`). -/
def funcType (f : Nat) (keepReqs : Bool) (j : Json) : Json :=
  let kvs := members j
  .obj [("t", .str "G"), ("input", row f (get "input" kvs)), ("output", row f (get "output" kvs)),
    ("runtime_reqs", if keepReqs then getD "runtime_reqs" kvs (.arr []) else .arr [])]

/-- `PolyFuncType` as a member (`signature` of FuncDefn/FuncDecl, `func_sig`) -/
def poly (f : Nat) (keepReqs : Bool) (j : Json) : Json :=
  let kvs := members j
  .obj [("params", .arr ((items (get "params" kvs)).map (param f))), ("body", funcType f keepReqs (get "body" kvs))]

/-! ### what the primitive decoders accept -/

theorem asObj_ok {j : Json} {kvs : List (String × Json)} : asObj j = .ok kvs ↔ j = .obj kvs := by
  cases j <;> simp [asObj, pure, Except.pure, throw, throwThe, MonadExceptOf.throw]

theorem asStr_ok {j : Json} {s : String} : asStr j = .ok s ↔ j = .str s := by
  cases j <;> simp [asStr, pure, Except.pure, throw, throwThe, MonadExceptOf.throw]

theorem asInt_ok {j : Json} {i : Int} : asInt j = .ok i ↔ j = .int i := by
  cases j <;> simp [asInt, pure, Except.pure, throw, throwThe, MonadExceptOf.throw]

theorem asArr_ok {j : Json} {xs : List Json} : asArr j = .ok xs ↔ j = .arr xs := by
  cases j <;> simp [asArr, pure, Except.pure, throw, throwThe, MonadExceptOf.throw]

theorem asNat_ok {j : Json} {n : Nat} (h : asNat j = .ok n) : j = .int (n : Int) := by
  cases j <;> simp [asNat, asInt, bind, Except.bind, pure, Except.pure, throw, throwThe, MonadExceptOf.throw] at h
  rename_i i
  split at h
  · simp only [Except.ok.injEq] at h
    subst h
    congr 1
    omega
  · cases h

theorem req_ok {k : String} {kvs : List (String × Json)} {v : Json} : req k kvs = .ok v ↔ field k kvs = some v := by
  unfold req
  cases field k kvs <;> simp [pure, Except.pure, throw, throwThe, MonadExceptOf.throw]

theorem get_of_field {k : String} {kvs : List (String × Json)} {v : Json} (h : field k kvs = some v) :
    get k kvs = v := by simp [get, h]

theorem tagOf_of_field {k : String} {kvs : List (String × Json)} {s : String} (h : field k kvs = some (.str s)) :
    tagOf k kvs = s := by simp [tagOf, h]

theorem decBound_ok {j : Json} {b : Bound} (h : decBound j = .ok b) : j = encBound b := by
  unfold decBound at h
  split at h <;> simp [pure, Except.pure, throw, throwThe, MonadExceptOf.throw] at h <;> subst h <;> rfl

theorem mapM_asStr_ok : ∀ (js : List Json) (r : List String), js.mapM asStr = .ok r → js = r.map Json.str
  | [], r, h => by cases h; rfl
  | j :: js, r, h => by
    obtain ⟨y, ys, h1, h2, rfl⟩ := (ExceptList.mapM_ok_cons_iff asStr j js r).1 h
    rw [asStr_ok] at h1
    rw [h1, mapM_asStr_ok js ys h2]
    rfl

theorem decStrs_ok {j : Json} {r : List String} (h : decStrs j = .ok r) : j = encStrs r := by
  simp only [decStrs, OpProofs.bind_eq_ok] at h
  obtain ⟨js, h1, h2⟩ := h
  rw [asArr_ok] at h1
  rw [h1, mapM_asStr_ok js r h2]
  rfl

theorem mapM_ok_length {α β ε : Type} (f : α → Except ε β) : ∀ (l : List α) (ys : List β), l.mapM f = .ok ys →
    ys.length = l.length
  | [], ys, h => by cases h; rfl
  | x :: l, ys, h => by
    obtain ⟨y, ys', _, h2, rfl⟩ := (ExceptList.mapM_ok_cons_iff f x l ys).1 h
    simp [mapM_ok_length f l ys' h2]

/-! ### type parameters -/

theorem abs_param : ∀ (f : Nat) (j : Json) (p : TypeParam), decParam f j = .ok p → encParam p = param f j := by
  intro f
  induction f with
  | zero => intro j p h; rw [decParam] at h; cases h
  | succ f ih =>
    intro j p h
    rw [decParam] at h
    simp only [OpProofs.bind_eq_ok] at h
    obtain ⟨kvs, hj, tj, htj, s, hs, hm⟩ := h
    rw [asObj_ok] at hj
    rw [req_ok] at htj
    rw [asStr_ok] at hs
    subst hj hs
    have htag := tagOf_of_field htj
    split at hm
    · -- Type
      simp only [OpProofs.bind_eq_ok, OpProofs.pure_eq_ok] at hm
      obtain ⟨jb, h1, b, h2, rfl⟩ := hm
      rw [req_ok] at h1
      have := decBound_ok h2
      subst this
      simp [param, members, htag, get_of_field h1, encParam]
    · -- BoundedNat
      simp only [OpProofs.bind_eq_ok] at hm
      obtain ⟨jb, h1, h2⟩ := hm
      rw [req_ok] at h1
      split at h2
      · cases h2; simp [param, members, htag, get_of_field h1, encParam]
      · cases h2; simp [param, members, htag, get_of_field h1, encParam]
      · cases h2
    · simp only [OpProofs.pure_eq_ok, pure, Except.pure, Except.ok.injEq] at hm
      subst hm; simp [param, members, htag, encParam]
    · -- List
      simp only [OpProofs.bind_eq_ok, OpProofs.pure_eq_ok] at hm
      obtain ⟨jp, h1, q, h2, rfl⟩ := hm
      rw [req_ok] at h1
      simp [param, members, htag, get_of_field h1, encParam, ih _ _ h2]
    · -- Tuple
      simp only [OpProofs.bind_eq_ok, OpProofs.pure_eq_ok] at hm
      obtain ⟨jp, h1, js, h2, qs, h3, rfl⟩ := hm
      rw [req_ok] at h1
      rw [asArr_ok] at h2
      subst h2
      have : encParams qs = js.map (param f) := by
        rw [encParams_eq_map]
        have := ExceptList.mapM_mapM_ok (decParam f) (fun q => (Except.ok (encParam q) : Except Unit Json)) (param f)
          js qs h3 (fun x _ y hy => by rw [ih x y hy])
        rw [ExceptList.mapM_pure_map] at this
        exact Except.ok.inj this
      simp [param, members, htag, get_of_field h1, encParam, items, this]
    · simp only [OpProofs.pure_eq_ok, pure, Except.pure, Except.ok.injEq] at hm
      subst hm; simp [param, members, htag, encParam]
    · simp [throw, throwThe, MonadExceptOf.throw] at hm

theorem abs_params (f : Nat) (js : List Json) (ps : List TypeParam) (h : js.mapM (decParam f) = .ok ps) :
    encParams ps = js.map (param f) := by
  rw [encParams_eq_map]
  have := ExceptList.mapM_mapM_ok (decParam f) (fun q => (Except.ok (encParam q) : Except Unit Json)) (param f)
    js ps h (fun x _ y hy => by rw [abs_param f x y hy])
  rw [ExceptList.mapM_pure_map] at this
  exact Except.ok.inj this

/-! ### types, rows, type arguments -/

/-- what is proved for all three decoders at a given fuel -/
def AbsTy (f : Nat) : Prop :=
  (∀ j t, decTy f j = .ok t → t.isPoly = false ∧ encTy t = .ok (ty f j)) ∧
  (∀ j ts, decRow f j = .ok ts → ∃ js, encRow ts = .ok js ∧ row f j = .arr js) ∧
  (∀ j a, decArg f j = .ok a → encArg a = .ok (arg f j))

theorem enc_row_of (f : Nat) (ih : ∀ j t, decTy f j = .ok t → t.isPoly = false ∧ encTy t = .ok (ty f j))
    (js : List Json) (ts : List Ty) (h : js.mapM (decTy f) = .ok ts) : encRow ts = .ok (js.map (ty f)) := by
  rw [encRow_eq_mapM]
  refine ExceptList.mapM_mapM_ok (decTy f) encElem (ty f) js ts h (fun j _ t ht => ?_)
  obtain ⟨h1, h2⟩ := ih j t ht
  simp [encElem, h1, h2]

theorem enc_rows_of (f : Nat) (ih : ∀ j ts, decRow f j = .ok ts → ∃ js, encRow ts = .ok js ∧ row f j = .arr js)
    (js : List Json) (rows : List (List Ty)) (h : js.mapM (decRow f) = .ok rows) :
    encRows rows = .ok (js.map (row f)) := by
  rw [encRows_eq_mapM]
  refine ExceptList.mapM_mapM_ok (decRow f) _ (row f) js rows h (fun j _ ts hts => ?_)
  obtain ⟨js', h1, h2⟩ := ih j ts hts
  simp [h1, h2, Except.map]

theorem enc_args_of (f : Nat) (ih : ∀ j a, decArg f j = .ok a → encArg a = .ok (arg f j))
    (js : List Json) (as : List TypeArg) (h : js.mapM (decArg f) = .ok as) : encArgs as = .ok (js.map (arg f)) := by
  rw [encArgs_eq_mapM]
  exact ExceptList.mapM_mapM_ok (decArg f) encArg (arg f) js as h (fun j _ a ha => ih j a ha)

theorem decReqs_ok {kvs : List (String × Json)} {r : List String} (h : decReqs kvs = .ok r) :
    getD "runtime_reqs" kvs (.arr []) = encStrs r := by
  unfold decReqs at h
  unfold getD
  split at h
  · rename_i hf; cases h; simp [hf, encStrs]
  · rename_i j hf; simp [hf, decStrs_ok h]

theorem absTy_zero : AbsTy 0 := by
  refine ⟨fun j t h => ?_, fun j ts h => ?_, fun j a h => ?_⟩
  · rw [decTy] at h; cases h
  · rw [decRow] at h; cases h
  · rw [decArg] at h; cases h

theorem absTy_succ (f : Nat) (ih : AbsTy f) : AbsTy (f + 1) := by
  obtain ⟨ihT, ihR, ihA⟩ := ih
  refine ⟨fun j t h => ?_, fun j ts h => ?_, fun j a h => ?_⟩
  · -- types
    rw [decTy] at h
    simp only [OpProofs.bind_eq_ok] at h
    obtain ⟨kvs, hj, tj, htj, s, hs, hm⟩ := h
    rw [asObj_ok] at hj
    rw [req_ok] at htj
    rw [asStr_ok] at hs
    subst hj hs
    have htag := tagOf_of_field htj
    split at hm
    · -- Q
      cases hm; simp [ty, members, htag, encTy, Ty.isPoly, pure, Except.pure]
    · -- V
      simp only [OpProofs.bind_eq_ok, OpProofs.pure_eq_ok] at hm
      obtain ⟨ji, h1, i, h2, jb, h3, b, h4, rfl⟩ := hm
      rw [req_ok] at h1 h3
      have e1 := asNat_ok h2
      have e2 := decBound_ok h4
      subst e1 e2
      simp [ty, members, htag, get_of_field h1, get_of_field h3, encTy, Ty.isPoly, pure, Except.pure]
    · -- R
      simp only [OpProofs.bind_eq_ok, OpProofs.pure_eq_ok] at hm
      obtain ⟨ji, h1, i, h2, jb, h3, b, h4, rfl⟩ := hm
      rw [req_ok] at h1 h3
      have e1 := asNat_ok h2
      have e2 := decBound_ok h4
      subst e1 e2
      simp [ty, members, htag, get_of_field h1, get_of_field h3, encTy, Ty.isPoly, pure, Except.pure]
    · -- I
      cases hm; simp [ty, members, htag, encTy, Ty.isPoly, pure, Except.pure]
    · -- G
      simp only [OpProofs.bind_eq_ok, OpProofs.pure_eq_ok] at hm
      obtain ⟨ji, h1, i, h2, jo, h3, o, h4, r, h5, rfl⟩ := hm
      rw [req_ok] at h1 h3
      obtain ⟨jsi, e1, e2⟩ := ihR _ _ h2
      obtain ⟨jso, e3, e4⟩ := ihR _ _ h4
      have e5 := decReqs_ok h5
      simp [ty, members, htag, get_of_field h1, get_of_field h3, encTy, Ty.isPoly, e1, e2, e3, e4, e5,
        bind, Except.bind, pure, Except.pure]
    · -- Sum
      simp only [OpProofs.bind_eq_ok] at hm
      obtain ⟨js_, h1, s, h2, hm⟩ := hm
      rw [req_ok] at h1
      rw [asStr_ok] at h2
      subst h2
      have hs := tagOf_of_field h1
      split at hm
      · simp only [OpProofs.bind_eq_ok, OpProofs.pure_eq_ok] at hm
        obtain ⟨jn, h3, n, h4, rfl⟩ := hm
        rw [req_ok] at h3
        have e1 := asNat_ok h4
        subst e1
        simp [ty, members, htag, hs, get_of_field h3, encTy, Ty.isPoly, pure, Except.pure]
      · simp only [OpProofs.bind_eq_ok, OpProofs.pure_eq_ok] at hm
        obtain ⟨jr, h3, js, h4, rows, h5, rfl⟩ := hm
        rw [req_ok] at h3
        rw [asArr_ok] at h4
        subst h4
        have e1 := enc_rows_of f ihR js rows h5
        simp [ty, members, htag, hs, get_of_field h3, items, encTy, Ty.isPoly, e1, bind, Except.bind, pure, Except.pure]
      · cases hm
    · -- Opaque
      simp only [OpProofs.bind_eq_ok, OpProofs.pure_eq_ok] at hm
      obtain ⟨jid, h1, id, h2, jb, h3, b, h4, ja, h5, js, h6, as, h7, je, h8, e, h9, rfl⟩ := hm
      rw [req_ok] at h1 h3 h5 h8
      rw [asStr_ok] at h2 h9
      rw [asArr_ok] at h6
      have e2 := decBound_ok h4
      subst h2 h9 h6 e2
      have e1 := enc_args_of f ihA js as h7
      simp [ty, members, htag, get_of_field h1, get_of_field h3, get_of_field h5, get_of_field h8, items, encTy,
        Ty.isPoly, e1, bind, Except.bind, pure, Except.pure]
    · -- Alias
      simp only [OpProofs.bind_eq_ok, OpProofs.pure_eq_ok] at hm
      obtain ⟨jn, h1, n, h2, jb, h3, b, h4, rfl⟩ := hm
      rw [req_ok] at h1 h3
      rw [asStr_ok] at h2
      have e2 := decBound_ok h4
      subst h2 e2
      simp [ty, members, htag, get_of_field h1, get_of_field h3, encTy, Ty.isPoly, pure, Except.pure]
    · cases hm
  · -- rows
    rw [decRow] at h
    simp only [OpProofs.bind_eq_ok] at h
    obtain ⟨js, h1, h2⟩ := h
    rw [asArr_ok] at h1
    subst h1
    exact ⟨js.map (ty f), enc_row_of f ihT js ts h2, by simp [row, items]⟩
  · -- arguments
    rw [decArg] at h
    simp only [OpProofs.bind_eq_ok] at h
    obtain ⟨kvs, hj, tj, htj, s, hs, hm⟩ := h
    rw [asObj_ok] at hj
    rw [req_ok] at htj
    rw [asStr_ok] at hs
    subst hj hs
    have htag := tagOf_of_field htj
    split at hm
    · -- Type
      simp only [OpProofs.bind_eq_ok, OpProofs.pure_eq_ok] at hm
      obtain ⟨jt, h1, t, h2, rfl⟩ := hm
      rw [req_ok] at h1
      obtain ⟨e1, e2⟩ := ihT _ _ h2
      rw [encArg_type_eq]
      simp [arg, members, htag, get_of_field h1, e1, e2, Except.bind]
    · -- BoundedNat
      simp only [OpProofs.bind_eq_ok, OpProofs.pure_eq_ok] at hm
      obtain ⟨jn, h1, n, h2, rfl⟩ := hm
      rw [req_ok] at h1
      rw [asInt_ok] at h2
      subst h2
      simp [arg, members, htag, get_of_field h1, encArg, pure, Except.pure]
    · -- String
      simp only [OpProofs.bind_eq_ok, OpProofs.pure_eq_ok] at hm
      obtain ⟨jn, h1, n, h2, rfl⟩ := hm
      rw [req_ok] at h1
      rw [asStr_ok] at h2
      subst h2
      simp [arg, members, htag, get_of_field h1, encArg, pure, Except.pure]
    · -- Sequence
      simp only [OpProofs.bind_eq_ok, OpProofs.pure_eq_ok] at hm
      obtain ⟨je, h1, js, h2, es, h3, rfl⟩ := hm
      rw [req_ok] at h1
      rw [asArr_ok] at h2
      subst h2
      have e1 := enc_args_of f ihA js es h3
      simp [arg, members, htag, get_of_field h1, items, encArg, e1, bind, Except.bind, pure, Except.pure]
    · -- Extensions
      simp only [OpProofs.bind_eq_ok, OpProofs.pure_eq_ok] at hm
      obtain ⟨je, h1, es, h2, rfl⟩ := hm
      rw [req_ok] at h1
      have e1 := decStrs_ok h2
      subst e1
      simp [arg, members, htag, get_of_field h1, encArg, pure, Except.pure]
    · -- Variable
      simp only [OpProofs.bind_eq_ok, OpProofs.pure_eq_ok] at hm
      obtain ⟨ji, h1, i, h2, jp, h3, p, h4, rfl⟩ := hm
      rw [req_ok] at h1 h3
      have e1 := asNat_ok h2
      subst e1
      simp [arg, members, htag, get_of_field h1, get_of_field h3, encArg, abs_param f _ _ h4, pure, Except.pure]
    · cases hm

theorem absTy (f : Nat) : AbsTy f := by
  induction f with
  | zero => exact absTy_zero
  | succ f ih => exact absTy_succ f ih

/-- **Types**: a decoded type encodes to the projection of the document it was decoded from (and is
    never the polymorphic function type, which is not a member of the `Type` union). -/
theorem abs_ty (f : Nat) (j : Json) (t : Ty) (h : decTy f j = .ok t) : t.isPoly = false ∧ encTy t = .ok (ty f j) :=
  (absTy f).1 j t h

theorem abs_row (f : Nat) (j : Json) (ts : List Ty) (h : decRow f j = .ok ts) :
    ∃ js, encRow ts = .ok js ∧ row f j = .arr js := (absTy f).2.1 j ts h

/-- **Type arguments.** -/
theorem abs_arg (f : Nat) (j : Json) (a : TypeArg) (h : decArg f j = .ok a) : encArg a = .ok (arg f j) :=
  (absTy f).2.2 j a h

theorem abs_args (f : Nat) (js : List Json) (as : List TypeArg) (h : js.mapM (decArg f) = .ok as) :
    encArgs as = .ok (js.map (arg f)) := enc_args_of f (abs_arg f) js as h

theorem abs_rows (f : Nat) (js : List Json) (rows : List (List Ty)) (h : js.mapM (decRow f) = .ok rows) :
    encRows rows = .ok (js.map (row f)) := enc_rows_of f (abs_row f) js rows h

/-- `SumType` member -/
theorem abs_sumType (f : Nat) (j : Json) (t : Ty) (h : decSumType f j = .ok t) :
    t.isSum = true ∧ encTy t = .ok (sumType f j) := by
  unfold decSumType at h
  simp only [OpProofs.bind_eq_ok] at h
  obtain ⟨kvs, hj, hm⟩ := h
  rw [asObj_ok] at hj
  subst hj
  have hm' : (do
      match ← asStr (← req "s" kvs) with
      | "Unit" => do pure (Ty.unitSum (← asNat (← req "size" kvs)))
      | "General" => do pure (Ty.sum (← (← asArr (← req "rows" kvs)).mapM (decRow f)))
      | _ => throw DecErr.validation) = Except.ok t := by
    split at hm
    · exact hm
    · exact hm
    · cases hm
  clear hm
  simp only [OpProofs.bind_eq_ok] at hm'
  obtain ⟨js_, h1, s, h2, hm⟩ := hm'
  rw [req_ok] at h1
  rw [asStr_ok] at h2
  subst h2
  have hs := tagOf_of_field h1
  split at hm
  · simp only [OpProofs.bind_eq_ok, OpProofs.pure_eq_ok] at hm
    obtain ⟨jn, h3, n, h4, rfl⟩ := hm
    rw [req_ok] at h3
    have e1 := asNat_ok h4
    subst e1
    simp [sumType, members, hs, get_of_field h3, encTy, Ty.isSum, pure, Except.pure]
  · simp only [OpProofs.bind_eq_ok, OpProofs.pure_eq_ok] at hm
    obtain ⟨jr, h3, js, h4, rows, h5, rfl⟩ := hm
    rw [req_ok] at h3
    rw [asArr_ok] at h4
    subst h4
    have e1 := abs_rows f js rows h5
    simp [sumType, members, hs, get_of_field h3, items, encTy, Ty.isSum, e1, bind, Except.bind, pure, Except.pure]
  · cases hm

/-- `FunctionType` member -/
theorem abs_funcType (f : Nat) (j : Json) (i o : List Ty) (r : List String) (h : decFuncType f j = .ok (i, o, r)) :
    encTy (.function i o r) = .ok (funcType f true j) ∧ encTy (.function i o []) = .ok (funcType f false j) := by
  unfold decFuncType at h
  simp only [OpProofs.bind_eq_ok] at h
  obtain ⟨kvs, hj, hm⟩ := h
  rw [asObj_ok] at hj
  subst hj
  have hm' : (do
      pure (← decRow f (← req "input" kvs), ← decRow f (← req "output" kvs), ← decReqs kvs)) =
        (Except.ok (i, o, r) : Except DecErr _) := by
    split at hm
    · exact hm
    · exact hm
    · cases hm
  clear hm
  simp only [OpProofs.bind_eq_ok, OpProofs.pure_eq_ok] at hm'
  obtain ⟨ji, h1, i', h2, jo, h3, o', h4, r', h5, he⟩ := hm'
  rw [req_ok] at h1 h3
  cases he
  obtain ⟨jsi, e1, e2⟩ := abs_row f _ _ h2
  obtain ⟨jso, e3, e4⟩ := abs_row f _ _ h4
  have e5 := decReqs_ok h5
  simp [funcType, members, get_of_field h1, get_of_field h3, encTy, e1, e2, e3, e4, e5, encStrs,
    bind, Except.bind, pure, Except.pure]

/-- `PolyFuncType` member -/
theorem abs_poly (f : Nat) (j : Json) (t : Ty) (h : decPoly f j = .ok t) :
    ∃ ps i o r, t = .poly ps i o r ∧ encTy (.poly ps i o r) = .ok (poly f true j) ∧
      encTy (.poly ps i o []) = .ok (poly f false j) ∧ ps.length = (items (get "params" (members j))).length ∧
      encTy (.function i o r) = .ok (funcType f true (get "body" (members j))) := by
  unfold decPoly at h
  simp only [OpProofs.bind_eq_ok, OpProofs.pure_eq_ok] at h
  obtain ⟨kvs, hj, jp, h1, js, h2, ps, h3, jb, h4, ⟨i, o, r⟩, h5, rfl⟩ := h
  rw [asObj_ok] at hj
  rw [req_ok] at h1 h4
  rw [asArr_ok] at h2
  subst hj h2
  obtain ⟨e1, e2⟩ := abs_funcType f jb i o r h5
  have e3 := abs_params f js ps h3
  have e4 := mapM_ok_length _ _ _ h3
  refine ⟨ps, i, o, r, rfl, ?_, ?_, ?_, ?_⟩
  · simp only [encTy] at e1 ⊢
    simp only [OpProofs.bind_eq_ok, OpProofs.pure_eq_ok] at e1
    obtain ⟨a, ha, b, hb, hab⟩ := e1
    simp [poly, members, get_of_field h1, get_of_field h4, items, e3, ha, hb, ← hab, bind, Except.bind, pure, Except.pure]
  · simp only [encTy] at e2 ⊢
    simp only [OpProofs.bind_eq_ok, OpProofs.pure_eq_ok] at e2
    obtain ⟨a, ha, b, hb, hab⟩ := e2
    simp [poly, members, get_of_field h1, get_of_field h4, items, e3, ha, hb, ← hab, bind, Except.bind, pure, Except.pure]
  · simp [members, get_of_field h1, items, e4]
  · simp [members, get_of_field h4, e1]

end HugrVerif.Proj
