/-
  The partition computed by `Export.classes` (the abstraction of `_UnionFind`) is the partition of the
  ports into the connected components of the link graph:  `rep cs p = rep cs q ↔ Conn links p q`.
-/
import HugrVerif.Export

namespace HugrVerif.ExportProofs
open HugrVerif HugrVerif.Export

def srcPort (l : Port × Port) : DPort := ⟨.out, l.1.1, l.1.2⟩
def dstPort (l : Port × Port) : DPort := ⟨.inc, l.2.1, l.2.2⟩

/-- Two ports are joined by edges of the HUGR, transitively (the port graph is undirected here). -/
inductive Conn (links : List (Port × Port)) : DPort → DPort → Prop
  | link {l : Port × Port} (h : l ∈ links) : Conn links (srcPort l) (dstPort l)
  | refl (p : DPort) : Conn links p p
  | symm {p q : DPort} : Conn links p q → Conn links q p
  | trans {p q r : DPort} : Conn links p q → Conn links q r → Conn links p r

theorem Conn.mono {ls ls' : List (Port × Port)} (h : ∀ l ∈ ls, l ∈ ls') {p q : DPort} (c : Conn ls p q) :
    Conn ls' p q := by
  induction c with
  | link hl => exact .link (h _ hl)
  | refl p => exact .refl p
  | symm _ ih => exact .symm ih
  | trans _ _ ih1 ih2 => exact .trans ih1 ih2

/-- the classes are pairwise disjoint, each is connected, and every processed link lies inside one -/
structure ClassesInv (cs : Classes) (ls : List (Port × Port)) : Prop where
  nodup : cs.Nodup
  disj : ∀ c ∈ cs, ∀ d ∈ cs, ∀ x, x ∈ c → x ∈ d → c = d
  conn : ∀ c ∈ cs, ∀ p ∈ c, ∀ q ∈ c, Conn ls p q
  linked : ∀ l ∈ ls, ∃ c ∈ cs, srcPort l ∈ c ∧ dstPort l ∈ c

theorem classesInv_nil : ClassesInv [] [] :=
  ⟨List.nodup_nil, fun _ h => absurd h (by simp), fun _ h => absurd h (by simp), fun _ h => absurd h (by simp)⟩

theorem contains_iff {c : List DPort} {p : DPort} : c.contains p = true ↔ p ∈ c := by
  simp

theorem extractClass_none {p : DPort} {cs : Classes} (h : extractClass p cs = none) : ∀ c ∈ cs, p ∉ c := by
  induction cs with
  | nil => intro c hc; cases hc
  | cons c cs ih =>
    unfold extractClass at h
    split at h
    · cases h
    · rename_i hc
      split at h
      · rename_i hn
        intro d hd
        rcases List.mem_cons.1 hd with e | e
        · subst e; exact fun hp => hc (contains_iff.2 hp)
        · exact ih hn d e
      · cases h

theorem extractClass_some {p : DPort} {cs : Classes} {c : List DPort} {rest : Classes}
    (h : extractClass p cs = some (c, rest)) :
    p ∈ c ∧ c ∈ cs ∧ (∀ d, d ∈ cs ↔ d = c ∨ d ∈ rest) ∧ (cs.Nodup → c ∉ rest ∧ rest.Nodup) := by
  induction cs generalizing rest with
  | nil => simp [extractClass] at h
  | cons k cs ih =>
    unfold extractClass at h
    split at h
    · rename_i hk
      cases h
      refine ⟨contains_iff.1 hk, by simp, fun d => by simp, fun hn => ?_⟩
      exact ⟨(List.nodup_cons.1 hn).1, (List.nodup_cons.1 hn).2⟩
    · split at h
      · cases h
      · rename_i d rest' he
        cases h
        obtain ⟨h1, h2, h3, h4⟩ := ih he
        refine ⟨h1, List.mem_cons_of_mem _ h2, fun x => ?_, fun hn => ?_⟩
        · simp only [List.mem_cons, h3 x]
          constructor
          · rintro (e | e | e)
            · exact .inr (.inl e)
            · exact .inl e
            · exact .inr (.inr e)
          · rintro (e | e | e)
            · exact .inr (.inl e)
            · exact .inl e
            · exact .inr (.inr e)
        · have hn' := List.nodup_cons.1 hn
          obtain ⟨h5, h6⟩ := h4 hn'.2
          refine ⟨?_, List.nodup_cons.2 ⟨fun hk => hn'.1 ((h3 k).2 (.inr hk)), h6⟩⟩
          intro hc
          rcases List.mem_cons.1 hc with e | e
          · subst e; exact hn'.1 h2
          · exact h5 e

/-- replacing some classes by one class that absorbs them (and possibly fresh ports) keeps the invariant -/
theorem step_general {cs others : Classes} {new : List DPort} {ls : List (Port × Port)} {l : Port × Port}
    (hInv : ClassesInv cs ls) (hnd : others.Nodup) (hsub : ∀ d ∈ others, d ∈ cs)
    (hne : new ≠ []) (hdisj : ∀ x ∈ new, ∀ d ∈ others, x ∉ d)
    (hconn : ∀ p ∈ new, ∀ q ∈ new, Conn (ls ++ [l]) p q)
    (hcover : ∀ c ∈ cs, c ∈ others ∨ ∀ x ∈ c, x ∈ new)
    (hl : srcPort l ∈ new ∧ dstPort l ∈ new) : ClassesInv (new :: others) (ls ++ [l]) := by
  have hnotin : new ∉ others := by
    intro hm
    cases new with
    | nil => exact hne rfl
    | cons x t => exact hdisj x (by simp) _ hm (by simp)
  refine ⟨List.nodup_cons.2 ⟨hnotin, hnd⟩, ?_, ?_, ?_⟩
  · intro c hc d hd x hxc hxd
    rcases List.mem_cons.1 hc with e1 | e1 <;> rcases List.mem_cons.1 hd with e2 | e2
    · rw [e1, e2]
    · subst e1; exact absurd hxd (hdisj x hxc d e2)
    · subst e2; exact absurd hxc (hdisj x hxd c e1)
    · exact hInv.disj c (hsub c e1) d (hsub d e2) x hxc hxd
  · intro c hc p hp q hq
    rcases List.mem_cons.1 hc with e | e
    · subst e; exact hconn p hp q hq
    · exact (hInv.conn c (hsub c e) p hp q hq).mono (fun l hl => List.mem_append_left _ hl)
  · intro l' hl'
    rcases List.mem_append.1 hl' with e | e
    · obtain ⟨c, hc, h1, h2⟩ := hInv.linked l' e
      rcases hcover c hc with ho | ha
      · exact ⟨c, List.mem_cons_of_mem _ ho, h1, h2⟩
      · exact ⟨new, by simp, ha _ h1, ha _ h2⟩
    · simp only [List.mem_singleton] at e
      subst e
      exact ⟨new, by simp, hl.1, hl.2⟩

theorem linkConn (ls : List (Port × Port)) (l : Port × Port) : Conn (ls ++ [l]) (srcPort l) (dstPort l) :=
  .link (by simp)

/-- one `union` keeps the invariant -/
theorem unionPorts_inv {cs : Classes} {ls : List (Port × Port)} (l : Port × Port) (hInv : ClassesInv cs ls) :
    ClassesInv (unionPorts cs (srcPort l) (dstPort l)) (ls ++ [l]) := by
  have mono : ∀ {p q}, Conn ls p q → Conn (ls ++ [l]) p q :=
    fun c => c.mono (fun l hl => List.mem_append_left _ hl)
  have hab : srcPort l ≠ dstPort l := by simp [srcPort, dstPort]
  unfold unionPorts
  split
  · rename_i ha
    have hna := extractClass_none ha
    split
    · rename_i hb
      have hnb := extractClass_none hb
      rw [if_neg hab]
      refine step_general hInv hInv.nodup (fun d hd => hd) (by simp) ?_ ?_ (fun c hc => .inl hc) (by simp)
      · intro x hx d hd
        simp only [List.mem_cons, List.not_mem_nil, or_false] at hx
        rcases hx with e | e <;> subst e
        · exact hna d hd
        · exact hnb d hd
      · intro p hp q hq
        simp only [List.mem_cons, List.not_mem_nil, or_false] at hp hq
        rcases hp with e1 | e1 <;> rcases hq with e2 | e2 <;> subst e1 <;> subst e2
        · exact .refl _
        · exact linkConn ls l
        · exact .symm (linkConn ls l)
        · exact .refl _
    · rename_i cb rest hb
      obtain ⟨h1, h2, h3, h4⟩ := extractClass_some hb
      obtain ⟨h5, h6⟩ := h4 hInv.nodup
      refine step_general hInv h6 (fun d hd => (h3 d).2 (.inr hd)) (by simp) ?_ ?_ ?_ (by simp [h1])
      · intro x hx d hd hxd
        rcases List.mem_append.1 hx with e | e
        · have := hInv.disj cb h2 d ((h3 d).2 (.inr hd)) x e hxd
          subst this; exact h5 hd
        · simp only [List.mem_singleton] at e; subst e
          exact hna d ((h3 d).2 (.inr hd)) hxd
      · intro p hp q hq
        have key : ∀ x, x ∈ cb ++ [srcPort l] → Conn (ls ++ [l]) x (dstPort l) := by
          intro x hx
          rcases List.mem_append.1 hx with e | e
          · exact mono (hInv.conn cb h2 x e _ h1)
          · simp only [List.mem_singleton] at e; subst e; exact linkConn ls l
        exact .trans (key p hp) (.symm (key q hq))
      · intro c hc
        rcases (h3 c).1 hc with e | e
        · subst e; exact .inr (fun x hx => List.mem_append_left _ hx)
        · exact .inl e
  · rename_i ca rest ha
    obtain ⟨h1, h2, h3, h4⟩ := extractClass_some ha
    obtain ⟨h5, h6⟩ := h4 hInv.nodup
    split
    · rename_i hcb
      have hb : dstPort l ∈ ca := contains_iff.1 hcb
      exact ⟨hInv.nodup, hInv.disj, fun c hc p hp q hq => mono (hInv.conn c hc p hp q hq), fun l' hl' => by
        rcases List.mem_append.1 hl' with e | e
        · exact hInv.linked l' e
        · simp only [List.mem_singleton] at e; subst e; exact ⟨ca, h2, h1, hb⟩⟩
    · rename_i hcb
      have hbca : dstPort l ∉ ca := fun h => hcb (contains_iff.2 h)
      split
      · rename_i hb
        have hnb := extractClass_none hb
        refine step_general hInv h6 (fun d hd => (h3 d).2 (.inr hd)) (by simp) ?_ ?_ ?_ (by simp [h1])
        · intro x hx d hd hxd
          rcases List.mem_append.1 hx with e | e
          · have := hInv.disj ca h2 d ((h3 d).2 (.inr hd)) x e hxd
            subst this; exact h5 hd
          · simp only [List.mem_singleton] at e; subst e
            exact hnb d hd hxd
        · intro p hp q hq
          have key : ∀ x, x ∈ ca ++ [dstPort l] → Conn (ls ++ [l]) x (srcPort l) := by
            intro x hx
            rcases List.mem_append.1 hx with e | e
            · exact mono (hInv.conn ca h2 x e _ h1)
            · simp only [List.mem_singleton] at e; subst e; exact .symm (linkConn ls l)
          exact .trans (key p hp) (.symm (key q hq))
        · intro c hc
          rcases (h3 c).1 hc with e | e
          · subst e; exact .inr (fun x hx => List.mem_append_left _ hx)
          · exact .inl e
      · rename_i cb rest' hb
        obtain ⟨g1, g2, g3, g4⟩ := extractClass_some hb
        obtain ⟨g5, g6⟩ := g4 h6
        have hcb_cs : cb ∈ cs := (h3 cb).2 (.inr g2)
        refine step_general hInv g6 (fun d hd => (h3 d).2 (.inr ((g3 d).2 (.inr hd)))) ?_ ?_ ?_ ?_
          ⟨List.mem_append_left _ h1, List.mem_append_right _ g1⟩
        · intro e
          have : srcPort l ∈ ca ++ cb := List.mem_append_left _ h1
          rw [e] at this; cases this
        · intro x hx d hd hxd
          have hdr : d ∈ rest := (g3 d).2 (.inr hd)
          rcases List.mem_append.1 hx with e | e
          · have := hInv.disj ca h2 d ((h3 d).2 (.inr hdr)) x e hxd
            subst this; exact h5 hdr
          · have := hInv.disj cb hcb_cs d ((h3 d).2 (.inr hdr)) x e hxd
            subst this; exact g5 hd
        · intro p hp q hq
          have key : ∀ x, x ∈ ca ++ cb → Conn (ls ++ [l]) x (srcPort l) := by
            intro x hx
            rcases List.mem_append.1 hx with e | e
            · exact mono (hInv.conn ca h2 x e _ h1)
            · exact .trans (mono (hInv.conn cb hcb_cs x e _ g1)) (.symm (linkConn ls l))
          exact .trans (key p hp) (.symm (key q hq))
        · intro c hc
          rcases (h3 c).1 hc with e | e
          · subst e; exact .inr (fun x hx => List.mem_append_left _ hx)
          · rcases (g3 c).1 e with e' | e'
            · subst e'; exact .inr (fun x hx => List.mem_append_right _ hx)
            · exact .inl e'

theorem foldl_inv (links : List (Port × Port)) : ∀ (cs : Classes) (ls : List (Port × Port)), ClassesInv cs ls →
    ClassesInv (links.foldl (fun cs (l : Port × Port) => unionPorts cs ⟨.out, l.1.1, l.1.2⟩ ⟨.inc, l.2.1, l.2.2⟩) cs)
      (ls ++ links) := by
  induction links with
  | nil => intro cs ls h; simpa using h
  | cons l rest ih =>
    intro cs ls h
    simp only [List.foldl_cons]
    have := ih _ _ (unionPorts_inv l h)
    simpa [srcPort, dstPort, List.append_assoc] using this

/-- the partition `ModelExport.__init__` builds from `hugr.links()` -/
theorem classes_inv (links : List (Port × Port)) : ClassesInv (classes links) links := by
  have := foldl_inv links [] [] classesInv_nil
  simpa [classes] using this

theorem rep_of_extract {cs : Classes} {p : DPort} {c : List DPort} {rest : Classes}
    (h : extractClass p cs = some (c, rest)) : ∃ r t, c = r :: t ∧ rep cs p = r := by
  have hp := (extractClass_some h).1
  cases c with
  | nil => cases hp
  | cons r t => exact ⟨r, t, rfl, by simp [rep, h]⟩

/-- **The union-find abstraction is the component partition**: two ports have the same root iff edges of
    the HUGR join them (transitively). -/
theorem rep_eq_iff_conn (links : List (Port × Port)) (p q : DPort) :
    rep (classes links) p = rep (classes links) q ↔ Conn links p q := by
  have inv := classes_inv links
  generalize classes links = cs at inv
  have same : ∀ c ∈ cs, ∀ x ∈ c, ∀ y ∈ c, rep cs x = rep cs y := by
    intro c hc x hx y hy
    cases hx' : extractClass x cs with
    | none => exact absurd hx (extractClass_none hx' c hc)
    | some r1 =>
      cases hy' : extractClass y cs with
      | none => exact absurd hy (extractClass_none hy' c hc)
      | some r2 =>
        obtain ⟨c1, rest1⟩ := r1
        obtain ⟨c2, rest2⟩ := r2
        obtain ⟨a1, a2, _, _⟩ := extractClass_some hx'
        obtain ⟨b1, b2, _, _⟩ := extractClass_some hy'
        have e1 : c1 = c := inv.disj c1 a2 c hc x a1 hx
        have e2 : c2 = c := inv.disj c2 b2 c hc y b1 hy
        obtain ⟨r, t, hc1, hr1⟩ := rep_of_extract hx'
        obtain ⟨r', t', hc2, hr2⟩ := rep_of_extract hy'
        rw [hr1, hr2]
        rw [e1] at hc1; rw [e2] at hc2
        rw [hc1] at hc2
        exact (List.cons.inj hc2).1
  constructor
  · intro h
    cases hp : extractClass p cs with
    | none =>
      have rp : rep cs p = p := by simp [rep, hp]
      cases hq : extractClass q cs with
      | none =>
        have rq : rep cs q = q := by simp [rep, hq]
        rw [rp, rq] at h; subst h; exact .refl _
      | some r2 =>
        obtain ⟨c2, rest2⟩ := r2
        obtain ⟨r, t, hc2, hr2⟩ := rep_of_extract hq
        obtain ⟨b1, b2, _, _⟩ := extractClass_some hq
        rw [rp, hr2] at h
        exact absurd (show p ∈ c2 by rw [hc2, h]; simp) (extractClass_none hp c2 b2)
    | some r1 =>
      obtain ⟨c1, rest1⟩ := r1
      obtain ⟨r, t, hc1, hr1⟩ := rep_of_extract hp
      obtain ⟨a1, a2, _, _⟩ := extractClass_some hp
      cases hq : extractClass q cs with
      | none =>
        have rq : rep cs q = q := by simp [rep, hq]
        rw [hr1, rq] at h
        exact absurd (show q ∈ c1 by rw [hc1, ← h]; simp) (extractClass_none hq c1 a2)
      | some r2 =>
        obtain ⟨c2, rest2⟩ := r2
        obtain ⟨r', t', hc2, hr2⟩ := rep_of_extract hq
        obtain ⟨b1, b2, _, _⟩ := extractClass_some hq
        rw [hr1, hr2] at h
        have hr : r ∈ c1 := by rw [hc1]; simp
        have hr' : r ∈ c2 := by rw [hc2, h]; simp
        have e : c1 = c2 := inv.disj c1 a2 c2 b2 r hr hr'
        exact inv.conn c1 a2 p a1 q (e ▸ b1)
  · intro h
    induction h with
    | link hl =>
      obtain ⟨c, hc, h1, h2⟩ := inv.linked _ hl
      exact same c hc _ h1 _ h2
    | refl p => rfl
    | symm _ ih => exact ih.symm
    | trans _ _ ih1 ih2 => exact ih1.trans ih2

end HugrVerif.ExportProofs
