import HugrVerif.Proofs.BuildLocal
import HugrVerif.Build

namespace HugrVerif.BuildLocal
open HugrVerif HugrVerif.Build HugrVerif.Build.BuildState HugrVerif.Store

/-- the invariant of a builder state none of whose builders is a basic-block builder (the only builder class that
    overrides `_wire_up_port`) -/
structure BInv (st : BuildState) : Prop where
  stores : ∀ hid s, st.getHugr hid = .ok s → LInvS s
  kinds : ∀ bi r, st.getB bi = .ok r → r.kind ≠ .block

theorem ctx_of_dfg (r : BRec) (h : r.kind ≠ .block) : r.ctx = none := by simp [BRec.ctx, h]

theorem getHugr_lt (st : BuildState) (hid : Nat) (s : St) (h : st.getHugr hid = .ok s) : hid < st.hugrs.length := by
  unfold BuildState.getHugr at h
  rcases Nat.lt_or_ge hid st.hugrs.length with h1 | h1
  · exact h1
  · simp [List.getElem?_eq_none h1] at h

theorem getHugr_setHugr' (st : BuildState) (hid hid' : Nat) (s x : St) (h : (st.setHugr hid s).getHugr hid' = .ok x) :
    (hid' = hid ∧ x = s) ∨ st.getHugr hid' = .ok x := by
  unfold BuildState.getHugr BuildState.setHugr at h
  unfold BuildState.getHugr
  simp only [List.getElem?_set] at h
  by_cases e : hid = hid'
  · subst e
    by_cases hl : hid < st.hugrs.length
    · simp [hl] at h; exact .inl ⟨rfl, h.symm⟩
    · have : st.hugrs[hid]? = none := List.getElem?_eq_none (by omega)
      simp [hl] at h
  · simp only [e, if_false] at h; exact .inr h

theorem binv_setHugr (st : BuildState) (hid : Nat) (s : St) (hb : BInv st) (hs : LInvS s) : BInv (st.setHugr hid s) := by
  refine ⟨?_, fun bi r h => hb.kinds bi r h⟩
  intro hid' x hx
  rcases getHugr_setHugr' st hid hid' s x hx with ⟨_, e⟩ | h
  · subst e; exact hs
  · exact hb.stores hid' x h

theorem binv_newHugr (st : BuildState) (s : St) (hb : BInv st) (hs : LInvS s) : BInv (st.newHugr s).1 := by
  refine ⟨?_, fun bi r h => hb.kinds bi r h⟩
  intro hid x hx
  unfold BuildState.newHugr BuildState.getHugr at hx
  simp only [List.getElem?_append] at hx
  by_cases hl : hid < st.hugrs.length
  · simp only [hl, if_true] at hx; exact hb.stores hid x hx
  · simp only [hl, if_false] at hx
    by_cases h0 : hid - st.hugrs.length = 0
    · simp [h0] at hx; subst hx; exact hs
    · have : ([s] : List St)[hid - st.hugrs.length]? = none := by
        apply List.getElem?_eq_none; simp; omega
      simp [this] at hx

theorem binv_newB (st : BuildState) (r : BRec) (hb : BInv st) (hk : r.kind ≠ .block) : BInv (st.newB r).1 := by
  refine ⟨fun hid s h => hb.stores hid s h, ?_⟩
  intro bi x hx
  unfold BuildState.newB BuildState.getB at hx
  simp only [List.getElem?_append] at hx
  by_cases hl : bi < st.builders.length
  · simp only [hl, if_true] at hx; exact hb.kinds bi x hx
  · simp only [hl, if_false] at hx
    by_cases h0 : bi - st.builders.length = 0
    · simp [h0] at hx; subst hx; exact hk
    · have : ([r] : List BRec)[bi - st.builders.length]? = none := by
        apply List.getElem?_eq_none; simp; omega
      simp [this] at hx

theorem binv_setB (st : BuildState) (bi : Nat) (r : BRec) (hb : BInv st) (hk : r.kind ≠ .block) : BInv (st.setB bi r) := by
  refine ⟨fun hid s h => hb.stores hid s h, ?_⟩
  intro bj x hx
  unfold BuildState.setB BuildState.getB at hx
  simp only [List.getElem?_set] at hx
  by_cases e : bi = bj
  · subst e
    by_cases hl : bi < st.builders.length
    · simp [hl] at hx; subst hx; exact hk
    · have : st.builders[bi]? = none := List.getElem?_eq_none (by omega)
      simp [hl] at hx
  · simp only [e, if_false] at hx; exact hb.kinds bj x hx

theorem binv_bindB (st : BuildState) (b : String) (bi : Nat) (hb : BInv st) : BInv (st.bindB b bi) :=
  ⟨fun hid s h => hb.stores hid s h, fun bi r h => hb.kinds bi r h⟩
theorem binv_bindN (st : BuildState) (n : String) (h : Build.Handle) (hb : BInv st) : BInv (st.bindN n h) :=
  ⟨fun hid s h => hb.stores hid s h, fun bi r h => hb.kinds bi r h⟩

/-! ### the store-level steps of the commands -/

theorem linvS_initIO (s s' : St) (hs : LInvS s) (op : Op) (p : Nat) (i o : Build.Handle)
    (h : initIO s op p = .ok (s', i, o)) : LInvS s' := by
  unfold initIO at h
  split at h
  · cases h
  · rename_i ins _
    unfold liftS at h
    cases h1 : Store.addNode s (.input ins) (some p) (some ins.length) [] with
    | error e => simp [h1] at h
    | ok r1 =>
      obtain ⟨s1, n1⟩ := r1
      simp only [h1] at h
      cases h2 : Store.addNode s1 (.output none) (some p) none [] with
      | error e => simp [h2] at h
      | ok r2 =>
        obtain ⟨s2, n2⟩ := r2
        simp only [h2] at h
        injection h with h
        have e : s2 = s' := (Prod.mk.inj h).1
        subst e
        exact linvS_addNode s1 s2 (linvS_addNode s s1 hs _ _ _ _ n1 h1) _ _ _ _ n2 h2

theorem binv_newStandaloneDf (st st' : BuildState) (hb : BInv st) (kind : BKind) (hk : kind ≠ .block) (op : Op) (bi : Nat)
    (h : newStandaloneDf st kind op = .ok (st', bi)) : BInv st' := by
  unfold newStandaloneDf at h
  simp only [] at h
  split at h
  · cases h
  · rename_i s i o hio
    injection h with h
    have e := (Prod.mk.inj h).1
    subst e
    exact binv_newB _ _ (binv_newHugr st s hb (linvS_initIO _ s (linvS_init op []) op _ i o hio)) hk

theorem binv_addOp (st st' : BuildState) (hb : BInv st) (bi : Nat) (op : Op) (ws : List Wire) (md : Serial.Meta)
    (hd : Build.Handle) (h : addOp st bi op ws md = .ok (st', hd)) : BInv st' := by
  unfold addOp at h
  split at h
  · cases h
  · rename_i r hr
    split at h
    · cases h
    · rename_i s hs
      split at h
      · cases h
      · rename_i s1 n h1
        split at h
        · cases h
        · rename_i s2 tys h2
          split at h
          · cases h
          · split at h
            · cases h
            · injection h with h
              have e := (Prod.mk.inj h).1
              subst e
              have i0 := hb.stores r.hid s hs
              unfold liftS at h1
              cases ha : Store.addNode s op (some r.parent.1) none md with
              | error e => simp [ha] at h1
              | ok ra =>
                obtain ⟨sa, na⟩ := ra
                simp only [ha] at h1
                injection h1 with h1
                have e1 := (Prod.mk.inj h1).1
                have e2 := (Prod.mk.inj h1).2
                subst e1; subst e2
                have i1 := linvS_addNode s sa i0 _ _ _ _ na ha
                rw [ctx_of_dfg r (hb.kinds bi r hr)] at h2
                exact binv_setHugr st r.hid s2 hb (linvS_wireUp sa s2 i1 na ws tys h2)

theorem linvS_setOutputsStore (s s' : St) (hs : LInvS s) (parent output : Nat) (ws : List Wire)
    (h : setOutputsStore s none parent output ws = .ok s') : LInvS s' := by
  unfold setOutputsStore at h
  split at h
  · cases h
  · rename_i s1 tys h1
    have i1 := linvS_wireUp s s1 hs output ws tys h1
    split at h
    · cases h
    · rename_i pop hpop
      split at h
      · cases h
      · split at h
        · cases h
        · split at h
          · cases h
          · rename_i pop' hso
            refine linvS_setOp s1 s' i1 parent _ ?_ h
            intro op0 h0
            rw [hpop] at h0; injection h0 with h0; subst h0
            obtain ⟨q1, q2⟩ := setOutTypes_static _ _ _ _ hso
            rw [q1, q2]

theorem binv_setOutputsBase (st st' : BuildState) (hb : BInv st) (bi : Nat) (ws : List Wire)
    (h : setOutputsBase st bi ws = .ok st') : BInv st' := by
  unfold setOutputsBase at h
  split at h
  · cases h
  · rename_i r hr
    split at h
    · cases h
    · rename_i s hs
      split at h
      · cases h
      · rename_i s1 h1
        injection h with h; subst h
        rw [ctx_of_dfg r (hb.kinds bi r hr)] at h1
        exact binv_setHugr st r.hid s1 hb (linvS_setOutputsStore s s1 (hb.stores r.hid s hs) _ _ ws h1)

theorem binv_setParentOutputCount (st st' : BuildState) (hb : BInv st) (bi count : Nat)
    (h : setParentOutputCount st bi count = .ok st') : BInv st' := by
  unfold setParentOutputCount at h
  split at h
  · cases h
  · rename_i r hr
    split at h
    · cases h
    · rename_i s hs
      split at h
      · cases h
      · rename_i s1 h1
        injection h with h; subst h
        unfold liftS at h1
        cases hu : Store.updateNodeOuts s r.parent.1 count with
        | error e => simp [hu] at h1
        | ok su =>
          simp only [hu] at h1
          injection h1 with h1; subst h1
          exact binv_setB _ bi _ (binv_setHugr st r.hid su hb
            (linvS_updateNodeOuts s su (hb.stores r.hid s hs) _ _ hu)) (hb.kinds bi r hr)

theorem binv_setOutputsDfg (st st' : BuildState) (hb : BInv st) (bi : Nat) (ws : List Wire)
    (h : setOutputsDfg st bi ws = .ok st') : BInv st' := by
  unfold setOutputsDfg at h
  split at h
  · cases h
  · rename_i st1 hbase
    exact binv_setParentOutputCount st1 st' (binv_setOutputsBase st st1 hb bi ws hbase) bi _ h

theorem binv_setOutputsFunction (st st' : BuildState) (hb : BInv st) (bi : Nat) (ws : List Wire)
    (h : setOutputsFunction st bi ws = .ok st') : BInv st' := by
  unfold setOutputsFunction at h
  split at h
  · cases h
  · split at h
    · cases h
    · split at h
      · cases h
      · exact binv_setOutputsBase st st' hb bi ws h
      · split at h
        · cases h
        · split at h
          · exact binv_setOutputsBase st st' hb bi ws h
          · cases h

theorem binv_setOutputsTailLoop (st st' : BuildState) (hb : BInv st) (bi : Nat) (ws : List Wire)
    (h : setOutputsTailLoop st bi ws = .ok st') : BInv st' := by
  unfold setOutputsTailLoop at h
  split at h
  · cases h
  · rename_i st1 hbase
    have b1 := binv_setOutputsBase st st1 hb bi ws hbase
    split at h
    · cases h
    · split at h
      · cases h
      · split at h
        · cases h
        · split at h
          · cases h
          · split at h
            · exact binv_setParentOutputCount st1 st' b1 bi _ h
            · cases h

theorem binv_condUpdateOutputs (st st' : BuildState) (hb : BInv st) (ci : Nat) (outs : List Ty)
    (h : condUpdateOutputs st ci outs = .ok st') : BInv st' := by
  unfold condUpdateOutputs at h
  split at h
  · cases h
  · rename_i c hc
    split at h
    · cases h
    · rename_i s hs
      split at h
      · cases h
      · rename_i sm oi hcop
        split at h
        · cases h
        · rename_i s1 h1
          have i1 := linvS_setOp s s1 (hb.stores c.hid s hs) _ _ (fun op0 h0 => by
            rw [hcop] at h0; injection h0 with h0; subst h0; rfl) h1
          split at h
          · cases h
          · rename_i s2 h2
            injection h with h; subst h
            unfold liftS at h2
            cases hu : Store.updateNodeOuts s1 c.parent.1 outs.length with
            | error e => simp [hu] at h2
            | ok su =>
              simp only [hu] at h2
              injection h2 with h2; subst h2
              exact binv_setB _ ci _ (binv_setHugr st c.hid su hb (linvS_updateNodeOuts s1 su i1 _ _ hu))
                (hb.kinds ci c hc)
      · split at h
        · injection h with h; subst h; exact hb
        · cases h
      · cases h

theorem binv_setOutputsCase (st st' : BuildState) (hb : BInv st) (bi : Nat) (ws : List Wire)
    (h : setOutputsCase st bi ws = .ok st') : BInv st' := by
  unfold setOutputsCase at h
  split at h
  · cases h
  · rename_i st1 hbase
    have b1 := binv_setOutputsBase st st1 hb bi ws hbase
    split at h
    · cases h
    · split at h
      · injection h with h; subst h; exact b1
      · split at h
        · cases h
        · split at h
          · cases h
          · exact binv_condUpdateOutputs st1 st' b1 _ _ h

theorem binv_setOutputs (st st' : BuildState) (hb : BInv st) (bi : Nat) (ws : List Wire)
    (h : Build.setOutputs st bi ws = .ok st') : BInv st' := by
  unfold Build.setOutputs at h
  split at h
  · cases h
  · rename_i r hr
    have hk := hb.kinds bi r hr
    split at h
    · exact binv_setOutputsDfg st st' hb bi ws h
    · exact binv_setOutputsDfg st st' hb bi ws h
    · exact binv_setOutputsFunction st st' hb bi ws h
    · exact binv_setOutputsCase st st' hb bi ws h
    · exact binv_setOutputsCase st st' hb bi ws h
    · exact binv_setOutputsCase st st' hb bi ws h
    · rename_i hkb; exact absurd hkb hk
    · exact binv_setOutputsTailLoop st st' hb bi ws h
    · cases h

theorem binv_declareOutputs (st st' : BuildState) (hb : BInv st) (bi : Nat) (outs : List Ty)
    (h : declareOutputs st bi outs = .ok st') : BInv st' := by
  unfold declareOutputs at h
  split at h
  · cases h
  · rename_i st1 h1
    have b1 := binv_setParentOutputCount st st1 hb bi _ h1
    split at h
    · cases h
    · rename_i r hr
      split at h
      · cases h
      · rename_i s hs
        split at h
        · cases h
        · rename_i pop hpop
          split at h
          · cases h
          · rename_i pop' hot
            split at h
            · cases h
            · rename_i s1 hso
              injection h with h; subst h
              refine binv_setHugr st1 r.hid s1 b1 (linvS_setOp s s1 (b1.stores r.hid s hs) _ _ ?_ hso)
              intro op0 h0
              rw [hpop] at h0; injection h0 with h0; subst h0
              obtain ⟨q1, q2⟩ := setOutTypes_static _ _ _ _ hot
              rw [q1, q2]

theorem linvS_newNestedStore (s s' : St) (hs : LInvS s) (op : Op) (parent : Nat) (p i o : Build.Handle)
    (h : newNestedStore s op parent = .ok (s', p, i, o)) : LInvS s' := by
  unfold newNestedStore at h
  unfold liftS at h
  cases ha : Store.addNode s op (some parent) none [] with
  | error e => simp [ha] at h
  | ok ra =>
    obtain ⟨sa, na⟩ := ra
    simp only [ha] at h
    split at h
    · cases h
    · rename_i s2 i2 o2 hio
      injection h with h
      have e := (Prod.mk.inj h).1
      subst e
      exact linvS_initIO sa s2 (linvS_addNode s sa hs _ _ _ _ na ha) op na i2 o2 hio

theorem binv_newNestedDf (st st' : BuildState) (hb : BInv st) (kind : BKind) (hk : kind ≠ .block) (hid : Nat) (op : Op)
    (parent : Nat) (pc : Option Nat) (nb : Nat) (h : newNestedDf st kind hid op parent pc = .ok (st', nb)) : BInv st' := by
  unfold newNestedDf at h
  split at h
  · cases h
  · rename_i s hs
    split at h
    · cases h
    · rename_i s1 p i o hst
      injection h with h
      have e := (Prod.mk.inj h).1
      subst e
      exact binv_newB _ _ (binv_setHugr st hid s1 hb
        (linvS_newNestedStore s s1 (hb.stores hid s hs) _ _ p i o hst)) hk

theorem binv_wireInto (st st' : BuildState) (hb : BInv st) (bi node : Nat) (ws : List Wire)
    (h : wireInto st bi node ws = .ok st') : BInv st' := by
  unfold wireInto at h
  split at h
  · cases h
  · rename_i r hr
    split at h
    · cases h
    · rename_i s hs
      split at h
      · cases h
      · rename_i s1 tys1 h1
        injection h with h; subst h
        rw [ctx_of_dfg r (hb.kinds bi r hr)] at h1
        exact binv_setHugr st r.hid s1 hb (linvS_wireUp s s1 (hb.stores r.hid s hs) _ ws tys1 h1)

theorem binv_addNested (st st' : BuildState) (hb : BInv st) (bi nb : Nat) (ws : List Wire)
    (h : addNested st bi ws = .ok (st', nb)) : BInv st' := by
  unfold addNested at h
  split at h
  · cases h
  · split at h
    · cases h
    · split at h
      · cases h
      · rename_i st1 nb1 hn
        have b1 := binv_newNestedDf st st1 hb .dfg (by decide) _ _ _ _ nb1 hn
        split at h
        · cases h
        · split at h
          · cases h
          · rename_i st2 hw
            injection h with h
            have e := (Prod.mk.inj h).1
            subst e
            exact binv_wireInto st1 st2 b1 bi _ ws hw

theorem binv_addTailLoop (st st' : BuildState) (hb : BInv st) (bi nb : Nat) (ji rest : List Wire)
    (h : addTailLoop st bi ji rest = .ok (st', nb)) : BInv st' := by
  unfold addTailLoop at h
  split at h
  · cases h
  · split at h
    · cases h
    · split at h
      · cases h
      · split at h
        · cases h
        · rename_i st1 nb1 hn
          have b1 := binv_newNestedDf st st1 hb .tailLoop (by decide) _ _ _ _ nb1 hn
          split at h
          · cases h
          · split at h
            · cases h
            · rename_i st2 hw
              injection h with h
              have e := (Prod.mk.inj h).1
              subst e
              exact binv_wireInto st1 st2 b1 bi _ _ hw

theorem binv_trackedAdd (st st' : BuildState) (hb : BInv st) (bi : Nat) (op : Op) (args : List ComWire)
    (md : Serial.Meta) (hd : Build.Handle) (h : trackedAdd st bi op args md = .ok (st', hd)) : BInv st' := by
  unfold trackedAdd at h
  split at h
  · cases h
  · split at h
    · cases h
    · rename_i ws _
      split at h
      · cases h
      · rename_i st1 h1 ha
        have b1 := binv_addOp st st1 hb bi op ws md h1 ha
        split at h
        · cases h
        · rename_i r1 hr1
          injection h with h
          have e := (Prod.mk.inj h).1
          subst e
          exact binv_setB st1 bi _ b1 (b1.kinds bi r1 hr1)

theorem binv_addCom (st st' : BuildState) (hb : BInv st) (bi : Nat) (op : Op) (args : List ComWire)
    (md : Serial.Meta) (hd : Build.Handle) (h : addCom st bi op args md = .ok (st', hd)) : BInv st' := by
  unfold addCom at h
  split at h
  · cases h
  · split at h
    · exact binv_trackedAdd st st' hb bi op args md hd h
    · split at h
      · cases h
      · rename_i ws _
        exact binv_addOp st st' hb bi op ws md hd h

theorem binv_extend (bi : Nat) : ∀ (coms : List (Op × List ComWire)) (st st' : BuildState) (hs : List Build.Handle),
    BInv st → Build.extend bi st coms = .ok (st', hs) → BInv st' := by
  intro coms
  induction coms with
  | nil =>
    intro st st' hs hb h
    simp only [Build.extend] at h
    injection h with h
    rw [← (Prod.mk.inj h).1]; exact hb
  | cons c cs ih =>
    intro st st' hs hb h
    obtain ⟨op, args⟩ := c
    simp only [Build.extend] at h
    split at h
    · cases h
    · rename_i st1 h1 ha
      split at h
      · cases h
      · rename_i st2 hs2 he
        injection h with h
        have e := (Prod.mk.inj h).1
        subst e
        exact ih st1 st2 hs2 (binv_addCom st st1 hb bi op args [] h1 ha) he

theorem binv_trackWire (st st' : BuildState) (hb : BInv st) (bi : Nat) (w : Wire) (i : Nat)
    (h : trackWire st bi w = .ok (st', i)) : BInv st' := by
  unfold trackWire at h
  split at h
  · cases h
  · rename_i r hr
    injection h with h
    have e := (Prod.mk.inj h).1
    subst e
    exact binv_setB st bi _ hb (hb.kinds bi r hr)

theorem binv_trackWires (bi : Nat) : ∀ (ws : List Wire) (st st' : BuildState) (is : List Nat),
    BInv st → trackWires bi st ws = .ok (st', is) → BInv st' := by
  intro ws
  induction ws with
  | nil =>
    intro st st' is hb h
    simp only [trackWires] at h
    injection h with h
    rw [← (Prod.mk.inj h).1]; exact hb
  | cons w ws ih =>
    intro st st' is hb h
    simp only [trackWires] at h
    split at h
    · cases h
    · rename_i st1 i1 ht
      split at h
      · cases h
      · rename_i st2 is2 he
        injection h with h
        have e := (Prod.mk.inj h).1
        subst e
        exact ih st1 st2 is2 (binv_trackWire st st1 hb bi w i1 ht) he

theorem binv_untrackWire (st st' : BuildState) (hb : BInv st) (bi i : Nat) (w : Wire)
    (h : untrackWire st bi i = .ok (st', w)) : BInv st' := by
  unfold untrackWire at h
  split at h
  · cases h
  · rename_i r hr
    split at h
    · cases h
    · injection h with h
      have e := (Prod.mk.inj h).1
      subst e
      exact binv_setB st bi _ hb (hb.kinds bi r hr)

theorem binv_setIndexedOutputs (st st' : BuildState) (hb : BInv st) (bi : Nat) (args : List ComWire)
    (h : setIndexedOutputs st bi args = .ok st') : BInv st' := by
  unfold setIndexedOutputs at h
  split at h
  · cases h
  · split at h
    · cases h
    · exact binv_setOutputsDfg st st' hb bi _ h

theorem binv_setTrackedOutputs (st st' : BuildState) (hb : BInv st) (bi : Nat)
    (h : setTrackedOutputs st bi = .ok st') : BInv st' := by
  unfold setTrackedOutputs at h
  split at h
  · cases h
  · exact binv_setOutputsDfg st st' hb bi _ h

theorem linvS_addOrderLink (s s' : St) (hs : LInvS s) (a b : Nat) (h : Store.addOrderLink s a b = .ok s') : LInvS s' := by
  obtain ⟨b1, b2, b3, b4, _⟩ := addOrderLink_loc s s' hs.links a b h
  refine ⟨b1, addOrderLink_free s s' hs.free a b h, ?_, kindInv_addOrderLink s s' hs.links hs.kind a b h,
    liveInv_addOrderLink s s' hs.links hs.live a b h⟩
  refine locInv_step (hframe_of_grow b2 b4) hs.loc ?_
  intro l hm hn hv _
  rcases b3 l hm with h' | h'
  · exact absurd h' hn
  · subst h'; simp at hv


/-! ### conditionals, module-level definitions -/

theorem binv_condCases (hid self root : Nat) : ∀ (n : Nat) (st st' : BuildState) (caseId : Nat)
    (acc cs : List (Nat × Bool)), BInv st → condCases hid self root st caseId n acc = .ok (st', cs) → BInv st' := by
  intro n
  induction n with
  | zero =>
    intro st st' caseId acc cs hb h
    simp only [condCases] at h
    injection h with h
    rw [← (Prod.mk.inj h).1]; exact hb
  | succ n ih =>
    intro st st' caseId acc cs hb h
    simp only [condCases] at h
    split at h
    · cases h
    · split at h
      · cases h
      · split at h
        · cases h
        · split at h
          · cases h
          · rename_i st1 cb hn
            exact ih st1 st' _ _ cs (binv_newNestedDf st st1 hb .case (by decide) _ _ _ _ cb hn) h

theorem binv_condInit (st st' : BuildState) (hb : BInv st) (hid : Nat) (root : Build.Handle) (n ci : Nat)
    (h : condInit st hid root n = .ok (st', ci)) : BInv st' := by
  unfold condInit at h
  simp only [] at h
  split at h
  · cases h
  · rename_i st2 cs hc
    injection h with h
    rw [← (Prod.mk.inj h).1]
    have b1 : BInv (st.newB { kind := .conditional, hid, parent := root }).1 := binv_newB st _ hb (by simp)
    exact binv_setB _ _ _ (binv_condCases hid _ root.1 n _ st2 0 [] cs b1 hc) (by simp)

theorem binv_condNewNested (st st' : BuildState) (hb : BInv st) (hid : Nat) (sm : SumTy) (other : List Ty)
    (parent ci : Nat) (h : condNewNested st hid sm other parent = .ok (st', ci)) : BInv st' := by
  unfold condNewNested at h
  split at h
  · cases h
  · rename_i s hs
    unfold liftS at h
    cases ha : Store.addNode s (.conditional sm other none) (some parent) none [] with
    | error e => simp [ha] at h
    | ok ra =>
      obtain ⟨sa, na⟩ := ra
      simp only [ha] at h
      exact binv_condInit _ st' (binv_setHugr st hid sa hb
        (linvS_addNode s sa (hb.stores hid s hs) _ _ _ _ na ha)) hid _ _ ci h

theorem binv_addConditional (st st' : BuildState) (hb : BInv st) (bi ci : Nat) (ws : List Wire)
    (h : addConditional st bi ws = .ok (st', ci)) : BInv st' := by
  unfold addConditional at h
  split at h
  · cases h
  · split at h
    · cases h
    · split at h
      · cases h
      · split at h
        · cases h
        · rename_i st1 cb hn
          have b1 := binv_condNewNested st st1 hb _ _ _ _ cb hn
          split at h
          · cases h
          · split at h
            · cases h
            · rename_i st2 hw
              injection h with h
              rw [← (Prod.mk.inj h).1]
              exact binv_wireInto st1 st2 b1 bi _ ws hw

theorem binv_addCase (st st' : BuildState) (hb : BInv st) (ci : Nat) (k : Int) (cb : Nat)
    (h : addCase st ci k = .ok (st', cb)) : BInv st' := by
  unfold addCase at h
  split at h
  · cases h
  · rename_i c hc
    split at h
    · cases h
    · split at h
      · cases h
      · split at h
        · cases h
        · injection h with h
          rw [← (Prod.mk.inj h).1]
          exact binv_setB st ci _ hb (hb.kinds ci c hc)

theorem binv_ifElseOf (st st' : BuildState) (hb : BInv st) (kind : BKind) (hk : kind ≠ .block) (cb nb : Nat)
    (h : ifElseOf st kind cb = .ok (st', nb)) : BInv st' := by
  unfold ifElseOf at h
  split at h
  · cases h
  · injection h with h
    rw [← (Prod.mk.inj h).1]
    exact binv_newB st _ hb hk

theorem binv_addIf (st st' : BuildState) (hb : BInv st) (bi nb : Nat) (ws : List Wire)
    (h : addIf st bi ws = .ok (st', nb)) : BInv st' := by
  unfold addIf at h
  split at h
  · cases h
  · rename_i st1 ci h1
    split at h
    · cases h
    · rename_i st2 cb h2
      exact binv_ifElseOf st2 st' (binv_addCase st1 st2 (binv_addConditional st st1 hb bi ci ws h1) ci 1 cb h2)
        .ifB (by decide) cb nb h

theorem binv_addElse (st st' : BuildState) (hb : BInv st) (bi nb : Nat)
    (h : addElse st bi = .ok (st', nb)) : BInv st' := by
  unfold addElse at h
  split at h
  · cases h
  · rename_i ci _
    split at h
    · cases h
    · rename_i st1 cb h1
      exact binv_ifElseOf st1 st' (binv_addCase st st1 hb ci 0 cb h1) .elseB (by decide) cb nb h

theorem binv_addPlainNode (st st' : BuildState) (hb : BInv st) (bi : Nat) (op : Op) (parent : Option Nat)
    (hd : Build.Handle) (h : addPlainNode st bi op parent = .ok (st', hd)) : BInv st' := by
  unfold addPlainNode at h
  split at h
  · cases h
  · rename_i r hr
    split at h
    · cases h
    · rename_i s hs
      unfold liftS at h
      cases ha : Store.addNode s op parent none [] with
      | error e => simp [ha] at h
      | ok ra =>
        obtain ⟨sa, na⟩ := ra
        simp only [ha] at h
        injection h with h
        rw [← (Prod.mk.inj h).1]
        exact binv_setHugr st r.hid sa hb (linvS_addNode s sa (hb.stores r.hid s hs) _ _ _ _ na ha)

theorem binv_addConst (st st' : BuildState) (hb : BInv st) (bi : Nat) (v : Value) (parent : Option Nat)
    (hd : Build.Handle) (h : Build.addConst st bi v parent = .ok (st', hd)) : BInv st' := by
  unfold Build.addConst at h
  split at h
  · cases h
  · rename_i r hr
    split at h
    · cases h
    · rename_i s hs
      unfold liftS at h
      cases ha : Store.addNode s (.const v) parent none [] with
      | error e => simp [ha] at h
      | ok ra =>
        obtain ⟨sa, na⟩ := ra
        simp only [ha] at h
        injection h with h
        rw [← (Prod.mk.inj h).1]
        exact binv_setHugr st r.hid sa hb (linvS_addNode s sa (hb.stores r.hid s hs) _ _ _ _ na ha)

theorem binv_defineFunction (st st' : BuildState) (hb : BInv st) (bi : Nat) (name : String) (ins : List Ty)
    (outs : Option (List Ty)) (params : Option (List TypeParam)) (parent : Option Nat) (fb : Nat)
    (h : defineFunction st bi name ins outs params parent = .ok (st', fb)) : BInv st' := by
  unfold defineFunction at h
  split at h
  · cases h
  · split at h
    · cases h
    · split at h
      · cases h
      · rename_i st1 fb1 hn
        have b1 := binv_newNestedDf st st1 hb .function (by decide) _ _ _ _ fb1 hn
        split at h
        · injection h with h
          rw [← (Prod.mk.inj h).1]; exact b1
        · split at h
          · cases h
          · rename_i st2 hd
            injection h with h
            rw [← (Prod.mk.inj h).1]
            exact binv_declareOutputs st1 st2 b1 fb1 _ hd


/-! ### static edges: `call`, `load`, `load_function` -/

theorem addNode_nodeOp (s s' : St) (hf : FreeInv s) (op : Op) (parent : Option Nat) (k : Option Nat) (md : Serial.Meta)
    (n : Nat) (h : Store.addNode s op parent k md = .ok (s', n)) : nodeOp s' n = .ok op := by
  unfold Store.addNode at h
  obtain ⟨_, ⟨d, hd, hop, _⟩, _⟩ := Store.addNodeRaw_spec s s' hf op _ k md n h
  unfold nodeOp; simp [hd, hop]

theorem functionPortOffset_static (op : Op) (k : Nat) (h : Op.functionPortOffset op = .ok k) : staticIn op = some k := by
  unfold Op.functionPortOffset at h
  split at h
  · injection h with h; subst h; rfl
  · cases h

theorem mkCall_static (sig : Poly) (inst : Option Sig) (targs : Option (List TypeArg)) (op : Op)
    (h : Op.mkCall sig inst targs = .ok op) : ∃ p i a, op = .call p i a := by
  unfold Op.mkCall at h
  simp only [bind, Except.bind, pure, Except.pure] at h
  split at h
  · cases h
  · injection h with h; exact ⟨_, _, _, h.symm⟩

theorem mkLoadFunc_static (sig : Poly) (inst : Option Sig) (targs : Option (List TypeArg)) (op : Op)
    (h : Op.mkLoadFunc sig inst targs = .ok op) : staticIn op = some 0 := by
  unfold Op.mkLoadFunc at h
  simp only [bind, Except.bind, pure, Except.pure] at h
  split at h
  · cases h
  · injection h with h; subst h; rfl

theorem binv_call (st st' : BuildState) (hb : BInv st) (bi func : Nat) (ws : List Wire) (inst : Option Sig)
    (targs : Option (List TypeArg)) (hd : Build.Handle) (h : Build.call st bi func ws inst targs = .ok (st', hd)) :
    BInv st' := by
  unfold Build.call at h
  split at h
  · cases h
  · rename_i r hr
    split at h
    · cases h
    · rename_i s hs
      split at h
      · cases h
      · split at h
        · cases h
        · rename_i cop hcop
          split at h
          · rename_i k fpo hk hf
            have i0 := hb.stores r.hid s hs
            unfold liftS at h
            cases ha : Store.addNode s cop (some r.parent.1) (some k) [] with
            | error e => simp [ha] at h
            | ok ra =>
              obtain ⟨s1, n⟩ := ra
              simp only [ha] at h
              have i1 := linvS_addNode s s1 i0 _ _ _ _ n ha
              have hn := addNode_nodeOp s s1 i0.free _ _ _ _ n ha
              cases hl : Store.addLink s1 (func, 0) (n, (fpo : Int)) with
              | error e => simp [hl] at h
              | ok s2 =>
                simp only [hl] at h
                have i2 := linvS_addStaticLink s1 s2 i1 (func, 0) n fpo ⟨cop, hn, functionPortOffset_static cop fpo hf⟩ (by simp) hl
                split at h
                · cases h
                · rename_i s3 tys hw
                  injection h with h
                  rw [← (Prod.mk.inj h).1]
                  rw [ctx_of_dfg r (hb.kinds bi r hr)] at hw
                  exact binv_setHugr st r.hid s3 hb (linvS_wireUp s2 s3 i2 n ws tys hw)
          · cases h
          · cases h

theorem addOp_static (st st' : BuildState) (hb : BInv st) (bi : Nat) (op : Op) (ws : List Wire) (md : Serial.Meta)
    (hd : Build.Handle) (h : addOp st bi op ws md = .ok (st', hd)) :
    ∃ r s' op', st.getB bi = .ok r ∧ st'.getHugr r.hid = .ok s' ∧ nodeOp s' hd.1 = .ok op' ∧
      staticIn op' = staticIn op := by
  unfold addOp at h
  split at h
  · cases h
  · rename_i r hr
    split at h
    · cases h
    · rename_i s hs
      split at h
      · cases h
      · rename_i s1 n h1
        split at h
        · cases h
        · rename_i s2 tys h2
          split at h
          · cases h
          · split at h
            · cases h
            · injection h with h
              have e1 := (Prod.mk.inj h).1
              have e2 := (Prod.mk.inj h).2
              subst e1; subst e2
              have i0 := hb.stores r.hid s hs
              unfold liftS at h1
              cases ha : Store.addNode s op (some r.parent.1) none md with
              | error e => simp [ha] at h1
              | ok ra =>
                obtain ⟨sa, na⟩ := ra
                simp only [ha] at h1
                injection h1 with h1
                have e1 := (Prod.mk.inj h1).1
                have e2 := (Prod.mk.inj h1).2
                subst e1; subst e2
                have i1 := linvS_addNode s sa i0 _ _ _ _ na ha
                have hn := addNode_nodeOp s sa i0.free _ _ _ _ na ha
                rw [ctx_of_dfg r (hb.kinds bi r hr)] at h2
                obtain ⟨_, F, _⟩ := wireUp_loc sa s2 i1.links i1.loc na ws tys h2
                obtain ⟨op', e', q'⟩ := F.stat na op hn
                refine ⟨r, s2, op', hr, ?_, e', q'⟩
                have hlt := getHugr_lt st r.hid s hs
                unfold BuildState.getHugr BuildState.setHugr
                simp [hlt]

theorem addCom_static (st st' : BuildState) (hb : BInv st) (bi : Nat) (op : Op) (args : List ComWire)
    (md : Serial.Meta) (hd : Build.Handle) (h : addCom st bi op args md = .ok (st', hd)) :
    ∃ r s' op', st.getB bi = .ok r ∧ st'.getHugr r.hid = .ok s' ∧ nodeOp s' hd.1 = .ok op' ∧
      staticIn op' = staticIn op := by
  unfold addCom at h
  split at h
  · cases h
  · split at h
    · unfold trackedAdd at h
      split at h
      · cases h
      · split at h
        · cases h
        · rename_i ws _
          split at h
          · cases h
          · rename_i st1 h1 ha
            split at h
            · cases h
            · injection h with h
              have e1 := (Prod.mk.inj h).1
              have e2 := (Prod.mk.inj h).2
              subst e1; subst e2
              exact addOp_static st st1 hb bi op ws md h1 ha
    · split at h
      · cases h
      · rename_i ws _
        exact addOp_static st st' hb bi op ws md hd h

theorem binv_loadConstNode (st st' : BuildState) (hb : BInv st) (bi c : Nat) (hd : Build.Handle)
    (h : loadConstNode st bi c = .ok (st', hd)) : BInv st' := by
  unfold loadConstNode at h
  split at h
  · cases h
  · rename_i r hr
    split at h
    · cases h
    · split at h
      · cases h
      · split at h
        · rename_i v
          split at h
          · cases h
          · rename_i st1 h1 ha
            have b1 := binv_addCom st st1 hb bi _ [] [] h1 ha
            obtain ⟨r', s1', op', e1, e2, e3, e4⟩ := addCom_static st st1 hb bi _ [] [] h1 ha
            rw [hr] at e1; injection e1 with e1; subst e1
            split at h
            · cases h
            · rename_i s1 hs1
              rw [e2] at hs1; injection hs1 with hs1; subst hs1
              unfold liftS at h
              cases hl : Store.addLink s1' (c, 0) (h1.1, 0) with
              | error e => simp [hl] at h
              | ok s2 =>
                simp only [hl] at h
                injection h with h
                rw [← (Prod.mk.inj h).1]
                have hl' : Store.addLink s1' (c, 0) (h1.1, ((0 : Nat) : Int)) = .ok s2 := by simpa using hl
                exact binv_setHugr st1 r.hid s2 b1
                  (linvS_addStaticLink s1' s2 (b1.stores r.hid s1' e2) (c, 0) h1.1 0 ⟨op', e3, by rw [e4]; rfl⟩ (by simp) hl')
        · cases h

theorem binv_loadValue (st st' : BuildState) (hb : BInv st) (bi : Nat) (v : Value) (cp : Option Nat)
    (hd : Build.Handle) (h : loadValue st bi v cp = .ok (st', hd)) : BInv st' := by
  unfold loadValue at h
  split at h
  · cases h
  · split at h
    · cases h
    · rename_i st1 c hc
      exact binv_loadConstNode st1 st' (binv_addConst st st1 hb bi v _ c hc) bi c.1 hd h

theorem binv_loadFunction (st st' : BuildState) (hb : BInv st) (bi func : Nat) (inst : Option Sig)
    (targs : Option (List TypeArg)) (hd : Build.Handle) (h : Build.loadFunction st bi func inst targs = .ok (st', hd)) :
    BInv st' := by
  unfold Build.loadFunction at h
  split at h
  · cases h
  · rename_i r hr
    split at h
    · cases h
    · rename_i s hs
      split at h
      · cases h
      · split at h
        · cases h
        · rename_i lop hlop
          have i0 := hb.stores r.hid s hs
          unfold liftS at h
          cases ha : Store.addNode s lop (some r.parent.1) none [] with
          | error e => simp [ha] at h
          | ok ra =>
            obtain ⟨s1, n⟩ := ra
            simp only [ha] at h
            have i1 := linvS_addNode s s1 i0 _ _ _ _ n ha
            have hn := addNode_nodeOp s s1 i0.free _ _ _ _ n ha
            cases hl : Store.addLink s1 (func, 0) (n, 0) with
            | error e => simp [hl] at h
            | ok s2 =>
              simp only [hl] at h
              injection h with h
              rw [← (Prod.mk.inj h).1]
              have hl' : Store.addLink s1 (func, 0) (n, ((0 : Nat) : Int)) = .ok s2 := by simpa using hl
              exact binv_setHugr st r.hid s2 hb
                (linvS_addStaticLink s1 s2 i1 (func, 0) n 0 ⟨lop, hn, mkLoadFunc_static _ _ _ lop hlop⟩ (by simp) hl')

/-! ### commands and programs -/

/-- the sub-language: every builder family whose wiring is `DfBase._wire_up_port` — dataflow graphs, functions and
    modules (definitions, declarations, constants, aliases), conditionals and if / else, tail loops, tracked dataflow
    graphs, `call` / `load` / `load_function`, nested to any depth.  NOT in it: control-flow graphs and basic blocks
    (their `_wire_up_port` admits dominator edges) and the `insert_*` family (`insert_hugr` copies the links of
    another HUGR).  The static edges `call` / `load` / `load_function` add (into the function port of a `Call`, port 0
    of a `LoadConstant` / `LoadFunction`) are exempt from the locality statement: the builders do not check them. -/
def InL : Cmd → Prop
  | .newDfg .. | .newFunction .. | .newTailLoop .. | .newTracked .. => True
  | .addOp .. | .add .. | .extend .. => True
  | .addNested .. | .addTailLoop .. => True
  | .setOutputs .. | .setLoopOutputs .. | .declareOutputs .. | .addStateOrder .. => True
  | .trackWire .. | .trackWires .. | .trackInputs .. | .untrackWire .. | .trackedWire .. => True
  | .setIndexedOutputs .. | .setTrackedOutputs .. | .toJson .. => True
  | .newModule .. | .newConditional .. => True
  | .addConditional .. | .addCase .. | .addIf .. | .addElse .. | .exitConditional .. => True
  | .defineFunction .. | .defineMain .. | .declareFunction .. => True
  | .addConst .. | .addAliasDefn .. | .addAliasDecl .. => True
  | .call .. | .load .. | .loadFunction .. => True
  | _ => False
theorem retB_ok {b : String} {x : Except BuildErr (BuildState × Nat)} {st' : BuildState} {res : Result}
    (h : retB b x = .ok (st', res)) : ∃ st1 bi, x = .ok (st1, bi) ∧ st' = st1.bindB b bi := by
  unfold retB at h
  split at h
  · cases h
  · rename_i st1 bi
    injection h with h
    exact ⟨st1, bi, rfl, ((Prod.mk.inj h).1).symm⟩

theorem retN_ok {n : String} {x : Except BuildErr (BuildState × Build.Handle)} {st' : BuildState} {res : Result}
    (h : retN n x = .ok (st', res)) : ∃ st1 hd, x = .ok (st1, hd) ∧ st' = st1.bindN n hd := by
  unfold retN at h
  split at h
  · cases h
  · rename_i st1 hd
    injection h with h
    exact ⟨st1, hd, rfl, ((Prod.mk.inj h).1).symm⟩

theorem retU_ok {x : Except BuildErr BuildState} {st' : BuildState} {res : Result}
    (h : retU x = .ok (st', res)) : x = .ok st' := by
  unfold retU at h
  split at h
  · cases h
  · injection h with h
    rw [(Prod.mk.inj h).1]

theorem binv_bindNodes : ∀ (ns : List String) (hs : List Build.Handle) (st : BuildState),
    BInv st → BInv (bindNodes st ns hs) := by
  intro ns
  induction ns with
  | nil => intro hs st hb; cases hs <;> exact hb
  | cons n ns ih =>
    intro hs st hb
    cases hs with
    | nil => exact hb
    | cons x xs => exact ih xs _ (binv_bindN _ _ _ hb)

theorem step_binv (enc : String) (st st' : BuildState) (c : Cmd) (res : Result) (hc : InL c) (hb : BInv st)
    (h : step enc st c = .ok (st', res)) : BInv st' := by
  cases c <;> simp only [InL] at hc
  case newDfg b tys =>
    simp only [step] at h
    obtain ⟨st1, bi, e1, e2⟩ := retB_ok h
    subst e2
    exact binv_bindB _ _ _ (binv_newStandaloneDf st st1 hb _ (by decide) _ bi e1)
  case newFunction b name ins params =>
    simp only [step] at h
    obtain ⟨st1, bi, e1, e2⟩ := retB_ok h
    subst e2
    exact binv_bindB _ _ _ (binv_newStandaloneDf st st1 hb _ (by decide) _ bi e1)
  case newTailLoop b ji rest =>
    simp only [step] at h
    obtain ⟨st1, bi, e1, e2⟩ := retB_ok h
    subst e2
    exact binv_bindB _ _ _ (binv_newStandaloneDf st st1 hb _ (by decide) _ bi e1)
  case newTracked b tys ti =>
    simp only [step] at h
    split at h
    · cases h
    · rename_i st1 bi h1
      have b1 := binv_newStandaloneDf st st1 hb _ (by decide) _ bi h1
      split at h
      · split at h
        · rename_i ws r _ hr
          injection h with h
          rw [← (Prod.mk.inj h).1]
          exact binv_bindB _ _ _ (binv_setB st1 bi _ b1 (b1.kinds bi r hr))
        · cases h
        · cases h
      · injection h with h
        rw [← (Prod.mk.inj h).1]
        exact binv_bindB _ _ _ b1
  case addOp b n op args md =>
    simp only [step] at h
    split at h
    · cases h
    · split at h
      · cases h
      · rename_i ws _
        obtain ⟨st1, hd, e1, e2⟩ := retN_ok h
        subst e2
        exact binv_bindN _ _ _ (binv_addOp st st1 hb _ op ws md hd e1)
  case add b n op args md =>
    simp only [step] at h
    split at h
    · cases h
    · split at h
      · cases h
      · rename_i ws _
        obtain ⟨st1, hd, e1, e2⟩ := retN_ok h
        subst e2
        exact binv_bindN _ _ _ (binv_addCom st st1 hb _ op ws md hd e1)
  case extend b ns coms =>
    simp only [step] at h
    split at h
    · cases h
    · split at h
      · cases h
      · split at h
        · cases h
        · split at h
          · cases h
          · rename_i st1 hs he
            injection h with h
            rw [← (Prod.mk.inj h).1]
            exact binv_bindNodes ns hs st1 (binv_extend _ _ st st1 hs hb he)
  case addNested b nb args =>
    simp only [step] at h
    split at h
    · cases h
    · split at h
      · cases h
      · rename_i ws _
        obtain ⟨st1, bi, e1, e2⟩ := retB_ok h
        subst e2
        exact binv_bindB _ _ _ (binv_addNested st st1 hb _ bi ws e1)
  case addTailLoop b nb ji rest =>
    simp only [step] at h
    split at h
    · cases h
    · split at h
      · rename_i a c _ _
        obtain ⟨st1, bi, e1, e2⟩ := retB_ok h
        subst e2
        exact binv_bindB _ _ _ (binv_addTailLoop st st1 hb _ bi a c e1)
      · cases h
      · cases h
  case setOutputs b args =>
    simp only [step] at h
    split at h
    · cases h
    · split at h
      · cases h
      · rename_i ws _
        exact binv_setOutputs st st' hb _ ws (retU_ok h)
  case setLoopOutputs b w args =>
    simp only [step] at h
    split at h
    · cases h
    · split at h
      · cases h
      · rename_i ws _
        exact binv_setOutputsTailLoop st st' hb _ ws (retU_ok h)
  case declareOutputs b outs =>
    simp only [step] at h
    split at h
    · cases h
    · exact binv_declareOutputs st st' hb _ outs (retU_ok h)
  case addStateOrder b src dst =>
    simp only [step] at h
    split at h
    · cases h
    · rename_i bi r hbo
      split at h
      · rename_i a c _ _
        split at h
        · cases h
        · rename_i s hs
          split at h
          · cases h
          · rename_i s1 h1
            injection h with h
            rw [← (Prod.mk.inj h).1]
            unfold liftS at h1
            cases ho : Store.addOrderLink s a.1 c.1 with
            | error e => simp [ho] at h1
            | ok so =>
              simp only [ho] at h1
              injection h1 with h1; subst h1
              exact binv_setHugr st r.hid so hb (linvS_addOrderLink s so (hb.stores r.hid s hs) _ _ ho)
      · cases h
      · cases h
  case trackWire b w =>
    simp only [step] at h
    split at h
    · cases h
    · split at h
      · cases h
      · split at h
        · cases h
        · rename_i st1 i ht
          injection h with h
          rw [← (Prod.mk.inj h).1]
          exact binv_trackWire st st1 hb _ _ i ht
  case trackWires b ws =>
    simp only [step] at h
    split at h
    · cases h
    · split at h
      · cases h
      · split at h
        · cases h
        · rename_i st1 is ht
          injection h with h
          rw [← (Prod.mk.inj h).1]
          exact binv_trackWires _ _ st st1 is hb ht
  case trackInputs b =>
    simp only [step] at h
    split at h
    · cases h
    · split at h
      · cases h
      · split at h
        · cases h
        · rename_i st1 is ht
          injection h with h
          rw [← (Prod.mk.inj h).1]
          exact binv_trackWires _ _ st st1 is hb ht
  case untrackWire b i =>
    simp only [step] at h
    split at h
    · cases h
    · split at h
      · cases h
      · rename_i st1 w ht
        injection h with h
        rw [← (Prod.mk.inj h).1]
        exact binv_untrackWire st st1 hb _ i w ht
  case trackedWire b i =>
    simp only [step] at h
    split at h
    · cases h
    · split at h
      · cases h
      · injection h with h
        rw [← (Prod.mk.inj h).1]; exact hb
  case setIndexedOutputs b args =>
    simp only [step] at h
    split at h
    · cases h
    · split at h
      · cases h
      · exact binv_setIndexedOutputs st st' hb _ _ (retU_ok h)
  case setTrackedOutputs b =>
    simp only [step] at h
    split at h
    · cases h
    · exact binv_setTrackedOutputs st st' hb _ (retU_ok h)
  case toJson b =>
    simp only [step] at h
    split at h
    · cases h
    · split at h
      · cases h
      · injection h with h
        rw [← (Prod.mk.inj h).1]; exact hb

  case newModule b =>
    simp only [step] at h
    injection h with h
    rw [← (Prod.mk.inj h).1]
    exact binv_bindB _ _ _ (binv_newB _ _ (binv_newHugr st _ hb (linvS_init .module [])) (by simp))
  case newConditional b sm other =>
    simp only [step] at h
    obtain ⟨st1, bi, e1, e2⟩ := retB_ok h
    subst e2
    exact binv_bindB _ _ _ (binv_condInit _ st1 (binv_newHugr st _ hb (linvS_init _ [])) _ _ _ bi e1)
  case addConditional b nb w args =>
    simp only [step] at h
    split at h
    · cases h
    · split at h
      · cases h
      · rename_i ws _
        obtain ⟨st1, bi, e1, e2⟩ := retB_ok h
        subst e2
        exact binv_bindB _ _ _ (binv_addConditional st st1 hb _ bi ws e1)
  case addIf b nb w args =>
    simp only [step] at h
    split at h
    · cases h
    · split at h
      · cases h
      · rename_i ws _
        obtain ⟨st1, bi, e1, e2⟩ := retB_ok h
        subst e2
        exact binv_bindB _ _ _ (binv_addIf st st1 hb _ bi ws e1)
  case addElse b nb =>
    simp only [step] at h
    split at h
    · cases h
    · obtain ⟨st1, bi, e1, e2⟩ := retB_ok h
      subst e2
      exact binv_bindB _ _ _ (binv_addElse st st1 hb _ bi e1)
  case addCase c nb k =>
    simp only [step] at h
    split at h
    · cases h
    · obtain ⟨st1, bi, e1, e2⟩ := retB_ok h
      subst e2
      exact binv_bindB _ _ _ (binv_addCase st st1 hb _ k bi e1)
  case exitConditional c =>
    simp only [step] at h
    split at h
    · cases h
    · split at h
      · cases h
      · injection h with h
        rw [← (Prod.mk.inj h).1]; exact hb
  case defineFunction b nb name ins outs params parent =>
    simp only [step] at h
    split at h
    · cases h
    · split at h
      · cases h
      · obtain ⟨st1, bi, e1, e2⟩ := retB_ok h
        subst e2
        exact binv_bindB _ _ _ (binv_defineFunction st st1 hb _ _ _ _ _ _ bi e1)
  case defineMain b nb ins =>
    simp only [step] at h
    split at h
    · cases h
    · obtain ⟨st1, bi, e1, e2⟩ := retB_ok h
      subst e2
      exact binv_bindB _ _ _ (binv_defineFunction st st1 hb _ _ _ _ _ _ bi e1)
  case declareFunction b n name sig =>
    simp only [step] at h
    split at h
    · cases h
    · obtain ⟨st1, hd, e1, e2⟩ := retN_ok h
      subst e2
      exact binv_bindN _ _ _ (binv_addPlainNode st st1 hb _ _ _ hd e1)
  case addConst b n v parent =>
    simp only [step] at h
    split at h
    · cases h
    · split at h
      · cases h
      · obtain ⟨st1, hd, e1, e2⟩ := retN_ok h
        subst e2
        exact binv_bindN _ _ _ (binv_addConst st st1 hb _ _ _ hd e1)
  case addAliasDefn b n name t parent =>
    simp only [step] at h
    split at h
    · cases h
    · split at h
      · cases h
      · obtain ⟨st1, hd, e1, e2⟩ := retN_ok h
        subst e2
        exact binv_bindN _ _ _ (binv_addPlainNode st st1 hb _ _ _ hd e1)
  case addAliasDecl b n name bd =>
    simp only [step] at h
    split at h
    · cases h
    · obtain ⟨st1, hd, e1, e2⟩ := retN_ok h
      subst e2
      exact binv_bindN _ _ _ (binv_addPlainNode st st1 hb _ _ _ hd e1)

  case call b n f args inst targs =>
    simp only [step] at h
    split at h
    · cases h
    · split at h
      · cases h
      · split at h
        · cases h
        · obtain ⟨st1, hd, e1, e2⟩ := retN_ok h
          subst e2
          exact binv_bindN _ _ _ (binv_call st st1 hb _ _ _ _ _ hd e1)
  case load b n src =>
    simp only [step] at h
    split at h
    · cases h
    · split at h
      · split at h
        · cases h
        · obtain ⟨st1, hd, e1, e2⟩ := retN_ok h
          subst e2
          exact binv_bindN _ _ _ (binv_loadValue st st1 hb _ _ _ hd e1)
      · split at h
        · cases h
        · obtain ⟨st1, hd, e1, e2⟩ := retN_ok h
          subst e2
          exact binv_bindN _ _ _ (binv_loadConstNode st st1 hb _ _ hd e1)
  case loadFunction b n f inst targs =>
    simp only [step] at h
    split at h
    · cases h
    · split at h
      · cases h
      · obtain ⟨st1, hd, e1, e2⟩ := retN_ok h
        subst e2
        exact binv_bindN _ _ _ (binv_loadFunction st st1 hb _ _ _ _ hd e1)

theorem run_binv (enc : String) : ∀ (cmds : List Cmd) (st st' : BuildState),
    (∀ c ∈ cmds, InL c) → BInv st → run enc st cmds = .ok st' → BInv st' := by
  intro cmds
  induction cmds with
  | nil => intro st st' _ hb h; simp only [run] at h; injection h with h; subst h; exact hb
  | cons c cs ih =>
    intro st st' hL hb h
    simp only [run] at h
    split at h
    · cases h
    · rename_i st1 res hs
      exact ih st1 st' (fun c' hc' => hL c' (List.mem_cons_of_mem _ hc'))
        (step_binv enc st st1 c res (hL c List.mem_cons_self) hb hs) h

theorem binv_empty : BInv {} := by
  refine ⟨?_, ?_⟩
  · intro hid s h; simp [BuildState.getHugr] at h
  · intro bi r h; simp [BuildState.getB] at h

end HugrVerif.BuildLocal
