import HugrVerif.Proofs.BuildLocal
import HugrVerif.Build

namespace HugrVerif.BuildLocal
open HugrVerif HugrVerif.Build HugrVerif.Build.BuildState HugrVerif.Store

/-- the invariant of a builder state whose builders are all plain dataflow-graph builders -/
structure BInv (st : BuildState) : Prop where
  stores : ∀ hid s, st.getHugr hid = .ok s → LInvS s
  kinds : ∀ bi r, st.getB bi = .ok r → r.kind = .dfg

theorem ctx_of_dfg (r : BRec) (h : r.kind = .dfg) : r.ctx = none := by simp [BRec.ctx, h]

theorem getHugr_lt (st : BuildState) (hid : Nat) (s : St) (h : st.getHugr hid = .ok s) : hid < st.hugrs.length := by
  unfold BuildState.getHugr at h
  rcases Nat.lt_or_ge hid st.hugrs.length with h1 | h1
  · exact h1
  · simp [List.getElem?_eq_none h1] at h

theorem getHugr_setHugr' (st : BuildState) (hid hid' : Nat) (s x : St) (h : (st.setHugr hid s).getHugr hid' = .ok x) :
    (hid' = hid ∧ x = s) ∨ st.getHugr hid' = .ok x := by
  unfold BuildState.getHugr BuildState.setHugr at h
  unfold BuildState.getHugr
  simp only [List.getElem?_set] at h
  by_cases e : hid = hid'
  · subst e
    by_cases hl : hid < st.hugrs.length
    · simp [hl] at h; exact .inl ⟨rfl, h.symm⟩
    · have : st.hugrs[hid]? = none := List.getElem?_eq_none (by omega)
      simp [hl] at h
  · simp only [e, if_false] at h; exact .inr h

theorem binv_setHugr (st : BuildState) (hid : Nat) (s : St) (hb : BInv st) (hs : LInvS s) : BInv (st.setHugr hid s) := by
  refine ⟨?_, fun bi r h => hb.kinds bi r h⟩
  intro hid' x hx
  rcases getHugr_setHugr' st hid hid' s x hx with ⟨_, e⟩ | h
  · subst e; exact hs
  · exact hb.stores hid' x h

theorem binv_newHugr (st : BuildState) (s : St) (hb : BInv st) (hs : LInvS s) : BInv (st.newHugr s).1 := by
  refine ⟨?_, fun bi r h => hb.kinds bi r h⟩
  intro hid x hx
  unfold BuildState.newHugr BuildState.getHugr at hx
  simp only [List.getElem?_append] at hx
  by_cases hl : hid < st.hugrs.length
  · simp only [hl, if_true] at hx; exact hb.stores hid x hx
  · simp only [hl, if_false] at hx
    by_cases h0 : hid - st.hugrs.length = 0
    · simp [h0] at hx; subst hx; exact hs
    · have : ([s] : List St)[hid - st.hugrs.length]? = none := by
        apply List.getElem?_eq_none; simp; omega
      simp [this] at hx

theorem binv_newB (st : BuildState) (r : BRec) (hb : BInv st) (hk : r.kind = .dfg) : BInv (st.newB r).1 := by
  refine ⟨fun hid s h => hb.stores hid s h, ?_⟩
  intro bi x hx
  unfold BuildState.newB BuildState.getB at hx
  simp only [List.getElem?_append] at hx
  by_cases hl : bi < st.builders.length
  · simp only [hl, if_true] at hx; exact hb.kinds bi x hx
  · simp only [hl, if_false] at hx
    by_cases h0 : bi - st.builders.length = 0
    · simp [h0] at hx; subst hx; exact hk
    · have : ([r] : List BRec)[bi - st.builders.length]? = none := by
        apply List.getElem?_eq_none; simp; omega
      simp [this] at hx

theorem binv_setB (st : BuildState) (bi : Nat) (r : BRec) (hb : BInv st) (hk : r.kind = .dfg) : BInv (st.setB bi r) := by
  refine ⟨fun hid s h => hb.stores hid s h, ?_⟩
  intro bj x hx
  unfold BuildState.setB BuildState.getB at hx
  simp only [List.getElem?_set] at hx
  by_cases e : bi = bj
  · subst e
    by_cases hl : bi < st.builders.length
    · simp [hl] at hx; subst hx; exact hk
    · have : st.builders[bi]? = none := List.getElem?_eq_none (by omega)
      simp [hl] at hx
  · simp only [e, if_false] at hx; exact hb.kinds bj x hx

theorem binv_bindB (st : BuildState) (b : String) (bi : Nat) (hb : BInv st) : BInv (st.bindB b bi) :=
  ⟨fun hid s h => hb.stores hid s h, fun bi r h => hb.kinds bi r h⟩
theorem binv_bindN (st : BuildState) (n : String) (h : Build.Handle) (hb : BInv st) : BInv (st.bindN n h) :=
  ⟨fun hid s h => hb.stores hid s h, fun bi r h => hb.kinds bi r h⟩

/-! ### the store-level steps of the commands -/

theorem linvS_initIO (s s' : St) (hs : LInvS s) (op : Op) (p : Nat) (i o : Build.Handle)
    (h : initIO s op p = .ok (s', i, o)) : LInvS s' := by
  unfold initIO at h
  split at h
  · cases h
  · rename_i ins _
    unfold liftS at h
    cases h1 : Store.addNode s (.input ins) (some p) (some ins.length) [] with
    | error e => simp [h1] at h
    | ok r1 =>
      obtain ⟨s1, n1⟩ := r1
      simp only [h1] at h
      cases h2 : Store.addNode s1 (.output none) (some p) none [] with
      | error e => simp [h2] at h
      | ok r2 =>
        obtain ⟨s2, n2⟩ := r2
        simp only [h2] at h
        injection h with h
        have e : s2 = s' := (Prod.mk.inj h).1
        subst e
        exact linvS_addNode s1 s2 (linvS_addNode s s1 hs _ _ _ _ n1 h1) _ _ _ _ n2 h2

theorem binv_newStandaloneDf (st st' : BuildState) (hb : BInv st) (op : Op) (bi : Nat)
    (h : newStandaloneDf st .dfg op = .ok (st', bi)) : BInv st' := by
  unfold newStandaloneDf at h
  simp only [] at h
  split at h
  · cases h
  · rename_i s i o hio
    injection h with h
    have e := (Prod.mk.inj h).1
    subst e
    exact binv_newB _ _ (binv_newHugr st s hb (linvS_initIO _ s (linvS_init op []) op _ i o hio)) rfl

theorem binv_addOp (st st' : BuildState) (hb : BInv st) (bi : Nat) (op : Op) (ws : List Wire) (md : Serial.Meta)
    (hd : Build.Handle) (h : addOp st bi op ws md = .ok (st', hd)) : BInv st' := by
  unfold addOp at h
  split at h
  · cases h
  · rename_i r hr
    split at h
    · cases h
    · rename_i s hs
      split at h
      · cases h
      · rename_i s1 n h1
        split at h
        · cases h
        · rename_i s2 tys h2
          split at h
          · cases h
          · split at h
            · cases h
            · injection h with h
              have e := (Prod.mk.inj h).1
              subst e
              have i0 := hb.stores r.hid s hs
              unfold liftS at h1
              cases ha : Store.addNode s op (some r.parent.1) none md with
              | error e => simp [ha] at h1
              | ok ra =>
                obtain ⟨sa, na⟩ := ra
                simp only [ha] at h1
                injection h1 with h1
                have e1 := (Prod.mk.inj h1).1
                have e2 := (Prod.mk.inj h1).2
                subst e1; subst e2
                have i1 := linvS_addNode s sa i0 _ _ _ _ na ha
                rw [ctx_of_dfg r (hb.kinds bi r hr)] at h2
                exact binv_setHugr st r.hid s2 hb (linvS_wireUp sa s2 i1 na ws tys h2)

theorem linvS_setOutputsStore (s s' : St) (hs : LInvS s) (parent output : Nat) (ws : List Wire)
    (h : setOutputsStore s none parent output ws = .ok s') : LInvS s' := by
  unfold setOutputsStore at h
  split at h
  · cases h
  · rename_i s1 tys h1
    have i1 := linvS_wireUp s s1 hs output ws tys h1
    split at h
    · cases h
    · split at h
      · cases h
      · split at h
        · cases h
        · split at h
          · cases h
          · exact linvS_setOp s1 s' i1 parent _ h

theorem binv_setOutputsDfg (st st' : BuildState) (hb : BInv st) (bi : Nat) (ws : List Wire)
    (h : setOutputsDfg st bi ws = .ok st') : BInv st' := by
  unfold setOutputsDfg at h
  split at h
  · cases h
  · rename_i st1 hbase
    have b1 : BInv st1 := by
      unfold setOutputsBase at hbase
      split at hbase
      · cases hbase
      · rename_i r hr
        split at hbase
        · cases hbase
        · rename_i s hs
          split at hbase
          · cases hbase
          · rename_i s1 h1
            injection hbase with hbase; subst hbase
            rw [ctx_of_dfg r (hb.kinds bi r hr)] at h1
            exact binv_setHugr st r.hid s1 hb (linvS_setOutputsStore s s1 (hb.stores r.hid s hs) _ _ ws h1)
    unfold setParentOutputCount at h
    split at h
    · cases h
    · rename_i r hr
      split at h
      · cases h
      · rename_i s hs
        split at h
        · cases h
        · rename_i s1 h1
          injection h with h; subst h
          unfold liftS at h1
          cases hu : Store.updateNodeOuts s r.parent.1 ws.length with
          | error e => simp [hu] at h1
          | ok su =>
            simp only [hu] at h1
            injection h1 with h1; subst h1
            exact binv_setB _ bi _ (binv_setHugr st1 r.hid su b1
              (linvS_updateNodeOuts s su (b1.stores r.hid s hs) _ _ hu)) (b1.kinds bi r hr)

theorem linvS_newNestedStore (s s' : St) (hs : LInvS s) (op : Op) (parent : Nat) (p i o : Build.Handle)
    (h : newNestedStore s op parent = .ok (s', p, i, o)) : LInvS s' := by
  unfold newNestedStore at h
  unfold liftS at h
  cases ha : Store.addNode s op (some parent) none [] with
  | error e => simp [ha] at h
  | ok ra =>
    obtain ⟨sa, na⟩ := ra
    simp only [ha] at h
    split at h
    · cases h
    · rename_i s2 i2 o2 hio
      injection h with h
      have e := (Prod.mk.inj h).1
      subst e
      exact linvS_initIO sa s2 (linvS_addNode s sa hs _ _ _ _ na ha) op na i2 o2 hio

theorem binv_addNested (st st' : BuildState) (hb : BInv st) (bi nb : Nat) (ws : List Wire)
    (h : addNested st bi ws = .ok (st', nb)) : BInv st' := by
  unfold addNested at h
  split at h
  · cases h
  · rename_i r hr
    split at h
    · cases h
    · rename_i tys _
      split at h
      · cases h
      · rename_i st1 nb1 hn
        have b1 : BInv st1 := by
          unfold newNestedDf at hn
          split at hn
          · cases hn
          · rename_i s hs
            split at hn
            · cases hn
            · rename_i s1 p i o hst
              injection hn with hn
              have e := (Prod.mk.inj hn).1
              subst e
              exact binv_newB _ _ (binv_setHugr st r.hid s1 hb
                (linvS_newNestedStore s s1 (hb.stores r.hid s hs) _ _ p i o hst)) rfl
        split at h
        · cases h
        · rename_i nr hnr
          split at h
          · cases h
          · rename_i st2 hw
            injection h with h
            have e := (Prod.mk.inj h).1
            subst e
            unfold wireInto at hw
            split at hw
            · cases hw
            · rename_i r2 hr2
              split at hw
              · cases hw
              · rename_i s hs
                split at hw
                · cases hw
                · rename_i s1 tys1 h1
                  injection hw with hw; subst hw
                  rw [ctx_of_dfg r2 (b1.kinds bi r2 hr2)] at h1
                  exact binv_setHugr st1 r2.hid s1 b1 (linvS_wireUp s s1 (b1.stores r2.hid s hs) _ ws tys1 h1)


/-! ### commands and programs -/

/-- the sub-language: plain dataflow-graph builders — `Dfg(...)`, `add_op`, `add_nested` (any depth),
    `set_outputs` -/
def InL : Cmd → Prop
  | .newDfg .. => True
  | .addOp .. => True
  | .addNested .. => True
  | .setOutputs .. => True
  | _ => False

theorem retB_ok {b : String} {x : Except BuildErr (BuildState × Nat)} {st' : BuildState} {res : Result}
    (h : retB b x = .ok (st', res)) : ∃ st1 bi, x = .ok (st1, bi) ∧ st' = st1.bindB b bi := by
  unfold retB at h
  split at h
  · cases h
  · rename_i st1 bi
    injection h with h
    exact ⟨st1, bi, rfl, ((Prod.mk.inj h).1).symm⟩

theorem retN_ok {n : String} {x : Except BuildErr (BuildState × Build.Handle)} {st' : BuildState} {res : Result}
    (h : retN n x = .ok (st', res)) : ∃ st1 hd, x = .ok (st1, hd) ∧ st' = st1.bindN n hd := by
  unfold retN at h
  split at h
  · cases h
  · rename_i st1 hd
    injection h with h
    exact ⟨st1, hd, rfl, ((Prod.mk.inj h).1).symm⟩

theorem retU_ok {x : Except BuildErr BuildState} {st' : BuildState} {res : Result}
    (h : retU x = .ok (st', res)) : x = .ok st' := by
  unfold retU at h
  split at h
  · cases h
  · injection h with h
    rw [(Prod.mk.inj h).1]

theorem step_binv (enc : String) (st st' : BuildState) (c : Cmd) (res : Result) (hc : InL c) (hb : BInv st)
    (h : step enc st c = .ok (st', res)) : BInv st' := by
  cases c <;> simp only [InL] at hc
  case newDfg b tys =>
    simp only [step] at h
    obtain ⟨st1, bi, e1, e2⟩ := retB_ok h
    subst e2
    exact binv_bindB _ _ _ (binv_newStandaloneDf st st1 hb _ bi e1)
  case addOp b n op args md =>
    simp only [step] at h
    split at h
    · cases h
    · split at h
      · cases h
      · rename_i ws _
        obtain ⟨st1, hd, e1, e2⟩ := retN_ok h
        subst e2
        exact binv_bindN _ _ _ (binv_addOp st st1 hb _ op ws md hd e1)
  case addNested b nb args =>
    simp only [step] at h
    split at h
    · cases h
    · split at h
      · cases h
      · rename_i ws _
        obtain ⟨st1, bi, e1, e2⟩ := retB_ok h
        subst e2
        exact binv_bindB _ _ _ (binv_addNested st st1 hb _ bi ws e1)
  case setOutputs b args =>
    simp only [step] at h
    split at h
    · cases h
    · rename_i bi r hbo
      split at h
      · cases h
      · rename_i ws _
        have e1 := retU_ok h
        unfold Build.setOutputs at e1
        split at e1
        · cases e1
        · rename_i r' hr'
          rw [hb.kinds bi r' hr'] at e1
          exact binv_setOutputsDfg st st' hb bi ws e1

theorem run_binv (enc : String) : ∀ (cmds : List Cmd) (st st' : BuildState),
    (∀ c ∈ cmds, InL c) → BInv st → run enc st cmds = .ok st' → BInv st' := by
  intro cmds
  induction cmds with
  | nil => intro st st' _ hb h; simp only [run] at h; injection h with h; subst h; exact hb
  | cons c cs ih =>
    intro st st' hL hb h
    simp only [run] at h
    split at h
    · cases h
    · rename_i st1 res hs
      exact ih st1 st' (fun c' hc' => hL c' (List.mem_cons_of_mem _ hc'))
        (step_binv enc st st1 c res (hL c List.mem_cons_self) hb hs) h

theorem binv_empty : BInv {} := by
  refine ⟨?_, ?_⟩
  · intro hid s h; simp [BuildState.getHugr] at h
  · intro bi r h; simp [BuildState.getB] at h

end HugrVerif.BuildLocal
