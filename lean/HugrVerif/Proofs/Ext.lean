/-
  Lemmas about the extension model (`HugrVerif/Ext.lean`) for property C10:
  the relations `SetEq / ExtEq`, well-formedness, the round trip `decExt (encExt e)`, the canonical
  document, and the ownership invariant of operation definitions.
-/
import HugrVerif.Ext
import HugrVerif.Proofs.TysCodec

set_option linter.unusedSimpArgs false
set_option linter.unusedVariables false

namespace HugrVerif.Ext
open HugrVerif HugrVerif.Codec HugrVerif.Py

/-! ### sets written as lists -/

/-- two lists with the same members (how set-typed requirement lists are compared) -/
def SetEq (a b : List String) : Prop := ∀ x, x ∈ a ↔ x ∈ b

theorem SetEq.refl (a : List String) : SetEq a a := fun _ => Iff.rfl
theorem SetEq.symm {a b : List String} (h : SetEq a b) : SetEq b a := fun x => (h x).symm
theorem SetEq.trans {a b c : List String} (h1 : SetEq a b) (h2 : SetEq b c) : SetEq a c :=
  fun x => (h1 x).trans (h2 x)

/-- adding a member that is already there does not change the set -/
theorem SetEq.union_of_mem (so : SetOrd) (r : List String) (n : String) (h : n ∈ r) : SetEq (so.union r [n]) r := by
  intro x
  rw [so.mem_union]
  constructor
  · rintro (h' | h')
    · exact h'
    · simp at h'; subst h'; exact h
  · exact Or.inl

theorem mem_union_self (so : SetOrd) (r : List String) (n : String) : n ∈ so.union r [n] := by
  rw [so.mem_union]; exact Or.inr (by simp)

theorem SetEq.union_nil (so : SetOrd) (r : List String) : SetEq (so.union r []) r := by
  intro x; rw [so.mem_union]; simp

/-! ### `sortDedup`: a canonical enumeration -/

theorem mem_insertSorted (x y : String) (l : List String) : y ∈ insertSorted x l ↔ y = x ∨ y ∈ l := by
  induction l with
  | nil => simp [insertSorted]
  | cons z zs ih =>
    unfold insertSorted
    by_cases h1 : x < z
    · simp [h1]
    · by_cases h2 : x = z
      · subst h2; simp [h1]
      · simp only [h1, h2, if_false, List.mem_cons, ih]
        constructor
        · rintro (h | h | h)
          · exact Or.inr (Or.inl h)
          · exact Or.inl h
          · exact Or.inr (Or.inr h)
        · rintro (h | h | h)
          · exact Or.inr (Or.inl h)
          · exact Or.inl h
          · exact Or.inr (Or.inr h)

theorem mem_sortDedup (l : List String) (y : String) : y ∈ sortDedup l ↔ y ∈ l := by
  induction l with
  | nil => simp [sortDedup]
  | cons x xs ih =>
    have : sortDedup (x :: xs) = insertSorted x (sortDedup xs) := rfl
    rw [this, mem_insertSorted, ih, List.mem_cons]

/-- strictly increasing -/
def StrictSorted (l : List String) : Prop := l.Pairwise (· < ·)

theorem strictSorted_insertSorted (x : String) (l : List String) (h : StrictSorted l) :
    StrictSorted (insertSorted x l) := by
  induction l with
  | nil => simp [insertSorted, StrictSorted]
  | cons z zs ih =>
    unfold insertSorted
    have hz : ∀ a ∈ zs, z < a := (List.pairwise_cons.1 h).1
    have hzs : StrictSorted zs := (List.pairwise_cons.1 h).2
    by_cases h1 : x < z
    · simp only [h1, if_true]
      refine List.pairwise_cons.2 ⟨?_, h⟩
      intro a ha
      rcases List.mem_cons.1 ha with rfl | ha'
      · exact h1
      · exact String.lt_trans h1 (hz a ha')
    · by_cases h2 : x = z
      · subst h2; rw [if_neg h1, if_pos rfl]; exact h
      · simp only [h1, h2, if_false]
        refine List.pairwise_cons.2 ⟨?_, ih hzs⟩
        intro a ha
        rcases (mem_insertSorted x a zs).1 ha with rfl | ha'
        · have : z ≤ a := String.not_lt.mp h1
          exact Std.lt_of_le_of_ne this (fun e => h2 e.symm)
        · exact hz a ha'

theorem strictSorted_sortDedup (l : List String) : StrictSorted (sortDedup l) := by
  induction l with
  | nil => simp [sortDedup, StrictSorted]
  | cons x xs ih => exact strictSorted_insertSorted x _ ih

/-- a strictly increasing list is determined by its members -/
theorem StrictSorted.eq_of_setEq : ∀ (a b : List String), StrictSorted a → StrictSorted b → SetEq a b → a = b
  | [], [], _, _, _ => rfl
  | [], y :: ys, _, _, h => by have := (h y).2 (by simp); simp at this
  | x :: xs, [], _, _, h => by have := (h x).1 (by simp); simp at this
  | x :: xs, y :: ys, ha, hb, h => by
    have hx : ∀ a ∈ xs, x < a := (List.pairwise_cons.1 ha).1
    have hy : ∀ a ∈ ys, y < a := (List.pairwise_cons.1 hb).1
    have hxy : x = y := by
      have h1 : x ∈ y :: ys := (h x).1 (by simp)
      have h2 : y ∈ x :: xs := (h y).2 (by simp)
      rcases List.mem_cons.1 h1 with e | h1'
      · exact e
      · rcases List.mem_cons.1 h2 with e | h2'
        · exact e.symm
        · exact absurd (hx y h2') (String.lt_asymm (hy x h1'))
    subst hxy
    have hrest : SetEq xs ys := by
      intro a
      constructor
      · intro haxs
        have := (h a).1 (List.mem_cons_of_mem _ haxs)
        rcases List.mem_cons.1 this with e | h'
        · subst e; exact absurd (hx a haxs) (String.lt_irrefl a)
        · exact h'
      · intro hays
        have := (h a).2 (List.mem_cons_of_mem _ hays)
        rcases List.mem_cons.1 this with e | h'
        · subst e; exact absurd (hy a hays) (String.lt_irrefl a)
        · exact h'
    rw [StrictSorted.eq_of_setEq xs ys (List.pairwise_cons.1 ha).2 (List.pairwise_cons.1 hb).2 hrest]

/-- **`sortDedup` is canonical**: it depends only on the set of members. -/
theorem sortDedup_eq_of_setEq {a b : List String} (h : SetEq a b) : sortDedup a = sortDedup b := by
  apply StrictSorted.eq_of_setEq _ _ (strictSorted_sortDedup a) (strictSorted_sortDedup b)
  intro x
  rw [mem_sortDedup, mem_sortDedup]
  exact h x

theorem sortDedup_setEq (a : List String) : SetEq (sortDedup a) a := fun x => mem_sortDedup a x

theorem strsOf?_map_str (r : List String) : strsOf? (r.map Json.str) = some r := by
  induction r with
  | nil => rfl
  | cons x xs ih => simp [strsOf?, ih]

theorem sortSet_encStrs (r : List String) : sortSet (encStrs r) = encStrs (sortDedup r) := by
  simp [sortSet, encStrs, strsOf?_map_str]

/-! ### more about `Py.Dict` -/

theorem Dict.set_set {α β : Type} [DecidableEq α] (k : α) (v w : β) (d : Dict α β) :
    Dict.set k w (Dict.set k v d) = Dict.set k w d := by
  induction d with
  | nil => simp [Dict.set]
  | cons hd t ih =>
    obtain ⟨a, b⟩ := hd
    by_cases h : a = k
    · simp [Dict.set, h]
    · simp [Dict.set, h, ih]

theorem Dict.mem_set {α β : Type} [DecidableEq α] (k : α) (v : β) (d : Dict α β) (kv : α × β)
    (h : kv ∈ Dict.set k v d) : kv = (k, v) ∨ kv ∈ d := by
  induction d with
  | nil => simp [Dict.set] at h; exact Or.inl h
  | cons hd t ih =>
    obtain ⟨a, b⟩ := hd
    by_cases hak : a = k
    · simp [Dict.set, hak] at h
      rcases h with h | h
      · subst hak; exact Or.inl h
      · exact Or.inr (List.mem_cons_of_mem _ h)
    · simp [Dict.set, hak] at h
      rcases h with h | h
      · exact Or.inr (by rw [h]; exact List.mem_cons_self)
      · rcases ih h with h' | h'
        · exact Or.inl h'
        · exact Or.inr (List.mem_cons_of_mem _ h')

theorem Dict.get_set_self {α β : Type} [DecidableEq α] (k : α) (v : β) (d : Dict α β) :
    Dict.get k (Dict.set k v d) = some v := by
  rw [Dict.get_set]; simp

/-! ### ownership of operation definitions -/

/-- every operation definition held by `e` reports `e` as its owner and, when it has a type scheme,
    names `e` among the scheme's runtime requirements -/
def OwnsOps (e : Extension) : Prop :=
  ∀ ko ∈ e.operations, ko.2.owner = some e.name ∧ ∀ p, ko.2.sig.poly = some p → e.name ∈ p.reqs

theorem ownsOps_new (name version : String) (reqs : List String) : OwnsOps (Extension.new name version reqs) := by
  intro ko h; simp [Extension.new] at h

theorem addOpDef_name (so : SetOrd) (e : Extension) (od : OpDef) : (addOpDef so e od).1.name = e.name := rfl
theorem addTypeDef_name (e : Extension) (td : TypeDef) : (addTypeDef e td).1.name = e.name := rfl
theorem addExtensionValue_name (e : Extension) (v : ExtValue) : (addExtensionValue e v).1.name = e.name := rfl

/-- what `add_op_def` returns: owned by `e`, `e` among the requirements of its type scheme -/
theorem addOpDef_result (so : SetOrd) (e : Extension) (od : OpDef) :
    (addOpDef so e od).2.owner = some e.name ∧
    (∀ p, (addOpDef so e od).2.sig.poly = some p → e.name ∈ p.reqs) ∧
    (addOpDef so e od).2.sig.binary = od.sig.binary ∧
    (od.sig.poly = none → (addOpDef so e od).2.sig = od.sig) := by
  refine ⟨rfl, ?_, ?_, ?_⟩
  · intro p hp
    simp only [addOpDef] at hp
    cases hpoly : od.sig.poly with
    | none => simp [hpoly] at hp
    | some q =>
      simp [hpoly, Poly.withReqs] at hp
      subst hp
      exact mem_union_self so q.reqs e.name
  · simp only [addOpDef]; cases od.sig.poly <;> rfl
  · intro h; simp only [addOpDef, h]

/-- the definition is stored under its name -/
theorem addOpDef_get (so : SetOrd) (e : Extension) (od : OpDef) :
    Dict.get od.name (addOpDef so e od).1.operations = some (addOpDef so e od).2 := by
  simp only [addOpDef]; exact Dict.get_set_self _ _ _

theorem addOpDef_owns (so : SetOrd) (e : Extension) (od : OpDef) (h : OwnsOps e) : OwnsOps (addOpDef so e od).1 := by
  intro ko hko
  have hmem : ko ∈ Dict.set od.name (addOpDef so e od).2 e.operations := hko
  rcases Dict.mem_set _ _ _ _ hmem with rfl | h'
  · exact ⟨(addOpDef_result so e od).1, (addOpDef_result so e od).2.1⟩
  · exact h ko h'

theorem addTypeDef_owns (e : Extension) (td : TypeDef) (h : OwnsOps e) : OwnsOps (addTypeDef e td).1 := h
theorem addExtensionValue_owns (e : Extension) (v : ExtValue) (h : OwnsOps e) : OwnsOps (addExtensionValue e v).1 := h

theorem registerOp_owns (so : SetOrd) (e : Extension) (clsName : String) (clsDoc name : Option String)
    (sig : Option Poly ⊕ OpDefSig) (description : Option String) (misc : Option (List (String × Json)))
    (h : OwnsOps e) : OwnsOps (registerOp so e clsName clsDoc name sig description misc).1 :=
  addOpDef_owns so e _ h

/-- extensions built with the public API from a fresh `Extension(name, version, reqs)` -/
inductive Reachable (so : SetOrd) : Extension → Prop
  | new (name version : String) (reqs : List String) : Reachable so (Extension.new name version reqs)
  | addType {e} (td : TypeDef) : Reachable so e → Reachable so (addTypeDef e td).1
  | addOp {e} (od : OpDef) : Reachable so e → Reachable so (addOpDef so e od).1
  | addValue {e} (v : ExtValue) : Reachable so e → Reachable so (addExtensionValue e v).1
  | register {e} (clsName : String) (clsDoc name : Option String) (sig : Option Poly ⊕ OpDefSig)
      (description : Option String) (misc : Option (List (String × Json))) :
      Reachable so e → Reachable so (registerOp so e clsName clsDoc name sig description misc).1

theorem Reachable.owns {so : SetOrd} {e : Extension} (h : Reachable so e) : OwnsOps e := by
  induction h with
  | new n v r => exact ownsOps_new n v r
  | addType td _ ih => exact ih
  | addOp od _ ih => exact addOpDef_owns so _ od ih
  | addValue v _ ih => exact ih
  | register c d n s ds m _ ih => exact registerOp_owns so _ c d n s ds m ih

/-! loading -/

theorem loadTypes_ops : ∀ (l : List (String × TypeDef)) (e e' : Extension), loadTypes e l = .ok e' →
    e'.operations = e.operations ∧ e'.name = e.name
  | [], e, e', h => by simp [loadTypes, pure, Except.pure] at h; subst h; exact ⟨rfl, rfl⟩
  | (k, t) :: rest, e, e', h => by
    unfold loadTypes at h
    by_cases hk : k ≠ t.name
    · simp [hk, throw, throwThe, MonadExceptOf.throw] at h
    · simp only [hk, if_false] at h
      have := loadTypes_ops rest _ e' h
      exact this

theorem loadValues_ops : ∀ (l : List (String × ExtValue)) (e e' : Extension), loadValues e l = .ok e' →
    e'.operations = e.operations ∧ e'.name = e.name
  | [], e, e', h => by simp [loadValues, pure, Except.pure] at h; subst h; exact ⟨rfl, rfl⟩
  | (k, t) :: rest, e, e', h => by
    unfold loadValues at h
    by_cases hk : k ≠ t.name
    · simp [hk, throw, throwThe, MonadExceptOf.throw] at h
    · simp only [hk, if_false] at h
      have := loadValues_ops rest _ e' h
      exact this

theorem deserOpDef_owns (so : SetOrd) (e e1 : Extension) (r : RawOpDef) (od : OpDef)
    (h : deserOpDef so e r = .ok (e1, od)) (ho : OwnsOps e) : OwnsOps e1 ∧ e1.name = e.name := by
  unfold deserOpDef at h
  cases hs : OpDefSig.new (r.signature.map fun p => p.withReqs so [e.name]) r.binary with
  | error err => simp [hs, throw, throwThe, MonadExceptOf.throw] at h
  | ok sig =>
    simp only [hs, pure, Except.pure, Except.ok.injEq] at h
    have h1 := congrArg Prod.fst h
    simp only at h1
    subst h1
    exact ⟨addOpDef_owns so e _ ho, rfl⟩

theorem loadOps_owns (so : SetOrd) : ∀ (l : List (String × RawOpDef)) (e e' : Extension), loadOps so e l = .ok e' →
    OwnsOps e → OwnsOps e'
  | [], e, e', h, ho => by simp [loadOps, pure, Except.pure] at h; subst h; exact ho
  | (k, o) :: rest, e, e', h, ho => by
    unfold loadOps at h
    by_cases hk : k ≠ o.name
    · simp [hk, throw, throwThe, MonadExceptOf.throw] at h
    · simp only [hk, if_false] at h
      cases hd : deserOpDef so e o with
      | error err => simp [hd, throw, throwThe, MonadExceptOf.throw] at h
      | ok pr =>
        obtain ⟨e1, od⟩ := pr
        simp only [hd] at h
        have := deserOpDef_owns so e e1 o od hd ho
        exact loadOps_owns so rest _ e' h (addOpDef_owns so e1 od this.1)

/-- **Every extension that `from_json` / `_load_extension` returns owns its operation definitions**
    — for every document, not only those `to_json` writes. -/
theorem decExt_owns (so : SetOrd) (fnSig : Json → Except DecErr (List Ty × List Ty × List String)) (fuel : Nat)
    (j : Json) (e : Extension) (h : decExt so fnSig fuel j = .ok e) : OwnsOps e := by
  unfold decExt at h
  cases hv : validate fnSig fuel j with
  | error err => simp [hv, throw, throwThe, MonadExceptOf.throw] at h
  | ok r =>
    simp only [hv] at h
    unfold deserialize at h
    cases h1 : loadTypes (Extension.new r.name r.version (so.union r.runtimeReqs [])) r.types with
    | error err => simp [h1, throw, throwThe, MonadExceptOf.throw] at h
    | ok e1 =>
      simp only [h1] at h
      cases h2 : loadOps so e1 r.operations with
      | error err => simp [h2, throw, throwThe, MonadExceptOf.throw] at h
      | ok e2 =>
        simp only [h2] at h
        have o1 : OwnsOps e1 := by
          intro ko hko
          rw [(loadTypes_ops _ _ _ h1).1] at hko
          simp [Extension.new] at hko
        have o2 : OwnsOps e2 := loadOps_owns so _ _ _ h2 o1
        have := loadValues_ops _ _ _ h
        intro ko hko
        rw [this.1] at hko
        rw [this.2]
        exact o2 ko hko

/-! ### equality of extensions up to what a reload may change -/

/-- pointwise relation of two dicts: same keys in the same order, related values -/
def DictRel {α β : Type} (R : α → β → Prop) : List (String × α) → List (String × β) → Prop
  | [], [] => True
  | (k, a) :: as, (l, b) :: bs => k = l ∧ R a b ∧ DictRel R as bs
  | _, _ => False

theorem DictRel.map_right {α β : Type} (R : α → β → Prop) (f : α → β) :
    ∀ (d : List (String × α)), (∀ kv ∈ d, R kv.2 (f kv.2)) → DictRel R d (d.map fun kv => (kv.1, f kv.2))
  | [], _ => trivial
  | (k, a) :: rest, h => by
    refine ⟨rfl, h (k, a) List.mem_cons_self, ?_⟩
    exact DictRel.map_right R f rest (fun kv hkv => h kv (List.mem_cons_of_mem _ hkv))

/-- what decoding makes of a type scheme: extension types in opaque form (`Ty.norm`) -/
def normPoly (p : Poly) : Poly := { p with inp := Ty.normRow p.inp, out := Ty.normRow p.out }

/-- same parameters, same rows up to the opaque form of extension types, same requirement *set* -/
def PolyEq (p p' : Poly) : Prop :=
  p'.params = p.params ∧ p'.inp = Ty.normRow p.inp ∧ p'.out = Ty.normRow p.out ∧ SetEq p'.reqs p.reqs

def PolyOptEq : Option Poly → Option Poly → Prop
  | none, none => True
  | some p, some p' => PolyEq p p'
  | _, _ => False

/-- same owner, name, description, misc, binary flag, and type scheme (`PolyEq`) -/
def OpDefEq (o o' : OpDef) : Prop :=
  o'.owner = o.owner ∧ o'.name = o.name ∧ o'.description = o.description ∧ o'.misc = o.misc ∧
  o'.sig.binary = o.sig.binary ∧ PolyOptEq o.sig.poly o'.sig.poly

/-- same owner and name, and the same serialised value -/
def ValEq (v v' : ExtValue) : Prop :=
  v'.owner = v.owner ∧ v'.name = v.name ∧ encVal v'.val = encVal v.val

/-- **Equality of extensions as far as C10 claims it**: name, version, requirements as a set, every
    type definition (exactly: owner, name, description, parameters, bound), every operation
    definition (`OpDefEq`) and every value (`ValEq`), under the same keys in the same order. -/
structure ExtEq (e e' : Extension) : Prop where
  name : e'.name = e.name
  version : e'.version = e.version
  reqs : SetEq e'.runtimeReqs e.runtimeReqs
  types : e'.types = e.types
  ops : DictRel OpDefEq e.operations e'.operations
  values : DictRel ValEq e.values e'.values

/-- the value layer's round trip for one value (the value codec is C05/C14's): it serialises, the
    document decodes, and the decoded value serialises to the same document -/
def ValRT (fnSig : Json → Except DecErr (List Ty × List Ty × List String)) (fuel : Nat) (v : Value) : Prop :=
  ∃ j v', encVal v = .ok j ∧ decVal fnSig fuel j = .ok v' ∧ encVal v' = .ok j

/-- Well-formed extension (what the public API maintains, plus serialisability):
    keys are the definitions' names, every definition is owned by the extension, an operation
    definition without type scheme is binary (`OpDefSig.__init__`), a type scheme names the
    extension among its requirements (`add_op_def`), can be serialised and is within the fuel, and
    every value satisfies `P`. -/
structure WellFormedWith (P : Value → Prop) (fuel : Nat) (e : Extension) : Prop where
  typeKeys : Dict.NodupKeys e.types
  opKeys : Dict.NodupKeys e.operations
  valueKeys : Dict.NodupKeys e.values
  types : ∀ kt ∈ e.types, kt.1 = kt.2.name ∧ kt.2.owner = some e.name ∧ TypeParam.depthList kt.2.params ≤ fuel
  ops : ∀ ko ∈ e.operations, ko.1 = ko.2.name ∧ ko.2.owner = some e.name ∧
    (ko.2.sig.poly = none → ko.2.sig.binary = true) ∧
    ∀ p, ko.2.sig.poly = some p → e.name ∈ p.reqs ∧ (∃ j, encTy p.toTy = .ok j) ∧ p.toTy.depth ≤ fuel
  values : ∀ kv ∈ e.values, kv.1 = kv.2.name ∧ kv.2.owner = some e.name ∧ P kv.2.val

theorem WellFormedWith.mono {P Q : Value → Prop} {fuel : Nat} {e : Extension} (hPQ : ∀ v, P v → Q v)
    (h : WellFormedWith P fuel e) : WellFormedWith Q fuel e :=
  { h with values := fun kv hkv => ⟨(h.values kv hkv).1, (h.values kv hkv).2.1, hPQ _ (h.values kv hkv).2.2⟩ }

/-- well-formed, every value satisfying the value layer's round trip `ValRT` -/
abbrev WellFormed (fnSig : Json → Except DecErr (List Ty × List Ty × List String)) (fuel : Nat)
    (e : Extension) : Prop := WellFormedWith (ValRT fnSig fuel) fuel e

/-! ### the documents `encExt` writes (total forms, for the proofs only) -/

def typeDefJson (o : String) (td : TypeDef) : Json :=
  .obj [("extension", .str o), ("name", .str td.name), ("description", .str td.description),
    ("params", .arr (encParams td.params)), ("bound", encDefBound td.bound)]

def opDefJson (o : String) (od : OpDef) (s : Json) : Json :=
  .obj [("extension", .str o), ("name", .str od.name), ("description", .str od.description),
    ("misc", .obj od.misc), ("signature", s), ("binary", .bool od.sig.binary), ("lower_funcs", .arr [])]

def valueJson (o name : String) (jv : Json) : Json :=
  .obj [("extension", .str o), ("name", .str name), ("typed_value", jv)]

def sigJ (s : Option Poly) : Json := match encSig s with | .ok j => j | .error _ => .null
def valJ (v : Value) : Json := match encVal v with | .ok j => j | .error _ => .null

def docJson (e : Extension) (ts vs os : List (String × Json)) : Json :=
  .obj [("version", .str e.version), ("name", .str e.name), ("runtime_reqs", encStrs e.runtimeReqs),
    ("types", .obj ts), ("values", .obj vs), ("operations", .obj os)]

theorem encTypeDef_ok (o : String) (td : TypeDef) (h : td.owner = some o) :
    encTypeDef td = .ok (typeDefJson o td) := by
  simp [encTypeDef, h, typeDefJson, pure, Except.pure]

theorem encOpDef_ok (o : String) (od : OpDef) (s : Json) (h : od.owner = some o) (hs : encSig od.sig.poly = .ok s) :
    encOpDef od = .ok (opDefJson o od s) := by
  simp [encOpDef, h, hs, opDefJson, pure, Except.pure]

theorem encExtValue_ok (o : String) (v : ExtValue) (jv : Json) (h : v.owner = some o) (hv : encVal v.val = .ok jv) :
    encExtValue v = .ok (valueJson o v.name jv) := by
  simp [encExtValue, h, hv, valueJson, pure, Except.pure]

theorem encSig_sigJ (s : Option Poly) (j : Json) (h : encSig s = .ok j) : sigJ s = j := by
  simp [sigJ, h]

theorem encVal_valJ (v : Value) (j : Json) (h : encVal v = .ok j) : valJ v = j := by
  simp [valJ, h]

theorem encEntries_ok {α : Type} (f : α → Except Err Json) (g : α → Json) :
    ∀ (d : List (String × α)), (∀ kv ∈ d, f kv.2 = .ok (g kv.2)) →
      encEntries f d = .ok (d.map fun kv => (kv.1, g kv.2))
  | [], _ => rfl
  | (k, a) :: rest, h => by
    have h1 := h (k, a) List.mem_cons_self
    have h2 := encEntries_ok f g rest (fun kv hkv => h kv (List.mem_cons_of_mem _ hkv))
    simp only at h1
    simp [encEntries, h1, h2, pure, Except.pure]

theorem encExt_eq (e : Extension) (ts vs os : List (String × Json))
    (h1 : encEntries encTypeDef e.types = .ok ts) (h2 : encEntries encExtValue e.values = .ok vs)
    (h3 : encEntries encOpDef e.operations = .ok os) : encExt e = .ok (docJson e ts vs os) := by
  simp [encExt, h1, h2, h3, docJson, pure, Except.pure]

/-! ### decoding what `encExt` wrote -/

theorem decDefBound_enc (b : DefBound) : decDefBound (encDefBound b) = .ok b := by
  cases b with
  | explicit b => cases b <;> simp [decDefBound, encDefBound, asObj, req, field, asStr, decBound, encBound, bind, Except.bind, pure, Except.pure]
  | fromParams is =>
    have : (is.map Json.int).mapM asInt = .ok is := ExceptList.mapM_map_inv Json.int asInt is (fun _ _ => rfl)
    simp [decDefBound, encDefBound, asObj, req, field, asStr, asArr, bind, Except.bind, pure, Except.pure, this]

theorem decTypeDef_json (o : String) (td : TypeDef) (fuel : Nat) (h : TypeParam.depthList td.params ≤ fuel) :
    decTypeDef fuel (typeDefJson o td) = .ok { td with owner := none } := by
  have hp := mapM_decParam_encParams td.params fuel h
  simp [decTypeDef, typeDefJson, asObj, req, field, asStr, asArr, bind, Except.bind, pure, Except.pure, hp,
    decDefBound_enc]

theorem decPolyP_enc (p : Poly) (j : Json) (fuel : Nat) (h : encTy p.toTy = .ok j) (hd : p.toTy.depth ≤ fuel) :
    decPolyP fuel j = .ok (normPoly p) := by
  have := decPoly_encTy p.params p.inp p.out p.reqs j fuel h hd
  simp [decPolyP, this, Ty.norm, normPoly, bind, Except.bind, pure, Except.pure]


/-- the validated form of an operation definition `to_json` wrote -/
def rawOf (od : OpDef) : RawOpDef :=
  { name := od.name, description := od.description, misc := some od.misc,
    signature := od.sig.poly.map normPoly, binary := od.sig.binary }

theorem liftD_ok {α : Type} (a : α) : liftD (Except.ok a : Except DecErr α) = .ok a := rfl

theorem decOpDef_json (o : String) (od : OpDef) (s : Json) (fuel : Nat) (hs : encSig od.sig.poly = .ok s)
    (hd : ∀ p, od.sig.poly = some p → p.toTy.depth ≤ fuel) :
    decOpDef fuel (opDefJson o od s) = .ok (rawOf od) := by
  cases hp : od.sig.poly with
  | none =>
    simp [hp, encSig, pure, Except.pure] at hs
    subst hs
    simp [decOpDef, opDefJson, rawOf, hp, liftD, asObj, req, field, asStr, bind, Except.bind, pure, Except.pure]
  | some p =>
    simp only [hp, encSig] at hs
    cases he : encTy p.toTy with
    | error err => simp [he, throw, throwThe, MonadExceptOf.throw] at hs
    | ok j =>
      simp [he, pure, Except.pure] at hs
      subst hs
      obtain ⟨ji, jo, _, _, rfl⟩ := (encTy_poly_ok p.params p.inp p.out p.reqs j).1 he
      have hdec := decPolyP_enc p _ fuel he (hd p hp)
      simp only [polyJson] at hdec
      simp [decOpDef, opDefJson, rawOf, hp, liftD, asObj, req, field, asStr, bind, Except.bind, pure, Except.pure,
        polyJson, hdec]

theorem decExtValue_json (fnSig : Json → Except DecErr (List Ty × List Ty × List String)) (fuel : Nat)
    (o name : String) (jv : Json) (v' : Value) (h : decVal fnSig fuel jv = .ok v') :
    decExtValue fnSig fuel (valueJson o name jv) = .ok { owner := none, name := name, val := v' } := by
  simp [decExtValue, valueJson, asObj, req, field, asStr, bind, Except.bind, pure, Except.pure, h]

theorem decEntries_map {α β : Type} (f : Json → Except Err β) (g : α → Json) (h : α → β) :
    ∀ (d : List (String × α)), (∀ kv ∈ d, f (g kv.2) = .ok (h kv.2)) →
      decEntries f (d.map fun kv => (kv.1, g kv.2)) = .ok (d.map fun kv => (kv.1, h kv.2))
  | [], _ => rfl
  | (k, a) :: rest, hh => by
    have h1 := hh (k, a) List.mem_cons_self
    have h2 := decEntries_map f g h rest (fun kv hkv => hh kv (List.mem_cons_of_mem _ hkv))
    simp only at h1
    simp [decEntries, h1, h2, pure, Except.pure]


/-! ### `validate` and the three loading loops -/

theorem validate_docJson (fnSig : Json → Except DecErr (List Ty × List Ty × List String)) (fuel : Nat)
    (e : Extension) (ts vs os : List (String × Json)) (rt : List (String × TypeDef))
    (rv : List (String × ExtValue)) (ro : List (String × RawOpDef))
    (h1 : decEntries (fun j => liftD (decTypeDef fuel j)) ts = .ok rt)
    (h2 : decEntries (fun j => liftD (decExtValue fnSig fuel j)) vs = .ok rv)
    (h3 : decEntries (decOpDef fuel) os = .ok ro) :
    validate fnSig fuel (docJson e ts vs os) =
      .ok { version := e.version, name := e.name, runtimeReqs := e.runtimeReqs, types := rt, values := rv, operations := ro } := by
  simp [validate, docJson, liftD_ok, asObj, req, field, asStr, decStrs_encStrs, bind, Except.bind, pure, Except.pure,
    h1, h2, h3]

theorem keys_snoc_nodup {α : Type} (d : Dict String α) (k : String) (a a' : α) (rest : Dict String α)
    (h : Dict.NodupKeys (d ++ (k, a) :: rest)) : Dict.NodupKeys ((d ++ [(k, a')]) ++ rest) ∧ k ∉ Dict.keys d := by
  unfold Dict.NodupKeys at *
  simp only [Dict.keys_append, Dict.keys_cons, Dict.keys_nil, List.append_assoc, List.cons_append, List.nil_append] at *
  refine ⟨h, ?_⟩
  intro hk
  have := (List.nodup_append.1 h).2.2 k hk k (by simp)
  exact this rfl

theorem loadTypes_eq : ∀ (l : List (String × TypeDef)) (e : Extension), Dict.NodupKeys (e.types ++ l) →
    (∀ kt ∈ l, kt.1 = kt.2.name) →
    loadTypes e l = .ok { e with types := e.types ++ l.map fun kt => (kt.1, { kt.2 with owner := some e.name }) }
  | [], e, _, _ => by simp [loadTypes, pure, Except.pure]
  | (k, t) :: rest, e, hn, hk => by
    have hkt : k = t.name := hk (k, t) List.mem_cons_self
    obtain ⟨hn', hnot⟩ := keys_snoc_nodup e.types k t { t with owner := some e.name } rest hn
    unfold loadTypes
    simp only [hkt, ne_eq, not_true_eq_false, if_false]
    have he2 : (addTypeDef (addTypeDef e t).1 (addTypeDef e t).2).1 =
        { e with types := e.types ++ [(k, { t with owner := some e.name })] } := by
      simp only [addTypeDef, Dict.set_set]
      rw [Dict.set_of_not_mem _ _ _ (hkt ▸ hnot), hkt]
    rw [he2, loadTypes_eq rest _ hn' (fun kt h => hk kt (List.mem_cons_of_mem _ h))]
    simp [hkt]

theorem loadValues_eq : ∀ (l : List (String × ExtValue)) (e : Extension), Dict.NodupKeys (e.values ++ l) →
    (∀ kv ∈ l, kv.1 = kv.2.name) →
    loadValues e l = .ok { e with values := e.values ++ l.map fun kv => (kv.1, { kv.2 with owner := some e.name }) }
  | [], e, _, _ => by simp [loadValues, pure, Except.pure]
  | (k, t) :: rest, e, hn, hk => by
    have hkt : k = t.name := hk (k, t) List.mem_cons_self
    obtain ⟨hn', hnot⟩ := keys_snoc_nodup e.values k t { t with owner := some e.name } rest hn
    unfold loadValues
    simp only [hkt, ne_eq, not_true_eq_false, if_false]
    have he2 : (addExtensionValue (addExtensionValue e t).1 (addExtensionValue e t).2).1 =
        { e with values := e.values ++ [(k, { t with owner := some e.name })] } := by
      simp only [addExtensionValue, Dict.set_set]
      rw [Dict.set_of_not_mem _ _ _ (hkt ▸ hnot), hkt]
    rw [he2, loadValues_eq rest _ hn' (fun kt h => hk kt (List.mem_cons_of_mem _ h))]
    simp [hkt]


/-- an operation definition after `to_json` / `from_json`: the type scheme in decoded form, with the
    extension added to its requirements three times (serial `OpDef.deserialize`, the `add_op_def`
    inside it, and the `add_op_def` of `Extension.deserialize`) -/
def reloadOp (so : SetOrd) (n : String) (od : OpDef) : OpDef :=
  { owner := some n, name := od.name, description := od.description, misc := od.misc,
    sig := ⟨od.sig.poly.map fun p => (((normPoly p).withReqs so [n]).withReqs so [n]).withReqs so [n], od.sig.binary⟩ }

/-- what serial `OpDef.deserialize` builds before it calls `add_op_def` -/
def deserOf (so : SetOrd) (n : String) (od : OpDef) : OpDef :=
  { owner := none, name := od.name, description := od.description, misc := od.misc,
    sig := ⟨od.sig.poly.map fun p => (normPoly p).withReqs so [n], od.sig.binary⟩ }

theorem deserOpDef_rawOf (so : SetOrd) (e : Extension) (od : OpDef)
    (hb : od.sig.poly = none → od.sig.binary = true) :
    deserOpDef so e (rawOf od) = .ok (addOpDef so e (deserOf so e.name od)) := by
  cases hp : od.sig.poly with
  | none =>
    have hb' := hb hp
    simp only [deserOpDef, rawOf, deserOf, hp, hb', Option.map_none, OpDefSig.new, pure, Except.pure]
  | some p =>
    cases hbin : od.sig.binary <;>
      simp only [deserOpDef, rawOf, deserOf, hp, hbin, Option.map_some, OpDefSig.new, pure, Except.pure]

theorem loadOps_step (so : SetOrd) (e : Extension) (od : OpDef) (k : String) (hk : k = od.name)
    (hnot : k ∉ Dict.keys e.operations) :
    (addOpDef so (addOpDef so e (deserOf so e.name od)).1 (addOpDef so e (deserOf so e.name od)).2).1 =
      { e with operations := e.operations ++ [(k, reloadOp so e.name od)] } := by
  cases hp : od.sig.poly with
  | none =>
    simp only [addOpDef, deserOf, Dict.set_set, reloadOp, hp, Option.map_none]
    rw [Dict.set_of_not_mem _ _ _ (hk ▸ hnot), hk]
  | some p =>
    simp only [addOpDef, deserOf, Dict.set_set, reloadOp, hp, Option.map_some]
    rw [Dict.set_of_not_mem _ _ _ (hk ▸ hnot), hk]

theorem loadOps_eq (so : SetOrd) : ∀ (l : List (String × OpDef)) (e : Extension),
    Dict.NodupKeys (e.operations ++ l) →
    (∀ ko ∈ l, ko.1 = ko.2.name ∧ (ko.2.sig.poly = none → ko.2.sig.binary = true)) →
    loadOps so e (l.map fun ko => (ko.1, rawOf ko.2)) =
      .ok { e with operations := e.operations ++ l.map fun ko => (ko.1, reloadOp so e.name ko.2) }
  | [], e, _, _ => by simp [loadOps, pure, Except.pure]
  | (k, od) :: rest, e, hn, hk => by
    obtain ⟨hkn, hb⟩ := hk (k, od) List.mem_cons_self
    simp only at hkn hb
    obtain ⟨hn', hnot⟩ := keys_snoc_nodup e.operations k od (reloadOp so e.name od) rest hn
    have hd := deserOpDef_rawOf so e od hb
    have he2 := loadOps_step so e od k hkn hnot
    simp only [List.map_cons]
    unfold loadOps
    have : (rawOf od).name = od.name := rfl
    simp only [this, hkn, ne_eq, not_true_eq_false, if_false, hd]
    rw [he2, loadOps_eq so rest _ hn' (fun ko h => hk ko (List.mem_cons_of_mem _ h))]
    simp [hkn]


/-! ### the round trip -/

/-- the value `from_json` holds for a value of the extension (the decoded serialised value) -/
def reVal (fnSig : Json → Except DecErr (List Ty × List Ty × List String)) (fuel : Nat) (v : Value) : Value :=
  match decVal fnSig fuel (valJ v) with
  | .ok v' => v'
  | .error _ => v

/-- **the extension `from_json (to_json e)` returns**, for a well-formed `e` -/
def reload (so : SetOrd) (fnSig : Json → Except DecErr (List Ty × List Ty × List String)) (fuel : Nat)
    (e : Extension) : Extension :=
  { name := e.name, version := e.version, runtimeReqs := so.union e.runtimeReqs [],
    types := e.types,
    values := e.values.map fun kv => (kv.1, { kv.2 with val := reVal fnSig fuel kv.2.val }),
    operations := e.operations.map fun ko => (ko.1, reloadOp so e.name ko.2) }

theorem keys_map_of_fst {α β : Type} (d : List (String × α)) (g : String × α → String × β)
    (hg : ∀ kv, (g kv).1 = kv.1) : Dict.keys (d.map g) = Dict.keys d := by
  simp [Dict.keys, List.map_map, Function.comp_def, hg]

theorem valRT_reVal {fnSig : Json → Except DecErr (List Ty × List Ty × List String)} {fuel : Nat} {v : Value}
    (h : ValRT fnSig fuel v) :
    encVal v = .ok (valJ v) ∧ decVal fnSig fuel (valJ v) = .ok (reVal fnSig fuel v) ∧
      encVal (reVal fnSig fuel v) = encVal v := by
  obtain ⟨j, v', h1, h2, h3⟩ := h
  have hj : valJ v = j := encVal_valJ v j h1
  have hr : reVal fnSig fuel v = v' := by simp [reVal, hj, h2]
  rw [hj, hr]
  exact ⟨h1, h2, h3.trans h1.symm⟩

theorem encSig_ok_of_wf (od : OpDef) (h : ∀ p, od.sig.poly = some p → ∃ j, encTy p.toTy = .ok j) :
    encSig od.sig.poly = .ok (sigJ od.sig.poly) := by
  cases hp : od.sig.poly with
  | none => simp [encSig, sigJ, pure, Except.pure]
  | some p =>
    obtain ⟨j, hj⟩ := h p hp
    simp [encSig, sigJ, hj, pure, Except.pure]

theorem deserialize_eq (so : SetOrd) (name version : String) (reqs : List String)
    (ts : List (String × TypeDef)) (vs : List (String × ExtValue)) (ops : List (String × OpDef))
    (nt : Dict.NodupKeys ts) (nv : Dict.NodupKeys vs) (no : Dict.NodupKeys ops)
    (kt : ∀ kt ∈ ts, kt.1 = kt.2.name) (kv : ∀ kv ∈ vs, kv.1 = kv.2.name)
    (ko : ∀ ko ∈ ops, ko.1 = ko.2.name ∧ (ko.2.sig.poly = none → ko.2.sig.binary = true)) :
    deserialize so { version := version, name := name, runtimeReqs := reqs, types := ts, values := vs,
                     operations := ops.map fun ko => (ko.1, rawOf ko.2) } =
      .ok { name := name, version := version, runtimeReqs := so.union reqs [],
            types := ts.map fun kt => (kt.1, { kt.2 with owner := some name }),
            values := vs.map fun kv => (kv.1, { kv.2 with owner := some name }),
            operations := ops.map fun ko => (ko.1, reloadOp so name ko.2) } := by
  unfold deserialize
  simp only [Extension.new]
  rw [loadTypes_eq ts _ (by simpa using nt) kt]
  simp only [List.nil_append]
  rw [loadOps_eq so ops _ (by simpa using no) ko]
  simp only [List.nil_append]
  rw [loadValues_eq vs _ (by simpa using nv) kv]
  simp only [List.nil_append]

/-- **Round trip, computational form.**  A well-formed extension serialises, and loading the
    document gives exactly `reload e`. -/
theorem decExt_encExt (so : SetOrd) (fnSig : Json → Except DecErr (List Ty × List Ty × List String)) (fuel : Nat)
    (e : Extension) (h : WellFormed fnSig fuel e) :
    ∃ j, encExt e = .ok j ∧ decExt so fnSig fuel j = .ok (reload so fnSig fuel e) := by
  -- the document
  have h1 := encEntries_ok encTypeDef (typeDefJson e.name) e.types
    (fun kt hkt => encTypeDef_ok e.name kt.2 (h.types kt hkt).2.1)
  have h2 := encEntries_ok encExtValue (fun v => valueJson e.name v.name (valJ v.val)) e.values
    (fun kv hkv => encExtValue_ok e.name kv.2 _ (h.values kv hkv).2.1 (valRT_reVal (h.values kv hkv).2.2).1)
  have h3 := encEntries_ok encOpDef (fun od => opDefJson e.name od (sigJ od.sig.poly)) e.operations
    (fun ko hko => encOpDef_ok e.name ko.2 _ (h.ops ko hko).2.1
      (encSig_ok_of_wf ko.2 (fun p hp => ((h.ops ko hko).2.2.2 p hp).2.1)))
  refine ⟨_, encExt_eq e _ _ _ h1 h2 h3, ?_⟩
  -- validation
  have d1 := decEntries_map (fun j => liftD (decTypeDef fuel j)) (typeDefJson e.name)
    (fun td => ({ td with owner := none } : TypeDef)) e.types
    (fun kt hkt => by
      simp only [decTypeDef_json e.name kt.2 fuel (h.types kt hkt).2.2, liftD_ok])
  have d2 := decEntries_map (fun j => liftD (decExtValue fnSig fuel j))
    (fun v : ExtValue => valueJson e.name v.name (valJ v.val))
    (fun v => ({ owner := none, name := v.name, val := reVal fnSig fuel v.val } : ExtValue)) e.values
    (fun kv hkv => by
      simp only [decExtValue_json fnSig fuel e.name kv.2.name _ _ (valRT_reVal (h.values kv hkv).2.2).2.1, liftD_ok])
  have d3 := decEntries_map (decOpDef fuel) (fun od : OpDef => opDefJson e.name od (sigJ od.sig.poly)) rawOf
    e.operations
    (fun ko hko => decOpDef_json e.name ko.2 _ fuel
      (encSig_ok_of_wf ko.2 (fun p hp => ((h.ops ko hko).2.2.2 p hp).2.1))
      (fun p hp => ((h.ops ko hko).2.2.2 p hp).2.2))
  have hv := validate_docJson fnSig fuel e _ _ _ _ _ _ d1 d2 d3
  -- loading
  unfold decExt
  simp only [hv]
  rw [deserialize_eq so e.name e.version e.runtimeReqs _ _ e.operations
    (by simpa [Dict.NodupKeys, Dict.keys, List.map_map, Function.comp_def] using h.typeKeys)
    (by simpa [Dict.NodupKeys, Dict.keys, List.map_map, Function.comp_def] using h.valueKeys)
    h.opKeys
    (fun kt hkt => by
      obtain ⟨kt0, hm, rfl⟩ := List.mem_map.1 hkt
      exact (h.types kt0 hm).1)
    (fun kv hkv => by
      obtain ⟨kv0, hm, rfl⟩ := List.mem_map.1 hkv
      exact (h.values kv0 hm).1)
    (fun ko hko => ⟨(h.ops ko hko).1, (h.ops ko hko).2.2.1⟩)]
  -- the result is `reload e`
  simp only [reload, Except.ok.injEq, Extension.mk.injEq, true_and, and_true, List.map_map, Function.comp_def]
  constructor
  · conv => rhs; rw [← List.map_id e.types]
    apply List.map_congr_left
    intro kt hkt
    have := (h.types kt hkt).2.1
    obtain ⟨k, td⟩ := kt
    cases td
    simp_all
  · apply List.map_congr_left
    intro kv hkv
    have := (h.values kv hkv).2.1
    obtain ⟨k, v⟩ := kv
    cases v
    simp_all


/-! ### the reloaded extension is the same extension -/

theorem polyEq_reload (so : SetOrd) (n : String) (p : Poly) (hn : n ∈ p.reqs) :
    PolyEq p ((((normPoly p).withReqs so [n]).withReqs so [n]).withReqs so [n]) := by
  refine ⟨rfl, rfl, rfl, ?_⟩
  simp only [Poly.withReqs, normPoly]
  have h1 : SetEq (so.union p.reqs [n]) p.reqs := SetEq.union_of_mem so _ n hn
  have h2 : SetEq (so.union (so.union p.reqs [n]) [n]) (so.union p.reqs [n]) :=
    SetEq.union_of_mem so _ n (mem_union_self so _ n)
  have h3 : SetEq (so.union (so.union (so.union p.reqs [n]) [n]) [n]) (so.union (so.union p.reqs [n]) [n]) :=
    SetEq.union_of_mem so _ n (mem_union_self so _ n)
  exact h3.trans (h2.trans h1)

/-- **`reload e` is `e`** as far as the property claims (`ExtEq`). -/
theorem extEq_reload (so : SetOrd) (fnSig : Json → Except DecErr (List Ty × List Ty × List String)) (fuel : Nat)
    (e : Extension) (h : WellFormed fnSig fuel e) : ExtEq e (reload so fnSig fuel e) where
  name := rfl
  version := rfl
  reqs := SetEq.union_nil so _
  types := rfl
  ops := by
    refine DictRel.map_right OpDefEq (reloadOp so e.name) e.operations (fun ko hko => ?_)
    obtain ⟨_, ho, _, hp⟩ := h.ops ko hko
    refine ⟨ho.symm, rfl, rfl, rfl, rfl, ?_⟩
    cases hpoly : ko.2.sig.poly with
    | none => simp [reloadOp, hpoly, PolyOptEq]
    | some p =>
      simp only [reloadOp, hpoly, Option.map_some, PolyOptEq]
      exact polyEq_reload so e.name p (hp p hpoly).1
  values := by
    refine DictRel.map_right ValEq (fun v => { v with val := reVal fnSig fuel v.val }) e.values (fun kv hkv => ?_)
    exact ⟨rfl, rfl, (valRT_reVal (h.values kv hkv).2.2).2.2⟩


/-! ### the same extension serialises to the same document -/

theorem encExt_inv (e : Extension) (j : Json) (h : encExt e = .ok j) :
    ∃ ts vs os, encEntries encTypeDef e.types = .ok ts ∧ encEntries encExtValue e.values = .ok vs ∧
      encEntries encOpDef e.operations = .ok os ∧ j = docJson e ts vs os := by
  unfold encExt at h
  cases h1 : encEntries encTypeDef e.types with
  | error err => simp [h1, throw, throwThe, MonadExceptOf.throw] at h
  | ok ts =>
    cases h2 : encEntries encExtValue e.values with
    | error err => simp [h1, h2, throw, throwThe, MonadExceptOf.throw] at h
    | ok vs =>
      cases h3 : encEntries encOpDef e.operations with
      | error err => simp [h1, h2, h3, throw, throwThe, MonadExceptOf.throw] at h
      | ok os =>
        simp [h1, h2, h3, pure, Except.pure] at h
        exact ⟨ts, vs, os, rfl, rfl, rfl, h.symm⟩

theorem encEntries_rel {α : Type} (f : α → Except Err Json) (R : α → α → Prop) (C : Json → Json)
    (hR : ∀ a b, R a b → ∀ j, f a = .ok j → ∃ j', f b = .ok j' ∧ C j' = C j) :
    ∀ (d d' : List (String × α)), DictRel R d d' → ∀ js, encEntries f d = .ok js →
      ∃ js', encEntries f d' = .ok js' ∧
        js'.map (fun kv => (kv.1, C kv.2)) = js.map (fun kv => (kv.1, C kv.2))
  | [], [], _, js, h => by
    simp [encEntries, pure, Except.pure] at h
    subst h
    exact ⟨[], rfl, rfl⟩
  | [], _ :: _, hr, _, _ => by simp [DictRel] at hr
  | _ :: _, [], hr, _, _ => by simp [DictRel] at hr
  | (k, a) :: rest, (l, b) :: rest', hr, js, h => by
    obtain ⟨hkl, hab, hrest⟩ := hr
    subst hkl
    unfold encEntries at h
    cases h1 : f a with
    | error err => simp [h1, throw, throwThe, MonadExceptOf.throw] at h
    | ok j =>
      cases h2 : encEntries f rest with
      | error err => simp [h1, h2, throw, throwThe, MonadExceptOf.throw] at h
      | ok js0 =>
        simp [h1, h2, pure, Except.pure] at h
        subst h
        obtain ⟨j', hj', hc⟩ := hR a b hab j h1
        obtain ⟨js', hjs', hcs⟩ := encEntries_rel f R C hR rest rest' hrest js0 h2
        refine ⟨(k, j') :: js', ?_, ?_⟩
        · simp [encEntries, hj', hjs', pure, Except.pure]
        · simp [hc, hcs]

theorem canonDoc_docJson (e : Extension) (ts vs os : List (String × Json)) :
    canonDoc (docJson e ts vs os) =
      .obj [("version", .str e.version), ("name", .str e.name),
        ("runtime_reqs", encStrs (sortDedup e.runtimeReqs)), ("types", .obj ts), ("values", .obj vs),
        ("operations", .obj (os.map fun kv => (kv.1, canonOpDoc kv.2)))] := by
  simp [canonDoc, docJson, mapKey, mapVals, sortSet_encStrs]

theorem canonOpDoc_null (o : String) (od : OpDef) :
    canonOpDoc (opDefJson o od .null) = opDefJson o od .null := by
  simp [canonOpDoc, opDefJson, mapKey]

theorem canonOpDoc_poly (o : String) (od : OpDef) (ps : List TypeParam) (ji jo : List Json) (r : List String) :
    canonOpDoc (opDefJson o od (polyJson ps ji jo r)) = opDefJson o od (polyJson ps ji jo (sortDedup r)) := by
  simp [canonOpDoc, opDefJson, polyJson, funcJson, mapKey, sortSet_encStrs]

theorem encOpDef_inv (od : OpDef) (j : Json) (h : encOpDef od = .ok j) :
    ∃ o s, od.owner = some o ∧ encSig od.sig.poly = .ok s ∧ j = opDefJson o od s := by
  unfold encOpDef at h
  cases ho : od.owner with
  | none => simp [ho, throw, throwThe, MonadExceptOf.throw] at h
  | some o =>
    cases hs : encSig od.sig.poly with
    | error err => simp [ho, hs, throw, throwThe, MonadExceptOf.throw] at h
    | ok s =>
      simp [ho, hs, pure, Except.pure] at h
      exact ⟨o, s, rfl, rfl, h.symm⟩

theorem opDefJson_congr (o : String) (od od' : OpDef) (s : Json) (h1 : od'.name = od.name)
    (h2 : od'.description = od.description) (h3 : od'.misc = od.misc) (h4 : od'.sig.binary = od.sig.binary) :
    opDefJson o od' s = opDefJson o od s := by
  simp [opDefJson, h1, h2, h3, h4]

/-- related operation definitions serialise to the same document up to the requirement set -/
theorem opDefEq_enc (od od' : OpDef) (h : OpDefEq od od') (j : Json) (hj : encOpDef od = .ok j) :
    ∃ j', encOpDef od' = .ok j' ∧ canonOpDoc j' = canonOpDoc j := by
  obtain ⟨ho, hn, hd, hm, hb, hp⟩ := h
  obtain ⟨o, s, hown, hs, rfl⟩ := encOpDef_inv od j hj
  cases hpoly : od.sig.poly with
  | none =>
    cases hpoly' : od'.sig.poly with
    | some p' => simp [hpoly, hpoly', PolyOptEq] at hp
    | none =>
      simp [hpoly, encSig, pure, Except.pure] at hs
      subst hs
      refine ⟨opDefJson o od' .null, encOpDef_ok o od' .null (ho.trans hown) (by simp [hpoly', encSig, pure, Except.pure]), ?_⟩
      rw [opDefJson_congr o od od' .null hn hd hm hb]
  | some p =>
    cases hpoly' : od'.sig.poly with
    | none => simp [hpoly, hpoly', PolyOptEq] at hp
    | some p' =>
      simp only [hpoly, hpoly', PolyOptEq] at hp
      obtain ⟨hps, hi, hout, hr⟩ := hp
      simp only [hpoly, encSig] at hs
      cases he : encTy p.toTy with
      | error err => simp [he, throw, throwThe, MonadExceptOf.throw] at hs
      | ok js =>
        simp [he, pure, Except.pure] at hs
        subst hs
        obtain ⟨ji, jo, hji, hjo, rfl⟩ := (encTy_poly_ok p.params p.inp p.out p.reqs js).1 he
        have he' : encTy p'.toTy = .ok (polyJson p.params ji jo p'.reqs) := by
          simp only [Poly.toTy, hps, hi, hout]
          refine (encTy_poly_ok _ _ _ _ _).2 ⟨ji, jo, ?_, ?_, rfl⟩
          · rw [encRow_normRow _ (fun t _ => encTy_norm t)]; exact hji
          · rw [encRow_normRow _ (fun t _ => encTy_norm t)]; exact hjo
        refine ⟨opDefJson o od' (polyJson p.params ji jo p'.reqs),
          encOpDef_ok o od' _ (ho.trans hown) (by simp [hpoly', encSig, he', pure, Except.pure]), ?_⟩
        rw [canonOpDoc_poly, canonOpDoc_poly, sortDedup_eq_of_setEq hr, opDefJson_congr o od od' _ hn hd hm hb]

theorem valEq_enc (v v' : ExtValue) (h : ValEq v v') : encExtValue v' = encExtValue v := by
  obtain ⟨ho, hn, hv⟩ := h
  simp [encExtValue, ho, hn, hv]

theorem encEntries_congr {α : Type} (f : α → Except Err Json) (R : α → α → Prop) (hR : ∀ a b, R a b → f b = f a) :
    ∀ (d d' : List (String × α)), DictRel R d d' → encEntries f d' = encEntries f d
  | [], [], _ => rfl
  | [], _ :: _, hr => by simp [DictRel] at hr
  | _ :: _, [], hr => by simp [DictRel] at hr
  | (k, a) :: rest, (l, b) :: rest', hr => by
    obtain ⟨hkl, hab, hrest⟩ := hr
    subst hkl
    simp [encEntries, hR a b hab, encEntries_congr f R hR rest rest' hrest]

/-- **Equal extensions (in the sense of `ExtEq`) serialise to the same document** up to the order
    of the two set-typed requirement lists. -/
theorem extEq_enc (e e' : Extension) (h : ExtEq e e') (j : Json) (hj : encExt e = .ok j) :
    ∃ j', encExt e' = .ok j' ∧ canonDoc j' = canonDoc j := by
  obtain ⟨ts, vs, os, h1, h2, h3, rfl⟩ := encExt_inv e j hj
  obtain ⟨os', h3', hos⟩ := encEntries_rel encOpDef OpDefEq canonOpDoc opDefEq_enc _ _ h.ops os h3
  have h2' : encEntries encExtValue e'.values = .ok vs := by
    rw [encEntries_congr encExtValue ValEq valEq_enc _ _ h.values]; exact h2
  have h1' : encEntries encTypeDef e'.types = .ok ts := by rw [h.types]; exact h1
  refine ⟨docJson e' ts vs os', encExt_eq e' ts vs os' h1' h2' h3', ?_⟩
  rw [canonDoc_docJson, canonDoc_docJson, h.name, h.version, sortDedup_eq_of_setEq h.reqs, hos]


/-! ### the value layer's round trip for the values the serialised form can express -/

mutual
  def valDepth : Value → Nat
    | .sum _ typ vals => max typ.depth (valsDepth vals) + 1
    | .tuple vals => valsDepth vals + 1
    | .function _ _ _ _ => 1
    | .ext _ typ _ _ => typ.depth + 1
  def valsDepth : List Value → Nat
    | [] => 0
    | v :: vs => max (valDepth v) (valsDepth vs)
end

def isSumTy : Ty → Bool
  | .sum _ => true
  | .unitSum _ => true
  | _ => false

mutual
  /-- values whose serialised form decodes: the `typ` of a general sum is a sum type, the type of an
      extension constant is a member of the serialised `Type` union, the body of a function constant
      has a root operation with a readable inner signature -/
  def ValOK (fnSig : Json → Except DecErr (List Ty × List Ty × List String)) : Value → Prop
    | .sum _ typ vals => isSumTy typ = true ∧ ValsOK fnSig vals
    | .tuple vals => ValsOK fnSig vals
    | .function _ _ _ body => ∃ s, fnSig body = .ok s
    | .ext _ typ _ _ => typ.isPoly = false
  def ValsOK (fnSig : Json → Except DecErr (List Ty × List Ty × List String)) : List Value → Prop
    | [] => True
    | v :: vs => ValOK fnSig v ∧ ValsOK fnSig vs
end

theorem decSumType_enc (typ : Ty) (tj : Json) (f : Nat) (hs : isSumTy typ = true) (he : encTy typ = .ok tj)
    (hd : typ.depth ≤ f) : ∃ typ', decSumType f tj = .ok typ' ∧ encTy typ' = .ok tj := by
  cases typ with
  | sum rows =>
    refine ⟨_, decSumType_encTy_sum rows tj f he (by simp [Ty.depth] at hd; omega), ?_⟩
    rw [encTy_norm]; exact he
  | unitSum n => exact ⟨_, decSumType_encTy_unitSum n tj f he, he⟩
  | _ => simp [isSumTy] at hs

theorem encVals_cons_ok (v : Value) (vs : List Value) (js : List Json) :
    encVals (v :: vs) = .ok js ↔ ∃ j js', encVal v = .ok j ∧ encVals vs = .ok js' ∧ js = j :: js' := by
  rw [encVals]
  cases encVal v <;> cases encVals vs <;> simp [bind, Except.bind, pure, Except.pure, eq_comm]

theorem asNat_int_nat (n : Nat) : asNat (.int n) = .ok n := by
  simp [asNat, asInt, bind, Except.bind, pure, Except.pure]

mutual
  theorem valRT_aux (fnSig : Json → Except DecErr (List Ty × List Ty × List String)) :
      ∀ (v : Value) (fuel : Nat) (j : Json), ValOK fnSig v → encVal v = .ok j → valDepth v ≤ fuel →
        ∃ v', decVal fnSig fuel j = .ok v' ∧ encVal v' = .ok j
    | .sum tag typ vals, fuel, j, hok, he, hd => by
      obtain ⟨f, rfl, hf⟩ := fuel_succ (n := max typ.depth (valsDepth vals)) (by simpa [valDepth] using hd)
      obtain ⟨hs, hvs⟩ := hok
      rw [encVal] at he
      cases ht : encTy typ with
      | error e => simp [ht, bind, Except.bind] at he
      | ok tj =>
        cases hv : encVals vals with
        | error e => simp [ht, hv, bind, Except.bind] at he
        | ok vjs =>
          simp [ht, hv, bind, Except.bind, pure, Except.pure] at he
          subst he
          obtain ⟨typ', hdt, het⟩ := decSumType_enc typ tj f hs ht (by omega)
          obtain ⟨vals', hdv, hev⟩ := valsRT_aux fnSig vals f vjs hvs hv (by omega)
          refine ⟨.sum tag typ' vals', ?_, ?_⟩
          · simp [decVal, asObj, req, field, asStr, asArr, asNat_int_nat, hdt, hdv, bind, Except.bind, pure, Except.pure]
          · simp [encVal, het, hev, bind, Except.bind, pure, Except.pure]
    | .tuple vals, fuel, j, hok, he, hd => by
      obtain ⟨f, rfl, hf⟩ := fuel_succ (n := valsDepth vals) (by simpa [valDepth] using hd)
      rw [encVal] at he
      cases hv : encVals vals with
      | error e => simp [hv, bind, Except.bind] at he
      | ok vjs =>
        simp [hv, bind, Except.bind, pure, Except.pure] at he
        subst he
        obtain ⟨vals', hdv, hev⟩ := valsRT_aux fnSig vals f vjs hok hv hf
        refine ⟨.tuple vals', ?_, ?_⟩
        · simp [decVal, asObj, req, field, asStr, asArr, hdv, bind, Except.bind, pure, Except.pure]
        · simp [encVal, hev, bind, Except.bind, pure, Except.pure]
    | .function i o r body, fuel, j, hok, he, hd => by
      obtain ⟨f, rfl, _⟩ := fuel_succ (n := 0) (by simpa [valDepth] using hd)
      obtain ⟨⟨i', o', r'⟩, hs⟩ := hok
      simp [encVal, pure, Except.pure] at he
      subst he
      refine ⟨.function i' o' r' body, ?_, ?_⟩
      · simp [decVal, asObj, req, field, asStr, hs, bind, Except.bind, pure, Except.pure]
      · simp [encVal, pure, Except.pure]
    | .ext name typ payload exts, fuel, j, hok, he, hd => by
      obtain ⟨f, rfl, hf⟩ := fuel_succ (n := typ.depth) (by simpa [valDepth] using hd)
      rw [encVal] at he
      cases ht : encTy typ with
      | error e => simp [ht, bind, Except.bind] at he
      | ok tj =>
        simp [ht, bind, Except.bind, pure, Except.pure] at he
        subst he
        have hdt := decTy_encTy typ tj f ht hok hf
        refine ⟨.ext name (Ty.norm typ) payload exts, ?_, ?_⟩
        · simp [decVal, asObj, req, field, asStr, hdt, decStrs_encStrs, bind, Except.bind, pure, Except.pure]
        · simp [encVal, encTy_norm, ht, bind, Except.bind, pure, Except.pure]
  theorem valsRT_aux (fnSig : Json → Except DecErr (List Ty × List Ty × List String)) :
      ∀ (vs : List Value) (fuel : Nat) (js : List Json), ValsOK fnSig vs → encVals vs = .ok js →
        valsDepth vs ≤ fuel → ∃ vs', js.mapM (decVal fnSig fuel) = .ok vs' ∧ encVals vs' = .ok js
    | [], fuel, js, _, he, _ => by
      simp [encVals, pure, Except.pure] at he
      subst he
      exact ⟨[], rfl, rfl⟩
    | v :: vs, fuel, js, hok, he, hd => by
      obtain ⟨j, js', hj, hjs, rfl⟩ := (encVals_cons_ok v vs js).1 he
      have hd' : valDepth v ≤ fuel ∧ valsDepth vs ≤ fuel := by simp [valsDepth] at hd; omega
      obtain ⟨v', hdv, hev⟩ := valRT_aux fnSig v fuel j hok.1 hj hd'.1
      obtain ⟨vs', hdvs, hevs⟩ := valsRT_aux fnSig vs fuel js' hok.2 hjs hd'.2
      refine ⟨v' :: vs', ?_, ?_⟩
      · rw [ExceptList.mapM_cons, hdv, hdvs]
      · exact (encVals_cons_ok v' vs' (j :: js')).2 ⟨j, js', hev, hevs, rfl⟩
end

/-- **The value layer's round trip** for every serialisable value of the decodable shape:
    the hypothesis `ValRT` of the extension round trip holds. -/
theorem valRT_of_ok (fnSig : Json → Except DecErr (List Ty × List Ty × List String)) (fuel : Nat) (v : Value)
    (hok : ValOK fnSig v) (henc : ∃ j, encVal v = .ok j) (hd : valDepth v ≤ fuel) : ValRT fnSig fuel v := by
  obtain ⟨j, hj⟩ := henc
  obtain ⟨v', h1, h2⟩ := valRT_aux fnSig v fuel j hok hj hd
  exact ⟨j, v', hj, h1, h2⟩


/-- well-formed, every value of the serialisable, decodable shape (no codec hypothesis left) -/
abbrev WellFormedS (fnSig : Json → Except DecErr (List Ty × List Ty × List String)) (fuel : Nat)
    (e : Extension) : Prop :=
  WellFormedWith (fun v => ValOK fnSig v ∧ (∃ j, encVal v = .ok j) ∧ valDepth v ≤ fuel) fuel e

theorem WellFormedS.wf {fnSig : Json → Except DecErr (List Ty × List Ty × List String)} {fuel : Nat}
    {e : Extension} (h : WellFormedS fnSig fuel e) : WellFormed fnSig fuel e :=
  WellFormedWith.mono (fun v hv => valRT_of_ok fnSig fuel v hv.1 hv.2.1 hv.2.2) h

/-! ### `loadsFrom` -/

theorem optParamsBeq_sound : ∀ (a b : Option (List TypeParam)), optParamsBeq a b = true → a = b
  | none, none, _ => rfl
  | some a, some b, h => by simp only [optParamsBeq] at h; rw [(TypeParam.beqList_iff a b).1 h]
  | none, some _, h => by simp [optParamsBeq] at h
  | some _, none, h => by simp [optParamsBeq] at h

theorem typesBeq_sound : ∀ (a b : List DefSig), typesBeq a b = true → a = b
  | [], [], _ => rfl
  | [], _ :: _, h => by simp [typesBeq] at h
  | _ :: _, [], h => by simp [typesBeq] at h
  | ⟨n, ps⟩ :: as, ⟨m, qs⟩ :: bs, h => by
    simp only [typesBeq, Bool.and_eq_true, beq_iff_eq] at h
    obtain ⟨⟨h1, h2⟩, h3⟩ := h
    rw [h1, (TypeParam.beqList_iff ps qs).1 h2, typesBeq_sound as bs h3]

theorem opsBeq_sound : ∀ (a b : List (String × Option (List TypeParam))), opsBeq a b = true → a = b
  | [], [], _ => rfl
  | [], _ :: _, h => by simp [opsBeq] at h
  | _ :: _, [], h => by simp [opsBeq] at h
  | (n, ps) :: as, (m, qs) :: bs, h => by
    simp only [opsBeq, Bool.and_eq_true, beq_iff_eq] at h
    obtain ⟨⟨h1, h2⟩, h3⟩ := h
    rw [h1, optParamsBeq_sound ps qs h2, opsBeq_sound as bs h3]

theorem ExtSig.beq_sound (a b : ExtSig) (h : a.beq b = true) : a = b := by
  obtain ⟨n, ts, os⟩ := a
  obtain ⟨m, ts', os'⟩ := b
  simp only [ExtSig.beq, Bool.and_eq_true, beq_iff_eq] at h
  obtain ⟨⟨h1, h2⟩, h3⟩ := h
  rw [h1, typesBeq_sound ts ts' h2, opsBeq_sound os os' h3]

/-- what a `loadsFrom … = true` theorem says -/
theorem loadsFrom_sound (tbl : List ExtSig) (fuel : Nat) (doc : Json) (h : loadsFrom tbl fuel doc = true) :
    ∃ e, decExt SetOrd.std noFnSig fuel doc = .ok e ∧ findExt tbl e.name = some (sigOfExt e) ∧ OwnsOps e := by
  unfold loadsFrom at h
  cases hd : decExt SetOrd.std noFnSig fuel doc with
  | error err => simp [hd] at h
  | ok e =>
    simp only [hd] at h
    cases hf : findExt tbl e.name with
    | none => simp [hf] at h
    | some s =>
      simp only [hf] at h
      exact ⟨e, rfl, by rw [ExtSig.beq_sound _ _ h]; exact hf, decExt_owns _ _ _ _ _ hd⟩


end HugrVerif.Ext
