/-
  C05, direction (B), document level: what `Hugr.load_json` followed by `Hugr.to_json` does to a
  foreign document (`Serial.lean`), in terms of nodes, edge offsets and metadata.
-/
import HugrVerif.Proofs.Serial
import HugrVerif.Proofs.StoreNodes
import HugrVerif.SerialCodecs
import HugrVerif.Nested
import HugrVerif.Proofs.C05ProjOps

set_option linter.unusedSimpArgs false
set_option linter.unusedVariables false

namespace HugrVerif.C05Doc
open HugrVerif HugrVerif.Store HugrVerif.Serial HugrVerif.Py

variable {Ω : Type}

/-! ### nodes -/

/-- the parent `_from_serial` gives the node at index `idx` whose `parent` member is `par`
    (a node that names itself is the root) -/
def parentOf (idx : Nat) (par : Int) : Option Nat := if par = (idx : Int) then none else some par.toNat

theorem getNode_root (s : St Ω) (r j : Nat) : getNode { s with root := r } j = getNode s j := rfl

theorem freeInv_root (s : St Ω) (r : Nat) (h : FreeInv s) : FreeInv { s with root := r } := ⟨h.iff, h.nodup⟩

/-- **The node loop of `_from_serial`**: every node of the document is present at its index with
    the decoded operation, the parent as written and the metadata entry of that index; nodes that
    were there before keep operation, parent and metadata; no link is touched. -/
theorem loadNodes_spec (c : OpCodec Ω) (md : Option (List (Option Meta))) :
    ∀ (js : List Json) (idx : Nat) (s s' : St Ω), FreeInv s → loadNodes c md js idx s = .ok s' →
      FreeInv s' ∧ s'.links = s.links ∧
      (∀ k (hk : k < js.length), ∃ op par d, c.dec js[k] = .ok (op, par) ∧ getNode s' (idx + k) = .ok d ∧
        d.op = op ∧ d.md = getMeta md (idx + k) ∧ d.parent = parentOf (idx + k) par) ∧
      (∀ j d, getNode s j = .ok d → ∃ d', getNode s' j = .ok d' ∧ NodeSame d d') := by
  intro js
  induction js with
  | nil =>
    intro idx s s' hf h
    simp only [loadNodes, Except.ok.injEq] at h
    subst h
    exact ⟨hf, rfl, fun k hk => absurd hk (by simp), fun j d hd => ⟨d, hd, NodeSame.refl d⟩⟩
  | cons j js ih =>
    intro idx s s' hf h
    unfold loadNodes at h
    cases hdec : c.dec j with
    | error e => simp [hdec, liftO] at h
    | ok r =>
      obtain ⟨op, parent⟩ := r
      simp only [hdec, liftO] at h
      split at h
      · cases h
      · rename_i hneg
        cases hadd : addNodeRaw s op (if parent = (idx : Int) then none else some parent.toNat) none (getMeta md idx) with
        | error e => simp [hadd, liftS] at h
        | ok r1 =>
          obtain ⟨s1, n⟩ := r1
          simp only [hadd, liftS] at h
          split at h
          · cases h
          · rename_i hn
            have hn' : n = idx := by simpa using hn
            subst hn'
            obtain ⟨a1, ⟨d0, e0, o0, p0, m0, _, _⟩, a3, _, a5, _, a7⟩ := addNodeRaw_spec s s1 hf op _ none _ n hadd
            -- the store handed to the recursive call
            generalize hs2 : (if parent = (n : Int) then { s1 with root := n } else s1 : St Ω) = s2 at h
            have g2 : ∀ i, getNode s2 i = getNode s1 i := by
              intro i; rw [← hs2]; split <;> rfl
            have f2 : FreeInv s2 := by
              rw [← hs2]; split
              · exact freeInv_root s1 n a7
              · exact a7
            have l2 : s2.links = s1.links := by rw [← hs2]; split <;> rfl
            obtain ⟨b1, b2, b3, b4⟩ := ih (n + 1) s2 s' f2 h
            refine ⟨b1, by rw [b2, l2, a5], ?_, ?_⟩
            · intro k hk
              cases k with
              | zero =>
                obtain ⟨d', e', sm⟩ := b4 n d0 (by rw [g2]; exact e0)
                refine ⟨op, parent, d', hdec, by simpa using e', ?_, ?_, ?_⟩
                · rw [sm.op, o0]
                · rw [sm.md, m0]; rfl
                · rw [sm.parent, p0]; rfl
              | succ k =>
                obtain ⟨op', par', d', c1, c2, c3, c4, c5⟩ := b3 k (by simpa using hk)
                have e : n + 1 + k = n + (k + 1) := by omega
                refine ⟨op', par', d', by simpa using c1, by rw [← e]; exact c2, c3, by rw [← e]; exact c4,
                  by rw [← e]; exact c5⟩
            · intro i d hd
              have hi : i ≠ n := fun e => a1 d (e ▸ hd)
              obtain ⟨d1, e1, sm1, _, _⟩ := a3 i d hi hd
              obtain ⟨d2, e2, sm2⟩ := b4 i d1 (by rw [g2]; exact e1)
              exact ⟨d2, e2, sm1.trans sm2⟩

theorem loadEdges_grow (c : OpCodec Ω) : ∀ (es : List Edge) (s s' : St Ω), loadEdges c es s = .ok s' →
    StoreGrow s s' := by
  intro es
  induction es with
  | nil =>
    intro s s' h
    simp only [loadEdges, Except.ok.injEq] at h
    subst h; exact StoreGrow.refl s
  | cons e es ih =>
    intro s s' h
    unfold loadEdges at h
    cases h1 : loadOffset c s e.src e.srcOff false with
    | error er => simp [h1] at h
    | ok so =>
      simp only [h1] at h
      cases h2 : loadOffset c s e.dst e.dstOff true with
      | error er => simp [h2] at h
      | ok d_ =>
        simp only [h2] at h
        cases h3 : Store.addLink s (e.src, so) (e.dst, d_) with
        | error er => simp [h3, liftS] at h
        | ok s1 =>
          simp only [h3, liftS] at h
          exact (addLink_nodes s s1 _ _ h3).1.trans (ih s1 s' h)

/-- **Every node of the document is in the loaded HUGR**, at its index, with the decoded operation,
    its parent and its metadata entry. -/
theorem fromSerial_nodes (c : OpCodec Ω) (d : Doc) (s : St Ω) (h : fromSerial c d = .ok s) :
    ∀ k (hk : k < d.nodes.length), ∃ op par nd, c.dec d.nodes[k] = .ok (op, par) ∧ getNode s k = .ok nd ∧
      nd.op = op ∧ nd.md = getMeta d.metadata k ∧ nd.parent = parentOf k par := by
  unfold fromSerial at h
  split at h
  · cases h
  · simp only [] at h
    cases h1 : loadNodes c d.metadata d.nodes 0 { nodes := [], links := BiMap.empty, free := [], root := 0 } with
    | error e => simp [h1] at h
    | ok s1 =>
      simp only [h1] at h
      have hf0 : FreeInv ({ nodes := [], links := BiMap.empty, free := [], root := 0 } : St Ω) :=
        ⟨fun i => by simp, List.nodup_nil⟩
      obtain ⟨_, _, b3, _⟩ := loadNodes_spec c d.metadata d.nodes 0 _ s1 hf0 h1
      have G := loadEdges_grow c d.edges s1 s h
      intro k hk
      obtain ⟨op, par, nd, c1, c2, c3, c4, c5⟩ := b3 k hk
      simp only [Nat.zero_add] at c2 c4 c5
      obtain ⟨nd', e', gr⟩ := G.fwd k nd c2
      exact ⟨op, par, nd', c1, e', by rw [gr.op, c3], by rw [gr.md, c4], by rw [gr.parent, c5]⟩

/-- what `_to_serial` writes as the metadata entry of a node -/
def savedEntry (m : Meta) : Option Meta := if m.isEmpty then none else some m

/-- **Re-saving a loaded node**: `_serialize_node` writes the encoding of the decoded operation at
    the new index of its parent, and the node's metadata. -/
theorem serialNode_loaded (c : OpCodec Ω) (s : St Ω) (order : List Nat) (k : Nat) (nd : NodeData Ω Meta)
    (hn : getNode s k = .ok nd) (r : Json × Option Meta) (h : serialNode c s order k = .ok r) :
    ∃ p, rekey order (nd.parent.getD k) = .ok p ∧ liftO (c.enc nd.op p) = .ok r.1 ∧ r.2 = savedEntry nd.md := by
  unfold serialNode at h
  simp only [hn, liftS] at h
  cases h1 : rekey order (nd.parent.getD k) with
  | error e => simp [h1] at h
  | ok p =>
    simp only [h1] at h
    cases h2 : liftO (c.enc nd.op p) with
    | error e => simp [h2] at h
    | ok j =>
      simp only [h2, Except.ok.injEq] at h
      subst h
      exact ⟨p, rfl, h2, rfl⟩

/-! ### edges: port offsets -/

/-- the offset `_to_serial` writes for an edge end that the document gave as `off?` on a node whose
    operation has the order port at `r` (`none`: no order port) -/
def savedOffset (off? : Option Int) (r : Option Nat) : Int :=
  match off? with
  | some o => o
  | none =>
    match r with
    | some k => k
    | none => 0

/-- **Port offsets of a foreign document are preserved; an absent offset becomes the order port**:
    an edge end written with offset `o` is re-saved with `o` (also when `o` is the layout offset of
    the order port: it is held as `-1` in between); an edge end written *without* offset is attached
    to the order port (`-1`) when the operation has one — and re-saved at the layout offset of that
    port — and to port 0 (the first control-flow port) otherwise. -/
theorem offset_resaved (c : OpCodec Ω) (s s' : St Ω) (node node' : Nat) (incoming : Bool)
    (off? : Option Int) (w : Int) (d d' : NodeData Ω Meta) (r : Option Nat)
    (hd : getNode s node = .ok d) (hd' : getNode s' node' = .ok d')
    (hr : c.orderOff d.op incoming = .ok r) (hop : c.orderOff d'.op incoming = c.orderOff d.op incoming)
    (hnn : ∀ o, off? = some o → 0 ≤ o)
    (hl : loadOffset c s node off? incoming = .ok w) :
    (off? = none → w = if r.isSome then -1 else 0) ∧
    constrainOffset c s' node' w incoming = .ok (savedOffset off? r) := by
  cases off? with
  | none =>
    simp only [loadOffset, hd, liftS, hr, liftO, Except.ok.injEq] at hl
    subst hl
    refine ⟨fun _ => rfl, ?_⟩
    cases r with
    | none => simp [constrainOffset, savedOffset]
    | some k => simp [constrainOffset, savedOffset, hd', liftS, hop, hr, liftO]
  | some o =>
    have ho := hnn o rfl
    refine ⟨fun e => (nomatch e), ?_⟩
    cases r with
    | none =>
      simp only [loadOffset, hd, liftS, hr, liftO, Option.map_none] at hl
      have hw : w = o := by simpa using hl.symm
      subst hw
      have : ¬ (w < 0) := by omega
      simp [constrainOffset, savedOffset, this]
    | some k =>
      simp only [loadOffset, hd, liftS, hr, liftO] at hl
      change (if some (k : Int) = some o then Except.ok (-1) else Except.ok o) = Except.ok w at hl
      simp only [Option.some.injEq] at hl
      by_cases he : (k : Int) = o
      · rw [if_pos he] at hl
        cases hl
        simp [constrainOffset, savedOffset, hd', liftS, hop, hr, liftO, he]
      · rw [if_neg he] at hl
        cases hl
        have : ¬ (w < 0) := by omega
        simp [constrainOffset, savedOffset, this]

/-! ### metadata -/

/-- **Metadata of a foreign document is preserved**: the entry re-saved for the node at `idx` is the
    entry the document had there; an absent `metadata` member, a shorter array, `null` and `{}` all
    mean "no metadata" and are re-saved as `null`. -/
theorem meta_resaved (md : Option (List (Option Meta))) (idx : Nat) :
    savedEntry (getMeta md idx) =
      match md with
      | none => none
      | some l =>
        match l[idx]? with
        | some (some m) => savedEntry m
        | _ => none := by
  cases md with
  | none => rfl
  | some l =>
    simp only [getMeta]
    cases hl : l.isEmpty with
    | true =>
      have : l = [] := List.isEmpty_iff.mp hl
      subst this
      simp [savedEntry]
    | false =>
      simp only [Bool.false_eq_true, if_false]
      cases h : l[idx]? with
      | none => simp [savedEntry]
      | some x => cases x <;> simp [savedEntry]

/-! ### the document envelope -/

/-- `SerialHugr(**json)` looks only at `nodes`, `edges`, `metadata`, `encoder`. -/
theorem decDoc_congr (kvs kvs' : List (String × Json))
    (h : ∀ k ∈ ["nodes", "edges", "metadata", "encoder"], fld k kvs = fld k kvs') :
    decDoc (.obj kvs) = decDoc (.obj kvs') := by
  simp only [List.forall_mem_cons, List.not_mem_nil, false_imp_iff, implies_true, and_true] at h
  obtain ⟨h1, h2, h3, h4⟩ := h
  simp only [decDoc, h1, h2, h3, h4]

theorem fld_insert_ne (k k' : String) (v : Json) (h : k' ≠ k) (pre post : List (String × Json)) :
    fld k' (pre ++ (k, v) :: post) = fld k' (pre ++ post) := by
  induction pre with
  | nil => simp [fld, Ne.symm h]
  | cons p pre ih => obtain ⟨l, w⟩ := p; simp only [List.cons_append, fld, ih]

/-- **Unknown top-level members are ignored** (`version`, anything a newer writer adds). -/
theorem decDoc_extra_field (k : String) (v : Json) (hk : k ∉ ["nodes", "edges", "metadata", "encoder"])
    (pre post : List (String × Json)) :
    decDoc (.obj (pre ++ (k, v) :: post)) = decDoc (.obj (pre ++ post)) :=
  decDoc_congr _ _ (fun k' hk' => fld_insert_ne k k' v (fun e => hk (e ▸ hk')) pre post)

/-- **`metadata` and `encoder` are optional**: absent means `null`. -/
theorem decDoc_defaults (ns es : Json) :
    decDoc (.obj [("nodes", ns), ("edges", es)]) =
      decDoc (.obj [("nodes", ns), ("edges", es), ("metadata", .null), ("encoder", .null)]) := by
  simp [decDoc, fld]

end HugrVerif.C05Doc

/-! ### function constants: nested documents -/

namespace HugrVerif.Nested
open HugrVerif HugrVerif.Serial

mutual
  /-- re-saving leaves a value alone whose function bodies are all fixed points of the re-save -/
  theorem mapBodies_fixed (g : Json → Except Serial.Err Json) :
      ∀ (v : Value), AllBodies (fun b => g b = .ok b) v → mapBodies g v = .ok v
    | .sum t ty vs, h => by
      simp only [AllBodies] at h
      simp [mapBodies, mapBodiesList_fixed g vs h, bind, Except.bind, pure, Except.pure]
    | .tuple vs, h => by
      simp only [AllBodies] at h
      simp [mapBodies, mapBodiesList_fixed g vs h, bind, Except.bind, pure, Except.pure]
    | .function i o r body, h => by
      simp only [AllBodies] at h
      simp [mapBodies, h, bind, Except.bind, pure, Except.pure]
    | .ext n t p e, _ => rfl
  theorem mapBodiesList_fixed (g : Json → Except Serial.Err Json) :
      ∀ (vs : List Value), AllBodiesList (fun b => g b = .ok b) vs → mapBodiesList g vs = .ok vs
    | [], _ => rfl
    | v :: vs, h => by
      simp only [AllBodiesList] at h
      simp [mapBodiesList, mapBodies_fixed g v h.1, mapBodiesList_fixed g vs h.2, bind, Except.bind, pure, Except.pure]
end

theorem mapConst_fixed (g : Json → Except Serial.Err Json) (op : Op)
    (h : ∀ v, op = .const v → AllBodies (fun b => g b = .ok b) v) : mapConst g op = .ok op := by
  cases op <;> try rfl
  case const v => simp [mapConst, mapBodies_fixed g v (h v rfl), bind, Except.bind, pure, Except.pure]

/-- **What the nested-document codec decodes**: the operation the operation layer decodes, with the
    body document of every function constant in it re-saved. -/
theorem codecWith_dec (g : Json → Except Serial.Err Json) (fuel : Nat) (j : Json) (op : Op) (p : Int)
    (h : (codecWith g fuel).dec j = .ok (op, p)) :
    ∃ op0, Op.decOp fuel j = .ok (op0, p) ∧ mapConst g op0 = .ok op := by
  simp only [codecWith, opsCodec] at h
  cases hd : Op.decOp fuel j with
  | error e => simp [hd] at h
  | ok r =>
    obtain ⟨op0, p0⟩ := r
    simp only [hd] at h
    cases hm : mapConst g op0 with
    | error e => simp [hm] at h
    | ok op' =>
      simp only [hm, Except.ok.injEq, Prod.mk.injEq] at h
      obtain ⟨rfl, rfl⟩ := h
      exact ⟨op0, rfl, hm⟩

/-- **Fixed-point bodies are carried verbatim**: on a node whose function constants all have body
    documents that re-save to themselves, the nested-document codec is the operation layer's decoder
    — the case the value model (`Val.lean`) describes. -/
theorem codecWith_dec_fixed (g : Json → Except Serial.Err Json) (fuel : Nat) (j : Json) (op : Op) (p : Int)
    (h0 : Op.decOp fuel j = .ok (op, p)) (hfix : ∀ v, op = .const v → AllBodies (fun b => g b = .ok b) v) :
    (codecWith g fuel).dec j = .ok (op, p) := by
  simp [codecWith, opsCodec, h0, mapConst_fixed g op hfix]

/-- the other two components are those of the operation layer -/
theorem codecWith_enc (g : Json → Except Serial.Err Json) (fuel : Nat) :
    (codecWith g fuel).enc = (opsCodec fuel).enc ∧ (codecWith g fuel).orderOff = opOrderOff := ⟨rfl, rfl⟩

end HugrVerif.Nested

