/-
  C05, direction (B), value and operation layers: the projections `Proj.val` and `Proj.op` (the
  listed attributes of a serialised constant / node, read by member name) and the theorems that a
  decoded constant / operation encodes to exactly the projection of the document it came from.

  What the projection of a node keeps (per operation kind, in the library's member order):
  `parent`, `op` (the kind), `name`, every type row / signature / sum rows, the type parameters of a
  `FuncDefn`/`FuncDecl`/callee signature, type arguments, the constant (recursively: tags, sum
  types, element values, the *verbatim* body document of a function constant, the verbatim payload
  of an extension constant with its type and extension list), `description`, the extension deltas
  of `DataflowBlock`, `TailLoop` and (inside the signature) `DFG`.  NOT kept — not attributes of
  the Python classes and not in the property's list: the `extension_delta` of `Conditional`
  (re-saved empty) and the `runtime_reqs` of the signature of `FuncDefn`, `Case`, `CFG` (re-saved
  empty).  For a monomorphic callee (`func_sig.params = []`) `Call`/`LoadFunction` re-save
  `instantiation` as the body of `func_sig` and `type_args` as `[]`, which is what they are by
  definition (`_CallOrLoad.__init__`).
-/
import HugrVerif.Proofs.C05Proj
import HugrVerif.Proofs.ValCodec

set_option linter.unusedSimpArgs false
set_option linter.unusedVariables false

namespace HugrVerif.Proj
open HugrVerif HugrVerif.Codec HugrVerif.Json HugrVerif.Op HugrVerif.OpProofs

/-! ### constants -/

def val : Nat → Json → Json
  | 0, _ => .null
  | f + 1, j =>
    let kvs := members j
    let t := tagOf "v" kvs
    if t = "Sum" then
      .obj [("v", .str "Sum"), ("tag", get "tag" kvs), ("typ", sumType f (get "typ" kvs)),
        ("vs", .arr ((items (get "vs" kvs)).map (val f)))]
    else if t = "Tuple" then .obj [("v", .str "Tuple"), ("vs", .arr ((items (get "vs" kvs)).map (val f)))]
    else if t = "Function" then .obj [("v", .str "Function"), ("hugr", get "hugr" kvs)]
    else if t = "Extension" then
      let vk := members (get "value" kvs)
      .obj [("v", .str "Extension"), ("extensions", get "extensions" kvs), ("typ", ty f (get "typ" kvs)),
        ("value", .obj [("c", get "c" vk), ("v", get "v" vk)])]
    else .null

theorem enc_vals_of (fnSig) (f : Nat) (ih : ∀ j v, decVal fnSig f j = .ok v → encVal v = .ok (val f j))
    (js : List Json) (vs : List Value) (h : js.mapM (decVal fnSig f) = .ok vs) : encVals vs = .ok (js.map (val f)) := by
  rw [encVals_eq_mapM]
  exact ExceptList.mapM_mapM_ok (decVal fnSig f) encVal (val f) js vs h (fun j _ v hv => ih j v hv)

/-- **Constants**: a decoded constant encodes to the projection of the document it was decoded from
    (for any reader `fnSig` of function bodies: the body document is carried verbatim). -/
theorem abs_val (fnSig : Json → Except DecErr (List Ty × List Ty × List String)) :
    ∀ (f : Nat) (j : Json) (v : Value), decVal fnSig f j = .ok v → encVal v = .ok (val f j) := by
  intro f
  induction f with
  | zero => intro j v h; rw [decVal] at h; cases h
  | succ f ih =>
    intro j v h
    rw [decVal] at h
    simp only [bind_eq_ok] at h
    obtain ⟨kvs, hj, tj, htj, s, hs, hm⟩ := h
    rw [asObj_ok] at hj
    rw [req_ok] at htj
    rw [asStr_ok] at hs
    subst hj hs
    have htag := tagOf_of_field htj
    split at hm
    · -- Sum
      simp only [bind_eq_ok, pure_eq_ok] at hm
      obtain ⟨jt, h1, typ, h2, jg, h3, tag, h4, jv, h5, js, h6, vals, h7, rfl⟩ := hm
      rw [req_ok] at h1 h3 h5
      rw [asArr_ok] at h6
      have e1 := asNat_ok h4
      subst h6 e1
      obtain ⟨_, e2⟩ := abs_sumType f _ _ h2
      have e3 := enc_vals_of fnSig f ih js vals h7
      simp [val, members, htag, get_of_field h1, get_of_field h3, get_of_field h5, items, encVal, e2, e3,
        bind, Except.bind, pure, Except.pure]
    · -- Tuple
      simp only [bind_eq_ok, pure_eq_ok] at hm
      obtain ⟨jv, h5, js, h6, vals, h7, rfl⟩ := hm
      rw [req_ok] at h5
      rw [asArr_ok] at h6
      subst h6
      have e3 := enc_vals_of fnSig f ih js vals h7
      simp [val, members, htag, get_of_field h5, items, encVal, e3, bind, Except.bind, pure, Except.pure]
    · -- Function
      simp only [bind_eq_ok, pure_eq_ok] at hm
      obtain ⟨body, h1, ⟨i, o, r⟩, h2, rfl⟩ := hm
      rw [req_ok] at h1
      simp [val, members, htag, get_of_field h1, encVal, pure, Except.pure]
    · -- Extension
      simp only [bind_eq_ok, pure_eq_ok] at hm
      obtain ⟨jv, h1, vk, h2, jc, h3, c, h4, jt, h5, t, h6, pl, h7, je, h8, es, h9, rfl⟩ := hm
      rw [req_ok] at h1 h3 h5 h7 h8
      rw [asObj_ok] at h2
      rw [asStr_ok] at h4
      have e1 := decStrs_ok h9
      subst h2 h4 e1
      obtain ⟨_, e2⟩ := abs_ty f _ _ h6
      simp [val, members, htag, get_of_field h1, get_of_field h3, get_of_field h5, get_of_field h7,
        get_of_field h8, encVal, e2, bind, Except.bind, pure, Except.pure]
    · cases hm

/-! ### members of a node -/

/-- a row member with default `[]` -/
def rowD (f : Nat) (k : String) (kvs : List (String × Json)) : Json :=
  match field k kvs with
  | none => .arr []
  | some j => row f j

def rowsOf (f : Nat) (j : Json) : Json := .arr ((items j).map (row f))

def rowsD (f : Nat) (k : String) (kvs : List (String × Json)) : Json :=
  match field k kvs with
  | none => .arr []
  | some j => rowsOf f j

def argsOf (f : Nat) (j : Json) : Json := .arr ((items j).map (arg f))

def argsD (f : Nat) (k : String) (kvs : List (String × Json)) : Json :=
  match field k kvs with
  | none => .arr []
  | some j => argsOf f j

/-- the `signature` member with its default, the empty function type -/
def sigD (f : Nat) (keepReqs : Bool) (kvs : List (String × Json)) : Json :=
  match field "signature" kvs with
  | none => .obj [("t", .str "G"), ("input", .arr []), ("output", .arr []), ("runtime_reqs", .arr [])]
  | some j => funcType f keepReqs j

/-- `func_sig`, `type_args`, `instantiation` of `Call` / `LoadFunction` -/
def callFields (f : Nat) (kvs : List (String × Json)) : List (String × Json) :=
  let fs := get "func_sig" kvs
  if (items (get "params" (members fs))).length = 0 then
    [("func_sig", poly f true fs), ("type_args", .arr []), ("instantiation", funcType f true (get "body" (members fs)))]
  else
    [("func_sig", poly f true fs), ("type_args", argsOf f (get "type_args" kvs)),
      ("instantiation", funcType f true (get "instantiation" kvs))]

/-- The projection of a serialised node with the `parent` member replaced by `parent` (re-saving
    renumbers the nodes); `pv` projects the constant of a `Const`. -/
def opAt (parent : Json) (pv : Json → Json) (f : Nat) (j : Json) : Json :=
  let kvs := members j
  let tag := tagOf "op" kvs
  let hd := fun (rest : List (String × Json)) => Json.obj (("parent", parent) :: ("op", .str tag) :: rest)
  if tag = "Module" then hd []
  else if tag = "FuncDefn" then hd [("name", get "name" kvs), ("signature", poly f false (get "signature" kvs))]
  else if tag = "FuncDecl" then hd [("name", get "name" kvs), ("signature", poly f true (get "signature" kvs))]
  else if tag = "Const" then hd [("v", pv (get "v" kvs))]
  else if tag = "DataflowBlock" then
    hd [("inputs", rowD f "inputs" kvs), ("other_outputs", rowD f "other_outputs" kvs),
      ("sum_rows", rowsOf f (get "sum_rows" kvs)), ("extension_delta", getD "extension_delta" kvs (.arr []))]
  else if tag = "ExitBlock" then hd [("cfg_outputs", row f (get "cfg_outputs" kvs))]
  else if tag = "Input" then hd [("types", rowD f "types" kvs)]
  else if tag = "Output" then hd [("types", rowD f "types" kvs)]
  else if tag = "Call" then hd (callFields f kvs)
  else if tag = "CallIndirect" then hd [("signature", sigD f true kvs)]
  else if tag = "LoadConstant" then hd [("datatype", ty f (get "datatype" kvs))]
  else if tag = "LoadFunction" then hd (callFields f kvs)
  else if tag = "DFG" then hd [("signature", sigD f true kvs)]
  else if tag = "Conditional" then
    hd [("other_inputs", rowD f "other_inputs" kvs), ("outputs", rowD f "outputs" kvs),
      ("sum_rows", rowsD f "sum_rows" kvs), ("extension_delta", .arr [])]
  else if tag = "Case" then hd [("signature", sigD f false kvs)]
  else if tag = "TailLoop" then
    hd [("just_inputs", rowD f "just_inputs" kvs), ("just_outputs", rowD f "just_outputs" kvs),
      ("rest", rowD f "rest" kvs), ("extension_delta", getD "extension_delta" kvs (.arr []))]
  else if tag = "CFG" then hd [("signature", sigD f false kvs)]
  else if tag = "Extension" then
    hd [("extension", get "extension" kvs), ("name", get "name" kvs), ("signature", sigD f true kvs),
      ("description", getD "description" kvs (.str "")), ("args", argsD f "args" kvs)]
  else if tag = "Tag" then hd [("tag", get "tag" kvs), ("variants", rowsOf f (get "variants" kvs))]
  else if tag = "AliasDecl" then hd [("name", get "name" kvs), ("bound", get "bound" kvs)]
  else if tag = "AliasDefn" then hd [("name", get "name" kvs), ("definition", ty f (get "definition" kvs))]
  else .null

/-- The projection of a serialised node. -/
def op (pv : Json → Json) (f : Nat) (j : Json) : Json := opAt (get "parent" (members j)) pv f j

/-! ### member-level lemmas -/

theorem liftDec_ok {α : Type} (x : Except DecErr α) (a : α) : liftDec x = .ok a ↔ x = .ok a := by
  cases x with
  | ok v => simp [liftDec]
  | error e => cases e <;> simp [liftDec]

theorem m_str {k : String} {kvs : List (String × Json)} {s : String}
    (h : liftDec (do asStr (← req k kvs)) = .ok s) : get k kvs = .str s := by
  simp only [liftDec_ok, bind_eq_ok] at h
  obtain ⟨j, h1, h2⟩ := h
  rw [req_ok] at h1
  rw [asStr_ok] at h2
  rw [get_of_field h1, h2]

theorem m_int {k : String} {kvs : List (String × Json)} {i : Int}
    (h : liftDec (do asInt (← req k kvs)) = .ok i) : get k kvs = .int i := by
  simp only [liftDec_ok, bind_eq_ok] at h
  obtain ⟨j, h1, h2⟩ := h
  rw [req_ok] at h1
  rw [asInt_ok] at h2
  rw [get_of_field h1, h2]

theorem m_bound {k : String} {kvs : List (String × Json)} {b : Bound}
    (h : liftDec (do decBound (← req k kvs)) = .ok b) : get k kvs = encBound b := by
  simp only [liftDec_ok, bind_eq_ok] at h
  obtain ⟨j, h1, h2⟩ := h
  rw [req_ok] at h1
  rw [get_of_field h1, decBound_ok h2]

theorem encRowJ_of {f : Nat} {j : Json} {ts : List Ty} (h : decRow f j = .ok ts) : encRowJ ts = .ok (row f j) := by
  obtain ⟨js, h1, h2⟩ := abs_row f j ts h
  simp [encRowJ, h1, h2, liftEnc, bind, Except.bind, pure, Except.pure]

theorem m_row {f : Nat} {k : String} {kvs : List (String × Json)} {ts : List Ty}
    (h : liftDec (do decRow f (← req k kvs)) = .ok ts) : encRowJ ts = .ok (row f (get k kvs)) := by
  simp only [liftDec_ok, bind_eq_ok] at h
  obtain ⟨j, h1, h2⟩ := h
  rw [req_ok] at h1
  rw [get_of_field h1]
  exact encRowJ_of h2

theorem m_rowD {f : Nat} {k : String} {kvs : List (String × Json)} {ts : List Ty}
    (h : liftDec (optField k kvs [] (decRow f)) = .ok ts) : encRowJ ts = .ok (rowD f k kvs) := by
  rw [liftDec_ok] at h
  unfold optField at h
  unfold rowD
  split at h
  · rename_i hf; cases h; simp [hf, encRowJ, encRow, liftEnc, bind, Except.bind, pure, Except.pure]
  · rename_i j hf; simp only [hf]; exact encRowJ_of h

theorem encRowsJ_of {f : Nat} {j : Json} {rows : List (List Ty)} (h : decRowsField f j = .ok rows) :
    encRowsJ rows = .ok (rowsOf f j) := by
  simp only [decRowsField, bind_eq_ok] at h
  obtain ⟨js, h1, h2⟩ := h
  rw [asArr_ok] at h1
  subst h1
  simp [encRowsJ, rowsOf, items, abs_rows f js rows h2, liftEnc, bind, Except.bind, pure, Except.pure]

theorem m_rows {f : Nat} {k : String} {kvs : List (String × Json)} {rows : List (List Ty)}
    (h : liftDec (do decRowsField f (← req k kvs)) = .ok rows) : encRowsJ rows = .ok (rowsOf f (get k kvs)) := by
  simp only [liftDec_ok, bind_eq_ok] at h
  obtain ⟨j, h1, h2⟩ := h
  rw [req_ok] at h1
  rw [get_of_field h1]
  exact encRowsJ_of h2

theorem m_rowsD {f : Nat} {k : String} {kvs : List (String × Json)} {rows : List (List Ty)}
    (h : liftDec (optField k kvs [] (decRowsField f)) = .ok rows) : encRowsJ rows = .ok (rowsD f k kvs) := by
  rw [liftDec_ok] at h
  unfold optField at h
  unfold rowsD
  split at h
  · rename_i hf; cases h; simp [hf, encRowsJ, encRows, liftEnc, bind, Except.bind, pure, Except.pure]
  · rename_i j hf; simp only [hf]; exact encRowsJ_of h

theorem encArgsJ_of {f : Nat} {j : Json} {as : List TypeArg} (h : decArgsField f j = .ok as) :
    encArgsJ as = .ok (argsOf f j) := by
  simp only [decArgsField, bind_eq_ok] at h
  obtain ⟨js, h1, h2⟩ := h
  rw [asArr_ok] at h1
  subst h1
  simp [encArgsJ, argsOf, items, abs_args f js as h2, liftEnc, bind, Except.bind, pure, Except.pure]

theorem m_args {f : Nat} {k : String} {kvs : List (String × Json)} {as : List TypeArg}
    (h : liftDec (do decArgsField f (← req k kvs)) = .ok as) : encArgsJ as = .ok (argsOf f (get k kvs)) := by
  simp only [liftDec_ok, bind_eq_ok] at h
  obtain ⟨j, h1, h2⟩ := h
  rw [req_ok] at h1
  rw [get_of_field h1]
  exact encArgsJ_of h2

theorem m_argsD {f : Nat} {k : String} {kvs : List (String × Json)} {as : List TypeArg}
    (h : liftDec (optField k kvs [] (decArgsField f)) = .ok as) : encArgsJ as = .ok (argsD f k kvs) := by
  rw [liftDec_ok] at h
  unfold optField at h
  unfold argsD
  split at h
  · rename_i hf; cases h; simp [hf, encArgsJ, encArgs, liftEnc, bind, Except.bind, pure, Except.pure]
  · rename_i j hf; simp only [hf]; exact encArgsJ_of h

theorem encSig_of {f : Nat} {j : Json} {s : Sig} (h : decSigField f j = .ok s) :
    encSig s = .ok (funcType f true j) ∧ encSig ⟨s.inp, s.out, []⟩ = .ok (funcType f false j) := by
  simp only [decSigField, bind_eq_ok, pure_eq_ok] at h
  obtain ⟨⟨i, o, r⟩, h1, rfl⟩ := h
  obtain ⟨e1, e2⟩ := abs_funcType f j i o r h1
  simp [encSig, Sig.toTy, e1, e2, liftEnc]

theorem m_sig {f : Nat} {k : String} {kvs : List (String × Json)} {s : Sig}
    (h : liftDec (do decSigField f (← req k kvs)) = .ok s) : encSig s = .ok (funcType f true (get k kvs)) := by
  simp only [liftDec_ok, bind_eq_ok] at h
  obtain ⟨j, h1, h2⟩ := h
  rw [req_ok] at h1
  rw [get_of_field h1]
  exact (encSig_of h2).1

theorem m_sigD {f : Nat} {kvs : List (String × Json)} {s : Sig}
    (h : liftDec (optField "signature" kvs Sig.empty (decSigField f)) = .ok s) :
    encSig s = .ok (sigD f true kvs) ∧ encSig ⟨s.inp, s.out, []⟩ = .ok (sigD f false kvs) := by
  rw [liftDec_ok] at h
  unfold optField at h
  unfold sigD
  split at h
  · rename_i hf; cases h
    simp [hf, encSig, Sig.toTy, Sig.empty, encTy, encRow, encStrs, liftEnc, bind, Except.bind, pure, Except.pure]
  · rename_i j hf; simp only [hf]; exact encSig_of h

theorem m_poly {f : Nat} {k : String} {kvs : List (String × Json)} {p : Poly}
    (h : liftDec (do decPolyField f (← req k kvs)) = .ok p) :
    encPoly p = .ok (poly f true (get k kvs)) ∧
    encPoly ⟨p.params, ⟨p.body.inp, p.body.out, []⟩⟩ = .ok (poly f false (get k kvs)) ∧
    p.params.length = (items (get "params" (members (get k kvs)))).length ∧
    encSig p.body = .ok (funcType f true (get "body" (members (get k kvs)))) := by
  simp only [liftDec_ok, bind_eq_ok] at h
  obtain ⟨j, h1, h2⟩ := h
  rw [req_ok] at h1
  rw [get_of_field h1]
  simp only [decPolyField, bind_eq_ok] at h2
  obtain ⟨t, h3, h4⟩ := h2
  obtain ⟨ps, i, o, r, rfl, e1, e2, e3, e4⟩ := abs_poly f j t h3
  simp only [pure_eq_ok] at h4
  subst h4
  simp [encPoly, encSig, Poly.toTy, Sig.toTy, e1, e2, e3, e4, liftEnc]

theorem m_strs {k : String} {kvs : List (String × Json)} {d : List String}
    (h : liftDec (optField k kvs [] decStrs) = .ok d) : getD k kvs (.arr []) = encStrs d := by
  rw [liftDec_ok] at h
  unfold optField at h
  unfold getD
  split at h
  · rename_i hf; cases h; simp [hf, encStrs]
  · rename_i j hf; simp [hf, decStrs_ok h]

theorem m_strD {k : String} {kvs : List (String × Json)} {d : String}
    (h : liftDec (optField k kvs "" asStr) = .ok d) : getD k kvs (.str "") = .str d := by
  rw [liftDec_ok] at h
  unfold optField at h
  unfold getD
  split at h
  · rename_i hf; cases h; simp [hf]
  · rename_i j hf; rw [asStr_ok] at h; simp [hf, h]

theorem m_type {f : Nat} {k : String} {kvs : List (String × Json)} {t : Ty}
    (h : liftDec (do decTy f (← req k kvs)) = .ok t) : encTypeField t = .ok (ty f (get k kvs)) := by
  simp only [liftDec_ok, bind_eq_ok] at h
  obtain ⟨j, h1, h2⟩ := h
  rw [req_ok] at h1
  rw [get_of_field h1]
  obtain ⟨e1, e2⟩ := abs_ty f j t h2
  rw [encTypeField_ok]
  exact ⟨e1, e2⟩

theorem m_call {f : Nat} {kvs : List (String × Json)} {p : Poly} {inst : Sig} {args : List TypeArg}
    (h : decCallFields f kvs = .ok (p, inst, args)) :
    ∃ a b c, encPoly p = .ok a ∧ encArgsJ args = .ok b ∧ encSig inst = .ok c ∧
      callFields f kvs = [("func_sig", a), ("type_args", b), ("instantiation", c)] := by
  simp only [decCallFields, bind_eq_ok] at h
  obtain ⟨p', h1, args', h2, inst', h3, hm⟩ := h
  obtain ⟨e1, _, e3, e4⟩ := m_poly h1
  have e5 := m_args h2
  have e6 := m_sig h3
  unfold callOrLoadInit at hm
  by_cases h0 : p'.params.length = 0
  · simp only [h0, if_true, pure_eq_ok, Prod.mk.injEq] at hm
    obtain ⟨rfl, rfl, rfl⟩ := hm
    refine ⟨_, .arr [], _, e1, ?_, e4, ?_⟩
    · show encArgsJ [] = .ok (.arr [])
      simp [encArgsJ, encArgs, liftEnc, bind, Except.bind, pure, Except.pure]
    · simp [callFields, ← e3, h0]
  · simp only [h0, if_false] at hm
    by_cases hl : p'.params.length = args'.length
    · simp only [hl, ne_eq, not_true_eq_false, if_false, pure_eq_ok, Prod.mk.injEq] at hm
      obtain ⟨rfl, rfl, rfl⟩ := hm
      exact ⟨_, _, _, e1, e5, e6, by simp [callFields, ← e3, h0]⟩
    · simp [hl, throw, throwThe, MonadExceptOf.throw] at hm

/-! ### operations -/

/-- **Operations**, relative to a value decoder with its projection. -/
theorem abs_decWith (vdec : Json → Except DecErr Value) (pv : Json → Json)
    (hv : ∀ jv v, vdec jv = .ok v → encVal v = .ok (pv jv)) (f : Nat) (j : Json) (o : Op) (p : Int)
    (h : decWith vdec f j = .ok (o, p)) :
    get "parent" (members j) = .int p ∧ ∀ q, encOp o q = .ok (opAt (.int q) pv f j) := by
  simp only [decWith, bind_eq_ok, pure_eq_ok, Prod.mk.injEq] at h
  obtain ⟨kvs, hj, tag, ht, par, hp, o', hk, rfl, rfl⟩ := h
  rw [liftDec_ok, asObj_ok] at hj
  subst hj
  have htag : tagOf "op" kvs = tag := by
    have := m_str ht
    simp only [liftDec_ok, bind_eq_ok] at ht
    obtain ⟨jt, h1, h2⟩ := ht
    rw [req_ok] at h1
    rw [asStr_ok] at h2
    subst h2
    exact tagOf_of_field h1
  refine ⟨m_int hp, fun q => ?_⟩
  unfold decKind at hk
  by_cases e : tag = "Module"
  · rw [if_pos e] at hk; subst e
    simp only [decModule, pure_eq_ok] at hk
    subst hk
    simp [opAt, members, htag, encOp, pure, Except.pure]
  rw [if_neg e] at hk; clear e
  by_cases e : tag = "FuncDefn"
  · rw [if_pos e] at hk; subst e
    simp only [decFuncDefn, bind_eq_ok, pure_eq_ok] at hk
    obtain ⟨n, h1, q, h2, rfl⟩ := hk
    obtain ⟨_, e2, _, _⟩ := m_poly h2
    simp [opAt, members, htag, m_str h1, encOp, need, e2, bind, Except.bind, pure, Except.pure]
  rw [if_neg e] at hk; clear e
  by_cases e : tag = "FuncDecl"
  · rw [if_pos e] at hk; subst e
    simp only [decFuncDecl, bind_eq_ok, pure_eq_ok] at hk
    obtain ⟨n, h1, q, h2, rfl⟩ := hk
    obtain ⟨e2, _, _, _⟩ := m_poly h2
    simp [opAt, members, htag, m_str h1, encOp, e2, bind, Except.bind, pure, Except.pure]
  rw [if_neg e] at hk; clear e
  by_cases e : tag = "Const"
  · rw [if_pos e] at hk; subst e
    simp only [decConst, bind_eq_ok, pure_eq_ok, liftDec_ok] at hk
    obtain ⟨v, ⟨jv, h1, h2⟩, rfl⟩ := hk
    rw [req_ok] at h1
    simp [opAt, members, htag, get_of_field h1, encOp, hv jv v h2, liftEnc, bind, Except.bind, pure, Except.pure]
  rw [if_neg e] at hk; clear e
  by_cases e : tag = "DataflowBlock"
  · rw [if_pos e] at hk; subst e
    simp only [decDataflowBlock, bind_eq_ok, pure_eq_ok] at hk
    obtain ⟨i, h1, oo, h2, rows, h3, d, h4, rfl⟩ := hk
    simp [opAt, members, htag, encOp, need, m_rowD h1, m_rowD h2, m_rows h3, m_strs h4, SumTy.rows,
      bind, Except.bind, pure, Except.pure]
  rw [if_neg e] at hk; clear e
  by_cases e : tag = "ExitBlock"
  · rw [if_pos e] at hk; subst e
    simp only [decExitBlock, bind_eq_ok, pure_eq_ok] at hk
    obtain ⟨o, h1, rfl⟩ := hk
    simp [opAt, members, htag, encOp, need, m_row h1, bind, Except.bind, pure, Except.pure]
  rw [if_neg e] at hk; clear e
  by_cases e : tag = "Input"
  · rw [if_pos e] at hk; subst e
    simp only [decInput, bind_eq_ok, pure_eq_ok] at hk
    obtain ⟨o, h1, rfl⟩ := hk
    simp [opAt, members, htag, encOp, need, m_rowD h1, bind, Except.bind, pure, Except.pure]
  rw [if_neg e] at hk; clear e
  by_cases e : tag = "Output"
  · rw [if_pos e] at hk; subst e
    simp only [decOutput, bind_eq_ok, pure_eq_ok] at hk
    obtain ⟨o, h1, rfl⟩ := hk
    simp [opAt, members, htag, encOp, need, m_rowD h1, bind, Except.bind, pure, Except.pure]
  rw [if_neg e] at hk; clear e
  by_cases e : tag = "Call"
  · rw [if_pos e] at hk; subst e
    simp only [decCall, bind_eq_ok, pure_eq_ok] at hk
    obtain ⟨⟨q, inst, args⟩, h1, rfl⟩ := hk
    obtain ⟨a, b, c, e1, e2, e3, e4⟩ := m_call h1
    simp [opAt, members, htag, encOp, e1, e2, e3, e4, bind, Except.bind, pure, Except.pure]
  rw [if_neg e] at hk; clear e
  by_cases e : tag = "CallIndirect"
  · rw [if_pos e] at hk; subst e
    simp only [decCallIndirect, bind_eq_ok, pure_eq_ok] at hk
    obtain ⟨s, h1, rfl⟩ := hk
    simp [opAt, members, htag, encOp, need, (m_sigD h1).1, bind, Except.bind, pure, Except.pure]
  rw [if_neg e] at hk; clear e
  by_cases e : tag = "LoadConstant"
  · rw [if_pos e] at hk; subst e
    simp only [decLoadConstant, bind_eq_ok, pure_eq_ok] at hk
    obtain ⟨t, h1, rfl⟩ := hk
    simp [opAt, members, htag, encOp, need, m_type h1, bind, Except.bind, pure, Except.pure]
  rw [if_neg e] at hk; clear e
  by_cases e : tag = "LoadFunction"
  · rw [if_pos e] at hk; subst e
    simp only [decLoadFunction, bind_eq_ok, pure_eq_ok] at hk
    obtain ⟨⟨q, inst, args⟩, h1, rfl⟩ := hk
    obtain ⟨a, b, c, e1, e2, e3, e4⟩ := m_call h1
    simp [opAt, members, htag, encOp, e1, e2, e3, e4, bind, Except.bind, pure, Except.pure]
  rw [if_neg e] at hk; clear e
  by_cases e : tag = "DFG"
  · rw [if_pos e] at hk; subst e
    simp only [decDFG, bind_eq_ok, pure_eq_ok] at hk
    obtain ⟨s, h1, rfl⟩ := hk
    simp [opAt, members, htag, encOp, need, (m_sigD h1).1, bind, Except.bind, pure, Except.pure]
  rw [if_neg e] at hk; clear e
  by_cases e : tag = "Conditional"
  · rw [if_pos e] at hk; subst e
    simp only [decConditional, bind_eq_ok, pure_eq_ok] at hk
    obtain ⟨oi, h1, o, h2, rows, h3, d, h4, rfl⟩ := hk
    simp [opAt, members, htag, encOp, need, m_rowD h1, m_rowD h2, m_rowsD h3, SumTy.rows,
      bind, Except.bind, pure, Except.pure]
  rw [if_neg e] at hk; clear e
  by_cases e : tag = "Case"
  · rw [if_pos e] at hk; subst e
    simp only [decCase, bind_eq_ok, pure_eq_ok] at hk
    obtain ⟨s, h1, rfl⟩ := hk
    simp [opAt, members, htag, encOp, need, (m_sigD h1).2, bind, Except.bind, pure, Except.pure]
  rw [if_neg e] at hk; clear e
  by_cases e : tag = "TailLoop"
  · rw [if_pos e] at hk; subst e
    simp only [decTailLoop, bind_eq_ok, pure_eq_ok] at hk
    obtain ⟨ji, h1, jo, h2, rest, h3, d, h4, rfl⟩ := hk
    simp [opAt, members, htag, encOp, need, m_rowD h1, m_rowD h2, m_rowD h3, m_strs h4,
      bind, Except.bind, pure, Except.pure]
  rw [if_neg e] at hk; clear e
  by_cases e : tag = "CFG"
  · rw [if_pos e] at hk; subst e
    simp only [decCFG, bind_eq_ok, pure_eq_ok] at hk
    obtain ⟨s, h1, rfl⟩ := hk
    simp [opAt, members, htag, encOp, need, (m_sigD h1).2, bind, Except.bind, pure, Except.pure]
  rw [if_neg e] at hk; clear e
  by_cases e : tag = "Extension"
  · rw [if_pos e] at hk; subst e
    simp only [decExtensionOp, bind_eq_ok, pure_eq_ok] at hk
    obtain ⟨ex, h1, n, h2, s, h3, d, h4, a, h5, rfl⟩ := hk
    simp [opAt, members, htag, encOp, encCustom, m_str h1, m_str h2, (m_sigD h3).1, m_strD h4, m_argsD h5,
      bind, Except.bind, pure, Except.pure]
  rw [if_neg e] at hk; clear e
  by_cases e : tag = "Tag"
  · rw [if_pos e] at hk; subst e
    simp only [decTag, bind_eq_ok, pure_eq_ok] at hk
    obtain ⟨t, h1, rows, h2, rfl⟩ := hk
    simp [opAt, members, htag, encOp, m_int h1, m_rows h2, SumTy.rows, bind, Except.bind, pure, Except.pure]
  rw [if_neg e] at hk; clear e
  by_cases e : tag = "AliasDecl"
  · rw [if_pos e] at hk; subst e
    simp only [decAliasDecl, bind_eq_ok, pure_eq_ok] at hk
    obtain ⟨n, h1, b, h2, rfl⟩ := hk
    simp [opAt, members, htag, encOp, m_str h1, m_bound h2, pure, Except.pure]
  rw [if_neg e] at hk; clear e
  by_cases e : tag = "AliasDefn"
  · rw [if_pos e] at hk; subst e
    simp only [decAliasDefn, bind_eq_ok, pure_eq_ok] at hk
    obtain ⟨n, h1, t, h2, rfl⟩ := hk
    simp [opAt, members, htag, encOp, m_str h1, m_type h2, bind, Except.bind, pure, Except.pure]
  rw [if_neg e] at hk
  cases hk

/-- **Operations**: a decoded node encodes to the projection of the document it was decoded from. -/
theorem abs_op (f : Nat) (j : Json) (o : Op) (p : Int) (h : decOp (f + 1) j = .ok (o, p)) :
    encOp o p = .ok (op (val f) f j) := by
  rw [decOp] at h
  obtain ⟨h1, h2⟩ := abs_decWith _ (val f) (fun jv v hv => abs_val (fnSig f) f jv v hv) f j o p h
  rw [op, h1]
  exact h2 p

/-- … and at any other position of its parent: the node with the `parent` member replaced. -/
theorem abs_op_at (f : Nat) (j : Json) (o : Op) (p : Int) (h : decOp (f + 1) j = .ok (o, p)) (q : Int) :
    encOp o q = .ok (opAt (.int q) (val f) f j) := by
  rw [decOp] at h
  exact (abs_decWith _ (val f) (fun jv v hv => abs_val (fnSig f) f jv v hv) f j o p h).2 q

end HugrVerif.Proj
