/-
  The value layer of the codec (C14 `enc_inhabits`; reused by C05):
  decoding the encoding of a constant gives back its normal form (`Value.norm`: the types inside in
  the decoder's normal form `Ty.norm`, i.e. extension types in opaque form), which reports the
  normal form of the original's type and is well-formed whenever the original is.

  `fnSig` (the inner signature of the root operation of a serialised HUGR) is a parameter supplied
  by the operation layer; `Value.Codable fnSig v` says that it returns, for every function constant
  inside `v`, the signature the constant carries, that the `typ` of every general sum is a sum type
  (Python cannot serialise anything else: `stys.SumType(root=…)`), and that no extension constant
  reports a polymorphic function type (not a member of the serialised `Type` union).
-/
import HugrVerif.Proofs.ValSpec

set_option linter.unusedSimpArgs false
set_option linter.unusedVariables false

namespace HugrVerif
open Ty

namespace Value

mutual
  /-- what decoding the encoding returns -/
  def norm : Value → Value
    | .sum tag typ vals => .sum tag typ.norm (normList vals)
    | .tuple vals => .tuple (normList vals)
    | .function i o r body => .function (normRow i) (normRow o) r body
    | .ext name typ payload exts => .ext name typ.norm payload exts
  def normList : List Value → List Value
    | [] => []
    | v :: vs => norm v :: normList vs
end

mutual
  /-- sufficient fuel for `decVal` -/
  def depth : Value → Nat
    | .sum _ typ vals => max typ.depth (depthList vals) + 1
    | .tuple vals => depthList vals + 1
    | .function _ _ _ _ => 1
    | .ext _ typ _ _ => typ.depth + 1
  def depthList : List Value → Nat
    | [] => 0
    | v :: vs => max (depth v) (depthList vs)
end

mutual
  def Codable (fnSig : Json → Except Codec.DecErr (List Ty × List Ty × List String)) : Value → Prop
    | .sum _ typ vals => typ.isSum = true ∧ CodableList fnSig vals
    | .tuple vals => CodableList fnSig vals
    | .function i o r body => fnSig body = .ok (normRow i, normRow o, r)
    | .ext _ typ _ _ => typ.isPoly = false
  def CodableList (fnSig : Json → Except Codec.DecErr (List Ty × List Ty × List String)) : List Value → Prop
    | [] => True
    | v :: vs => Codable fnSig v ∧ CodableList fnSig vs
end

theorem normList_eq_map (vs : List Value) : normList vs = vs.map norm := by
  induction vs with
  | nil => rfl
  | cons v vs ih => rw [normList, ih]; rfl

theorem codableList_iff (fnSig) (vs : List Value) : CodableList fnSig vs ↔ ∀ v ∈ vs, Codable fnSig v := by
  induction vs with
  | nil => simp [CodableList]
  | cons v vs ih => simp [CodableList, ih]

theorem depth_le_depthList {v : Value} : ∀ {vs : List Value}, v ∈ vs → v.depth ≤ depthList vs
  | [], h => nomatch h
  | w :: ws, h => by
    rcases List.mem_cons.1 h with rfl | h
    · simp [depthList]; omega
    · have := depth_le_depthList h; simp [depthList]; omega

/-! ### the normal form reports the normal form of the type, and stays well-formed -/

mutual
  theorem typeOf_norm : ∀ (v : Value), typeOf (norm v) = Ty.norm (typeOf v)
    | .sum tag typ vals => rfl
    | .tuple vals => by
      simp only [norm, typeOf, Ty.tuple, Ty.norm, normRows, typesOf_normList vals]
    | .function i o r body => rfl
    | .ext name typ payload exts => rfl
  theorem typesOf_normList : ∀ (vs : List Value), typesOf (normList vs) = normRow (typesOf vs)
    | [] => rfl
    | v :: vs => by simp only [normList, typesOf, normRow, typeOf_norm v, typesOf_normList vs]
end

mutual
  theorem valid_norm : ∀ (v : Value), valid v = true → valid (norm v) = true
    | .sum tag typ vals, h => by
      simp only [valid] at h
      simp only [norm, valid, variant_norm]
      cases hv : variant typ tag with
      | none => rw [hv] at h; simp at h
      | some row =>
        rw [hv] at h
        simp only [Bool.and_eq_true] at h
        simp only [Option.map_some, Bool.and_eq_true]
        refine ⟨?_, validList_norm vals h.2⟩
        rw [typesOf_normList, Ty.sameRow_iff]
        exact Ty.SameRow.normRow ((Ty.sameRow_iff _ _).1 h.1)
    | .tuple vals, h => by
      simp only [valid] at h
      simp only [norm, valid]
      exact validList_norm vals h
    | .function i o r body, _ => rfl
    | .ext name typ payload exts, h => by
      simp only [valid] at h
      simp only [norm, valid, isRowVar_norm]
      exact h
  theorem validList_norm : ∀ (vs : List Value), validList vs = true → validList (normList vs) = true
    | [], _ => rfl
    | v :: vs, h => by
      simp only [validList, Bool.and_eq_true] at h
      simp only [normList, validList, Bool.and_eq_true]
      exact ⟨valid_norm v h.1, validList_norm vs h.2⟩
end

/-- A well-formed constant stays well-formed through the codec's normal form, at the normal form of
    its type. -/
theorem inhabits_norm (v : Value) (h : Inhabits v (typeOf v)) : Inhabits (norm v) (Ty.norm (typeOf v)) := by
  rw [← typeOf_norm]
  exact (valid_iff _).1 (valid_norm v ((valid_iff v).2 h))

end Value

/-! ### round trip -/

namespace Codec
open Json Value

theorem encVals_eq_mapM (vs : List Value) : encVals vs = vs.mapM encVal := by
  induction vs with
  | nil => rfl
  | cons v vs ih =>
    rw [encVals, ih, ExceptList.mapM_cons]
    cases encVal v <;> simp only [bind, Except.bind, pure, Except.pure]
    cases vs.mapM encVal <;> rfl

theorem encVals_length : ∀ (vs : List Value) (js : List Json), encVals vs = .ok js → js.length = vs.length
  | [], js, h => by
    simp only [encVals, pure, Except.pure, Except.ok.injEq] at h
    subst h; rfl
  | v :: vs, js, h => by
    rw [encVals_eq_mapM] at h
    obtain ⟨y, ys, _, h3, rfl⟩ := (ExceptList.mapM_ok_cons_iff encVal v vs js).1 h
    rw [← encVals_eq_mapM] at h3
    simp [encVals_length vs ys h3]

theorem decVal_succ_obj (fnSig) (fuel : Nat) (kvs : List (String × Json)) :
    decVal fnSig (fuel + 1) (.obj kvs) = (do
      match ← asStr (← req "v" kvs) with
      | "Sum" => do
        let typ ← decSumType fuel (← req "typ" kvs)
        pure (.sum (← asNat (← req "tag" kvs)) typ (← (← asArr (← req "vs" kvs)).mapM (decVal fnSig fuel)))
      | "Tuple" => do pure (.tuple (← (← asArr (← req "vs" kvs)).mapM (decVal fnSig fuel)))
      | "Function" => do
        let body ← req "hugr" kvs
        let (i, o, r) ← fnSig body
        pure (.function i o r body)
      | "Extension" => do
        let vkvs ← asObj (← req "value" kvs)
        pure (.ext (← asStr (← req "c" vkvs)) (← decTy fuel (← req "typ" kvs)) (← req "v" vkvs)
          (← decStrs (← req "extensions" kvs)))
      | _ => throw .validation) := by
  rw [decVal]
  rfl

theorem asNat_natCast (n : Nat) : asNat (.int (n : Int)) = .ok n := by
  simp [asNat, asInt, bind, Except.bind, pure, Except.pure]

theorem decSumType_encTy_isSum (typ : Ty) (jt : Json) (f : Nat) (hs : typ.isSum = true)
    (h : encTy typ = .ok jt) (hd : typ.depth ≤ f) : decSumType f jt = .ok typ.norm := by
  cases typ <;> simp [Ty.isSum] at hs
  · rename_i rows
    exact decSumType_encTy_sum rows jt f h (by simp [Ty.depth] at hd; omega)
  · rename_i n
    rw [decSumType_encTy_unitSum n jt f h]; rfl

section
variable (fnSig : Json → Except DecErr (List Ty × List Ty × List String))

mutual
  theorem decVal_encVal_aux : ∀ (v : Value) (j : Json) (fuel : Nat), Codable fnSig v →
      encVal v = .ok j → v.depth ≤ fuel → decVal fnSig fuel j = .ok v.norm
    | .sum tag typ vals, j, fuel, hc, h, hd => by
      obtain ⟨f, rfl, hf⟩ : ∃ f, fuel = f + 1 ∧ max typ.depth (depthList vals) ≤ f :=
        ⟨fuel - 1, by simp [Value.depth] at hd; omega, by simp [Value.depth] at hd; omega⟩
      simp only [Codable] at hc
      simp only [encVal, bind, Except.bind] at h
      cases ht : encTy typ with
      | error e => rw [ht] at h; cases h
      | ok jt =>
        rw [ht] at h
        cases hvs : encVals vals with
        | error e => rw [hvs] at h; cases h
        | ok js =>
          rw [hvs] at h
          simp only [pure, Except.pure, Except.ok.injEq] at h
          subst h
          have h1 := decSumType_encTy_isSum typ jt f hc.1 ht (by omega)
          have h2 := decVals_encVals_aux vals js f hc.2 hvs (by omega)
          rw [decVal_succ_obj]
          simp [req, field, asStr, asArr, asNat_natCast, h1, h2, Value.norm, bind, Except.bind, pure, Except.pure]
    | .tuple vals, j, fuel, hc, h, hd => by
      obtain ⟨f, rfl, hf⟩ : ∃ f, fuel = f + 1 ∧ depthList vals ≤ f :=
        ⟨fuel - 1, by simp [Value.depth] at hd; omega, by simp [Value.depth] at hd; omega⟩
      simp only [Codable] at hc
      simp only [encVal, bind, Except.bind] at h
      cases hvs : encVals vals with
      | error e => rw [hvs] at h; cases h
      | ok js =>
        rw [hvs] at h
        simp only [pure, Except.pure, Except.ok.injEq] at h
        subst h
        have h2 := decVals_encVals_aux vals js f hc hvs hf
        rw [decVal_succ_obj]
        simp [req, field, asStr, asArr, h2, Value.norm, bind, Except.bind, pure, Except.pure]
    | .function i o r body, j, fuel, hc, h, hd => by
      obtain ⟨f, rfl⟩ : ∃ f, fuel = f + 1 := ⟨fuel - 1, by simp [Value.depth] at hd; omega⟩
      simp only [Codable] at hc
      simp only [encVal, pure, Except.pure, Except.ok.injEq] at h
      subst h
      rw [decVal_succ_obj]
      simp [req, field, asStr, hc, Value.norm, bind, Except.bind, pure, Except.pure]
    | .ext name typ payload exts, j, fuel, hc, h, hd => by
      obtain ⟨f, rfl, hf⟩ : ∃ f, fuel = f + 1 ∧ typ.depth ≤ f :=
        ⟨fuel - 1, by simp [Value.depth] at hd; omega, by simp [Value.depth] at hd; omega⟩
      simp only [Codable] at hc
      simp only [encVal, bind, Except.bind] at h
      cases ht : encTy typ with
      | error e => rw [ht] at h; cases h
      | ok jt =>
        rw [ht] at h
        simp only [pure, Except.pure, Except.ok.injEq] at h
        subst h
        have h1 := decTy_encTy typ jt f ht hc hf
        rw [decVal_succ_obj]
        simp [req, field, asStr, asObj, h1, decStrs_encStrs, Value.norm, bind, Except.bind, pure, Except.pure]
  theorem decVals_encVals_aux : ∀ (vs : List Value) (js : List Json) (fuel : Nat), CodableList fnSig vs →
      encVals vs = .ok js → depthList vs ≤ fuel → js.mapM (decVal fnSig fuel) = .ok (normList vs)
    | [], js, fuel, _, h, _ => by
      simp only [encVals, pure, Except.pure, Except.ok.injEq] at h
      subst h; rfl
    | v :: vs, js, fuel, hc, h, hd => by
      simp only [CodableList] at hc
      simp only [encVals, bind, Except.bind] at h
      cases hv : encVal v with
      | error e => rw [hv] at h; cases h
      | ok j =>
        rw [hv] at h
        cases hvs : encVals vs with
        | error e => rw [hvs] at h; cases h
        | ok js' =>
          rw [hvs] at h
          simp only [pure, Except.pure, Except.ok.injEq] at h
          subst h
          have hd' : v.depth ≤ fuel ∧ depthList vs ≤ fuel := by simp [depthList] at hd; omega
          rw [ExceptList.mapM_cons, decVal_encVal_aux v j fuel hc.1 hv hd'.1,
            decVals_encVals_aux vs js' fuel hc.2 hvs hd'.2]
          rfl
end
end

end Codec
end HugrVerif
