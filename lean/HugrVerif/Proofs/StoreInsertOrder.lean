/-
  `insert_hugr` preserves the order of children (C08): the children of the image of a node of B are
  the images of its children, in B's order; the image of B's root is appended to the children of the
  insertion parent, and no other children list of A changes.
-/
import HugrVerif.Proofs.StoreInsert
import HugrVerif.Proofs.StoreWalk

namespace HugrVerif.Store
open Py HugrVerif

variable {Ω μ : Type}

/-- two duplicate-free lists with the same members, where whatever precedes `c` in the second
    precedes it in the first, are equal -/
theorem eq_of_same_order : ∀ (l2 l1 : List Nat), l1.Nodup → l2.Nodup → (∀ c, c ∈ l1 ↔ c ∈ l2) →
    (∀ c ∈ l2, ∀ y ∈ before l2 c, y ∈ before l1 c) → l1 = l2 := by
  intro l2
  induction l2 with
  | nil =>
    intro l1 _ _ hm _
    cases l1 with
    | nil => rfl
    | cons y u => have := (hm y).mp (by simp); simp at this
  | cons x t ih =>
    intro l1 hn1 hn2 hm ho
    cases l1 with
    | nil => have := (hm x).mpr (by simp); simp at this
    | cons y u =>
      have hyx : y = x := by
        apply Classical.byContradiction
        intro hne
        have hy2 : y ∈ x :: t := (hm y).mp (by simp)
        have hxy : x ≠ y := fun e => hne e.symm
        have hb : x ∈ before (x :: t) y := by simp [before, List.takeWhile_cons, hxy]
        have := ho y hy2 x hb
        simp [before, List.takeWhile_cons] at this
      subst hyx
      have hyu : y ∉ u := (List.nodup_cons.mp hn1).1
      have hyt : y ∉ t := (List.nodup_cons.mp hn2).1
      congr 1
      apply ih u (List.nodup_cons.mp hn1).2 (List.nodup_cons.mp hn2).2
      · intro c
        have := hm c
        simp only [List.mem_cons] at this
        constructor
        · intro h
          have hc : c ≠ y := fun e => hyu (e ▸ h)
          rcases this.mp (Or.inr h) with e | e
          · exact absurd e hc
          · exact e
        · intro h
          have hc : c ≠ y := fun e => hyt (e ▸ h)
          rcases this.mpr (Or.inr h) with e | e
          · exact absurd e hc
          · exact e
      · intro c hc z hz
        have hcy : y ≠ c := fun e => hyt (e ▸ hc)
        have hz2 : z ∈ before (y :: t) c := by simp [before, List.takeWhile_cons, hcy]; right; exact hz
        have := ho c (by simp [hc]) z hz2
        simp [before, List.takeWhile_cons, hcy] at this
        rcases this with e | e
        · subst e; exact absurd (before_subset _ _ z hz) hyt
        · exact e

/-- in a walk that lists every node after its preceding siblings, the nodes with parent `i`
    appear in the order of `i`'s children list -/
theorem order_filter_kids (b : Store Ω μ) (hh : HierInv b) (order : List Nat) (hnd : order.Nodup)
    (hcl : Closed b order) (hmem : ∀ c, c ∈ order ↔ liveN b c) (i : Nat) :
    order.filter (fun j => parentOf b j == some i) = kidsOf b i := by
  apply eq_of_same_order
  · exact hnd.filter _
  · exact kids_nodup hh i
  · intro c
    simp only [List.mem_filter, beq_iff_eq]
    constructor
    · rintro ⟨_, hp⟩; exact (parent_kid hh hp).1
    · intro hc
      obtain ⟨hl, hp⟩ := kids_live hh hc
      exact ⟨(hmem c).mpr hl, hp⟩
  · intro c hc y hy
    obtain ⟨hl, hp⟩ := kids_live hh hc
    have hco : c ∈ order := (hmem c).mpr hl
    obtain ⟨pre, post, e⟩ := List.append_of_mem hco
    have hcpre : c ∉ pre := by
      intro h
      rw [e] at hnd
      exact (List.nodup_append.mp hnd).2.2 c h c (by simp) rfl
    obtain ⟨_, hr⟩ := hcl pre c post e
    rcases hr with h | ⟨p, a, _, cc⟩
    · rw [hp] at h; cases h
    · rw [hp] at a; injection a with a; subst a
      have hypre : y ∈ pre := cc y hy
      have hyk : y ∈ kidsOf b i := before_subset _ _ y hy
      have hyp := (kids_live hh hyk).2
      rw [e, List.filter_append, List.filter_cons]
      have : (parentOf b c == some i) = true := by simp [hp]
      simp only [this, if_true]
      rw [before_split _ _ c (by intro h; exact hcpre (List.mem_filter.mp h).1)]
      exact List.mem_filter.mpr ⟨hypre, by simp [hyp]⟩

/-! ### the node-copy loop and children lists -/

def imgs (mp : Dict Nat Nat) (l : List Nat) : List Nat := l.filterMap (fun j => Dict.get j mp)

theorem imgs_set_notin (mp : Dict Nat Nat) (i x : Nat) (l : List Nat) (h : i ∉ l) :
    imgs (Dict.set i x mp) l = imgs mp l := by
  unfold imgs
  induction l with
  | nil => rfl
  | cons j t ih =>
    have hji : j ≠ i := fun e => h (by simp [e])
    have ht : i ∉ t := fun e => h (by simp [e])
    have hg : Dict.get j (Dict.set i x mp) = Dict.get j mp := by rw [Dict.get_set]; simp [hji]
    rw [List.filterMap_cons, List.filterMap_cons, hg, ih ht]

theorem imgs_append (mp : Dict Nat Nat) (l1 l2 : List Nat) : imgs mp (l1 ++ l2) = imgs mp l1 ++ imgs mp l2 := by
  simp [imgs, List.filterMap_append]

structure KidsInv (a s b : Store Ω μ) (target : Nat) (done : List Nat) (mp : Dict Nat Nat) : Prop where
  img : ∀ i x, Dict.get i mp = some x → ∃ ds, getNode s x = .ok ds ∧
    childIdxs ds = imgs mp (done.filter (fun j => parentOf b j == some i))
  old : ∀ j d, getNode a j = .ok d → ∃ d', getNode s j = .ok d' ∧
    childIdxs d' = childIdxs d ++ (if j = target then imgs mp (done.filter (fun j => parentOf b j == none)) else [])

theorem kidsInv_step (a b s s1 : Store Ω μ) (parent : Option Nat) (done : List Nat) (mp : Dict Nat Nat)
    (htl : ∃ d, getNode a (parent.getD a.root) = .ok d)
    (hc : Copied a s b parent done mp) (hk : KidsInv a s b (parent.getD a.root) done mp)
    (i : Nat) (hi_done : i ∉ done) (db : NodeData Ω μ)
    (hd : getNode b i = .ok db) (np : Option Nat) (hp : resolveParent mp parent db.parent = .ok np) (x : Nat)
    (ha : addNode s db.op np (some db.numOuts) db.md = .ok (s1, x)) :
    KidsInv a s1 b (parent.getD a.root) (done ++ [i]) (Dict.set i x mp) := by
  obtain ⟨fresh, _, _, _, _, _, _⟩ := addNodeRaw_spec s s1 hc.free db.op _ (some db.numOuts) db.md x ha
  obtain ⟨keep, ⟨dn, hdn, _, hcn⟩, _⟩ := addNodeRaw_children s s1 hc.free db.op _ (some db.numOuts) db.md x ha
  have hpb : parentOf b i = db.parent := by simp [parentOf, hd]
  have hi_new : i ∉ Dict.keys mp := by rw [hc.keys]; exact hi_done
  have hget_i : Dict.get i mp = none := (Dict.get_none_iff i mp).mpr hi_new
  -- the parent handed to add_node
  generalize hqdef : np.getD s.root = q at ha hcn keep
  have hq1 : ∀ p, db.parent = some p → Dict.get p mp = some q := by
    intro p hpp
    unfold resolveParent at hp
    simp only [hpp] at hp
    cases hg : Dict.get p mp with
    | none => simp [hg] at hp
    | some p' => simp [hg] at hp; subst hp; simpa using hqdef
  have hq2 : db.parent = none → q = parent.getD a.root := by
    intro hpp
    unfold resolveParent at hp
    simp only [hpp] at hp
    injection hp with hp; subst hp
    rw [← hqdef, hc.root]
  -- images are not nodes of A
  have himg_notA : ∀ k y, Dict.get k mp = some y → y ≠ parent.getD a.root := by
    intro k y hky e
    obtain ⟨hny, _⟩ := hc.image k y hky
    obtain ⟨d0, h0⟩ := htl
    exact hny d0 (e ▸ h0)
  have hq_live : ∃ dq, getNode s q = .ok dq := by
    cases hdp : db.parent with
    | none =>
      obtain ⟨d0, h0⟩ := htl
      obtain ⟨d', e', _⟩ := hc.frame _ d0 h0
      exact ⟨d', by rw [hq2 hdp]; exact e'⟩
    | some p =>
      obtain ⟨_, _, ds, _, es, _⟩ := hc.image p q (hq1 p hdp)
      exact ⟨ds, es⟩
  have hqx : q ≠ x := by
    obtain ⟨dq, hdq⟩ := hq_live
    intro e; subst e; exact fresh dq hdq
  -- nobody processed so far has parent i
  have hnokid : ∀ j ∈ done, parentOf b j ≠ some i := by
    intro j hj hpj
    have hjk : j ∈ Dict.keys mp := by rw [hc.keys]; exact hj
    cases hg : Dict.get j mp with
    | none => exact ((Dict.get_none_iff j mp).mp hg) hjk
    | some y =>
      obtain ⟨_, dbj, _, e1, _, _, _, _, e6, _⟩ := hc.image j y hg
      have : dbj.parent = some i := by simpa [parentOf, e1] using hpj
      obtain ⟨p', g1, _⟩ := e6 i this
      rw [hget_i] at g1; cases g1
  have hself : parentOf b i ≠ some i := by
    intro h
    rw [hpb] at h
    have := hq1 i h
    rw [hget_i] at this; cases this
  have himgs : ∀ (P : Nat → Bool), imgs (Dict.set i x mp) ((done ++ [i]).filter P) =
      imgs mp (done.filter P) ++ (if P i then [x] else []) := by
    intro P
    have hfilt : (done ++ [i]).filter P = done.filter P ++ (if P i then [i] else []) := by
      simp [List.filter_append, List.filter_cons]
    rw [hfilt, imgs_append, imgs_set_notin mp i x _ (fun h => hi_done (List.mem_filter.mp h).1)]
    by_cases hP : P i = true
    · simp [hP, imgs, Dict.get_set]
    · simp [hP, imgs]
  refine ⟨?_, ?_⟩
  · intro k y hky
    rw [Dict.get_set] at hky
    by_cases hki : k = i
    · simp [hki] at hky; subst hky; subst hki
      refine ⟨dn, hdn, ?_⟩
      rw [hcn, himgs]
      have h1 : ¬ (some q = some x) := fun e => hqx (Option.some.inj e)
      have h2 : (done.filter (fun j => parentOf b j == some k)) = [] := by
        apply List.filter_eq_nil_iff.mpr
        intro j hj; simp; exact hnokid j hj
      have h3 : (parentOf b k == some k) = false := by simpa using hself
      simp [h1, h2, h3, imgs]
    · simp [hki] at hky
      obtain ⟨ds, hds, hch⟩ := hk.img k y hky
      have hyx : y ≠ x := by intro e; subst e; exact fresh ds hds
      obtain ⟨d', e', _, c'⟩ := keep y ds hyx hds
      refine ⟨d', e', ?_⟩
      rw [c', hch, himgs]
      congr 1
      by_cases hpk : parentOf b i = some k
      · have : q = y := by
          have := hq1 k (by rw [← hpb]; exact hpk)
          rw [hky] at this; exact (Option.some.inj this).symm
        simp [hpk, this]
      · have hqy : q ≠ y := by
          intro e
          cases hdp : db.parent with
          | none => exact himg_notA k y hky (by rw [← e]; exact hq2 hdp)
          | some p =>
            have := hq1 p hdp
            rw [e] at this
            have hpk' : p = k := hc.inj p k y this hky
            exact hpk (by rw [hpb, hdp, hpk'])
        have h1 : ¬ (some q = some y) := fun e => hqy (Option.some.inj e)
        simp [hpk, h1]
  · intro j d hjd
    obtain ⟨d1, e1, c1⟩ := hk.old j d hjd
    have hjx : j ≠ x := by intro e; subst e; exact fresh d1 e1
    obtain ⟨d', e', _, c'⟩ := keep j d1 hjx e1
    refine ⟨d', e', ?_⟩
    rw [c', c1, List.append_assoc]
    congr 1
    by_cases hjt : j = parent.getD a.root
    · simp only [hjt, if_true]
      rw [himgs]
      congr 1
      cases hdp : db.parent with
      | none =>
        have : q = parent.getD a.root := hq2 hdp
        simp [hpb, hdp, this]
      | some p =>
        have hqj : q ≠ parent.getD a.root := himg_notA p q (hq1 p hdp)
        have h1 : ¬ (some q = some (parent.getD a.root)) := fun e => hqj (Option.some.inj e)
        simp [hpb, hdp, h1]
    · simp only [hjt, if_false, List.nil_append]
      have hqj : q ≠ j := by
        intro e
        cases hdp : db.parent with
        | none => exact hjt (by rw [← e]; exact hq2 hdp)
        | some p =>
          obtain ⟨hny, _⟩ := hc.image p q (hq1 p hdp)
          exact hny d (e ▸ hjd)
      have h1 : ¬ (some q = some j) := fun e => hqj (Option.some.inj e)
      simp [h1]

/-- the node-copy loop, children lists -/
theorem insertNodes_kids (a b : Store Ω μ) (parent : Option Nat)
    (htl : ∃ d, getNode a (parent.getD a.root) = .ok d) : ∀ (is : List Nat) (s s' : Store Ω μ)
    (done : List Nat) (mp mp' : Dict Nat Nat), Copied a s b parent done mp →
    KidsInv a s b (parent.getD a.root) done mp → (∀ i ∈ is, i ∉ done) → is.Nodup →
    insertNodes s b parent is mp = .ok (s', mp') →
    KidsInv a s' b (parent.getD a.root) (done ++ is) mp' := by
  intro is
  induction is with
  | nil =>
    intro s s' done mp mp' _ hk _ _ h
    simp [insertNodes] at h
    obtain ⟨rfl, rfl⟩ := h
    simpa using hk
  | cons i is ih =>
    intro s s' done mp mp' hc hk hnew hndis h
    unfold insertNodes at h
    cases hd : getNode b i with
    | error e => simp [hd] at h
    | ok db =>
      simp only [hd] at h
      cases hp : resolveParent mp parent db.parent with
      | error e => simp [hp] at h
      | ok np =>
        simp only [hp] at h
        cases ha : addNode s db.op np (some db.numOuts) db.md with
        | error e => simp [ha] at h
        | ok r =>
          simp only [ha] at h
          obtain ⟨s1, x⟩ := r
          have hi := hnew i (by simp)
          have c1 := copied_step a b s s1 parent done mp hc i hi db hd np hp x ha
          have k1 := kidsInv_step a b s s1 parent done mp htl hc hk i hi db hd np hp x ha
          have := ih s1 s' (done ++ [i]) (Dict.set i x mp) mp' c1 k1
            (by
              intro k hk' hmem
              rcases List.mem_append.mp hmem with h1 | h1
              · exact hnew k (by simp [hk']) h1
              · simp at h1; subst h1; exact (List.nodup_cons.mp hndis).1 hk')
            (List.nodup_cons.mp hndis).2 h
          simpa [List.append_assoc] using this

end HugrVerif.Store
