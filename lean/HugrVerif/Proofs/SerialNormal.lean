/-
  The document `_to_serial` writes is in the normal form that `_from_serial` + `_to_serial`
  reproduce (C02): `toSerial_normal`, and the resulting fixed-point theorem.
-/
import HugrVerif.Proofs.SerialLoad
import HugrVerif.Proofs.SerialWalk

namespace HugrVerif.Serial
open HugrVerif HugrVerif.Store HugrVerif.Py

variable {Ω : Type}

/-- What the operation codec must satisfy (proved for the labelled codec below; for the full
    operation layer these are the theorems of C05/C06). `nrm` is what decoding an encoded operation
    gives back (extension ops in opaque form …). -/
structure CodecLawsOn (c : OpCodec Ω) (nrm : Ω → Ω) (Good : Ω → Prop) : Prop where
  decEnc : ∀ op p j, Good op → c.enc op p = .ok j → c.dec j = .ok (nrm op, (p : Int))
  encNrm : ∀ op p j, Good op → c.enc op p = .ok j → c.enc (nrm op) p = .ok j
  ordNrm : ∀ op p j inc, Good op → c.enc op p = .ok j → c.orderOff (nrm op) inc = c.orderOff op inc
  ordOk : ∀ op p j, Good op → c.enc op p = .ok j → ∀ inc, ∃ r, c.orderOff op inc = .ok r

/-- the laws for every operation -/
abbrev CodecLaws (c : OpCodec Ω) (nrm : Ω → Ω) : Prop := CodecLawsOn c nrm (fun _ => True)

theorem mapM_ok_getElem {α β ε : Type} (f : α → Except ε β) : ∀ (l : List α) (r : List β), l.mapM f = .ok r →
    r.length = l.length ∧ ∀ i (hi : i < l.length) (hr : i < r.length), f l[i] = .ok r[i] := by
  intro l
  induction l with
  | nil => intro r h; simp [List.mapM_nil, pure, Except.pure] at h; subst h; simp
  | cons a t ih =>
    intro r h
    simp only [List.mapM_cons, bind, Except.bind] at h
    cases h1 : f a with
    | error e => simp [h1] at h
    | ok b =>
      simp only [h1] at h
      cases h2 : t.mapM f with
      | error e => simp [h2] at h
      | ok u =>
        simp [h2, pure, Except.pure] at h; subst h
        obtain ⟨hl, hi⟩ := ih u h2
        refine ⟨by simp [hl], ?_⟩
        intro i hi' hr'
        cases i with
        | zero => simpa using h1
        | succ i => simpa using hi i (by simpa using hi') (by simpa using hr')

theorem constrainOffset_nonneg (c : OpCodec Ω) (s : St Ω) (node : Nat) (off w : Int) (inc : Bool)
    (h : constrainOffset c s node off inc = .ok w) : 0 ≤ w := by
  unfold constrainOffset at h
  by_cases hneg : off < 0
  · simp only [hneg, if_true] at h
    by_cases h1 : off ≠ -1
    · simp [h1] at h
    · simp only [h1, if_false] at h
      cases hd : liftS (Store.getNode s node) with
      | error e => simp [hd] at h
      | ok d =>
        simp only [hd] at h
        cases ho : liftO (c.orderOff d.op inc) with
        | error e => simp [ho] at h
        | ok r =>
          simp only [ho] at h
          cases r with
          | none => simp at h; subst h; split <;> omega
          | some k => simp at h; subst h; omega
  · simp only [hneg, if_false] at h
    injection h with h; subst h; omega

/-- **The serialised document is in normal form** (for a store whose hierarchy walk `order` lists
    every node after its parent, root first — `Props.C03.index_sane_nodes` — and a lawful codec). -/
theorem toSerial_normal [Inhabited Ω] (c : OpCodec Ω) (nrm : Ω → Ω) (Good : Ω → Prop)
    (laws : CodecLawsOn c nrm Good) (s : St Ω) (hgood : ∀ i d, getNode s i = .ok d → Good d.op)
    (order : List Nat) (ho : hierarchyOrder s = .ok order)
    (hroot0 : order[0]? = some s.root)
    (hrootp : ∀ p, parentIndex s order s.root = .ok p → p = 0)
    (hearlier : ∀ k i p, 0 < k → order[k]? = some i → parentIndex s order i = .ok p → p < k)
    (d : Doc) (h : toSerial c s = .ok d) :
    ∃ opOf parOf ordOf, NormalDoc c d opOf parOf ordOf := by
  unfold toSerial at h
  simp only [ho, liftS] at h
  cases hn : order.mapM (serialNode c s order) with
  | error e => simp [hn] at h
  | ok ns =>
    simp only [hn] at h
    cases he : s.links.fwd.mapM (serialLink c s order) with
    | error e => simp [he] at h
    | ok es =>
      simp only [he] at h
      injection h with h; subst h
      obtain ⟨hnl, hni⟩ := mapM_ok_getElem _ order ns hn
      obtain ⟨hel, hei⟩ := mapM_ok_getElem _ s.links.fwd es he
      have hne : order ≠ [] := by intro e; subst e; simp at hroot0
      -- per-position data
      have hper : ∀ k (hk : k < order.length), ∃ dk p, getNode s order[k] = .ok dk ∧
          parentIndex s order order[k] = .ok p ∧ c.enc dk.op p = .ok (ns[k]'(by omega)).1 ∧
          (ns[k]'(by omega)).2 = (if dk.md.isEmpty then none else some dk.md) := by
        intro k hk
        have hs := hni k hk (by omega)
        obtain ⟨dk, p, a, b, cc⟩ := serialNode_parent c s order order[k] _ hs
        refine ⟨dk, p, a, b, cc, ?_⟩
        unfold serialNode at hs
        simp only [a, liftS] at hs
        unfold parentIndex at b
        simp only [a, liftS] at b
        simp only [b, cc, liftO] at hs
        injection hs with hs
        rw [← hs]
      -- total functions of the position
      let opAt : Nat → Ω := fun k => match order[k]? with
        | some i => (match getNode s i with | .ok dk => nrm dk.op | .error _ => default)
        | none => default
      let parAt : Nat → Nat := fun k => match order[k]? with
        | some i => (match parentIndex s order i with | .ok p => p | .error _ => 0)
        | none => 0
      let ordAt : Nat → Bool → Option Nat := fun k inc => match c.orderOff (opAt k) inc with
        | .ok r => r
        | .error _ => none
      have hopAt : ∀ k (hk : k < order.length) dk, getNode s order[k] = .ok dk → opAt k = nrm dk.op := by
        intro k hk dk hdk; simp only [opAt, List.getElem?_eq_getElem hk, hdk]
      have hparAt : ∀ k (hk : k < order.length) p, parentIndex s order order[k] = .ok p → parAt k = p := by
        intro k hk p hp; simp only [parAt, List.getElem?_eq_getElem hk, hp]
      refine ⟨opAt, parAt, ordAt, ?_, ?_, ?_, ?_, ?_, ?_⟩
      · -- nonempty
        intro e
        have : ns = [] := by simpa using e
        rw [this] at hnl; simp at hnl; exact hne (List.length_eq_zero_iff.mp hnl.symm)
      · -- Decoded
        refine ⟨?_, ?_, ?_⟩
        · intro k j hj
          simp only [List.getElem?_map] at hj
          have hk : k < ns.length := by
            cases hx : ns[k]? with
            | none => simp [hx] at hj
            | some _ => exact (List.getElem?_eq_some_iff.mp hx).1
          have hk' : k < order.length := by omega
          rw [List.getElem?_eq_getElem hk] at hj
          simp at hj; subst hj
          obtain ⟨dk, p, a, b, cc, _⟩ := hper k hk'
          rw [hopAt k hk' dk a, hparAt k hk' p b]
          exact laws.decEnc dk.op p _ (hgood _ dk a) cc
        · have h0 : 0 < order.length := List.length_pos_iff.mpr hne
          obtain ⟨dk, p, a, b, _, _⟩ := hper 0 h0
          have hr : order[0] = s.root := by
            have := hroot0; rw [List.getElem?_eq_getElem h0] at this; exact Option.some.inj this
          rw [hparAt 0 h0 p b]
          rw [hr] at b
          exact hrootp p b
        · intro k hk0 hk
          have hk' : k < order.length := by simp at hk; omega
          obtain ⟨dk, p, a, b, _, _⟩ := hper k hk'
          rw [hparAt k hk' p b]
          exact hearlier k order[k] p hk0 (List.getElem?_eq_getElem hk') b
      · -- enc
        intro k j hj
        simp only [List.getElem?_map] at hj
        have hk : k < ns.length := by
          cases hx : ns[k]? with
          | none => simp [hx] at hj
          | some _ => exact (List.getElem?_eq_some_iff.mp hx).1
        have hk' : k < order.length := by omega
        rw [List.getElem?_eq_getElem hk] at hj
        simp at hj; subst hj
        obtain ⟨dk, p, a, b, cc, _⟩ := hper k hk'
        rw [hopAt k hk' dk a, hparAt k hk' p b]
        exact laws.encNrm dk.op p _ (hgood _ dk a) cc
      · -- ord
        intro m inc hm
        have hm' : m < order.length := by simp at hm; omega
        obtain ⟨dk, p, a, _, cc, _⟩ := hper m hm'
        obtain ⟨r, hr⟩ := laws.ordOk dk.op p _ (hgood _ dk a) cc inc
        have : c.orderOff (opAt m) inc = .ok r := by rw [hopAt m hm' dk a, laws.ordNrm _ p _ _ (hgood _ dk a) cc, hr]
        simp only [ordAt, this]
      · -- metadata
        refine ⟨ns.map (·.2), rfl, by simp, ?_⟩
        intro x hx
        obtain ⟨r, hr, rfl⟩ := List.mem_map.mp hx
        obtain ⟨k, hk, rfl⟩ := List.getElem_of_mem hr
        obtain ⟨dk, p, _, _, _, hmd⟩ := hper k (by omega)
        rw [hmd]
        split
        · simp
        · rename_i hne'
          intro e; injection e with e
          rw [e] at hne'; simp at hne'
      · -- edges
        intro e hem
        have hem' : e ∈ es := hem
        obtain ⟨i, hi, rfl⟩ := List.getElem_of_mem hem'
        have hif : i < s.links.fwd.length := by omega
        have hs := hei i hif hi
        obtain ⟨r1, r2⟩ := serialLink_in_range c s order _ _ hs
        unfold serialLink at hs
        cases h1 : constrainOffset c s (s.links.fwd[i]'hif).1.node (s.links.fwd[i]'hif).1.offset false with
        | error er => simp [h1] at hs
        | ok so =>
          simp only [h1] at hs
          cases h2 : constrainOffset c s (s.links.fwd[i]'hif).2.node (s.links.fwd[i]'hif).2.offset true with
          | error er => simp [h2] at hs
          | ok d_ =>
            simp only [h2] at hs
            cases ha : rekey order (s.links.fwd[i]'hif).1.node with
            | error er => simp [ha] at hs
            | ok a =>
              cases hb : rekey order (s.links.fwd[i]'hif).2.node with
              | error er => simp [ha, hb] at hs
              | ok b =>
                simp only [ha, hb] at hs
                injection hs with hs
                have n1 := constrainOffset_nonneg c s _ _ so false h1
                have n2 := constrainOffset_nonneg c s _ _ d_ true h2
                refine ⟨by simpa [hnl] using r1, by simpa [hnl] using r2, so, d_, ?_, ?_, n1, n2⟩
                · rw [← hs]
                · rw [← hs]

/-! ### the loaded HUGR is walked in index order -/

/-- **The hierarchy walk of a store whose parents have smaller indices and whose children are in
    index order is `0, 1, …, n-1`.** -/
theorem hierarchyOrder_range {μ : Type} (s : Store Ω μ) (n : Nat) (parOf : Nat → Nat) (hn : 0 < n)
    (hroot : s.root = 0) (hlen : s.nodes.length = n)
    (hpar : ∀ k, 0 < k → k < n → parOf k < k)
    (hnode : ∀ m, m < n → ∃ dm, getNode s m = .ok dm ∧ childIdxs dm = kids n parOf m) :
    hierarchyOrder s = .ok (List.range n) := by
  have hw : WInv n parOf 0 [0] [] := by
    refine ⟨by simp, ?_, by simp [Dict.NodupKeys, Dict.keys], ?_⟩
    · intro c
      simp only [List.mem_singleton, InReady]
      constructor
      · intro h; subst h; exact ⟨Nat.le_refl _, hn, Or.inl rfl⟩
      · intro ⟨_, _, h⟩
        rcases h with h | ⟨h, _⟩
        · exact h
        · omega
    · intro c _
      have : ¬ (0 < c ∧ c < n ∧ parOf c < 0) := by omega
      simp [this, Dict.get]
  have := hierLoop_range s n parOf hpar hnode n 0 [0] [] (by omega) hw (n + 1) (by omega)
  unfold hierarchyOrder
  rw [hroot, hlen]
  simp only [List.range_zero] at this
  rw [this]
  have hf : (liveNodes s).filter (fun i => !(List.range n).contains i) = [] := by
    apply List.filter_eq_nil_iff.mpr
    intro i hi
    unfold liveNodes at hi
    have := (List.mem_filter.mp hi).1
    rw [hlen] at this
    have hlt : i < n := List.mem_range.mp this
    simp [hlt]
  simp only [hf, List.append_nil]

/-- Load-then-save is the identity on documents in normal form. -/
theorem fromSerial_toSerial' (c : OpCodec Ω) (d : Doc) (opOf : Nat → Ω) (parOf : Nat → Nat)
    (ordOf : Nat → Bool → Option Nat) (hn : NormalDoc c d opOf parOf ordOf) :
    ∃ s', fromSerial c d = .ok s' ∧
        ∃ d', toSerial c s' = .ok d' ∧ d'.nodes = d.nodes ∧ d'.edges = d.edges ∧ d'.metadata = d.metadata := by
  obtain ⟨s', a, _, ⟨r, l, ch⟩, b⟩ := fromSerial_toSerial c d opOf parOf ordOf hn
  refine ⟨s', a, b ?_⟩
  have hpos : 0 < d.nodes.length := List.length_pos_iff.mpr hn.nonempty
  apply hierarchyOrder_range s' d.nodes.length parOf hpos r l
  · intro k hk hkn; exact hn.dec.earlier k hk hkn
  · intro m hm; exact ch m hm

/-- **JSON fixed point on the model**: serialise, load, serialise again — same nodes, edges and
    metadata.  Hypotheses: a lawful operation codec, and the index-sanity facts of the hierarchy walk
    (proved for every reachable store, `Props.C03.index_sane_nodes`). -/
theorem json_fixed_point [Inhabited Ω] (c : OpCodec Ω) (nrm : Ω → Ω) (Good : Ω → Prop)
    (laws : CodecLawsOn c nrm Good) (s : St Ω) (hgood : ∀ i d, getNode s i = .ok d → Good d.op)
    (order : List Nat) (ho : hierarchyOrder s = .ok order)
    (hroot0 : order[0]? = some s.root)
    (hrootp : ∀ p, parentIndex s order s.root = .ok p → p = 0)
    (hearlier : ∀ k i p, 0 < k → order[k]? = some i → parentIndex s order i = .ok p → p < k)
    (d : Doc) (h : toSerial c s = .ok d) :
    ∃ s', fromSerial c d = .ok s' ∧
        ∃ d', toSerial c s' = .ok d' ∧ d'.nodes = d.nodes ∧ d'.edges = d.edges ∧ d'.metadata = d.metadata := by
  obtain ⟨opOf, parOf, ordOf, hn⟩ := toSerial_normal c nrm Good laws s hgood order ho hroot0 hrootp hearlier d h
  obtain ⟨s', a, b⟩ := fromSerial_toSerial' c d opOf parOf ordOf hn
  exact ⟨s', a, b⟩

end HugrVerif.Serial
