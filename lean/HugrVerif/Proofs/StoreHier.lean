/-
  Hierarchy invariant of the store (C04: "parent and ordered children"): children lists and
  parent pointers agree, children lists have no duplicates, and how `add_node` / `delete_node`
  act on them.
-/
import HugrVerif.Proofs.StoreInv

namespace HugrVerif.Store
open Py HugrVerif

variable {Ω μ : Type}

/-- `[c.idx for c in children]` -/
def childIdxs (d : NodeData Ω μ) : List Nat := d.children.map (·.1)

/-- Children lists and parent pointers describe the same forest, without duplicates. -/
structure HierInv (s : Store Ω μ) : Prop where
  childParent : ∀ p dp c, getNode s p = .ok dp → c ∈ childIdxs dp →
    ∃ dc, getNode s c = .ok dc ∧ dc.parent = some p
  parentChild : ∀ c dc p, getNode s c = .ok dc → dc.parent = some p →
    ∃ dp, getNode s p = .ok dp ∧ c ∈ childIdxs dp
  nodup : ∀ p dp, getNode s p = .ok dp → (childIdxs dp).Nodup

theorem replaceFirst_idxs (i : Nat) (h : Handle) (hh : h.1 = i) : ∀ (l l' : List Handle),
    replaceFirst i h l = some l' → l'.map (·.1) = l.map (·.1) := by
  intro l
  induction l with
  | nil => intro l' hl; simp [replaceFirst] at hl
  | cons c cs ih =>
    intro l' hl
    unfold replaceFirst at hl
    by_cases hc : c.1 = i
    · simp [hc] at hl; subst hl; simp [hh, hc]
    · simp only [hc, if_false] at hl
      cases hr : replaceFirst i h cs with
      | none => simp [hr] at hl
      | some cs' =>
        simp [hr] at hl; subst hl
        simp [ih cs' hr]

theorem removeFirst_idxs (i : Nat) : ∀ (l l' : List Handle),
    removeFirst i l = some l' → l'.map (·.1) = (l.map (·.1)).erase i ∧ i ∈ l.map (·.1) := by
  intro l
  induction l with
  | nil => intro l' hl; simp [removeFirst] at hl
  | cons c cs ih =>
    intro l' hl
    unfold removeFirst at hl
    by_cases hc : c.1 = i
    · simp [hc] at hl; subst hl; simp [hc]
    · simp only [hc, if_false] at hl
      cases hr : removeFirst i cs with
      | none => simp [hr] at hl
      | some cs' =>
        simp [hr] at hl; subst hl
        obtain ⟨e1, e2⟩ := ih cs' hr
        have : ¬ (c.1 == i) = true := by simpa using hc
        refine ⟨?_, by simp at e2 ⊢; exact Or.inr e2⟩
        simp only [List.map_cons, List.erase_cons, this, e1]
        simp

/-- Relation between two stores whose nodes differ only in children lists (which grew by
    `extra j` at node `j`) and port counts. -/
structure EditC (a b : Store Ω μ) (extra : Nat → List Nat) : Prop where
  fwd : ∀ j d, getNode a j = .ok d → ∃ d', getNode b j = .ok d' ∧ d'.parent = d.parent ∧
    childIdxs d' = childIdxs d ++ extra j
  bwd : ∀ j d', getNode b j = .ok d' → ∃ d, getNode a j = .ok d

theorem EditC.refl (a : Store Ω μ) : EditC a a (fun _ => []) :=
  ⟨fun _ d h => ⟨d, h, rfl, by simp⟩, fun _ d h => ⟨d, h⟩⟩

theorem EditC.trans {a b c : Store Ω μ} {e1 e2 : Nat → List Nat} (h1 : EditC a b e1) (h2 : EditC b c e2) :
    EditC a c (fun j => e1 j ++ e2 j) := by
  refine ⟨?_, ?_⟩
  · intro j d hd
    obtain ⟨d1, g1, p1, c1⟩ := h1.fwd j d hd
    obtain ⟨d2, g2, p2, c2⟩ := h2.fwd j d1 g1
    exact ⟨d2, g2, p2.trans p1, by rw [c2, c1, List.append_assoc]⟩
  · intro j d hd
    obtain ⟨d1, g1⟩ := h2.bwd j d hd
    exact h1.bwd j d1 g1

theorem modifyNode_editC (s s' : Store Ω μ) (p : Nat) (f : NodeData Ω μ → NodeData Ω μ) (e : List Nat)
    (h : modifyNode s p f = .ok s')
    (hf : ∀ d, (f d).parent = d.parent ∧ childIdxs (f d) = childIdxs d ++ e) :
    EditC s s' (fun j => if j = p then e else []) := by
  have g := fun j => modifyNode_get s s' p j f h
  obtain ⟨dp, hdp, _⟩ := modifyNode_ok s s' p f h
  refine ⟨?_, ?_⟩
  · intro j d hd
    rw [g j]
    by_cases hjp : j = p
    · subst hjp; simp only [if_true, hd, Except.map]; exact ⟨_, rfl, (hf d).1, (hf d).2⟩
    · simp only [hjp, if_false]; exact ⟨d, hd, rfl, by simp⟩
  · intro j d' hd'
    rw [g j] at hd'
    by_cases hjp : j = p
    · subst hjp; exact ⟨dp, hdp⟩
    · simp only [hjp, if_false] at hd'; exact ⟨d', hd'⟩

theorem updateNodeOuts_editC (s s' : Store Ω μ) (i k : Nat) (h : updateNodeOuts s i k = .ok s') :
    EditC s s' (fun _ => []) := by
  unfold updateNodeOuts at h
  simp only [bind, Except.bind] at h
  cases h1 : modifyNode s i (fun d => { d with numOuts := k }) with
  | error e => simp [h1] at h
  | ok s1 =>
    simp only [h1] at h
    have E1 := modifyNode_editC s s1 i _ [] h1 (fun d => ⟨rfl, by simp [childIdxs]⟩)
    have E1' : EditC s s1 (fun _ => []) := ⟨fun j d hd => by
      obtain ⟨d', a, b, c⟩ := E1.fwd j d hd
      exact ⟨d', a, b, by simpa using c⟩, E1.bwd⟩
    have g1 := modifyNode_get s s1 i i _ h1
    obtain ⟨d0, hd0, _⟩ := modifyNode_ok s s1 i _ h1
    simp only [if_true, hd0, Except.map] at g1
    simp only [g1] at h
    cases hp : d0.parent with
    | none => simp [hp, pure, Except.pure] at h; subst h; exact E1'
    | some p =>
      simp only [hp] at h
      cases hpd : getNode s1 p with
      | error e => simp [hpd] at h
      | ok pd =>
        simp only [hpd] at h
        cases hcs : replaceFirst i (i, some k) pd.children with
        | none => simp [hcs] at h
        | some cs =>
          simp only [hcs] at h
          -- the replaced handle has the same index: index lists are unchanged
          have hidx := replaceFirst_idxs i (i, some k) rfl pd.children cs hcs
          have g2 := fun j => modifyNode_get s1 s' p j _ h
          have E2 : EditC s1 s' (fun _ => []) := by
            refine ⟨?_, ?_⟩
            · intro j d hd
              rw [g2 j]
              by_cases hjp : j = p
              · subst hjp
                rw [hpd] at hd; injection hd with hd; subst hd
                simp only [if_true, hpd, Except.map]
                exact ⟨_, rfl, rfl, by simp [childIdxs, hidx]⟩
              · simp only [hjp, if_false]; exact ⟨d, hd, rfl, by simp⟩
            · intro j d' hd'
              rw [g2 j] at hd'
              by_cases hjp : j = p
              · subst hjp; exact ⟨pd, hpd⟩
              · simp only [hjp, if_false] at hd'; exact ⟨d', hd'⟩
          have := E1'.trans E2
          exact ⟨fun j d hd => by
            obtain ⟨d', a, b, c⟩ := this.fwd j d hd
            exact ⟨d', a, b, by simpa using c⟩, this.bwd⟩

/-- **`add_node` appends the new node to its parent's children and to no other list**, and the
    new node starts without children. -/
theorem addNodeRaw_children (s s' : Store Ω μ) (hf : FreeInv s) (op : Ω) (parent : Option Nat)
    (numOuts : Option Nat) (m : μ) (i : Nat) (h : addNodeRaw s op parent numOuts m = .ok (s', i)) :
    (∀ j d, j ≠ i → getNode s j = .ok d → ∃ d', getNode s' j = .ok d' ∧ d'.parent = d.parent ∧
      childIdxs d' = childIdxs d ++ (if parent = some j then [i] else [])) ∧
    (∃ d, getNode s' i = .ok d ∧ d.parent = parent ∧
      childIdxs d = (if parent = some i then [i] else [])) ∧
    (∀ p, parent = some p → p ≠ i → ∃ dp, getNode s p = .ok dp) := by
  unfold addNodeRaw at h
  generalize hd0 : ({ op := op, parent := parent, numInps := 0, numOuts := 0, children := [], md := m } : NodeData Ω μ) = d0 at h
  obtain ⟨a1, a2, a3, a4, a5, a6⟩ := allocSlot_spec s hf d0
  generalize hr : allocSlot s d0 = r at h a1 a2 a3 a4 a5 a6
  simp only [] at h
  cases h1 : registerChild r.1 parent (r.2, numOuts) with
  | error e => simp [h1] at h
  | ok s1 =>
    simp only [h1] at h
    cases h2 : setOutsOpt s1 r.2 numOuts with
    | error e => simp [h2] at h
    | ok s2 =>
      simp only [h2] at h
      have hs : s2 = s' := by injection h with h; exact (Prod.mk.inj h).1
      have hi : r.2 = i := by injection h with h; exact (Prod.mk.inj h).2
      subst hs; subst hi
      -- step 1: registration with the parent
      have E1 : EditC r.1 s1 (fun j => if parent = some j then [r.2] else []) := by
        unfold registerChild at h1
        cases parent with
        | none =>
          simp [pure, Except.pure] at h1; subst h1
          exact ⟨fun j d hd => ⟨d, hd, rfl, by simp⟩, fun j d hd => ⟨d, hd⟩⟩
        | some p =>
          simp only [] at h1
          have := modifyNode_editC r.1 s1 p _ [r.2] h1 (fun d => ⟨rfl, by simp [childIdxs]⟩)
          refine ⟨fun j d hd => ?_, this.bwd⟩
          obtain ⟨d', a, b, c⟩ := this.fwd j d hd
          refine ⟨d', a, b, ?_⟩
          rw [c]
          by_cases hjp : j = p
          · simp [hjp]
          · have : ¬ p = j := fun e => hjp e.symm
            simp [hjp, this]
      -- step 2: the out-port count
      have E2 : EditC s1 s2 (fun _ => []) := by
        unfold setOutsOpt at h2
        cases numOuts with
        | none => simp [pure, Except.pure] at h2; subst h2; exact EditC.refl _
        | some k => exact updateNodeOuts_editC s1 s2 r.2 k h2
      have E := E1.trans E2
      refine ⟨?_, ?_, ?_⟩
      · intro j d hj hd
        rw [← a3 j hj] at hd
        obtain ⟨d', a, b, c⟩ := E.fwd j d hd
        exact ⟨d', a, b, by simpa using c⟩
      · obtain ⟨d', a, b, c⟩ := E.fwd r.2 d0 a2
        refine ⟨d', a, by rw [b, ← hd0], ?_⟩
        rw [c, ← hd0]; simp [childIdxs]
      · intro p hp hpi
        subst hp
        unfold registerChild at h1
        simp only [] at h1
        obtain ⟨dp, hdp, _⟩ := modifyNode_ok _ _ _ _ h1
        rw [a3 p hpi] at hdp
        exact ⟨dp, hdp⟩

theorem hier_addNodeRaw (s s' : Store Ω μ) (hh : HierInv s) (hf : FreeInv s) (op : Ω) (p : Nat)
    (numOuts : Option Nat) (m : μ) (i : Nat) (h : addNodeRaw s op (some p) numOuts m = .ok (s', i)) :
    HierInv s' := by
  obtain ⟨fresh, _, _, back, _, _, _⟩ := addNodeRaw_spec s s' hf op (some p) numOuts m i h
  obtain ⟨keep, ⟨di, hdi, hpi, hci⟩, plive⟩ := addNodeRaw_children s s' hf op (some p) numOuts m i h
  -- data of an old node in the new store
  have old : ∀ j d', j ≠ i → getNode s' j = .ok d' → ∃ d, getNode s j = .ok d ∧ d'.parent = d.parent ∧
      childIdxs d' = childIdxs d ++ (if some p = some j then [i] else []) := by
    intro j d' hj hd'
    obtain ⟨d, hd⟩ := back j d' hj hd'
    obtain ⟨d'', e, a, b⟩ := keep j d hj hd
    rw [hd'] at e; injection e with e; subst e
    exact ⟨d, hd, a, b⟩
  have notlive : ∀ c, (∃ d, getNode s c = .ok d) → c ≠ i := by
    rintro c ⟨d, hd⟩ e; subst e; exact fresh d hd
  refine ⟨?_, ?_, ?_⟩
  · intro q dq c hq hc
    by_cases hqi : q = i
    · subst hqi
      rw [hdi] at hq; injection hq with hq; subst hq
      rw [hci] at hc
      by_cases hpq : (some p : Option Nat) = some q
      · simp [hpq] at hc; subst hc; exact ⟨di, hdi, by rw [hpi, hpq]⟩
      · simp [hpq] at hc
    · obtain ⟨d, hd, _, hcs⟩ := old q dq hqi hq
      rw [hcs] at hc
      rcases List.mem_append.mp hc with hc | hc
      · obtain ⟨dc, hdc, hpc⟩ := hh.childParent q d c hd hc
        have hci' := notlive c ⟨dc, hdc⟩
        obtain ⟨dc', e, a, _⟩ := keep c dc hci' hdc
        exact ⟨dc', e, by rw [a, hpc]⟩
      · by_cases hpq : (some p : Option Nat) = some q
        · simp [hpq] at hc; subst hc
          exact ⟨di, hdi, by rw [hpi, hpq]⟩
        · simp [hpq] at hc
  · intro c dc q hc hpar
    by_cases hci' : c = i
    · subst hci'
      rw [hdi] at hc; injection hc with hc; subst hc
      rw [hpi] at hpar; injection hpar with hpar; subst hpar
      by_cases hpc : p = c
      · subst hpc; exact ⟨di, hdi, by rw [hci]; simp⟩
      · obtain ⟨dp, hdp⟩ := plive p rfl hpc
        obtain ⟨dp', e, _, b⟩ := keep p dp hpc hdp
        exact ⟨dp', e, by rw [b]; simp⟩
    · obtain ⟨d, hd, hp', _⟩ := old c dc hci' hc
      rw [hp'] at hpar
      obtain ⟨dq, hdq, hmem⟩ := hh.parentChild c d q hd hpar
      have hqi := notlive q ⟨dq, hdq⟩
      obtain ⟨dq', e, _, b⟩ := keep q dq hqi hdq
      exact ⟨dq', e, by rw [b]; exact List.mem_append_left _ hmem⟩
  · intro q dq hq
    by_cases hqi : q = i
    · subst hqi
      rw [hdi] at hq; injection hq with hq; subst hq
      rw [hci]; split <;> simp
    · obtain ⟨d, hd, _, hcs⟩ := old q dq hqi hq
      rw [hcs]
      have hnd := hh.nodup q d hd
      split
      · rw [List.nodup_append]
        refine ⟨hnd, by simp, ?_⟩
        intro a ha b hb hab
        simp at hb; subst hb; subst hab
        obtain ⟨dc, hdc, _⟩ := hh.childParent q d a hd ha
        exact fresh dc hdc
      · simpa using hnd

/-- Frame for steps that leave parents and children lists alone. -/
theorem hier_of_same (s s' : Store Ω μ) (hh : HierInv s)
    (fwd : ∀ j d, getNode s j = .ok d → ∃ d', getNode s' j = .ok d' ∧ d'.parent = d.parent ∧ d'.children = d.children)
    (bwd : ∀ j d', getNode s' j = .ok d' → ∃ d, getNode s j = .ok d) : HierInv s' := by
  have old : ∀ j d', getNode s' j = .ok d' → ∃ d, getNode s j = .ok d ∧ d'.parent = d.parent ∧ d'.children = d.children := by
    intro j d' hd'
    obtain ⟨d, hd⟩ := bwd j d' hd'
    obtain ⟨d'', e, a, b⟩ := fwd j d hd
    rw [hd'] at e; injection e with e; subst e
    exact ⟨d, hd, a, b⟩
  refine ⟨?_, ?_, ?_⟩
  · intro q dq c hq hc
    obtain ⟨d, hd, _, hcs⟩ := old q dq hq
    have : c ∈ childIdxs d := by simpa [childIdxs, hcs] using hc
    obtain ⟨dc, hdc, hpc⟩ := hh.childParent q d c hd this
    obtain ⟨dc', e, a, _⟩ := fwd c dc hdc
    exact ⟨dc', e, by rw [a, hpc]⟩
  · intro c dc q hc hpar
    obtain ⟨d, hd, hp', _⟩ := old c dc hc
    rw [hp'] at hpar
    obtain ⟨dq, hdq, hmem⟩ := hh.parentChild c d q hd hpar
    obtain ⟨dq', e, _, b⟩ := fwd q dq hdq
    exact ⟨dq', e, by simpa [childIdxs, b] using hmem⟩
  · intro q dq hq
    obtain ⟨d, hd, _, hcs⟩ := old q dq hq
    have := hh.nodup q d hd
    simpa [childIdxs, hcs] using this

theorem hier_addLink (s s' : Store Ω μ) (hh : HierInv s) (src dst : Port) (h : addLink s src dst = .ok s') :
    HierInv s' := by
  obtain ⟨G, _, _⟩ := addLink_nodes s s' src dst h
  refine hier_of_same s s' hh ?_ G.bwd
  intro j d hd
  obtain ⟨d', e, g⟩ := G.fwd j d hd
  exact ⟨d', e, g.parent, g.children⟩

theorem hier_deleteLink (s s' : Store Ω μ) (hh : HierInv s) (src dst : Port) (h : deleteLink s src dst = .ok s') :
    HierInv s' := by
  obtain ⟨m', _, rfl⟩ := deleteLink_ok s s' src dst h
  exact hier_of_same s _ hh (fun j d hd => ⟨d, hd, rfl, rfl⟩) (fun j d hd => ⟨d, hd⟩)

theorem hier_addOrderLink (s s' : Store Ω μ) (hh : HierInv s) (a b : Nat) (h : addOrderLink s a b = .ok s') :
    HierInv s' := by
  unfold addOrderLink at h
  split at h
  · simp [pure, Except.pure] at h; subst h; exact hh
  · exact hier_addLink s s' hh _ _ h

theorem detach_children (s s' : Store Ω μ) (node : Nat) (parent : Option Nat)
    (h : detach s node parent = .ok s') :
    (∀ j d, getNode s j = .ok d → ∃ d', getNode s' j = .ok d' ∧ d'.parent = d.parent ∧
      childIdxs d' = (if parent = some j then (childIdxs d).erase node else childIdxs d)) ∧
    (∀ j d', getNode s' j = .ok d' → ∃ d, getNode s j = .ok d) := by
  unfold detach at h
  cases parent with
  | none =>
    simp [pure, Except.pure] at h; subst h
    exact ⟨fun j d hd => ⟨d, hd, rfl, by simp⟩, fun j d hd => ⟨d, hd⟩⟩
  | some p =>
    simp only [] at h
    cases hp : getNode s p with
    | error e => simp [hp] at h
    | ok pd =>
      simp only [hp] at h
      cases hc : removeFirst node pd.children with
      | none => simp [hc] at h
      | some cs =>
        simp only [hc] at h
        obtain ⟨hidx, _⟩ := removeFirst_idxs node pd.children cs hc
        have g := fun j => modifyNode_get s s' p j _ h
        refine ⟨?_, ?_⟩
        · intro j d hd
          rw [g j]
          by_cases hjp : j = p
          · subst hjp
            rw [hp] at hd; injection hd with hd; subst hd
            simp only [if_true, hp, Except.map]
            exact ⟨_, rfl, rfl, by simp [childIdxs, hidx]⟩
          · have : ¬ p = j := fun e => hjp e.symm
            simp only [hjp, if_false]
            exact ⟨d, hd, rfl, by simp [this]⟩
        · intro j d' hd'
          rw [g j] at hd'
          by_cases hjp : j = p
          · subst hjp; exact ⟨pd, hp⟩
          · simp only [hjp, if_false] at hd'; exact ⟨d', hd'⟩

/-- **`delete_node` removes the node from its parent's children list and from no other.** -/
theorem deleteNode_children (s s' : Store Ω μ) (hl : LInv s.links) (node : Nat) (d0 : NodeData Ω μ)
    (h0 : getNode s node = .ok d0) (h : deleteNode s node = .ok s') :
    (∀ j d, j ≠ node → getNode s j = .ok d → ∃ d', getNode s' j = .ok d' ∧ d'.parent = d.parent ∧
      childIdxs d' = (if d0.parent = some j then (childIdxs d).erase node else childIdxs d)) ∧
    (∀ j d', getNode s' j = .ok d' → j ≠ node ∧ ∃ d, getNode s j = .ok d) := by
  unfold deleteNode at h
  simp only [h0] at h
  cases h1 : detach s node d0.parent with
  | error e => simp [h1] at h
  | ok s1 =>
    simp only [h1] at h
    obtain ⟨D1, D2⟩ := detach_children s s1 node d0.parent h1
    have C1 := detach_childEdit s s1 node d0.parent h1
    obtain ⟨d1, e1, _⟩ := C1.fwd node d0 h0
    simp only [e1] at h
    have hl1 : LInv s1.links := by rw [C1.links]; exact hl
    obtain ⟨s2, e2, hl2, n2, _, _, _⟩ := deleteInLinks_spec node (offsetsFromMinusOne d1.numInps) s1 hl1
    simp only [e2] at h
    have g2 : getNode s2 node = .ok d1 := by unfold getNode; rw [n2]; exact e1
    simp only [g2] at h
    obtain ⟨s3, e3, _, n3, _, _, _⟩ := deleteOutLinks_spec node (offsetsFromMinusOne d1.numOuts) s2 hl2
    simp only [e3] at h
    injection h with h
    have hnodes3 : s3.nodes = s1.nodes := n3.trans n2
    have hlt : node < s3.nodes.length := by rw [hnodes3]; exact getNode_lt s1 node d1 e1
    have hget : ∀ j, j ≠ node → getNode s' j = getNode s1 j := by
      intro j hj
      subst h
      unfold getNode
      show (match (s3.nodes.set node none)[j]? with | some (some d) => _ | _ => _) = _
      have : ¬ node = j := fun e => hj e.symm
      simp only [List.getElem?_set, hnodes3, this, if_false]
      rfl
    have hgone : ∀ x, getNode s' node ≠ .ok x := by
      intro x hx
      subst h
      rw [getNode_ok_iff] at hx
      simp [hlt] at hx
    refine ⟨?_, ?_⟩
    · intro j d hj hd
      rw [hget j hj]
      exact D1 j d hd
    · intro j d' hd'
      have hj : j ≠ node := by intro e; subst e; exact hgone d' hd'
      rw [hget j hj] at hd'
      exact ⟨hj, D2 j d' hd'⟩

theorem hier_deleteNode (s s' : Store Ω μ) (hh : HierInv s) (hl : LInv s.links) (node : Nat)
    (d0 : NodeData Ω μ) (h0 : getNode s node = .ok d0) (hleaf : d0.children = [])
    (h : deleteNode s node = .ok s') : HierInv s' := by
  obtain ⟨keep, back⟩ := deleteNode_children s s' hl node d0 h0 h
  have old : ∀ j d', getNode s' j = .ok d' → j ≠ node ∧ ∃ d, getNode s j = .ok d ∧ d'.parent = d.parent ∧
      childIdxs d' = (if d0.parent = some j then (childIdxs d).erase node else childIdxs d) := by
    intro j d' hd'
    obtain ⟨hj, d, hd⟩ := back j d' hd'
    obtain ⟨d'', e, a, b⟩ := keep j d hj hd
    rw [hd'] at e; injection e with e; subst e
    exact ⟨hj, d, hd, a, b⟩
  have sub : ∀ (j : Nat) (d' d : NodeData Ω μ), childIdxs d' = (if d0.parent = some j then (childIdxs d).erase node else childIdxs d) →
      ∀ c, c ∈ childIdxs d' → c ∈ childIdxs d := by
    intro j d' d hc c hm
    rw [hc] at hm
    split at hm
    · exact List.mem_of_mem_erase hm
    · exact hm
  refine ⟨?_, ?_, ?_⟩
  · intro q dq c hq hc
    obtain ⟨hqn, d, hd, _, hcs⟩ := old q dq hq
    have hmem := sub q dq d hcs c hc
    obtain ⟨dc, hdc, hpc⟩ := hh.childParent q d c hd hmem
    have hcn : c ≠ node := by
      intro e; subst e
      rw [h0] at hdc; injection hdc with hdc; subst hdc
      rw [hcs, hpc] at hc
      simp only [if_true] at hc
      exact (List.Nodup.mem_erase_iff (hh.nodup q d hd)).mp hc |>.1 rfl
    obtain ⟨dc', e, a, _⟩ := keep c dc hcn hdc
    exact ⟨dc', e, by rw [a, hpc]⟩
  · intro c dc q hc hpar
    obtain ⟨hcn, d, hd, hp', _⟩ := old c dc hc
    rw [hp'] at hpar
    obtain ⟨dq, hdq, hmem⟩ := hh.parentChild c d q hd hpar
    have hqn : q ≠ node := by
      intro e; subst e
      rw [h0] at hdq; injection hdq with hdq; subst hdq
      simp [childIdxs, hleaf] at hmem
    obtain ⟨dq', e, _, b⟩ := keep q dq hqn hdq
    refine ⟨dq', e, ?_⟩
    rw [b]
    split
    · exact (List.mem_erase_of_ne hcn).mpr hmem
    · exact hmem
  · intro q dq hq
    obtain ⟨_, d, hd, _, hcs⟩ := old q dq hq
    rw [hcs]
    split
    · exact (hh.nodup q d hd).erase _
    · exact hh.nodup q d hd

theorem hier_init (rootOp : Ω) (m : μ) : HierInv (init rootOp m) := by
  -- the fresh store has a single node without parent or children
  have h0 : HierInv ({ nodes := [], links := BiMap.empty, free := [], root := 0 } : Store Ω μ) :=
    ⟨by intro p dp c h; simp [getNode] at h, by intro c dc p h; simp [getNode] at h,
     by intro p dp h; simp [getNode] at h⟩
  have hf0 : FreeInv ({ nodes := [], links := BiMap.empty, free := [], root := 0 } : Store Ω μ) :=
    ⟨by intro i; simp, by simp⟩
  unfold init
  simp only []
  split
  · rename_i s i heq
    obtain ⟨_, _, _, back, _, _, _⟩ := addNodeRaw_spec _ s hf0 rootOp none (some 0) m i heq
    obtain ⟨_, ⟨di, hdi, hpi, hci⟩, _⟩ := addNodeRaw_children _ s hf0 rootOp none (some 0) m i heq
    have only : ∀ j d, getNode s j = .ok d → j = i := by
      intro j d hd
      apply Classical.byContradiction
      intro hj
      obtain ⟨d0, h0'⟩ := back j d hj hd
      simp [getNode] at h0'
    have get_root : ∀ j d, getNode ({ s with root := i } : Store Ω μ) j = .ok d → getNode s j = .ok d :=
      fun j d h => h
    refine ⟨?_, ?_, ?_⟩
    · intro p dp c hp hc
      have := only p dp (get_root p dp hp); subst this
      rw [get_root p dp hp] at hdi; injection hdi with hdi; subst hdi
      simp [hci] at hc
    · intro c dc p hc hpar
      have := only c dc (get_root c dc hc); subst this
      rw [get_root c dc hc] at hdi; injection hdi with hdi; subst hdi
      rw [hpi] at hpar; cases hpar
    · intro p dp hp
      have := only p dp (get_root p dp hp); subst this
      rw [get_root p dp hp] at hdi; injection hdi with hdi; subst hdi
      simp [hci]
  · exact h0

theorem hier_insertNodes (b : Store Ω μ) (parent : Option Nat) : ∀ (is : List Nat) (s s' : Store Ω μ)
    (mp mp' : Dict Nat Nat), HierInv s → FreeInv s → insertNodes s b parent is mp = .ok (s', mp') →
    HierInv s' ∧ FreeInv s' := by
  intro is
  induction is with
  | nil => intro s s' mp mp' hh hf h; simp [insertNodes] at h; rw [← h.1]; exact ⟨hh, hf⟩
  | cons i is ih =>
    intro s s' mp mp' hh hf h
    unfold insertNodes at h
    cases hd : getNode b i with
    | error e => simp [hd] at h
    | ok d =>
      simp only [hd] at h
      cases hp : resolveParent mp parent d.parent with
      | error e => simp [hp] at h
      | ok np =>
        simp only [hp] at h
        cases ha : addNode s d.op np (some d.numOuts) d.md with
        | error e => simp [ha] at h
        | ok r =>
          simp only [ha] at h
          have h1 := hier_addNodeRaw s r.1 hh hf _ _ _ _ r.2 ha
          obtain ⟨_, _, _, _, _, _, hf1⟩ := addNodeRaw_spec s r.1 hf _ _ _ _ r.2 ha
          exact ih r.1 s' _ mp' h1 hf1 h

theorem hier_insertLinks (mp : Dict Nat Nat) : ∀ (ls : List (SubPort × SubPort)) (s s' : Store Ω μ),
    HierInv s → insertLinks s mp ls = .ok s' → HierInv s' := by
  intro ls
  induction ls with
  | nil => intro s s' hh h; simp [insertLinks, pure, Except.pure] at h; rw [← h]; exact hh
  | cons e ls ih =>
    intro s s' hh h
    obtain ⟨a, c⟩ := e
    unfold insertLinks at h
    cases ha : Dict.get a.node mp with
    | none => simp [ha] at h
    | some a' =>
      cases hc : Dict.get c.node mp with
      | none => simp [ha, hc] at h
      | some c' =>
        simp only [ha, hc, bind, Except.bind] at h
        cases h1 : addLink s (a', a.offset) (c', c.offset) with
        | error err => simp [h1] at h
        | ok s1 =>
          simp only [h1] at h
          exact ih s1 s' (hier_addLink s s1 hh _ _ h1) h

theorem hier_insertHugr (s s' b : Store Ω μ) (hh : HierInv s) (hf : FreeInv s) (parent : Option Nat)
    (mp : Dict Nat Nat) (h : insertHugr s b parent = .ok (s', mp)) : HierInv s' := by
  unfold insertHugr at h
  simp only [bind, Except.bind] at h
  cases ho : hierarchyOrder b with
  | error e => simp [ho] at h
  | ok order =>
    simp only [ho] at h
    cases hr : insertNodes s b parent order [] with
    | error e => simp [hr] at h
    | ok r =>
      obtain ⟨s1, mp1⟩ := r
      simp only [hr] at h
      cases h2 : insertLinks s1 mp1 b.links.fwd with
      | error e => simp [h2] at h
      | ok s2 =>
        simp only [h2, pure, Except.pure] at h
        have hs2 : s2 = s' := by injection h with h; exact (Prod.mk.inj h).1
        subst hs2
        exact hier_insertLinks mp1 _ s1 s2 (hier_insertNodes b parent order s s1 [] mp1 hh hf hr).1 h2

/-! ### the root -/

/-- The root is live and is the only node without a parent. -/
structure RootInv (s : Store Ω μ) : Prop where
  live : ∃ d, getNode s s.root = .ok d
  noParent : ∀ d, getNode s s.root = .ok d → d.parent = none
  only : ∀ i d, getNode s i = .ok d → d.parent = none → i = s.root

theorem root_of_parents (s s' : Store Ω μ) (hr : RootInv s) (hroot : s'.root = s.root)
    (fwd : ∀ d, getNode s s.root = .ok d → ∃ d', getNode s' s.root = .ok d' ∧ d'.parent = d.parent)
    (bwd : ∀ j d', getNode s' j = .ok d' → (∃ d, getNode s j = .ok d ∧ d'.parent = d.parent) ∨ d'.parent ≠ none) :
    RootInv s' := by
  obtain ⟨d0, h0⟩ := hr.live
  obtain ⟨d0', h0', hp0⟩ := fwd d0 h0
  refine ⟨⟨d0', by rw [hroot]; exact h0'⟩, ?_, ?_⟩
  · intro d hd
    rw [hroot, h0'] at hd; injection hd with hd; subst hd
    rw [hp0]; exact hr.noParent d0 h0
  · intro i d hd hp
    rw [hroot]
    rcases bwd i d hd with ⟨d1, h1, hp1⟩ | hne
    · exact hr.only i d1 h1 (by rw [← hp1]; exact hp)
    · exact absurd hp hne

theorem root_init (rootOp : Ω) (m : μ) : RootInv (init rootOp m) := by
  have hf0 : FreeInv ({ nodes := [], links := BiMap.empty, free := [], root := 0 } : Store Ω μ) :=
    ⟨by intro i; simp, by simp⟩
  unfold init
  simp only []
  split
  · rename_i s i heq
    obtain ⟨_, _, _, back, _, _, _⟩ := addNodeRaw_spec _ s hf0 rootOp none (some 0) m i heq
    obtain ⟨_, ⟨di, hdi, hpi, _⟩, _⟩ := addNodeRaw_children _ s hf0 rootOp none (some 0) m i heq
    have only : ∀ j d, getNode s j = .ok d → j = i := by
      intro j d hd
      apply Classical.byContradiction
      intro hj
      obtain ⟨d0, h0'⟩ := back j d hj hd
      simp [getNode] at h0'
    refine ⟨⟨di, hdi⟩, ?_, ?_⟩
    · intro d hd
      have hd' : getNode s i = .ok d := hd
      rw [hdi] at hd'; injection hd' with hd'; subst hd'; exact hpi
    · intro j d hd _
      exact only j d hd
  · -- unreachable branch: adding the root to the empty store cannot raise
    rename_i e hadd
    exfalso
    simp [addNodeRaw, allocSlot, registerChild, setOutsOpt, updateNodeOuts, modifyNode, getNode, setNode,
      bind, Except.bind, pure, Except.pure] at hadd

theorem root_addNodeRaw (s s' : Store Ω μ) (hr : RootInv s) (hf : FreeInv s) (op : Ω) (p : Nat)
    (numOuts : Option Nat) (m : μ) (i : Nat) (h : addNodeRaw s op (some p) numOuts m = .ok (s', i)) :
    RootInv s' := by
  obtain ⟨fresh, _, _, back, _, er, _⟩ := addNodeRaw_spec s s' hf op (some p) numOuts m i h
  obtain ⟨keep, ⟨di, hdi, hpi, _⟩, _⟩ := addNodeRaw_children s s' hf op (some p) numOuts m i h
  refine root_of_parents s s' hr er ?_ ?_
  · intro d hd
    have hne : s.root ≠ i := by intro e; rw [e] at hd; exact fresh d hd
    obtain ⟨d', e, a, _⟩ := keep s.root d hne hd
    exact ⟨d', e, a⟩
  · intro j d' hd'
    by_cases hj : j = i
    · subst hj; rw [hdi] at hd'; injection hd' with hd'; subst hd'; right; rw [hpi]; simp
    · obtain ⟨d, hd⟩ := back j d' hj hd'
      obtain ⟨d'', e, a, _⟩ := keep j d hj hd
      rw [hd'] at e; injection e with e; subst e
      exact Or.inl ⟨d, hd, a⟩

theorem root_of_same (s s' : Store Ω μ) (hr : RootInv s) (hroot : s'.root = s.root)
    (fwd : ∀ j d, getNode s j = .ok d → ∃ d', getNode s' j = .ok d' ∧ d'.parent = d.parent)
    (bwd : ∀ j d', getNode s' j = .ok d' → ∃ d, getNode s j = .ok d) : RootInv s' := by
  refine root_of_parents s s' hr hroot (fun d hd => fwd _ d hd) ?_
  intro j d' hd'
  obtain ⟨d, hd⟩ := bwd j d' hd'
  obtain ⟨d'', e, a⟩ := fwd j d hd
  rw [hd'] at e; injection e with e; subst e
  exact Or.inl ⟨d, hd, a⟩

theorem root_addLink (s s' : Store Ω μ) (hr : RootInv s) (src dst : Port) (h : addLink s src dst = .ok s') :
    RootInv s' := by
  obtain ⟨G, _, _⟩ := addLink_nodes s s' src dst h
  obtain ⟨_, _, er, _⟩ := addLink_ok s s' src dst h
  refine root_of_same s s' hr er ?_ G.bwd
  intro j d hd
  obtain ⟨d', e, g⟩ := G.fwd j d hd
  exact ⟨d', e, g.parent⟩

theorem root_deleteLink (s s' : Store Ω μ) (hr : RootInv s) (src dst : Port) (h : deleteLink s src dst = .ok s') :
    RootInv s' := by
  obtain ⟨m', _, rfl⟩ := deleteLink_ok s s' src dst h
  exact root_of_same s _ hr rfl (fun j d hd => ⟨d, hd, rfl⟩) (fun j d hd => ⟨d, hd⟩)

theorem root_addOrderLink (s s' : Store Ω μ) (hr : RootInv s) (a b : Nat) (h : addOrderLink s a b = .ok s') :
    RootInv s' := by
  unfold addOrderLink at h
  split at h
  · simp [pure, Except.pure] at h; subst h; exact hr
  · exact root_addLink s s' hr _ _ h

theorem root_deleteNode (s s' : Store Ω μ) (hr : RootInv s) (hs : SInv s) (node : Nat) (hne : node ≠ s.root)
    (h : deleteNode s node = .ok s') : RootInv s' := by
  obtain ⟨⟨d0, h0⟩, _, _, _, _, _, er, _, _⟩ := deleteNode_spec s s' hs.links hs.bound hs.free node h
  obtain ⟨keep, back⟩ := deleteNode_children s s' hs.links node d0 h0 h
  refine root_of_parents s s' hr er ?_ ?_
  · intro d hd
    obtain ⟨d', e, a, _⟩ := keep s.root d (fun e => hne e.symm) hd
    exact ⟨d', e, a⟩
  · intro j d' hd'
    obtain ⟨hj, d, hd⟩ := back j d' hd'
    obtain ⟨d'', e, a, _⟩ := keep j d hj hd
    rw [hd'] at e; injection e with e; subst e
    exact Or.inl ⟨d, hd, a⟩

theorem root_insertNodes (b : Store Ω μ) (parent : Option Nat) : ∀ (is : List Nat) (s s' : Store Ω μ)
    (mp mp' : Dict Nat Nat), RootInv s → FreeInv s → insertNodes s b parent is mp = .ok (s', mp') →
    RootInv s' ∧ FreeInv s' := by
  intro is
  induction is with
  | nil => intro s s' mp mp' hr hf h; simp [insertNodes] at h; rw [← h.1]; exact ⟨hr, hf⟩
  | cons i is ih =>
    intro s s' mp mp' hr hf h
    unfold insertNodes at h
    cases hd : getNode b i with
    | error e => simp [hd] at h
    | ok d =>
      simp only [hd] at h
      cases hp : resolveParent mp parent d.parent with
      | error e => simp [hp] at h
      | ok np =>
        simp only [hp] at h
        cases ha : addNode s d.op np (some d.numOuts) d.md with
        | error e => simp [ha] at h
        | ok r =>
          simp only [ha] at h
          have h1 := root_addNodeRaw s r.1 hr hf _ _ _ _ r.2 ha
          obtain ⟨_, _, _, _, _, _, hf1⟩ := addNodeRaw_spec s r.1 hf _ _ _ _ r.2 ha
          exact ih r.1 s' _ mp' h1 hf1 h

theorem root_insertLinks (mp : Dict Nat Nat) : ∀ (ls : List (SubPort × SubPort)) (s s' : Store Ω μ),
    RootInv s → insertLinks s mp ls = .ok s' → RootInv s' := by
  intro ls
  induction ls with
  | nil => intro s s' hr h; simp [insertLinks, pure, Except.pure] at h; rw [← h]; exact hr
  | cons e ls ih =>
    intro s s' hr h
    obtain ⟨a, c⟩ := e
    unfold insertLinks at h
    cases ha : Dict.get a.node mp with
    | none => simp [ha] at h
    | some a' =>
      cases hc : Dict.get c.node mp with
      | none => simp [ha, hc] at h
      | some c' =>
        simp only [ha, hc, bind, Except.bind] at h
        cases h1 : addLink s (a', a.offset) (c', c.offset) with
        | error err => simp [h1] at h
        | ok s1 =>
          simp only [h1] at h
          exact ih s1 s' (root_addLink s s1 hr _ _ h1) h

theorem root_insertHugr (s s' b : Store Ω μ) (hr : RootInv s) (hf : FreeInv s) (parent : Option Nat)
    (mp : Dict Nat Nat) (h : insertHugr s b parent = .ok (s', mp)) : RootInv s' := by
  unfold insertHugr at h
  simp only [bind, Except.bind] at h
  cases ho : hierarchyOrder b with
  | error e => simp [ho] at h
  | ok order =>
    simp only [ho] at h
    cases hrn : insertNodes s b parent order [] with
    | error e => simp [hrn] at h
    | ok r =>
      obtain ⟨s1, mp1⟩ := r
      simp only [hrn] at h
      cases h2 : insertLinks s1 mp1 b.links.fwd with
      | error e => simp [h2] at h
      | ok s2 =>
        simp only [h2, pure, Except.pure] at h
        have hs2 : s2 = s' := by injection h with h; exact (Prod.mk.inj h).1
        subst hs2
        exact root_insertLinks mp1 _ s1 s2 (root_insertNodes b parent order s s1 [] mp1 hr hf hrn).1 h2

end HugrVerif.Store
