/- Helper lemmas for C16 (node handles, `Py.Slice`). -/
import HugrVerif.Handle
import HugrVerif.Py.Slice

namespace HugrVerif.Handle
open HugrVerif.Py

/-! ### `_normalize_index` in closed form -/

theorem normalizeIndex_unknown (i : Int) (ov : Bool) :
    normalizeIndex none i ov = if 0 ≤ i then .ok i else .error .indexError := by
  unfold normalizeIndex
  by_cases h : 0 ≤ i
  · have : ¬ i < 0 := by omega
    simp [h, this]
  · have : i < 0 := by omega
    simp [h, this]

/-- Python's `i % n` for `-n ≤ i < n`. -/
theorem emod_of_range (n : Nat) (i : Int) (h1 : -(n : Int) ≤ i) (h2 : i < n) :
    i % (n : Int) = if 0 ≤ i then i else i + n := by
  split
  · exact Int.emod_eq_of_lt (by omega) h2
  · rw [← Int.add_emod_right]
    exact Int.emod_eq_of_lt (by omega) (by omega)

theorem normalizeIndex_strict (n : Nat) (i : Int) :
    normalizeIndex (some n) i false =
      if -(n : Int) ≤ i ∧ i < n then .ok (i % (n : Int)) else .error .indexError := by
  unfold normalizeIndex
  by_cases h2 : i < (n : Int)
  · by_cases h1 : -(n : Int) ≤ i
    · have e := emod_of_range n i h1 h2
      have a1 : ¬ (i ≥ (n : Int)) := by omega
      have a2 : ¬ (i < -(n : Int)) := by omega
      by_cases h0 : 0 ≤ i
      · have : min i (n : Int) = i := by omega
        simp [a1, a2, h1, h2, h0, e, this]
      · have a3 : ¬ (i ≥ 0) := by omega
        simp [a1, a2, h1, h2, h0, e]; omega
    · have a1 : ¬ (i ≥ (n : Int)) := by omega
      have a2 : i < -(n : Int) := by omega
      simp [a1, a2, h1]
  · have a1 : i ≥ (n : Int) := by omega
    simp [a1, h2]

/-- With `allow_overflow=True` and `step ≥ 0`, normalisation is CPython's bound adjustment, except that
    a bound below `-n` raises instead of being clamped to 0. -/
theorem normalizeIndex_overflow (n : Nat) (i step : Int) (hk : 0 ≤ step) :
    normalizeIndex (some n) i true =
      if i < -(n : Int) then .error .indexError else .ok (Slice.adjustBound n step i) := by
  unfold normalizeIndex Slice.adjustBound
  have hs : ¬ step < 0 := by omega
  by_cases h1 : i < -(n : Int)
  · simp [h1]
  · by_cases h0 : 0 ≤ i
    · have a : ¬ i < 0 := by omega
      by_cases h2 : i ≥ (n : Int)
      · have : min i (n : Int) = n := by omega
        simp [h1, h0, a, h2, hs, this]
      · have : min i (n : Int) = i := by omega
        simp [h1, h0, a, h2, this]
    · have a : i < 0 := by omega
      have b : ¬ (i + (n : Int) < 0) := by omega
      have c : ¬ (i ≥ 0) := by omega
      simp [h1, a, b, c]; omega

theorem normalizeIndex_never_assert (numOut : Option Nat) (i : Int) (ov : Bool) :
    normalizeIndex numOut i ov ≠ .error .assertionError := by
  cases numOut with
  | none => rw [normalizeIndex_unknown]; split <;> simp
  | some n =>
    unfold normalizeIndex
    simp only
    split
    · rename_i e he
      split at he <;> first | (cases he; simp) | skip
      split at he <;> first | (cases he; simp) | cases he
    · split <;> simp

/-! ### `range(start, stop, step)` by iteration = CPython's length formula -/

theorem sliceLen_pos_step (a b k : Int) (hk : 0 < k) :
    Slice.sliceLen a b k = if a < b then ((b - a - 1) / k + 1).toNat else 0 := by
  unfold Slice.sliceLen
  have : ¬ k < 0 := by omega
  simp [this]

theorem sliceLen_step (a b k : Int) (hk : 0 < k) (hab : a < b) :
    Slice.sliceLen a b k = Slice.sliceLen (a + k) b k + 1 := by
  rw [sliceLen_pos_step a b k hk, sliceLen_pos_step (a + k) b k hk]
  simp only [hab, if_true]
  have hq : 0 ≤ (b - a - 1) / k := Int.ediv_nonneg (by omega) (by omega)
  by_cases h2 : a + k < b
  · simp only [h2, if_true]
    have e : b - a - 1 = (b - (a + k) - 1) + 1 * k := by omega
    have : (b - a - 1) / k = (b - (a + k) - 1) / k + 1 := by
      rw [e, Int.add_mul_ediv_right _ _ (by omega : k ≠ 0)]
    have hq2 : 0 ≤ (b - (a + k) - 1) / k := Int.ediv_nonneg (by omega) (by omega)
    omega
  · simp only [h2, if_false]
    have : (b - a - 1) / k = 0 := Int.ediv_eq_zero_of_lt (by omega) (by omega)
    omega

theorem rangeUp_eq (stop k : Int) (hk : 0 < k) :
    ∀ (fuel : Nat) (cur : Int), (stop - cur).toNat ≤ fuel →
      rangeUp stop k fuel cur =
        (List.range (Slice.sliceLen cur stop k)).map (fun (j : Nat) => cur + (j : Int) * k) := by
  intro fuel
  induction fuel with
  | zero =>
    intro cur hf
    have : ¬ cur < stop := by omega
    simp [rangeUp, sliceLen_pos_step _ _ _ hk, this]
  | succ f ih =>
    intro cur hf
    unfold rangeUp
    by_cases hc : cur < stop
    · simp only [hc, if_true]
      rw [sliceLen_step cur stop k hk hc, ih (cur + k) (by omega)]
      rw [List.range_succ_eq_map]
      simp only [List.map_cons, List.map_map]
      congr 1
      · simp
      · apply List.map_congr_left
        intro j _
        simp only [Function.comp]
        have : ((j.succ : Nat) : Int) * k = (j : Int) * k + k := by
          rw [Int.natCast_succ, Int.add_mul]; simp
        omega
    · simp [hc, sliceLen_pos_step _ _ _ hk]

theorem pyRange_eq (a b k : Int) (hk : 0 < k) :
    pyRange a b k = (List.range (Slice.sliceLen a b k)).map (fun (j : Nat) => a + (j : Int) * k) := by
  unfold pyRange
  simp only [hk, if_true]
  exact rangeUp_eq b k hk _ a (Nat.le_refl _)

/-! ### positions of a slice are inside the sequence -/

theorem adjustBound_bounds (n : Nat) (k b : Int) (hk : 0 < k) :
    0 ≤ Slice.adjustBound n k b ∧ Slice.adjustBound n k b ≤ n := by
  unfold Slice.adjustBound
  have : ¬ k < 0 := by omega
  simp only [this, if_false]
  split
  · split <;> omega
  · split <;> omega

theorem adjStart_bounds (n : Nat) (k : Int) (s : Option Int) (hk : 0 < k) :
    0 ≤ Slice.adjStart n k s ∧ Slice.adjStart n k s ≤ n := by
  cases s with
  | none => have : ¬ k < 0 := by omega
            simp [Slice.adjStart, this]
  | some s => exact adjustBound_bounds n k s hk

theorem adjStop_bounds (n : Nat) (k : Int) (e : Option Int) (hk : 0 < k) :
    0 ≤ Slice.adjStop n k e ∧ Slice.adjStop n k e ≤ n := by
  cases e with
  | none => have : ¬ k < 0 := by omega
            simp [Slice.adjStop, this]
  | some e => exact adjustBound_bounds n k e hk

/-- Element `j` of a positive-step slice lies in `[start, stop)`. -/
theorem elem_lt_stop (a b k : Int) (hk : 0 < k) (j : Nat) (hj : j < Slice.sliceLen a b k) :
    a ≤ a + (j : Int) * k ∧ a + (j : Int) * k < b := by
  rw [sliceLen_pos_step a b k hk] at hj
  split at hj
  · rename_i hab
    have hq : 0 ≤ (b - a - 1) / k := Int.ediv_nonneg (by omega) (by omega)
    have hj' : (j : Int) ≤ (b - a - 1) / k := by omega
    have h1 : (j : Int) * k ≤ (b - a - 1) / k * k := Int.mul_le_mul_of_nonneg_right hj' (by omega)
    have h2 : (b - a - 1) / k * k ≤ b - a - 1 := Int.ediv_mul_le _ (by omega)
    have h3 : 0 ≤ (j : Int) * k := Int.mul_nonneg (by omega) (by omega)
    omega
  · omega

theorem positions_bounds (n : Nat) (s e : Option Int) (k : Int) (hk : 0 < k) :
    ∀ x ∈ Slice.positions n s e k, 0 ≤ x ∧ x < n := by
  intro x hx
  unfold Slice.positions at hx
  simp only [List.mem_map, List.mem_range] at hx
  obtain ⟨j, hj, rfl⟩ := hx
  have h := elem_lt_stop _ _ k hk j hj
  have ha := adjStart_bounds n k s hk
  have hb := adjStop_bounds n k e hk
  omega

/-! ### consuming a generator whose items all succeed -/

theorem collect_ok (f : Int → Except Err Port) (g : Int → Port) (xs : List Int)
    (h : ∀ i ∈ xs, f i = .ok (g i)) : collect f xs = .ok (xs.map g) := by
  induction xs with
  | nil => rfl
  | cons i rest ih =>
    have hi := h i (by simp)
    have hr := ih (fun j hj => h j (by simp [hj]))
    simp [collect, hi, hr]

theorem getInt_in_range (h : Node) (n : Nat) (hn : h.numOut = some n) (i : Int)
    (h0 : 0 ≤ i) (h1 : i < n) : getInt h i = .ok (out h i) := by
  unfold getInt
  rw [hn, normalizeIndex_strict]
  have : -(n : Int) ≤ i ∧ i < n := ⟨by omega, h1⟩
  simp only [this, and_self, if_true]
  rw [Int.emod_eq_of_lt h0 h1]

/-! ### the slice branch -/

theorem adjStart_eq (n : Nat) (k : Int) (hk : 0 < k) (s : Option Int) :
    Slice.adjStart n k s = Slice.adjustBound n k (pyOr s 0) := by
  have hs : ¬ k < 0 := by omega
  cases s with
  | none =>
    simp only [Slice.adjStart, pyOr, Slice.adjustBound, hs, if_false]
    by_cases h0 : (0 : Int) ≥ n
    · simp only [h0, if_true]; omega
    · simp only [h0, if_false]
      have : ¬ ((0 : Int) < 0) := by omega
      simp
  | some s' =>
    have e2 : (if s' = 0 then (0 : Int) else s') = s' := by split <;> omega
    simp only [Slice.adjStart, pyOr, e2]

theorem adjStop_eq (n : Nat) (k : Int) (hk : 0 < k) (e : Option Int) :
    ∃ stop1, stopOrCount e (some n) = some stop1 ∧ Slice.adjStop n k e = Slice.adjustBound n k stop1 ∧
      (e = none → stop1 = n) ∧ (∀ e', e = some e' → stop1 = e') := by
  have hs : ¬ k < 0 := by omega
  cases e with
  | none =>
    refine ⟨(n : Int), rfl, ?_, fun _ => rfl, fun _ h => by cases h⟩
    have a : ¬ ((n : Int) < 0) := by omega
    simp [Slice.adjStop, Slice.adjustBound, hs, a]
  | some e' =>
    refine ⟨e', rfl, rfl, ?_, ?_⟩
    · intro h; cases h
    · intro e'' h; cases h; rfl

theorem pyOr_step (k : Option Int) (hk : ∀ k', k = some k' → 0 < k') :
    0 < pyOr k 1 ∧ pyOr k 1 = (match k with | none => 1 | some k' => k') := by
  cases k with
  | none => simp [pyOr]
  | some k' =>
    have := hk k' rfl
    have h0 : k' ≠ 0 := by omega
    simp [pyOr, h0, this]

/-- Known count, positive step, both integer bounds `≥ -n`: all of CPython's positions, in order. -/
theorem sliceFrom_ok (h : Node) (n : Nat) (hn : h.numOut = some n) (a0 b0 k : Int) (hk : 0 < k)
    (ha : -(n : Int) ≤ a0) (hb : -(n : Int) ≤ b0) :
    sliceFrom h a0 b0 k =
      .ok ((List.range (Slice.sliceLen (Slice.adjustBound n k a0) (Slice.adjustBound n k b0) k)).map
        (fun (j : Nat) => out h (Slice.adjustBound n k a0 + (j : Int) * k))) := by
  unfold sliceFrom
  rw [hn, normalizeIndex_overflow n a0 k (by omega), normalizeIndex_overflow n b0 k (by omega)]
  have h1 : ¬ a0 < -(n : Int) := by omega
  have h2 : ¬ b0 < -(n : Int) := by omega
  simp only [h1, h2, if_false]
  rw [pyRange_eq _ _ _ hk]
  have hA := adjustBound_bounds n k a0 hk
  have hB := adjustBound_bounds n k b0 hk
  rw [collect_ok (getInt h) (out h)]
  · rw [List.map_map]; rfl
  · intro i hi
    simp only [List.mem_map, List.mem_range] at hi
    obtain ⟨j, hj, rfl⟩ := hi
    have := elem_lt_stop _ _ k hk j hj
    exact getInt_in_range h n hn _ (by omega) (by omega)

theorem sliceFrom_err_start (h : Node) (n : Nat) (hn : h.numOut = some n) (a0 b0 k : Int)
    (ha : a0 < -(n : Int)) : sliceFrom h a0 b0 k = .error .indexError := by
  unfold sliceFrom
  rw [hn, normalizeIndex_overflow n a0 1 (by omega)]
  simp [ha]

theorem sliceFrom_err_stop (h : Node) (n : Nat) (hn : h.numOut = some n) (a0 b0 k : Int)
    (hb : b0 < -(n : Int)) : sliceFrom h a0 b0 k = .error .indexError := by
  unfold sliceFrom
  rw [hn, normalizeIndex_overflow n a0 1 (by omega), normalizeIndex_overflow n b0 1 (by omega)]
  simp only [hb, if_true]
  by_cases ha : a0 < -(n : Int) <;> simp [ha]

end HugrVerif.Handle
