/-
  The hypotheses of the rendering theorems (C20) hold for every HUGR built through the mutators with
  live node arguments (C04 `ReachT`): the hierarchy is well founded (`HierWF`), with the position in
  `_hierarchy_order` as the rank.
-/
import HugrVerif.Proofs.Render
import HugrVerif.Proofs.StoreWalk

namespace HugrVerif.Render
open HugrVerif HugrVerif.Store

/-- a duplicate-free enumeration of the live nodes that lists parents first gives a rank -/
theorem hierWF_of_order (s : St) (hh : HierInv s) (order : List Nat) (hnd : order.Nodup)
    (hcl : Closed s order) (hmem : ∀ c, c ∈ order ↔ liveN s c) : HierWF s := by
  have hlen : order.length ≤ s.nodes.length :=
    nodup_live_length hnd (fun x hx => (hmem x).mp hx)
  refine ⟨fun i => s.nodes.length - order.idxOf i, ?_, ?_⟩
  · intro p dp c hp hc
    obtain ⟨dc, hdc, hpar⟩ := hh.childParent p dp c hp hc
    have hco : c ∈ order := (hmem c).mpr ⟨dc, hdc⟩
    obtain ⟨pre, post, e⟩ := List.append_of_mem hco
    have hcpre : c ∉ pre := by
      intro h
      rw [e] at hnd
      exact (List.nodup_append.mp hnd).2.2 c h c (by simp) rfl
    obtain ⟨_, hr⟩ := hcl pre c post e
    have hpc : parentOf s c = some p := by simp [parentOf, hdc, hpar]
    have hppre : p ∈ pre := by
      rcases hr with h | ⟨p', a, b, _⟩
      · rw [hpc] at h; cases h
      · rw [hpc] at a; injection a with a; subst a; exact b
    have h1 : order.idxOf c = pre.length := by
      rw [e, List.idxOf_append, if_neg hcpre]; simp
    have h2 : order.idxOf p < pre.length := by
      rw [e, List.idxOf_append, if_pos hppre]
      exact List.idxOf_lt_length_of_mem hppre
    have h3 : pre.length < order.length := by rw [e]; simp
    show s.nodes.length - order.idxOf c < s.nodes.length - order.idxOf p
    omega
  · intro i d _
    show s.nodes.length - order.idxOf i ≤ s.nodes.length
    omega

end HugrVerif.Render
