/-
  Python `==` on types and rows (`Build/PyEq.lean`, mirroring `Sum.__eq__`, `ExtType.__eq__` and the generated
  dataclass equalities of `hugr/tys.py`) is reflexive and SYMMETRIC: whether a builder finds two rows equal does not
  depend on which of them it holds and which it is handed (`Conditional._update_outputs`, `Cfg.branch_exit`,
  `Function.set_outputs`, `TailLoop._set_out_types` all compare with `!=`).
-/
import HugrVerif.Build.PyEq

namespace HugrVerif

theorem TypeParam.beq_symm (a b : TypeParam) : TypeParam.beq a b = TypeParam.beq b a := by
  by_cases h : a = b
  · subst h; rfl
  · have h1 : TypeParam.beq a b = false := by
      cases hx : TypeParam.beq a b with
      | false => rfl
      | true => exact absurd ((TypeParam.beq_iff a b).1 hx) h
    have h2 : TypeParam.beq b a = false := by
      cases hx : TypeParam.beq b a with
      | false => rfl
      | true => exact absurd ((TypeParam.beq_iff b a).1 hx).symm h
    rw [h1, h2]

theorem TypeParam.beqList_symm (a b : List TypeParam) : TypeParam.beqList a b = TypeParam.beqList b a := by
  by_cases h : a = b
  · subst h; rfl
  · have h1 : TypeParam.beqList a b = false := by
      cases hx : TypeParam.beqList a b with
      | false => rfl
      | true => exact absurd ((TypeParam.beqList_iff a b).1 hx) h
    have h2 : TypeParam.beqList b a = false := by
      cases hx : TypeParam.beqList b a with
      | false => rfl
      | true => exact absurd ((TypeParam.beqList_iff b a).1 hx).symm h
    rw [h1, h2]

theorem beq_comm' {α : Type} [BEq α] [LawfulBEq α] (a b : α) : (a == b) = (b == a) := by
  by_cases h : a = b
  · subst h; rfl
  · have h1 : (a == b) = false := by simpa using h
    have h2 : (b == a) = false := by simpa using (fun e : b = a => h e.symm)
    rw [h1, h2]

theorem emptyRows_self (n : Nat) (rows : List (List Ty)) : emptyRows n rows = emptyRows n rows := rfl

mutual
  theorem Ty.pyEq_symm : ∀ (a b : Ty), Ty.pyEq a b = Ty.pyEq b a
    | .sum r, b => by
      cases b <;> simp [Ty.pyEq]
      rename_i s
      exact Ty.pyEqRows_symm r s
    | .unitSum n, b => by
      cases b <;> simp [Ty.pyEq]
      rename_i m
      exact beq_comm' n m
    | .variable i c, b => by
      cases b <;> simp [Ty.pyEq]
      rename_i j d
      rw [beq_comm' i j, beq_comm' c d]
    | .rowVariable i c, b => by
      cases b <;> simp [Ty.pyEq]
      rename_i j d
      rw [beq_comm' i j, beq_comm' c d]
    | .usize, b => by cases b <;> simp [Ty.pyEq]
    | .alias n c, b => by
      cases b <;> simp [Ty.pyEq]
      rename_i m d
      rw [beq_comm' n m, beq_comm' c d]
    | .function i o r, b => by
      cases b <;> simp [Ty.pyEq]
      rename_i i' o' r'
      rw [Ty.pyEqRow_symm i i', Ty.pyEqRow_symm o o', beq_comm' r r']
    | .poly ps i o r, b => by
      cases b <;> simp [Ty.pyEq]
      rename_i ps' i' o' r'
      rw [TypeParam.beqList_symm ps ps', Ty.pyEqRow_symm i i', Ty.pyEqRow_symm o o', beq_comm' r r']
    | .extType d a, b => by
      cases b <;> simp [Ty.pyEq]
      rename_i d' a'
      rw [beq_comm' d.name d'.name, beq_comm' d.description d'.description, TypeParam.beqList_symm d.params d'.params,
        beq_comm' d.bound d'.bound, TypeArg.pyEqList_symm a a']
    | .opaque id c a e, b => by
      cases b <;> simp [Ty.pyEq]
      rename_i id' c' a' e'
      rw [beq_comm' id id', beq_comm' c c', TypeArg.pyEqList_symm a a', beq_comm' e e']
    | .qubit, b => by cases b <;> simp [Ty.pyEq]
  theorem Ty.pyEqRow_symm : ∀ (xs ys : List Ty), Ty.pyEqRow xs ys = Ty.pyEqRow ys xs
    | [], ys => by cases ys <;> simp [Ty.pyEqRow]
    | x :: xs, ys => by
      cases ys with
      | nil => simp [Ty.pyEqRow]
      | cons y ys => simp only [Ty.pyEqRow]; rw [Ty.pyEq_symm x y, Ty.pyEqRow_symm xs ys]
  theorem Ty.pyEqRows_symm : ∀ (xs ys : List (List Ty)), Ty.pyEqRows xs ys = Ty.pyEqRows ys xs
    | [], ys => by cases ys <;> simp [Ty.pyEqRows]
    | x :: xs, ys => by
      cases ys with
      | nil => simp [Ty.pyEqRows]
      | cons y ys => simp only [Ty.pyEqRows]; rw [Ty.pyEqRow_symm x y, Ty.pyEqRows_symm xs ys]
  theorem TypeArg.pyEq_symm : ∀ (a b : TypeArg), TypeArg.pyEq a b = TypeArg.pyEq b a
    | .type t, b => by
      cases b <;> simp [TypeArg.pyEq]
      rename_i u
      exact Ty.pyEq_symm t u
    | .boundedNat n, b => by
      cases b <;> simp [TypeArg.pyEq]
      rename_i m
      exact beq_comm' n m
    | .string s, b => by
      cases b <;> simp [TypeArg.pyEq]
      rename_i t
      exact beq_comm' s t
    | .sequence es, b => by
      cases b <;> simp [TypeArg.pyEq]
      rename_i fs
      exact TypeArg.pyEqList_symm es fs
    | .extensions es, b => by
      cases b <;> simp [TypeArg.pyEq]
      rename_i fs
      exact beq_comm' es fs
    | .variable i p, b => by
      cases b <;> simp [TypeArg.pyEq]
      rename_i j q
      rw [beq_comm' i j, TypeParam.beq_symm p q]
  theorem TypeArg.pyEqList_symm : ∀ (xs ys : List TypeArg), TypeArg.pyEqList xs ys = TypeArg.pyEqList ys xs
    | [], ys => by cases ys <;> simp [TypeArg.pyEqList]
    | x :: xs, ys => by
      cases ys with
      | nil => simp [TypeArg.pyEqList]
      | cons y ys => simp only [TypeArg.pyEqList]; rw [TypeArg.pyEq_symm x y, TypeArg.pyEqList_symm xs ys]
end

end HugrVerif

namespace HugrVerif

theorem emptyRows_refl_of (r : List (List Ty)) (h : r.all List.isEmpty = true) : emptyRows r.length r = true := by
  simp [emptyRows, h]

mutual
  theorem Ty.pyEq_refl : ∀ (a : Ty), Ty.pyEq a a = true
    | .sum r => by simp [Ty.pyEq, Ty.pyEqRows_refl r]
    | .unitSum _ => by simp [Ty.pyEq]
    | .variable _ _ => by simp [Ty.pyEq]
    | .rowVariable _ _ => by simp [Ty.pyEq]
    | .usize => by simp [Ty.pyEq]
    | .alias _ _ => by simp [Ty.pyEq]
    | .function i o _ => by simp [Ty.pyEq, Ty.pyEqRow_refl i, Ty.pyEqRow_refl o]
    | .poly ps i o _ => by simp [Ty.pyEq, TypeParam.beqList_refl ps, Ty.pyEqRow_refl i, Ty.pyEqRow_refl o]
    | .extType d a => by simp [Ty.pyEq, TypeParam.beqList_refl d.params, TypeArg.pyEqList_refl a]
    | .opaque _ _ a _ => by simp [Ty.pyEq, TypeArg.pyEqList_refl a]
    | .qubit => by simp [Ty.pyEq]
  theorem Ty.pyEqRow_refl : ∀ (xs : List Ty), Ty.pyEqRow xs xs = true
    | [] => by simp [Ty.pyEqRow]
    | x :: xs => by simp [Ty.pyEqRow, Ty.pyEq_refl x, Ty.pyEqRow_refl xs]
  theorem Ty.pyEqRows_refl : ∀ (xs : List (List Ty)), Ty.pyEqRows xs xs = true
    | [] => by simp [Ty.pyEqRows]
    | x :: xs => by simp [Ty.pyEqRows, Ty.pyEqRow_refl x, Ty.pyEqRows_refl xs]
  theorem TypeArg.pyEq_refl : ∀ (a : TypeArg), TypeArg.pyEq a a = true
    | .type t => by simp [TypeArg.pyEq, Ty.pyEq_refl t]
    | .boundedNat _ => by simp [TypeArg.pyEq]
    | .string _ => by simp [TypeArg.pyEq]
    | .sequence es => by simp [TypeArg.pyEq, TypeArg.pyEqList_refl es]
    | .extensions _ => by simp [TypeArg.pyEq]
    | .variable _ p => by simp [TypeArg.pyEq, TypeParam.beq_refl p]
  theorem TypeArg.pyEqList_refl : ∀ (xs : List TypeArg), TypeArg.pyEqList xs xs = true
    | [] => by simp [TypeArg.pyEqList]
    | x :: xs => by simp [TypeArg.pyEqList, TypeArg.pyEq_refl x, TypeArg.pyEqList_refl xs]
end

/-- rows that are all empty: what `pyEqRows` says about two of them -/
theorem Ty.pyEqRows_of_empty : ∀ (r s : List (List Ty)), r.all List.isEmpty = true → s.all List.isEmpty = true →
    Ty.pyEqRows r s = (r.length == s.length)
  | [], [], _, _ => by simp [Ty.pyEqRows]
  | [], _ :: _, _, _ => by simp [Ty.pyEqRows]
  | _ :: _, [], _, _ => by simp [Ty.pyEqRows]
  | x :: xs, y :: ys, hx, hy => by
    simp only [List.all_cons, Bool.and_eq_true] at hx hy
    have ex : x = [] := List.isEmpty_iff.mp hx.1
    have ey : y = [] := List.isEmpty_iff.mp hy.1
    subst ex; subst ey
    simp only [Ty.pyEqRows, Ty.pyEqRow, Bool.true_and, List.length_cons]
    rw [Ty.pyEqRows_of_empty xs ys hx.2 hy.2]
    simp

/-- a general sum equals `UnitSum(n)` exactly when it has `n` rows, all empty: the unit-sum identification of the
    specification, and nothing more -/
theorem Ty.pyEq_sum_unit (r : List (List Ty)) (n : Nat) :
    Ty.pyEq (.sum r) (.unitSum n) = (r.length == n && r.all List.isEmpty) := by
  simp [Ty.pyEq, emptyRows]

end HugrVerif

namespace HugrVerif

theorem Ty.pyEqRow_nil_right : ∀ (x : List Ty), Ty.pyEqRow x [] = true → x = []
  | [], _ => rfl
  | _ :: _, h => by simp [Ty.pyEqRow] at h

theorem Ty.pyEqRows_empty_right : ∀ (r s : List (List Ty)), Ty.pyEqRows r s = true → s.all List.isEmpty = true →
    r.all List.isEmpty = true ∧ r.length = s.length
  | [], [], _, _ => by simp
  | [], _ :: _, h, _ => by simp [Ty.pyEqRows] at h
  | _ :: _, [], h, _ => by simp [Ty.pyEqRows] at h
  | x :: xs, y :: ys, h, hs => by
    simp only [Ty.pyEqRows, Bool.and_eq_true] at h
    simp only [List.all_cons, Bool.and_eq_true] at hs
    have ey : y = [] := List.isEmpty_iff.mp hs.1
    subst ey
    have ex := Ty.pyEqRow_nil_right x h.1
    subst ex
    obtain ⟨a, b⟩ := Ty.pyEqRows_empty_right xs ys h.2 hs.2
    simp [a, b]

mutual
  theorem Ty.pyEq_trans : ∀ (a b c : Ty), Ty.pyEq a b = true → Ty.pyEq b c = true → Ty.pyEq a c = true
    | .sum r, b, c, h1, h2 => by
      cases b <;> cases c <;> simp [Ty.pyEq, emptyRows] at h1 h2 ⊢
      · rename_i s t; exact Ty.pyEqRows_trans r s t h1 h2
      · rename_i s n
        obtain ⟨a1, a2⟩ := Ty.pyEqRows_empty_right r s h1 (by simpa using h2.2)
        exact ⟨by omega, by simpa using a1⟩
      · rename_i n t
        rw [Ty.pyEqRows_of_empty r t (by simpa using h1.2) (by simpa using h2.2)]
        simp; omega
      · rename_i n m; exact ⟨by omega, h1.2⟩
    | .unitSum n, b, c, h1, h2 => by
      cases b <;> cases c <;> simp [Ty.pyEq, emptyRows] at h1 h2 ⊢
      · rename_i s t
        rw [Ty.pyEqRows_symm] at h2
        obtain ⟨a1, a2⟩ := Ty.pyEqRows_empty_right t s h2 (by simpa using h1.2)
        exact ⟨by omega, by simpa using a1⟩
      · omega
      · rename_i m t; exact ⟨by omega, h2.2⟩
      · omega
    | .variable _ _, b, c, h1, h2 => by cases b <;> cases c <;> simp_all [Ty.pyEq]
    | .rowVariable _ _, b, c, h1, h2 => by cases b <;> cases c <;> simp_all [Ty.pyEq]
    | .usize, b, c, h1, h2 => by cases b <;> cases c <;> simp_all [Ty.pyEq]
    | .alias _ _, b, c, h1, h2 => by cases b <;> cases c <;> simp_all [Ty.pyEq]
    | .function i o r, b, c, h1, h2 => by
      cases b <;> cases c <;> simp [Ty.pyEq] at h1 h2 ⊢
      rename_i i' o' r' i'' o'' r''
      exact ⟨⟨Ty.pyEqRow_trans i i' i'' h1.1.1 h2.1.1, Ty.pyEqRow_trans o o' o'' h1.1.2 h2.1.2⟩, h1.2.trans h2.2⟩
    | .poly ps i o r, b, c, h1, h2 => by
      cases b <;> cases c <;> simp [Ty.pyEq] at h1 h2 ⊢
      rename_i ps' i' o' r' ps'' i'' o'' r''
      have e1 := (TypeParam.beqList_iff ps ps').1 h1.1.1.1
      have e2 := (TypeParam.beqList_iff ps' ps'').1 h2.1.1.1
      exact ⟨⟨⟨(TypeParam.beqList_iff ps ps'').2 (e1.trans e2), Ty.pyEqRow_trans i i' i'' h1.1.1.2 h2.1.1.2⟩,
        Ty.pyEqRow_trans o o' o'' h1.1.2 h2.1.2⟩, h1.2.trans h2.2⟩
    | .extType d a, b, c, h1, h2 => by
      cases b <;> cases c <;> simp [Ty.pyEq] at h1 h2 ⊢
      rename_i d' a' d'' a''
      have e1 := (TypeParam.beqList_iff d.params d'.params).1 h1.1.1.2
      have e2 := (TypeParam.beqList_iff d'.params d''.params).1 h2.1.1.2
      exact ⟨⟨⟨⟨h1.1.1.1.1.trans h2.1.1.1.1, h1.1.1.1.2.trans h2.1.1.1.2⟩, (TypeParam.beqList_iff _ _).2 (e1.trans e2)⟩,
        h1.1.2.trans h2.1.2⟩, TypeArg.pyEqList_trans a a' a'' h1.2 h2.2⟩
    | .opaque id bd a e, b, c, h1, h2 => by
      cases b <;> cases c <;> simp [Ty.pyEq] at h1 h2 ⊢
      rename_i id' b' a' e' id'' b'' a'' e''
      exact ⟨⟨⟨h1.1.1.1.trans h2.1.1.1, h1.1.1.2.trans h2.1.1.2⟩, TypeArg.pyEqList_trans a a' a'' h1.1.2 h2.1.2⟩, h1.2.trans h2.2⟩
    | .qubit, b, c, h1, h2 => by cases b <;> cases c <;> simp_all [Ty.pyEq]
  theorem Ty.pyEqRow_trans : ∀ (xs ys zs : List Ty), Ty.pyEqRow xs ys = true → Ty.pyEqRow ys zs = true → Ty.pyEqRow xs zs = true
    | [], ys, zs, h1, h2 => by cases ys <;> cases zs <;> simp_all [Ty.pyEqRow]
    | x :: xs, ys, zs, h1, h2 => by
      cases ys with
      | nil => simp [Ty.pyEqRow] at h1
      | cons y ys =>
        cases zs with
        | nil => simp [Ty.pyEqRow] at h2
        | cons z zs =>
          simp only [Ty.pyEqRow, Bool.and_eq_true] at h1 h2 ⊢
          exact ⟨Ty.pyEq_trans x y z h1.1 h2.1, Ty.pyEqRow_trans xs ys zs h1.2 h2.2⟩
  theorem Ty.pyEqRows_trans : ∀ (xs ys zs : List (List Ty)), Ty.pyEqRows xs ys = true → Ty.pyEqRows ys zs = true → Ty.pyEqRows xs zs = true
    | [], ys, zs, h1, h2 => by cases ys <;> cases zs <;> simp_all [Ty.pyEqRows]
    | x :: xs, ys, zs, h1, h2 => by
      cases ys with
      | nil => simp [Ty.pyEqRows] at h1
      | cons y ys =>
        cases zs with
        | nil => simp [Ty.pyEqRows] at h2
        | cons z zs =>
          simp only [Ty.pyEqRows, Bool.and_eq_true] at h1 h2 ⊢
          exact ⟨Ty.pyEqRow_trans x y z h1.1 h2.1, Ty.pyEqRows_trans xs ys zs h1.2 h2.2⟩
  theorem TypeArg.pyEq_trans : ∀ (a b c : TypeArg), TypeArg.pyEq a b = true → TypeArg.pyEq b c = true → TypeArg.pyEq a c = true
    | .type t, b, c, h1, h2 => by
      cases b <;> cases c <;> simp [TypeArg.pyEq] at h1 h2 ⊢
      rename_i u v; exact Ty.pyEq_trans t u v h1 h2
    | .boundedNat _, b, c, h1, h2 => by cases b <;> cases c <;> simp_all [TypeArg.pyEq]
    | .string _, b, c, h1, h2 => by cases b <;> cases c <;> simp_all [TypeArg.pyEq]
    | .sequence es, b, c, h1, h2 => by
      cases b <;> cases c <;> simp [TypeArg.pyEq] at h1 h2 ⊢
      rename_i fs gs; exact TypeArg.pyEqList_trans es fs gs h1 h2
    | .extensions _, b, c, h1, h2 => by cases b <;> cases c <;> simp_all [TypeArg.pyEq]
    | .variable i p, b, c, h1, h2 => by
      cases b <;> cases c <;> simp [TypeArg.pyEq] at h1 h2 ⊢
      rename_i j q k r
      have e1 := (TypeParam.beq_iff p q).1 h1.2
      have e2 := (TypeParam.beq_iff q r).1 h2.2
      exact ⟨h1.1.trans h2.1, (TypeParam.beq_iff p r).2 (e1.trans e2)⟩
  theorem TypeArg.pyEqList_trans : ∀ (xs ys zs : List TypeArg), TypeArg.pyEqList xs ys = true → TypeArg.pyEqList ys zs = true → TypeArg.pyEqList xs zs = true
    | [], ys, zs, h1, h2 => by cases ys <;> cases zs <;> simp_all [TypeArg.pyEqList]
    | x :: xs, ys, zs, h1, h2 => by
      cases ys with
      | nil => simp [TypeArg.pyEqList] at h1
      | cons y ys =>
        cases zs with
        | nil => simp [TypeArg.pyEqList] at h2
        | cons z zs =>
          simp only [TypeArg.pyEqList, Bool.and_eq_true] at h1 h2 ⊢
          exact ⟨TypeArg.pyEq_trans x y z h1.1 h2.1, TypeArg.pyEqList_trans xs ys zs h1.2 h2.2⟩
end
end HugrVerif
