/-
  Node-table lemmas for the store (C04/C08): slot allocation, free list, add_node, delete_node.
-/
import HugrVerif.Proofs.Store

namespace HugrVerif.Store
open Py HugrVerif

variable {Ω μ : Type}

/-- The free stack lists exactly the `None` slots, once each. -/
structure FreeInv (s : Store Ω μ) : Prop where
  iff : ∀ i, i ∈ s.free ↔ s.nodes[i]? = some none
  nodup : s.free.Nodup

theorem getNode_ok_iff (s : Store Ω μ) (i : Nat) (d : NodeData Ω μ) :
    getNode s i = .ok d ↔ s.nodes[i]? = some (some d) := by
  unfold getNode
  cases h : s.nodes[i]? with
  | none => simp
  | some x => cases x <;> simp

theorem getNode_err_iff (s : Store Ω μ) (i : Nat) :
    (∀ d, getNode s i ≠ .ok d) ↔ (s.nodes[i]? = none ∨ s.nodes[i]? = some none) := by
  unfold getNode
  cases h : s.nodes[i]? with
  | none => simp
  | some x => cases x <;> simp

/-- Data of the node same up to its children list and port counts. -/
structure NodeSame (d d' : NodeData Ω μ) : Prop where
  op : d'.op = d.op
  parent : d'.parent = d.parent
  md : d'.md = d.md

theorem NodeSame.refl (d : NodeData Ω μ) : NodeSame d d := ⟨rfl, rfl, rfl⟩
theorem NodeSame.trans {a b c : NodeData Ω μ} (h1 : NodeSame a b) (h2 : NodeSame b c) : NodeSame a c :=
  ⟨h2.op.trans h1.op, h2.parent.trans h1.parent, h2.md.trans h1.md⟩
theorem NodeGrow.same {d d' : NodeData Ω μ} (h : NodeGrow d d') : NodeSame d d' := ⟨h.op, h.parent, h.md⟩

/-- `allocSlot` returns a slot that was not live, makes it live with the given data,
    leaves every other slot alone and keeps the free-list invariant. -/
theorem allocSlot_spec (s : Store Ω μ) (hf : FreeInv s) (d : NodeData Ω μ) :
    let r := allocSlot s d
    (∀ x, getNode s r.2 ≠ .ok x) ∧ getNode r.1 r.2 = .ok d ∧
    (∀ j, j ≠ r.2 → getNode r.1 j = getNode s j) ∧ FreeInv r.1 ∧ r.1.links = s.links ∧ r.1.root = s.root := by
  unfold allocSlot
  cases hl : s.free.getLast? with
  | none =>
    have hnil : s.free = [] := List.getLast?_eq_none_iff.mp hl
    simp only []
    refine ⟨?_, ?_, ?_, ?_, trivial, trivial⟩
    · intro x hx
      have := getNode_lt s _ x hx
      omega
    · simp [getNode]
    · intro j hj
      unfold getNode
      by_cases hlt : j < s.nodes.length
      · simp [List.getElem?_append_left hlt]
      · have : s.nodes.length < j := by omega
        have h1 : (s.nodes ++ [some d])[j]? = none := by
          apply List.getElem?_eq_none; simp; omega
        have h2 : s.nodes[j]? = none := List.getElem?_eq_none (by omega)
        simp [h1, h2]
    · refine ⟨?_, by simp [hnil]⟩
      intro i
      simp only [hnil, List.not_mem_nil, false_iff]
      intro hc
      by_cases hlt : i < s.nodes.length
      · rw [List.getElem?_append_left hlt] at hc
        have := (hf.iff i).mpr hc
        simp [hnil] at this
      · by_cases he : i = s.nodes.length
        · subst he; simp at hc
        · have : (s.nodes ++ [some d])[i]? = none := by
            apply List.getElem?_eq_none; simp; omega
          rw [this] at hc; cases hc
  | some i =>
    simp only []
    have hmem : i ∈ s.free := List.mem_of_getLast? hl
    have hnone : s.nodes[i]? = some none := (hf.iff i).mp hmem
    have hlt : i < s.nodes.length := (List.getElem?_eq_some_iff.mp hnone).1
    have hsplit : s.free = s.free.dropLast ++ [i] := by
      have hne : s.free ≠ [] := by intro e; rw [e] at hl; simp at hl
      have h1 := List.dropLast_concat_getLast hne
      have h2 : s.free.getLast hne = i := by
        have := List.getLast?_eq_some_getLast hne
        rw [hl] at this; exact (Option.some.inj this).symm
      rw [h2] at h1; exact h1.symm
    have hnd : (s.free.dropLast ++ [i]).Nodup := by rw [← hsplit]; exact hf.nodup
    have hni : i ∉ s.free.dropLast := by
      intro hm
      have := (List.nodup_append.mp hnd).2.2 i hm i (by simp)
      exact this rfl
    refine ⟨?_, ?_, ?_, ?_, trivial, trivial⟩
    · intro x hx
      rw [getNode_ok_iff, hnone] at hx; cases hx
    · simp [getNode, List.getElem?_set, hlt]
    · intro j hj
      unfold getNode
      have : ¬ i = j := fun e => hj e.symm
      simp [List.getElem?_set, this]
    · refine ⟨?_, (List.nodup_append.mp hnd).1⟩
      intro j
      simp only [List.getElem?_set]
      by_cases hji : i = j
      · subst hji
        simp [hlt, hni]
      · simp only [hji, if_false]
        rw [← hf.iff j]
        constructor
        · intro hm; rw [hsplit]; exact List.mem_append_left _ hm
        · intro hm
          rw [hsplit] at hm
          rcases List.mem_append.mp hm with h | h
          · exact h
          · simp at h; exact absurd h.symm hji

/-- `setNode` on a live slot keeps the free-list invariant. -/
theorem freeInv_setNode_live (s : Store Ω μ) (hf : FreeInv s) (i : Nat) (d d' : NodeData Ω μ)
    (h : getNode s i = .ok d) : FreeInv (setNode s i (some d')) := by
  refine ⟨?_, hf.nodup⟩
  intro j
  show j ∈ s.free ↔ (s.nodes.set i (some d'))[j]? = some none
  rw [hf.iff j, List.getElem?_set]
  by_cases hji : i = j
  · subst hji
    have := (getNode_ok_iff s i d).mp h
    rw [this]; simp [getNode_lt s i d h]
  · simp [hji]

theorem freeInv_modifyNode (s s' : Store Ω μ) (hf : FreeInv s) (i : Nat) (f : NodeData Ω μ → NodeData Ω μ)
    (h : modifyNode s i f = .ok s') : FreeInv s' := by
  obtain ⟨d, hd, rfl⟩ := modifyNode_ok s s' i f h
  exact freeInv_setNode_live s hf i d (f d) hd

/-- Effect of a `modifyNode` that only touches children lists and port counts. -/
theorem modifyNode_same (s s' : Store Ω μ) (i : Nat) (f : NodeData Ω μ → NodeData Ω μ)
    (hf : ∀ d, NodeSame d (f d)) (h : modifyNode s i f = .ok s') :
    (∀ j d, getNode s j = .ok d → ∃ d', getNode s' j = .ok d' ∧ NodeSame d d' ∧ (j ≠ i → d' = d)) ∧
    (∀ j d', getNode s' j = .ok d' → ∃ d, getNode s j = .ok d) := by
  have g := fun j => modifyNode_get s s' i j f h
  obtain ⟨di, hdi, _⟩ := modifyNode_ok s s' i f h
  refine ⟨?_, ?_⟩
  · intro j d hd
    rw [g j]
    by_cases hji : j = i
    · subst hji; simp only [if_true, hd, Except.map]; exact ⟨_, rfl, hf d, fun h => absurd rfl h⟩
    · simp only [hji, if_false]; exact ⟨d, hd, NodeSame.refl d, fun _ => rfl⟩
  · intro j d' hd'
    rw [g j] at hd'
    by_cases hji : j = i
    · subst hji; exact ⟨di, hdi⟩
    · simp only [hji, if_false] at hd'; exact ⟨d', hd'⟩

/-! ### `add_node` -/

/-- Relation between the store before and after a step that only edits children lists, and the
    out-port count of node `i`. -/
structure Edit (i : Nat) (a b : Store Ω μ) : Prop where
  fwd : ∀ j d, getNode a j = .ok d → ∃ d', getNode b j = .ok d' ∧ NodeSame d d' ∧
    d'.numInps = d.numInps ∧ (j ≠ i → d'.numOuts = d.numOuts)
  bwd : ∀ j d', getNode b j = .ok d' → ∃ d, getNode a j = .ok d
  links : b.links = a.links
  root : b.root = a.root
  free : FreeInv a → FreeInv b

theorem Edit.refl (i : Nat) (a : Store Ω μ) : Edit i a a :=
  ⟨fun _ d h => ⟨d, h, NodeSame.refl d, rfl, fun _ => rfl⟩, fun _ d h => ⟨d, h⟩, rfl, rfl, id⟩

theorem Edit.trans {i : Nat} {a b c : Store Ω μ} (h1 : Edit i a b) (h2 : Edit i b c) : Edit i a c := by
  refine ⟨?_, ?_, h2.links.trans h1.links, h2.root.trans h1.root, fun h => h2.free (h1.free h)⟩
  · intro j d hd
    obtain ⟨d1, e1, s1, n1, o1⟩ := h1.fwd j d hd
    obtain ⟨d2, e2, s2, n2, o2⟩ := h2.fwd j d1 e1
    exact ⟨d2, e2, s1.trans s2, n2.trans n1, fun hj => (o2 hj).trans (o1 hj)⟩
  · intro j d hd
    obtain ⟨d1, e1⟩ := h2.bwd j d hd
    exact h1.bwd j d1 e1

theorem modifyNode_edit (i : Nat) (s s' : Store Ω μ) (p : Nat) (f : NodeData Ω μ → NodeData Ω μ)
    (hf : ∀ d, NodeSame d (f d) ∧ (f d).numInps = d.numInps ∧ (p ≠ i → (f d).numOuts = d.numOuts))
    (h : modifyNode s p f = .ok s') : Edit i s s' := by
  have g := fun j => modifyNode_get s s' p j f h
  obtain ⟨dp, hdp, _⟩ := modifyNode_ok s s' p f h
  obtain ⟨l1, l2, l3, _⟩ := modifyNode_links s s' p f h
  refine ⟨?_, ?_, l1, l3, fun hfi => freeInv_modifyNode s s' hfi p f h⟩
  · intro j d hd
    rw [g j]
    by_cases hjp : j = p
    · subst hjp; simp only [if_true, hd, Except.map]
      exact ⟨_, rfl, (hf d).1, (hf d).2.1, (hf d).2.2⟩
    · simp only [hjp, if_false]; exact ⟨d, hd, NodeSame.refl d, rfl, fun _ => rfl⟩
  · intro j d' hd'
    rw [g j] at hd'
    by_cases hjp : j = p
    · subst hjp; exact ⟨dp, hdp⟩
    · simp only [hjp, if_false] at hd'; exact ⟨d', hd'⟩

theorem updateNodeOuts_spec (s s' : Store Ω μ) (i k : Nat) (h : updateNodeOuts s i k = .ok s') :
    Edit i s s' ∧ ∃ d, getNode s' i = .ok d ∧ d.numOuts = k := by
  unfold updateNodeOuts at h
  simp only [bind, Except.bind] at h
  cases h1 : modifyNode s i (fun d => { d with numOuts := k }) with
  | error e => simp [h1] at h
  | ok s1 =>
    simp only [h1] at h
    have E1 : Edit i s s1 := by
      refine modifyNode_edit i s s1 i _ ?_ h1
      intro d; exact ⟨⟨rfl, rfl, rfl⟩, rfl, fun hne => absurd rfl hne⟩
    have g1 := modifyNode_get s s1 i i _ h1
    obtain ⟨d0, hd0, _⟩ := modifyNode_ok s s1 i _ h1
    simp only [if_true, hd0, Except.map] at g1
    simp only [g1] at h
    cases hp : d0.parent with
    | none =>
      simp [hp, pure, Except.pure] at h; subst h
      exact ⟨E1, _, g1, rfl⟩
    | some p =>
      simp only [hp] at h
      cases hpd : getNode s1 p with
      | error e => simp [hpd] at h
      | ok pd =>
        simp only [hpd] at h
        cases hcs : replaceFirst i (i, some k) pd.children with
        | none => simp [hcs] at h
        | some cs =>
          simp only [hcs] at h
          have g2 := modifyNode_get s1 s' p i _ h
          have E2 : Edit i s1 s' := by
            refine modifyNode_edit i s1 s' p _ ?_ h
            intro d; exact ⟨⟨rfl, rfl, rfl⟩, rfl, fun _ => rfl⟩
          refine ⟨E1.trans E2, ?_⟩
          by_cases hip : i = p
          · subst hip
            rw [g2]; simp only [if_true, g1, Except.map]; exact ⟨_, rfl, rfl⟩
          · rw [g2, g1]; simp only [hip, if_false]; exact ⟨_, rfl, rfl⟩

theorem registerChild_edit (i : Nat) (s s' : Store Ω μ) (parent : Option Nat) (hd : Handle)
    (h : registerChild s parent hd = .ok s') :
    Edit i s s' ∧ ∀ d, getNode s i = .ok d → ∃ d', getNode s' i = .ok d' ∧ d'.numOuts = d.numOuts := by
  unfold registerChild at h
  cases parent with
  | none =>
    simp [pure, Except.pure] at h; subst h
    exact ⟨Edit.refl _ _, fun d hd => ⟨d, hd, rfl⟩⟩
  | some p =>
    simp only [] at h
    refine ⟨?_, ?_⟩
    · refine modifyNode_edit i s s' p _ ?_ h
      intro d; exact ⟨⟨rfl, rfl, rfl⟩, rfl, fun _ => rfl⟩
    · intro d hdd
      have g := modifyNode_get s s' p i _ h
      rw [g]
      by_cases hip : i = p
      · simp only [hip, if_true]; rw [← hip, hdd]; exact ⟨_, rfl, rfl⟩
      · simp only [hip, if_false]; exact ⟨d, hdd, rfl⟩

theorem setOutsOpt_spec (s s' : Store Ω μ) (i : Nat) (numOuts : Option Nat) (d : NodeData Ω μ)
    (hd : getNode s i = .ok d) (hz : d.numOuts = 0) (h : setOutsOpt s i numOuts = .ok s') :
    Edit i s s' ∧ ∃ d', getNode s' i = .ok d' ∧ d'.numOuts = numOuts.getD 0 := by
  unfold setOutsOpt at h
  cases numOuts with
  | none =>
    simp [pure, Except.pure] at h; subst h
    exact ⟨Edit.refl _ _, d, hd, by simpa using hz⟩
  | some k =>
    simp only [] at h
    obtain ⟨E, dk, e, ek⟩ := updateNodeOuts_spec s s' i k h
    exact ⟨E, dk, e, by simpa using ek⟩

/-- **`add_node`**: the returned index was not live, is live afterwards with the given operation,
    parent, metadata and requested out-port count; every other live node keeps its data (children lists
    aside); links, root and the free-list invariant are untouched. -/
theorem addNodeRaw_spec (s s' : Store Ω μ) (hf : FreeInv s) (op : Ω) (parent : Option Nat)
    (numOuts : Option Nat) (m : μ) (i : Nat) (h : addNodeRaw s op parent numOuts m = .ok (s', i)) :
    (∀ x, getNode s i ≠ .ok x) ∧
    (∃ d, getNode s' i = .ok d ∧ d.op = op ∧ d.parent = parent ∧ d.md = m ∧ d.numInps = 0 ∧
      d.numOuts = numOuts.getD 0) ∧
    (∀ j d, j ≠ i → getNode s j = .ok d → ∃ d', getNode s' j = .ok d' ∧ NodeSame d d' ∧
      d'.numInps = d.numInps ∧ d'.numOuts = d.numOuts) ∧
    (∀ j d', j ≠ i → getNode s' j = .ok d' → ∃ d, getNode s j = .ok d) ∧
    s'.links = s.links ∧ s'.root = s.root ∧ FreeInv s' := by
  unfold addNodeRaw at h
  generalize hd0 : ({ op := op, parent := parent, numInps := 0, numOuts := 0, children := [], md := m } : NodeData Ω μ) = d0 at h
  obtain ⟨a1, a2, a3, a4, a5, a6⟩ := allocSlot_spec s hf d0
  generalize hr : allocSlot s d0 = r at h a1 a2 a3 a4 a5 a6
  simp only [] at h
  cases h1 : registerChild r.1 parent (r.2, numOuts) with
  | error e => simp [h1] at h
  | ok s1 =>
    simp only [h1] at h
    cases h2 : setOutsOpt s1 r.2 numOuts with
    | error e => simp [h2] at h
    | ok s2 =>
      simp only [h2] at h
      have hs : s2 = s' := by injection h with h; exact (Prod.mk.inj h).1
      have hi : r.2 = i := by injection h with h; exact (Prod.mk.inj h).2
      subst hs; subst hi
      obtain ⟨E1, k1⟩ := registerChild_edit r.2 r.1 s1 parent _ h1
      obtain ⟨d1, e1, o1⟩ := k1 d0 a2
      have hz : d1.numOuts = 0 := by rw [o1, ← hd0]
      obtain ⟨E2, dk, ek, eo⟩ := setOutsOpt_spec s1 s2 r.2 numOuts d1 e1 hz h2
      have E := E1.trans E2
      obtain ⟨dn, en, sm, ni, _⟩ := E.fwd r.2 d0 a2
      have ek' : dn = dk := by rw [en] at ek; injection ek
      rw [← ek'] at eo
      refine ⟨a1, ⟨dn, en, ?_, ?_, ?_, ?_, eo⟩, ?_, ?_, ?_, ?_, ?_⟩
      · rw [sm.op, ← hd0]
      · rw [sm.parent, ← hd0]
      · rw [sm.md, ← hd0]
      · rw [ni, ← hd0]
      · intro j d hj hd
        rw [← a3 j hj] at hd
        obtain ⟨d', e', s', n', o'⟩ := E.fwd j d hd
        exact ⟨d', e', s', n', o' hj⟩
      · intro j d' hj hd'
        obtain ⟨d, hd⟩ := E.bwd j d' hd'
        rw [a3 j hj] at hd
        exact ⟨d, hd⟩
      · rw [E.links, a5]
      · rw [E.root, a6]
      · exact E.free a4

/-! ### `delete_node` -/

/-- All data but the children list is unchanged. -/
structure NodeKeep (d d' : NodeData Ω μ) : Prop where
  op : d'.op = d.op
  parent : d'.parent = d.parent
  md : d'.md = d.md
  inps : d'.numInps = d.numInps
  outs : d'.numOuts = d.numOuts

theorem NodeKeep.refl (d : NodeData Ω μ) : NodeKeep d d := ⟨rfl, rfl, rfl, rfl, rfl⟩

/-- A step that edits at most one children list. -/
structure ChildEdit (a b : Store Ω μ) : Prop where
  fwd : ∀ j d, getNode a j = .ok d → ∃ d', getNode b j = .ok d' ∧ NodeKeep d d'
  bwd : ∀ j d', getNode b j = .ok d' → ∃ d, getNode a j = .ok d
  links : b.links = a.links
  root : b.root = a.root
  free : b.free = a.free
  len : b.nodes.length = a.nodes.length
  slots : ∀ j : Nat, b.nodes[j]? = some none ↔ a.nodes[j]? = some none

theorem ChildEdit.refl (a : Store Ω μ) : ChildEdit a a :=
  ⟨fun _ d h => ⟨d, h, NodeKeep.refl d⟩, fun _ d h => ⟨d, h⟩, rfl, rfl, rfl, rfl, fun _ => Iff.rfl⟩

theorem modifyNode_childEdit (s s' : Store Ω μ) (p : Nat) (f : NodeData Ω μ → NodeData Ω μ)
    (hf : ∀ d, NodeKeep d (f d)) (h : modifyNode s p f = .ok s') : ChildEdit s s' := by
  have g := fun j => modifyNode_get s s' p j f h
  obtain ⟨dp, hdp, hs'⟩ := modifyNode_ok s s' p f h
  obtain ⟨l1, l2, l3, l4⟩ := modifyNode_links s s' p f h
  refine ⟨?_, ?_, l1, l3, l2, l4, ?_⟩
  · intro j d hd
    rw [g j]
    by_cases hjp : j = p
    · subst hjp; simp only [if_true, hd, Except.map]; exact ⟨_, rfl, hf d⟩
    · simp only [hjp, if_false]; exact ⟨d, hd, NodeKeep.refl d⟩
  · intro j d' hd'
    rw [g j] at hd'
    by_cases hjp : j = p
    · subst hjp; exact ⟨dp, hdp⟩
    · simp only [hjp, if_false] at hd'; exact ⟨d', hd'⟩
  · intro j
    subst hs'
    show (s.nodes.set p (some (f dp)))[j]? = some none ↔ _
    rw [List.getElem?_set]
    by_cases hpj : p = j
    · subst hpj
      have := (getNode_ok_iff s p dp).mp hdp
      rw [this]; simp [getNode_lt s p dp hdp]
    · simp [hpj]

theorem detach_childEdit (s s' : Store Ω μ) (node : Nat) (parent : Option Nat)
    (h : detach s node parent = .ok s') : ChildEdit s s' := by
  unfold detach at h
  cases parent with
  | none => simp [pure, Except.pure] at h; subst h; exact ChildEdit.refl _
  | some p =>
    simp only [] at h
    cases hp : getNode s p with
    | error e => simp [hp] at h
    | ok pd =>
      simp only [hp] at h
      cases hc : removeFirst node pd.children with
      | none => simp [hc] at h
      | some cs =>
        simp only [hc] at h
        refine modifyNode_childEdit s s' p _ ?_ h
        intro d; exact ⟨rfl, rfl, rfl, rfl, rfl⟩

/-- **`delete_node`**: the node becomes unreachable, exactly the links mentioning it disappear,
    every other node keeps its index and data (children lists aside), and all invariants survive. -/
theorem deleteNode_spec (s s' : Store Ω μ) (hl : LInv s.links) (hb : PortBound s) (hf : FreeInv s)
    (node : Nat) (h : deleteNode s node = .ok s') :
    (∃ d, getNode s node = .ok d) ∧ (∀ x, getNode s' node ≠ .ok x) ∧
    (linksList s').Perm ((linksList s).filter (fun l => decide (l.1.1 ≠ node) && decide (l.2.1 ≠ node))) ∧
    LInv s'.links ∧ PortBound s' ∧ FreeInv s' ∧ s'.root = s.root ∧
    (∀ j d, j ≠ node → getNode s j = .ok d → ∃ d', getNode s' j = .ok d' ∧ NodeKeep d d') ∧
    (∀ j d', getNode s' j = .ok d' → j ≠ node ∧ ∃ d, getNode s j = .ok d) := by
  unfold deleteNode at h
  cases h0 : getNode s node with
  | error e => simp [h0] at h
  | ok d =>
    simp only [h0] at h
    cases h1 : detach s node d.parent with
    | error e => simp [h1] at h
    | ok s1 =>
      simp only [h1] at h
      have C1 := detach_childEdit s s1 node d.parent h1
      obtain ⟨d1, e1, k1⟩ := C1.fwd node d h0
      simp only [e1] at h
      have hl1 : LInv s1.links := by rw [C1.links]; exact hl
      obtain ⟨s2, e2, hl2, n2, f2, r2, p2⟩ := deleteInLinks_spec node (offsetsFromMinusOne d1.numInps) s1 hl1
      simp only [e2] at h
      have g2 : getNode s2 node = .ok d1 := by unfold getNode; rw [n2]; exact e1
      simp only [g2] at h
      obtain ⟨s3, e3, hl3, n3, f3, r3, p3⟩ := deleteOutLinks_spec node (offsetsFromMinusOne d1.numOuts) s2 hl2
      simp only [e3] at h
      injection h with h
      have hlinks1 : linksList s1 = linksList s := by simp [linksList, C1.links]
      -- links after both loops
      have hperm : (linksList s3).Perm
          ((linksList s).filter (fun l => decide (l.1.1 ≠ node) && decide (l.2.1 ≠ node))) := by
        refine p3.trans ?_
        refine (p2.filter _).trans ?_
        rw [hlinks1, List.filter_filter]
        apply List.Perm.of_eq
        apply List.filter_congr
        intro l hlm
        obtain ⟨⟨da, ha1, ha2, ha3⟩, ⟨db, hb1, hb2, hb3⟩⟩ := hb l hlm
        by_cases hA : l.1.1 = node <;> by_cases hB : l.2.1 = node
        · rw [hA, h0] at ha1; rw [hB, h0] at hb1
          injection ha1 with ha1; injection hb1 with hb1; subst ha1; subst hb1
          have m1 : l.1.2 ∈ offsetsFromMinusOne d1.numOuts := by
            rw [mem_offsetsFromMinusOne, k1.outs]; omega
          simp [hA, hB, m1]
        · rw [hA, h0] at ha1
          injection ha1 with ha1; subst ha1
          have m1 : l.1.2 ∈ offsetsFromMinusOne d1.numOuts := by
            rw [mem_offsetsFromMinusOne, k1.outs]; omega
          simp [hA, hB, m1]
        · rw [hB, h0] at hb1
          injection hb1 with hb1; subst hb1
          have m2 : l.2.2 ∈ offsetsFromMinusOne d1.numInps := by
            rw [mem_offsetsFromMinusOne, k1.inps]; omega
          simp [hA, hB, m2]
        · simp [hA, hB]
      have hnodes3 : s3.nodes = s1.nodes := n3.trans n2
      have hlt : node < s3.nodes.length := by
        rw [hnodes3]; exact getNode_lt s1 node d1 e1
      have hget : ∀ j, j ≠ node → getNode s' j = getNode s1 j := by
        intro j hj
        subst h
        unfold getNode
        show (match (s3.nodes.set node none)[j]? with | some (some d) => _ | _ => _) = _
        have : ¬ node = j := fun e => hj e.symm
        simp only [List.getElem?_set, hnodes3, this, if_false]
        rfl
      have hlinks' : linksList s' = linksList s3 := by subst h; rfl
      have hgone : ∀ x, getNode s' node ≠ .ok x := by
        intro x hx
        subst h
        rw [getNode_ok_iff] at hx
        simp [List.getElem?_set, hlt] at hx
      refine ⟨⟨d, rfl⟩, hgone, hlinks' ▸ hperm, by subst h; exact hl3, ?_, ?_, ?_, ?_, ?_⟩
      · -- PortBound s'
        intro l hlm
        rw [hlinks'] at hlm
        have hmem := hperm.mem_iff.mp hlm
        obtain ⟨hin, hcond⟩ := List.mem_filter.mp hmem
        simp at hcond
        obtain ⟨⟨da, ha1, ha2, ha3⟩, ⟨db, hb1, hb2, hb3⟩⟩ := hb l hin
        obtain ⟨da', ea, ka⟩ := C1.fwd _ da ha1
        obtain ⟨db', eb, kb⟩ := C1.fwd _ db hb1
        refine ⟨⟨da', ?_, ha2, by rw [ka.outs]; exact ha3⟩, ⟨db', ?_, hb2, by rw [kb.inps]; exact hb3⟩⟩
        · rw [hget _ hcond.1]; exact ea
        · rw [hget _ hcond.2]; exact eb
      · -- FreeInv s'
        have hfree3 : s3.free = s.free := by rw [f3, f2, C1.free]
        have hnone3 : ∀ j : Nat, s3.nodes[j]? = some none ↔ s.nodes[j]? = some none := by
          intro j; rw [hnodes3]; exact C1.slots j
        have hnotfree : node ∉ s.free := by
          intro hm
          have := (hf.iff node).mp hm
          rw [(getNode_ok_iff s node d).mp h0] at this; cases this
        subst h
        refine ⟨?_, ?_⟩
        · intro j
          show j ∈ s3.free ++ [node] ↔ (s3.nodes.set node none)[j]? = some none
          rw [List.getElem?_set, hfree3]
          by_cases hj : node = j
          · subst hj; simp [hlt]
          · simp only [hj, if_false, List.mem_append, List.mem_singleton]
            rw [hnone3 j, ← hf.iff j]
            constructor
            · rintro (h | h)
              · exact h
              · exact absurd h.symm hj
            · intro h; exact Or.inl h
        · show (s3.free ++ [node]).Nodup
          rw [hfree3, List.nodup_append]
          refine ⟨hf.nodup, by simp, ?_⟩
          intro a ha b hb hab
          simp at hb; subst hb; subst hab; exact hnotfree ha
      · subst h; show s3.root = s.root; rw [r3, r2, C1.root]
      · intro j dj hj hdj
        obtain ⟨d', e', k'⟩ := C1.fwd j dj hdj
        exact ⟨d', by rw [hget j hj]; exact e', k'⟩
      · intro j d' hd'
        have hj : j ≠ node := by intro e; subst e; exact hgone d' hd'
        refine ⟨hj, ?_⟩
        rw [hget j hj] at hd'
        exact C1.bwd j d' hd'

end HugrVerif.Store
