/-
  `insert_hugr` does not raise on valid calls (C08): B built through the API, the insertion parent a
  node of A.  `add_node` under a live parent, the node-copy loop over a parents-first enumeration and
  the link-copy loop all return normally.
-/
import HugrVerif.Proofs.StoreInsertOrder
import HugrVerif.Proofs.SerialLoad

namespace HugrVerif.Store
open Py HugrVerif

variable {Ω μ : Type}

theorem replaceFirst_some_of_mem (i : Nat) (h : Handle) : ∀ (l : List Handle), i ∈ l.map (·.1) →
    ∃ l', replaceFirst i h l = some l' := by
  intro l
  induction l with
  | nil => intro hm; simp at hm
  | cons c cs ih =>
    intro hm
    unfold replaceFirst
    by_cases hc : c.1 = i
    · simp [hc]
    · have : i ∈ cs.map (·.1) := by
        simp only [List.map_cons, List.mem_cons] at hm
        rcases hm with e | e
        · exact absurd e.symm hc
        · exact e
      obtain ⟨l', hl'⟩ := ih this
      simp [hc, hl']

/-- **`add_node` under a live parent returns normally.** -/
theorem addNodeRaw_succeeds (s : Store Ω μ) (hf : FreeInv s) (op : Ω) (p : Nat) (numOuts : Option Nat) (m : μ)
    (hp : ∃ d, getNode s p = .ok d) : ∃ r, addNodeRaw s op (some p) numOuts m = .ok r := by
  unfold addNodeRaw
  generalize hd0 : ({ op := op, parent := some p, numInps := 0, numOuts := 0, children := [], md := m } : NodeData Ω μ) = d0
  obtain ⟨a1, a2, a3, _, _, _⟩ := allocSlot_spec s hf d0
  generalize hr : allocSlot s d0 = r at a1 a2 a3
  subst hd0
  obtain ⟨dp, hdp⟩ := hp
  have hpi : p ≠ r.2 := by intro e; subst e; exact a1 dp hdp
  have hp1 : getNode r.1 p = .ok dp := by rw [a3 p hpi]; exact hdp
  simp only []
  -- registerChild
  obtain ⟨s1, hs1⟩ := Serial.modifyNode_succeeds r.1 p (fun pd => { pd with children := pd.children ++ [(r.2, numOuts)] }) ⟨dp, hp1⟩
  simp only [registerChild, hs1]
  have g1 := modifyNode_get r.1 s1 p
  cases numOuts with
  | none => simp [setOutsOpt, pure, Except.pure]
  | some k =>
    simp only [setOutsOpt, updateNodeOuts, bind, Except.bind]
    have hi1 : getNode s1 r.2 = .ok { op := op, parent := some p, numInps := 0, numOuts := 0, children := [], md := m } := by
      rw [g1 r.2 _ hs1]; simp [Ne.symm hpi, a2]
    obtain ⟨s2, hs2⟩ := Serial.modifyNode_succeeds s1 r.2 (fun d => { d with numOuts := k }) ⟨_, hi1⟩
    simp only [hs2]
    have g2 := modifyNode_get s1 s2 r.2
    have hi2 : getNode s2 r.2 = .ok { op := op, parent := some p, numInps := 0, numOuts := k, children := [], md := m } := by
      rw [g2 r.2 _ hs2]; simp [hi1, Except.map]
    rw [hi2]
    simp only []
    have hp2 : getNode s2 p = .ok { dp with children := dp.children ++ [(r.2, some k)] } := by
      rw [g2 p _ hs2]; simp only [hpi, if_false]
      rw [g1 p _ hs1]; simp [hp1, Except.map]
    simp only [hp2]
    obtain ⟨cs, hcs⟩ := replaceFirst_some_of_mem r.2 (r.2, some k) (dp.children ++ [(r.2, some k)]) (by simp)
    simp only [hcs]
    obtain ⟨s3, hs3⟩ := Serial.modifyNode_succeeds s2 p (fun pd => { pd with children := cs }) ⟨_, hp2⟩
    simp [hs3]

theorem get_of_mem_keys (mp : Dict Nat Nat) (k : Nat) (h : k ∈ Dict.keys mp) : ∃ v, Dict.get k mp = some v := by
  have := (Dict.get_isSome_iff k mp).mpr h
  cases hg : Dict.get k mp with
  | none => simp [hg] at this
  | some v => exact ⟨v, rfl⟩

/-- the node-copy loop over a parents-first enumeration of B's nodes returns normally -/
theorem insertNodes_succeeds (a b : Store Ω μ) (parent : Option Nat)
    (htl : ∃ d, getNode a (parent.getD a.root) = .ok d) : ∀ (is : List Nat) (s : Store Ω μ)
    (done : List Nat) (mp : Dict Nat Nat), Copied a s b parent done mp → Dict.NodupKeys mp →
    (∀ i ∈ is, liveN b i) →
    (∀ pre i post, is = pre ++ i :: post → ∀ q, parentOf b i = some q → q ∈ done ∨ q ∈ pre) →
    (∀ i ∈ is, i ∉ done) → is.Nodup →
    ∃ s' mp', insertNodes s b parent is mp = .ok (s', mp') := by
  intro is
  induction is with
  | nil => intro s done mp _ _ _ _ _ _; exact ⟨s, mp, rfl⟩
  | cons i is ih =>
    intro s done mp hc hnd hlive hpb hnew hndis
    obtain ⟨db, hdb⟩ := hlive i (by simp)
    unfold insertNodes
    simp only [hdb]
    -- the parent is resolvable
    have hres : ∃ np, resolveParent mp parent db.parent = .ok np ∧ ∃ d, getNode s (np.getD s.root) = .ok d := by
      unfold resolveParent
      cases hdp : db.parent with
      | some q =>
        have hq : parentOf b i = some q := by simp [parentOf, hdb, hdp]
        have hqd : q ∈ done := by
          rcases hpb [] i is rfl q hq with h | h
          · exact h
          · simp at h
        obtain ⟨p', hp'⟩ := get_of_mem_keys mp q (by rw [hc.keys]; exact hqd)
        obtain ⟨_, _, ds, _, es, _⟩ := hc.image q p' hp'
        exact ⟨some p', by simp [hp'], ds, es⟩
      | none =>
        refine ⟨parent, rfl, ?_⟩
        obtain ⟨d0, h0⟩ := htl
        obtain ⟨d', e', _⟩ := hc.frame _ d0 h0
        rw [hc.root]; exact ⟨d', e'⟩
    obtain ⟨np, hnp, hpl⟩ := hres
    simp only [hnp]
    obtain ⟨r, hr⟩ := addNodeRaw_succeeds s hc.free db.op (np.getD s.root) (some db.numOuts) db.md hpl
    have hr' : addNode s db.op np (some db.numOuts) db.md = .ok r := hr
    simp only [hr']
    obtain ⟨s1, x⟩ := r
    have hi := hnew i (by simp)
    have c1 := copied_step a b s s1 parent done mp hc i hi db hdb np hnp x hr'
    apply ih s1 (done ++ [i]) (Dict.set i x mp) c1 (Dict.nodup_set i x mp hnd)
    · intro j hj; exact hlive j (by simp [hj])
    · intro pre j post e q hq
      rcases hpb (i :: pre) j post (by rw [e]; rfl) q hq with h | h
      · left; simp [h]
      · rcases List.mem_cons.mp h with h | h
        · left; simp [h]
        · right; exact h
    · intro k hk hmem
      rcases List.mem_append.mp hmem with h1 | h1
      · exact hnew k (by simp [hk]) h1
      · simp at h1; subst h1; exact (List.nodup_cons.mp hndis).1 hk
    · exact (List.nodup_cons.mp hndis).2

/-- the link-copy loop returns normally when both ends of every link have live images -/
theorem insertLinks_succeeds (mp : Dict Nat Nat) : ∀ (ls : List (SubPort × SubPort)) (s : Store Ω μ),
    (∀ e ∈ ls, ∃ a' c', Dict.get e.1.node mp = some a' ∧ Dict.get e.2.node mp = some c' ∧
      (∃ d, getNode s a' = .ok d) ∧ (∃ d, getNode s c' = .ok d)) →
    ∃ s', insertLinks s mp ls = .ok s' := by
  intro ls
  induction ls with
  | nil => intro s _; exact ⟨s, rfl⟩
  | cons e ls ih =>
    intro s h
    obtain ⟨ea, ec⟩ := e
    obtain ⟨a', c', ha, hcc, la, lc⟩ := h (ea, ec) (by simp)
    unfold insertLinks
    simp only [ha, hcc, bind, Except.bind]
    obtain ⟨s1, hs1⟩ := Serial.addLink_succeeds s (a', ea.offset) (c', ec.offset) la lc
    simp only [hs1]
    obtain ⟨G, _, _⟩ := addLink_nodes s s1 _ _ hs1
    apply ih s1
    intro e he
    obtain ⟨a2, c2, h1, h2, ⟨d1, l1⟩, ⟨d2, l2⟩⟩ := h e (List.mem_cons_of_mem _ he)
    obtain ⟨d1', e1, _⟩ := G.fwd a2 d1 l1
    obtain ⟨d2', e2, _⟩ := G.fwd c2 d2 l2
    exact ⟨a2, c2, h1, h2, ⟨d1', e1⟩, ⟨d2', e2⟩⟩

/-- **`insert_hugr` returns normally**: A satisfies the store invariant, the insertion parent is a node
    of A, B is tree-shaped (every HUGR built through the API) and satisfies the store invariant. -/
theorem insertHugr_succeeds (a b : Store Ω μ) (hs : SInv a) (hb : SInv b) (hhb : HierInv b) (hrb : RootInv b)
    (hab : Acyc b) (parent : Option Nat) (htl : ∃ d, getNode a (parent.getD a.root) = .ok d) :
    ∃ a' mp, insertHugr a b parent = .ok (a', mp) := by
  obtain ⟨order, _, ho, hnd, hcl, hmem⟩ := hierarchyOrder_tree hhb hrb hab
  -- nodes
  obtain ⟨s1, mp, hn⟩ := insertNodes_succeeds a b parent htl order a [] [] (copied_init a b parent hs.free)
    (by simp [Dict.NodupKeys, Dict.keys])
    (fun i hi => (hmem i).mp hi)
    (by
      intro pre i post e q hq
      right
      obtain ⟨_, hr⟩ := hcl pre i post e
      rcases hr with h | ⟨p, a1, a2, _⟩
      · rw [hq] at h; cases h
      · rw [hq] at a1; injection a1 with a1; subst a1; exact a2)
    (by simp) hnd
  obtain ⟨hc, _⟩ := insertNodes_spec a b parent order a s1 [] [] mp (copied_init a b parent hs.free)
    (by simp [Dict.NodupKeys]) (by simp) hnd hn
  -- links
  have hkeys : Dict.keys mp = order := by simpa using hc.keys
  have himg : ∀ j, liveN b j → ∃ x, Dict.get j mp = some x ∧ ∃ d, getNode s1 x = .ok d := by
    intro j hj
    obtain ⟨x, hx⟩ := get_of_mem_keys mp j (by rw [hkeys]; exact (hmem j).mpr hj)
    obtain ⟨_, _, ds, _, es, _⟩ := hc.image j x hx
    exact ⟨x, hx, ds, es⟩
  obtain ⟨s2, hl⟩ := insertLinks_succeeds mp b.links.fwd s1 (by
    intro e he
    have hmem' : (e.1.port, e.2.port) ∈ linksList b := by
      unfold linksList
      exact List.mem_map.mpr ⟨e, he, rfl⟩
    obtain ⟨⟨d1, h1, _⟩, ⟨d2, h2, _⟩⟩ := hb.bound _ hmem'
    obtain ⟨x1, g1, l1⟩ := himg e.1.node ⟨d1, h1⟩
    obtain ⟨x2, g2, l2⟩ := himg e.2.node ⟨d2, h2⟩
    exact ⟨x1, x2, g1, g2, l1, l2⟩)
  refine ⟨s2, mp, ?_⟩
  unfold insertHugr
  simp [bind, Except.bind, ho, hn, hl, pure, Except.pure]

end HugrVerif.Store
