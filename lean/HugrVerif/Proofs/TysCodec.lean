/-
  The type layer of the codec (core of C05 for types, type arguments, type parameters):
  decoding the encoding of any type / argument / parameter gives back its normal form
  (`Ty.norm`: extension types in opaque form), the normal form encodes to the same document and
  has the same bound; unknown fields are ignored; `runtime_reqs` has a default.

  Fuel: the decoders are fuel-indexed; `Ty.depth`, `TypeArg.depth`, `TypeParam.depth` give a
  sufficient amount (every theorem takes `depth x ≤ fuel`).
-/
import HugrVerif.Proofs.Tys

set_option linter.unusedSimpArgs false

namespace HugrVerif

/-! ### sufficient fuel -/

mutual
  def TypeParam.depth : TypeParam → Nat
    | .list p => p.depth + 1
    | .tuple ps => TypeParam.depthList ps + 1
    | _ => 1
  def TypeParam.depthList : List TypeParam → Nat
    | [] => 0
    | p :: ps => max p.depth (TypeParam.depthList ps)
end

mutual
  def Ty.depth : Ty → Nat
    | .sum rows => Ty.depthRows rows + 2
    | .function i o _ => max (Ty.depthRow i) (Ty.depthRow o) + 2
    | .poly ps i o _ => max (TypeParam.depthList ps) (max (Ty.depthRow i) (Ty.depthRow o) + 1)
    | .extType _ args => Ty.depthArgs args + 1
    | .opaque _ _ args _ => Ty.depthArgs args + 1
    | _ => 1
  def Ty.depthRow : List Ty → Nat
    | [] => 0
    | t :: ts => max t.depth (Ty.depthRow ts)
  def Ty.depthRows : List (List Ty) → Nat
    | [] => 0
    | r :: rs => max (Ty.depthRow r) (Ty.depthRows rs)
  def TypeArg.depth : TypeArg → Nat
    | .type t => t.depth + 1
    | .sequence es => Ty.depthArgs es + 1
    | .variable _ p => p.depth + 1
    | _ => 1
  def Ty.depthArgs : List TypeArg → Nat
    | [] => 0
    | a :: as => max a.depth (Ty.depthArgs as)
end

theorem TypeParam.depth_le_depthList {p : TypeParam} : ∀ {ps : List TypeParam}, p ∈ ps → p.depth ≤ TypeParam.depthList ps
  | q :: qs, h => by
    rw [TypeParam.depthList]
    rcases List.mem_cons.1 h with rfl | h'
    · omega
    · have := TypeParam.depth_le_depthList h'; omega

theorem Ty.depth_le_depthRow {t : Ty} : ∀ {ts : List Ty}, t ∈ ts → t.depth ≤ Ty.depthRow ts
  | u :: us, h => by
    rw [Ty.depthRow]
    rcases List.mem_cons.1 h with rfl | h'
    · omega
    · have := Ty.depth_le_depthRow h'; omega

theorem Ty.depthRow_le_depthRows {r : List Ty} : ∀ {rows : List (List Ty)}, r ∈ rows → Ty.depthRow r ≤ Ty.depthRows rows
  | q :: qs, h => by
    rw [Ty.depthRows]
    rcases List.mem_cons.1 h with rfl | h'
    · omega
    · have := Ty.depthRow_le_depthRows h'; omega

theorem TypeArg.depth_le_depthArgs {a : TypeArg} : ∀ {as : List TypeArg}, a ∈ as → a.depth ≤ Ty.depthArgs as
  | b :: bs, h => by
    rw [Ty.depthArgs]
    rcases List.mem_cons.1 h with rfl | h'
    · omega
    · have := TypeArg.depth_le_depthArgs h'; omega

theorem TypeParam.depth_pos (p : TypeParam) : 1 ≤ p.depth := by cases p <;> simp [TypeParam.depth]
theorem Ty.depth_pos (t : Ty) : 1 ≤ t.depth := by cases t <;> simp [Ty.depth] <;> omega
theorem TypeArg.depth_pos (a : TypeArg) : 1 ≤ a.depth := by cases a <;> simp [TypeArg.depth]

/-- A polymorphic function type: not a member of the serialised `Type` union. -/
def Ty.isPoly : Ty → Bool
  | .poly _ _ _ _ => true
  | _ => false

/-! ### more about `mapM` in `Except` -/

namespace ExceptList
variable {ε ε' α β γ : Type}

/-- decoding a list of encodings element by element -/
theorem mapM_mapM_ok (f : α → Except ε β) (g : β → Except ε' γ) (h : α → γ) :
    ∀ (l : List α) (ys : List β), l.mapM f = .ok ys →
      (∀ x ∈ l, ∀ y, f x = .ok y → g y = .ok (h x)) → ys.mapM g = .ok (l.map h)
  | [], ys, he, _ => by cases he; rfl
  | x :: l, zs, he, hp => by
    obtain ⟨y, ys, h1, h2, rfl⟩ := (mapM_ok_cons_iff f x l zs).1 he
    have ih := mapM_mapM_ok f g h l ys h2 (fun x' hx' => hp x' (List.mem_cons_of_mem _ hx'))
    rw [mapM_cons, hp x (List.mem_cons_self) y h1, ih]
    rfl

theorem mapM_map_congr (f : α → Except ε β) (h : α → α) :
    ∀ (l : List α), (∀ x ∈ l, f (h x) = f x) → (l.map h).mapM f = l.mapM f
  | [], _ => rfl
  | x :: l, hp => by
    rw [List.map_cons, mapM_cons, mapM_cons, hp x List.mem_cons_self,
      mapM_map_congr f h l (fun x' hx' => hp x' (List.mem_cons_of_mem _ hx'))]

theorem mapM_congr (f g : α → Except ε β) :
    ∀ (l : List α), (∀ x ∈ l, f x = g x) → l.mapM f = l.mapM g
  | [], _ => rfl
  | x :: l, hp => by
    rw [mapM_cons, mapM_cons, hp x List.mem_cons_self,
      mapM_congr f g l (fun x' hx' => hp x' (List.mem_cons_of_mem _ hx'))]

theorem mapM_pure_map (f : α → β) : ∀ (l : List α), l.mapM (fun x => (Except.ok (f x) : Except ε β)) = .ok (l.map f)
  | [] => rfl
  | x :: l => by rw [mapM_cons, mapM_pure_map f l]; rfl

theorem mapM_map_inv (e : α → β) (g : β → Except ε α) :
    ∀ (l : List α), (∀ x ∈ l, g (e x) = .ok x) → (l.map e).mapM g = .ok l
  | [], _ => rfl
  | x :: l, hp => by
    rw [List.map_cons, mapM_cons, hp x List.mem_cons_self,
      mapM_map_inv e g l (fun x' hx' => hp x' (List.mem_cons_of_mem _ hx'))]

end ExceptList

namespace Codec
open Json Ty

/-! ### list forms of the recursive helpers -/

theorem encParams_eq_map (ps : List TypeParam) : encParams ps = ps.map encParam := by
  induction ps with
  | nil => rfl
  | cons p ps ih => rw [encParams, ih]; rfl

/-- serialising one element of a row (`_to_serial_root()`) -/
def encElem (t : Ty) : Except EncErr Json :=
  if t.isPoly then .error .validationError else encTy t

theorem encRow_eq_mapM (ts : List Ty) : encRow ts = ts.mapM encElem := by
  induction ts with
  | nil => rfl
  | cons t ts ih =>
    rw [ExceptList.mapM_cons, ← ih]
    clear ih
    cases t
    case poly => rfl
    all_goals
      simp only [encRow, encElem, isPoly, bind, Except.bind, pure, Except.pure, Bool.false_eq_true, if_false]
      split <;> split <;> simp_all

theorem encRows_eq_mapM (rows : List (List Ty)) :
    encRows rows = rows.mapM (fun r => (encRow r).map Json.arr) := by
  induction rows with
  | nil => rfl
  | cons r rows ih =>
    rw [ExceptList.mapM_cons, ← ih, encRows]
    cases encRow r <;> simp only [bind, Except.bind, pure, Except.pure, Except.map]
    cases encRows rows <;> rfl

theorem encArgs_eq_mapM (as : List TypeArg) : encArgs as = as.mapM encArg := by
  induction as with
  | nil => rfl
  | cons a as ih =>
    rw [ExceptList.mapM_cons, ← ih, encArgs]
    cases encArg a <;> simp only [bind, Except.bind, pure, Except.pure]
    cases encArgs as <;> rfl

end Codec

namespace Ty

theorem normRow_eq_map (ts : List Ty) : normRow ts = ts.map norm := by
  induction ts with
  | nil => rfl
  | cons t ts ih => rw [normRow, ih]; rfl

theorem normRows_eq_map (rows : List (List Ty)) : normRows rows = rows.map normRow := by
  induction rows with
  | nil => rfl
  | cons r rows ih => rw [normRows, ih]; rfl

theorem normArgs_eq_map (as : List TypeArg) : normArgs as = as.map normArg := by
  induction as with
  | nil => rfl
  | cons a as ih => rw [normArgs, ih]; rfl

theorem isPoly_norm (t : Ty) : (norm t).isPoly = t.isPoly := by
  cases t <;> simp only [norm, isPoly]
  cases bound (.extType _ _) <;> rfl

end Ty


namespace Codec
open Json Ty

/-! ### what an encoding looks like (inversion lemmas) -/

def sumJson (js : List Json) : Json := .obj [("t", .str "Sum"), ("s", .str "General"), ("rows", .arr js)]
def funcJson (ji jo : List Json) (r : List String) : Json :=
  .obj [("t", .str "G"), ("input", .arr ji), ("output", .arr jo), ("runtime_reqs", encStrs r)]
def polyJson (ps : List TypeParam) (ji jo : List Json) (r : List String) : Json :=
  .obj [("params", .arr (encParams ps)), ("body", funcJson ji jo r)]
def opaqueJson (ext id : String) (js : List Json) (b : Bound) : Json :=
  .obj [("t", .str "Opaque"), ("extension", .str ext), ("id", .str id), ("args", .arr js), ("bound", encBound b)]

theorem encTy_sum_ok (rows : List (List Ty)) (j : Json) :
    encTy (.sum rows) = .ok j ↔ ∃ js, encRows rows = .ok js ∧ j = sumJson js := by
  rw [encTy]
  cases encRows rows <;> simp [bind, Except.bind, pure, Except.pure, sumJson, eq_comm]

theorem encTy_function_ok (i o : List Ty) (r : List String) (j : Json) :
    encTy (.function i o r) = .ok j ↔ ∃ ji jo, encRow i = .ok ji ∧ encRow o = .ok jo ∧ j = funcJson ji jo r := by
  rw [encTy]
  cases encRow i <;> cases encRow o <;> simp [bind, Except.bind, pure, Except.pure, funcJson, eq_comm]

theorem encTy_poly_ok (ps : List TypeParam) (i o : List Ty) (r : List String) (j : Json) :
    encTy (.poly ps i o r) = .ok j ↔ ∃ ji jo, encRow i = .ok ji ∧ encRow o = .ok jo ∧ j = polyJson ps ji jo r := by
  rw [encTy]
  cases encRow i <;> cases encRow o <;> simp [bind, Except.bind, pure, Except.pure, polyJson, funcJson, eq_comm]

theorem encTy_extType_ok (d : TypeDefRef) (args : List TypeArg) (j : Json) :
    encTy (.extType d args) = .ok j ↔
      ∃ b js, bound (.extType d args) = .ok b ∧ encArgs args = .ok js ∧ j = opaqueJson d.ext d.name js b := by
  rw [encTy]
  cases bound (.extType d args) <;> cases encArgs args <;>
    simp [bind, Except.bind, pure, Except.pure, opaqueJson, eq_comm, throw, throwThe, MonadExceptOf.throw]

theorem encTy_opaque_ok (id : String) (b : Bound) (args : List TypeArg) (ext : String) (j : Json) :
    encTy (.opaque id b args ext) = .ok j ↔ ∃ js, encArgs args = .ok js ∧ j = opaqueJson ext id js b := by
  rw [encTy]
  cases encArgs args <;> simp [bind, Except.bind, pure, Except.pure, opaqueJson, eq_comm]

theorem bind_ok_iff {ε α β : Type} (x : Except ε α) (f : α → β) (y : β) :
    Except.bind x (fun v => Except.ok (f v)) = .ok y ↔ ∃ v, x = .ok v ∧ y = f v := by
  cases x <;> simp [Except.bind, eq_comm]

theorem encArg_type_ok (t : Ty) (j : Json) :
    encArg (.type t) = .ok j ↔ t.isPoly = false ∧ ∃ jt, encTy t = .ok jt ∧ j = .obj [("tya", .str "Type"), ("ty", jt)] := by
  cases t
  case poly => simp [encArg, isPoly, throw, throwThe, MonadExceptOf.throw]
  all_goals
    simp only [encArg, isPoly, bind, pure, Except.pure, true_and]
    exact bind_ok_iff _ _ _

theorem encArg_sequence_ok (es : List TypeArg) (j : Json) :
    encArg (.sequence es) = .ok j ↔ ∃ js, encArgs es = .ok js ∧ j = .obj [("tya", .str "Sequence"), ("elems", .arr js)] := by
  rw [encArg]
  cases encArgs es <;> simp [bind, Except.bind, pure, Except.pure, eq_comm]

/-! ### parameters -/

theorem fuel_succ {n fuel : Nat} (h : n + 1 ≤ fuel) : ∃ f, fuel = f + 1 ∧ n ≤ f := ⟨fuel - 1, by omega, by omega⟩

/-- **Round trip of type parameters.** -/
theorem decParam_encParam : ∀ (p : TypeParam) (fuel : Nat), p.depth ≤ fuel → decParam fuel (encParam p) = .ok p := by
  refine TypeParam.induct (P := fun p => ∀ fuel, p.depth ≤ fuel → decParam fuel (encParam p) = .ok p) ?_ ?_ ?_ ?_ ?_ ?_
  · intro b fuel h
    obtain ⟨f, rfl, _⟩ := fuel_succ (n := 0) (by simpa [TypeParam.depth] using h)
    cases b <;> simp [decParam, encParam, asObj, req, field, asStr, decBound, encBound, bind, Except.bind, pure, Except.pure]
  · intro ub fuel h
    obtain ⟨f, rfl, _⟩ := fuel_succ (n := 0) (by simpa [TypeParam.depth] using h)
    cases ub <;> simp [decParam, encParam, asObj, req, field, asStr, bind, Except.bind, pure, Except.pure]
  · intro fuel h
    obtain ⟨f, rfl, _⟩ := fuel_succ (n := 0) (by simpa [TypeParam.depth] using h)
    simp [decParam, encParam, asObj, req, field, asStr, bind, Except.bind, pure, Except.pure]
  · intro p ih fuel h
    obtain ⟨f, rfl, hf⟩ := fuel_succ (n := p.depth) (by simpa [TypeParam.depth] using h)
    simp [decParam, encParam, asObj, req, field, asStr, bind, Except.bind, pure, Except.pure, ih f hf]
  · intro ps ih fuel h
    obtain ⟨f, rfl, hf⟩ := fuel_succ (n := TypeParam.depthList ps) (by simpa [TypeParam.depth] using h)
    have : (encParams ps).mapM (decParam f) = .ok ps := by
      rw [encParams_eq_map]
      exact ExceptList.mapM_map_inv _ _ _ (fun p hp => ih p hp f (Nat.le_trans (TypeParam.depth_le_depthList hp) hf))
    simp [decParam, encParam, asObj, req, field, asStr, asArr, bind, Except.bind, pure, Except.pure, this]
  · intro fuel h
    obtain ⟨f, rfl, _⟩ := fuel_succ (n := 0) (by simpa [TypeParam.depth] using h)
    simp [decParam, encParam, asObj, req, field, asStr, bind, Except.bind, pure, Except.pure]

theorem mapM_decParam_encParams (ps : List TypeParam) (f : Nat) (h : TypeParam.depthList ps ≤ f) :
    (encParams ps).mapM (decParam f) = .ok ps := by
  rw [encParams_eq_map]
  exact ExceptList.mapM_map_inv _ _ _
    (fun p hp => decParam_encParam p f (Nat.le_trans (TypeParam.depth_le_depthList hp) h))

/-! ### types and arguments -/

theorem decStrs_encStrs (r : List String) : decStrs (encStrs r) = .ok r := by
  simp only [decStrs, encStrs, asArr, bind, Except.bind, pure, Except.pure]
  rw [ExceptList.mapM_map_inv Json.str asStr r (fun _ _ => rfl)]

/-- Decoding at the root: a polymorphic function type is a field of its own shape. -/
def decRoot (fuel : Nat) (t : Ty) (j : Json) : Except DecErr Ty :=
  if t.isPoly then decPoly fuel j else decTy fuel j

/-- the statement proved for every type by induction -/
def RT (t : Ty) : Prop := ∀ j fuel, encTy t = .ok j → t.depth ≤ fuel → decRoot fuel t j = .ok (norm t)
def RTArg (a : TypeArg) : Prop := ∀ j fuel, encArg a = .ok j → a.depth ≤ fuel → decArg fuel j = .ok (normArg a)

theorem mapM_decTy_encRow (ts : List Ty) (js : List Json) (f : Nat) (h : encRow ts = .ok js)
    (ih : ∀ t ∈ ts, RT t) (hd : depthRow ts ≤ f) : js.mapM (decTy f) = .ok (normRow ts) := by
  rw [encRow_eq_mapM] at h
  rw [normRow_eq_map]
  refine ExceptList.mapM_mapM_ok encElem (decTy f) norm ts js h (fun t ht j hj => ?_)
  unfold encElem at hj
  cases hp : t.isPoly with
  | true => simp [hp] at hj
  | false =>
    simp only [hp, Bool.false_eq_true, if_false] at hj
    have := ih t ht j f hj (Nat.le_trans (depth_le_depthRow ht) hd)
    simpa [decRoot, hp] using this

theorem decRow_arr (f : Nat) (js : List Json) : decRow (f + 1) (.arr js) = js.mapM (decTy f) := by
  simp [decRow, asArr, bind, Except.bind, pure, Except.pure]

theorem decRow_encRow (ts : List Ty) (js : List Json) (fuel : Nat) (h : encRow ts = .ok js)
    (ih : ∀ t ∈ ts, RT t) (hd : depthRow ts + 1 ≤ fuel) : decRow fuel (.arr js) = .ok (normRow ts) := by
  obtain ⟨f, rfl, hf⟩ := fuel_succ hd
  rw [decRow_arr]
  exact mapM_decTy_encRow ts js f h ih hf

theorem mapM_decRow_encRows (rows : List (List Ty)) (js : List Json) (f : Nat) (h : encRows rows = .ok js)
    (ih : ∀ r ∈ rows, ∀ t ∈ r, RT t) (hd : depthRows rows + 1 ≤ f) : js.mapM (decRow f) = .ok (normRows rows) := by
  rw [encRows_eq_mapM] at h
  rw [normRows_eq_map]
  refine ExceptList.mapM_mapM_ok _ (decRow f) normRow rows js h (fun r hr j hj => ?_)
  cases hr' : encRow r with
  | error e => rw [hr'] at hj; cases hj
  | ok js' =>
    rw [hr'] at hj
    cases hj
    exact decRow_encRow r js' f hr' (ih r hr) (by have := depthRow_le_depthRows hr; omega)

theorem mapM_decArg_encArgs (as : List TypeArg) (js : List Json) (f : Nat) (h : encArgs as = .ok js)
    (ih : ∀ a ∈ as, RTArg a) (hd : depthArgs as ≤ f) : js.mapM (decArg f) = .ok (normArgs as) := by
  rw [encArgs_eq_mapM] at h
  rw [normArgs_eq_map]
  exact ExceptList.mapM_mapM_ok encArg (decArg f) normArg as js h
    (fun a ha j hj => ih a ha j f hj (Nat.le_trans (TypeArg.depth_le_depthArgs ha) hd))

theorem decFuncType_funcJson (i o : List Ty) (r : List String) (ji jo : List Json) (fuel : Nat)
    (hi : encRow i = .ok ji) (ho : encRow o = .ok jo) (ihi : ∀ t ∈ i, RT t) (iho : ∀ t ∈ o, RT t)
    (hd : max (depthRow i) (depthRow o) + 1 ≤ fuel) :
    decFuncType fuel (funcJson ji jo r) = .ok (normRow i, normRow o, r) := by
  have h1 := decRow_encRow i ji fuel hi ihi (by omega)
  have h2 := decRow_encRow o jo fuel ho iho (by omega)
  simp [decFuncType, funcJson, asObj, req, field, decReqs, decStrs_encStrs, bind, Except.bind, pure, Except.pure, h1, h2]

theorem rt_all : (∀ t, RT t) ∧ (∀ a, RTArg a) := by
  refine ⟨@induct_ty RT RTArg ?_ ?_ ?_ ?_ ?_ ?_ ?_ ?_ ?_ ?_ ?_ ?_ ?_ ?_ ?_ ?_ ?_,
          @induct_arg RT RTArg ?_ ?_ ?_ ?_ ?_ ?_ ?_ ?_ ?_ ?_ ?_ ?_ ?_ ?_ ?_ ?_ ?_⟩
  all_goals first
    | -- sum
      intro rows ih j fuel he hd
      obtain ⟨js, hjs, rfl⟩ := (encTy_sum_ok rows j).1 he
      obtain ⟨f, rfl, hf⟩ := fuel_succ (n := depthRows rows + 1) (by simpa [Ty.depth] using hd)
      have := mapM_decRow_encRows rows js f hjs ih hf
      simp [decRoot, isPoly, norm, sumJson, decTy, asObj, req, field, asStr, asArr, bind, Except.bind, pure, Except.pure, this]
    | -- unit sum
      intro n j fuel he hd
      obtain ⟨f, rfl, _⟩ := fuel_succ (n := 0) (by simpa [Ty.depth] using hd)
      simp only [encTy, pure, Except.pure, Except.ok.injEq] at he
      subst he
      simp [decRoot, isPoly, norm, decTy, asObj, req, field, asStr, asNat, asInt, bind, Except.bind, pure, Except.pure]
    | -- variable / row variable
      intro i b j fuel he hd
      obtain ⟨f, rfl, _⟩ := fuel_succ (n := 0) (by simpa [Ty.depth] using hd)
      simp only [encTy, pure, Except.pure, Except.ok.injEq] at he
      subst he
      cases b <;> simp [decRoot, isPoly, norm, decTy, asObj, req, field, asStr, asNat, asInt, decBound, encBound, bind, Except.bind, pure, Except.pure]
    | -- usize / qubit
      intro j fuel he hd
      obtain ⟨f, rfl, _⟩ := fuel_succ (n := 0) (by simpa [Ty.depth] using hd)
      simp only [encTy, pure, Except.pure, Except.ok.injEq] at he
      subst he
      simp [decRoot, isPoly, norm, decTy, asObj, req, field, asStr, bind, Except.bind, pure, Except.pure]
    | -- alias
      intro n b j fuel he hd
      obtain ⟨f, rfl, _⟩ := fuel_succ (n := 0) (by simpa [Ty.depth] using hd)
      simp only [encTy, pure, Except.pure, Except.ok.injEq] at he
      subst he
      cases b <;> simp [decRoot, isPoly, norm, decTy, asObj, req, field, asStr, decBound, encBound, bind, Except.bind, pure, Except.pure]
    | -- function
      intro i o r ihi iho j fuel he hd
      obtain ⟨ji, jo, hi, ho, rfl⟩ := (encTy_function_ok i o r j).1 he
      obtain ⟨f, rfl, hf⟩ := fuel_succ (n := max (depthRow i) (depthRow o) + 1) (by simpa [Ty.depth] using hd)
      have h1 := decRow_encRow i ji f hi ihi (by omega)
      have h2 := decRow_encRow o jo f ho iho (by omega)
      simp [decRoot, isPoly, norm, funcJson, decTy, asObj, req, field, asStr, decReqs, decStrs_encStrs, bind, Except.bind, pure, Except.pure, h1, h2]
    | -- poly
      intro ps i o r ihi iho j fuel he hd
      obtain ⟨ji, jo, hi, ho, rfl⟩ := (encTy_poly_ok ps i o r j).1 he
      have hd' : max (TypeParam.depthList ps) (max (depthRow i) (depthRow o) + 1) ≤ fuel := by simpa [Ty.depth] using hd
      have h1 := mapM_decParam_encParams ps fuel (by omega)
      have h2 := decFuncType_funcJson i o r ji jo fuel hi ho ihi iho (by omega)
      simp [decRoot, isPoly, norm, polyJson, decPoly, asObj, req, field, asArr, bind, Except.bind, pure, Except.pure, h1, h2]
    | -- extension type
      intro d args ih j fuel he hd
      obtain ⟨b, js, hb, hjs, rfl⟩ := (encTy_extType_ok d args j).1 he
      obtain ⟨f, rfl, hf⟩ := fuel_succ (n := depthArgs args) (by simpa [Ty.depth] using hd)
      have := mapM_decArg_encArgs args js f hjs ih hf
      rw [norm, hb]
      cases b <;> simp [decRoot, isPoly, opaqueJson, decTy, asObj, req, field, asStr, asArr, decBound, encBound, bind, Except.bind, pure, Except.pure, this]
    | -- opaque
      intro id b args e ih j fuel he hd
      obtain ⟨js, hjs, rfl⟩ := (encTy_opaque_ok id b args e j).1 he
      obtain ⟨f, rfl, hf⟩ := fuel_succ (n := depthArgs args) (by simpa [Ty.depth] using hd)
      have := mapM_decArg_encArgs args js f hjs ih hf
      cases b <;> simp [decRoot, isPoly, norm, opaqueJson, decTy, asObj, req, field, asStr, asArr, decBound, encBound, bind, Except.bind, pure, Except.pure, this]
    | -- arg: type
      intro t ih j fuel he hd
      obtain ⟨hp, jt, hjt, rfl⟩ := (encArg_type_ok t j).1 he
      obtain ⟨f, rfl, hf⟩ := fuel_succ (n := t.depth) (by simpa [TypeArg.depth] using hd)
      have := ih jt f hjt hf
      simp only [decRoot, hp, Bool.false_eq_true, if_false] at this
      simp [normArg, decArg, asObj, req, field, asStr, bind, Except.bind, pure, Except.pure, this]
    | -- arg: nat / string / extensions
      intro n j fuel he hd
      obtain ⟨f, rfl, _⟩ := fuel_succ (n := 0) (by simpa [TypeArg.depth] using hd)
      simp only [encArg, pure, Except.pure, Except.ok.injEq] at he
      subst he
      simp [normArg, decArg, asObj, req, field, asStr, asInt, decStrs_encStrs, bind, Except.bind, pure, Except.pure]
    | -- arg: sequence
      intro es ih j fuel he hd
      obtain ⟨js, hjs, rfl⟩ := (encArg_sequence_ok es j).1 he
      obtain ⟨f, rfl, hf⟩ := fuel_succ (n := depthArgs es) (by simpa [TypeArg.depth] using hd)
      have := mapM_decArg_encArgs es js f hjs ih hf
      simp [normArg, decArg, asObj, req, field, asStr, asArr, bind, Except.bind, pure, Except.pure, this]
    | -- arg: variable
      intro i p j fuel he hd
      obtain ⟨f, rfl, hf⟩ := fuel_succ (n := p.depth) (by simpa [TypeArg.depth] using hd)
      simp only [encArg, pure, Except.pure, Except.ok.injEq] at he
      subst he
      simp [normArg, decArg, asObj, req, field, asStr, asNat, asInt, decParam_encParam p f hf, bind, Except.bind, pure, Except.pure]


/-! ### the round-trip theorems -/

/-- **Round trip of types** (every type that is a member of the serialised `Type` union):
    decoding the encoding gives the normal form (extension types in opaque form). -/
theorem decTy_encTy (t : Ty) (j : Json) (fuel : Nat) (h : encTy t = .ok j) (hp : t.isPoly = false)
    (hd : t.depth ≤ fuel) : decTy fuel j = .ok (norm t) := by
  have := rt_all.1 t j fuel h hd
  simpa [decRoot, hp] using this

/-- **Round trip of polymorphic function types** (a field of its own JSON shape). -/
theorem decPoly_encTy (ps : List TypeParam) (i o : List Ty) (r : List String) (j : Json) (fuel : Nat)
    (h : encTy (.poly ps i o r) = .ok j) (hd : (Ty.poly ps i o r).depth ≤ fuel) :
    decPoly fuel j = .ok (norm (.poly ps i o r)) := by
  have := rt_all.1 _ j fuel h hd
  simpa [decRoot, isPoly] using this

/-- **Round trip of type arguments.** -/
theorem decArg_encArg (a : TypeArg) (j : Json) (fuel : Nat) (h : encArg a = .ok j) (hd : a.depth ≤ fuel) :
    decArg fuel j = .ok (normArg a) := rt_all.2 a j fuel h hd

/-- rows (`TypeRow` fields) -/
theorem decRow_encRow_arr (ts : List Ty) (js : List Json) (fuel : Nat) (h : encRow ts = .ok js)
    (hd : depthRow ts + 1 ≤ fuel) : decRow fuel (.arr js) = .ok (normRow ts) :=
  decRow_encRow ts js fuel h (fun t _ => rt_all.1 t) hd

theorem mapM_decArg_encArgs_ok (as : List TypeArg) (js : List Json) (fuel : Nat) (h : encArgs as = .ok js)
    (hd : depthArgs as ≤ fuel) : js.mapM (decArg fuel) = .ok (normArgs as) :=
  mapM_decArg_encArgs as js fuel h (fun a _ => rt_all.2 a) hd

/-- `FunctionType` as a field (`signature`, `body`). -/
theorem decFuncType_encTy (i o : List Ty) (r : List String) (j : Json) (fuel : Nat)
    (h : encTy (.function i o r) = .ok j) (hd : max (depthRow i) (depthRow o) + 1 ≤ fuel) :
    decFuncType fuel j = .ok (normRow i, normRow o, r) := by
  obtain ⟨ji, jo, hi, ho, rfl⟩ := (encTy_function_ok i o r j).1 h
  exact decFuncType_funcJson i o r ji jo fuel hi ho (fun t _ => rt_all.1 t) (fun t _ => rt_all.1 t) hd

/-- `SumType` as a field (`SumValue.typ`, `Tag`, `Conditional`): both sum forms. -/
theorem decSumType_encTy_sum (rows : List (List Ty)) (j : Json) (fuel : Nat)
    (h : encTy (.sum rows) = .ok j) (hd : depthRows rows + 1 ≤ fuel) :
    decSumType fuel j = .ok (norm (.sum rows)) := by
  obtain ⟨js, hjs, rfl⟩ := (encTy_sum_ok rows j).1 h
  have := mapM_decRow_encRows rows js fuel hjs (fun _ _ t _ => rt_all.1 t) hd
  simp [decSumType, sumJson, norm, asObj, req, field, asStr, asArr, bind, Except.bind, pure, Except.pure, this]

theorem decSumType_encTy_unitSum (n : Nat) (j : Json) (fuel : Nat) (h : encTy (.unitSum n) = .ok j) :
    decSumType fuel j = .ok (.unitSum n) := by
  simp only [encTy, pure, Except.pure, Except.ok.injEq] at h
  subst h
  simp [decSumType, asObj, req, field, asStr, asNat, asInt, bind, Except.bind, pure, Except.pure]

/-! ### the normal form has the same bound and the same encoding -/

theorem boundRow_normRow (ts : List Ty) (ih : ∀ t ∈ ts, bound (norm t) = bound t) :
    boundRow (normRow ts) = boundRow ts := by
  rw [boundRow_eq_mapM, boundRow_eq_mapM, normRow_eq_map]
  exact ExceptList.mapM_map_congr bound norm ts ih

theorem boundRows_normRows (rows : List (List Ty)) (ih : ∀ r ∈ rows, ∀ t ∈ r, bound (norm t) = bound t) :
    boundRows (normRows rows) = boundRows rows := by
  rw [boundRows_eq_mapM, boundRows_eq_mapM, normRows_eq_map,
    ExceptList.mapM_map_congr boundRow normRow rows (fun r hr => boundRow_normRow r (ih r hr))]

theorem bound_extType_congr (d : TypeDefRef) (args args' : List TypeArg)
    (h : args'.map argBound = args.map argBound) : bound (.extType d args') = bound (.extType d args) := by
  cases hd : d.bound with
  | explicit b => rw [bound_extType_explicit d args b hd, bound_extType_explicit d args' b hd]
  | fromParams idxs => rw [bound_extType_fromParams d args idxs hd, bound_extType_fromParams d args' idxs hd, h]

theorem bound_norm_all : (∀ t, bound (norm t) = bound t) ∧ (∀ a, argBound (normArg a) = argBound a) := by
  refine ⟨@induct_ty (fun t => bound (norm t) = bound t) (fun a => argBound (normArg a) = argBound a)
            ?_ ?_ ?_ ?_ ?_ ?_ ?_ ?_ ?_ ?_ ?_ ?_ ?_ ?_ ?_ ?_ ?_,
          @induct_arg (fun t => bound (norm t) = bound t) (fun a => argBound (normArg a) = argBound a)
            ?_ ?_ ?_ ?_ ?_ ?_ ?_ ?_ ?_ ?_ ?_ ?_ ?_ ?_ ?_ ?_ ?_⟩
  all_goals first
    | intro rows ih
      rw [norm, bound_sum, bound_sum, boundRows_normRows rows ih]
    | intro d args ih
      have hargs : (normArgs args).map argBound = args.map argBound := by
        rw [normArgs_eq_map, List.map_map]
        exact List.map_congr_left (fun a ha => ih a ha)
      rw [norm]
      cases hb : bound (.extType d args) with
      | ok b => simp [bound, pure, Except.pure]
      | error e => simp only []; rw [bound_extType_congr d args _ hargs, hb]
    | intro t ih
      simp [normArg, argBound, ih]
    | intros
      simp [norm, normArg, argBound, bound]

/-- The normal form (what decoding returns) has the same bound. -/
theorem bound_norm (t : Ty) : bound (norm t) = bound t := bound_norm_all.1 t

theorem bound_extType_normArgs (d : TypeDefRef) (args : List TypeArg) :
    bound (.extType d (normArgs args)) = bound (.extType d args) := by
  apply bound_extType_congr
  rw [normArgs_eq_map, List.map_map]
  exact List.map_congr_left (fun a _ => bound_norm_all.2 a)

theorem encElem_norm (t : Ty) (ih : encTy (norm t) = encTy t) : encElem (norm t) = encElem t := by
  simp [encElem, isPoly_norm, ih]

theorem encRow_normRow (ts : List Ty) (ih : ∀ t ∈ ts, encTy (norm t) = encTy t) :
    encRow (normRow ts) = encRow ts := by
  rw [encRow_eq_mapM, encRow_eq_mapM, normRow_eq_map]
  exact ExceptList.mapM_map_congr encElem norm ts (fun t ht => encElem_norm t (ih t ht))

theorem encRows_normRows (rows : List (List Ty)) (ih : ∀ r ∈ rows, ∀ t ∈ r, encTy (norm t) = encTy t) :
    encRows (normRows rows) = encRows rows := by
  rw [encRows_eq_mapM, encRows_eq_mapM, normRows_eq_map]
  exact ExceptList.mapM_map_congr _ normRow rows (fun r hr => by rw [encRow_normRow r (ih r hr)])

theorem encArgs_normArgs (as : List TypeArg) (ih : ∀ a ∈ as, encArg (normArg a) = encArg a) :
    encArgs (normArgs as) = encArgs as := by
  rw [encArgs_eq_mapM, encArgs_eq_mapM, normArgs_eq_map]
  exact ExceptList.mapM_map_congr encArg normArg as ih

theorem encArg_type_eq (t : Ty) :
    encArg (.type t) = if t.isPoly then .error .validationError
      else Except.bind (encTy t) (fun jt => .ok (.obj [("tya", .str "Type"), ("ty", jt)])) := by
  cases t <;> simp [encArg, isPoly, bind, pure, Except.pure, throw, throwThe, MonadExceptOf.throw]

theorem enc_norm_all : (∀ t, encTy (norm t) = encTy t) ∧ (∀ a, encArg (normArg a) = encArg a) := by
  refine ⟨@induct_ty (fun t => encTy (norm t) = encTy t) (fun a => encArg (normArg a) = encArg a)
            ?_ ?_ ?_ ?_ ?_ ?_ ?_ ?_ ?_ ?_ ?_ ?_ ?_ ?_ ?_ ?_ ?_,
          @induct_arg (fun t => encTy (norm t) = encTy t) (fun a => encArg (normArg a) = encArg a)
            ?_ ?_ ?_ ?_ ?_ ?_ ?_ ?_ ?_ ?_ ?_ ?_ ?_ ?_ ?_ ?_ ?_⟩
  all_goals first
    | intro rows ih
      rw [norm, encTy, encTy, encRows_normRows rows ih]
    | intro i o r ihi iho
      rw [norm, encTy, encTy, encRow_normRow i ihi, encRow_normRow o iho]
    | intro ps i o r ihi iho
      rw [norm, encTy, encTy, encRow_normRow i ihi, encRow_normRow o iho]
    | intro d args ih
      rw [norm]
      cases hb : bound (.extType d args) with
      | ok b => simp only []; rw [encTy, encTy, hb, encArgs_normArgs args ih]; rfl
      | error e => simp only []; rw [encTy, encTy, bound_extType_normArgs, hb]; rfl
    | intro id b args e ih
      rw [norm, encTy, encTy, encArgs_normArgs args ih]
    | intro t ih
      rw [normArg, encArg_type_eq, encArg_type_eq, isPoly_norm, ih]
    | intro es ih
      rw [normArg, encArg, encArg, encArgs_normArgs es ih]
    | intros
      simp [norm, normArg]

/-- The normal form encodes to the same document. -/
theorem encTy_norm (t : Ty) : encTy (norm t) = encTy t := enc_norm_all.1 t
theorem encArg_normArg (a : TypeArg) : encArg (normArg a) = encArg a := enc_norm_all.2 a

/-- normalising twice changes nothing: a decoded type is a fixed point of the codec -/
theorem norm_isOpaqueForm (d : TypeDefRef) (args : List TypeArg) (b : Bound)
    (h : bound (.extType d args) = .ok b) : norm (.extType d args) = .opaque d.name b (normArgs args) d.ext := by
  rw [norm, h]

/-- **The bound written into a serialised extension type is the computed one**, and it is the
    bound of the opaque type that decoding returns. -/
theorem enc_opaque_bound (d : TypeDefRef) (args : List TypeArg) (j : Json) (h : encTy (.extType d args) = .ok j) :
    ∃ b js, bound (.extType d args) = .ok b ∧ j = opaqueJson d.ext d.name js b ∧
      field "bound" [("t", .str "Opaque"), ("extension", .str d.ext), ("id", .str d.name), ("args", .arr js),
        ("bound", encBound b)] = some (encBound b) := by
  obtain ⟨b, js, hb, _, rfl⟩ := (encTy_extType_ok d args j).1 h
  exact ⟨b, js, hb, rfl, by simp [field]⟩

/-- Encoding an extension type fails exactly when its bound computation raises. -/
theorem encTy_extType_indexError (d : TypeDefRef) (args : List TypeArg)
    (h : bound (.extType d args) = .error .indexError) : encTy (.extType d args) = .error .indexError := by
  rw [encTy, h]; rfl

theorem encBound_injective (b b' : Bound) (h : encBound b = encBound b') : b = b' := by
  cases b <;> cases b' <;> simp [encBound] at h <;> rfl

/-! ### unknown fields are ignored, defaults are filled -/

theorem field_insert_ne (k k' : String) (v : Json) (h : k' ≠ k) (pre post : List (String × Json)) :
    field k' (pre ++ (k, v) :: post) = field k' (pre ++ post) := by
  induction pre with
  | nil => simp [field, Ne.symm h]
  | cons p pre ih => obtain ⟨l, w⟩ := p; simp only [List.cons_append, field, ih]

/-- the field names the decoders look at -/
def tyFields : List String :=
  ["t", "i", "b", "input", "output", "runtime_reqs", "s", "size", "rows", "id", "bound", "args", "extension", "name"]
def argFields : List String := ["tya", "ty", "n", "arg", "elems", "es", "idx", "cached_decl"]
def paramFields : List String := ["tp", "b", "bound", "param", "params"]

/-- `decTy` looks only at the known fields of the object. -/
theorem decTy_congr_fields (fuel : Nat) (kvs kvs' : List (String × Json))
    (h : ∀ k ∈ tyFields, field k kvs = field k kvs') : decTy fuel (.obj kvs) = decTy fuel (.obj kvs') := by
  cases fuel with
  | zero => rfl
  | succ f =>
    simp only [tyFields, List.forall_mem_cons, List.not_mem_nil, false_imp_iff, implies_true, and_true] at h
    obtain ⟨h1, h2, h3, h4, h5, h6, h7, h8, h9, h10, h11, h12, h13, h14⟩ := h
    simp only [decTy, asObj, pure_bind, req, decReqs, h1, h2, h3, h4, h5, h6, h7, h8, h9, h10, h11, h12, h13, h14]

theorem decArg_congr_fields (fuel : Nat) (kvs kvs' : List (String × Json))
    (h : ∀ k ∈ argFields, field k kvs = field k kvs') : decArg fuel (.obj kvs) = decArg fuel (.obj kvs') := by
  cases fuel with
  | zero => rfl
  | succ f =>
    simp only [argFields, List.forall_mem_cons, List.not_mem_nil, false_imp_iff, implies_true, and_true] at h
    obtain ⟨h1, h2, h3, h4, h5, h6, h7, h8⟩ := h
    simp only [decArg, asObj, pure_bind, req, h1, h2, h3, h4, h5, h6, h7, h8]

theorem decParam_congr_fields (fuel : Nat) (kvs kvs' : List (String × Json))
    (h : ∀ k ∈ paramFields, field k kvs = field k kvs') : decParam fuel (.obj kvs) = decParam fuel (.obj kvs') := by
  cases fuel with
  | zero => rfl
  | succ f =>
    simp only [paramFields, List.forall_mem_cons, List.not_mem_nil, false_imp_iff, implies_true, and_true] at h
    obtain ⟨h1, h2, h3, h4, h5⟩ := h
    simp only [decParam, asObj, pure_bind, req, h1, h2, h3, h4, h5]

theorem decFuncType_congr_fields (fuel : Nat) (kvs kvs' : List (String × Json))
    (h : ∀ k ∈ ["t", "input", "output", "runtime_reqs"], field k kvs = field k kvs') :
    decFuncType fuel (.obj kvs) = decFuncType fuel (.obj kvs') := by
  simp only [List.forall_mem_cons, List.not_mem_nil, false_imp_iff, implies_true, and_true] at h
  obtain ⟨h1, h2, h3, h4⟩ := h
  simp only [decFuncType, asObj, pure_bind, req, decReqs, h1, h2, h3, h4]

theorem decPoly_congr_fields (fuel : Nat) (kvs kvs' : List (String × Json))
    (h : ∀ k ∈ ["params", "body"], field k kvs = field k kvs') :
    decPoly fuel (.obj kvs) = decPoly fuel (.obj kvs') := by
  simp only [List.forall_mem_cons, List.not_mem_nil, false_imp_iff, implies_true, and_true] at h
  obtain ⟨h1, h2⟩ := h
  simp only [decPoly, asObj, pure_bind, req, h1, h2]

theorem decSumType_congr_fields (fuel : Nat) (kvs kvs' : List (String × Json))
    (h : ∀ k ∈ ["t", "s", "size", "rows"], field k kvs = field k kvs') :
    decSumType fuel (.obj kvs) = decSumType fuel (.obj kvs') := by
  simp only [List.forall_mem_cons, List.not_mem_nil, false_imp_iff, implies_true, and_true] at h
  obtain ⟨h1, h2, h3, h4⟩ := h
  simp only [decSumType, asObj, pure_bind, req, h1, h2, h3, h4]

/-- **Unknown fields are ignored** (`ConfigDict()`: `extra = "ignore"`): a field whose name no model
    declares may be inserted anywhere in the object without changing the decoding. -/
theorem decTy_extra_field (fuel : Nat) (k : String) (v : Json) (hk : k ∉ tyFields) (pre post : List (String × Json)) :
    decTy fuel (.obj (pre ++ (k, v) :: post)) = decTy fuel (.obj (pre ++ post)) :=
  decTy_congr_fields fuel _ _ (fun k' hk' => field_insert_ne k k' v (fun e => hk (e ▸ hk')) pre post)

theorem decArg_extra_field (fuel : Nat) (k : String) (v : Json) (hk : k ∉ argFields) (pre post : List (String × Json)) :
    decArg fuel (.obj (pre ++ (k, v) :: post)) = decArg fuel (.obj (pre ++ post)) :=
  decArg_congr_fields fuel _ _ (fun k' hk' => field_insert_ne k k' v (fun e => hk (e ▸ hk')) pre post)

theorem decParam_extra_field (fuel : Nat) (k : String) (v : Json) (hk : k ∉ paramFields) (pre post : List (String × Json)) :
    decParam fuel (.obj (pre ++ (k, v) :: post)) = decParam fuel (.obj (pre ++ post)) :=
  decParam_congr_fields fuel _ _ (fun k' hk' => field_insert_ne k k' v (fun e => hk (e ▸ hk')) pre post)

theorem decFuncType_extra_field (fuel : Nat) (k : String) (v : Json)
    (hk : k ∉ ["t", "input", "output", "runtime_reqs"]) (pre post : List (String × Json)) :
    decFuncType fuel (.obj (pre ++ (k, v) :: post)) = decFuncType fuel (.obj (pre ++ post)) :=
  decFuncType_congr_fields fuel _ _ (fun k' hk' => field_insert_ne k k' v (fun e => hk (e ▸ hk')) pre post)

theorem decPoly_extra_field (fuel : Nat) (k : String) (v : Json)
    (hk : k ∉ ["params", "body"]) (pre post : List (String × Json)) :
    decPoly fuel (.obj (pre ++ (k, v) :: post)) = decPoly fuel (.obj (pre ++ post)) :=
  decPoly_congr_fields fuel _ _ (fun k' hk' => field_insert_ne k k' v (fun e => hk (e ▸ hk')) pre post)

/-- **`runtime_reqs` has a default**: a function type written without it decodes as with `[]`. -/
theorem decReqs_default (kvs : List (String × Json)) (h : field "runtime_reqs" kvs = none) : decReqs kvs = .ok [] := by
  simp [decReqs, h, pure, Except.pure]

theorem decTy_runtime_reqs_default (fuel : Nat) (i o : Json) :
    decTy fuel (.obj [("t", .str "G"), ("input", i), ("output", o)]) =
      decTy fuel (.obj [("t", .str "G"), ("input", i), ("output", o), ("runtime_reqs", .arr [])]) := by
  cases fuel with
  | zero => rfl
  | succ f => simp [decTy, asObj, req, field, asStr, decReqs, decStrs, asArr, bind, Except.bind, pure, Except.pure]

theorem decFuncType_defaults (fuel : Nat) (i o : Json) :
    decFuncType fuel (.obj [("input", i), ("output", o)]) =
      decFuncType fuel (.obj [("t", .str "G"), ("input", i), ("output", o), ("runtime_reqs", .arr [])]) := by
  simp [decFuncType, asObj, req, field, decReqs, decStrs, asArr, bind, Except.bind, pure, Except.pure]

end Codec

end HugrVerif
