/-
  Lemmas about the envelope model, for any constants satisfying `WF` (the layout facts the code
  relies on).  `WF py` is discharged by `decide` on the regenerated constants in Props/C09.
-/
import HugrVerif.EnvelopePy

namespace HugrVerif.Envelope

/-- What the header code needs from its constants. -/
structure WF (c : Consts) : Prop where
  magic_len : c.magic.length = c.magicLen
  fmt_idx : c.fmtIdx = c.magicLen
  flags_idx : c.flagsIdx = c.magicLen + 1
  min_len : c.minLen = c.magicLen + 2
  payload_start : c.payloadStart = c.magicLen + 2
  code_inj : ∀ f g, c.code f = c.code g → f = g
  read_base : c.flagsBase &&& c.zstdRead = 0
  read_set : (c.flagsBase ||| c.zstdSet) &&& c.zstdRead ≠ 0

theorem ofCode_code {c : Consts} (h : WF c) (f : Format) : ofCode c (c.code f) = some f := by
  have ne : ∀ f g, f ≠ g → (c.code f == c.code g) = false := by
    intro f g hfg
    rw [beq_eq_false_iff_ne]
    exact fun h1 => hfg (h.code_inj _ _ h1)
  cases f
  · simp [ofCode, Format.all]
  · simp [ofCode, Format.all, List.find?, ne .module .moduleWithExts (by decide)]
  · simp [ofCode, Format.all, List.find?, ne .module .json (by decide), ne .moduleWithExts .json (by decide)]

theorem ofCode_some {c : Consts} {b : UInt8} {f : Format} (h : ofCode c b = some f) : c.code f = b := by
  unfold ofCode at h
  have := List.find?_some h
  simpa using this

theorem ofCode_none_iff {c : Consts} (h : WF c) (b : UInt8) : ofCode c b = none ↔ ∀ f, c.code f ≠ b := by
  constructor
  · intro hn f hf
    subst hf
    rw [ofCode_code h f] at hn
    cases hn
  · intro hall
    cases hc : ofCode c b with
    | none => rfl
    | some f => exact absurd (ofCode_some hc) (hall f)

theorem toBytes_length (c : Consts) (h : Header) : (toBytes c h).length = c.magic.length + 2 := by
  simp [toBytes]

theorem toBytes_eq (c : Consts) (h : Header) :
    toBytes c h = c.magic ++ [c.code h.format, if h.zstd then c.flagsBase ||| c.zstdSet else c.flagsBase] := by
  simp [toBytes, toBytes.flagsOf]

theorem uint8_bit0 (fl : UInt8) : ((fl &&& 1) != 0) = fl.toNat.testBit 0 := by
  rw [Bool.eq_iff_iff]
  simp only [bne_iff_ne, ne_eq, ← UInt8.toNat_inj, UInt8.toNat_and, Nat.testBit_zero, decide_eq_true_eq]
  simp [Nat.and_one_is_mod]

/-- Decoding what `toBytes` wrote, followed by any payload, gives the header back. -/
theorem fromBytes_toBytes {c : Consts} (h : WF c) (hd : Header) (p : List UInt8) :
    fromBytes c (toBytes c hd ++ p) = .ok hd := by
  have hl := h.magic_len
  unfold fromBytes
  rw [toBytes_eq]
  have e1 : ¬ ((c.magic ++ [c.code hd.format, if hd.zstd then c.flagsBase ||| c.zstdSet else c.flagsBase] ++ p).length
      < c.minLen) := by
    simp [h.min_len, hl]
  have e2 : ((c.magic ++ [c.code hd.format, if hd.zstd then c.flagsBase ||| c.zstdSet else c.flagsBase] ++ p).take
      c.magicLen != c.magic) = false := by
    rw [List.append_assoc, ← hl, List.take_left]; simp
  have e3 : (c.magic ++ [c.code hd.format, if hd.zstd then c.flagsBase ||| c.zstdSet else c.flagsBase] ++ p)[c.fmtIdx]?
      = some (c.code hd.format) := by
    rw [h.fmt_idx, ← hl, List.append_assoc, List.getElem?_append_right (Nat.le_refl _)]; simp
  have e4 : (c.magic ++ [c.code hd.format, if hd.zstd then c.flagsBase ||| c.zstdSet else c.flagsBase] ++ p)[c.flagsIdx]?
      = some (if hd.zstd then c.flagsBase ||| c.zstdSet else c.flagsBase) := by
    rw [h.flags_idx, ← hl, List.append_assoc, List.getElem?_append_right (Nat.le_succ _)]; simp
  rw [if_neg e1, e2, e3, e4]
  simp only [Bool.false_eq_true, if_false, ofCode_code h]
  cases hd with
  | mk f z =>
    cases z
    · simp [h.read_base]
    · simp [h.read_set]

/-- Exactly when the header decoder raises. -/
theorem fromBytes_error_iff {c : Consts} (h : WF c) (d : List UInt8) :
    (∃ e, fromBytes c d = .error e) ↔
      d.length < c.magicLen + 2 ∨ d.take c.magicLen ≠ c.magic ∨ ¬ ∃ f, d[c.magicLen]? = some (c.code f) := by
  unfold fromBytes
  rw [h.min_len, h.fmt_idx, h.flags_idx]
  by_cases hlen : d.length < c.magicLen + 2
  · simp [hlen]
  · have l1 : c.magicLen < d.length := by omega
    have l2 : c.magicLen + 1 < d.length := by omega
    rw [if_neg hlen]
    by_cases hm : d.take c.magicLen = c.magic
    · simp only [hm, bne_self_eq_false, Bool.false_eq_true, if_false, hlen, ne_eq, not_true_eq_false, false_or]
      rw [List.getElem?_eq_getElem l1, List.getElem?_eq_getElem l2]
      simp only []
      cases hc : ofCode c d[c.magicLen] with
      | none =>
        simp only [Option.some.injEq]
        constructor
        · rintro _ ⟨f, hf⟩
          exact (ofCode_none_iff h _).1 hc f hf.symm
        · intro _; exact ⟨_, rfl⟩
      | some f =>
        simp only [Option.some.injEq]
        constructor
        · rintro ⟨e, he⟩; cases he
        · intro hn; exact absurd ⟨f, (ofCode_some hc).symm⟩ hn
    · have : (d.take c.magicLen != c.magic) = true := by simpa using hm
      simp [this, hm]

/-- The decoder never raises anything but `ValueError` (in particular no `IndexError`). -/
theorem fromBytes_error_class {c : Consts} (h : WF c) (d : List UInt8) (e : Err)
    (he : fromBytes c d = .error e) : e = .valueError := by
  unfold fromBytes at he
  rw [h.min_len, h.fmt_idx, h.flags_idx] at he
  by_cases hlen : d.length < c.magicLen + 2
  · rw [if_pos hlen] at he; cases he; rfl
  · have l1 : c.magicLen < d.length := by omega
    have l2 : c.magicLen + 1 < d.length := by omega
    rw [if_neg hlen, List.getElem?_eq_getElem l1, List.getElem?_eq_getElem l2] at he
    split at he
    · cases he; rfl
    · simp only [] at he
      split at he
      · cases he; rfl
      · cases he

/-- What an accepted header says. -/
theorem fromBytes_ok_iff {c : Consts} (h : WF c) (d : List UInt8) (hd : Header) :
    fromBytes c d = .ok hd ↔
      c.magicLen + 2 ≤ d.length ∧ d.take c.magicLen = c.magic ∧ d[c.magicLen]? = some (c.code hd.format) ∧
      ∃ fl, d[c.magicLen + 1]? = some fl ∧ hd.zstd = ((fl &&& c.zstdRead) != 0) := by
  unfold fromBytes
  rw [h.min_len, h.fmt_idx, h.flags_idx]
  by_cases hlen : d.length < c.magicLen + 2
  · simp [hlen]; omega
  · have l1 : c.magicLen < d.length := by omega
    have l2 : c.magicLen + 1 < d.length := by omega
    rw [if_neg hlen, List.getElem?_eq_getElem l1, List.getElem?_eq_getElem l2]
    by_cases hm : d.take c.magicLen = c.magic
    · simp only [hm, bne_self_eq_false, Bool.false_eq_true, if_false, true_and, Option.some.injEq,
        exists_eq_left']
      cases hc : ofCode c d[c.magicLen] with
      | none =>
        simp only [reduceCtorEq, false_iff, not_and]
        intro _ hf
        exact absurd hf.symm ((ofCode_none_iff h _).1 hc hd.format)
      | some f =>
        have hf := ofCode_some hc
        cases hd with
        | mk f' z =>
          simp only [Except.ok.injEq, Header.mk.injEq]
          constructor
          · rintro ⟨rfl, rfl⟩; exact ⟨by omega, hf.symm, rfl⟩
          · rintro ⟨_, h1, h2⟩
            exact ⟨h.code_inj _ _ (hf.trans h1), h2.symm⟩
    · have : (d.take c.magicLen != c.magic) = true := by simpa using hm
      simp [this, hm]

variable {Pkg Str : Type}

/-- An envelope that could be made starts with the configuration's header. -/
theorem makeEnvelope_prefix (c : Consts) (e : Env Pkg Str) (p : Pkg) (cfg : Config) (b : List UInt8)
    (hb : makeEnvelope c e p cfg = .ok b) :
    ∃ payload, b = toBytes c (makeHeader cfg) ++ payload ∧
      ∃ raw, encodePayload e p cfg.format = .ok raw ∧
        match cfg.zstd with
        | none => payload = raw
        | some l => e.compress raw l = .ok payload := by
  unfold makeEnvelope at hb
  cases hp : encodePayload e p cfg.format with
  | error x => rw [hp] at hb; cases hb
  | ok raw =>
    rw [hp] at hb
    cases hz : cfg.zstd with
    | none =>
      rw [hz] at hb
      cases hb
      exact ⟨raw, rfl, raw, rfl, rfl⟩
    | some l =>
      rw [hz] at hb
      simp only [] at hb
      cases hcz : e.compress raw l with
      | error x => rw [hcz] at hb; cases hb
      | ok z =>
        rw [hcz] at hb
        cases hb
        exact ⟨z, rfl, raw, rfl, hcz⟩

theorem drop_toBytes {c : Consts} (h : WF c) (hd : Header) (p : List UInt8) :
    (toBytes c hd ++ p).drop c.payloadStart = p := by
  have : c.payloadStart = (toBytes c hd).length := by rw [toBytes_length, h.payload_start, h.magic_len]
  rw [this, List.drop_left]

/-- Reading back an envelope that could be made: the decoder sees the raw payload again. -/
theorem readEnvelope_makeEnvelope {c : Consts} (h : WF c) (e : Env Pkg Str)
    (hz : ∀ x l y, e.compress x l = .ok y → e.decompress y = .ok x)
    (p : Pkg) (cfg : Config) (b : List UInt8) (hb : makeEnvelope c e p cfg = .ok b) :
    ∃ raw, encodePayload e p cfg.format = .ok raw ∧
      readEnvelope c e b =
        match cfg.format with
        | .json => e.loadJson raw
        | _ => .error .valueError := by
  obtain ⟨payload, rfl, raw, hraw, hpl⟩ := makeEnvelope_prefix c e p cfg b hb
  refine ⟨raw, hraw, ?_⟩
  unfold readEnvelope
  rw [fromBytes_toBytes h, drop_toBytes h]
  cases hzz : cfg.zstd with
  | none =>
    rw [hzz] at hpl
    simp only [] at hpl
    subst hpl
    simp only [makeHeader, hzz, Option.isSome_none, Bool.false_eq_true, if_false]
    cases cfg.format <;> rfl
  | some l =>
    rw [hzz] at hpl
    simp only [] at hpl
    simp only [makeHeader, hzz, Option.isSome_some, if_true, hz _ _ _ hpl]
    cases cfg.format <;> rfl

/-! ### The constants of envelope.py -/

/-- The layout facts the header code relies on hold for the constants of envelope.py. -/
theorem py_wf : WF py := by
  refine ⟨by decide, by decide, by decide, by decide, by decide, ?_, by decide, by decide⟩
  intro f g
  cases f <;> cases g <;> decide

/-- The magic number documented in the module docstring's table (`MAGIC_NUMBERS`, 8 bytes),
    "HUGRiHJv". -/
def docMagic : List UInt8 := [0x48, 0x55, 0x47, 0x52, 0x69, 0x48, 0x4a, 0x76]

/-- `EnvelopeFormat(b)` succeeds exactly on the three documented codes. -/
def knownCode (b : UInt8) : Prop := b = 1 ∨ b = 2 ∨ b = 63

theorem knownCode_iff (b : UInt8) : knownCode b ↔ ∃ f, py.code f = b := by
  unfold knownCode
  have h1 : py.code .module = 1 := by decide
  have h2 : py.code .moduleWithExts = 2 := by decide
  have h3 : py.code .json = 63 := by decide
  constructor
  · rintro (rfl | rfl | rfl)
    · exact ⟨_, h1⟩
    · exact ⟨_, h2⟩
    · exact ⟨_, h3⟩
  · rintro ⟨f, rfl⟩
    cases f
    · exact .inl h1
    · exact .inr (.inl h2)
    · exact .inr (.inr h3)

/-! ### The toy environment satisfies the hypotheses of the round-trip theorems -/

theorem toy_hz : ∀ x l y, toyEnv.compress x l = .ok y → toyEnv.decompress y = .ok x := by
  intro x l y h
  simp only [toyEnv, Except.ok.injEq] at h
  subst h
  rfl

theorem toy_hu : ∀ b s, toyEnv.utf8dec b = some s → toyEnv.utf8enc s = b := by
  intro b s h
  simp only [toyEnv] at h
  split at h
  · cases h; rfl
  · cases h

end HugrVerif.Envelope
