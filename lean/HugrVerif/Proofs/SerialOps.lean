/-
  The full operation codec (`opsCodec`) satisfies the codec laws used by the JSON fixed-point theorem
  (C02), on the operations for which C05's round-trip theorems apply.
-/
import HugrVerif.Proofs.SerialNormal
import HugrVerif.Proofs.C05
import HugrVerif.SerialCodecs

namespace HugrVerif.Serial
open HugrVerif HugrVerif.Op HugrVerif.Codec HugrVerif.OpProofs

/-- input / output lengths of the outer signature survive normalisation -/
theorem outerSig_lengths_norm (nv : Value → Value) (op : Op) (p : Int) (j : Json) (h : encOp op p = .ok j)
    (hc : CallOK op) :
    (outerSig (Op.norm nv op)).map (fun s => (s.inp.length, s.out.length)) =
      (outerSig op).map (fun s => (s.inp.length, s.out.length)) := by
  have hs := outerSig_norm nv op p j h hc
  have := congrArg (fun x => x.map (fun s : Sig => (s.inp.length, s.out.length))) hs
  simpa [except_map_map, sigGen, Sig.norm, normRow_length] using this

theorem isDataflowOp_norm (nv : Value → Value) (op : Op) : (Op.norm nv op).isDataflowOp = op.isDataflowOp := by
  unfold Op.norm
  split <;> (try split) <;> simp [isDataflowOp]

def staticIn : Op → Nat
  | .loadConst _ | .loadFunc .. => 1
  | _ => 0

theorem staticIn_norm (nv : Value → Value) (op : Op) : staticIn (Op.norm nv op) = staticIn op := by
  unfold Op.norm
  split <;> (try split) <;> simp [staticIn]

theorem norm_not_call (nv : Value → Value) (op : Op) (h : ∀ p i a, op ≠ .call p i a) :
    ∀ p i a, Op.norm nv op ≠ .call p i a := by
  unfold Op.norm
  split <;> (try split) <;> simp_all

theorem opOrderOff_eq (op : Op) (inc : Bool) (h : ∀ p i a, op ≠ .call p i a) :
    opOrderOff op inc =
      if op.isDataflowOp then
        (match outerSig op with
         | .error e => .error (opErrName e)
         | .ok sig => .ok (some (if inc then sig.inp.length + staticIn op else sig.out.length)))
      else .ok none := by
  cases op <;> (try simp_all [opOrderOff, staticIn]) <;> (try (split <;> (try split) <;> simp_all))

/-- the order-port layout is the same for an operation and its decoded form -/
theorem orderOff_norm (nv : Value → Value) (op : Op) (p : Int) (j : Json) (h : encOp op p = .ok j)
    (hc : CallOK op) (inc : Bool) : opOrderOff (Op.norm nv op) inc = opOrderOff op inc := by
  by_cases hcall : ∃ q i a, op = .call q i a
  · obtain ⟨q, i, a, rfl⟩ := hcall
    simp only [CallOK] at hc
    by_cases h0 : q.params.length = 0
    · simp only [h0, if_true] at hc
      obtain ⟨rfl, rfl⟩ := hc
      simp [Op.norm, h0, opOrderOff, Sig.norm, normRow_length]
    · simp [Op.norm, h0, opOrderOff, Sig.norm, normRow_length]
  · have hnc : ∀ q i a, op ≠ .call q i a := fun q i a e => hcall ⟨q, i, a, e⟩
    rw [opOrderOff_eq _ _ (norm_not_call nv op hnc), opOrderOff_eq _ _ hnc, isDataflowOp_norm, staticIn_norm]
    have hl := outerSig_lengths_norm nv op p j h hc
    cases h1 : outerSig op with
    | error e =>
      cases h2 : outerSig (Op.norm nv op) with
      | error e' => simp [h1, h2, Except.map] at hl; subst hl; rfl
      | ok s' => simp [h1, h2, Except.map] at hl
    | ok s =>
      cases h2 : outerSig (Op.norm nv op) with
      | error e' => simp [h1, h2, Except.map] at hl
      | ok s' =>
        simp [h1, h2, Except.map] at hl
        simp [hl.1, hl.2]

/-- The operations on which the full codec is lawful: what `_CallOrLoad.__init__` establishes, constants
    well formed, nesting within the decoder's fuel, and a defined port layout (complete operation,
    tag in range). -/
def GoodOp (N f : Nat) (op : Op) : Prop :=
  CallOK op ∧ C05.OpWF N op ∧ C05.opDepth N op ≤ f ∧ ∀ inc, ∃ r, opOrderOff op inc = .ok r

/-- **The full operation codec is lawful** on `GoodOp`s (C05's round-trip theorems). -/
theorem opsCodec_laws (N f : Nat) : CodecLawsOn (opsCodec (f + 1)) (Op.norm Value.norm) (GoodOp N f) := by
  refine ⟨?_, ?_, ?_, ?_⟩
  · intro op p j ⟨hc, hw, hd, _⟩ h
    simp only [opsCodec] at h ⊢
    cases he : encOp op (p : Int) with
    | error e => simp [he] at h
    | ok j' =>
      simp only [he] at h; injection h with h; subst h
      rw [C05.decOp_encOp op p j' N f he hc hw hd]
  · intro op p j ⟨hc, _, _, _⟩ h
    simp only [opsCodec] at h ⊢
    cases he : encOp op (p : Int) with
    | error e => simp [he] at h
    | ok j' =>
      simp only [he] at h; injection h with h; subst h
      rw [C05.encOp_norm op p j' he hc]
  · intro op p j inc ⟨hc, _, _, _⟩ h
    simp only [opsCodec] at h ⊢
    cases he : encOp op (p : Int) with
    | error e => simp [he] at h
    | ok j' => exact orderOff_norm _ op p j' he hc inc
  · intro op p j ⟨_, _, _, ho⟩ _ inc
    exact ho inc

end HugrVerif.Serial
