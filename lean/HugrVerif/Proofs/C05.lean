/-
  C05, direction (A): the three codec layers glued together so that no hypothesis about another
  layer remains.

  * the value layer's `Codable fnSig v` (C14) asked, for every function constant inside `v`, that
    `fnSig` returns the signature the constant carries.  With the operation layer's own
    `Op.fnSig` this is a fact about the *value*: its body document starts with the encoding of a
    root operation that has that inner signature (`FnBodyOK`) — the model carries body and
    signature side by side, so they have to agree, exactly as `val.Function.type_()` computes the
    one from the other.  `Value.WF` collects this together with the two conditions under which the
    Python can serialise a value at all (`typ` of a general sum is a sum type; the type of an
    extension constant is a member of the serialised `Type` union).
  * the operation layer's `ValOK` (C06) asked for the round trip of the constant an operation
    carries: discharged with the value layer's theorem.
  * Python's `==` on values (`val.Sum.__eq__`): `Value.eqPy`.
-/
import HugrVerif.Proofs.OpsCodec
import HugrVerif.Proofs.Val

set_option linter.unusedSimpArgs false
set_option linter.unusedVariables false

namespace HugrVerif.C05
open HugrVerif HugrVerif.Op HugrVerif.Codec HugrVerif.OpProofs

/-! ### the inner signature of a decoded dataflow parent -/

/-- A `DataflowBlock` whose sum is a `UnitSum` object decodes with the general spelling of the sum
    (equal under Python's `==`, not identical): excluded as root of a function constant. -/
def NotUnitBlock : Op → Prop
  | .dataflowBlock _ (some (.unit _)) _ _ => False
  | _ => True

theorem innerSig_norm (nv : Value → Value) (op : Op) (s : Sig) (h : innerSig op = .ok s) (hb : NotUnitBlock op) :
    innerSig (norm nv op) = .ok s.norm := by
  cases op <;> simp only [innerSig] at h <;> (try (cases h; done))
  case dfg i o d =>
    cases o with
    | none => simp [need, bind, Except.bind] at h
    | some o =>
      simp only [need, bind, Except.bind, pure, Except.pure, Except.ok.injEq] at h
      subst h; rfl
  case dataflowBlock i sm oo d =>
    cases sm with
    | none => simp [need, bind, Except.bind] at h
    | some sm =>
      cases oo with
      | none => simp [need, bind, Except.bind] at h
      | some oo =>
        simp only [need, bind, Except.bind, pure, Except.pure, Except.ok.injEq] at h
        subst h
        cases sm with
        | unit n => exact absurd hb (by simp [NotUnitBlock])
        | general rows =>
          simp [Op.norm, innerSig, need, bind, Except.bind, pure, Except.pure, Sig.norm, SumTy.toTy, SumTy.rows,
            Ty.normRow, Ty.norm]
  case case i o =>
    cases o with
    | none => simp [need, bind, Except.bind] at h
    | some o =>
      simp only [need, bind, Except.bind, pure, Except.pure, Except.ok.injEq] at h
      subst h; rfl
  case tailLoop ji rest jo d =>
    cases jo with
    | none => simp [need, bind, Except.bind] at h
    | some jo =>
      simp only [need, bind, Except.bind, pure, Except.pure, Except.ok.injEq] at h
      subst h
      simp [Op.norm, innerSig, need, bind, Except.bind, pure, Except.pure, Sig.norm, Ty.normRow_eq_map, Ty.norm,
        Ty.normRows, Ty.normRow]
  case funcDefn n i ps o =>
    cases o with
    | none => simp [need, bind, Except.bind] at h
    | some o =>
      simp only [need, bind, Except.bind, pure, Except.pure, Except.ok.injEq] at h
      subst h; rfl

theorem innerSig_ok_not_const (op : Op) (s : Sig) (h : innerSig op = .ok s) :
    CallOK op ∧ ∀ nv vdec, ValOK nv vdec op := by
  cases op <;> simp only [innerSig] at h <;> first
    | (cases h; done)
    | exact ⟨trivial, fun _ _ => trivial⟩

/-! ### well-formed values -/

/-- The body document of a function constant begins with the encoding of a root operation whose
    inner signature is the one the constant reports (`type_()` = `body.root_op().inner_signature()`);
    `N` bounds the decoding fuel that operation needs. -/
def FnBodyOK (i o : List Ty) (r : List String) (body : Json) (N : Nat) : Prop :=
  ∃ (root : Op) (p : Int) (kvs : List (String × Json)) (n0 : Json) (rest : List Json),
    body = .obj kvs ∧ Codec.field "nodes" kvs = some (.arr (n0 :: rest)) ∧
    encOp root p = .ok n0 ∧ innerSig root = .ok ⟨i, o, r⟩ ∧ NotUnitBlock root ∧ depth root + 2 ≤ N

mutual
  /-- Well-formed constants: what the Python can serialise, with function bodies that have the
      reported signature. -/
  def WF (N : Nat) : Value → Prop
    | .sum _ typ vals => typ.isSum = true ∧ WFList N vals
    | .tuple vals => WFList N vals
    | .function i o r body => FnBodyOK i o r body N
    | .ext _ typ _ _ => typ.isPoly = false
  def WFList (N : Nat) : List Value → Prop
    | [] => True
    | v :: vs => WF N v ∧ WFList N vs
end

theorem fnSig_of_body (i o : List Ty) (r : List String) (body : Json) (N fuel : Nat)
    (h : FnBodyOK i o r body N) (hN : N ≤ fuel) : Op.fnSig fuel body = .ok (Ty.normRow i, Ty.normRow o, r) := by
  obtain ⟨root, p, kvs, n0, rest, rfl, hn, he, hi, hb, hd⟩ := h
  obtain ⟨f, rfl⟩ : ∃ f, fuel = f + 2 := ⟨fuel - 2, by omega⟩
  obtain ⟨hc, hv⟩ := innerSig_ok_not_const root _ hi
  have h1 : decOp (f + 1) n0 = .ok (norm Value.norm root, p) := by
    rw [decOp]
    exact decWith_encOp Value.norm _ root p n0 f he hc (by omega) (hv _ _)
  have h2 := innerSig_norm Value.norm root _ hi hb
  rw [Op.fnSig]
  simp [asObj, req, hn, asArr, h1, h2, Sig.norm, bind, Except.bind, pure, Except.pure]

mutual
  theorem codable_of_wf (N fuel : Nat) (hN : N ≤ fuel) : ∀ (v : Value), WF N v → Value.Codable (Op.fnSig fuel) v
    | .sum _ typ vals, h => ⟨h.1, codableList_of_wf N fuel hN vals h.2⟩
    | .tuple vals, h => by
      simp only [Value.Codable]
      exact codableList_of_wf N fuel hN vals h
    | .function i o r body, h => by
      simp only [Value.Codable]
      exact fnSig_of_body i o r body N fuel h hN
    | .ext _ typ _ _, h => h
  theorem codableList_of_wf (N fuel : Nat) (hN : N ≤ fuel) : ∀ (vs : List Value), WFList N vs →
      Value.CodableList (Op.fnSig fuel) vs
    | [], _ => trivial
    | v :: vs, h => ⟨codable_of_wf N fuel hN v h.1, codableList_of_wf N fuel hN vs h.2⟩
end

/-- **Round trip of values, all layers closed**: with the operation layer's own reader of function
    bodies. -/
theorem decVal_encVal (v : Value) (j : Json) (N fuel : Nat) (hw : WF N v) (h : encVal v = .ok j)
    (hd : v.depth ≤ fuel) (hN : N ≤ fuel) : decVal (Op.fnSig fuel) fuel j = .ok v.norm :=
  decVal_encVal_aux (Op.fnSig fuel) v j fuel (codable_of_wf N fuel hN v hw) h hd

/-! ### operations -/

/-- the constant an operation carries is well formed -/
def OpWF (N : Nat) : Op → Prop
  | .const v => WF N v
  | _ => True

/-- fuel for an operation including the constant it carries -/
def opDepth (N : Nat) : Op → Nat
  | .const v => max v.depth N
  | op => depth op

theorem depth_le_opDepth (N : Nat) (op : Op) : depth op ≤ opDepth N op := by
  cases op <;> simp [opDepth, depth]

/-- **Round trip of operations, all layers closed.** -/
theorem decOp_encOp (op : Op) (p : Int) (j : Json) (N fuel : Nat) (h : encOp op p = .ok j) (hc : CallOK op)
    (hw : OpWF N op) (hd : opDepth N op ≤ fuel) : decOp (fuel + 1) j = .ok (norm Value.norm op, p) := by
  refine OpProofs.decOp_encOp Value.norm op p j fuel h hc (Nat.le_trans (depth_le_opDepth N op) hd) ?_
  cases op <;> try trivial
  case const v =>
    intro jv hjv
    simp only [opDepth] at hd
    exact decVal_encVal v jv N fuel hw hjv (by omega) (by omega)

theorem encOp_norm (op : Op) (p : Int) (j : Json) (h : encOp op p = .ok j) (hc : CallOK op) :
    encOp (norm Value.norm op) p = .ok j :=
  OpProofs.encOp_norm Value.norm op p j h hc (fun v _ => encVal_norm v)

/-! ### Python's `==` on values -/

end HugrVerif.C05

namespace HugrVerif
namespace Value

mutual
  /-- Canonical form for comparing values as `val.Sum.__eq__` does: a `Tuple` *is* the `Sum` with tag 0
      over the one row of its fields' types; types are compared with `tys.Sum.__eq__` (`Ty.canon`). -/
  def canon : Value → Value
    | .sum tag typ vals => .sum tag typ.canon (canonList vals)
    | .tuple vals => .sum 0 (Ty.canon (Ty.tuple (typesOf vals))) (canonList vals)
    | .function i o r body => .function (Ty.canonRow i) (Ty.canonRow o) r body
    | .ext name typ payload exts => .ext name typ.canon payload exts
  def canonList : List Value → List Value
    | [] => []
    | v :: vs => canon v :: canonList vs
end

mutual
  /-- structural equality -/
  def beq : Value → Value → Bool
    | .sum t ty vs, .sum t' ty' vs' => t == t' && Ty.beq ty ty' && beqList vs vs'
    | .tuple vs, .tuple vs' => beqList vs vs'
    | .function i o r b, .function i' o' r' b' => Ty.beqRow i i' && Ty.beqRow o o' && r == r' && Json.beq b b'
    | .ext n t p e, .ext n' t' p' e' => n == n' && Ty.beq t t' && Json.beq p p' && e == e'
    | _, _ => false
  def beqList : List Value → List Value → Bool
    | [], [] => true
    | v :: vs, w :: ws => beq v w && beqList vs ws
    | _, _ => false
end

mutual
  theorem beq_refl : ∀ (v : Value), beq v v = true
    | .sum t ty vs => by simp [beq, Ty.beq_refl, beqList_refl vs]
    | .tuple vs => by simp [beq, beqList_refl vs]
    | .function i o r b => by simp [beq, Ty.beqRow_refl, Json.beq_refl]
    | .ext n t p e => by simp [beq, Ty.beq_refl, Json.beq_refl]
  theorem beqList_refl : ∀ (vs : List Value), beqList vs vs = true
    | [] => rfl
    | v :: vs => by simp [beqList, beq_refl v, beqList_refl vs]
end

mutual
  theorem beq_sound : ∀ (a b : Value), beq a b = true → a = b
    | .sum t ty vs, b, h => by
      cases b <;> simp [beq] at h
      rename_i t' ty' vs'
      rw [h.1.1, Ty.beq_sound ty ty' h.1.2, beqList_sound vs vs' h.2]
    | .tuple vs, b, h => by
      cases b <;> simp [beq] at h
      rename_i vs'
      rw [beqList_sound vs vs' h]
    | .function i o r bd, b, h => by
      cases b <;> simp [beq] at h
      rename_i i' o' r' b'
      rw [Ty.beqRow_sound i i' h.1.1.1, Ty.beqRow_sound o o' h.1.1.2, h.1.2, Json.beq_sound bd b' h.2]
    | .ext n t p e, b, h => by
      cases b <;> simp [beq] at h
      rename_i n' t' p' e'
      rw [h.1.1.1, Ty.beq_sound t t' h.1.1.2, Json.beq_sound p p' h.1.2, h.2]
  theorem beqList_sound : ∀ (xs ys : List Value), beqList xs ys = true → xs = ys
    | [], ys, h => by cases ys <;> simp_all [beqList]
    | x :: xs, ys, h => by
      cases ys with
      | nil => simp [beqList] at h
      | cons y ys =>
        simp [beqList] at h
        rw [beq_sound x y h.1, beqList_sound xs ys h.2]
end

theorem beq_iff (a b : Value) : beq a b = true ↔ a = b := ⟨beq_sound a b, fun h => h ▸ beq_refl a⟩

instance : DecidableEq Value := fun a b =>
  if h : beq a b = true then isTrue (beq_sound a b h) else isFalse (fun e => h (e ▸ beq_refl a))

/-- Python's `==` on constants (`val.Sum.__eq__`, the dataclass equality of `Extension`). -/
def eqPy (a b : Value) : Bool := beq (canon a) (canon b)

theorem eqPy_iff (a b : Value) : eqPy a b = true ↔ canon a = canon b := beq_iff _ _

theorem eqPy_refl (a : Value) : eqPy a a = true := beq_refl _

mutual
  theorem typeOf_canon : ∀ (v : Value), typeOf (canon v) = Ty.canon (typeOf v)
    | .sum _ _ _ => rfl
    | .tuple _ => rfl
    | .function _ _ _ _ => rfl
    | .ext _ _ _ _ => rfl
end

/-- Values that compare equal report types that compare equal. -/
theorem eqPy_same_type (a b : Value) (h : eqPy a b = true) : Ty.same (typeOf a) (typeOf b) = true := by
  rw [eqPy_iff] at h
  rw [Ty.same_iff]
  show Ty.canon (typeOf a) = Ty.canon (typeOf b)
  rw [← typeOf_canon, ← typeOf_canon, h]

end Value

namespace Ty

/-- Types that compare equal have the same bound. -/
theorem same_bound (a b : Ty) (h : same a b = true) : bound a = bound b := by
  rw [same_iff] at h
  rw [← bound_canon a, ← bound_canon b, h]

theorem same_refl (a : Ty) : same a a = true := (same_iff a a).2 (Same.refl a)

/-! ### core types come back unchanged -/

mutual
  /-- no extension type (`tys.ExtType`) anywhere inside: a *core* type -/
  def noExt : Ty → Bool
    | .sum rows => noExtRows rows
    | .function i o _ => noExtRow i && noExtRow o
    | .poly _ i o _ => noExtRow i && noExtRow o
    | .extType _ _ => false
    | .opaque _ _ args _ => noExtArgs args
    | _ => true
  def noExtRow : List Ty → Bool
    | [] => true
    | t :: ts => noExt t && noExtRow ts
  def noExtRows : List (List Ty) → Bool
    | [] => true
    | r :: rs => noExtRow r && noExtRows rs
  def noExtArg : TypeArg → Bool
    | .type t => noExt t
    | .sequence es => noExtArgs es
    | _ => true
  def noExtArgs : List TypeArg → Bool
    | [] => true
    | a :: as => noExtArg a && noExtArgs as
end

mutual
  theorem norm_of_noExt : ∀ (t : Ty), noExt t = true → norm t = t
    | .sum rows, h => by simp only [noExt] at h; simp only [norm, normRows_of_noExt rows h]
    | .unitSum _, _ => rfl
    | .variable _ _, _ => rfl
    | .rowVariable _ _, _ => rfl
    | .usize, _ => rfl
    | .alias _ _, _ => rfl
    | .function i o r, h => by
      simp only [noExt, Bool.and_eq_true] at h
      simp only [norm, normRow_of_noExt i h.1, normRow_of_noExt o h.2]
    | .poly ps i o r, h => by
      simp only [noExt, Bool.and_eq_true] at h
      simp only [norm, normRow_of_noExt i h.1, normRow_of_noExt o h.2]
    | .extType _ _, h => by simp [noExt] at h
    | .opaque id b args e, h => by simp only [noExt] at h; simp only [norm, normArgs_of_noExt args h]
    | .qubit, _ => rfl
  theorem normRow_of_noExt : ∀ (ts : List Ty), noExtRow ts = true → normRow ts = ts
    | [], _ => rfl
    | t :: ts, h => by
      simp only [noExtRow, Bool.and_eq_true] at h
      simp only [normRow, norm_of_noExt t h.1, normRow_of_noExt ts h.2]
  theorem normRows_of_noExt : ∀ (rows : List (List Ty)), noExtRows rows = true → normRows rows = rows
    | [], _ => rfl
    | r :: rs, h => by
      simp only [noExtRows, Bool.and_eq_true] at h
      simp only [normRows, normRow_of_noExt r h.1, normRows_of_noExt rs h.2]
  theorem normArg_of_noExt : ∀ (a : TypeArg), noExtArg a = true → normArg a = a
    | .type t, h => by simp only [noExtArg] at h; simp only [normArg, norm_of_noExt t h]
    | .boundedNat _, _ => rfl
    | .string _, _ => rfl
    | .sequence es, h => by simp only [noExtArg] at h; simp only [normArg, normArgs_of_noExt es h]
    | .extensions _, _ => rfl
    | .variable _ _, _ => rfl
  theorem normArgs_of_noExt : ∀ (as : List TypeArg), noExtArgs as = true → normArgs as = as
    | [], _ => rfl
    | a :: as, h => by
      simp only [noExtArgs, Bool.and_eq_true] at h
      simp only [normArgs, normArg_of_noExt a h.1, normArgs_of_noExt as h.2]
end


end Ty
end HugrVerif
