/-
  Lemmas about `Schema.eval` and `Schema.normalize`.
  Main result: `eval_normalize` — normalising the schema and the `$defs` table does not change
  the verdict on any document, for any fuel and any regular-expression matcher.
-/
import HugrVerif.Schema

namespace HugrVerif.Schema
open HugrVerif

/-! ### Lookups commute with normalisation -/

theorem resolve_normDefs (defs : Fields) (r : String) :
    resolve (normMapFields defs) r = (resolve defs r).map normalize := by
  induction defs with
  | nil => simp [normMapFields, resolve]
  | cons d defs ih =>
    obtain ⟨k, v⟩ := d
    simp only [normMapFields, resolve]
    split <;> simp [ih]

theorem normMapFields_keys (ps : Fields) : (normMapFields ps).map (·.1) = ps.map (·.1) := by
  induction ps with
  | nil => simp [normMapFields]
  | cons p ps ih => obtain ⟨k, v⟩ := p; simp [normMapFields, ih]

theorem normList_length (ss : List Json) : (normList ss).length = ss.length := by
  induction ss with
  | nil => simp [normList]
  | cons s ss ih => simp [normList, ih]

/-- A keyword that `normalize` never drops is found again, with its value rewritten. -/
theorem get_normFields (l : Fields) (k : String)
    (h1 : k ≠ "title") (h2 : k ≠ "description") (h3 : k ≠ "additionalProperties") :
    get (normFields l) k = (get l k).map (normVal k) := by
  induction l with
  | nil => simp [normFields, get]
  | cons m l ih =>
    obtain ⟨k', v⟩ := m
    simp only [normFields, get]
    by_cases hk : k' = k
    · subst hk
      have hd : dropped k' v = false := by simp [dropped, h1, h2, h3]
      simp only [hd, Bool.false_eq_true, if_false]
      split
      · simp [get, normVal, *]
      · split
        · simp [get, normVal, *]
        · split <;> simp [get, normVal, *]
    · have hk' : (k' == k) = false := by simp [hk]
      simp only [hk', Bool.false_eq_true, if_false]
      split
      · exact ih
      · split
        · simp [get, hk', ih]
        · split
          · simp [get, hk', ih]
          · split <;> simp [get, hk', ih]

theorem propNames_norm (sibs : Fields) : propNames (normFields sibs) = propNames sibs := by
  unfold propNames
  rw [get_normFields sibs "properties" (by decide) (by decide) (by decide)]
  cases h : get sibs "properties" with
  | none => simp
  | some v =>
    have e : normVal "properties" v = normMap v := by
      simp [normVal, isSchemaKw, isSchemaListKw, isSchemaMapKw]
    simp only [Option.map_some, e]
    cases v <;> simp [normMap, normMapFields_keys]

theorem prefixLen_norm (sibs : Fields) : prefixLen (normFields sibs) = prefixLen sibs := by
  unfold prefixLen
  rw [get_normFields sibs "prefixItems" (by decide) (by decide) (by decide)]
  cases h : get sibs "prefixItems" with
  | none => simp
  | some v =>
    have e : normVal "prefixItems" v = normArr v := by
      simp [normVal, isSchemaKw, isSchemaListKw]
    simp only [Option.map_some, e]
    cases v <;> simp [normArr, normList_length]

/-! ### Combinators over normalised lists -/

section
variable (r r' : Json → Json → Option Bool) (H1 : ∀ s j, r' (normalize s) j = r s j)
include H1

theorem allO_normList (j : Json) (ss : List Json) :
    allO (fun s => r' s j) (normList ss) = allO (fun s => r s j) ss := by
  induction ss with
  | nil => simp [normList, allO]
  | cons s ss ih => simp [normList, allO, ih, H1]

theorem countO_normList (j : Json) (ss : List Json) :
    countO (fun s => r' s j) (normList ss) = countO (fun s => r s j) ss := by
  induction ss with
  | nil => simp [normList, countO]
  | cons s ss ih => simp [normList, countO, ih, H1]

theorem zipAllO_normList (ss xs : List Json) :
    zipAllO r' (normList ss) xs = zipAllO r ss xs := by
  induction ss generalizing xs with
  | nil => simp [normList, zipAllO]
  | cons s ss ih =>
    cases xs with
    | nil => simp [normList, zipAllO]
    | cons x xs => simp [normList, zipAllO, ih, H1]

theorem allO_props (fs : Fields) (ps : Fields) :
    allO (fun p => match get fs p.1 with | some x => r' p.2 x | none => some true) (normMapFields ps)
      = allO (fun p => match get fs p.1 with | some x => r p.2 x | none => some true) ps := by
  induction ps with
  | nil => simp [normMapFields, allO]
  | cons p ps ih =>
    obtain ⟨k, s⟩ := p
    simp only [normMapFields, allO, ih]
    cases get fs k <;> simp [H1]

/-! ### Keyword by keyword -/

theorem refKw_norm (defs : Fields) (v j : Json) :
    refKw (normDefs defs) r' v j = refKw defs r v j := by
  unfold refKw
  cases v <;> try rfl
  rename_i name
  simp only [normDefs, resolve_normDefs]
  cases resolve defs name <;> simp [H1]

theorem propertiesKw_norm (v j : Json) : propertiesKw r' (normMap v) j = propertiesKw r v j := by
  unfold propertiesKw
  cases v <;> try rfl
  rename_i ps
  simp only [normMap]
  cases j <;> try rfl
  rename_i fs
  exact allO_props r r' H1 fs ps

theorem addPropsKw_norm (sibs : Fields) (v j : Json) :
    addPropsKw r' (normFields sibs) (normalize v) j = addPropsKw r sibs v j := by
  unfold addPropsKw
  cases j <;> try rfl
  simp only [propNames_norm, H1]

theorem itemsKw_norm (sibs : Fields) (v j : Json) :
    itemsKw r' (normFields sibs) (normalize v) j = itemsKw r sibs v j := by
  unfold itemsKw
  cases j <;> try rfl
  simp only [prefixLen_norm, H1]

theorem prefixItemsKw_norm (v j : Json) : prefixItemsKw r' (normArr v) j = prefixItemsKw r v j := by
  unfold prefixItemsKw
  cases v <;> try rfl
  rename_i ss
  simp only [normArr]
  cases j <;> try rfl
  exact zipAllO_normList r r' H1 ss _

theorem anyOfKw_norm (v j : Json) : anyOfKw r' (normArr v) j = anyOfKw r v j := by
  unfold anyOfKw
  cases v <;> try rfl
  simp only [normArr, countO_normList r r' H1]

theorem oneOfKw_norm (v j : Json) : oneOfKw r' (normArr v) j = oneOfKw r v j := by
  unfold oneOfKw
  cases v <;> try rfl
  simp only [normArr, countO_normList r r' H1]

theorem allOfKw_norm (v j : Json) : allOfKw r' (normArr v) j = allOfKw r v j := by
  unfold allOfKw
  cases v <;> try rfl
  simp only [normArr, allO_normList r r' H1]

/-- A kept keyword gives the same verdict after normalisation of its value, its siblings and
    the `$defs` table. -/
theorem kw_norm (P : String → String → Option Bool) (defs sibs : Fields) (j : Json)
    (k : String) (v : Json) :
    kw P (normDefs defs) r' (normFields sibs) j k (normVal k v) = kw P defs r sibs j k v := by
  unfold kw
  by_cases h : k = "$ref"
  · subst h; simpa [normVal, isSchemaKw, isSchemaListKw, isSchemaMapKw] using refKw_norm r r' H1 defs v j
  by_cases h : k = "type"
  · subst h; simp [normVal, isSchemaKw, isSchemaListKw, isSchemaMapKw]
  by_cases h : k = "properties"
  · subst h; simpa [normVal, isSchemaKw, isSchemaListKw, isSchemaMapKw] using propertiesKw_norm r r' H1 v j
  by_cases h : k = "required"
  · subst h; simp [normVal, isSchemaKw, isSchemaListKw, isSchemaMapKw]
  by_cases h : k = "additionalProperties"
  · subst h; simpa [normVal, isSchemaKw] using addPropsKw_norm r r' H1 sibs v j
  by_cases h : k = "items"
  · subst h; simpa [normVal, isSchemaKw] using itemsKw_norm r r' H1 sibs v j
  by_cases h : k = "prefixItems"
  · subst h; simpa [normVal, isSchemaKw, isSchemaListKw] using prefixItemsKw_norm r r' H1 v j
  by_cases h : k = "anyOf"
  · subst h; simpa [normVal, isSchemaKw, isSchemaListKw] using anyOfKw_norm r r' H1 v j
  by_cases h : k = "oneOf"
  · subst h; simpa [normVal, isSchemaKw, isSchemaListKw] using oneOfKw_norm r r' H1 v j
  by_cases h : k = "allOf"
  · subst h; simpa [normVal, isSchemaKw, isSchemaListKw] using allOfKw_norm r r' H1 v j
  by_cases h : k = "$defs"
  · subst h; simp [isAnnotation]
  -- every other keyword is data: its value is untouched and its verdict does not involve
  -- subschemas, siblings or `$defs`
  have e : normVal k v = v := by
    simp [normVal, isSchemaKw, isSchemaListKw, isSchemaMapKw, *]
  simp [*]

end

/-- What `normalize` drops never affects the verdict. -/
theorem kw_dropped (P : String → String → Option Bool) (defs : Fields)
    (r : Json → Json → Option Bool) (H2 : ∀ x, r (.bool true) x = some true)
    (sibs : Fields) (j : Json) (k : String) (v : Json) (hd : dropped k v = true) :
    kw P defs r sibs j k v = some true := by
  unfold dropped at hd
  simp only [Bool.or_eq_true, Bool.and_eq_true, beq_iff_eq] at hd
  rcases hd with (h | h) | ⟨h, hv⟩
  · subst h; simp [kw, isAnnotation]
  · subst h; simp [kw, isAnnotation]
  · subst h
    have : v = .bool true := by
      cases v with
      | bool b => cases b <;> simp_all
      | _ => simp at hv
    subst this
    have hall : ∀ (names : List String) (fs : Fields),
        allO (fun f => if names.contains f.1 then some true else r (.bool true) f.2) fs = some true := by
      intro names fs
      have hf : (fun (f : String × Json) =>
          if names.contains f.1 then some true else r (.bool true) f.2) = fun _ => some true := by
        funext f; simp [H2]
      rw [hf]
      induction fs with
      | nil => rfl
      | cons f fs ih => simp only [allO, ih]; rfl
    simp only [kw]
    simp only [show ("additionalProperties" == "$ref") = false by decide,
      show ("additionalProperties" == "type") = false by decide,
      show ("additionalProperties" == "properties") = false by decide,
      show ("additionalProperties" == "required") = false by decide,
      Bool.false_eq_true, if_false, beq_self_eq_true, if_true, addPropsKw]
    cases j <;> first | rfl | exact hall _ _

/-! ### One evaluation level, then all levels -/

theorem allO_normFields (P : String → String → Option Bool) (defs : Fields)
    (r r' : Json → Json → Option Bool) (H1 : ∀ s j, r' (normalize s) j = r s j)
    (H2 : ∀ x, r (.bool true) x = some true) (sibs : Fields) (j : Json) (l : Fields) :
    allO (fun m => kw P (normDefs defs) r' (normFields sibs) j m.1 m.2) (normFields l)
      = allO (fun m => kw P defs r sibs j m.1 m.2) l := by
  induction l with
  | nil => simp [normFields, allO]
  | cons m l ih =>
    obtain ⟨k, v⟩ := m
    have hv := kw_norm r r' H1 P defs sibs j k v
    simp only [normFields]
    by_cases hd : dropped k v = true
    · simp only [hd, if_true, allO, ih, kw_dropped P defs r H2 sibs j k v hd]
      cases allO (fun m => kw P defs r sibs j m.1 m.2) l <;> rfl
    · simp only [hd, Bool.false_eq_true, if_false]
      unfold normVal at hv
      split
      · rename_i h1; simp only [h1, if_true] at hv; simp only [allO, ih, hv]
      · rename_i h1
        simp only [h1, Bool.false_eq_true, if_false] at hv
        split
        · rename_i h2; simp only [h2, if_true] at hv; simp only [allO, ih, hv]
        · rename_i h2
          simp only [h2, Bool.false_eq_true, if_false] at hv
          split
          · rename_i h3; simp only [h3, if_true] at hv; simp only [allO, ih, hv]
          · rename_i h3
            simp only [h3, Bool.false_eq_true, if_false] at hv
            simp only [allO, ih, hv]

theorem step_normalize (P : String → String → Option Bool) (defs : Fields)
    (r r' : Json → Json → Option Bool) (H1 : ∀ s j, r' (normalize s) j = r s j)
    (H2 : ∀ x, r (.bool true) x = some true) (s j : Json) :
    step P (normDefs defs) r' (normalize s) j = step P defs r s j := by
  cases s <;> try rfl
  rename_i kvs
  simp only [normalize, step]
  exact allO_normFields P defs r r' H1 H2 kvs j kvs

theorem eval_bool (P : String → String → Option Bool) (defs : Fields) (fuel : Nat) (b : Bool)
    (j : Json) : eval P defs fuel (.bool b) j = some b := by
  cases fuel <;> rfl

/-- **Normalisation preserves the verdict** — for every regular-expression matcher, `$defs`
    table, fuel, schema and document. -/
theorem eval_normalize (P : String → String → Option Bool) (defs : Fields) (fuel : Nat)
    (s j : Json) : eval P (normDefs defs) fuel (normalize s) j = eval P defs fuel s j := by
  induction fuel generalizing s j with
  | zero => cases s <;> rfl
  | succ n ih =>
    exact step_normalize P defs (eval P defs n) (eval P (normDefs defs) n) ih
      (fun x => eval_bool P defs n true x) s j

theorem accepts_normalize (P : String → String → Option Bool) (defs : Fields) (fuel : Nat)
    (s j : Json) : accepts P (normDefs defs) fuel (normalize s) j = accepts P defs fuel s j := by
  simp only [accepts, eval_normalize]

/-- Equal normal forms (of the schema and of the `$defs` table) ⇒ same verdict on every document. -/
theorem eval_eq_of_normalize_eq (P : String → String → Option Bool) {d1 d2 : Fields} {s1 s2 : Json}
    (hd : normDefs d1 = normDefs d2) (hs : normalize s1 = normalize s2) (fuel : Nat) (j : Json) :
    eval P d1 fuel s1 j = eval P d2 fuel s2 j := by
  rw [← eval_normalize P d1, ← eval_normalize P d2, hd, hs]

/-- Pointwise equal normal forms of two `$defs` tables with the same keys. -/
theorem normDefs_cons_congr {k : String} {a b : Json} {t1 t2 : Fields}
    (h : normalize a = normalize b) (ht : normDefs t1 = normDefs t2) :
    normDefs ((k, a) :: t1) = normDefs ((k, b) :: t2) := by
  simp only [normDefs, normMapFields] at *
  rw [h, ht]

/-- The top-level object of a schema file: `$defs` table plus the remaining members. -/
theorem normalize_top_congr {pd gd pr gr : Fields} (hd : normDefs pd = normDefs gd)
    (hr : normFields pr = normFields gr) :
    normalize (.obj (("$defs", .obj pd) :: pr)) = normalize (.obj (("$defs", .obj gd) :: gr)) := by
  have e : ∀ d r, normalize (.obj (("$defs", .obj d) :: r))
      = .obj (("$defs", .obj (normMapFields d)) :: normFields r) := by
    intro d r
    simp [normalize, normFields, dropped, isSchemaKw, isSchemaListKw, isSchemaMapKw, normMap]
  simp only [normDefs] at hd
  rw [e, e, hd, hr]

/-! ### Monotonicity in the fuel -/

section mono
variable {α : Type}

theorem allO_mono {f g : α → Option Bool} (h : ∀ x v, f x = some v → g x = some v) :
    ∀ (l : List α) (b : Bool), allO f l = some b → allO g l = some b
  | [], _, hb => hb
  | x :: xs, b, hb => by
    simp only [allO] at hb ⊢
    cases hx : f x with
    | none => simp [hx, andO] at hb
    | some v =>
      cases hxs : allO f xs with
      | none => simp [hx, hxs, andO] at hb
      | some w => rw [h x v hx, allO_mono h xs w hxs]; rw [hx, hxs] at hb; exact hb

theorem countO_mono {f g : α → Option Bool} (h : ∀ x v, f x = some v → g x = some v) :
    ∀ (l : List α) (n : Nat), countO f l = some n → countO g l = some n
  | [], _, hb => hb
  | x :: xs, n, hb => by
    simp only [countO] at hb ⊢
    cases hx : f x with
    | none => simp [hx] at hb
    | some v =>
      cases hxs : countO f xs with
      | none => simp [hx, hxs] at hb
      | some w => rw [h x v hx, countO_mono h xs w hxs]; rw [hx, hxs] at hb; exact hb

theorem zipAllO_mono {r r' : Json → Json → Option Bool} (h : ∀ s j v, r s j = some v → r' s j = some v) :
    ∀ (ss xs : List Json) (b : Bool), zipAllO r ss xs = some b → zipAllO r' ss xs = some b
  | [], _, _, hb => by simpa [zipAllO] using hb
  | _ :: _, [], _, hb => by simpa [zipAllO] using hb
  | s :: ss, x :: xs, b, hb => by
    simp only [zipAllO] at hb ⊢
    cases hx : r s x with
    | none => simp [hx, andO] at hb
    | some v =>
      cases hxs : zipAllO r ss xs with
      | none => simp [hx, hxs, andO] at hb
      | some w => rw [h s x v hx, zipAllO_mono h ss xs w hxs]; rw [hx, hxs] at hb; exact hb

end mono

section
variable {r r' : Json → Json → Option Bool} (h : ∀ s j v, r s j = some v → r' s j = some v)
include h

theorem refKw_mono (defs : Fields) (v j : Json) (b : Bool) (hb : refKw defs r v j = some b) :
    refKw defs r' v j = some b := by
  unfold refKw at hb ⊢
  cases v <;> try exact hb
  rename_i name
  simp only at hb ⊢
  cases hr : resolve defs name with
  | none => simp [hr] at hb
  | some s => simp only [hr] at hb ⊢; exact h _ _ _ hb

theorem propertiesKw_mono (v j : Json) (b : Bool) (hb : propertiesKw r v j = some b) :
    propertiesKw r' v j = some b := by
  unfold propertiesKw at hb ⊢
  cases v <;> try exact hb
  cases j <;> try exact hb
  rename_i ps fs
  refine allO_mono ?_ _ b hb
  intro p w hp
  cases hg : get fs p.1 with
  | none => simpa [hg] using hp
  | some x => simp only [hg] at hp ⊢; exact h _ _ _ hp

theorem addPropsKw_mono (sibs : Fields) (v j : Json) (b : Bool) (hb : addPropsKw r sibs v j = some b) :
    addPropsKw r' sibs v j = some b := by
  unfold addPropsKw at hb ⊢
  cases j <;> try exact hb
  refine allO_mono ?_ _ b hb
  intro p w hp
  by_cases hc : (propNames sibs).contains p.1 = true
  · simp only [hc, if_true] at hp ⊢; exact hp
  · simp only [hc, Bool.false_eq_true, if_false] at hp ⊢; exact h _ _ _ hp

theorem itemsKw_mono (sibs : Fields) (v j : Json) (b : Bool) (hb : itemsKw r sibs v j = some b) :
    itemsKw r' sibs v j = some b := by
  unfold itemsKw at hb ⊢
  cases j <;> try exact hb
  exact allO_mono (fun x w hx => h v x w hx) _ b hb

theorem prefixItemsKw_mono (v j : Json) (b : Bool) (hb : prefixItemsKw r v j = some b) :
    prefixItemsKw r' v j = some b := by
  unfold prefixItemsKw at hb ⊢
  cases v <;> try exact hb
  cases j <;> try exact hb
  exact zipAllO_mono h _ _ b hb

theorem anyOfKw_mono (v j : Json) (b : Bool) (hb : anyOfKw r v j = some b) :
    anyOfKw r' v j = some b := by
  unfold anyOfKw at hb ⊢
  cases v <;> try exact hb
  rename_i ss
  simp only at hb ⊢
  cases hc : countO (fun s => r s j) ss with
  | none => simp [hc] at hb
  | some n => rw [countO_mono (fun s w hs => h s j w hs) ss n hc]; rw [hc] at hb; exact hb

theorem oneOfKw_mono (v j : Json) (b : Bool) (hb : oneOfKw r v j = some b) :
    oneOfKw r' v j = some b := by
  unfold oneOfKw at hb ⊢
  cases v <;> try exact hb
  rename_i ss
  simp only at hb ⊢
  cases hc : countO (fun s => r s j) ss with
  | none => simp [hc] at hb
  | some n => rw [countO_mono (fun s w hs => h s j w hs) ss n hc]; rw [hc] at hb; exact hb

theorem allOfKw_mono (v j : Json) (b : Bool) (hb : allOfKw r v j = some b) :
    allOfKw r' v j = some b := by
  unfold allOfKw at hb ⊢
  cases v <;> try exact hb
  exact allO_mono (fun s w hs => h s j w hs) _ b hb

theorem kw_mono (P : String → String → Option Bool) (defs sibs : Fields) (j : Json) (k : String)
    (v : Json) (b : Bool) (hb : kw P defs r sibs j k v = some b) :
    kw P defs r' sibs j k v = some b := by
  unfold kw at hb ⊢
  by_cases hk : k = "$ref"
  · subst hk; simp only [beq_self_eq_true, if_true] at hb ⊢; exact refKw_mono h defs v j b hb
  by_cases hk : k = "properties"
  · subst hk; simp at hb ⊢; exact propertiesKw_mono h v j b hb
  by_cases hk : k = "additionalProperties"
  · subst hk; simp at hb ⊢; exact addPropsKw_mono h sibs v j b hb
  by_cases hk : k = "items"
  · subst hk; simp at hb ⊢; exact itemsKw_mono h sibs v j b hb
  by_cases hk : k = "prefixItems"
  · subst hk; simp at hb ⊢; exact prefixItemsKw_mono h v j b hb
  by_cases hk : k = "anyOf"
  · subst hk; simp at hb ⊢; exact anyOfKw_mono h v j b hb
  by_cases hk : k = "oneOf"
  · subst hk; simp at hb ⊢; exact oneOfKw_mono h v j b hb
  by_cases hk : k = "allOf"
  · subst hk; simp at hb ⊢; exact allOfKw_mono h v j b hb
  simp only [beq_iff_eq, *, if_false] at hb ⊢
  exact hb

theorem step_mono (P : String → String → Option Bool) (defs : Fields) (s j : Json) (b : Bool)
    (hb : step P defs r s j = some b) : step P defs r' s j = some b := by
  unfold step at hb ⊢
  cases s <;> try exact hb
  rename_i kvs
  exact allO_mono (fun m w hm => kw_mono h P defs kvs j m.1 m.2 w hm) _ b hb

end

/-- A verdict reached with some fuel is reached with more fuel. -/
theorem eval_mono (P : String → String → Option Bool) (defs : Fields) (fuel : Nat) (s j : Json)
    (b : Bool) (hb : eval P defs fuel s j = some b) : eval P defs (fuel + 1) s j = some b := by
  induction fuel generalizing s j b with
  | zero =>
    cases s <;> simp [eval] at hb
    subst hb; rfl
  | succ n ih => exact step_mono (fun s j v hv => ih s j v hv) P defs s j b hb

end HugrVerif.Schema
