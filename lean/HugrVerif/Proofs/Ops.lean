/-
  Helper lemmas about the operation layer (`Ops.lean`): the model is sound for the specification
  relations, the facts of the named sentences of C06, and the operation codec (`decOp ∘ encOp`).
  The property theorems themselves are in `Props/C06.lean`.
-/
import HugrVerif.Ops

set_option linter.unusedSimpArgs false
set_option linter.unusedVariables false

namespace HugrVerif.OpProofs
open HugrVerif HugrVerif.Op

/-- unfold the `Except` monad -/
local macro "xsimp" "at" h:ident : tactic =>
  `(tactic| simp only [need, Functor.map, Except.map, bind, Except.bind, pure, Except.pure,
      Except.ok.injEq, reduceCtorEq] at $h:ident)
local macro "xsimp" : tactic =>
  `(tactic| simp only [need, Functor.map, Except.map, bind, Except.bind, pure, Except.pure,
      Except.ok.injEq, reduceCtorEq])

/-! ### Python indexing -/

theorem pyIndex_nat {α : Type} (l : List α) (n : Nat) : Ty.pyIndex l (n : Int) = l[n]? := by
  simp [Ty.pyIndex]

theorem index_nat {α : Type} (l : List α) (n : Nat) (a : α) (h : l[n]? = some a) :
    index l (n : Int) = .ok a := by
  simp [index, pyIndex_nat, h]

theorem index_nat_none {α : Type} (l : List α) (n : Nat) (h : l.length ≤ n) :
    index l (n : Int) = .error .indexError := by
  have : l[n]? = none := by simp [h]
  simp [index, pyIndex_nat, this]

theorem index_ok_nonneg {α : Type} (l : List α) (i : Int) (a : α) (h0 : 0 ≤ i) (h : index l i = .ok a) :
    l[i.toNat]? = some a := by
  unfold index at h
  simp only [Ty.pyIndex, h0, if_true] at h
  split at h <;> simp_all

theorem index_map {α β : Type} (f : α → β) (l : List α) (i : Int) :
    index (l.map f) i = (index l i).map f := by
  unfold index Ty.pyIndex
  by_cases h0 : 0 ≤ i
  · simp only [h0, if_true, List.getElem?_map]
    cases l[i.toNat]? <;> simp [Except.map]
  · simp only [h0, if_false, List.length_map]
    by_cases h1 : -(l.length : Int) ≤ i
    · simp only [h1, if_true, List.getElem?_map]
      cases l[((l.length : Int) + i).toNat]? <;> simp [Except.map]
    · simp [h1, Except.map]

/-! ### well-formedness assumed by the specification claims -/

/-- `Tag.tag` is a natural number (`usize` in `sum.rs:13-20`; a negative Python index counts from
    the end), and an `ExtOp` without a cached signature belongs to a monomorphic definition (what
    `ExtOp.to_custom_op` requires: "For polymorphic ops signature must be cached"). -/
def Wf : Op → Prop
  | .tag t _ => 0 ≤ t
  | .extOp d none _ => ∀ p, d.polyFunc = some p → p.params = []
  | _ => True

/-! ### soundness of the signatures -/

theorem innerSig_sound (op : Op) (s : Sig) (h : innerSig op = .ok s) : Spec.HasInner op s := by
  cases op <;> simp only [innerSig, reduceCtorEq] at h
  case dfg i o d => cases o <;> xsimp at h; subst h; constructor
  case dataflowBlock i sm oo d => cases sm <;> cases oo <;> xsimp at h; subst h; constructor
  case case i o => cases o <;> xsimp at h; subst h; constructor
  case tailLoop ji rest jo d => cases jo <;> xsimp at h; subst h; constructor
  case funcDefn n i ps o => cases o <;> xsimp at h; subst h; constructor

theorem outerSig_sound (op : Op) (s : Sig) (hw : Wf op) (h : outerSig op = .ok s) : Spec.HasSig op s := by
  cases op <;> simp only [outerSig, reduceCtorEq] at h
  case input ts => xsimp at h; subst h; constructor
  case output ts => cases ts <;> xsimp at h; subst h; constructor
  case custom => xsimp at h; subst h; constructor
  case extOp d sg a =>
    cases sg with
    | some s' => xsimp at h; subst h; constructor
    | none =>
      cases hp : d.polyFunc with
      | none => simp [hp] at h
      | some p =>
        simp only [hp] at h; xsimp at h; subst h
        exact Spec.HasSig.extOpMono d p a hp (hw p hp)
  case makeTuple ts => cases ts <;> xsimp at h; subst h; constructor
  case unpackTuple ts => cases ts <;> xsimp at h; subst h; constructor
  case noop t => cases t <;> xsimp at h; subst h; constructor
  case tag t sm =>
    cases hi : index sm.rows t with
    | error e => simp only [hi] at h; xsimp at h
    | ok r =>
      simp only [hi] at h; xsimp at h; subst h
      have h0 : 0 ≤ t := hw
      have := index_ok_nonneg _ _ _ h0 hi
      have ht : t = ((t.toNat : Nat) : Int) := by omega
      rw [ht]
      exact Spec.HasSig.tag t.toNat sm r [] this
  case dfg i o d => cases o <;> xsimp at h; subst h; constructor
  case cfg i o => cases o <;> xsimp at h; subst h; constructor
  case loadConst t => cases t <;> xsimp at h; subst h; constructor
  case conditional sm oi o => cases o <;> xsimp at h; subst h; constructor
  case tailLoop ji rest jo d => cases jo <;> xsimp at h; subst h; constructor
  case callIndirect sg => cases sg <;> xsimp at h; subst h; constructor
  case loadFunc p inst a => xsimp at h; subst h; constructor

/-- every `HasSig` of the specification for an operation that is a `DataflowOp` is what
    `outer_signature()` computes, up to the requirement component the relation leaves free -/
theorem outerSig_complete (op : Op) (s : Sig) (h : Spec.HasSig op s) (hd : op.isDataflowOp = true) :
    ∃ s', outerSig op = .ok s' ∧ s'.inp = s.inp ∧ s'.out = s.out := by
  cases h <;> simp [outerSig, need, isDataflowOp, Functor.map, Except.map, bind, Except.bind, pure, Except.pure] at *
  case extOpMono d p a hp hpp => simp [hp]
  case tag n sm row r hrow => simp [index_nat _ _ _ hrow, Except.map]

/-! ### the port layout -/

theorem portKind_of_outerSig_in (op : Op) (s : Sig) (n : Nat) (t : Ty)
    (hk : portKind op .inc (n : Int) = dfPortKind op .inc (n : Int))
    (hd : op.isDataflowOp = true) (hs : outerSig op = .ok s) (h : s.inp[n]? = some t) :
    portKind op .inc (n : Int) = .ok (.value t) := by
  rw [hk]
  have hn : ((n : Int) = -1) = False := by simp
  simp [dfPortKind, portType, hd, hs, sigPortType, hn, index_nat _ _ _ h, bind, Except.bind, pure, Except.pure]

theorem portKind_of_outerSig_out (op : Op) (s : Sig) (n : Nat) (t : Ty)
    (hk : portKind op .out (n : Int) = dfPortKind op .out (n : Int))
    (hd : op.isDataflowOp = true) (hs : outerSig op = .ok s) (h : s.out[n]? = some t) :
    portKind op .out (n : Int) = .ok (.value t) := by
  rw [hk]
  have hn : ((n : Int) = -1) = False := by simp
  simp [dfPortKind, portType, hd, hs, sigPortType, hn, index_nat _ _ _ h, bind, Except.bind, pure, Except.pure]


theorem natCast_ne_neg_one (n : Nat) : ((n : Int) = -1) = False := by
  simp

/-- **Layout completeness**: every port the layout of DESIGN §4.1 gives an operation is reported by
    `port_kind` with exactly that kind. -/
theorem portKind_layout (op : Op) (d : Dir) (off : Int) (k : Kind) (h : Spec.PortHasKind op d off k) :
    portKind op d off = .ok k := by
  cases h with
  | valueIn op s n t hs h =>
    cases hs <;>
      simp_all [portKind, dfPortKind, portType, isDataflowOp, outerSig, sigPortType, natCast_ne_neg_one,
        need, bind, Except.bind, pure, Except.pure, Functor.map, Except.map, index_nat]
    case call p inst a r =>
      have : n < inst.inp.length := by
        have := List.getElem?_eq_some_iff.mp h; exact this.1
      have hne : ¬ ((n : Int) = (inst.inp.length : Int)) := by omega
      simp [hne, index_nat _ _ _ h]
  | valueOut op s n t hs h =>
    cases hs <;>
      simp_all [portKind, dfPortKind, portType, isDataflowOp, outerSig, sigPortType, natCast_ne_neg_one,
        need, bind, Except.bind, pure, Except.pure, Functor.map, Except.map, index_nat]
    all_goals (cases n <;> simp_all)
  | staticIn op s k hs h =>
    cases h <;> cases hs <;> simp [portKind, natCast_ne_neg_one, need, bind, Except.bind, pure, Except.pure]
  | staticOut op k h =>
    cases h <;> simp [portKind, need, bind, Except.bind, pure, Except.pure]
  | order op d h =>
    cases op <;> cases d <;> simp_all [Spec.hasOrderPort, portKind, dfPortKind]
  | blockIn => simp [portKind]
  | blockOut => simp [portKind]
  | exitIn => simp [portKind]


/-- The computable views `staticTag`, `cfPort`, `hasOrderPort` cover every non-value port of the
    layout relation (so comparing *them* with the specification's table compares the relation). -/
theorem layout_views (op : Op) (d : Dir) (off : Int) (k : Kind) (h : Spec.PortHasKind op d off k) :
    (∀ t, k ≠ .value t) →
      (Spec.staticTag op d = some (Spec.kindTag k)) ∨ (k = .cf ∧ Spec.cfPort op d = true) ∨
      (k = .order ∧ Spec.hasOrderPort op d = true) := by
  intro hv
  cases h with
  | valueIn _ _ _ t => exact absurd rfl (hv t)
  | valueOut _ _ _ t => exact absurd rfl (hv t)
  | staticIn op s k hs h => cases h <;> simp [Spec.staticTag, Spec.kindTag]
  | staticOut op k h => cases h <;> simp [Spec.staticTag, Spec.kindTag]
  | order op d h => exact Or.inr (Or.inr ⟨rfl, h⟩)
  | blockIn => simp [Spec.cfPort]
  | blockOut => simp [Spec.cfPort]
  | exitIn => simp [Spec.cfPort]

/-! ### type of a value port = payload of its kind -/

/-- For every `DataflowOp`, in both directions. -/
theorem hugrPortType_of_kind_df (op : Op) (d : Dir) (off : Int) (t : Ty) (hd : op.isDataflowOp = true)
    (h : hugrPortKind op d off = .ok (.value t)) : hugrPortType op d off = .ok (some t) := by
  unfold hugrPortKind at h
  cases op <;> simp only [isDataflowOp, reduceCtorEq] at hd <;>
    simp only [hugrPortType, isDataflowOp, if_true] <;>
    simp only [portKind, dfPortKind] at h
  all_goals try
    (by_cases h1 : off = -1
     · simp [h1] at h
     · simp only [h1, if_false] at h
       cases hp : portType _ d off with
       | error e => simp [hp, bind, Except.bind] at h
       | ok t' => simp [hp, bind, Except.bind, pure, Except.pure] at h ⊢; exact h)
  case loadConst t? =>
    by_cases h1 : off = -1
    · simp [h1] at h
    · simp only [h1, if_false] at h
      by_cases h0 : off = 0
      · subst h0
        cases t? <;> cases d <;>
          simp_all [need, bind, Except.bind, pure, Except.pure, portType, isDataflowOp, outerSig, sigPortType,
            index, Ty.pyIndex, Functor.map, Except.map]
      · simp [h0] at h
  case loadFunc p inst a =>
    by_cases h1 : off = -1
    · simp [h1] at h
    · simp only [h1, if_false] at h
      by_cases h0 : off = 0
      · subst h0
        cases d <;>
          simp_all [bind, Except.bind, pure, Except.pure, portType, isDataflowOp, outerSig, sigPortType,
            index, Ty.pyIndex]
      · simp [h0] at h

/-- For every operation: the type `Hugr.port_type` reports for a value *output* port is the payload
    of the kind `Hugr.port_kind` reports for it. -/
theorem hugrPortType_of_kind_out (op : Op) (off : Int) (t : Ty)
    (h : hugrPortKind op .out off = .ok (.value t)) : hugrPortType op .out off = .ok (some t) := by
  by_cases hd : op.isDataflowOp = true
  · exact hugrPortType_of_kind_df op .out off t hd h
  · cases op <;> simp only [isDataflowOp, not_true_eq_false] at hd
    case call p inst a =>
      simp only [hugrPortType, isDataflowOp, Bool.false_eq_true, if_false, h, bind, Except.bind, pure, Except.pure]
    all_goals
      (simp only [hugrPortKind, portKind] at h
       try (split at h <;> simp_all [need, bind, Except.bind, pure, Except.pure])
       try (simp at h))
    all_goals (cases ‹Option (List Ty)› <;> simp [need, bind, Except.bind, pure, Except.pure] at h)

/-! ### output count -/

theorem numOut_of_outerSig (op : Op) (s : Sig) (h : outerSig op = .ok s) : numOut op = .ok s.out.length := by
  cases op <;> simp only [outerSig, reduceCtorEq] at h
  case input ts => xsimp at h; subst h; simp [numOut]
  case output ts => cases ts <;> xsimp at h; subst h; simp [numOut]
  case custom => xsimp at h; subst h; simp [numOut]
  case extOp d sg a => simp [numOut, outerSig, h, bind, Except.bind, pure, Except.pure]
  case makeTuple ts => cases ts <;> xsimp at h; subst h; simp [numOut]
  case unpackTuple ts => cases ts <;> xsimp at h; subst h; simp [numOut, need, bind, Except.bind, pure, Except.pure]
  case noop t => cases t <;> xsimp at h; subst h; simp [numOut]
  case tag t sm =>
    cases hi : index sm.rows t <;> simp [hi, Functor.map, Except.map] at h
    subst h; simp [numOut]
  case dfg i o d => cases o <;> xsimp at h; subst h; simp [numOut, need, bind, Except.bind, pure, Except.pure]
  case cfg i o => cases o <;> xsimp at h; subst h; simp [numOut, need, bind, Except.bind, pure, Except.pure]
  case loadConst t => cases t <;> xsimp at h; subst h; simp [numOut]
  case conditional sm oi o => cases o <;> xsimp at h; subst h; simp [numOut, need, bind, Except.bind, pure, Except.pure]
  case tailLoop ji rest jo d =>
    cases jo <;> xsimp at h; subst h; simp [numOut, need, bind, Except.bind, pure, Except.pure]
  case callIndirect sg => cases sg <;> xsimp at h; subst h; simp [numOut, need, bind, Except.bind, pure, Except.pure]
  case loadFunc p inst a => xsimp at h; subst h; simp [numOut]

theorem numOut_layout (op : Op) (n : Nat) (hw : Wf op)
    (hc : op.isDataflowOp = true → ∃ s, outerSig op = .ok s) (h : numOut op = .ok n) : Spec.NumOutPorts op n := by
  by_cases hd : op.isDataflowOp = true
  · obtain ⟨s, hs⟩ := hc hd
    have := numOut_of_outerSig op s hs
    rw [this] at h; cases h
    exact Spec.NumOutPorts.sig op s (outerSig_sound op s hw hs)
  · cases op <;> simp only [isDataflowOp, not_true_eq_false] at hd
    case dataflowBlock i sm oo d =>
      cases sm <;> simp [numOut, need, bind, Except.bind, pure, Except.pure] at h
      subst h; constructor
    case call p inst a =>
      simp [numOut] at h; subst h
      exact Spec.NumOutPorts.sig _ ⟨inst.inp, inst.out, []⟩ (Spec.HasSig.call p inst a [])
    all_goals (simp [numOut] at h; subst h; constructor)

/-! ### `Call` / `LoadFunc` construction -/

/-- What `_CallOrLoad.__init__` establishes. -/
def CallOK : Op → Prop
  | .call p inst a | .loadFunc p inst a =>
    if p.params.length = 0 then inst = p.body ∧ a = [] else p.params.length = a.length
  | _ => True

theorem callOrLoadInit_ok (p : Poly) (i? : Option Sig) (a? : Option (List TypeArg)) (inst : Sig) (a : List TypeArg)
    (h : callOrLoadInit p i? a? = .ok (inst, a)) :
    if p.params.length = 0 then inst = p.body ∧ a = [] else p.params.length = a.length := by
  unfold callOrLoadInit at h
  by_cases h0 : p.params.length = 0
  · simp [h0] at h ⊢; exact ⟨h.1.symm, h.2⟩
  · simp only [h0, if_false] at h ⊢
    cases i? with
    | none => simp at h
    | some i =>
      cases a? with
      | none =>
        simp only at h
        by_cases hl : p.params.length = ([] : List TypeArg).length
        · simp [hl] at h; obtain ⟨_, rfl⟩ := h; exact hl
        · exfalso; apply h0; simp at hl ⊢
          by_cases hp : p.params = []
          · simp [hp]
          · simp [hp] at h
      | some as =>
        simp only at h
        by_cases hl : p.params.length = as.length
        · simp [hl] at h; obtain ⟨_, rfl⟩ := h; exact hl
        · simp [hl] at h

theorem mkCall_ok (p : Poly) (i? : Option Sig) (a? : Option (List TypeArg)) (op : Op)
    (h : mkCall p i? a? = .ok op) : CallOK op ∧ ∃ inst a, op = .call p inst a := by
  unfold mkCall at h
  cases hc : callOrLoadInit p i? a? with
  | error e => simp [hc, bind, Except.bind] at h
  | ok r =>
    obtain ⟨inst, a⟩ := r
    simp [hc, bind, Except.bind, pure, Except.pure] at h
    subst h
    exact ⟨callOrLoadInit_ok p i? a? inst a hc, inst, a, rfl⟩

theorem mkLoadFunc_ok (p : Poly) (i? : Option Sig) (a? : Option (List TypeArg)) (op : Op)
    (h : mkLoadFunc p i? a? = .ok op) : CallOK op ∧ ∃ inst a, op = .loadFunc p inst a := by
  unfold mkLoadFunc at h
  cases hc : callOrLoadInit p i? a? with
  | error e => simp [hc, bind, Except.bind] at h
  | ok r =>
    obtain ⟨inst, a⟩ := r
    simp [hc, bind, Except.bind, pure, Except.pure] at h
    subst h
    exact ⟨callOrLoadInit_ok p i? a? inst a hc, inst, a, rfl⟩

end HugrVerif.OpProofs
