/-
  `_hierarchy_order` on a tree: the walk terminates without raising, lists every live node exactly
  once, each node after its parent and after its preceding siblings.
-/
import HugrVerif.Proofs.StoreAcyc
import HugrVerif.Proofs.SerialWalk
import Batteries.Data.List.Perm

namespace HugrVerif.Store
open Py HugrVerif

variable {Ω μ : Type}

/-! ### list helpers -/

/-- the element following the first occurrence of `c` -/
def nextIn (l : List Nat) (c : Nat) : Option Nat :=
  match l.dropWhile (· != c) with
  | _ :: b :: _ => some b
  | _ => none

/-- the elements before the first occurrence of `c` -/
def before (l : List Nat) (c : Nat) : List Nat := l.takeWhile (· != c)

theorem before_split (pre post : List Nat) (m : Nat) (h : m ∉ pre) : before (pre ++ m :: post) m = pre := by
  unfold before
  induction pre with
  | nil => simp
  | cons a t ih =>
    have ha : a ≠ m := fun e => h (by simp [e])
    have ht : m ∉ t := fun e => h (by simp [e])
    simp [List.takeWhile_cons, ha]
    simpa using ih ht

theorem before_post (pre post : List Nat) (m c : Nat) (h : c ∉ pre) (hc : c ≠ m) :
    before (pre ++ m :: post) c = pre ++ m :: before post c := by
  unfold before
  induction pre with
  | nil => simp [List.takeWhile_cons, Ne.symm hc]
  | cons a t ih =>
    have ha : a ≠ c := fun e => h (by simp [e])
    have ht : c ∉ t := fun e => h (by simp [e])
    simp [List.takeWhile_cons, ha]
    simpa using ih ht

theorem before_pre (pre post : List Nat) (c : Nat) (h : c ∈ pre) : before (pre ++ post) c = before pre c := by
  unfold before
  induction pre with
  | nil => simp at h
  | cons a t ih =>
    by_cases ha : a = c
    · simp [List.takeWhile_cons, ha]
    · have ht : c ∈ t := by rcases List.mem_cons.mp h with e | e; exact absurd e.symm ha; exact e
      simp [List.takeWhile_cons, ha]
      simpa using ih ht

theorem before_subset (l : List Nat) (c : Nat) : ∀ y ∈ before l c, y ∈ l := by
  intro y hy; exact (List.takeWhile_sublist _).subset hy

theorem nextIn_split (pre post : List Nat) (m : Nat) (h : m ∉ pre) : nextIn (pre ++ m :: post) m = post.head? := by
  unfold nextIn
  induction pre with
  | nil => cases post <;> simp [List.dropWhile_cons]
  | cons a t ih =>
    have ha : a ≠ m := fun e => h (by simp [e])
    have ht : m ∉ t := fun e => h (by simp [e])
    simp only [List.cons_append, List.dropWhile_cons, bne_iff_ne, ne_eq, ha, not_false_eq_true, if_true]
    exact ih ht

theorem nextIn_cons_ne (a c : Nat) (l : List Nat) (h : a ≠ c) : nextIn (a :: l) c = nextIn l c := by
  unfold nextIn; simp [List.dropWhile_cons, h]

theorem nextIn_cons_self (a b : Nat) (l : List Nat) : nextIn (a :: b :: l) a = some b := by
  unfold nextIn; simp [List.dropWhile_cons]

theorem nextIn_single (a c : Nat) : nextIn [a] c = none := by
  unfold nextIn
  by_cases h : a = c <;> simp [List.dropWhile_cons, h]

/-- the first element of `l` outside `acc`, with everything before it inside -/
theorem first_outside (acc : List Nat) : ∀ (l : List Nat) (c : Nat), c ∈ l → c ∉ acc →
    ∃ x, x ∈ l ∧ x ∉ acc ∧ ∀ y ∈ before l x, y ∈ acc := by
  intro l
  induction l with
  | nil => intro c h; simp at h
  | cons a t ih =>
    intro c hc hna
    by_cases ha : a ∈ acc
    · have hct : c ∈ t := by
        rcases List.mem_cons.mp hc with e | e
        · subst e; exact absurd ha hna
        · exact e
      obtain ⟨x, h1, h2, h3⟩ := ih c hct hna
      refine ⟨x, by simp [h1], h2, ?_⟩
      intro y hy
      have hax : a ≠ x := fun e => h2 (e ▸ ha)
      unfold before at hy
      simp [List.takeWhile_cons, hax] at hy
      rcases hy with e | e
      · subst e; exact ha
      · exact h3 y e
    · exact ⟨a, by simp, ha, by simp [before, List.takeWhile_cons]⟩

/-- entry of `c` after recording the siblings of a duplicate-free child list -/
theorem recordSiblings_next : ∀ (l : List Handle) (ns : Dict Nat Nat) (c : Nat),
    (l.map (·.1)).Nodup →
    Dict.get c (recordSiblings ns l) =
      if c ∈ l.map (·.1) then
        (match nextIn (l.map (·.1)) c with
         | some b => some b
         | none => Dict.get c ns)
      else Dict.get c ns := by
  intro l
  induction l with
  | nil => intro ns c _; simp [recordSiblings]
  | cons a t ih =>
    intro ns c hp
    cases t with
    | nil =>
      simp only [recordSiblings, List.map_cons, List.map_nil, List.mem_singleton, nextIn_single]
      by_cases hc : c = a.1 <;> simp [hc]
    | cons b t' =>
      simp only [recordSiblings]
      have hp' : ((b :: t').map (·.1)).Nodup := (List.nodup_cons.mp hp).2
      have hnm : a.1 ∉ (b :: t').map (·.1) := (List.nodup_cons.mp hp).1
      rw [ih _ c hp', Dict.get_set]
      by_cases hc : c = a.1
      · subst hc
        rw [if_neg hnm]
        simp only [if_true, List.map_cons, List.mem_cons, true_or, nextIn_cons_self]
      · have hmem : c ∈ (a :: b :: t').map (·.1) ↔ c ∈ (b :: t').map (·.1) := by simp [hc]
        have hne : a.1 ≠ c := fun e => hc e.symm
        have hnx : nextIn ((a :: b :: t').map (·.1)) c = nextIn ((b :: t').map (·.1)) c := by
          simp only [List.map_cons]; exact nextIn_cons_ne _ _ _ hne
        by_cases hm : c ∈ (b :: t').map (·.1)
        · simp only [hm, hmem.mpr hm, if_true, hc, if_false, hnx]
        · have hm' : c ∉ (a :: b :: t').map (·.1) := fun h => hm (hmem.mp h)
          simp only [hm, hm', if_false, hc]

/-! ### the walk on a tree -/

section Tree
variable (s : Store Ω μ)

def parentOf (c : Nat) : Option Nat :=
  match getNode s c with
  | .ok d => d.parent
  | .error _ => none

def kidsOf (p : Nat) : List Nat :=
  match getNode s p with
  | .ok d => childIdxs d
  | .error _ => []

/-- `c` may be listed next: it is live and is the root, or its parent and all its preceding
    siblings are listed -/
def ReadyAt (acc : List Nat) (c : Nat) : Prop :=
  liveN s c ∧ (parentOf s c = none ∨
    ∃ p, parentOf s c = some p ∧ p ∈ acc ∧ ∀ y ∈ before (kidsOf s p) c, y ∈ acc)

def nsSpec (acc : List Nat) (c : Nat) : Option Nat :=
  match parentOf s c with
  | some p => if p ∈ acc then nextIn (kidsOf s p) c else none
  | none => none

/-- every listed node is preceded by its parent and its preceding siblings -/
def Closed (acc : List Nat) : Prop :=
  ∀ pre x post, acc = pre ++ x :: post → ReadyAt s pre x

structure GW (ready : List Nat) (ns : Dict Nat Nat) (acc : List Nat) : Prop where
  accNd : acc.Nodup
  closed : Closed s acc
  rNd : ready.Nodup
  rmem : ∀ c, c ∈ ready ↔ c ∉ acc ∧ ReadyAt s acc c
  keys : Dict.NodupKeys ns
  nsv : ∀ c, c ∉ acc → Dict.get c ns = nsSpec s acc c

variable {s}

theorem readyAt_mono {acc acc' : List Nat} (h : ∀ x ∈ acc, x ∈ acc') {c : Nat} (hr : ReadyAt s acc c) :
    ReadyAt s acc' c := by
  obtain ⟨hl, hp⟩ := hr
  refine ⟨hl, ?_⟩
  rcases hp with hp | ⟨p, a, b, cc⟩
  · exact Or.inl hp
  · exact Or.inr ⟨p, a, h p b, fun y hy => h y (cc y hy)⟩

theorem closed_mem {acc : List Nat} (hc : Closed s acc) {x : Nat} (hx : x ∈ acc) : ReadyAt s acc x := by
  obtain ⟨pre, post, e⟩ := List.append_of_mem hx
  have := hc pre x post e
  exact readyAt_mono (by intro y hy; rw [e]; simp [hy]) this

theorem closed_snoc {acc : List Nat} (hc : Closed s acc) {m : Nat} (hm : ReadyAt s acc m) :
    Closed s (acc ++ [m]) := by
  intro pre x post e
  rcases List.append_eq_append_iff.mp e with ⟨a', h1, h2⟩ | ⟨c', h1, h2⟩
  · -- pre = acc ++ a', [m] = a' ++ x :: post
    cases a' with
    | nil =>
      simp at h2 h1
      obtain ⟨rfl, _⟩ := h2
      rw [h1]; exact hm
    | cons y ys =>
      have := congrArg List.length h2
      simp at this
  · -- acc = pre ++ c', x :: post = c' ++ [m]
    cases c' with
    | nil =>
      simp at h2 h1
      obtain ⟨rfl, _⟩ := h2
      rw [← h1]; exact hm
    | cons y ys =>
      simp only [List.cons_append, List.cons.injEq] at h2
      obtain ⟨e1, h2⟩ := h2
      subst e1
      exact hc pre x ys h1

/-! tree facts -/

theorem kids_live (hh : HierInv s) {p c : Nat} (h : c ∈ kidsOf s p) : liveN s c ∧ parentOf s c = some p := by
  unfold kidsOf at h
  cases hp : getNode s p with
  | error e => simp [hp] at h
  | ok dp =>
    simp only [hp] at h
    obtain ⟨dc, hc, hpar⟩ := hh.childParent p dp c hp h
    exact ⟨⟨dc, hc⟩, by simp [parentOf, hc, hpar]⟩

theorem parent_kid (hh : HierInv s) {p c : Nat} (h : parentOf s c = some p) : c ∈ kidsOf s p ∧ liveN s p ∧ liveN s c := by
  unfold parentOf at h
  cases hc : getNode s c with
  | error e => simp [hc] at h
  | ok dc =>
    simp only [hc] at h
    obtain ⟨dp, hp, hm⟩ := hh.parentChild c dc p hc h
    exact ⟨by simp [kidsOf, hp, hm], ⟨dp, hp⟩, ⟨dc, hc⟩⟩

theorem kids_nodup (hh : HierInv s) (p : Nat) : (kidsOf s p).Nodup := by
  unfold kidsOf
  cases hp : getNode s p with
  | error e => simp
  | ok dp => exact hh.nodup p dp hp

theorem parent_ne (ha : Acyc s) {p c : Nat} (h : parentOf s c = some p) : p ≠ c := by
  obtain ⟨depth, hd⟩ := ha
  unfold parentOf at h
  cases hc : getNode s c with
  | error e => simp [hc] at h
  | ok dc =>
    simp only [hc] at h
    intro e; subst e
    have := hd p dc p hc h
    omega

theorem root_parent (hr : RootInv s) : parentOf s s.root = none ∧ liveN s s.root := by
  obtain ⟨d, hd⟩ := hr.live
  exact ⟨by simp [parentOf, hd, hr.noParent d hd], ⟨d, hd⟩⟩

theorem only_root (hr : RootInv s) {c : Nat} (hl : liveN s c) (h : parentOf s c = none) : c = s.root := by
  obtain ⟨d, hd⟩ := hl
  simp only [parentOf, hd] at h
  exact hr.only c d hd h

theorem live_lt {c : Nat} (h : liveN s c) : c < s.nodes.length := by
  obtain ⟨d, hd⟩ := h
  have := (getNode_ok_iff s c d).mp hd
  exact (List.getElem?_eq_some_iff.mp this).1

/-- one iteration of the loop keeps the invariant -/
theorem gw_step (hh : HierInv s) (ha : Acyc s) (ready : List Nat) (ns : Dict Nat Nat) (acc : List Nat)
    (hw : GW s ready ns acc) (m : Nat) (rest : List Nat) (hp : popMin ready = some (m, rest))
    (dm : NodeData Ω μ) (hdm : getNode s m = .ok dm) :
    let ns1 := recordSiblings ns dm.children
    let ready1 := match dm.children with
      | [] => rest
      | c :: _ => c.1 :: rest
    match Dict.get m ns1 with
    | some sib => GW s (sib :: ready1) (Dict.del m ns1) (acc ++ [m])
    | none => GW s ready1 ns1 (acc ++ [m]) := by
  intro ns1 ready1
  obtain ⟨_, hperm⟩ := popMin_perm ready m rest hp
  have hmr : m ∈ ready := hperm.mem_iff.mpr (by simp)
  obtain ⟨hmacc, hmready⟩ := (hw.rmem m).mp hmr
  have hnd' : (m :: rest).Nodup := hperm.nodup_iff.mp hw.rNd
  have hmrest : m ∉ rest := (List.nodup_cons.mp hnd').1
  have hrnd : rest.Nodup := (List.nodup_cons.mp hnd').2
  have hrest : ∀ c, c ∈ rest ↔ c ∈ ready ∧ c ≠ m := by
    intro c
    rw [hperm.mem_iff]
    constructor
    · intro h; exact ⟨by simp [h], fun e => hmrest (e ▸ h)⟩
    · intro ⟨h, hne⟩; rcases List.mem_cons.mp h with e | h
      · exact absurd e hne
      · exact h
  -- children of m
  have hK : kidsOf s m = dm.children.map (·.1) := by simp [kidsOf, hdm, childIdxs]
  have hKnd : (dm.children.map (·.1)).Nodup := by rw [← hK]; exact kids_nodup hh m
  have hmK : m ∉ kidsOf s m := fun h => parent_ne ha (kids_live hh h).2 rfl
  have hKacc : ∀ c ∈ kidsOf s m, c ∉ acc ∧ c ≠ m := by
    intro c hc
    have hpc := (kids_live hh hc).2
    refine ⟨?_, fun e => hmK (e ▸ hc)⟩
    intro hin
    obtain ⟨_, hra⟩ := closed_mem hw.closed hin
    rcases hra with h | ⟨p, a, b, _⟩
    · rw [hpc] at h; cases h
    · rw [hpc] at a; injection a with a; subst a; exact hmacc b
  have hns1 : ∀ c, Dict.get c ns1 =
      if c ∈ kidsOf s m then (match nextIn (kidsOf s m) c with | some b => some b | none => Dict.get c ns)
      else Dict.get c ns := by
    intro c
    rw [hK]
    exact recordSiblings_next dm.children ns c hKnd
  have hkeys1 : Dict.NodupKeys ns1 := recordSiblings_nodup dm.children ns hw.keys
  have hgetm : Dict.get m ns1 = nsSpec s acc m := by
    rw [hns1 m]; simp only [hmK, if_false]; exact hw.nsv m hmacc
  have hready1 : ∀ c, c ∈ ready1 ↔ c ∈ rest ∨ (kidsOf s m).head? = some c := by
    intro c
    simp only [ready1]
    rw [hK]
    cases dm.children with
    | nil => simp
    | cons a t => simp [eq_comm, or_comm]
  have hsub : ∀ x ∈ acc, x ∈ acc ++ [m] := by intro x hx; simp [hx]
  -- what nsSpec says about m
  have hsibspec : ∀ c, nsSpec s acc m = some c →
      ∃ p pre post, parentOf s m = some p ∧ p ∈ acc ∧ kidsOf s p = pre ++ m :: c :: post ∧
        m ∉ pre ∧ (∀ y ∈ pre, y ∈ acc) := by
    intro c hc
    unfold nsSpec at hc
    cases hpm : parentOf s m with
    | none => simp [hpm] at hc
    | some p =>
      simp only [hpm] at hc
      by_cases hpa : p ∈ acc
      · simp only [hpa, if_true] at hc
        have hmk := (parent_kid hh hpm).1
        obtain ⟨pre, post, e⟩ := List.append_of_mem hmk
        have hnd := kids_nodup hh p
        rw [e] at hnd
        have hmpre : m ∉ pre := by
          intro h
          have := (List.nodup_append.mp hnd).2.2 m h m (by simp)
          exact this rfl
        rw [e, nextIn_split pre post m hmpre] at hc
        cases post with
        | nil => simp at hc
        | cons x post' =>
          simp at hc; subst hc
          refine ⟨p, pre, post', rfl, hpa, e, hmpre, ?_⟩
          rcases hmready.2 with h | ⟨p', a, _, cc⟩
          · rw [hpm] at h; cases h
          · rw [hpm] at a; injection a with a; subst a
            rw [e, before_split pre _ m hmpre] at cc
            exact cc
      · simp [hpa] at hc
  -- membership in the new ready list
  have hcore : ∀ c, (c ∉ acc ++ [m] ∧ ReadyAt s (acc ++ [m]) c) ↔
      (c ∈ rest ∨ (kidsOf s m).head? = some c ∨ nsSpec s acc m = some c) := by
    intro c
    constructor
    · rintro ⟨hnin, hl, hpar⟩
      have hcacc : c ∉ acc := fun h => hnin (by simp [h])
      have hcm : c ≠ m := fun h => hnin (by simp [h])
      rcases hpar with hnone | ⟨p, hpc, hpin, hbef⟩
      · left
        exact (hrest c).mpr ⟨(hw.rmem c).mpr ⟨hcacc, hl, Or.inl hnone⟩, hcm⟩
      · by_cases hpm : p = m
        · subst hpm
          right; left
          have hck := (parent_kid hh hpc).1
          cases hk : kidsOf s p with
          | nil => rw [hk] at hck; simp at hck
          | cons a t =>
            by_cases hac : a = c
            · simp [hac]
            · exfalso
              have hab : a ∈ before (kidsOf s p) c := by
                rw [hk]; simp [before, hac]
              have := hbef a hab
              have hak : a ∈ kidsOf s p := by rw [hk]; simp
              obtain ⟨h1, h2⟩ := hKacc a hak
              rcases List.mem_append.mp this with h | h
              · exact h1 h
              · simp at h; exact h2 h
        · have hpacc : p ∈ acc := by
            rcases List.mem_append.mp hpin with h | h
            · exact h
            · simp at h; exact absurd h hpm
          by_cases hmb : m ∈ before (kidsOf s p) c
          · right; right
            have hmk : m ∈ kidsOf s p := before_subset _ _ m hmb
            have hpm' := (kids_live hh hmk).2
            obtain ⟨pre, post, e⟩ := List.append_of_mem hmk
            have hnd := kids_nodup hh p
            rw [e] at hnd
            have hmpre : m ∉ pre := by
              intro h
              exact (List.nodup_append.mp hnd).2.2 m h m (by simp) rfl
            have hmpost : m ∉ post := by
              have := (List.nodup_append.mp hnd).2.1
              exact (List.nodup_cons.mp this).1
            have hck := (parent_kid hh hpc).1
            rw [e] at hck hmb hbef
            have hcpre : c ∉ pre := by
              intro h
              rw [before_pre pre (m :: post) c h] at hmb
              exact hmpre (before_subset _ _ m hmb)
            have hcpost : c ∈ post := by
              rcases List.mem_append.mp hck with h | h
              · exact absurd h hcpre
              · rcases List.mem_cons.mp h with h | h
                · exact absurd h hcm
                · exact h
            rw [before_post pre post m c hcpre hcm] at hbef
            cases post with
            | nil => simp at hcpost
            | cons x post' =>
              have hxc : x = c := by
                apply Classical.byContradiction
                intro hxc
                have hxb : x ∈ before (x :: post') c := by simp [before, hxc]
                have hxin := hbef x (by simp [hxb])
                have hxm : x ≠ m := fun h => hmpost (by simp [h])
                have hxacc : x ∈ acc := by
                  rcases List.mem_append.mp hxin with h | h
                  · exact h
                  · simp at h; exact absurd h hxm
                have hxk : x ∈ kidsOf s p := by rw [e]; simp
                have hxp := (kids_live hh hxk).2
                obtain ⟨_, hrx⟩ := closed_mem hw.closed hxacc
                rcases hrx with h | ⟨p', a, _, cc⟩
                · rw [hxp] at h; cases h
                · rw [hxp] at a; injection a with a; subst a
                  have hxpre : x ∉ pre := by
                    intro h
                    exact (List.nodup_append.mp hnd).2.2 x h x (by simp) rfl
                  rw [e, before_post pre (x :: post') m x hxpre hxm] at cc
                  exact hmacc (cc m (by simp))
              subst hxc
              unfold nsSpec
              simp only [hpm', hpacc, if_true]
              rw [e, nextIn_split pre _ m hmpre]; rfl
          · left
            refine (hrest c).mpr ⟨(hw.rmem c).mpr ⟨hcacc, hl, Or.inr ⟨p, hpc, hpacc, ?_⟩⟩, hcm⟩
            intro y hy
            rcases List.mem_append.mp (hbef y hy) with h | h
            · exact h
            · simp at h; subst h; exact absurd hy hmb
    · rintro (h | h | h)
      · obtain ⟨hr', hne⟩ := (hrest c).mp h
        obtain ⟨h1, h2⟩ := (hw.rmem c).mp hr'
        refine ⟨?_, readyAt_mono hsub h2⟩
        intro hin
        rcases List.mem_append.mp hin with h | h
        · exact h1 h
        · simp at h; exact hne h
      · have hck : c ∈ kidsOf s m := List.mem_of_mem_head? h
        obtain ⟨hl, hpc⟩ := kids_live hh hck
        obtain ⟨h1, h2⟩ := hKacc c hck
        refine ⟨?_, hl, Or.inr ⟨m, hpc, by simp, ?_⟩⟩
        · intro hin
          rcases List.mem_append.mp hin with h | h
          · exact h1 h
          · simp at h; exact h2 h
        · intro y hy
          cases hk : kidsOf s m with
          | nil => rw [hk] at hck; simp at hck
          | cons a t =>
            rw [hk] at h hy
            simp at h; subst h
            simp [before] at hy
      · obtain ⟨p, pre, post, hpm, hpacc, e, hmpre, hpre⟩ := hsibspec c h
        have hnd := kids_nodup hh p
        rw [e] at hnd
        have hck : c ∈ kidsOf s p := by rw [e]; simp
        obtain ⟨hl, hpc⟩ := kids_live hh hck
        have hcm : c ≠ m := by
          intro h
          have := (List.nodup_append.mp hnd).2.1
          have := (List.nodup_cons.mp this).1
          exact this (by simp [h])
        have hcpre : c ∉ pre := by
          intro h
          exact (List.nodup_append.mp hnd).2.2 c h c (by simp) rfl
        have hbc : before (kidsOf s p) c = pre ++ [m] := by
          rw [e, before_post pre (c :: post) m c hcpre hcm]
          simp [before]
        refine ⟨?_, hl, Or.inr ⟨p, hpc, by simp [hpacc], ?_⟩⟩
        · intro hin
          rcases List.mem_append.mp hin with h | h
          · obtain ⟨_, hrc⟩ := closed_mem hw.closed h
            rcases hrc with h' | ⟨p', a, _, cc⟩
            · rw [hpc] at h'; cases h'
            · rw [hpc] at a; injection a with a; subst a
              rw [hbc] at cc
              exact hmacc (cc m (by simp))
          · simp at h; exact hcm h
        · intro y hy
          rw [hbc] at hy
          rcases List.mem_append.mp hy with h | h
          · simp [hpre y h]
          · simp at h; simp [h]
  -- nodup of the first-child extension
  have hnd1 : ready1.Nodup := by
    simp only [ready1]
    cases hcs : dm.children with
    | nil => exact hrnd
    | cons a t =>
      simp only
      refine List.nodup_cons.mpr ⟨?_, hrnd⟩
      intro hin
      have hak : a.1 ∈ kidsOf s m := by rw [hK, hcs]; simp
      have hpa := (kids_live hh hak).2
      obtain ⟨_, _, hra⟩ := (hw.rmem a.1).mp ((hrest a.1).mp hin).1
      rcases hra with h | ⟨p, a', b, _⟩
      · rw [hpa] at h; cases h
      · rw [hpa] at a'; injection a' with a'; subst a'; exact hmacc b
  have hclosed : Closed s (acc ++ [m]) := closed_snoc hw.closed hmready
  have haccnd : (acc ++ [m]).Nodup := by
    refine List.nodup_append.mpr ⟨hw.accNd, by simp, ?_⟩
    intro x hx y hy e
    simp at hy; subst hy; subst e; exact hmacc hx
  have hnsv : ∀ (ns2 : Dict Nat Nat), (∀ c, c ≠ m → Dict.get c ns2 = Dict.get c ns1) →
      ∀ c, c ∉ acc ++ [m] → Dict.get c ns2 = nsSpec s (acc ++ [m]) c := by
    intro ns2 h2 c hc
    have hcacc : c ∉ acc := fun h => hc (by simp [h])
    have hcm : c ≠ m := fun h => hc (by simp [h])
    rw [h2 c hcm, hns1 c, hw.nsv c hcacc]
    unfold nsSpec
    by_cases hck : c ∈ kidsOf s m
    · have hpc := (kids_live hh hck).2
      simp only [hck, if_true, hpc, hmacc, if_false, List.mem_append, List.mem_singleton, or_true]
      cases nextIn (kidsOf s m) c <;> rfl
    · simp only [hck, if_false]
      cases hpc : parentOf s c with
      | none => rfl
      | some p =>
        have hpm : p ≠ m := by
          intro e; subst e
          exact hck (parent_kid hh hpc).1
        simp only [List.mem_append, List.mem_singleton, hpm, or_false]
  rw [hgetm]
  cases hs : nsSpec s acc m with
  | none =>
    simp only
    refine ⟨haccnd, hclosed, hnd1, ?_, hkeys1, hnsv _ (fun _ _ => rfl)⟩
    intro c
    rw [hcore c, hready1 c, hs]; simp
  | some sib =>
    simp only
    obtain ⟨p, pre, post, hpm, hpacc, e, hmpre, hpre⟩ := hsibspec sib hs
    have hnd := kids_nodup hh p
    rw [e] at hnd
    have hsk : sib ∈ kidsOf s p := by rw [e]; simp
    have hps := (kids_live hh hsk).2
    refine ⟨haccnd, hclosed, ?_, ?_, Dict.nodup_del _ _ hkeys1, hnsv _ ?_⟩
    · refine List.nodup_cons.mpr ⟨?_, hnd1⟩
      intro hin
      rcases (hready1 sib).mp hin with hin | hin
      · obtain ⟨_, _, hrs⟩ := (hw.rmem sib).mp ((hrest sib).mp hin).1
        have hspre : sib ∉ pre := by
          intro h
          exact (List.nodup_append.mp hnd).2.2 sib h sib (by simp) rfl
        have hsm : sib ≠ m := by
          intro h
          have := (List.nodup_append.mp hnd).2.1
          exact (List.nodup_cons.mp this).1 (by simp [h])
        rcases hrs with h | ⟨p', a, _, cc⟩
        · rw [hps] at h; cases h
        · rw [hps] at a; injection a with a; subst a
          rw [e, before_post pre (sib :: post) m sib hspre hsm] at cc
          exact hmacc (cc m (by simp))
      · have hsk' : sib ∈ kidsOf s m := List.mem_of_mem_head? hin
        have := (kids_live hh hsk').2
        rw [hps] at this; injection this with this
        subst this
        exact parent_ne ha hpm rfl
    · intro c
      rw [hcore c, hs, List.mem_cons, hready1 c]
      constructor
      · rintro (h | h | h)
        · exact Or.inr (Or.inr (by rw [h]))
        · exact Or.inl h
        · exact Or.inr (Or.inl h)
      · rintro (h | h | h)
        · exact Or.inr (Or.inl h)
        · exact Or.inr (Or.inr h)
        · exact Or.inl (Option.some.inj h).symm
    · intro c hc
      rw [Dict.get_del _ _ _ hkeys1]
      simp [hc]

theorem nodup_live_length {acc : List Nat} (hnd : acc.Nodup) (hl : ∀ x ∈ acc, liveN s x) :
    acc.length ≤ s.nodes.length := by
  have hsub : acc ⊆ List.range s.nodes.length := by
    intro x hx; exact List.mem_range.mpr (live_lt (hl x hx))
  have := (List.subperm_of_subset hnd hsub).length_le
  simpa using this

/-- when nothing is ready, everything is listed -/
theorem gw_done (hh : HierInv s) (ha : Acyc s) (ns : Dict Nat Nat) (acc : List Nat) (hw : GW s [] ns acc) :
    ∀ c, liveN s c → c ∈ acc := by
  obtain ⟨depth, hd⟩ := ha
  have key : ∀ n c, depth c = n → liveN s c → c ∈ acc := by
    intro n
    induction n using Nat.strongRecOn with
    | _ n ih =>
      intro c hn hl
      apply Classical.byContradiction
      intro hc
      cases hpc : parentOf s c with
      | none =>
        have := (hw.rmem c).mpr ⟨hc, hl, Or.inl hpc⟩
        simp at this
      | some p =>
        obtain ⟨hck, hlp, _⟩ := parent_kid hh hpc
        have hdp : depth p < depth c := by
          obtain ⟨dc, hdc⟩ := hl
          have : dc.parent = some p := by simpa [parentOf, hdc] using hpc
          exact hd c dc p hdc this
        have hpacc : p ∈ acc := ih (depth p) (by omega) p rfl hlp
        obtain ⟨x, hx1, hx2, hx3⟩ := first_outside acc (kidsOf s p) c hck hc
        obtain ⟨hlx, hpx⟩ := kids_live hh hx1
        have := (hw.rmem x).mpr ⟨hx2, hlx, Or.inr ⟨p, hpx, hpacc, hx3⟩⟩
        simp at this
  intro c hl
  exact key (depth c) c rfl hl

/-- **The walk on a tree**: it does not raise, and lists every live node exactly once, each after
    its parent and its preceding siblings. -/
theorem hierLoop_tree (hh : HierInv s) (ha : Acyc s) : ∀ (fuel : Nat) (ready : List Nat) (ns : Dict Nat Nat)
    (acc : List Nat), GW s ready ns acc → s.nodes.length + 1 ≤ acc.length + fuel →
    ∃ order, hierLoop s fuel ready ns acc = .ok order ∧ order.Nodup ∧ Closed s order ∧
      (∀ c, liveN s c → c ∈ order) := by
  intro fuel
  induction fuel with
  | zero =>
    intro ready ns acc hw hf
    have := nodup_live_length hw.accNd (fun x hx => (closed_mem hw.closed hx).1)
    omega
  | succ f ih =>
    intro ready ns acc hw hf
    unfold hierLoop
    cases hp : popMin ready with
    | none =>
      have : ready = [] := (popMin_none ready).mp hp
      subst this
      exact ⟨acc, rfl, hw.accNd, hw.closed, gw_done hh ha ns acc hw⟩
    | some r =>
      obtain ⟨m, rest⟩ := r
      obtain ⟨_, hperm⟩ := popMin_perm ready m rest hp
      have hmr : m ∈ ready := hperm.mem_iff.mpr (by simp)
      obtain ⟨_, ⟨dm, hdm⟩, _⟩ := (hw.rmem m).mp hmr
      have hstep := gw_step hh ha ready ns acc hw m rest hp dm hdm
      simp only [hdm]
      simp only at hstep
      have hlen : s.nodes.length + 1 ≤ (acc ++ [m]).length + f := by simp; omega
      cases hg : Dict.get m (recordSiblings ns dm.children) with
      | none =>
        rw [hg] at hstep
        exact ih _ _ _ hstep hlen
      | some sib =>
        rw [hg] at hstep
        exact ih _ _ _ hstep hlen

theorem gw_init (hr : RootInv s) : GW s [s.root] [] [] := by
  obtain ⟨hpr, hlr⟩ := root_parent hr
  refine ⟨by simp, ?_, by simp, ?_, by simp [Dict.NodupKeys, Dict.keys], ?_⟩
  · intro pre x post e
    have := congrArg List.length e
    simp at this
  · intro c
    simp only [List.mem_singleton, List.not_mem_nil, not_false_eq_true, true_and]
    constructor
    · intro h; subst h; exact ⟨hlr, Or.inl hpr⟩
    · rintro ⟨hl, h | ⟨p, _, hp, _⟩⟩
      · exact only_root hr hl h
      · simp at hp
  · intro c _
    unfold nsSpec
    cases parentOf s c <;> simp [Dict.get]

/-- **`_hierarchy_order()` of a tree-shaped store**: returns normally a duplicate-free list of
    exactly the live nodes, root first, each node after its parent and its preceding siblings. -/
theorem hierarchyOrder_tree (hh : HierInv s) (hr : RootInv s) (ha : Acyc s) :
    ∃ order, hierLoop s (s.nodes.length + 1) [s.root] [] [] = .ok order ∧
      hierarchyOrder s = .ok order ∧ order.Nodup ∧ Closed s order ∧ (∀ c, c ∈ order ↔ liveN s c) := by
  obtain ⟨order, h1, h2, h3, h4⟩ := hierLoop_tree hh ha (s.nodes.length + 1) [s.root] [] [] (gw_init hr) (by simp)
  refine ⟨order, h1, ?_, h2, h3, fun c => ⟨fun hc => (closed_mem h3 hc).1, h4 c⟩⟩
  unfold hierarchyOrder
  rw [h1]
  have : (liveNodes s).filter (fun i => !order.contains i) = [] := by
    apply List.filter_eq_nil_iff.mpr
    intro i hi
    have hl : liveN s i := by
      unfold liveNodes at hi
      have := (List.mem_filter.mp hi).2
      unfold liveN
      cases hn : s.nodes[i]? with
      | none => simp [hn] at this
      | some o =>
        cases o with
        | none => simp [hn] at this
        | some d => exact ⟨d, (getNode_ok_iff s i d).mpr hn⟩
    simp [h4 i hl]
  simp only [this, List.append_nil]

end Tree

end HugrVerif.Store
