/-
  Lemmas about the type layer (`HugrVerif/Tys.lean`): induction principles with membership
  hypotheses, the join of bounds, `type_bound` against the independent specification
  `AllCopyable`, exact characterisation of when `type_bound` raises.
  The codec lemmas (round trip) are in `Proofs/TysCodec.lean`.
-/
import HugrVerif.Tys

set_option linter.unusedSectionVars false

namespace HugrVerif

/-! ### induction principles (membership form) -/

namespace TypeParam

section
variable {P : TypeParam → Prop}
  (type : ∀ b, P (.type b)) (boundedNat : ∀ ub, P (.boundedNat ub)) (string : P .string)
  (list : ∀ p, P p → P (.list p)) (tuple : ∀ ps, (∀ p ∈ ps, P p) → P (.tuple ps))
  (extensions : P .extensions)
include type boundedNat string list tuple extensions

mutual
  theorem induct : ∀ p, P p
    | .type b => type b
    | .boundedNat ub => boundedNat ub
    | .string => string
    | .list p => list p (induct p)
    | .tuple ps => tuple ps (induct_list ps)
    | .extensions => extensions
  theorem induct_list : ∀ ps : List TypeParam, ∀ p ∈ ps, P p
    | [] => fun _ h => nomatch h
    | q :: qs => fun p h => (List.mem_cons.1 h).elim (fun e => e ▸ induct q) (fun h' => induct_list qs p h')
end
end

end TypeParam

namespace Ty

section
variable {P : Ty → Prop} {PA : TypeArg → Prop}
  (h_sum : ∀ rows, (∀ r ∈ rows, ∀ t ∈ r, P t) → P (.sum rows))
  (h_unitSum : ∀ n, P (.unitSum n))
  (h_variable : ∀ i b, P (.variable i b))
  (h_rowVariable : ∀ i b, P (.rowVariable i b))
  (h_usize : P .usize)
  (h_alias : ∀ n b, P (.alias n b))
  (h_function : ∀ i o r, (∀ t ∈ i, P t) → (∀ t ∈ o, P t) → P (.function i o r))
  (h_poly : ∀ ps i o r, (∀ t ∈ i, P t) → (∀ t ∈ o, P t) → P (.poly ps i o r))
  (h_extType : ∀ d args, (∀ a ∈ args, PA a) → P (.extType d args))
  (h_opaque : ∀ id b args e, (∀ a ∈ args, PA a) → P (.opaque id b args e))
  (h_qubit : P .qubit)
  (h_atype : ∀ t, P t → PA (.type t))
  (h_anat : ∀ n, PA (.boundedNat n))
  (h_astr : ∀ s, PA (.string s))
  (h_aseq : ∀ es, (∀ a ∈ es, PA a) → PA (.sequence es))
  (h_aexts : ∀ es, PA (.extensions es))
  (h_avar : ∀ i p, PA (.variable i p))
include h_sum h_unitSum h_variable h_rowVariable h_usize h_alias h_function h_poly h_extType h_opaque h_qubit h_atype h_anat h_astr h_aseq h_aexts h_avar

mutual
  theorem induct_ty : ∀ t, P t
    | .sum rows => h_sum rows (induct_rows rows)
    | .unitSum n => h_unitSum n
    | .variable i b => h_variable i b
    | .rowVariable i b => h_rowVariable i b
    | .usize => h_usize
    | .alias n b => h_alias n b
    | .function i o r => h_function i o r (induct_row i) (induct_row o)
    | .poly ps i o r => h_poly ps i o r (induct_row i) (induct_row o)
    | .extType d args => h_extType d args (induct_args args)
    | .opaque id b args e => h_opaque id b args e (induct_args args)
    | .qubit => h_qubit
  theorem induct_row : ∀ ts : List Ty, ∀ t ∈ ts, P t
    | [] => fun _ h => nomatch h
    | u :: us => fun t h => (List.mem_cons.1 h).elim (fun e => e ▸ induct_ty u) (fun h' => induct_row us t h')
  theorem induct_rows : ∀ rows : List (List Ty), ∀ r ∈ rows, ∀ t ∈ r, P t
    | [] => fun _ h => nomatch h
    | q :: qs => fun r h => (List.mem_cons.1 h).elim (fun e => e ▸ induct_row q) (fun h' => induct_rows qs r h')
  theorem induct_arg : ∀ a, PA a
    | .type t => h_atype t (induct_ty t)
    | .boundedNat n => h_anat n
    | .string s => h_astr s
    | .sequence es => h_aseq es (induct_args es)
    | .extensions es => h_aexts es
    | .variable i p => h_avar i p
  theorem induct_args : ∀ as : List TypeArg, ∀ a ∈ as, PA a
    | [] => fun _ h => nomatch h
    | b :: bs => fun a h => (List.mem_cons.1 h).elim (fun e => e ▸ induct_arg b) (fun h' => induct_args bs a h')
end
end

end Ty

/-! ### the join of bounds -/

namespace Bound

/-- the order `Copyable ≤ Any` -/
def le : Bound → Bound → Prop
  | .any, .copyable => False
  | _, _ => True

theorem join_go_copyable_iff (res : Bound) (bs : List Bound) :
    join.go res bs = .copyable ↔ res = .copyable ∧ ∀ b ∈ bs, b = .copyable := by
  induction bs generalizing res with
  | nil => simp [join.go]
  | cons b rest ih =>
    cases b <;> cases res <;> simp [join.go, ih]

/-- The join is `Copyable` exactly when every joined bound is (so the empty join is `Copyable`). -/
theorem join_eq_copyable_iff (bs : List Bound) :
    join bs = .copyable ↔ ∀ b ∈ bs, b = .copyable := by
  simp [join, join_go_copyable_iff]

theorem join_eq_any_iff (bs : List Bound) : join bs = .any ↔ ∃ b ∈ bs, b = .any := by
  have h := join_eq_copyable_iff bs
  constructor
  · intro ha
    apply Classical.byContradiction
    intro hn
    have : ∀ b ∈ bs, b = .copyable := by
      intro b hb
      cases b with
      | copyable => rfl
      | any => exact absurd ⟨_, hb, rfl⟩ hn
    rw [h.2 this] at ha
    cases ha
  · rintro ⟨b, hb, rfl⟩
    cases hj : join bs with
    | any => rfl
    | copyable => exact absurd (h.1 hj _ hb) (by decide)

theorem join_nil : join [] = .copyable := rfl

theorem join_singleton (b : Bound) : join [b] = b := by cases b <;> rfl

/-- The join is the least upper bound of the joined bounds. -/
theorem join_is_lub (bs : List Bound) :
    (∀ b ∈ bs, le b (join bs)) ∧ ∀ u, (∀ b ∈ bs, le b u) → le (join bs) u := by
  constructor
  · intro b hb
    cases b with
    | copyable => cases join bs <;> trivial
    | any => rw [(join_eq_any_iff bs).2 ⟨_, hb, rfl⟩]; trivial
  · intro u hu
    cases u with
    | any => cases join bs <;> trivial
    | copyable =>
      have : ∀ b ∈ bs, b = .copyable := by
        intro b hb
        have := hu b hb
        cases b with
        | copyable => rfl
        | any => exact this.elim
      rw [(join_eq_copyable_iff bs).2 this]; trivial

end Bound


/-! ### `List.mapM` in `Except` -/

namespace ExceptList
variable {ε α β : Type}

theorem mapM_nil (f : α → Except ε β) : ([] : List α).mapM f = .ok [] := rfl

theorem mapM_cons (f : α → Except ε β) (x : α) (l : List α) :
    (x :: l).mapM f = (match f x with
      | .error e => .error e
      | .ok y => match l.mapM f with
        | .error e => .error e
        | .ok ys => .ok (y :: ys)) := by
  rw [List.mapM_cons]
  cases f x <;> simp only [bind, Except.bind, pure, Except.pure]
  cases l.mapM f <;> rfl

theorem mapM_ok_cons_iff (f : α → Except ε β) (x : α) (l : List α) (zs : List β) :
    (x :: l).mapM f = .ok zs ↔ ∃ y ys, f x = .ok y ∧ l.mapM f = .ok ys ∧ zs = y :: ys := by
  rw [mapM_cons]
  cases f x with
  | error e => simp
  | ok y =>
    cases l.mapM f with
    | error e => simp
    | ok ys => simp [eq_comm]

theorem mapM_ok_mem (f : α → Except ε β) : ∀ (l : List α) (ys : List β), l.mapM f = .ok ys →
    ∀ y, y ∈ ys ↔ ∃ x ∈ l, f x = .ok y
  | [], ys, h => by cases h; simp
  | x :: l, zs, h => by
    obtain ⟨y, ys, h1, h2, rfl⟩ := (mapM_ok_cons_iff f x l zs).1 h
    intro y'
    have ih := mapM_ok_mem f l ys h2 y'
    simp only [List.mem_cons, ih]
    constructor
    · rintro (rfl | ⟨x', hx', h'⟩)
      · exact ⟨x, Or.inl rfl, h1⟩
      · exact ⟨x', Or.inr hx', h'⟩
    · rintro ⟨x', (rfl | hx'), h'⟩
      · rw [h1] at h'; cases h'; exact Or.inl rfl
      · exact Or.inr ⟨x', hx', h'⟩

theorem mapM_ok_all (f : α → Except ε β) : ∀ (l : List α) (ys : List β), l.mapM f = .ok ys →
    ∀ x ∈ l, ∃ y, f x = .ok y
  | [], _, _ => fun _ h => nomatch h
  | x :: l, zs, h => by
    obtain ⟨y, ys, h1, h2, rfl⟩ := (mapM_ok_cons_iff f x l zs).1 h
    intro x' hx'
    rcases List.mem_cons.1 hx' with rfl | hx'
    · exact ⟨y, h1⟩
    · exact mapM_ok_all f l ys h2 x' hx'

theorem mapM_error_iff (f : α → Except ε β) : ∀ (l : List α),
    (∃ e, l.mapM f = .error e) ↔ ∃ x ∈ l, ∃ e, f x = .error e
  | [] => ⟨fun ⟨_, he⟩ => (nomatch he), fun ⟨_, hx, _⟩ => (nomatch hx)⟩
  | x :: l => by
    have ih := mapM_error_iff f l
    rw [mapM_cons]
    cases hx : f x with
    | error e => simp only [List.mem_cons]; exact ⟨fun _ => ⟨x, Or.inl rfl, e, hx⟩, fun _ => ⟨e, rfl⟩⟩
    | ok y =>
      cases hl : l.mapM f with
      | error e =>
        have := ih.1 ⟨e, hl⟩
        obtain ⟨x', hx', e', he'⟩ := this
        simp only [List.mem_cons]
        exact ⟨fun _ => ⟨x', Or.inr hx', e', he'⟩, fun _ => ⟨e, rfl⟩⟩
      | ok ys =>
        simp only [List.mem_cons]
        constructor
        · rintro ⟨e, he⟩; cases he
        · rintro ⟨x', (rfl | hx'), e', he'⟩
          · rw [hx] at he'; cases he'
          · have := ih.2 ⟨x', hx', e', he'⟩
            rw [hl] at this
            obtain ⟨e, he⟩ := this
            cases he

/-- an `Except` value is `ok` or `error` -/
theorem ok_or_error (x : Except ε β) : (∃ y, x = .ok y) ∨ ∃ e, x = .error e := by
  cases x with
  | ok y => exact Or.inl ⟨y, rfl⟩
  | error e => exact Or.inr ⟨e, rfl⟩

end ExceptList

/-! ### `type_bound` against the specification -/

namespace Ty

/-- **Specification** (written from the property text, not from the code): all constituents of
    the type can be copied.  For an extension type whose definition computes the bound from its
    parameters, the constituents are the *type* arguments at the positions the definition names
    (`pyIndex`: Python indexing; a position naming no argument or a non-type argument contributes
    nothing). -/
inductive AllCopyable : Ty → Prop
  | sum (rows) : (∀ r ∈ rows, ∀ t ∈ r, AllCopyable t) → AllCopyable (.sum rows)
  | unitSum (n) : AllCopyable (.unitSum n)
  | variable (i) : AllCopyable (.variable i .copyable)
  | rowVariable (i) : AllCopyable (.rowVariable i .copyable)
  | usize : AllCopyable .usize
  | alias (n) : AllCopyable (.alias n .copyable)
  | function (i o r) : AllCopyable (.function i o r)
  | poly (ps i o r) : AllCopyable (.poly ps i o r)
  | extExplicit (d args) : d.bound = .explicit .copyable → AllCopyable (.extType d args)
  | extFromParams (d args idxs) : d.bound = .fromParams idxs →
      (∀ i ∈ idxs, ∀ t, pyIndex args i = some (.type t) → AllCopyable t) → AllCopyable (.extType d args)
  | opaque (id args e) : AllCopyable (.opaque id .copyable args e)

/-- **Specification** of when computing the bound raises `IndexError`: the computation reaches an
    extension type whose definition names a position outside its argument list.  Function types,
    opaque types etc. do not look at their components, and only *named* type arguments are
    inspected. -/
inductive Raises : Ty → Prop
  | sum (rows r t) : r ∈ rows → t ∈ r → Raises t → Raises (.sum rows)
  | extOutOfRange (d args idxs i) : d.bound = .fromParams idxs → i ∈ idxs → pyIndex args i = none →
      Raises (.extType d args)
  | extNested (d args idxs i t) : d.bound = .fromParams idxs → i ∈ idxs → pyIndex args i = some (.type t) →
      Raises t → Raises (.extType d args)

/-! Python indexing -/

theorem pyIndex_nonneg {α} (l : List α) (n : Nat) : pyIndex l (n : Int) = l[n]? := by
  simp [pyIndex]

theorem pyIndex_neg {α} (l : List α) (n : Nat) (h : 0 < n) :
    pyIndex l (-(n : Int)) = if n ≤ l.length then l[l.length - n]? else none := by
  unfold pyIndex
  have h1 : ¬ (0 : Int) ≤ -(n : Int) := by omega
  simp only [h1, if_false]
  by_cases h2 : n ≤ l.length
  · have : -(l.length : Int) ≤ -(n : Int) := by omega
    simp only [this, h2, if_true]
    congr 1
    omega
  · have : ¬ -(l.length : Int) ≤ -(n : Int) := by omega
    simp [this, h2]

theorem pyIndex_eq_none_iff {α} (l : List α) (i : Int) :
    pyIndex l i = none ↔ (l.length : Int) ≤ i ∨ i < -(l.length : Int) := by
  unfold pyIndex
  by_cases h0 : 0 ≤ i
  · simp only [h0, if_true, List.getElem?_eq_none_iff]
    omega
  · simp only [h0, if_false]
    by_cases h1 : -(l.length : Int) ≤ i
    · simp only [h1, if_true, List.getElem?_eq_none_iff]
      omega
    · simp only [h1, if_false, true_iff]
      omega

theorem pyIndex_map {α β} (f : α → β) (l : List α) (i : Int) :
    pyIndex (l.map f) i = (pyIndex l i).map f := by
  unfold pyIndex
  simp only [List.length_map, List.getElem?_map]
  split
  · rfl
  · split <;> rfl

theorem pyIndex_mem {α} (l : List α) (i : Int) (a : α) (h : pyIndex l i = some a) : a ∈ l := by
  unfold pyIndex at h
  split at h
  · exact List.mem_of_getElem? h
  · split at h
    · exact List.mem_of_getElem? h
    · cases h

/-- what `ExtType.type_bound` does with one argument -/
def argBound : TypeArg → Option (Except BErr Bound)
  | .type t => some (bound t)
  | _ => none

theorem boundArgs_eq_map (args : List TypeArg) : boundArgs args = args.map argBound := by
  induction args with
  | nil => simp [boundArgs]
  | cons a as ih => cases a <;> simp [boundArgs, argBound, ih]

/-- one step of the loop over the index list -/
def pick (bs : List (Option (Except BErr Bound))) (i : Int) : Except BErr (Option Bound) :=
  match pyIndex bs i with
  | some none => pure none
  | some (some (.ok b)) => pure (some b)
  | some (some (.error e)) => throw e
  | none => throw BErr.indexError

theorem bound_extType_explicit (d : TypeDefRef) (args : List TypeArg) (b : Bound)
    (h : d.bound = .explicit b) : bound (.extType d args) = .ok b := by
  simp [bound, h, pure, Except.pure]

theorem bound_extType_fromParams (d : TypeDefRef) (args : List TypeArg) (idxs : List Int)
    (h : d.bound = .fromParams idxs) :
    bound (.extType d args) =
      (idxs.mapM (pick (args.map argBound))).map (fun picked => Bound.join (picked.filterMap id)) := by
  rw [bound]
  simp only [h, boundArgs_eq_map]
  have : (fun i => pick (args.map argBound) i) = pick (args.map argBound) := rfl
  simp only [bind, pure, Except.bind, Except.pure, Except.map]
  unfold pick
  rfl


theorem boundRow_eq_mapM (ts : List Ty) : boundRow ts = ts.mapM bound := by
  induction ts with
  | nil => rfl
  | cons t ts ih =>
    rw [boundRow, ih, ExceptList.mapM_cons]
    cases bound t <;> simp only [bind, Except.bind, pure, Except.pure]
    cases ts.mapM bound <;> rfl

theorem boundRows_eq_mapM (rows : List (List Ty)) :
    boundRows rows = (rows.mapM boundRow).map List.flatten := by
  induction rows with
  | nil => rfl
  | cons r rows ih =>
    rw [boundRows, ih, ExceptList.mapM_cons]
    cases boundRow r <;> simp only [bind, Except.bind, pure, Except.pure, Except.map]
    cases rows.mapM boundRow <;> simp

theorem bound_sum (rows : List (List Ty)) :
    bound (.sum rows) = (boundRows rows).map Bound.join := by
  rw [bound]
  cases boundRows rows <;> rfl

/-- membership in the collected element bounds of a sum -/
theorem boundRows_ok_mem (rows : List (List Ty)) (bs : List Bound) (h : boundRows rows = .ok bs) (b : Bound) :
    b ∈ bs ↔ ∃ r ∈ rows, ∃ t ∈ r, bound t = .ok b := by
  rw [boundRows_eq_mapM] at h
  cases hm : rows.mapM boundRow with
  | error e => rw [hm] at h; cases h
  | ok bss =>
    rw [hm] at h
    cases h
    simp only [List.mem_flatten]
    constructor
    · rintro ⟨l, hl, hb⟩
      obtain ⟨r, hr, hrl⟩ := (ExceptList.mapM_ok_mem _ _ _ hm l).1 hl
      rw [boundRow_eq_mapM] at hrl
      obtain ⟨t, ht, htb⟩ := (ExceptList.mapM_ok_mem _ _ _ hrl b).1 hb
      exact ⟨r, hr, t, ht, htb⟩
    · rintro ⟨r, hr, t, ht, htb⟩
      obtain ⟨l, hl⟩ := ExceptList.mapM_ok_all _ _ _ hm r hr
      refine ⟨l, (ExceptList.mapM_ok_mem _ _ _ hm l).2 ⟨r, hr, hl⟩, ?_⟩
      rw [boundRow_eq_mapM] at hl
      exact (ExceptList.mapM_ok_mem _ _ _ hl b).2 ⟨t, ht, htb⟩

theorem boundRows_ok_all (rows : List (List Ty)) (bs : List Bound) (h : boundRows rows = .ok bs) :
    ∀ r ∈ rows, ∀ t ∈ r, ∃ b, bound t = .ok b := by
  rw [boundRows_eq_mapM] at h
  cases hm : rows.mapM boundRow with
  | error e => rw [hm] at h; cases h
  | ok bss =>
    intro r hr t ht
    obtain ⟨l, hl⟩ := ExceptList.mapM_ok_all _ _ _ hm r hr
    rw [boundRow_eq_mapM] at hl
    exact ExceptList.mapM_ok_all _ _ _ hl t ht

theorem boundRows_error_iff (rows : List (List Ty)) :
    (∃ e, boundRows rows = .error e) ↔ ∃ r ∈ rows, ∃ t ∈ r, ∃ e, bound t = .error e := by
  rw [boundRows_eq_mapM]
  have h1 := ExceptList.mapM_error_iff boundRow rows
  constructor
  · rintro ⟨e, he⟩
    cases hm : rows.mapM boundRow with
    | ok bss => rw [hm] at he; cases he
    | error e' =>
      obtain ⟨r, hr, e2, he2⟩ := h1.1 ⟨e', hm⟩
      rw [boundRow_eq_mapM] at he2
      obtain ⟨t, ht, e3, he3⟩ := (ExceptList.mapM_error_iff bound r).1 ⟨e2, he2⟩
      exact ⟨r, hr, t, ht, e3, he3⟩
  · rintro ⟨r, hr, t, ht, e, he⟩
    obtain ⟨e2, he2⟩ := (ExceptList.mapM_error_iff bound r).2 ⟨t, ht, e, he⟩
    rw [← boundRow_eq_mapM] at he2
    obtain ⟨e3, he3⟩ := h1.2 ⟨r, hr, e2, he2⟩
    exact ⟨e3, by rw [he3]; rfl⟩

theorem berr_eq (e : BErr) : e = .indexError := by cases e; rfl

/-- lookups in the per-argument bounds, in terms of the argument list -/
theorem pyIndex_argBound (args : List TypeArg) (i : Int) :
    pyIndex (args.map argBound) i = (pyIndex args i).map argBound := pyIndex_map _ _ _

theorem pick_ok_some_iff (args : List TypeArg) (i : Int) (b : Bound) :
    pick (args.map argBound) i = .ok (some b) ↔ ∃ t, pyIndex args i = some (.type t) ∧ bound t = .ok b := by
  unfold pick
  rw [pyIndex_argBound]
  cases h : pyIndex args i with
  | none => simp [throw, throwThe, MonadExceptOf.throw]
  | some a =>
    cases a with
    | type t =>
      simp only [Option.map_some, argBound]
      cases hb : bound t with
      | ok b' => simp [pure, Except.pure, hb]
      | error e => simp [throw, throwThe, MonadExceptOf.throw, hb]
    | _ => simp [argBound, pure, Except.pure]

theorem pick_error_iff (args : List TypeArg) (i : Int) :
    (∃ e, pick (args.map argBound) i = .error e) ↔
      pyIndex args i = none ∨ ∃ t, pyIndex args i = some (.type t) ∧ ∃ e, bound t = .error e := by
  unfold pick
  rw [pyIndex_argBound]
  cases h : pyIndex args i with
  | none => simp only [Option.map_none, throw, throwThe, MonadExceptOf.throw]; exact ⟨fun _ => Or.inl trivial, fun _ => ⟨.indexError, trivial⟩⟩
  | some a =>
    cases a with
    | type t =>
      simp only [Option.map_some, argBound]
      cases hb : bound t with
      | ok b' => simp [pure, Except.pure, hb]
      | error e => simp only [throw, throwThe, MonadExceptOf.throw]; exact ⟨fun _ => Or.inr ⟨t, rfl, e, hb⟩, fun _ => ⟨.indexError, trivial⟩⟩
    | _ => simp [argBound, pure, Except.pure]

/-- **`type_bound` is `Copyable` exactly for the types all of whose constituents are copyable**
    (whenever it returns at all). -/
theorem bound_ok_copyable_iff : ∀ (t : Ty) (b : Bound), bound t = .ok b → (b = .copyable ↔ AllCopyable t) := by
  refine @induct_ty (fun t => ∀ b, bound t = .ok b → (b = .copyable ↔ AllCopyable t))
    (fun a => ∀ t, a = .type t → ∀ b, bound t = .ok b → (b = .copyable ↔ AllCopyable t))
    ?_ ?_ ?_ ?_ ?_ ?_ ?_ ?_ ?_ ?_ ?_ ?_ ?_ ?_ ?_ ?_ ?_
  · -- sum
    intro rows ih b hb
    rw [bound_sum] at hb
    cases hbs : boundRows rows with
    | error e => rw [hbs] at hb; cases hb
    | ok bs =>
      rw [hbs] at hb
      cases hb
      rw [Bound.join_eq_copyable_iff]
      constructor
      · intro hall
        refine .sum rows (fun r hr t ht => ?_)
        obtain ⟨b', hb'⟩ := boundRows_ok_all rows bs hbs r hr t ht
        have := hall b' ((boundRows_ok_mem rows bs hbs b').2 ⟨r, hr, t, ht, hb'⟩)
        exact (ih r hr t ht b' hb').1 this
      · intro hac b' hb'
        cases hac with
        | sum _ hall =>
          obtain ⟨r, hr, t, ht, htb⟩ := (boundRows_ok_mem rows bs hbs b').1 hb'
          exact (ih r hr t ht b' htb).2 (hall r hr t ht)
  · intro n b hb; simp only [bound, pure, Except.pure, Except.ok.injEq] at hb; subst hb; exact ⟨fun _ => .unitSum n, fun _ => rfl⟩
  · intro i b' b hb; simp only [bound, pure, Except.pure, Except.ok.injEq] at hb; subst hb
    exact ⟨fun h => h ▸ .variable i, fun h => by cases h; rfl⟩
  · intro i b' b hb; simp only [bound, pure, Except.pure, Except.ok.injEq] at hb; subst hb
    exact ⟨fun h => h ▸ .rowVariable i, fun h => by cases h; rfl⟩
  · intro b hb; simp only [bound, pure, Except.pure, Except.ok.injEq] at hb; subst hb; exact ⟨fun _ => .usize, fun _ => rfl⟩
  · intro n b' b hb; simp only [bound, pure, Except.pure, Except.ok.injEq] at hb; subst hb
    exact ⟨fun h => h ▸ .alias n, fun h => by cases h; rfl⟩
  · intro i o r _ _ b hb; simp only [bound, pure, Except.pure, Except.ok.injEq] at hb; subst hb
    exact ⟨fun _ => .function i o r, fun _ => rfl⟩
  · intro ps i o r _ _ b hb; simp only [bound, pure, Except.pure, Except.ok.injEq] at hb; subst hb
    exact ⟨fun _ => .poly ps i o r, fun _ => rfl⟩
  · -- extension type
    intro d args ih b hb
    cases hd : d.bound with
    | explicit b' =>
      rw [bound_extType_explicit d args b' hd] at hb
      cases hb
      constructor
      · intro h; subst h; exact .extExplicit d args hd
      · intro h
        cases h with
        | extExplicit _ _ h' => rw [hd] at h'; cases h'; rfl
        | extFromParams _ _ idxs h' _ => rw [hd] at h'; cases h'
    | fromParams idxs =>
      rw [bound_extType_fromParams d args idxs hd] at hb
      cases hm : idxs.mapM (pick (args.map argBound)) with
      | error e => rw [hm] at hb; cases hb
      | ok picked =>
        rw [hm] at hb
        cases hb
        rw [Bound.join_eq_copyable_iff]
        have hmem := ExceptList.mapM_ok_mem _ _ _ hm
        have hall := ExceptList.mapM_ok_all _ _ _ hm
        constructor
        · intro hc
          refine .extFromParams d args idxs hd (fun i hi t hti => ?_)
          obtain ⟨ob, hob⟩ := hall i hi
          -- the named type argument has a bound (no raise), which is among the picked ones
          have : ∃ b', bound t = .ok b' := by
            rcases ExceptList.ok_or_error (bound t) with h | ⟨e, he⟩
            · exact h
            · have := (pick_error_iff args i).2 (Or.inr ⟨t, hti, e, he⟩)
              obtain ⟨e', he'⟩ := this
              rw [hob] at he'; cases he'
          obtain ⟨b', hb'⟩ := this
          have hp : pick (args.map argBound) i = .ok (some b') := (pick_ok_some_iff args i b').2 ⟨t, hti, hb'⟩
          have : b' ∈ picked.filterMap id := by
            simp only [List.mem_filterMap, id]
            exact ⟨some b', (hmem (some b')).2 ⟨i, hi, hp⟩, rfl⟩
          exact (ih (.type t) (pyIndex_mem _ _ _ hti) t rfl b' hb').1 (hc b' this)
        · intro hac b' hb'
          simp only [List.mem_filterMap, id] at hb'
          obtain ⟨ob, hob, rfl⟩ := hb'
          obtain ⟨i, hi, hp⟩ := (hmem (some b')).1 hob
          obtain ⟨t, hti, htb⟩ := (pick_ok_some_iff args i b').1 hp
          cases hac with
          | extExplicit _ _ h' => rw [hd] at h'; cases h'
          | extFromParams _ _ idxs' h' hall' =>
            rw [hd] at h'; cases h'
            exact (ih (.type t) (pyIndex_mem _ _ _ hti) t rfl b' htb).2 (hall' i hi t hti)
  · intro id b' args e _ b hb; simp only [bound, pure, Except.pure, Except.ok.injEq] at hb; subst hb
    exact ⟨fun h => h ▸ .opaque id args e, fun h => by cases h; rfl⟩
  · intro b hb; simp only [bound, pure, Except.pure, Except.ok.injEq] at hb; subst hb
    exact ⟨fun h => (nomatch h), fun h => (nomatch h)⟩
  · intro t ih t' h; cases h; exact ih
  · intro n t h; cases h
  · intro s t h; cases h
  · intro es _ t h; cases h
  · intro es t h; cases h
  · intro i p t h; cases h

/-- **`type_bound` raises (`IndexError`) exactly when** the computation reaches an extension type
    whose definition names a position outside the argument list. -/
theorem bound_error_iff : ∀ (t : Ty), bound t = .error .indexError ↔ Raises t := by
  refine @induct_ty (fun t => bound t = .error .indexError ↔ Raises t)
    (fun a => ∀ t, a = .type t → (bound t = .error .indexError ↔ Raises t))
    ?_ ?_ ?_ ?_ ?_ ?_ ?_ ?_ ?_ ?_ ?_ ?_ ?_ ?_ ?_ ?_ ?_
  · intro rows ih
    rw [bound_sum]
    constructor
    · intro h
      have : ∃ e, boundRows rows = .error e := by
        cases hb : boundRows rows with
        | ok bs => rw [hb] at h; cases h
        | error e => exact ⟨e, rfl⟩
      obtain ⟨r, hr, t, ht, e, he⟩ := (boundRows_error_iff rows).1 this
      rw [berr_eq e] at he
      exact .sum rows r t hr ht ((ih r hr t ht).1 he)
    · intro h
      cases h with
      | sum _ r t hr ht hR =>
        obtain ⟨e, he⟩ := (boundRows_error_iff rows).2 ⟨r, hr, t, ht, _, (ih r hr t ht).2 hR⟩
        rw [he, berr_eq e]; rfl
  · intro n; exact ⟨fun h => by simp [bound, pure, Except.pure] at h, fun h => by cases h⟩
  · intro i b; exact ⟨fun h => by simp [bound, pure, Except.pure] at h, fun h => by cases h⟩
  · intro i b; exact ⟨fun h => by simp [bound, pure, Except.pure] at h, fun h => by cases h⟩
  · exact ⟨fun h => by simp [bound, pure, Except.pure] at h, fun h => by cases h⟩
  · intro n b; exact ⟨fun h => by simp [bound, pure, Except.pure] at h, fun h => by cases h⟩
  · intro i o r _ _; exact ⟨fun h => by simp [bound, pure, Except.pure] at h, fun h => by cases h⟩
  · intro ps i o r _ _; exact ⟨fun h => by simp [bound, pure, Except.pure] at h, fun h => by cases h⟩
  · intro d args ih
    cases hd : d.bound with
    | explicit b' =>
      rw [bound_extType_explicit d args b' hd]
      constructor
      · intro h; cases h
      · intro h
        cases h with
        | extOutOfRange _ _ idxs i h' _ _ => rw [hd] at h'; cases h'
        | extNested _ _ idxs i t h' _ _ _ => rw [hd] at h'; cases h'
    | fromParams idxs =>
      rw [bound_extType_fromParams d args idxs hd]
      have hE := ExceptList.mapM_error_iff (pick (args.map argBound)) idxs
      constructor
      · intro h
        have : ∃ e, idxs.mapM (pick (args.map argBound)) = .error e := by
          cases hm : idxs.mapM (pick (args.map argBound)) with
          | ok p => rw [hm] at h; cases h
          | error e => exact ⟨e, rfl⟩
        obtain ⟨i, hi, hpe⟩ := hE.1 this
        rcases (pick_error_iff args i).1 hpe with hnone | ⟨t, hti, e, he⟩
        · exact .extOutOfRange d args idxs i hd hi hnone
        · rw [berr_eq e] at he
          exact .extNested d args idxs i t hd hi hti ((ih (.type t) (pyIndex_mem _ _ _ hti) t rfl).1 he)
      · intro h
        have : ∃ e, idxs.mapM (pick (args.map argBound)) = .error e := by
          cases h with
          | extOutOfRange _ _ idxs' i h' hi hnone =>
            rw [hd] at h'; cases h'
            exact hE.2 ⟨i, hi, (pick_error_iff args i).2 (Or.inl hnone)⟩
          | extNested _ _ idxs' i t h' hi hti hR =>
            rw [hd] at h'; cases h'
            exact hE.2 ⟨i, hi, (pick_error_iff args i).2
              (Or.inr ⟨t, hti, _, (ih (.type t) (pyIndex_mem _ _ _ hti) t rfl).2 hR⟩)⟩
        obtain ⟨e, he⟩ := this
        rw [he, berr_eq e]; rfl
  · intro id b args e _; exact ⟨fun h => by simp [bound, pure, Except.pure] at h, fun h => by cases h⟩
  · exact ⟨fun h => by simp [bound, pure, Except.pure] at h, fun h => by cases h⟩
  · intro t ih t' h; cases h; exact ih
  · intro n t h; cases h
  · intro s t h; cases h
  · intro es _ t h; cases h
  · intro es t h; cases h
  · intro i p t h; cases h

/-- The two together: `Copyable` is reported iff nothing raises and all constituents are copyable. -/
theorem bound_copyable_iff (t : Ty) : bound t = .ok .copyable ↔ AllCopyable t ∧ ¬ Raises t := by
  constructor
  · intro h
    refine ⟨(bound_ok_copyable_iff t _ h).1 rfl, fun hR => ?_⟩
    rw [(bound_error_iff t).2 hR] at h; cases h
  · rintro ⟨hA, hR⟩
    rcases ExceptList.ok_or_error (bound t) with ⟨b, hb⟩ | ⟨e, he⟩
    · rw [hb, (bound_ok_copyable_iff t b hb).2 hA]
    · rw [berr_eq e] at he; exact absurd ((bound_error_iff t).1 he) hR

theorem bound_any_iff (t : Ty) : bound t = .ok .any ↔ ¬ AllCopyable t ∧ ¬ Raises t := by
  constructor
  · intro h
    refine ⟨fun hA => ?_, fun hR => ?_⟩
    · have := (bound_ok_copyable_iff t _ h).2 hA; cases this
    · rw [(bound_error_iff t).2 hR] at h; cases h
  · rintro ⟨hA, hR⟩
    rcases ExceptList.ok_or_error (bound t) with ⟨b, hb⟩ | ⟨e, he⟩
    · cases b with
      | any => exact hb
      | copyable => exact absurd ((bound_ok_copyable_iff t _ hb).1 rfl) hA
    · rw [berr_eq e] at he; exact absurd ((bound_error_iff t).1 he) hR

end Ty

end HugrVerif
