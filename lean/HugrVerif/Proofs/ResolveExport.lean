/-
  Extension resolution against the whole-HUGR model exporter of `Export.lean` (property C12's model of
  `hugr/model/export.py`): machine-checked supplements to C11, NOT imported by `Props/C11.lean`
  (the exporter model belongs to another property and may still change; C11's obligations stay
  independent of it).

  * `tyToModel_resolve`, `argToModel_resolve` — the exporter's own `Type.to_model` / `TypeArg.to_model`
    give the same term before and after resolution (the statement `Props.C11.model_invariant` makes
    about `Resolve.toModel`, transferred to `Export.tyToModel`);
  * `exportOp_resolve` — what `export_node` produces for a node (operation term, regions, signature
    term) is the same for a `Custom` operation and for the `ExtOp` it resolves to, provided the
    extension name is not empty (`OpDef.qualified_name` omits the dot for an empty extension name);
  * `numValuePorts_resolve` — the ports a node lists are the same.
  These are all the places where `export_node` reads a `Custom`/`ExtOp` operation; the whole-HUGR
  export is compared before/after resolution by the oracle of `harness/props/C11.py`.
-/
import HugrVerif.Proofs.Resolve
import HugrVerif.Export

namespace HugrVerif.Resolve
open HugrVerif HugrVerif.Py HugrVerif.Ty HugrVerif.Export HugrVerif.Model

theorem rowToModel_eq_mapM (ts : List Ty) : rowToModel ts = ts.mapM tyToModel := by
  induction ts with
  | nil => rfl
  | cons t ts ih =>
    rw [ExceptList.mapM_cons, ← ih, rowToModel]
    cases tyToModel t <;> simp only [bind, Except.bind, pure, Except.pure]
    cases rowToModel ts <;> rfl

theorem rowsToModel_eq_mapM (rows : List (List Ty)) :
    rowsToModel rows = rows.mapM (fun r => (rowToModel r).map Term.list) := by
  induction rows with
  | nil => rfl
  | cons t ts ih =>
    rw [ExceptList.mapM_cons, ← ih, rowsToModel]
    cases rowToModel t <;> simp only [bind, Except.bind, pure, Except.pure, Except.map]
    cases rowsToModel ts <;> rfl

theorem argsToModel_eq_mapM (as : List TypeArg) : argsToModel as = as.mapM argToModel := by
  induction as with
  | nil => rfl
  | cons t ts ih =>
    rw [ExceptList.mapM_cons, ← ih, argsToModel]
    cases argToModel t <;> simp only [bind, Except.bind, pure, Except.pure]
    cases argsToModel ts <;> rfl

theorem rowToModel_resolve (r : Registry) (ts : List Ty) (ih : ∀ t ∈ ts, tyToModel (resolveTy r t) = tyToModel t) :
    rowToModel (resolveRow r ts) = rowToModel ts := by
  rw [rowToModel_eq_mapM, rowToModel_eq_mapM, resolveRow_eq_map]
  exact ExceptList.mapM_map_congr tyToModel (resolveTy r) ts ih

theorem rowsToModel_resolve (r : Registry) (rows : List (List Ty))
    (ih : ∀ row ∈ rows, ∀ t ∈ row, tyToModel (resolveTy r t) = tyToModel t) :
    rowsToModel (resolveRows r rows) = rowsToModel rows := by
  rw [rowsToModel_eq_mapM, rowsToModel_eq_mapM, resolveRows_eq_map]
  exact ExceptList.mapM_map_congr _ (resolveRow r) rows (fun row hr => by rw [rowToModel_resolve r row (ih row hr)])

theorem argsToModel_resolve' (r : Registry) (as : List TypeArg)
    (ih : ∀ a ∈ as, argToModel (resolveArg r a) = argToModel a) :
    argsToModel (resolveArgs r as) = argsToModel as := by
  rw [argsToModel_eq_mapM, argsToModel_eq_mapM, resolveArgs_eq_map]
  exact ExceptList.mapM_map_congr argToModel (resolveArg r) as ih

theorem export_model_all (r : Registry) (hwf : RegistryWf r) :
    (∀ t, tyToModel (resolveTy r t) = tyToModel t) ∧ (∀ a, argToModel (resolveArg r a) = argToModel a) := by
  refine ⟨@induct_ty (fun t => tyToModel (resolveTy r t) = tyToModel t) (fun a => argToModel (resolveArg r a) = argToModel a)
            ?_ ?_ ?_ ?_ ?_ ?_ ?_ ?_ ?_ ?_ ?_ ?_ ?_ ?_ ?_ ?_ ?_,
          @induct_arg (fun t => tyToModel (resolveTy r t) = tyToModel t) (fun a => argToModel (resolveArg r a) = argToModel a)
            ?_ ?_ ?_ ?_ ?_ ?_ ?_ ?_ ?_ ?_ ?_ ?_ ?_ ?_ ?_ ?_ ?_⟩
  all_goals first
    | intro rows ih
      rw [resolveTy, tyToModel, tyToModel, rowsToModel_resolve r rows ih]
    | intro i o rq ihi iho
      rw [resolveTy, tyToModel, tyToModel, rowToModel_resolve r i ihi, rowToModel_resolve r o iho]
    | intro id b args ext ih
      rw [resolveTy]
      cases hl : lookupType r ext id with
      | none => simp only []; rw [tyToModel, tyToModel, argsToModel_resolve' r args ih]
      | some td =>
        simp only []
        obtain ⟨hde, hdn⟩ := typeDefRef_names r hwf ext id td hl
        rw [tyToModel, tyToModel, argsToModel_resolve' r args ih, hde, hdn]
    | intro t ih
      rw [resolveArg, argToModel, argToModel, ih]
    | intro es ih
      rw [resolveArg, argToModel, argToModel, argsToModel_resolve' r es ih]
    | intros
      simp [resolveTy, resolveArg, tyToModel]

/-- The exporter's term of a type is the same before and after resolution. -/
theorem tyToModel_resolve (r : Registry) (hwf : RegistryWf r) (t : Ty) : tyToModel (resolveTy r t) = tyToModel t :=
  (export_model_all r hwf).1 t

theorem argToModel_resolve (r : Registry) (hwf : RegistryWf r) (a : TypeArg) :
    argToModel (resolveArg r a) = argToModel a :=
  (export_model_all r hwf).2 a

theorem argsToModel_resolve (r : Registry) (hwf : RegistryWf r) (as : List TypeArg) :
    argsToModel (resolveArgs r as) = argsToModel as :=
  argsToModel_resolve' r as (fun a _ => argToModel_resolve r hwf a)

theorem sigToModel_resolve (r : Registry) (hwf : RegistryWf r) (s : Sig) : sigToModel (resolveSig r s) = sigToModel s := by
  rw [sigToModel, sigToModel, resolveSig_toTy, tyToModel_resolve r hwf]

/-- the ports `export_node` lists for a node -/
theorem numValuePorts_resolve (r : Registry) (op : Op) : numValuePorts (resolveOp r op) = numValuePorts op := by
  by_cases hcu : ∃ n s d e a, op = .custom n s d e a
  · obtain ⟨n, s, d, e, a, rfl⟩ := hcu
    rw [resolveOp]
    cases lookupOp r e n with
    | none => rfl
    | some od => simp [numValuePorts, Op.isDataflowOp, Op.outerSig, resolveSig, resolveRow_eq_map]
  · have h : ∀ n s d e a, op ≠ .custom n s d e a := fun n s d e a he => hcu ⟨n, s, d, e, a, he⟩
    rw [resolveOp_not_custom r op h]

/-- what `export_node` makes of the node's operation -/
theorem exportOp_resolve (r : Registry) (hwf : RegistryWf r) (rec : Rec) (body : Json → Except Err Region)
    (cs : Classes) (s : St) (st : Names) (n : Nat) (d : Store.NodeData Op Serial.Meta)
    (hne : ∀ nm sg ds e a, d.op = .custom nm sg ds e a → e ≠ "") :
    exportOp rec body cs s st n { d with op := resolveOp r d.op } = exportOp rec body cs s st n d := by
  by_cases hcu : ∃ nm sg ds e a, d.op = .custom nm sg ds e a
  · obtain ⟨nm, sg, ds, e, a, hop⟩ := hcu
    have hne' := hne nm sg ds e a hop
    obtain ⟨op, parent, ni, no, ch, md⟩ := d
    simp only at hop
    subst hop
    rw [resolveOp]
    cases hl : lookupOp r e nm with
    | none => rfl
    | some od =>
      obtain ⟨hde, hdn⟩ := opDefRef_names r hwf e nm od hl
      simp only [exportOp, Op.outerSig, liftOp, extOpName, hde, hdn, hne', if_false, customNode,
        argsToModel_resolve r hwf, sigToModel_resolve r hwf]
  · have h : ∀ nm sg ds e a, d.op ≠ .custom nm sg ds e a := fun nm sg ds e a he => hcu ⟨nm, sg, ds, e, a, he⟩
    rw [resolveOp_not_custom r d.op h]

end HugrVerif.Resolve
