/- Helper lemmas for C18 (BiMap). -/
import HugrVerif.BiMap

namespace HugrVerif.BiMap
open Py
variable {L R : Type} [DecidableEq L] [DecidableEq R]

/-- The two views are exact inverses, and neither has a duplicate key. -/
structure Inv (m : BiMap L R) : Prop where
  inv : ∀ k v, Dict.get k m.fwd = some v ↔ Dict.get v m.bck = some k
  ndF : Dict.NodupKeys m.fwd
  ndB : Dict.NodupKeys m.bck

theorem inv_empty : Inv (empty : BiMap L R) :=
  ⟨by simp [empty], by simp [empty, Dict.NodupKeys], by simp [empty, Dict.NodupKeys]⟩

/-- Exact lookup behaviour of `insert_left` on the forward view. -/
theorem insertLeft_fwd (m : BiMap L R) (h : Inv m) (k k' : L) (v : R) :
    Dict.get k' (insertLeft m k v).fwd =
      if k' = k then some v else if Dict.get k' m.fwd = some v then none else Dict.get k' m.fwd := by
  obtain ⟨hi, hf, hb⟩ := h
  unfold insertLeft
  cases hv : Dict.get v m.bck with
  | none =>
    simp only [Dict.get_set]
    have : ∀ x, Dict.get x m.fwd ≠ some v := by
      intro x hx; rw [hi] at hx; rw [hx] at hv; cases hv
    grind
  | some ek =>
    simp only [Dict.get_set, Dict.get_del _ _ _ hf]
    have hek : Dict.get ek m.fwd = some v := (hi ek v).mpr hv
    have : ∀ x, Dict.get x m.fwd = some v → x = ek := by
      intro x hx; rw [hi] at hx; rw [hx] at hv; cases hv; rfl
    grind

/-- Exact lookup behaviour of `insert_left` on the backward view. -/
theorem insertLeft_bck (m : BiMap L R) (h : Inv m) (k : L) (v v' : R) :
    Dict.get v' (insertLeft m k v).bck =
      if v' = v then some k else if Dict.get v' m.bck = some k then none else Dict.get v' m.bck := by
  obtain ⟨hi, hf, hb⟩ := h
  unfold insertLeft
  cases hv : Dict.get v m.bck with
  | none =>
    simp only []
    cases hk : Dict.get k m.fwd with
    | none =>
      simp only [Dict.get_set]
      have : ∀ x, Dict.get x m.bck ≠ some k := by
        intro x hx; rw [← hi] at hx; rw [hx] at hk; cases hk
      grind
    | some ev =>
      simp only [Dict.get_set, Dict.get_del _ _ _ hb]
      have : ∀ x, Dict.get x m.bck = some k → x = ev := by
        intro x hx; rw [← hi] at hx; rw [hx] at hk; cases hk; rfl
      have : Dict.get ev m.bck = some k := (hi k ev).mp hk
      grind
  | some ek =>
    simp only [Dict.get_del _ _ _ hf]
    by_cases hkk : k = ek
    · subst hkk
      simp only [if_true, Dict.get_set]
      have : ∀ x, Dict.get x m.bck = some k → x = v := by
        intro x hx
        have h1 := (hi k x).mpr hx
        have h2 := (hi k v).mpr hv
        rw [h1] at h2; cases h2; rfl
      grind
    · simp only [hkk, if_false]
      cases hk : Dict.get k m.fwd with
      | none =>
        simp only [Dict.get_set]
        have : ∀ x, Dict.get x m.bck ≠ some k := by
          intro x hx; rw [← hi] at hx; rw [hx] at hk; cases hk
        grind
      | some ev =>
        simp only [Dict.get_set, Dict.get_del _ _ _ hb]
        have : ∀ x, Dict.get x m.bck = some k → x = ev := by
          intro x hx; rw [← hi] at hx; rw [hx] at hk; cases hk; rfl
        have : Dict.get ev m.bck = some k := (hi k ev).mp hk
        grind

theorem insertLeft_nodup (m : BiMap L R) (h : Inv m) (k : L) (v : R) :
    Dict.NodupKeys (insertLeft m k v).fwd ∧ Dict.NodupKeys (insertLeft m k v).bck := by
  obtain ⟨hi, hf, hb⟩ := h
  unfold insertLeft
  constructor
  · apply Dict.nodup_set
    split
    · exact Dict.nodup_del _ _ hf
    · exact hf
  · apply Dict.nodup_set
    split
    · exact Dict.nodup_del _ _ hb
    · exact hb

theorem inv_insertLeft (m : BiMap L R) (h : Inv m) (k : L) (v : R) : Inv (insertLeft m k v) := by
  refine ⟨?_, (insertLeft_nodup m h k v).1, (insertLeft_nodup m h k v).2⟩
  intro k' v'
  rw [insertLeft_fwd m h, insertLeft_bck m h]
  have hi := h.inv
  grind

theorem deleteLeft_some (m : BiMap L R) (h : Inv m) (k : L) (v : R) (hk : Dict.get k m.fwd = some v) :
    deleteLeft m k = some ⟨Dict.del k m.fwd, Dict.del v m.bck⟩ := by
  have := (h.inv k v).mp hk
  simp [deleteLeft, hk, this]

theorem deleteLeft_none (m : BiMap L R) (k : L) (hk : Dict.get k m.fwd = none) :
    deleteLeft m k = none := by
  simp [deleteLeft, hk]

theorem deleteRight_some (m : BiMap L R) (h : Inv m) (v : R) (k : L) (hv : Dict.get v m.bck = some k) :
    deleteRight m v = some ⟨Dict.del k m.fwd, Dict.del v m.bck⟩ := by
  have := (h.inv k v).mpr hv
  simp [deleteRight, hv, this]

theorem deleteRight_none (m : BiMap L R) (v : R) (hv : Dict.get v m.bck = none) :
    deleteRight m v = none := by
  simp [deleteRight, hv]

theorem inv_delPair (m : BiMap L R) (h : Inv m) (k : L) (v : R) (hk : Dict.get k m.fwd = some v) :
    Inv (⟨Dict.del k m.fwd, Dict.del v m.bck⟩ : BiMap L R) := by
  obtain ⟨hi, hf, hb⟩ := h
  refine ⟨?_, Dict.nodup_del _ _ hf, Dict.nodup_del _ _ hb⟩
  intro k' v'
  simp only [Dict.get_del _ _ _ hf, Dict.get_del _ _ _ hb]
  have := (hi k v).mp hk
  grind

theorem inv_deleteLeft (m m' : BiMap L R) (h : Inv m) (k : L) (hd : deleteLeft m k = some m') : Inv m' := by
  cases hk : Dict.get k m.fwd with
  | none => rw [deleteLeft_none m k hk] at hd; cases hd
  | some v =>
    rw [deleteLeft_some m h k v hk] at hd; cases hd
    exact inv_delPair m h k v hk

theorem inv_deleteRight (m m' : BiMap L R) (h : Inv m) (v : R) (hd : deleteRight m v = some m') : Inv m' := by
  cases hv : Dict.get v m.bck with
  | none => rw [deleteRight_none m v hv] at hd; cases hd
  | some k =>
    rw [deleteRight_some m h v k hv] at hd; cases hd
    exact inv_delPair m h k v ((h.inv k v).mpr hv)

theorem inv_step (m : BiMap L R) (h : Inv m) (op : Op L R) : Inv (step m op).1 := by
  cases op with
  | insertLeft k v => exact inv_insertLeft m h k v
  | setitem k v => exact inv_insertLeft m h k v
  | insertRight k v => exact inv_insertLeft m h v k
  | deleteLeft k =>
    simp only [step]
    cases hd : deleteLeft m k with
    | none => exact h
    | some m' => exact inv_deleteLeft m m' h k hd
  | delitem k =>
    simp only [step]
    cases hd : deleteLeft m k with
    | none => exact h
    | some m' => exact inv_deleteLeft m m' h k hd
  | deleteRight k =>
    simp only [step]
    cases hd : deleteRight m k with
    | none => exact h
    | some m' => exact inv_deleteRight m m' h k hd

theorem inv_run (m : BiMap L R) (h : Inv m) (ops : List (Op L R)) : Inv (run m ops) := by
  induction ops generalizing m with
  | nil => exact h
  | cons o os ih => exact ih _ (inv_step m h o)

end HugrVerif.BiMap
