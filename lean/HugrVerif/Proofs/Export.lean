/-
  Lemmas about the export model (`Export.lean`) and its specification (`ExportSpec.lean`) for C12.
-/
import HugrVerif.Export
import HugrVerif.ExportSpec
import Std.Data.String.ToNat

namespace HugrVerif.ExportProofs
open HugrVerif HugrVerif.Model HugrVerif.Export

/-! ### link names -/

/-- `link_names` after any number of calls: the i-th entry is named `str(i)` and roots are distinct. -/
structure NamesInv (st : Names) : Prop where
  named : ∀ i (h : i < st.length), (st[i]'h).2 = toString i
  nodup : (st.map (·.1)).Nodup

/-- `b` was obtained from `a` by more `link_name` calls. -/
def Extends (a b : Names) : Prop := ∃ suffix, b = a ++ suffix

theorem Extends.refl (a : Names) : Extends a a := ⟨[], by simp⟩
theorem Extends.trans {a b c : Names} (h1 : Extends a b) (h2 : Extends b c) : Extends a c := by
  obtain ⟨x, rfl⟩ := h1; obtain ⟨y, rfl⟩ := h2; exact ⟨x ++ y, by simp⟩

theorem namesInv_nil : NamesInv [] := ⟨fun i h => absurd h (by simp), by simp⟩

theorem lookupName_some_mem {r : DPort} {st : Names} {n : String} (h : lookupName r st = some n) : (r, n) ∈ st := by
  induction st with
  | nil => simp [lookupName] at h
  | cons kv rest ih =>
    obtain ⟨k, v⟩ := kv
    simp only [lookupName] at h
    split at h
    · rename_i hk; cases h; subst hk; simp
    · exact List.mem_cons_of_mem _ (ih h)

theorem lookupName_none_not_mem {r : DPort} {st : Names} (h : lookupName r st = none) : r ∉ st.map (·.1) := by
  induction st with
  | nil => simp
  | cons kv rest ih =>
    obtain ⟨k, v⟩ := kv
    simp only [lookupName] at h
    split at h
    · cases h
    · rename_i hk
      simp only [List.map_cons, List.mem_cons, not_or]
      exact ⟨fun e => hk e.symm, ih h⟩

theorem lookupName_of_mem {r : DPort} {st : Names} {n : String} (hn : (st.map (·.1)).Nodup) (h : (r, n) ∈ st) :
    lookupName r st = some n := by
  induction st with
  | nil => simp at h
  | cons kv rest ih =>
    obtain ⟨k, v⟩ := kv
    simp only [List.map_cons, List.nodup_cons] at hn
    simp only [lookupName]
    rcases List.mem_cons.1 h with e | e
    · cases e; simp
    · have : k ≠ r := fun e' => hn.1 (by subst e'; exact List.mem_map.2 ⟨(k, n), e, rfl⟩)
      simp [this, ih hn.2 e]

theorem lookupName_append_left {r : DPort} {a x : Names} {n : String} (h : lookupName r a = some n) :
    lookupName r (a ++ x) = some n := by
  induction a with
  | nil => simp [lookupName] at h
  | cons kv rest ih =>
    obtain ⟨k, v⟩ := kv
    simp only [lookupName, List.cons_append] at h ⊢
    split
    · simpa [*] using h
    · rename_i hk; simp only [hk, if_false] at h; exact ih h

/-- names determine roots: two roots with the same name are equal -/
theorem NamesInv.name_inj {st : Names} (h : NamesInv st) {r1 r2 : DPort} {n : String}
    (h1 : (r1, n) ∈ st) (h2 : (r2, n) ∈ st) : r1 = r2 := by
  obtain ⟨i, hi, ei⟩ := List.getElem_of_mem h1
  obtain ⟨j, hj, ej⟩ := List.getElem_of_mem h2
  have e1 := h.named i hi
  have e2 := h.named j hj
  rw [ei] at e1; rw [ej] at e2
  simp only at e1 e2
  have : toString i = toString j := e1.symm.trans e2
  have hij : i = j := Nat.repr_inj.1 this
  subst hij
  have := ei.symm.trans ej
  exact (Prod.mk.injEq .. ▸ this).1

theorem linkName_cases (cs : Classes) (st : Names) (p : DPort) :
    (∃ n, lookupName (rep cs p) st = some n ∧ linkName cs st p = (n, st)) ∨
    (lookupName (rep cs p) st = none ∧
      linkName cs st p = (toString st.length, st ++ [(rep cs p, toString st.length)])) := by
  simp only [linkName]
  cases h : lookupName (rep cs p) st <;> simp

theorem linkName_extends (cs : Classes) (st : Names) (p : DPort) : Extends st (linkName cs st p).2 := by
  rcases linkName_cases cs st p with ⟨n, _, e⟩ | ⟨_, e⟩ <;> rw [e]
  · exact Extends.refl _
  · exact ⟨_, rfl⟩

theorem linkName_inv (cs : Classes) (st : Names) (p : DPort) (h : NamesInv st) : NamesInv (linkName cs st p).2 := by
  rcases linkName_cases cs st p with ⟨n, _, e⟩ | ⟨hn, e⟩ <;> rw [e]
  · exact h
  · refine ⟨?_, ?_⟩
    · intro i hi
      simp only [List.length_append, List.length_singleton] at hi
      by_cases hlt : i < st.length
      · simpa [List.getElem_append_left hlt] using h.named i hlt
      · have : i = st.length := by omega
        subst this
        simp
    · simp only [List.map_append, List.map_cons, List.map_nil]
      refine List.nodup_append.2 ⟨h.nodup, by simp, ?_⟩
      intro a ha b hb
      simp only [List.mem_singleton] at hb
      subst hb
      intro e; subst e
      exact lookupName_none_not_mem hn ha

theorem lookupName_append_new {r : DPort} {st : Names} (n : String) (h : lookupName r st = none) :
    lookupName r (st ++ [(r, n)]) = some n := by
  induction st with
  | nil => simp [lookupName]
  | cons kv rest ih =>
    obtain ⟨k, v⟩ := kv
    simp only [lookupName, List.cons_append] at h ⊢
    split
    · rename_i hk; simp [hk] at h
    · rename_i hk; simp only [hk, if_false] at h; exact ih h

/-- the name `link_name` returns is the one recorded for the port's root -/
theorem linkName_lookup (cs : Classes) (st : Names) (p : DPort) :
    lookupName (rep cs p) (linkName cs st p).2 = some (linkName cs st p).1 := by
  rcases linkName_cases cs st p with ⟨n, hn, e⟩ | ⟨hn, e⟩ <;> rw [e]
  · exact hn
  · exact lookupName_append_new _ hn

/-- **Names coincide iff roots coincide**, for any two `link_name` calls of one export run (the second
    call happening in any later state). -/
theorem linkName_eq_iff_rep (cs : Classes) (st : Names) (h : NamesInv st) (p q : DPort)
    (st2 : Names) (hext : Extends (linkName cs st p).2 st2) (h2 : NamesInv st2) :
    (linkName cs st2 q).1 = (linkName cs st p).1 ↔ rep cs q = rep cs p := by
  have hp := linkName_lookup cs st p
  have hq := linkName_lookup cs st2 q
  have h3 := linkName_inv cs st2 q h2
  obtain ⟨x, hx⟩ := hext
  obtain ⟨y, hy⟩ := linkName_extends cs st2 q
  have hp' : lookupName (rep cs p) (linkName cs st2 q).2 = some (linkName cs st p).1 := by
    rw [hy, hx, List.append_assoc]; exact lookupName_append_left hp
  constructor
  · intro e
    rw [e] at hq
    exact h3.name_inj (lookupName_some_mem hq) (lookupName_some_mem hp')
  · intro e
    rw [e] at hq
    exact Option.some.inj (hq.symm.trans hp')

theorem linkNames_extends (cs : Classes) (st : Names) (ps : List DPort) : Extends st (linkNames cs st ps).2 := by
  induction ps generalizing st with
  | nil => exact Extends.refl _
  | cons p ps ih => exact (linkName_extends cs st p).trans (ih _)

theorem linkNames_inv (cs : Classes) (st : Names) (ps : List DPort) (h : NamesInv st) :
    NamesInv (linkNames cs st ps).2 := by
  induction ps generalizing st with
  | nil => exact h
  | cons p ps ih => exact ih _ (linkName_inv cs st p h)

theorem linkNames_length (cs : Classes) (st : Names) (ps : List DPort) : (linkNames cs st ps).1.length = ps.length := by
  induction ps generalizing st with
  | nil => rfl
  | cons p ps ih => simp [linkNames, ih]

/-! ### `export_node`: inversion -/

/-- the exporter of function-valued constant bodies `export_node` hands to `export_op` -/
def bodyExporter (dfuel fuel : Nat) : Json → Except Err Region := fun j =>
  match Serial.loadJson (Serial.opsCodec dfuel) j with
  | .error e => .error (.load e)
  | .ok s' => exportBodyWith (fun cs' s'' => exportNode dfuel fuel cs' s'') s'

/-- What a successful `export_node` call did. -/
theorem exportNode_ok {dfuel fuel : Nat} {cs : Classes} {s : St} {st st' : Names} {n : Nat} {r : Option Node}
    (h : exportNode dfuel (fuel + 1) cs s st n = .ok (r, st')) :
    ∃ d ni no metas,
      Store.getNode s n = .ok d ∧ numValuePorts d.op = .ok (ni, no) ∧ nodeMeta s n d.md = .ok metas ∧
      ∃ parts,
        exportOp (exportNode dfuel fuel cs s) (bodyExporter dfuel fuel) cs s
          (linkNames cs (linkNames cs st (inPorts n ni)).2 (outPorts n no)).2 n d = .ok (parts, st') ∧
        r = parts.map fun (x : Operation × List Region × Option Term) =>
          Node.mk x.1 (linkNames cs st (inPorts n ni)).1
            (linkNames cs (linkNames cs st (inPorts n ni)).2 (outPorts n no)).1 x.2.1 metas x.2.2 := by
  simp only [exportNode] at h
  split at h
  · cases h
  · rename_i d hd
    split at h
    · cases h
    · rename_i ni no hp
      split at h
      · cases h
      · rename_i metas hm
        refine ⟨d, ni, no, metas, hd, hp, hm, ?_⟩
        split at h
        · cases h
        · rename_i st1 ho
          cases h
          exact ⟨none, ho, rfl⟩
        · rename_i o regions sig st1 ho
          cases h
          exact ⟨some (o, regions, sig), ho, rfl⟩

/-! ### ports per signature -/

theorem inPorts_length (n k : Nat) : (inPorts n k).length = k := by simp [inPorts]
theorem outPorts_length (n k : Nat) : (outPorts n k).length = k := by simp [outPorts]

/-- An exported node lists exactly `_num_value_ports(op)` inputs and outputs. -/
theorem exportNode_ports {dfuel fuel : Nat} {cs : Classes} {s : St} {st st' : Names} {n : Nat} {nd : Node}
    (h : exportNode dfuel (fuel + 1) cs s st n = .ok (some nd, st')) :
    ∃ d ni no, Store.getNode s n = .ok d ∧ numValuePorts d.op = .ok (ni, no) ∧
      nd.inputs.length = ni ∧ nd.outputs.length = no := by
  obtain ⟨d, ni, no, metas, hd, hp, _, parts, _, hr⟩ := exportNode_ok h
  refine ⟨d, ni, no, hd, hp, ?_⟩
  cases parts with
  | none => cases hr
  | some x =>
    simp only [Option.map_some, Option.some.injEq] at hr
    subst hr
    simp [Node.inputs, Node.outputs, linkNames_length, inPorts_length, outPorts_length]

/-- `_num_value_ports` computes the value-port columns of the layout table of the specification
    (§4.1), for every operation that is exported as a node. -/
theorem numValuePorts_layout {op : Op} {ni no : Nat} (h : numValuePorts op = .ok (ni, no))
    (hx : ExportSpec.isExit op = false) : ∃ k, ExportSpec.layout op = some (ni, no, k) := by
  cases op
  case output t => cases t <;> simp_all [numValuePorts, ExportSpec.layout, Op.isDataflowOp, Op.outerSig, Op.need, bind, Except.bind, pure, Except.pure]
  case extOp d sg a =>
    cases sg
    · cases hp : d.polyFunc <;> simp_all [numValuePorts, ExportSpec.layout, Op.isDataflowOp, Op.outerSig]
    · simp_all [numValuePorts, ExportSpec.layout, Op.isDataflowOp, Op.outerSig]
  case makeTuple t => cases t <;> simp_all [numValuePorts, ExportSpec.layout, Op.isDataflowOp, Op.outerSig, Op.need, bind, Except.bind, pure, Except.pure]
  case unpackTuple t => cases t <;> simp_all [numValuePorts, ExportSpec.layout, Op.isDataflowOp, Op.outerSig, Op.need, bind, Except.bind, pure, Except.pure]
  case noop t => cases t <;> simp_all [numValuePorts, ExportSpec.layout, Op.isDataflowOp, Op.outerSig, Op.need, bind, Except.bind, pure, Except.pure]; omega
  case tag t sm =>
    cases hp : Ty.pyIndex sm.rows t <;>
      simp_all [numValuePorts, ExportSpec.layout, Op.isDataflowOp, Op.outerSig, Op.index, bind, Except.bind, pure, Except.pure]
  case dfg i o dl => cases o <;> simp_all [numValuePorts, ExportSpec.layout, Op.isDataflowOp, Op.outerSig, Op.need, bind, Except.bind, pure, Except.pure]
  case cfg i o => cases o <;> simp_all [numValuePorts, ExportSpec.layout, Op.isDataflowOp, Op.outerSig, Op.need, bind, Except.bind, pure, Except.pure]
  case dataflowBlock i sm oo dl => cases sm <;> simp_all [numValuePorts, ExportSpec.layout]
  case loadConst t => cases t <;> simp_all [numValuePorts, ExportSpec.layout, Op.isDataflowOp, Op.outerSig, Op.need, bind, Except.bind, pure, Except.pure]
  case conditional sm oi o => cases o <;> simp_all [numValuePorts, ExportSpec.layout, Op.isDataflowOp, Op.outerSig, Op.need, bind, Except.bind, pure, Except.pure]; omega
  case tailLoop ji rest jo dl => cases jo <;> simp_all [numValuePorts, ExportSpec.layout, Op.isDataflowOp, Op.outerSig, Op.need, bind, Except.bind, pure, Except.pure]
  case callIndirect sg => cases sg <;> simp_all [numValuePorts, ExportSpec.layout, Op.isDataflowOp, Op.outerSig, Op.need, bind, Except.bind, pure, Except.pure, Sig.toTy]; omega
  all_goals simp_all [numValuePorts, ExportSpec.layout, Op.isDataflowOp, Op.outerSig, ExportSpec.isExit, Sig.toTy]
  all_goals omega

/-- The layout table agrees with the signatures of the specification of C06 (`Spec.HasSig`,
    transcribed from `hugr-core/src/ops/*.rs`): the value ports are the rows of the signature. -/
theorem layout_hasSig {op : Op} {sig : Sig} {i o k : Nat} (h : ExportSpec.layout op = some (i, o, k))
    (hs : Spec.HasSig op sig) : sig.inp.length = i ∧ sig.out.length = o := by
  cases hs <;> simp_all [ExportSpec.layout, Sig.toTy]
  case tag n sm row r hrow =>
    have : Ty.pyIndex sm.rows (n : Int) = some row := by simp [Ty.pyIndex, hrow]
    simp [this] at h
    omega
  all_goals omega

/-! ### metadata and order keys -/

theorem metaJsonEntries_append (a b : List Term) :
    ExportSpec.metaJsonEntries (a ++ b) = ExportSpec.metaJsonEntries a ++ ExportSpec.metaJsonEntries b := by
  induction a with
  | nil => rfl
  | cons t rest ih =>
    simp only [List.cons_append]
    rw [ExportSpec.metaJsonEntries.eq_def (t :: (rest ++ b)), ExportSpec.metaJsonEntries.eq_def (t :: rest)]
    split <;> simp_all

theorem metaJsonEntries_metaTerms (md : Serial.Meta) :
    ExportSpec.metaJsonEntries (metaTerms md) = md.map fun kv => (kv.1, jsonText true kv.2) := by
  induction md with
  | nil => rfl
  | cons kv rest ih =>
    simp only [metaTerms, List.map_cons] at ih ⊢
    simp [ExportSpec.metaJsonEntries, ih]

theorem metaMatches_self (md : Serial.Meta) :
    ExportSpec.metaMatches md (md.map fun kv => (kv.1, jsonText true kv.2)) = true := by
  induction md with
  | nil => rfl
  | cons kv rest ih =>
    obtain ⟨k, v⟩ := kv
    simp only [List.map_cons, ExportSpec.metaMatches]
    have : List.findIdx? (fun (e : String × String) => e.1 == k && ExportSpec.denotes e.2 v)
        ((k, jsonText true v) :: rest.map fun kv => (kv.1, jsonText true kv.2)) = some 0 := by
      simp [List.findIdx?_cons, ExportSpec.denotes]
    rw [this]
    simpa using ih

/-- the `meta` of an exported node: the metadata items, then the order key if the node needs one -/
theorem nodeMeta_eq {s : St} {n : Nat} {md : Serial.Meta} {metas : List Term} (h : nodeMeta s n md = .ok metas) :
    ∃ b, needsOrderKey s n = .ok b ∧ metas = metaTerms md ++ (if b then [orderKeyTerm n] else []) := by
  unfold nodeMeta at h
  split at h
  · cases h
  · rename_i hk; cases h; exact ⟨true, hk, by simp⟩
  · rename_i hk; cases h; exact ⟨false, hk, by simp⟩

theorem exportNode_metas {dfuel fuel : Nat} {cs : Classes} {s : St} {st st' : Names} {n : Nat} {nd : Node}
    (h : exportNode dfuel (fuel + 1) cs s st n = .ok (some nd, st')) :
    ∃ d b, Store.getNode s n = .ok d ∧ needsOrderKey s n = .ok b ∧
      nd.metas = metaTerms d.md ++ (if b then [orderKeyTerm n] else []) := by
  obtain ⟨d, ni, no, metas, hd, _, hm, parts, _, hr⟩ := exportNode_ok h
  obtain ⟨b, hb, e⟩ := nodeMeta_eq hm
  refine ⟨d, b, hd, hb, ?_⟩
  cases parts with
  | none => cases hr
  | some x =>
    simp only [Option.map_some, Option.some.injEq] at hr
    subst hr
    simpa [Node.metas] using e

theorem orderKey_not_metaJson (n : Nat) : ExportSpec.metaJsonEntries [orderKeyTerm n] = [] := by
  simp [orderKeyTerm, ExportSpec.metaJsonEntries]

/-! ### order hints -/

theorem orderHints_mem {s : St} {c : Nat} {xs : List Nat} {hints : List Term}
    (h : orderHints s c xs = .ok hints) {x : Nat} {ox : Op} (hx : x ∈ xs) (ho : getOp s x = .ok ox)
    (hno : isOutput ox = false) : orderHintTerm c x ∈ hints := by
  induction xs generalizing hints with
  | nil => cases hx
  | cons y ys ih =>
    unfold Export.orderHints at h
    split at h
    · cases h
    · rename_i oy hy
      split at h
      · cases h
      · rename_i rest hrest
        cases h
        rcases List.mem_cons.1 hx with e | e
        · subst e
          rw [ho] at hy; cases hy
          simp [hno]
        · have := ih hrest e
          split <;> simp [this]

theorem anyNot_true_of_mem {s : St} {cls : Op → Bool} {xs : List Nat}
    (hall : ∀ y ∈ xs, ∃ oy, getOp s y = .ok oy) {x : Nat} {ox : Op} (hx : x ∈ xs) (ho : getOp s x = .ok ox)
    (hc : cls ox = false) : anyNot s cls xs = .ok true := by
  induction xs with
  | nil => cases hx
  | cons y ys ih =>
    unfold anyNot
    obtain ⟨oy, hy⟩ := hall y (by simp)
    rw [hy]
    simp only
    by_cases hcy : cls oy = true
    · simp only [hcy, if_true]
      rcases List.mem_cons.1 hx with e | e
      · subst e; rw [ho] at hy; cases hy; simp [hc] at hcy
      · exact ih (fun z hz => hall z (List.mem_cons_of_mem _ hz)) e
    · simp [hcy]

theorem anyNot_ok {s : St} {cls : Op → Bool} {xs : List Nat}
    (hall : ∀ y ∈ xs, ∃ oy, getOp s y = .ok oy) : ∃ b, anyNot s cls xs = .ok b := by
  induction xs with
  | nil => exact ⟨false, rfl⟩
  | cons y ys ih =>
    unfold anyNot
    obtain ⟨oy, hy⟩ := hall y (by simp)
    rw [hy]
    simp only
    by_cases hcy : cls oy = true
    · simp only [hcy, if_true]; exact ih (fun z hz => hall z (List.mem_cons_of_mem _ hz))
    · exact ⟨true, by simp [hcy]⟩

/-- the source of an order edge to a node that is not an `Output` needs a key -/
theorem needsOrderKey_of_succ {s : St} {n x : Nat} {ox : Op}
    (hall : ∀ y ∈ orderSuccs s n, ∃ oy, getOp s y = .ok oy)
    (hx : x ∈ orderSuccs s n) (ho : getOp s x = .ok ox) (hno : isOutput ox = false) :
    needsOrderKey s n = .ok true := by
  unfold needsOrderKey
  rw [anyNot_true_of_mem hall hx ho hno]

/-- the target of an order edge from a node that is not an `Input` needs a key -/
theorem needsOrderKey_of_pred {s : St} {n x : Nat} {ox : Op}
    (hsucc : ∀ y ∈ orderSuccs s n, ∃ oy, getOp s y = .ok oy)
    (hall : ∀ y ∈ orderPreds s n, ∃ oy, getOp s y = .ok oy)
    (hx : x ∈ orderPreds s n) (ho : getOp s x = .ok ox) (hni : isInput ox = false) :
    needsOrderKey s n = .ok true := by
  unfold needsOrderKey
  obtain ⟨b, hb⟩ := anyNot_ok (cls := isOutput) hsucc
  rw [hb]
  cases b
  · simp only; exact anyNot_true_of_mem hall hx ho hni
  · rfl

theorem dfgStep_metas {rec : Rec} {cs : Classes} {s : St} {a a' : DfgAcc} {c : Nat}
    (h : dfgStep rec cs s a c = .ok a') : ∃ extra, a'.metas = a.metas ++ extra := by
  unfold dfgStep at h
  split at h
  · cases h
  · split at h
    · cases h
    · cases h; exact ⟨[], by simp⟩
  · split at h
    · cases h
    · split at h
      · cases h
      · cases h; exact ⟨[], by simp⟩
  · split at h
    · cases h
    · cases h; exact ⟨[], by simp⟩
    · split at h
      · cases h
      · cases h; exact ⟨_, rfl⟩

theorem dfgLoop_metas {rec : Rec} {cs : Classes} {s : St} {a a' : DfgAcc} {kids : List Nat}
    (h : dfgLoop rec cs s a kids = .ok a') : ∃ extra, a'.metas = a.metas ++ extra := by
  induction kids generalizing a with
  | nil => cases h; exact ⟨[], by simp⟩
  | cons c rest ih =>
    unfold dfgLoop at h
    split at h
    · cases h
    · rename_i a1 h1
      obtain ⟨e1, he1⟩ := dfgStep_metas h1
      obtain ⟨e2, he2⟩ := ih h
      exact ⟨e1 ++ e2, by rw [he2, he1, List.append_assoc]⟩

/-- an exported child that is neither `Input` nor `Output` contributes its order hints -/
theorem dfgStep_hints {rec : Rec} {cs : Classes} {s : St} {a a' : DfgAcc} {c : Nat} {oc : Op}
    (hop : getOp s c = .ok oc) (hi : isInput oc = false) (ho : isOutput oc = false)
    (hrec : ∀ st r, rec st c = .ok r → r.1.isSome = true)
    (h : dfgStep rec cs s a c = .ok a') :
    ∃ hints, Export.orderHints s c (orderSuccs s c) = .ok hints ∧ a'.metas = a.metas ++ hints := by
  unfold dfgStep at h
  split at h
  · cases h
  · rename_i ts hc; rw [hop] at hc; cases hc; simp [isInput] at hi
  · rename_i ts hc; rw [hop] at hc; cases hc; simp [isOutput] at ho
  · split at h
    · cases h
    · rename_i st1 hr; have := hrec _ _ hr; simp at this
    · split at h
      · cases h
      · rename_i hints hh; cases h; exact ⟨hints, hh, rfl⟩

theorem dfgLoop_hints {rec : Rec} {cs : Classes} {s : St} {a a' : DfgAcc} {kids : List Nat} {c : Nat} {oc : Op}
    (hc : c ∈ kids) (hop : getOp s c = .ok oc) (hi : isInput oc = false) (ho : isOutput oc = false)
    (hrec : ∀ st r, rec st c = .ok r → r.1.isSome = true)
    (h : dfgLoop rec cs s a kids = .ok a') :
    ∃ hints, Export.orderHints s c (orderSuccs s c) = .ok hints ∧ ∀ t ∈ hints, t ∈ a'.metas := by
  induction kids generalizing a with
  | nil => cases hc
  | cons k rest ih =>
    unfold dfgLoop at h
    split at h
    · cases h
    · rename_i a1 h1
      rcases List.mem_cons.1 hc with e | e
      · subst e
        obtain ⟨hints, hh, hm⟩ := dfgStep_hints hop hi ho hrec h1
        obtain ⟨extra, he⟩ := dfgLoop_metas h
        exact ⟨hints, hh, fun t ht => by rw [he, hm]; simp [ht]⟩
      · exact ih e h

/-- **Order hints on the region** [F20]: every order successor (not an `Output`) of an exported child
    that is neither `Input` nor `Output` appears as a hint in the region's metadata. -/
theorem exportRegionDfg_hints {rec : Rec} {cs : Classes} {s : St} {st st' : Names} {p : Nat} {r : Region}
    (h : exportRegionDfg rec cs s st p = .ok (r, st'))
    {c x : Nat} {oc ox : Op} (hc : c ∈ ExportSpec.childIdxs s p)
    (hop : getOp s c = .ok oc) (hi : isInput oc = false) (ho : isOutput oc = false)
    (hrec : ∀ st r, rec st c = .ok r → r.1.isSome = true)
    (hx : x ∈ orderSuccs s c) (hox : getOp s x = .ok ox) (hno : isOutput ox = false) :
    orderHintTerm c x ∈ r.metas := by
  unfold exportRegionDfg at h
  split at h
  · cases h
  · rename_i d hd
    split at h
    · cases h
    · rename_i a ha
      cases h
      have hc' : c ∈ d.children.map (·.1) := by simpa [ExportSpec.childIdxs, hd] using hc
      obtain ⟨hints, hh, hm⟩ := dfgLoop_hints hc' hop hi ho hrec ha
      exact hm _ (orderHints_mem hh hx hox hno)

/-! ### calls and function symbols -/

theorem findFuncInput_some {s : St} {n : Nat} {d : Store.NodeData Op Serial.Meta} {sym : String}
    (h : findFuncInput s n d = .ok (some sym)) :
    ∃ f name, findStaticSrc s n d.op isFunctionKind (incomingOffsets s d.numInps) = .ok (some f) ∧
      sym = mangleName f name ∧
      ((∃ p, getOp s f = .ok (.funcDecl name p)) ∨ (∃ i ps o, getOp s f = .ok (.funcDefn name i ps o))) := by
  unfold findFuncInput at h
  split at h
  · cases h
  · cases h
  · rename_i f hf
    split at h
    · cases h
    · rename_i name p hg; cases h; exact ⟨f, name, hf, rfl, .inl ⟨p, hg⟩⟩
    · rename_i name i ps o hg; cases h; exact ⟨f, name, hf, rfl, .inr ⟨i, ps, o, hg⟩⟩
    · cases h

theorem exportCall_ok {s : St} {st st' : Names} {n : Nat} {d : Store.NodeData Op Serial.Meta} {inst : Sig}
    {args : List TypeArg} {parts : Parts} (h : exportCall s st n d inst args = .ok (parts, st')) :
    ∃ f ins outs fargs sig, findFuncInput s n d = .ok (some f) ∧
      parts = some (.custom (.apply "core.call" [.list ins, .list outs, .apply f fargs]), [], some sig) := by
  unfold exportCall at h
  repeat' split at h
  all_goals cases h
  exact ⟨_, _, _, _, _, by assumption, rfl⟩

theorem exportLoadFunc_ok {s : St} {st st' : Names} {n : Nat} {d : Store.NodeData Op Serial.Meta} {inst : Sig}
    {args : List TypeArg} {parts : Parts} (h : exportLoadFunc s st n d inst args = .ok (parts, st')) :
    ∃ f fargs sig, findFuncInput s n d = .ok (some f) ∧
      parts = some (.custom (.apply "core.load_const" [sig, .apply f fargs]), [], some sig) := by
  unfold exportLoadFunc at h
  repeat' split at h
  all_goals cases h
  exact ⟨_, _, _, by assumption, rfl⟩

/-- **Calls** [F21]: an exported `Call` applies the symbol mangled with the index of the function node
    its static input is linked to. -/
theorem exportNode_call {dfuel fuel : Nat} {cs : Classes} {s : St} {st st' : Names} {n : Nat} {nd : Node}
    {d : Store.NodeData Op Serial.Meta} {p : Poly} {inst : Sig} {args : List TypeArg}
    (hd : Store.getNode s n = .ok d) (hop : d.op = .call p inst args)
    (h : exportNode dfuel (fuel + 1) cs s st n = .ok (some nd, st')) :
    ∃ f name ins outs fargs,
      findStaticSrc s n d.op isFunctionKind (incomingOffsets s d.numInps) = .ok (some f) ∧
      ((∃ q, getOp s f = .ok (.funcDecl name q)) ∨ (∃ i ps o, getOp s f = .ok (.funcDefn name i ps o))) ∧
      nd.operation = .custom (.apply "core.call" [.list ins, .list outs, .apply (mangleName f name) fargs]) := by
  obtain ⟨d', ni, no, metas, hd', _, _, parts, ho, hr⟩ := exportNode_ok h
  rw [hd] at hd'; cases hd'
  simp only [exportOp, hop] at ho
  obtain ⟨sym, ins, outs, fargs, sig, hf, hp⟩ := exportCall_ok ho
  obtain ⟨f, name, hs, rfl, hk⟩ := findFuncInput_some hf
  subst hp
  simp only [Option.map_some, Option.some.injEq] at hr
  subst hr
  exact ⟨f, name, ins, outs, fargs, hs, hk, rfl⟩

/-- … and so does an exported `LoadFunc`. -/
theorem exportNode_loadFunc {dfuel fuel : Nat} {cs : Classes} {s : St} {st st' : Names} {n : Nat} {nd : Node}
    {d : Store.NodeData Op Serial.Meta} {p : Poly} {inst : Sig} {args : List TypeArg}
    (hd : Store.getNode s n = .ok d) (hop : d.op = .loadFunc p inst args)
    (h : exportNode dfuel (fuel + 1) cs s st n = .ok (some nd, st')) :
    ∃ f name sig fargs,
      findStaticSrc s n d.op isFunctionKind (incomingOffsets s d.numInps) = .ok (some f) ∧
      ((∃ q, getOp s f = .ok (.funcDecl name q)) ∨ (∃ i ps o, getOp s f = .ok (.funcDefn name i ps o))) ∧
      nd.operation = .custom (.apply "core.load_const" [sig, .apply (mangleName f name) fargs]) := by
  obtain ⟨d', ni, no, metas, hd', _, _, parts, ho, hr⟩ := exportNode_ok h
  rw [hd] at hd'; cases hd'
  simp only [exportOp, hop] at ho
  obtain ⟨sym, fargs, sig, hf, hp⟩ := exportLoadFunc_ok ho
  obtain ⟨f, name, hs, rfl, hk⟩ := findFuncInput_some hf
  subst hp
  simp only [Option.map_some, Option.some.injEq] at hr
  subst hr
  exact ⟨f, name, sig, fargs, hs, hk, rfl⟩

theorem exportSymbol_name {name : String} {ps : List TypeParam} {b : Sig} {sym : Symbol}
    (h : exportSymbol name ps b = .ok sym) : sym.name = name := by
  unfold exportSymbol at h
  split at h
  · cases h
  · cases h; rfl

/-- a function definition / declaration is exported under the name mangled with its own index -/
theorem exportNode_func {dfuel fuel : Nat} {cs : Classes} {s : St} {st st' : Names} {f : Nat} {r : Option Node}
    {name : String} (hop : (∃ q, getOp s f = .ok (.funcDecl name q)) ∨ (∃ i ps o, getOp s f = .ok (.funcDefn name i ps o)))
    (h : exportNode dfuel (fuel + 1) cs s st f = .ok (r, st')) :
    ∃ nd sym, r = some nd ∧ (nd.operation = .defineFunc sym ∨ nd.operation = .declareFunc sym) ∧
      sym.name = mangleName f name := by
  obtain ⟨d, ni, no, metas, hd, _, _, parts, ho, hr⟩ := exportNode_ok h
  have hg : getOp s f = .ok d.op := by simp [getOp, hd]
  rcases hop with ⟨q, hq⟩ | ⟨i, ps, o, hq⟩
  · rw [hg] at hq
    have hq' : d.op = .funcDecl name q := by injection hq
    simp only [exportOp, hq'] at ho
    split at ho
    · cases ho
    · rename_i sym hs
      cases ho
      exact ⟨_, sym, hr, .inr rfl, exportSymbol_name hs⟩
  · rw [hg] at hq
    have hq' : d.op = .funcDefn name i ps o := by injection hq
    simp only [exportOp, hq'] at ho
    split at ho
    · cases ho
    · split at ho
      · cases ho
      · rename_i sym hs
        split at ho
        · cases ho
        · cases ho
          exact ⟨_, sym, hr, .inl rfl, exportSymbol_name hs⟩

/-! ### the module region -/

theorem exportChildren_mem {rec : Rec} {st st' : Names} {kids : List Nat} {nds : List Node} {c : Nat}
    (h : exportChildren rec st kids = .ok (nds, st')) (hc : c ∈ kids) :
    ∃ st1 r st2, rec st1 c = .ok (r, st2) ∧ ∀ nd, r = some nd → nd ∈ nds := by
  induction kids generalizing st nds with
  | nil => cases hc
  | cons k rest ih =>
    unfold exportChildren at h
    split at h
    · cases h
    · rename_i nd? st1 hk
      split at h
      · cases h
      · rename_i nds' st2 hrest
        cases h
        rcases List.mem_cons.1 hc with e | e
        · subst e
          refine ⟨st, nd?, st1, hk, ?_⟩
          intro nd hnd; subst hnd; simp
        · obtain ⟨sa, r, sb, hr, hm⟩ := ih hrest e
          refine ⟨sa, r, sb, hr, fun nd hnd => ?_⟩
          have := hm nd hnd
          cases nd? <;> simp [this]

/-- the exported children of the module region are the exported children of the root, in order:
    the result of `exportChildren` is the concatenation of the results of the recursive calls -/
theorem exportChildren_length_le {rec : Rec} {st st' : Names} {kids : List Nat} {nds : List Node}
    (h : exportChildren rec st kids = .ok (nds, st')) : nds.length ≤ kids.length := by
  induction kids generalizing st nds with
  | nil => cases h; simp
  | cons k rest ih =>
    unfold exportChildren at h
    split at h
    · cases h
    · rename_i nd? st1 hk
      split at h
      · cases h
      · rename_i nds' st2 hrest
        cases h
        have := ih hrest
        cases nd? <;> simp <;> omega

theorem funcSymbolsNodes_mem {nds : List Node} {nd : Node} {sym : Symbol} (hm : nd ∈ nds)
    (ho : nd.operation = .defineFunc sym ∨ nd.operation = .declareFunc sym) :
    sym.name ∈ ExportSpec.funcSymbolsNodes nds := by
  induction nds with
  | nil => cases hm
  | cons x rest ih =>
    unfold ExportSpec.funcSymbolsNodes
    rcases List.mem_cons.1 hm with e | e
    · subst e
      apply List.mem_append_left
      cases nd with
      | mk o ins outs regions metas sig =>
        simp only [Node.operation] at ho
        unfold ExportSpec.funcSymbolsNode
        rcases ho with rfl | rfl <;> simp
    · exact List.mem_append_right _ (ih e)

theorem exportModuleWith_ok {mkRec : Classes → St → Rec} {s : St} {m : Module} (h : exportModuleWith mkRec s = .ok m) :
    ∃ d nds st', Store.getNode s s.root = .ok d ∧
      exportChildren (mkRec (classes (Store.linksList s)) s) [] (d.children.map (·.1)) = .ok (nds, st') ∧
      m.root = .mk .module [] [] nds [] none := by
  unfold exportModuleWith at h
  simp only at h
  split at h
  · cases h
  · rename_i r st1 hr
    cases h
    unfold exportRegionModule at hr
    split at hr
    · cases hr
    · rename_i d hd
      split at hr
      · cases hr
      · rename_i nds st2 hc
        cases hr
        exact ⟨d, nds, _, hd, hc, rfl⟩

/-- **Every function that is a child of the module root is a symbol of the exported module**, under its
    own mangled name. -/
theorem module_defines_func {dfuel fuel : Nat} {s : St} {m : Module} {f : Nat} {name : String}
    (hm : exportModule dfuel (fuel + 1) s = .ok m) (hf : f ∈ ExportSpec.childIdxs s s.root)
    (hop : (∃ q, getOp s f = .ok (.funcDecl name q)) ∨ (∃ i ps o, getOp s f = .ok (.funcDefn name i ps o))) :
    mangleName f name ∈ ExportSpec.funcSymbolsRegion m.root := by
  obtain ⟨d, nds, st', hd, hc, hroot⟩ := exportModuleWith_ok hm
  have hf' : f ∈ d.children.map (·.1) := by simpa [ExportSpec.childIdxs, hd] using hf
  obtain ⟨st1, r, st2, hr, hmem⟩ := exportChildren_mem hc hf'
  obtain ⟨nd, sym, rfl, ho, hn⟩ := exportNode_func hop hr
  rw [hroot]
  unfold ExportSpec.funcSymbolsRegion
  rw [← hn]
  exact funcSymbolsNodes_mem (hmem nd rfl) ho

/-! ### the table of link names is threaded through the whole export: it only grows, and stays well formed -/

/-- `st'` was reached from `st` by `link_name` calls only -/
def Good (st st' : Names) : Prop := Extends st st' ∧ (NamesInv st → NamesInv st')

theorem Good.refl (st : Names) : Good st st := ⟨Extends.refl _, id⟩
theorem Good.trans {a b c : Names} (h1 : Good a b) (h2 : Good b c) : Good a c :=
  ⟨h1.1.trans h2.1, fun h => h2.2 (h1.2 h)⟩

theorem linkName_good (cs : Classes) (st : Names) (p : DPort) : Good st (linkName cs st p).2 :=
  ⟨linkName_extends cs st p, linkName_inv cs st p⟩
theorem linkNames_good (cs : Classes) (st : Names) (ps : List DPort) : Good st (linkNames cs st ps).2 :=
  ⟨linkNames_extends cs st ps, linkNames_inv cs st ps⟩

/-- the recursive call only makes `link_name` calls -/
def RecGood (rec : Rec) : Prop := ∀ st c r st', rec st c = .ok (r, st') → Good st st'

theorem exportChildren_good {rec : Rec} (hrec : RecGood rec) {st st' : Names} {kids : List Nat} {nds : List Node}
    (h : exportChildren rec st kids = .ok (nds, st')) : Good st st' := by
  induction kids generalizing st nds with
  | nil => cases h; exact Good.refl _
  | cons k rest ih =>
    unfold exportChildren at h
    split at h
    · cases h
    · rename_i nd? st1 hk
      split at h
      · cases h
      · rename_i nds' st2 hrest
        cases h
        exact (hrec _ _ _ _ hk).trans (ih hrest)

theorem dfgStep_good {rec : Rec} (hrec : RecGood rec) {cs : Classes} {s : St} {a a' : DfgAcc} {c : Nat}
    (h : dfgStep rec cs s a c = .ok a') : Good a.st a'.st := by
  unfold dfgStep at h
  split at h
  · cases h
  · split at h
    · cases h
    · cases h; exact linkNames_good _ _ _
  · split at h
    · cases h
    · split at h
      · cases h
      · cases h; exact linkNames_good _ _ _
  · split at h
    · cases h
    · rename_i st1 hr; cases h; exact hrec _ _ _ _ hr
    · rename_i nd st1 hr
      split at h
      · cases h
      · cases h; exact hrec _ _ _ _ hr

theorem dfgLoop_good {rec : Rec} (hrec : RecGood rec) {cs : Classes} {s : St} {a a' : DfgAcc} {kids : List Nat}
    (h : dfgLoop rec cs s a kids = .ok a') : Good a.st a'.st := by
  induction kids generalizing a with
  | nil => cases h; exact Good.refl _
  | cons c rest ih =>
    unfold dfgLoop at h
    split at h
    · cases h
    · rename_i a1 h1; exact (dfgStep_good hrec h1).trans (ih h)

theorem exportRegionDfg_good {rec : Rec} (hrec : RecGood rec) {cs : Classes} {s : St} {st st' : Names} {p : Nat}
    {r : Region} (h : exportRegionDfg rec cs s st p = .ok (r, st')) : Good st st' := by
  unfold exportRegionDfg at h
  split at h
  · cases h
  · split at h
    · cases h
    · rename_i a ha; cases h; exact dfgLoop_good hrec ha

theorem cfgEntry_good {cs : Classes} {a a' : CfgAcc} {c : Nat} {inputs : List Ty}
    (h : cfgEntry cs a c inputs = .ok a') : Good a.st a'.st := by
  unfold cfgEntry at h
  split at h
  · cases h; exact Good.refl _
  · split at h
    · cases h
    · cases h; exact linkName_good _ _ _

theorem cfgChild_good {rec : Rec} (hrec : RecGood rec) {a a' : CfgAcc} {c : Nat}
    (h : cfgChild rec a c = .ok a') : Good a.st a'.st := by
  unfold cfgChild at h
  split at h
  · cases h
  · rename_i st1 hr; cases h; exact hrec _ _ _ _ hr
  · rename_i nd st1 hr; cases h; exact hrec _ _ _ _ hr

theorem cfgStep_good {rec : Rec} (hrec : RecGood rec) {cs : Classes} {s : St} {a a' : CfgAcc} {c : Nat}
    (h : cfgStep rec cs s a c = .ok a') : Good a.st a'.st := by
  unfold cfgStep at h
  split at h
  · cases h
  · split at h
    · cases h
    · split at h
      · cases h
      · cases h; exact linkName_good _ _ _
  · split at h
    · cases h
    · rename_i a1 h1; exact (cfgEntry_good h1).trans (cfgChild_good hrec h)
  · cases h

theorem cfgLoop_good {rec : Rec} (hrec : RecGood rec) {cs : Classes} {s : St} {a a' : CfgAcc} {kids : List Nat}
    (h : cfgLoop rec cs s a kids = .ok a') : Good a.st a'.st := by
  induction kids generalizing a with
  | nil => cases h; exact Good.refl _
  | cons c rest ih =>
    unfold cfgLoop at h
    split at h
    · cases h
    · rename_i a1 h1; exact (cfgStep_good hrec h1).trans (ih h)

theorem exportRegionCfg_good {rec : Rec} (hrec : RecGood rec) {cs : Classes} {s : St} {st st' : Names} {p : Nat}
    {r : Region} (h : exportRegionCfg rec cs s st p = .ok (r, st')) : Good st st' := by
  unfold exportRegionCfg at h
  split at h
  · cases h
  · split at h
    · cases h
    · rename_i a ha
      split at h
      · cases h
      · cases h; exact cfgLoop_good hrec ha

theorem exportCaseRegions_good {rec : Rec} (hrec : RecGood rec) {cs : Classes} {s : St} {st st' : Names}
    {kids : List Nat} {rs : List Region} (h : exportCaseRegions rec cs s st kids = .ok (rs, st')) : Good st st' := by
  induction kids generalizing st rs with
  | nil => cases h; exact Good.refl _
  | cons c rest ih =>
    unfold exportCaseRegions at h
    split at h
    · cases h
    · rename_i r st1 h1
      split at h
      · cases h
      · rename_i rs' st2 h2
        cases h
        exact (exportRegionDfg_good hrec h1).trans (ih h2)

theorem exportCaseRegions_length {rec : Rec} {cs : Classes} {s : St} {st st' : Names}
    {kids : List Nat} {rs : List Region} (h : exportCaseRegions rec cs s st kids = .ok (rs, st')) :
    rs.length = kids.length := by
  induction kids generalizing st rs with
  | nil => cases h; rfl
  | cons c rest ih =>
    unfold exportCaseRegions at h
    split at h
    · cases h
    · split at h
      · cases h
      · rename_i rs' st2 h2
        cases h
        simp [ih h2]

theorem customNode_good {name : String} {args : List TypeArg} {sig : Sig} {st st' : Names} {parts : Parts}
    (h : customNode name args sig st = .ok (parts, st')) : Good st st' ∧ parts.isSome = true := by
  unfold customNode at h
  repeat' split at h
  all_goals cases h
  exact ⟨Good.refl _, rfl⟩

theorem dfgLike_good {rec : Rec} (hrec : RecGood rec) {cs : Classes} {s : St} {st st' : Names} {n : Nat} {op : Op}
    {o : Operation} {parts : Parts} (h : dfgLike rec cs s st n op o = .ok (parts, st')) :
    Good st st' ∧ parts.isSome = true := by
  unfold dfgLike at h
  split at h
  · cases h
  · rename_i r st1 hr
    repeat' split at h
    all_goals cases h
    exact ⟨exportRegionDfg_good hrec hr, rfl⟩

theorem exportCall_good {s : St} {st st' : Names} {n : Nat} {d : Store.NodeData Op Serial.Meta} {inst : Sig}
    {args : List TypeArg} {parts : Parts} (h : exportCall s st n d inst args = .ok (parts, st')) :
    Good st st' ∧ parts.isSome = true := by
  unfold exportCall at h
  repeat' split at h
  all_goals cases h
  exact ⟨Good.refl _, rfl⟩

theorem exportLoadFunc_good {s : St} {st st' : Names} {n : Nat} {d : Store.NodeData Op Serial.Meta} {inst : Sig}
    {args : List TypeArg} {parts : Parts} (h : exportLoadFunc s st n d inst args = .ok (parts, st')) :
    Good st st' ∧ parts.isSome = true := by
  unfold exportLoadFunc at h
  repeat' split at h
  all_goals cases h
  exact ⟨Good.refl _, rfl⟩

theorem exportCallIndirect_good {st st' : Names} {sig? : Option Sig} {parts : Parts}
    (h : exportCallIndirect st sig? = .ok (parts, st')) : Good st st' ∧ parts.isSome = true := by
  unfold exportCallIndirect at h
  repeat' split at h
  all_goals cases h
  exact ⟨Good.refl _, rfl⟩

theorem exportLoadConst_good {body : Json → Except Err Region} {s : St} {st st' : Names} {n : Nat}
    {d : Store.NodeData Op Serial.Meta} {typ? : Option Ty} {parts : Parts}
    (h : exportLoadConst body s st n d typ? = .ok (parts, st')) : Good st st' ∧ parts.isSome = true := by
  unfold exportLoadConst at h
  repeat' split at h
  all_goals cases h
  exact ⟨Good.refl _, rfl⟩

theorem exportTag_good {st st' : Names} {tag : Int} {sum : SumTy} {parts : Parts}
    (h : exportTag st tag sum = .ok (parts, st')) : Good st st' ∧ parts.isSome = true := by
  unfold exportTag at h
  repeat' split at h
  all_goals cases h
  exact ⟨Good.refl _, rfl⟩

theorem exportBlock_good {rec : Rec} (hrec : RecGood rec) {cs : Classes} {s : St} {st st' : Names} {n : Nat}
    {inputs : List Ty} {sum? : Option SumTy} {other? : Option (List Ty)} {parts : Parts}
    (h : exportBlock rec cs s st n inputs sum? other? = .ok (parts, st')) : Good st st' ∧ parts.isSome = true := by
  unfold exportBlock at h
  split at h
  · cases h
  · rename_i r st1 hr
    repeat' split at h
    all_goals cases h
    exact ⟨exportRegionDfg_good hrec hr, rfl⟩

/-- the `match node_data.op` only makes `link_name` calls, and only a `Const` is not exported -/
theorem exportOp_good {rec : Rec} (hrec : RecGood rec) {body : Json → Except Err Region} {cs : Classes} {s : St}
    {st st' : Names} {n : Nat} {d : Store.NodeData Op Serial.Meta} {parts : Parts}
    (h : exportOp rec body cs s st n d = .ok (parts, st')) :
    Good st st' ∧ (parts = none → ∃ v, d.op = .const v) := by
  have key : ∀ {p : Parts}, Good st st' ∧ p.isSome = true → p = parts → Good st st' ∧ (parts = none → ∃ v, d.op = .const v) := by
    intro p hp e; subst e; exact ⟨hp.1, fun e => by simp [e] at hp⟩
  unfold exportOp at h
  split at h
  · exact key (dfgLike_good hrec h) rfl
  · exact key (customNode_good h) rfl
  · split at h
    · cases h
    · exact key (customNode_good h) rfl
  · split at h
    · cases h
    · exact key (customNode_good h) rfl
  · split at h
    · cases h
    · exact key (customNode_good h) rfl
  · split at h
    · cases h
    · exact key (customNode_good h) rfl
  · split at h
    · cases h
    · rename_i rs st1 hc
      repeat' split at h
      all_goals cases h
      exact ⟨exportCaseRegions_good hrec hc, fun e => by cases e⟩
  · exact key (dfgLike_good hrec h) rfl
  · split at h
    · cases h
    · split at h
      · cases h
      · split at h
        · cases h
        · rename_i r st1 hr
          cases h
          exact ⟨exportRegionDfg_good hrec hr, fun e => by cases e⟩
  · split at h
    · cases h
    · cases h; exact ⟨Good.refl _, fun e => by cases e⟩
  · cases h; exact ⟨Good.refl _, fun e => by cases e⟩
  · split at h
    · cases h
    · cases h; exact ⟨Good.refl _, fun e => by cases e⟩
  · exact key (exportCall_good h) rfl
  · exact key (exportLoadFunc_good h) rfl
  · exact key (exportCallIndirect_good h) rfl
  · exact key (exportLoadConst_good h) rfl
  · rename_i v hv; cases h; exact ⟨Good.refl _, fun _ => ⟨v, hv⟩⟩
  · split at h
    · cases h
    · split at h
      · cases h
      · split at h
        · cases h
        · rename_i r st1 hr
          cases h
          exact ⟨exportRegionCfg_good hrec hr, fun e => by cases e⟩
  · exact key (exportBlock_good hrec h) rfl
  · exact key (exportTag_good h) rfl
  all_goals cases h

/-- **Threading**: every `export_node` call only adds `link_name` entries to the table and keeps it well
    formed, and returns `None` only for a `Const`. -/
theorem exportNode_good (dfuel : Nat) : ∀ (fuel : Nat) (cs : Classes) (s : St), RecGood (exportNode dfuel fuel cs s)
  | 0, _, _ => by intro st c r st' h; simp [exportNode] at h
  | fuel + 1, cs, s => by
    intro st c r st' h
    obtain ⟨d, ni, no, metas, _, _, _, parts, ho, _⟩ := exportNode_ok h
    exact ((linkNames_good cs st _).trans (linkNames_good cs _ _)).trans
      (exportOp_good (exportNode_good dfuel fuel cs s) ho).1

theorem exportNode_none {dfuel fuel : Nat} {cs : Classes} {s : St} {st st' : Names} {n : Nat}
    (h : exportNode dfuel (fuel + 1) cs s st n = .ok (none, st')) :
    ∃ d v, Store.getNode s n = .ok d ∧ d.op = .const v := by
  obtain ⟨d, ni, no, metas, hd, _, _, parts, ho, hr⟩ := exportNode_ok h
  cases parts with
  | some x => cases hr
  | none =>
    obtain ⟨v, hv⟩ := (exportOp_good (exportNode_good dfuel fuel cs s) ho).2 rfl
    exact ⟨d, v, hd, hv⟩

/-- the final table of a whole-module export is well formed -/
theorem exportChildren_names {dfuel fuel : Nat} {cs : Classes} {s : St} {kids : List Nat} {nds : List Node}
    {st' : Names} (h : exportChildren (exportNode dfuel fuel cs s) [] kids = .ok (nds, st')) : NamesInv st' :=
  (exportChildren_good (exportNode_good dfuel fuel cs s) h).2 namesInv_nil

/-! ### region sources and targets [F22] -/

theorem dfgStep_sources {rec : Rec} {cs : Classes} {s : St} {a a' : DfgAcc} {c : Nat}
    (h : dfgStep rec cs s a c = .ok a') :
    (∀ ts, getOp s c = .ok (.input ts) → a'.sources.length = ts.length) ∧
    ((∀ ts, getOp s c ≠ .ok (.input ts)) → a'.sources = a.sources) := by
  unfold dfgStep at h
  split at h
  · cases h
  · rename_i ts hc
    split at h
    · cases h
    · cases h
      refine ⟨fun ts' e => ?_, fun hne => absurd hc (hne ts)⟩
      rw [hc] at e; cases e
      simp [linkNames_length, outPorts_length]
  · rename_i ts? hc
    split at h
    · cases h
    · split at h
      · cases h
      · cases h
        exact ⟨fun ts' e => (by rw [hc] at e; cases e), fun _ => rfl⟩
  · rename_i op hni hno hc
    have key : ∀ ts', getOp s c = .ok (.input ts') → False := fun ts' e =>
      hni ts' (Except.ok.inj (hc.symm.trans e))
    split at h
    · cases h
    · cases h; exact ⟨fun ts' e => (key ts' e).elim, fun _ => rfl⟩
    · split at h
      · cases h
      · cases h; exact ⟨fun ts' e => (key ts' e).elim, fun _ => rfl⟩

theorem dfgStep_targets {rec : Rec} {cs : Classes} {s : St} {a a' : DfgAcc} {c : Nat}
    (h : dfgStep rec cs s a c = .ok a') :
    (∀ ts, getOp s c = .ok (.output (some ts)) → a'.targets.length = ts.length) ∧
    ((∀ ts, getOp s c ≠ .ok (.output ts)) → a'.targets = a.targets) := by
  unfold dfgStep at h
  split at h
  · cases h
  · rename_i ts hc
    split at h
    · cases h
    · cases h
      exact ⟨fun ts' e => (by rw [hc] at e; cases e), fun _ => rfl⟩
  · rename_i ts? hc
    split at h
    · cases h
    · rename_i ts
      split at h
      · cases h
      · cases h
        refine ⟨fun ts' e => ?_, fun hne => absurd hc (hne _)⟩
        rw [hc] at e; cases e
        simp [linkNames_length, inPorts_length]
  · rename_i op hni hno hc
    have key : ∀ ts', getOp s c = .ok (.output ts') → False := fun ts' e =>
      hno ts' (Except.ok.inj (hc.symm.trans e))
    split at h
    · cases h
    · cases h; exact ⟨fun ts' e => (key _ e).elim, fun _ => rfl⟩
    · split at h
      · cases h
      · cases h; exact ⟨fun ts' e => (key _ e).elim, fun _ => rfl⟩

theorem dfgLoop_sources_keep {rec : Rec} {cs : Classes} {s : St} {a a' : DfgAcc} {kids : List Nat}
    (hno : ∀ x ∈ kids, ∀ ts, getOp s x ≠ .ok (.input ts))
    (h : dfgLoop rec cs s a kids = .ok a') : a'.sources = a.sources := by
  induction kids generalizing a with
  | nil => cases h; rfl
  | cons c rest ih =>
    unfold dfgLoop at h
    split at h
    · cases h
    · rename_i a1 h1
      rw [ih (fun x hx => hno x (List.mem_cons_of_mem _ hx)) h, (dfgStep_sources h1).2 (hno c (by simp))]

theorem dfgLoop_targets_keep {rec : Rec} {cs : Classes} {s : St} {a a' : DfgAcc} {kids : List Nat}
    (hno : ∀ x ∈ kids, ∀ ts, getOp s x ≠ .ok (.output ts))
    (h : dfgLoop rec cs s a kids = .ok a') : a'.targets = a.targets := by
  induction kids generalizing a with
  | nil => cases h; rfl
  | cons c rest ih =>
    unfold dfgLoop at h
    split at h
    · cases h
    · rename_i a1 h1
      rw [ih (fun x hx => hno x (List.mem_cons_of_mem _ hx)) h, (dfgStep_targets h1).2 (hno c (by simp))]

theorem dfgLoop_split {rec : Rec} {cs : Classes} {s : St} {a a' : DfgAcc} {pre post : List Nat} {c : Nat}
    (h : dfgLoop rec cs s a (pre ++ c :: post) = .ok a') :
    ∃ a0 a1, dfgLoop rec cs s a pre = .ok a0 ∧ dfgStep rec cs s a0 c = .ok a1 ∧ dfgLoop rec cs s a1 post = .ok a' := by
  induction pre generalizing a with
  | nil =>
    simp only [List.nil_append] at h
    unfold dfgLoop at h
    split at h
    · cases h
    · rename_i a1 h1; exact ⟨a, a1, rfl, h1, h⟩
  | cons k rest ih =>
    simp only [List.cons_append] at h
    unfold dfgLoop at h
    split at h
    · cases h
    · rename_i a1 h1
      obtain ⟨a0, a2, e0, e1, e2⟩ := ih h
      refine ⟨a0, a2, ?_, e1, e2⟩
      unfold dfgLoop
      rw [h1]; exact e0

/-- **Sources** [F22]: the region lists one source per type of its (last) `Input` child, whatever the
    store's tracked port counters say. -/
theorem exportRegionDfg_sources {rec : Rec} {cs : Classes} {s : St} {st st' : Names} {p : Nat} {r : Region}
    (h : exportRegionDfg rec cs s st p = .ok (r, st'))
    {pre post : List Nat} {c : Nat} {ts : List Ty} (hk : ExportSpec.childIdxs s p = pre ++ c :: post)
    (hc : getOp s c = .ok (.input ts)) (hpost : ∀ x ∈ post, ∀ ts', getOp s x ≠ .ok (.input ts')) :
    r.sources.length = ts.length := by
  unfold exportRegionDfg at h
  split at h
  · cases h
  · rename_i d hd
    split at h
    · cases h
    · rename_i a ha
      cases h
      have hk' : d.children.map (·.1) = pre ++ c :: post := by simpa [ExportSpec.childIdxs, hd] using hk
      rw [hk'] at ha
      obtain ⟨a0, a1, _, e1, e2⟩ := dfgLoop_split ha
      simp only [Region.sources]
      rw [dfgLoop_sources_keep hpost e2]
      exact (dfgStep_sources e1).1 ts hc

/-- **Targets** [F22]: one target per type of the (last) `Output` child. -/
theorem exportRegionDfg_targets {rec : Rec} {cs : Classes} {s : St} {st st' : Names} {p : Nat} {r : Region}
    (h : exportRegionDfg rec cs s st p = .ok (r, st'))
    {pre post : List Nat} {c : Nat} {ts : List Ty} (hk : ExportSpec.childIdxs s p = pre ++ c :: post)
    (hc : getOp s c = .ok (.output (some ts))) (hpost : ∀ x ∈ post, ∀ ts', getOp s x ≠ .ok (.output ts')) :
    r.targets.length = ts.length := by
  unfold exportRegionDfg at h
  split at h
  · cases h
  · rename_i d hd
    split at h
    · cases h
    · rename_i a ha
      cases h
      have hk' : d.children.map (·.1) = pre ++ c :: post := by simpa [ExportSpec.childIdxs, hd] using hk
      rw [hk'] at ha
      obtain ⟨a0, a1, _, e1, e2⟩ := dfgLoop_split ha
      simp only [Region.targets]
      rw [dfgLoop_targets_keep hpost e2]
      exact (dfgStep_targets e1).1 ts hc

/-- **Control-flow regions** [F23]: exactly one source; it is the link name of the first block's control
    input, i.e. the name recorded for the root of `InPort(entry, 0)`. -/
theorem exportRegionCfg_source {rec : Rec} {cs : Classes} {s : St} {st st' : Names} {p : Nat} {r : Region}
    (h : exportRegionCfg rec cs s st p = .ok (r, st')) : r.sources.length = 1 ∧ r.kind = .controlFlow := by
  unfold exportRegionCfg at h
  repeat' split at h
  all_goals cases h
  exact ⟨rfl, rfl⟩

end HugrVerif.ExportProofs
