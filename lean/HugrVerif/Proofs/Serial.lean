/-
  Lemmas about `Serial.toSerial` (C03, C02): index sanity of the emitted document and port
  addressing of order edges.
-/
import HugrVerif.Serial
import HugrVerif.Proofs.StoreOrder

namespace HugrVerif.Serial
open HugrVerif HugrVerif.Store HugrVerif.Py

variable {Ω : Type}

theorem indexOf_spec (i : Nat) : ∀ (l : List Nat) (k0 k : Nat), indexOf i l k0 = some k →
    k0 ≤ k ∧ k - k0 < l.length ∧ l[k - k0]? = some i := by
  intro l
  induction l with
  | nil => intro k0 k h; simp [indexOf] at h
  | cons x xs ih =>
    intro k0 k h
    unfold indexOf at h
    by_cases hx : x = i
    · simp [hx] at h; subst h; simp [hx]
    · simp only [hx, if_false] at h
      obtain ⟨h1, h2, h3⟩ := ih (k0 + 1) k h
      refine ⟨by omega, by simp; omega, ?_⟩
      have : k - k0 = (k - (k0 + 1)) + 1 := by omega
      rw [this]; simpa using h3

/-- an element of a prefix is found, and found inside the prefix -/
theorem indexOf_mem_prefix (i : Nat) : ∀ (pre rest : List Nat) (k0 : Nat), i ∈ pre →
    ∃ k, indexOf i (pre ++ rest) k0 = some k ∧ k < k0 + pre.length := by
  intro pre
  induction pre with
  | nil => intro rest k0 h; simp at h
  | cons x xs ih =>
    intro rest k0 h
    by_cases hx : x = i
    · exact ⟨k0, by simp [indexOf, hx], by simp⟩
    · have hm : i ∈ xs := by
        rcases List.mem_cons.mp h with e | e
        · exact absurd e.symm hx
        · exact e
      obtain ⟨k, e, hk⟩ := ih rest (k0 + 1) hm
      exact ⟨k, by simp [indexOf, hx, e], by simp; omega⟩

theorem rekey_lt (order : List Nat) (i k : Nat) (h : rekey order i = .ok k) : k < order.length := by
  unfold rekey at h
  cases hi : indexOf i order 0 with
  | none => simp [hi] at h
  | some k' =>
    simp [hi] at h; subst h
    have := (indexOf_spec i order 0 k' hi).2.1
    simpa using this

/-- the walk starts with the root and only appends -/
theorem hierLoop_prefix (s : Store Ω Meta) : ∀ (fuel : Nat) (ready : List Nat) (ns : Dict Nat Nat)
    (acc order : List Nat), hierLoop s fuel ready ns acc = .ok order → ∃ t, order = acc ++ t := by
  intro fuel
  induction fuel with
  | zero => intro ready ns acc order h; simp [hierLoop] at h; exact ⟨[], by simp [h]⟩
  | succ f ih =>
    intro ready ns acc order h
    unfold hierLoop at h
    cases hp : popMin ready with
    | none => simp [hp] at h; exact ⟨[], by simp [h]⟩
    | some r =>
      obtain ⟨idx, rest⟩ := r
      simp only [hp] at h
      cases hd : getNode s idx with
      | error e => simp [hd] at h
      | ok d =>
        simp only [hd] at h
        split at h
        · obtain ⟨t, e⟩ := ih _ _ _ _ h; exact ⟨idx :: t, by simp [e]⟩
        · obtain ⟨t, e⟩ := ih _ _ _ _ h; exact ⟨idx :: t, by simp [e]⟩

theorem hierLoop_head (s : Store Ω Meta) (order : List Nat)
    (h : hierLoop s (s.nodes.length + 1) [s.root] [] [] = .ok order) : order.head? = some s.root := by
  unfold hierLoop at h
  simp only [popMin] at h
  cases hd : getNode s s.root with
  | error e => simp [hd] at h
  | ok d =>
    simp only [hd] at h
    split at h
    · obtain ⟨t, e⟩ := hierLoop_prefix s _ _ _ _ _ h; simp [e]
    · obtain ⟨t, e⟩ := hierLoop_prefix s _ _ _ _ _ h; simp [e]

/-- The parent index written for the `k`-th serialised node. -/
def parentIndex (s : St Ω) (order : List Nat) (i : Nat) : Except Err Nat :=
  match liftS (Store.getNode s i) with
  | .error e => .error e
  | .ok d => rekey order (d.parent.getD i)

theorem serialNode_parent (c : OpCodec Ω) (s : St Ω) (order : List Nat) (i : Nat) (r : Json × Option Meta)
    (h : serialNode c s order i = .ok r) :
    ∃ d p, Store.getNode s i = .ok d ∧ parentIndex s order i = .ok p ∧ c.enc d.op p = .ok r.1 := by
  unfold serialNode at h
  cases hd : Store.getNode s i with
  | error e => simp [hd, liftS] at h
  | ok d =>
    simp only [hd, liftS] at h
    cases hp : rekey order (d.parent.getD i) with
    | error e => simp [hp] at h
    | ok p =>
      simp only [hp] at h
      cases he : c.enc d.op p with
      | error e => simp [he, liftO] at h
      | ok j =>
        simp only [he, liftO] at h
        injection h with h; subst h
        exact ⟨d, p, rfl, by simp [parentIndex, hd, liftS, hp], he⟩

/-- **Index sanity of the node list**: the node at position 0 is the root and its own parent; the
    parent written for the node at position `k > 0` is an earlier position. -/
theorem parents_listed_earlier (s : St Ω) (hh : HierInv s)
    (hroot : ∀ d, Store.getNode s s.root = .ok d → d.parent = none)
    (hnone : ∀ i d, Store.getNode s i = .ok d → d.parent = none → i = s.root)
    (order : List Nat) (hl : hierLoop s (s.nodes.length + 1) [s.root] [] [] = .ok order) :
    (∀ p, order[0]? = some s.root ∧ (parentIndex s order s.root = .ok p → p = 0)) ∧
    (∀ k i p, 0 < k → order[k]? = some i → parentIndex s order i = .ok p → p < k) := by
  have hpf := hierLoop_root_parentFirst s hh (fun d p hd hp => by rw [hroot d hd] at hp; cases hp) order hl
  have hhead := hierLoop_head s order hl
  have h0 : order[0]? = some s.root := by
    cases order with
    | nil => simp at hhead
    | cons x xs => simpa using hhead
  have root_idx : indexOf s.root order 0 = some 0 := by
    cases order with
    | nil => simp at h0
    | cons x xs => simp at h0; simp [indexOf, h0]
  refine ⟨fun p => ⟨h0, ?_⟩, ?_⟩
  · intro hp
    unfold parentIndex at hp
    cases hd : Store.getNode s s.root with
    | error e => simp [hd, liftS] at hp
    | ok d =>
      simp only [hd, liftS, hroot d hd, Option.getD_none, rekey, root_idx] at hp
      injection hp with hp; exact hp.symm
  · intro k i p hk hik hp
    unfold parentIndex at hp
    cases hd : Store.getNode s i with
    | error e => simp [hd, liftS] at hp
    | ok d =>
      simp only [hd, liftS] at hp
      cases hpar : d.parent with
      | none =>
        have : i = s.root := hnone i d hd hpar
        subst this
        simp only [hpar, Option.getD_none, rekey, root_idx] at hp
        injection hp with hp; omega
      | some q =>
        simp only [hpar, Option.getD_some] at hp
        -- split the order at position k
        have hlt : k < order.length := (List.getElem?_eq_some_iff.mp hik).1
        have hsplit : order = order.take k ++ i :: order.drop (k + 1) := by
          have := List.getElem?_eq_some_iff.mp hik
          rw [← this.2]
          exact (List.take_append_drop k order).symm.trans (by rw [List.drop_eq_getElem_cons hlt])
        have hq : q ∈ order.take k := hpf (order.take k) i (order.drop (k + 1)) hsplit d q hd hpar
        obtain ⟨k', e', hk'⟩ := indexOf_mem_prefix q (order.take k) (i :: order.drop (k + 1)) 0 hq
        rw [← hsplit] at e'
        simp only [rekey, e'] at hp
        injection hp with hp
        have : (order.take k).length = k := by simp; omega
        omega

/-- **Both endpoints of every serialised edge name an existing node.** -/
theorem serialLink_in_range (c : OpCodec Ω) (s : St Ω) (order : List Nat) (e : SubPort × SubPort) (ed : Edge)
    (h : serialLink c s order e = .ok ed) : ed.src < order.length ∧ ed.dst < order.length := by
  unfold serialLink at h
  cases h1 : constrainOffset c s e.1.node e.1.offset false with
  | error er => simp [h1] at h
  | ok so =>
    simp only [h1] at h
    cases h2 : constrainOffset c s e.2.node e.2.offset true with
    | error er => simp [h2] at h
    | ok d_ =>
      simp only [h2] at h
      cases ha : rekey order e.1.node with
      | error er => simp [ha] at h
      | ok a =>
        cases hb : rekey order e.2.node with
        | error er => simp [ha, hb] at h
        | ok b =>
          simp only [ha, hb] at h
          injection h with h; subst h
          exact ⟨rekey_lt order _ a ha, rekey_lt order _ b hb⟩

/-- **A state order edge is addressed by the operation's port layout**, independently of how many
    of the node's ports are connected; value and static ports are addressed by their own offset. -/
theorem constrainOffset_order (c : OpCodec Ω) (s : St Ω) (node : Nat) (incoming : Bool)
    (d : Store.NodeData Ω Meta) (k : Nat) (hd : Store.getNode s node = .ok d)
    (hk : c.orderOff d.op incoming = .ok (some k)) :
    constrainOffset c s node (-1) incoming = .ok (k : Int) := by
  simp [constrainOffset, hd, liftS, hk, liftO]

theorem constrainOffset_value (c : OpCodec Ω) (s : St Ω) (node : Nat) (incoming : Bool) (off : Int) (h : 0 ≤ off) :
    constrainOffset c s node off incoming = .ok off := by
  have : ¬ off < 0 := by omega
  simp [constrainOffset, this]

end HugrVerif.Serial
