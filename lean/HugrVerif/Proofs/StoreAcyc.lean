/-
  The hierarchy is acyclic: every live node reaches the root by parent pointers (stated with a
  depth function).  Holds in every state reachable by calls whose node arguments are live nodes
  (`add_node(op, parent)` / `insert_hugr(h, parent)` with a live `parent`).
-/
import HugrVerif.Proofs.StoreHier

namespace HugrVerif.Store
open Py HugrVerif

variable {Ω μ : Type}

/-- some assignment of depths makes every parent shallower than its child -/
def Acyc (s : Store Ω μ) : Prop :=
  ∃ depth : Nat → Nat, ∀ i d p, getNode s i = .ok d → d.parent = some p → depth p < depth i

theorem acyc_of_same (s s' : Store Ω μ) (ha : Acyc s)
    (bwd : ∀ j d', getNode s' j = .ok d' → ∃ d, getNode s j = .ok d ∧ d'.parent = d.parent) : Acyc s' := by
  obtain ⟨depth, hd⟩ := ha
  refine ⟨depth, ?_⟩
  intro i d' p hi hp
  obtain ⟨d, e, a⟩ := bwd i d' hi
  exact hd i d p e (by rw [← a]; exact hp)

theorem acyc_addNodeRaw (s s' : Store Ω μ) (ha : Acyc s) (hh : HierInv s) (hf : FreeInv s) (op : Ω) (p : Nat)
    (numOuts : Option Nat) (m : μ) (i : Nat) (h : addNodeRaw s op (some p) numOuts m = .ok (s', i))
    (hp : ∃ d, getNode s p = .ok d) : Acyc s' := by
  obtain ⟨fresh, _, _, back, _, _, _⟩ := addNodeRaw_spec s s' hf op (some p) numOuts m i h
  obtain ⟨keep, ⟨di, hdi, hpi, _⟩, _⟩ := addNodeRaw_children s s' hf op (some p) numOuts m i h
  obtain ⟨depth, hd⟩ := ha
  have hpi' : p ≠ i := by
    obtain ⟨dp, hdp⟩ := hp
    intro e; subst e; exact fresh dp hdp
  refine ⟨fun j => if j = i then depth p + 1 else depth j, ?_⟩
  intro j d' q hj hq
  by_cases hji : j = i
  · subst hji
    rw [hdi] at hj; injection hj with hj; subst hj
    rw [hpi] at hq; injection hq with hq; subst hq
    simp [hpi']
  · obtain ⟨d, hd0⟩ := back j d' hji hj
    obtain ⟨d'', e, a, _⟩ := keep j d hji hd0
    rw [hj] at e; injection e with e; subst e
    have hq' : d.parent = some q := by rw [← a]; exact hq
    obtain ⟨dq, hdq, _⟩ := hh.parentChild j d q hd0 hq'
    have hqi : q ≠ i := by intro e; subst e; exact fresh dq hdq
    simp only [hji, hqi, if_false]
    exact hd j d q hd0 hq'

theorem acyc_addLink (s s' : Store Ω μ) (ha : Acyc s) (src dst : Port) (h : addLink s src dst = .ok s') :
    Acyc s' := by
  obtain ⟨G, _, _⟩ := addLink_nodes s s' src dst h
  refine acyc_of_same s s' ha ?_
  intro j d' hd'
  obtain ⟨d, hd⟩ := G.bwd j d' hd'
  obtain ⟨d'', e, g⟩ := G.fwd j d hd
  rw [hd'] at e; injection e with e; subst e
  exact ⟨d, hd, g.parent⟩

theorem acyc_deleteLink (s s' : Store Ω μ) (ha : Acyc s) (src dst : Port) (h : deleteLink s src dst = .ok s') :
    Acyc s' := by
  obtain ⟨m', _, rfl⟩ := deleteLink_ok s s' src dst h
  exact acyc_of_same s _ ha (fun j d hd => ⟨d, hd, rfl⟩)

theorem acyc_addOrderLink (s s' : Store Ω μ) (ha : Acyc s) (a b : Nat) (h : addOrderLink s a b = .ok s') :
    Acyc s' := by
  unfold addOrderLink at h
  split at h
  · simp [pure, Except.pure] at h; subst h; exact ha
  · exact acyc_addLink s s' ha _ _ h

theorem acyc_deleteNode (s s' : Store Ω μ) (ha : Acyc s) (hs : SInv s) (node : Nat)
    (h : deleteNode s node = .ok s') : Acyc s' := by
  obtain ⟨⟨d0, h0⟩, _⟩ := deleteNode_spec s s' hs.links hs.bound hs.free node h
  obtain ⟨keep, back⟩ := deleteNode_children s s' hs.links node d0 h0 h
  refine acyc_of_same s s' ha ?_
  intro j d' hd'
  obtain ⟨hj, d, hd⟩ := back j d' hd'
  obtain ⟨d'', e, a, _⟩ := keep j d hj hd
  rw [hd'] at e; injection e with e; subst e
  exact ⟨d, hd, a⟩

theorem acyc_init (rootOp : Ω) (m : μ) : Acyc (init rootOp m) := by
  have hr := root_init rootOp m
  have hh := hier_init rootOp m
  refine ⟨fun _ => 0, ?_⟩
  intro i d p hi hp
  -- the fresh store has a single node: a parent would be live and have a parent chain; but only the root is live
  exfalso
  obtain ⟨dp, hdp, hc⟩ := hh.parentChild i d p hi hp
  -- both i and p are live; show the store has exactly one live node
  have hone : ∀ j dj, getNode (init rootOp m) j = .ok dj → j = 0 := by
    intro j dj hj
    have hlen : (init rootOp m).nodes.length = 1 := by
      simp [init, addNodeRaw, allocSlot, registerChild, setOutsOpt, updateNodeOuts, modifyNode, getNode, setNode,
        bind, Except.bind, pure, Except.pure]
    have := (getNode_ok_iff _ j dj).mp hj
    have := (List.getElem?_eq_some_iff.mp this).1
    omega
  have hi0 := hone i d hi
  have hp0 := hone p dp hdp
  subst hi0; subst hp0
  rw [hi] at hdp; injection hdp with hdp; subst hdp
  have hroot : (init rootOp m).root = 0 := by
    have := hr.only 0 d hi
    simp [init, addNodeRaw, allocSlot, registerChild, setOutsOpt, updateNodeOuts, modifyNode, getNode, setNode,
      bind, Except.bind, pure, Except.pure]
  have := hr.noParent d (by rw [hroot]; exact hi)
  rw [this] at hp; cases hp

def liveN (s : Store Ω μ) (i : Nat) : Prop := ∃ d, getNode s i = .ok d

theorem acyc_insertNodes (b : Store Ω μ) (parent : Option Nat) : ∀ (is : List Nat) (s s' : Store Ω μ)
    (mp mp' : Dict Nat Nat), HierInv s → RootInv s → FreeInv s → Acyc s →
    (∀ p, parent = some p → liveN s p) → (∀ k v, Dict.get k mp = some v → liveN s v) →
    insertNodes s b parent is mp = .ok (s', mp') → Acyc s' := by
  intro is
  induction is with
  | nil => intro s s' mp mp' _ _ _ ha _ _ h; simp [insertNodes] at h; rw [← h.1]; exact ha
  | cons i is ih =>
    intro s s' mp mp' hh hr hf ha hpl hml h
    unfold insertNodes at h
    cases hd : getNode b i with
    | error e => simp [hd] at h
    | ok d =>
      simp only [hd] at h
      cases hp : resolveParent mp parent d.parent with
      | error e => simp [hp] at h
      | ok np =>
        simp only [hp] at h
        cases hadd : addNode s d.op np (some d.numOuts) d.md with
        | error e => simp [hadd] at h
        | ok r =>
          simp only [hadd] at h
          have hlive : liveN s (np.getD s.root) := by
            unfold resolveParent at hp
            cases hdp : d.parent with
            | some q =>
              simp only [hdp] at hp
              cases hg : Dict.get q mp with
              | none => simp [hg] at hp
              | some p' =>
                simp [hg] at hp; subst hp
                exact hml q p' hg
            | none =>
              simp only [hdp] at hp
              injection hp with hp; subst hp
              cases parent with
              | none => exact hr.live
              | some p => exact hpl p rfl
          have hh1 := hier_addNodeRaw s r.1 hh hf _ _ _ _ r.2 hadd
          have hr1 := root_addNodeRaw s r.1 hr hf _ _ _ _ r.2 hadd
          have ha1 := acyc_addNodeRaw s r.1 ha hh hf _ _ _ _ r.2 hadd hlive
          obtain ⟨_, ⟨dn, hdn, _⟩, keep, _, _, _, hf1⟩ := addNodeRaw_spec s r.1 hf _ _ _ _ r.2 hadd
          have mono : ∀ j, liveN s j → liveN r.1 j := by
            intro j ⟨dj, hj⟩
            by_cases hji : j = r.2
            · subst hji; exact ⟨dn, hdn⟩
            · obtain ⟨d', e, _⟩ := keep j dj hji hj
              exact ⟨d', e⟩
          refine ih r.1 s' _ mp' hh1 hr1 hf1 ha1 (fun p hp' => mono p (hpl p hp')) ?_ h
          intro k v hk
          rw [Dict.get_set] at hk
          by_cases hki : k = i
          · simp [hki] at hk; subst hk; exact ⟨dn, hdn⟩
          · simp [hki] at hk; exact mono v (hml k v hk)

theorem acyc_insertLinks (mp : Dict Nat Nat) : ∀ (ls : List (SubPort × SubPort)) (s s' : Store Ω μ),
    Acyc s → insertLinks s mp ls = .ok s' → Acyc s' := by
  intro ls
  induction ls with
  | nil => intro s s' hr h; simp [insertLinks, pure, Except.pure] at h; rw [← h]; exact hr
  | cons e ls ih =>
    intro s s' hr h
    obtain ⟨a, c⟩ := e
    unfold insertLinks at h
    cases ha : Dict.get a.node mp with
    | none => simp [ha] at h
    | some a' =>
      cases hc : Dict.get c.node mp with
      | none => simp [ha, hc] at h
      | some c' =>
        simp only [ha, hc, bind, Except.bind] at h
        cases h1 : addLink s (a', a.offset) (c', c.offset) with
        | error err => simp [h1] at h
        | ok s1 =>
          simp only [h1] at h
          exact ih s1 s' (acyc_addLink s s1 hr _ _ h1) h

theorem acyc_insertHugr (s s' b : Store Ω μ) (hh : HierInv s) (hr : RootInv s) (hf : FreeInv s) (ha : Acyc s)
    (parent : Option Nat) (hpl : ∀ p, parent = some p → liveN s p)
    (mp : Dict Nat Nat) (h : insertHugr s b parent = .ok (s', mp)) : Acyc s' := by
  unfold insertHugr at h
  simp only [bind, Except.bind] at h
  cases ho : hierarchyOrder b with
  | error e => simp [ho] at h
  | ok order =>
    simp only [ho] at h
    cases hrn : insertNodes s b parent order [] with
    | error e => simp [hrn] at h
    | ok r =>
      obtain ⟨s1, mp1⟩ := r
      simp only [hrn] at h
      cases h2 : insertLinks s1 mp1 b.links.fwd with
      | error e => simp [h2] at h
      | ok s2 =>
        simp only [h2, pure, Except.pure] at h
        have hs2 : s2 = s' := by injection h with h; exact (Prod.mk.inj h).1
        subst hs2
        exact acyc_insertLinks mp1 _ s1 s2
          (acyc_insertNodes b parent order s s1 [] mp1 hh hr hf ha hpl (by intro k v hk; simp [Dict.get] at hk) hrn) h2

end HugrVerif.Store
