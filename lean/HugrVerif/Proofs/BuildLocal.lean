/-
  Edge locality as an invariant of the builder's stores (helper lemmas for Props/C01, section ProgramLevel).

  `LocInv s`: every link of `s` whose target offset is a value offset (≥ 0) and whose target is not the static
  input port of a `Call` / `LoadConstant` / `LoadFunction` (static edges: the builders do not check their locality) joins a source to a target that has an
  ancestor-or-self `anc` with the same parent as the source, and when that ancestor is not the target itself (the link
  enters a nested region) the state-order link `source → anc` is present — rules R6.relation and R6.order_edge of
  `Validate.lean`, stated on the store.  The lemmas here show that every store step the plain dataflow builders take
  (add a node, wire a port, complete an operation, set an operation, update a port count) keeps it.
-/
import HugrVerif.Proofs.Build
import HugrVerif.Props.C04
import HugrVerif.Props.C13

namespace HugrVerif.BuildLocal
open HugrVerif HugrVerif.Build HugrVerif.Store HugrVerif.Props

/-- the offset of the static input port (§4.1 of DESIGN: after the value inputs of a `Call`, port 0 of the loads) -/
def staticIn : Op → Option Nat
  | .call _ inst _ => some inst.inp.length
  | .loadConst _ => some 0
  | .loadFunc .. => some 0
  | _ => none

/-- nodes that exist keep their parent and the position of their static input port, links are kept -/
structure HFrame (s s' : St) : Prop where
  par : ∀ i p, nodeParent s i = .ok p → nodeParent s' i = .ok p
  links : ∀ l ∈ linksList s, l ∈ linksList s'
  stat : ∀ i op, nodeOp s i = .ok op → ∃ op', nodeOp s' i = .ok op' ∧ staticIn op' = staticIn op

theorem HFrame.refl (s : St) : HFrame s s := ⟨fun _ _ h => h, fun _ h => h, fun _ op h => ⟨op, h, rfl⟩⟩
theorem HFrame.trans {a b c : St} (h1 : HFrame a b) (h2 : HFrame b c) : HFrame a c :=
  ⟨fun i p h => h2.par i p (h1.par i p h), fun l h => h2.links l (h1.links l h), fun i op h => by
    obtain ⟨op1, e1, q1⟩ := h1.stat i op h
    obtain ⟨op2, e2, q2⟩ := h2.stat i op1 e1
    exact ⟨op2, e2, q2.trans q1⟩⟩

theorem anc_frame {s s' : St} (F : HFrame s s') {a b : Nat} (h : Anc s a b) : Anc s' a b := by
  induction h with
  | refl a => exact .refl a
  | step a p b hp _ ih => exact .step a p b (F.par a (some p) hp) ih

/-- the locality of one link (R6.relation + R6.order_edge on the store) -/
def Local (s : St) (l : Port × Port) : Prop :=
  ∃ anc p, nodeParent s l.1.1 = .ok (some p) ∧ Anc s l.2.1 anc ∧ nodeParent s anc = .ok (some p) ∧
    (anc ≠ l.2.1 → ((l.1.1, (-1 : Int)), (anc, (-1 : Int))) ∈ linksList s)

/-- the link ends at the static input port of its target -/
def StaticTgt (s : St) (l : Port × Port) : Prop := ∃ op, nodeOp s l.2.1 = .ok op ∧ staticIn op = some l.2.2.toNat

theorem static_frame {s s' : St} (F : HFrame s s') {l : Port × Port} (h : StaticTgt s l) : StaticTgt s' l := by
  obtain ⟨op, e, q⟩ := h
  obtain ⟨op', e', q'⟩ := F.stat _ op e
  exact ⟨op', e', q'.trans q⟩

def LocInv (s : St) : Prop := ∀ l ∈ linksList s, 0 ≤ l.2.2 → ¬ StaticTgt s l → Local s l

theorem local_frame {s s' : St} (F : HFrame s s') {l : Port × Port} (h : Local s l) : Local s' l := by
  obtain ⟨anc, p, e1, e2, e3, e4⟩ := h
  exact ⟨anc, p, F.par _ _ e1, anc_frame F e2, F.par _ _ e3, fun hne => F.links _ (e4 hne)⟩

theorem locInv_step {s s' : St} (F : HFrame s s') (h : LocInv s)
    (hnew : ∀ l ∈ linksList s', l ∉ linksList s → 0 ≤ l.2.2 → ¬ StaticTgt s' l → Local s' l) : LocInv s' := by
  intro l hl hv hns
  by_cases hm : l ∈ linksList s
  · exact local_frame F (h l hm hv (fun hst => hns (static_frame F hst)))
  · exact hnew l hl hm hv hns

theorem locInv_same_links {s s' : St} (F : HFrame s s') (h : LocInv s)
    (hl : ∀ l ∈ linksList s', l ∈ linksList s) : LocInv s' :=
  locInv_step F h (fun l hl' hn _ _ => absurd (hl l hl') hn)

/-! ### frames of the store steps -/

theorem grow_nodeOp {s s' : St} (G : StoreGrow s s') (i : Nat) (op : Op) (h : nodeOp s i = .ok op) :
    nodeOp s' i = .ok op := by
  unfold nodeOp at h ⊢
  cases hg : Store.getNode s i with
  | error e => simp [hg] at h
  | ok d =>
    simp only [hg] at h
    obtain ⟨d', e1, g⟩ := G.fwd i d hg
    simp only [e1]; rw [g.op]; exact h

theorem hframe_of_grow {s s' : St} (G : StoreGrow s s') (hl : ∀ l ∈ linksList s, l ∈ linksList s') : HFrame s s' :=
  ⟨fun i p h => by rw [grow_nodeParent s s' G i]; exact h, hl, fun i op h => ⟨op, grow_nodeOp G i op h, rfl⟩⟩

theorem linksList_of_links_eq {s s' : St} (h : s'.links = s.links) : linksList s' = linksList s := by
  simp [linksList, h]

/-- `modifyNode` with a function that keeps the parent and the static port -/
theorem modifyNode_frame (s s' : St) (i : Nat) (f : NodeData Op Serial.Meta → NodeData Op Serial.Meta)
    (hf : ∀ d, (f d).parent = d.parent) (hst : ∀ d, Store.getNode s i = .ok d → staticIn (f d).op = staticIn d.op)
    (h : Store.modifyNode s i f = .ok s') :
    HFrame s s' ∧ linksList s' = linksList s ∧ s'.links = s.links := by
  have hlk := Build.modifyNode_links s s' i f h
  have hll := linksList_of_links_eq hlk
  refine ⟨⟨?_, fun l hl => by rw [hll]; exact hl, ?_⟩, hll, hlk⟩
  · intro j p hp
    unfold nodeParent at hp ⊢
    rw [Store.modifyNode_get s s' i j f h]
    cases hg : Store.getNode s j with
    | error e => simp [hg] at hp
    | ok d =>
      simp only [hg] at hp
      by_cases hji : j = i
      · simp only [hji, if_true, Except.map]
        subst hji
        simp only [hg]
        rw [hf d]; exact hp
      · simp only [hji, if_false]; exact hp
  · intro j op hp
    unfold nodeOp at hp ⊢
    rw [Store.modifyNode_get s s' i j f h]
    cases hg : Store.getNode s j with
    | error e => simp [hg] at hp
    | ok d =>
      simp only [hg] at hp
      injection hp with hp
      by_cases hji : j = i
      · simp only [hji, if_true, Except.map]
        subst hji
        simp only [hg]
        exact ⟨(f d).op, rfl, by rw [hst d hg, hp]⟩
      · simp only [hji, if_false]; exact ⟨op, by rw [hp], rfl⟩

theorem setOp_frame (s s' : St) (i : Nat) (op : Op)
    (hst : ∀ op0, nodeOp s i = .ok op0 → staticIn op = staticIn op0) (h : setOp s i op = .ok s') :
    HFrame s s' ∧ linksList s' = linksList s ∧ s'.links = s.links := by
  unfold setOp liftS at h
  cases hm : Store.modifyNode s i (fun d => { d with op := op }) with
  | error e => simp [hm] at h
  | ok s1 =>
    simp only [hm] at h
    injection h with h; subst h
    refine modifyNode_frame s s1 i (fun d => { d with op := op }) (fun _ => rfl) ?_ hm
    intro d hd
    exact hst d.op (by unfold nodeOp; simp [hd])

theorem updateNodeOuts_frame (s s' : St) (i k : Nat) (h : Store.updateNodeOuts s i k = .ok s') :
    HFrame s s' ∧ linksList s' = linksList s ∧ s'.links = s.links := by
  have hlk := Build.updateNodeOuts_links s s' i k h
  have hll := linksList_of_links_eq hlk
  obtain ⟨E, _⟩ := Store.updateNodeOuts_spec s s' i k h
  refine ⟨⟨?_, fun l hl => by rw [hll]; exact hl, ?_⟩, hll, hlk⟩
  · intro j p hp
    unfold nodeParent at hp ⊢
    cases hg : Store.getNode s j with
    | error e => simp [hg] at hp
    | ok d =>
      simp only [hg] at hp
      obtain ⟨d', hd', hs⟩ := E.fwd j d hg
      simp only [hd']
      rw [hs.1.parent]; exact hp
  · intro j op hp
    unfold nodeOp at hp ⊢
    cases hg : Store.getNode s j with
    | error e => simp [hg] at hp
    | ok d =>
      simp only [hg] at hp
      injection hp with hp
      obtain ⟨d', hd', hs⟩ := E.fwd j d hg
      simp only [hd']
      exact ⟨d'.op, rfl, by rw [hs.1.op, hp]⟩

/-! ### the wiring step -/

theorem addLink_loc (s s1 : St) (hl : LInv s.links) (a b : Port) (h : Store.addLink s a b = .ok s1) :
    LInv s1.links ∧ StoreGrow s s1 ∧ linksList s1 = linksList s ++ [(a, b)] := by
  obtain ⟨e, hl1⟩ := Store.addLink_links s s1 hl a b h
  exact ⟨hl1, (Store.addLink_nodes s s1 a b h).1, e⟩

theorem addOrderLink_loc (s s1 : St) (hl : LInv s.links) (a b : Nat) (h : Store.addOrderLink s a b = .ok s1) :
    LInv s1.links ∧ StoreGrow s s1 ∧ (∀ l ∈ linksList s1, l ∈ linksList s ∨ l = ((a, (-1 : Int)), (b, (-1 : Int)))) ∧
    (∀ l ∈ linksList s, l ∈ linksList s1) ∧ ((a, (-1 : Int)), (b, (-1 : Int))) ∈ linksList s1 := by
  unfold Store.addOrderLink at h
  by_cases hh : Store.hasLink s (a, -1) (b, -1) = true
  · simp [hh, pure, Except.pure] at h; subst h
    exact ⟨hl, StoreGrow.refl _, fun l h => .inl h, fun l h => h, (Store.hasLink_iff s hl _ _).mp hh⟩
  · simp only [hh] at h
    obtain ⟨h1, h2, h3⟩ := addLink_loc s s1 hl _ _ h
    refine ⟨h1, h2, ?_, ?_, ?_⟩
    · intro l hm; rw [h3] at hm; simpa using hm
    · intro l hm; rw [h3]; simp [hm]
    · rw [h3]; simp

theorem wireUpPortBase_loc (s s' : St) (hl : LInv s.links) (node off : Nat) (w : Wire) (t : Ty)
    (h : wireUpPortBase s node off w = .ok (s', t)) :
    LInv s'.links ∧ HFrame s s' ∧ (∀ l ∈ linksList s', l ∉ linksList s → 0 ≤ l.2.2 → Local s' l) := by
  unfold wireUpPortBase at h
  cases ha : ancestralSibling s w.1 node with
  | error e => simp [ha] at h
  | ok oa =>
    cases oa with
    | none => simp [ha] at h
    | some anc =>
      simp only [ha] at h
      obtain ⟨p, e1, e2, e3⟩ := C13.sibling_ancestor_spec s w.1 node anc ha
      unfold linkPort at h
      by_cases hne : anc = node
      · subst hne
        simp only [ne_eq, not_true_eq_false, if_false] at h
        cases hk : Store.addLink s w (anc, (off : Int)) with
        | error e => simp [hk, liftS] at h
        | ok s2 =>
          simp only [hk, liftS] at h
          cases hg : getDataflowType s2 w with
          | error e => simp [hg] at h
          | ok t' =>
            simp only [hg] at h
            injection h with h; injection h with h1 h2; subst h1
            obtain ⟨a1, a2, a3⟩ := addLink_loc s s2 hl _ _ hk
            have F : HFrame s s2 := hframe_of_grow a2 (fun l hm => by rw [a3]; simp [hm])
            refine ⟨a1, F, ?_⟩
            intro l hm hn _
            rw [a3] at hm
            have : l = (w, (anc, (off : Int))) := by
              rcases List.mem_append.mp hm with h' | h'
              · exact absurd h' hn
              · simpa using h'
            subst this
            exact ⟨anc, p, F.par _ _ e1, .refl _, F.par _ _ e3, fun hx => absurd rfl hx⟩
      · simp only [ne_eq, hne, not_false_eq_true, if_true] at h
        cases ho : Store.addOrderLink s w.1 anc with
        | error e => simp [ho, liftS] at h
        | ok s1 =>
          simp only [ho, liftS] at h
          obtain ⟨b1, b2, b3, b4, b5⟩ := addOrderLink_loc s s1 hl _ _ ho
          cases hk : Store.addLink s1 w (node, (off : Int)) with
          | error e => simp [hk] at h
          | ok s2 =>
            simp only [hk] at h
            cases hg : getDataflowType s2 w with
            | error e => simp [hg] at h
            | ok t' =>
              simp only [hg] at h
              injection h with h; injection h with h1 h2; subst h1
              obtain ⟨a1, a2, a3⟩ := addLink_loc s1 s2 b1 _ _ hk
              have F1 : HFrame s s1 := hframe_of_grow b2 b4
              have F2 : HFrame s1 s2 := hframe_of_grow a2 (fun l hm => by rw [a3]; simp [hm])
              have F := F1.trans F2
              refine ⟨a1, F, ?_⟩
              intro l hm hn hv
              rw [a3] at hm
              rcases List.mem_append.mp hm with h' | h'
              · rcases b3 l h' with h'' | h''
                · exact absurd h'' hn
                · subst h''; simp at hv
              · have : l = (w, (node, (off : Int))) := by simpa using h'
                subst this
                exact ⟨anc, p, F.par _ _ e1, anc_frame F e2, F.par _ _ e3, fun _ => F2.links _ b5⟩

theorem wireUpPorts_loc (node : Nat) : ∀ (ws : List Wire) (s s' : St) (i : Nat) (tys : List Ty),
    LInv s.links → wireUpPorts none node s i ws = .ok (s', tys) →
    LInv s'.links ∧ HFrame s s' ∧ (∀ l ∈ linksList s', l ∉ linksList s → 0 ≤ l.2.2 → Local s' l) := by
  intro ws
  induction ws with
  | nil =>
    intro s s' i tys hl h
    simp only [wireUpPorts] at h
    injection h with h; injection h with h1 h2; subst h1
    exact ⟨hl, HFrame.refl _, fun l hm hn => absurd hm hn⟩
  | cons w ws ih =>
    intro s s' i tys hl h
    simp only [wireUpPorts, wireUpPort] at h
    cases h1 : wireUpPortBase s node i w with
    | error e => simp [h1] at h
    | ok r =>
      obtain ⟨s1, t⟩ := r
      simp only [h1] at h
      cases h2 : wireUpPorts none node s1 (i + 1) ws with
      | error e => simp [h2] at h
      | ok r2 =>
        obtain ⟨s2, ts⟩ := r2
        simp only [h2] at h
        injection h with h; injection h with e1 e2; subst e1
        obtain ⟨a1, a2, a3⟩ := wireUpPortBase_loc s s1 hl node i w t h1
        obtain ⟨b1, b2, b3⟩ := ih s1 s2 (i + 1) ts a1 h2
        refine ⟨b1, a2.trans b2, ?_⟩
        intro l hm hn hv
        by_cases hm1 : l ∈ linksList s1
        · exact local_frame b2 (a3 l hm1 hn hv)
        · exact b3 l hm hm1 hv

theorem setInTypes_static (op : Op) (tys : List Ty) (op' : Op) (h : Op.setInTypes op tys = .ok op') :
    staticIn op = none ∧ staticIn op' = none := by
  unfold Op.setInTypes at h
  split at h <;> (try (injection h with h; subst h; exact ⟨rfl, rfl⟩)) <;> (try cases h)
  all_goals (repeat' split at h) <;> (try cases h) <;> (try (injection h with h; subst h))
  all_goals exact ⟨rfl, rfl⟩

theorem setOutTypes_static (re : List Ty → List Ty → Bool) (op : Op) (tys : List Ty) (op' : Op)
    (h : Op.setOutTypes re op tys = .ok op') : staticIn op = none ∧ staticIn op' = none := by
  unfold Op.setOutTypes at h
  split at h <;> (try (injection h with h; subst h; exact ⟨rfl, rfl⟩)) <;> (try cases h)
  all_goals (simp only [bind, Except.bind, pure, Except.pure, throw, throwThe, MonadExceptOf.throw] at h)
  all_goals (repeat' split at h) <;> (try cases h) <;> (try (injection h with h; subst h))
  all_goals exact ⟨rfl, rfl⟩

theorem updatePortCount_frame (s s' : St) (node ni no : Nat) (h : updatePortCount s node ni no = .ok s') :
    HFrame s s' ∧ linksList s' = linksList s ∧ s'.links = s.links := by
  unfold updatePortCount liftS at h
  cases h1 : Store.modifyNode s node (fun d => { d with numInps := ni }) with
  | error e => simp [h1] at h
  | ok s1 =>
    simp only [h1] at h
    obtain ⟨f1, l1, k1⟩ := modifyNode_frame s s1 node (fun d => { d with numInps := ni }) (fun _ => rfl) (fun _ _ => rfl) h1
    cases h2 : Store.updateNodeOuts s1 node no with
    | error e => simp [h2] at h
    | ok s2 =>
      simp only [h2] at h
      injection h with h; subst h
      obtain ⟨f2, l2, k2⟩ := updateNodeOuts_frame s1 s2 node no h2
      exact ⟨f1.trans f2, l2.trans l1, k2.trans k1⟩

theorem completeOp_frame (s s' : St) (node : Nat) (tys : List Ty) (h : completeOp s node tys = .ok s') :
    HFrame s s' ∧ linksList s' = linksList s ∧ s'.links = s.links := by
  unfold completeOp at h
  cases h0 : nodeOp s node with
  | error e => simp [h0] at h
  | ok op =>
    simp only [h0] at h
    by_cases hp : isPartialOp op = true
    · simp only [hp, if_true] at h
      cases h1 : Op.setInTypes op tys with
      | error e => simp [h1] at h
      | ok op' =>
        simp only [h1] at h
        cases h2 : setOp s node op' with
        | error e => simp [h2] at h
        | ok s1 =>
          simp only [h2] at h
          obtain ⟨f1, l1, k1⟩ := setOp_frame s s1 node op' (fun op0 h00 => by
            rw [h0] at h00; injection h00 with h00; subst h00
            exact (setInTypes_static op tys op' h1).2.trans (setInTypes_static op tys op' h1).1.symm) h2
          cases h3 : Op.outerSig op' with
          | error e => simp [h3] at h
          | ok sig =>
            simp only [h3] at h
            obtain ⟨f2, l2, k2⟩ := updatePortCount_frame s1 s' node _ _ h
            exact ⟨f1.trans f2, l2.trans l1, k2.trans k1⟩
    · simp only [hp] at h
      simp at h; subst h
      exact ⟨HFrame.refl _, rfl, rfl⟩

/-- **`_wire_up(node, wires)` of a non-block builder keeps edge locality.** -/
theorem wireUp_loc (s s' : St) (hl : LInv s.links) (hi : LocInv s) (node : Nat) (ws : List Wire) (tys : List Ty)
    (h : wireUp s none node ws = .ok (s', tys)) : LInv s'.links ∧ HFrame s s' ∧ LocInv s' := by
  unfold wireUp at h
  cases h1 : wireUpPorts none node s 0 ws with
  | error e => simp [h1] at h
  | ok r =>
    obtain ⟨s1, tys1⟩ := r
    simp only [h1] at h
    cases h2 : completeOp s1 node tys1 with
    | error e => simp [h2] at h
    | ok s2 =>
      simp only [h2] at h
      injection h with h; injection h with e1 e2; subst e1
      obtain ⟨a1, a2, a3⟩ := wireUpPorts_loc node ws s s1 0 tys1 hl h1
      obtain ⟨b1, b2, b3⟩ := completeOp_frame s1 s2 node tys1 h2
      have i1 : LocInv s1 := locInv_step a2 hi (fun l hm hn hv _ => a3 l hm hn hv)
      exact ⟨by rw [b3]; exact a1, a2.trans b1, locInv_same_links b1 i1 (fun l hm => by rw [b2] at hm; exact hm)⟩


/-! ### the free-list invariant along the same steps -/

theorem freeInv_links (s : St) (L : BiMap SubPort SubPort) (hf : FreeInv s) : FreeInv ({ s with links := L } : St) :=
  ⟨hf.iff, hf.nodup⟩

theorem addLink_free (s s' : St) (hf : FreeInv s) (a b : Port) (h : Store.addLink s a b = .ok s') : FreeInv s' := by
  unfold Store.addLink at h
  simp only [bind, Except.bind] at h
  split at h
  · cases h
  · rename_i s1 h1
    exact freeInv_modifyNode _ _ (freeInv_modifyNode _ _ (freeInv_links s _ hf) _ _ h1) _ _ h

theorem addOrderLink_free (s s' : St) (hf : FreeInv s) (a b : Nat) (h : Store.addOrderLink s a b = .ok s') : FreeInv s' := by
  unfold Store.addOrderLink at h
  split at h
  · simp [pure, Except.pure] at h; subst h; exact hf
  · exact addLink_free s s' hf _ _ h

theorem wireUpPortBase_free (s s' : St) (hf : FreeInv s) (node off : Nat) (w : Wire) (t : Ty)
    (h : wireUpPortBase s node off w = .ok (s', t)) : FreeInv s' := by
  unfold wireUpPortBase at h
  cases ha : ancestralSibling s w.1 node with
  | error e => simp [ha] at h
  | ok oa =>
    cases oa with
    | none => simp [ha] at h
    | some anc =>
      simp only [ha] at h
      unfold linkPort at h
      by_cases hne : anc = node
      · subst hne
        simp only [ne_eq, not_true_eq_false, if_false] at h
        cases hk : Store.addLink s w (anc, (off : Int)) with
        | error e => simp [hk, liftS] at h
        | ok s2 =>
          simp only [hk, liftS] at h
          cases hg : getDataflowType s2 w with
          | error e => simp [hg] at h
          | ok t' =>
            simp only [hg] at h
            injection h with h; injection h with h1 h2; subst h1
            exact addLink_free s s2 hf _ _ hk
      · simp only [ne_eq, hne, not_false_eq_true, if_true] at h
        cases ho : Store.addOrderLink s w.1 anc with
        | error e => simp [ho, liftS] at h
        | ok s1 =>
          simp only [ho, liftS] at h
          cases hk : Store.addLink s1 w (node, (off : Int)) with
          | error e => simp [hk] at h
          | ok s2 =>
            simp only [hk] at h
            cases hg : getDataflowType s2 w with
            | error e => simp [hg] at h
            | ok t' =>
              simp only [hg] at h
              injection h with h; injection h with h1 h2; subst h1
              exact addLink_free s1 s2 (addOrderLink_free s s1 hf _ _ ho) _ _ hk

theorem wireUpPorts_free (node : Nat) : ∀ (ws : List Wire) (s s' : St) (i : Nat) (tys : List Ty),
    FreeInv s → wireUpPorts none node s i ws = .ok (s', tys) → FreeInv s' := by
  intro ws
  induction ws with
  | nil =>
    intro s s' i tys hf h
    simp only [wireUpPorts] at h
    injection h with h; injection h with h1 h2; subst h1; exact hf
  | cons w ws ih =>
    intro s s' i tys hf h
    simp only [wireUpPorts, wireUpPort] at h
    cases h1 : wireUpPortBase s node i w with
    | error e => simp [h1] at h
    | ok r =>
      obtain ⟨s1, t⟩ := r
      simp only [h1] at h
      cases h2 : wireUpPorts none node s1 (i + 1) ws with
      | error e => simp [h2] at h
      | ok r2 =>
        obtain ⟨s2, ts⟩ := r2
        simp only [h2] at h
        injection h with h; injection h with e1 e2; subst e1
        exact ih s1 s2 (i + 1) ts (wireUpPortBase_free s s1 hf node i w t h1) h2

theorem setOp_free (s s' : St) (hf : FreeInv s) (i : Nat) (op : Op) (h : setOp s i op = .ok s') : FreeInv s' := by
  unfold setOp liftS at h
  cases hm : Store.modifyNode s i (fun d => { d with op := op }) with
  | error e => simp [hm] at h
  | ok s1 =>
    simp only [hm] at h
    injection h with h; subst h
    exact freeInv_modifyNode s s1 hf i _ hm

theorem updateNodeOuts_free (s s' : St) (hf : FreeInv s) (i k : Nat) (h : Store.updateNodeOuts s i k = .ok s') :
    FreeInv s' := (Store.updateNodeOuts_spec s s' i k h).1.free hf

theorem updatePortCount_free (s s' : St) (hf : FreeInv s) (node ni no : Nat)
    (h : updatePortCount s node ni no = .ok s') : FreeInv s' := by
  unfold updatePortCount liftS at h
  cases h1 : Store.modifyNode s node (fun d => { d with numInps := ni }) with
  | error e => simp [h1] at h
  | ok s1 =>
    simp only [h1] at h
    cases h2 : Store.updateNodeOuts s1 node no with
    | error e => simp [h2] at h
    | ok s2 =>
      simp only [h2] at h
      injection h with h; subst h
      exact updateNodeOuts_free s1 s2 (freeInv_modifyNode s s1 hf node _ h1) node no h2

theorem completeOp_free (s s' : St) (hf : FreeInv s) (node : Nat) (tys : List Ty)
    (h : completeOp s node tys = .ok s') : FreeInv s' := by
  unfold completeOp at h
  cases h0 : nodeOp s node with
  | error e => simp [h0] at h
  | ok op =>
    simp only [h0] at h
    by_cases hp : isPartialOp op = true
    · simp only [hp, if_true] at h
      cases h1 : Op.setInTypes op tys with
      | error e => simp [h1] at h
      | ok op' =>
        simp only [h1] at h
        cases h2 : setOp s node op' with
        | error e => simp [h2] at h
        | ok s1 =>
          simp only [h2] at h
          cases h3 : Op.outerSig op' with
          | error e => simp [h3] at h
          | ok sig =>
            simp only [h3] at h
            exact updatePortCount_free s1 s' (setOp_free s s1 hf node op' h2) node _ _ h
    · simp only [hp] at h
      simp at h; subst h; exact hf

theorem wireUp_free (s s' : St) (hf : FreeInv s) (node : Nat) (ws : List Wire) (tys : List Ty)
    (h : wireUp s none node ws = .ok (s', tys)) : FreeInv s' := by
  unfold wireUp at h
  cases h1 : wireUpPorts none node s 0 ws with
  | error e => simp [h1] at h
  | ok r =>
    obtain ⟨s1, tys1⟩ := r
    simp only [h1] at h
    cases h2 : completeOp s1 node tys1 with
    | error e => simp [h2] at h
    | ok s2 =>
      simp only [h2] at h
      injection h with h; injection h with e1 e2; subst e1
      exact completeOp_free s1 s2 (wireUpPorts_free node ws s s1 0 tys1 hf h1) node tys1 h2

/-! ### edge kinds: a link joins two order ports or two non-order ports -/

/-- every link joins two order ports (offset −1 on both ends) or two ports that are not order ports -/
def KindInv (s : St) : Prop := ∀ l ∈ linksList s, (l.1.2 = -1 ↔ l.2.2 = -1)

theorem kindInv_same_links {s s' : St} (h : KindInv s) (e : linksList s' = linksList s) : KindInv s' := by
  intro l hl; rw [e] at hl; exact h l hl

/-- `_get_dataflow_type(wire)` answers for no order port: `_sig_port_type` refuses offset −1, and the order port of
    a `Call` is not a value port -/
theorem getDataflowType_not_order (s : St) (w : Wire) (t : Ty) (h : getDataflowType s w = .ok t) : w.2 ≠ -1 := by
  intro e
  unfold getDataflowType at h
  cases ho : nodeOp s w.1 with
  | error er => simp [ho] at h
  | ok op =>
    simp only [ho, e] at h
    unfold Op.hugrPortType at h
    by_cases hd : op.isDataflowOp = true
    · simp only [hd, if_true] at h
      unfold Op.portType at h
      simp only [hd, if_true, bind, Except.bind, pure, Except.pure] at h
      cases hs : Op.outerSig op with
      | error er => simp [hs] at h
      | ok sg => simp [hs, Op.sigPortType] at h
    · simp only [hd] at h
      cases op <;> simp [Op.hugrPortKind, Op.portKind, bind, Except.bind, pure, Except.pure] at h

theorem kindInv_addLink (s s' : St) (hl : LInv s.links) (hk : KindInv s) (a b : Port)
    (hab : a.2 = -1 ↔ b.2 = -1) (h : Store.addLink s a b = .ok s') : KindInv s' := by
  obtain ⟨_, _, a3⟩ := addLink_loc s s' hl a b h
  intro l hm
  rw [a3] at hm
  rcases List.mem_append.mp hm with h' | h'
  · exact hk l h'
  · have : l = (a, b) := by simpa using h'
    subst this; exact hab

theorem kindInv_addOrderLink (s s' : St) (hl : LInv s.links) (hk : KindInv s) (a b : Nat)
    (h : Store.addOrderLink s a b = .ok s') : KindInv s' := by
  obtain ⟨_, _, b3, _, _⟩ := addOrderLink_loc s s' hl a b h
  intro l hm
  rcases b3 l hm with h' | h'
  · exact hk l h'
  · subst h'; simp

theorem wireUpPortBase_kind (s s' : St) (hl : LInv s.links) (hk : KindInv s) (node off : Nat) (w : Wire) (t : Ty)
    (h : wireUpPortBase s node off w = .ok (s', t)) : KindInv s' := by
  unfold wireUpPortBase at h
  cases ha : ancestralSibling s w.1 node with
  | error e => simp [ha] at h
  | ok oa =>
    cases oa with
    | none => simp [ha] at h
    | some anc =>
      simp only [ha] at h
      unfold linkPort at h
      by_cases hne : anc = node
      · subst hne
        simp only [ne_eq, not_true_eq_false, if_false] at h
        cases hkk : Store.addLink s w (anc, (off : Int)) with
        | error e => simp [hkk, liftS] at h
        | ok s2 =>
          simp only [hkk, liftS] at h
          cases hg : getDataflowType s2 w with
          | error e => simp [hg] at h
          | ok t' =>
            simp only [hg] at h
            injection h with h; injection h with h1 h2; subst h1
            have hw := getDataflowType_not_order s2 w t' hg
            exact kindInv_addLink s s2 hl hk _ _ (by simp [hw]) hkk
      · simp only [ne_eq, hne, not_false_eq_true, if_true] at h
        cases ho : Store.addOrderLink s w.1 anc with
        | error e => simp [ho, liftS] at h
        | ok s1 =>
          simp only [ho, liftS] at h
          obtain ⟨b1, _, _, _, _⟩ := addOrderLink_loc s s1 hl _ _ ho
          have k1 := kindInv_addOrderLink s s1 hl hk _ _ ho
          cases hkk : Store.addLink s1 w (node, (off : Int)) with
          | error e => simp [hkk] at h
          | ok s2 =>
            simp only [hkk] at h
            cases hg : getDataflowType s2 w with
            | error e => simp [hg] at h
            | ok t' =>
              simp only [hg] at h
              injection h with h; injection h with h1 h2; subst h1
              have hw := getDataflowType_not_order s2 w t' hg
              exact kindInv_addLink s1 s2 b1 k1 _ _ (by simp [hw]) hkk

theorem wireUpPorts_kind (node : Nat) : ∀ (ws : List Wire) (s s' : St) (i : Nat) (tys : List Ty),
    LInv s.links → KindInv s → wireUpPorts none node s i ws = .ok (s', tys) → KindInv s' := by
  intro ws
  induction ws with
  | nil =>
    intro s s' i tys hl hk h
    simp only [wireUpPorts] at h
    injection h with h; injection h with h1 h2; subst h1; exact hk
  | cons w ws ih =>
    intro s s' i tys hl hk h
    simp only [wireUpPorts, wireUpPort] at h
    cases h1 : wireUpPortBase s node i w with
    | error e => simp [h1] at h
    | ok r =>
      obtain ⟨s1, t⟩ := r
      simp only [h1] at h
      cases h2 : wireUpPorts none node s1 (i + 1) ws with
      | error e => simp [h2] at h
      | ok r2 =>
        obtain ⟨s2, ts⟩ := r2
        simp only [h2] at h
        injection h with h; injection h with e1 e2; subst e1
        obtain ⟨a1, _, _⟩ := wireUpPortBase_loc s s1 hl node i w t h1
        exact ih s1 s2 (i + 1) ts a1 (wireUpPortBase_kind s s1 hl hk node i w t h1) h2

theorem wireUp_kind (s s' : St) (hl : LInv s.links) (hk : KindInv s) (node : Nat) (ws : List Wire) (tys : List Ty)
    (h : wireUp s none node ws = .ok (s', tys)) : KindInv s' := by
  unfold wireUp at h
  cases h1 : wireUpPorts none node s 0 ws with
  | error e => simp [h1] at h
  | ok r =>
    obtain ⟨s1, tys1⟩ := r
    simp only [h1] at h
    cases h2 : completeOp s1 node tys1 with
    | error e => simp [h2] at h
    | ok s2 =>
      simp only [h2] at h
      injection h with h; injection h with e1 e2; subst e1
      obtain ⟨_, b2, _⟩ := completeOp_frame s1 s2 node tys1 h2
      exact kindInv_same_links (wireUpPorts_kind node ws s s1 0 tys1 hl hk h1) b2

/-! ### no dangling links: both ends of every link are live nodes -/

def LiveInv (s : St) : Prop :=
  ∀ l ∈ linksList s, (∃ p, nodeParent s l.1.1 = .ok p) ∧ (∃ p, nodeParent s l.2.1 = .ok p)

theorem liveInv_frame {s s' : St} (F : HFrame s s') (h : LiveInv s)
    (hnew : ∀ l ∈ linksList s', l ∉ linksList s → (∃ p, nodeParent s' l.1.1 = .ok p) ∧ (∃ p, nodeParent s' l.2.1 = .ok p)) :
    LiveInv s' := by
  intro l hl
  by_cases hm : l ∈ linksList s
  · obtain ⟨⟨p, hp⟩, ⟨q, hq⟩⟩ := h l hm
    exact ⟨⟨p, F.par _ _ hp⟩, ⟨q, F.par _ _ hq⟩⟩
  · exact hnew l hl hm

theorem liveInv_same_links {s s' : St} (F : HFrame s s') (h : LiveInv s) (e : linksList s' = linksList s) : LiveInv s' :=
  liveInv_frame F h (fun l hl hn => absurd (by rw [e] at hl; exact hl) hn)

theorem nodeParent_of_getNode (s : St) (i : Nat) (d : NodeData Op Serial.Meta) (h : Store.getNode s i = .ok d) :
    ∃ p, nodeParent s i = .ok p := ⟨d.parent, by unfold nodeParent; simp [h]⟩

theorem liveInv_addLink (s s' : St) (hl : LInv s.links) (hk : LiveInv s) (a b : Port)
    (h : Store.addLink s a b = .ok s') : LiveInv s' := by
  obtain ⟨_, a2, a3⟩ := addLink_loc s s' hl a b h
  have F : HFrame s s' := hframe_of_grow a2 (fun l hm => by rw [a3]; simp [hm])
  obtain ⟨_, ⟨ds, es, _⟩, ⟨dd, ed, _⟩⟩ := Store.addLink_nodes s s' a b h
  refine liveInv_frame F hk ?_
  intro l hm hn
  rw [a3] at hm
  have : l = (a, b) := by
    rcases List.mem_append.mp hm with h' | h'
    · exact absurd h' hn
    · simpa using h'
  subst this
  exact ⟨nodeParent_of_getNode s' _ ds es, nodeParent_of_getNode s' _ dd ed⟩

theorem liveInv_addOrderLink (s s' : St) (hl : LInv s.links) (hk : LiveInv s) (a b : Nat)
    (h : Store.addOrderLink s a b = .ok s') : LiveInv s' := by
  unfold Store.addOrderLink at h
  by_cases hh : Store.hasLink s (a, -1) (b, -1) = true
  · simp [hh, pure, Except.pure] at h; subst h; exact hk
  · simp only [hh] at h
    exact liveInv_addLink s s' hl hk _ _ h

theorem wireUpPortBase_live (s s' : St) (hl : LInv s.links) (hk : LiveInv s) (node off : Nat) (w : Wire) (t : Ty)
    (h : wireUpPortBase s node off w = .ok (s', t)) : LiveInv s' := by
  unfold wireUpPortBase at h
  cases ha : ancestralSibling s w.1 node with
  | error e => simp [ha] at h
  | ok oa =>
    cases oa with
    | none => simp [ha] at h
    | some anc =>
      simp only [ha] at h
      unfold linkPort at h
      by_cases hne : anc = node
      · subst hne
        simp only [ne_eq, not_true_eq_false, if_false] at h
        cases hkk : Store.addLink s w (anc, (off : Int)) with
        | error e => simp [hkk, liftS] at h
        | ok s2 =>
          simp only [hkk, liftS] at h
          cases hg : getDataflowType s2 w with
          | error e => simp [hg] at h
          | ok t' =>
            simp only [hg] at h
            injection h with h; injection h with h1 h2; subst h1
            exact liveInv_addLink s s2 hl hk _ _ hkk
      · simp only [ne_eq, hne, not_false_eq_true, if_true] at h
        cases ho : Store.addOrderLink s w.1 anc with
        | error e => simp [ho, liftS] at h
        | ok s1 =>
          simp only [ho, liftS] at h
          obtain ⟨b1, _, _, _, _⟩ := addOrderLink_loc s s1 hl _ _ ho
          have k1 := liveInv_addOrderLink s s1 hl hk _ _ ho
          cases hkk : Store.addLink s1 w (node, (off : Int)) with
          | error e => simp [hkk] at h
          | ok s2 =>
            simp only [hkk] at h
            cases hg : getDataflowType s2 w with
            | error e => simp [hg] at h
            | ok t' =>
              simp only [hg] at h
              injection h with h; injection h with h1 h2; subst h1
              exact liveInv_addLink s1 s2 b1 k1 _ _ hkk

theorem wireUpPorts_live (node : Nat) : ∀ (ws : List Wire) (s s' : St) (i : Nat) (tys : List Ty),
    LInv s.links → LiveInv s → wireUpPorts none node s i ws = .ok (s', tys) → LiveInv s' := by
  intro ws
  induction ws with
  | nil =>
    intro s s' i tys hl hk h
    simp only [wireUpPorts] at h
    injection h with h; injection h with h1 h2; subst h1; exact hk
  | cons w ws ih =>
    intro s s' i tys hl hk h
    simp only [wireUpPorts, wireUpPort] at h
    cases h1 : wireUpPortBase s node i w with
    | error e => simp [h1] at h
    | ok r =>
      obtain ⟨s1, t⟩ := r
      simp only [h1] at h
      cases h2 : wireUpPorts none node s1 (i + 1) ws with
      | error e => simp [h2] at h
      | ok r2 =>
        obtain ⟨s2, ts⟩ := r2
        simp only [h2] at h
        injection h with h; injection h with e1 e2; subst e1
        obtain ⟨a1, _, _⟩ := wireUpPortBase_loc s s1 hl node i w t h1
        exact ih s1 s2 (i + 1) ts a1 (wireUpPortBase_live s s1 hl hk node i w t h1) h2

theorem wireUp_live (s s' : St) (hl : LInv s.links) (hk : LiveInv s) (node : Nat) (ws : List Wire) (tys : List Ty)
    (h : wireUp s none node ws = .ok (s', tys)) : LiveInv s' := by
  unfold wireUp at h
  cases h1 : wireUpPorts none node s 0 ws with
  | error e => simp [h1] at h
  | ok r =>
    obtain ⟨s1, tys1⟩ := r
    simp only [h1] at h
    cases h2 : completeOp s1 node tys1 with
    | error e => simp [h2] at h
    | ok s2 =>
      simp only [h2] at h
      injection h with h; injection h with e1 e2; subst e1
      obtain ⟨b1, b2, _⟩ := completeOp_frame s1 s2 node tys1 h2
      exact liveInv_same_links b1 (wireUpPorts_live node ws s s1 0 tys1 hl hk h1) b2

/-! ### adding a node -/

theorem addNode_loc (s s' : St) (hf : FreeInv s) (op : Op) (parent : Option Nat) (k : Option Nat) (md : Serial.Meta)
    (n : Nat) (h : Store.addNode s op parent k md = .ok (s', n)) :
    FreeInv s' ∧ HFrame s s' ∧ linksList s' = linksList s ∧ s'.links = s.links := by
  unfold Store.addNode at h
  obtain ⟨fresh, _, keep, _, el, _, hf'⟩ := Store.addNodeRaw_spec s s' hf op _ k md n h
  have hll := linksList_of_links_eq el
  refine ⟨hf', ⟨?_, fun l hl => by rw [hll]; exact hl, ?_⟩, hll, el⟩
  · intro j p hp
    unfold nodeParent at hp ⊢
    cases hg : Store.getNode s j with
    | error e => simp [hg] at hp
    | ok d =>
      simp only [hg] at hp
      have hji : j ≠ n := by intro e; subst e; exact fresh d hg
      obtain ⟨d', hd', hs, _, _⟩ := keep j d hji hg
      simp only [hd']
      rw [hs.parent]; exact hp
  · intro j op0 hp
    unfold nodeOp at hp ⊢
    cases hg : Store.getNode s j with
    | error e => simp [hg] at hp
    | ok d =>
      simp only [hg] at hp
      injection hp with hp
      have hji : j ≠ n := by intro e; subst e; exact fresh d hg
      obtain ⟨d', hd', hs, _, _⟩ := keep j d hji hg
      simp only [hd']
      exact ⟨d'.op, rfl, by rw [hs.op, hp]⟩

/-- the store invariant the plain dataflow builders maintain -/
structure LInvS (s : St) : Prop where
  links : LInv s.links
  free : FreeInv s
  loc : LocInv s
  kind : KindInv s
  live : LiveInv s

theorem linvS_addNode (s s' : St) (hs : LInvS s) (op : Op) (parent : Option Nat) (k : Option Nat) (md : Serial.Meta)
    (n : Nat) (h : Store.addNode s op parent k md = .ok (s', n)) : LInvS s' := by
  obtain ⟨a1, a2, a3, a4⟩ := addNode_loc s s' hs.free op parent k md n h
  exact ⟨by rw [a4]; exact hs.links, a1, locInv_same_links a2 hs.loc (fun l hm => by rw [a3] at hm; exact hm),
    kindInv_same_links hs.kind a3, liveInv_same_links a2 hs.live a3⟩

theorem linvS_wireUp (s s' : St) (hs : LInvS s) (node : Nat) (ws : List Wire) (tys : List Ty)
    (h : wireUp s none node ws = .ok (s', tys)) : LInvS s' := by
  obtain ⟨a1, _, a3⟩ := wireUp_loc s s' hs.links hs.loc node ws tys h
  exact ⟨a1, wireUp_free s s' hs.free node ws tys h, a3, wireUp_kind s s' hs.links hs.kind node ws tys h,
    wireUp_live s s' hs.links hs.live node ws tys h⟩

theorem linvS_setOp (s s' : St) (hs : LInvS s) (i : Nat) (op : Op)
    (hst : ∀ op0, nodeOp s i = .ok op0 → staticIn op = staticIn op0) (h : setOp s i op = .ok s') : LInvS s' := by
  obtain ⟨f, l, k⟩ := setOp_frame s s' i op hst h
  exact ⟨by rw [k]; exact hs.links, setOp_free s s' hs.free i op h,
    locInv_same_links f hs.loc (fun x hm => by rw [l] at hm; exact hm), kindInv_same_links hs.kind l,
    liveInv_same_links f hs.live l⟩

theorem linvS_updateNodeOuts (s s' : St) (hs : LInvS s) (i k : Nat) (h : Store.updateNodeOuts s i k = .ok s') :
    LInvS s' := by
  obtain ⟨f, l, kk⟩ := updateNodeOuts_frame s s' i k h
  exact ⟨by rw [kk]; exact hs.links, updateNodeOuts_free s s' hs.free i k h,
    locInv_same_links f hs.loc (fun x hm => by rw [l] at hm; exact hm), kindInv_same_links hs.kind l,
    liveInv_same_links f hs.live l⟩

/-- a link into the static input port of its target (`call`, `load`, `load_function`) -/
theorem linvS_addStaticLink (s s' : St) (hs : LInvS s) (a : Port) (n off : Nat)
    (hst : ∃ op, nodeOp s n = .ok op ∧ staticIn op = some off) (ha : a.2 ≠ -1)
    (h : Store.addLink s a (n, (off : Int)) = .ok s') :
    LInvS s' := by
  obtain ⟨a1, a2, a3⟩ := addLink_loc s s' hs.links _ _ h
  have F : HFrame s s' := hframe_of_grow a2 (fun l hm => by rw [a3]; simp [hm])
  refine ⟨a1, addLink_free s s' hs.free _ _ h, locInv_step F hs.loc ?_,
    kindInv_addLink s s' hs.links hs.kind _ _ (by simp [ha]) h, liveInv_addLink s s' hs.links hs.live _ _ h⟩
  intro l hm hn _ hns
  rw [a3] at hm
  have : l = (a, (n, (off : Int))) := by
    rcases List.mem_append.mp hm with h' | h'
    · exact absurd h' hn
    · simpa using h'
  subst this
  exfalso; apply hns
  obtain ⟨op, e, q⟩ := hst
  exact static_frame F ⟨op, e, by simpa using q⟩

theorem linvS_init (op : Op) (md : Serial.Meta) : LInvS (Store.init op md : St) := by
  have h := Store.sinv_init (μ := Serial.Meta) op md
  have hnil : linksList (Store.init op md : St) = [] := by
    unfold Store.init
    simp only []
    split
    · rename_i s i heq
      have e := (Store.addNodeRaw_spec _ s ⟨by intro i; simp, by simp⟩ op none (some 0) md i heq).2.2.2.2.1
      simp [linksList, e, BiMap.empty]
    · simp [linksList, BiMap.empty]
  refine ⟨h.links, h.free, ?_, (fun l hl => by rw [hnil] at hl; cases hl), (fun l hl => by rw [hnil] at hl; cases hl)⟩
  intro l hl
  have : linksList (Store.init op md : St) = [] := by
    unfold Store.init
    simp only []
    split
    · rename_i s i heq
      have e := (Store.addNodeRaw_spec _ s ⟨by intro i; simp, by simp⟩ op none (some 0) md i heq).2.2.2.2.1
      simp [linksList, e, BiMap.empty]
    · simp [linksList, BiMap.empty]
  rw [this] at hl; cases hl

end HugrVerif.BuildLocal
