/-
  `insert_hugr` keeps edge locality (C01, R6.relation / R6.order_edge on the store) and edge kinds: when A and B both
  satisfy `LocInv` / `KindInv`, so does the result of inserting B into A.  A value link of the copy is the image of a
  value link of B; its sibling ancestor is the image of B's, and the state-order link that accompanies a non-local wire
  is copied with it (`links_embedded`: every link of B is copied, order links included) — the clause seeded changes
  C01-5 / C01-9 attacked (`insert_hugr` copying links through `outgoing_links()`, which skips the order port).
-/
import HugrVerif.Proofs.BuildLocal
import HugrVerif.Proofs.StoreInsert

namespace HugrVerif.BuildLocal
open HugrVerif HugrVerif.Build HugrVerif.Store HugrVerif.Py

theorem nodeParent_of_get (s : St) (i : Nat) (d : NodeData Op Serial.Meta) (h : Store.getNode s i = .ok d) :
    nodeParent s i = .ok d.parent := by
  unfold nodeParent; simp [h]

theorem nodeOp_of_get (s : St) (i : Nat) (d : NodeData Op Serial.Meta) (h : Store.getNode s i = .ok d) :
    nodeOp s i = .ok d.op := by
  unfold nodeOp; simp [h]

theorem get_of_nodeParent (s : St) (i : Nat) (p : Option Nat) (h : nodeParent s i = .ok p) :
    ∃ d, Store.getNode s i = .ok d ∧ d.parent = p := by
  unfold nodeParent at h
  cases hg : Store.getNode s i with
  | error e => simp [hg] at h
  | ok d => simp [hg] at h; exact ⟨d, rfl, h⟩

theorem get_of_nodeOp (s : St) (i : Nat) (op : Op) (h : nodeOp s i = .ok op) :
    ∃ d, Store.getNode s i = .ok d ∧ d.op = op := by
  unfold nodeOp at h
  cases hg : Store.getNode s i with
  | error e => simp [hg] at h
  | ok d => simp [hg] at h; exact ⟨d, rfl, h⟩

/-- What the two loops of `insert_hugr` establish, in the vocabulary of the builders' store (parents, operations). -/
structure Embedded (a a' b : St) (mp : Dict Nat Nat) : Prop where
  /-- nodes of A keep parent and operation -/
  old : ∀ j d, Store.getNode a j = .ok d → ∃ d', Store.getNode a' j = .ok d' ∧ d'.parent = d.parent ∧ d'.op = d.op
  /-- the image of a node of B carries its operation; the image of its parent is the parent of its image -/
  img : ∀ i x, Dict.get i mp = some x → ∃ db dx, Store.getNode b i = .ok db ∧ Store.getNode a' x = .ok dx ∧
    dx.op = db.op ∧ ∀ p, db.parent = some p → ∃ p', Dict.get p mp = some p' ∧ dx.parent = some p'
  /-- the links of the result: those of A, then those of B renamed -/
  links : linksList a' = linksList a ++ b.links.fwd.filterMap (renameLink mp)
  linv : LInv a'.links

theorem embedded_of_insertHugr (a a' b : St) (hl : LInv a.links) (hf : FreeInv a) (parent : Option Nat)
    (mp : Dict Nat Nat) (order : List Nat) (ho : hierarchyOrder b = .ok order) (hnd : order.Nodup)
    (h : insertHugr a b parent = .ok (a', mp)) : Embedded a a' b mp := by
  unfold insertHugr at h
  simp only [bind, Except.bind] at h
  rw [ho] at h
  simp only [] at h
  cases hr : insertNodes a b parent order [] with
  | error e => simp [hr] at h
  | ok r =>
    obtain ⟨s1, mp1⟩ := r
    simp only [hr] at h
    cases h2 : insertLinks s1 mp1 b.links.fwd with
    | error e => simp [h2] at h
    | ok s2 =>
      simp only [h2, pure, Except.pure] at h
      injection h with h
      obtain ⟨rfl, rfl⟩ := Prod.mk.inj h
      obtain ⟨hc, _⟩ := insertNodes_spec a b parent order a s1 [] [] mp1 (copied_init a b parent hf)
        (by simp [Dict.NodupKeys]) (by simp) hnd hr
      have hl1 : LInv s1.links := by rw [hc.links]; exact hl
      obtain ⟨e, G, _, hl2⟩ := insertLinks_spec mp1 b.links.fwd s1 s2 hl1 h2
      refine ⟨?_, ?_, by rw [e, linksList_congr a s1 hc.links], hl2⟩
      · intro j d hd
        obtain ⟨d1, e1, sm, _, _⟩ := hc.frame j d hd
        obtain ⟨d2, e2, gr⟩ := G.fwd j d1 e1
        exact ⟨d2, e2, by rw [gr.parent, sm.parent], by rw [gr.op, sm.op]⟩
      · intro i x hi
        obtain ⟨_, db, ds, e1, e2, e3, _, _, e6, _⟩ := hc.image i x hi
        obtain ⟨dx, ex, gr⟩ := G.fwd x ds e2
        refine ⟨db, dx, e1, ex, by rw [gr.op, e3], ?_⟩
        intro p hp
        obtain ⟨p', g1, g2⟩ := e6 p hp
        exact ⟨p', g1, by rw [gr.parent, g2]⟩

/-- ancestors are carried along the mapping -/
theorem anc_image {a a' b : St} {mp : Dict Nat Nat} (E : Embedded a a' b mp) {x y : Nat} (h : Anc b x y) :
    ∀ x', Dict.get x mp = some x' → ∃ y', Dict.get y mp = some y' ∧ Anc a' x' y' := by
  induction h with
  | refl x => intro x' hx; exact ⟨x', hx, .refl x'⟩
  | step x p y hp _ ih =>
    intro x' hx
    obtain ⟨db, dx, e1, e2, _, e4⟩ := E.img x x' hx
    obtain ⟨d, hd, hpar⟩ := get_of_nodeParent b x (some p) hp
    rw [e1] at hd; injection hd with hd; subst hd
    obtain ⟨p', g1, g2⟩ := e4 p hpar
    obtain ⟨y', hy, ha⟩ := ih p' g1
    exact ⟨y', hy, .step x' p' y' (by rw [nodeParent_of_get a' x' dx e2, g2]) ha⟩

/-- **`insert_hugr` keeps edge locality and edge kinds.** -/
theorem insertHugr_locInv (a a' b : St) (ha : LInvS a) (hb : LInvS b) (parent : Option Nat)
    (mp : Dict Nat Nat) (order : List Nat) (ho : hierarchyOrder b = .ok order) (hnd : order.Nodup)
    (h : insertHugr a b parent = .ok (a', mp)) : LInv a'.links ∧ LocInv a' ∧ KindInv a' := by
  have E := embedded_of_insertHugr a a' b ha.links ha.free parent mp order ho hnd h
  have F : HFrame a a' := by
    refine ⟨?_, fun l hl => by rw [E.links]; simp [hl], ?_⟩
    · intro i p hp
      obtain ⟨d, hd, e⟩ := get_of_nodeParent a i p hp
      obtain ⟨d', hd', e1, _⟩ := E.old i d hd
      rw [nodeParent_of_get a' i d' hd', e1, e]
    · intro i op hp
      obtain ⟨d, hd, e⟩ := get_of_nodeOp a i op hp
      obtain ⟨d', hd', _, e2⟩ := E.old i d hd
      exact ⟨d'.op, nodeOp_of_get a' i d' hd', by rw [e2, e]⟩
  -- a renamed link of B
  have hren : ∀ l, l ∈ b.links.fwd.filterMap (renameLink mp) →
      ∃ e ∈ b.links.fwd, ∃ x y, Dict.get e.1.node mp = some x ∧ Dict.get e.2.node mp = some y ∧
        l = ((x, e.1.offset), (y, e.2.offset)) := by
    intro l hl
    obtain ⟨e, he, hr⟩ := List.mem_filterMap.mp hl
    unfold renameLink at hr
    cases hx : Dict.get e.1.node mp with
    | none => simp [hx] at hr
    | some x =>
      cases hy : Dict.get e.2.node mp with
      | none => simp [hx, hy] at hr
      | some y =>
        simp [hx, hy] at hr
        exact ⟨e, he, x, y, hx, hy, hr.symm⟩
  have hmemb : ∀ e ∈ b.links.fwd, (e.1.port, e.2.port) ∈ linksList b := by
    intro e he
    unfold linksList
    exact List.mem_map.mpr ⟨e, he, rfl⟩
  refine ⟨E.linv, ?_, ?_⟩
  · intro l hl hv hns
    rw [E.links] at hl
    rcases List.mem_append.mp hl with hm | hm
    · exact local_frame F (ha.loc l hm hv (fun hst => hns (static_frame F hst)))
    · obtain ⟨e, he, x, y, hx, hy, rfl⟩ := hren l hm
      have hlb := hmemb e he
      have hns' : ¬ StaticTgt b (e.1.port, e.2.port) := by
        intro hst
        apply hns
        obtain ⟨op, hop, hq⟩ := hst
        obtain ⟨d, hd, hde⟩ := get_of_nodeOp b e.2.node op hop
        obtain ⟨db, dy, e1, e2, e3, _⟩ := E.img e.2.node y hy
        rw [e1] at hd; injection hd with hd; subst hd
        exact ⟨dy.op, nodeOp_of_get a' y dy e2, by rw [e3, hde]; exact hq⟩
      obtain ⟨anc, p, q1, q2, q3, q4⟩ := hb.loc (e.1.port, e.2.port) hlb hv hns'
      simp only [SubPort.port] at q1 q2 q3 q4
      -- the image of the source's parent
      obtain ⟨dbx, dx, ex1, ex2, _, ex4⟩ := E.img e.1.node x hx
      obtain ⟨d0, hd0, hpar0⟩ := get_of_nodeParent b e.1.node (some p) q1
      rw [ex1] at hd0; injection hd0 with hd0; subst hd0
      obtain ⟨p', hp', hxp⟩ := ex4 p hpar0
      -- the image of the sibling ancestor
      obtain ⟨anc', hanc', hA⟩ := anc_image E q2 y hy
      obtain ⟨dba, da, ea1, ea2, _, ea4⟩ := E.img anc anc' hanc'
      obtain ⟨d1, hd1, hpar1⟩ := get_of_nodeParent b anc (some p) q3
      rw [ea1] at hd1; injection hd1 with hd1; subst hd1
      obtain ⟨p'', hp'', hap⟩ := ea4 p hpar1
      have epp : p'' = p' := by rw [hp'] at hp''; injection hp'' with hp''; exact hp''.symm
      subst epp
      refine ⟨anc', p'', by rw [nodeParent_of_get a' x dx ex2, hxp], hA,
        by rw [nodeParent_of_get a' anc' da ea2, hap], ?_⟩
      intro hne
      have hne' : anc ≠ e.2.node := by
        intro e0; apply hne; subst e0
        rw [hy] at hanc'; injection hanc' with hanc'; exact hanc'.symm
      have ho := q4 hne'
      -- the order link of B, as an entry of B's link table, is renamed into the order link of the copy
      unfold linksList at ho
      obtain ⟨e2, he2, hp2⟩ := List.mem_map.mp ho
      have h1 : e2.1.port = (e.1.node, (-1 : Int)) := (Prod.mk.inj hp2).1
      have h2 : e2.2.port = (anc, (-1 : Int)) := (Prod.mk.inj hp2).2
      simp only [SubPort.port] at h1 h2
      obtain ⟨n1, o1⟩ := Prod.mk.inj h1
      obtain ⟨n2, o2⟩ := Prod.mk.inj h2
      rw [E.links]
      apply List.mem_append_right
      apply List.mem_filterMap.mpr
      refine ⟨e2, he2, ?_⟩
      unfold renameLink
      simp [n1, n2, hx, hanc', o1, o2]
  · intro l hl
    rw [E.links] at hl
    rcases List.mem_append.mp hl with hm | hm
    · exact ha.kind l hm
    · obtain ⟨e, he, x, y, _, _, rfl⟩ := hren l hm
      exact hb.kind (e.1.port, e.2.port) (hmemb e he)

end HugrVerif.BuildLocal
