/-
  Link-level lemmas for the store (C04/C08): sub-offset contiguity, `unusedSub`, `linkedFrom`,
  `add_link` and the gap-closing `delete_link`.
-/
import HugrVerif.Store
import HugrVerif.Proofs.BiMap
import Batteries.Data.List.Perm

namespace HugrVerif.Store
open Py HugrVerif

abbrev LMap := BiMap SubPort SubPort
abbrev LDict := Dict SubPort SubPort

/-- key presence -/
def present (d : LDict) (x : SubPort) : Prop := Dict.get x d ≠ none

theorem present_iff_mem (d : LDict) (x : SubPort) : present d x ↔ x ∈ Dict.keys d := by
  unfold present
  have := Dict.get_none_iff x d
  grind

/-- The used sub-offsets of every port form a prefix `0..m-1`. -/
def Contig (d : LDict) : Prop :=
  ∀ n off k, present d ⟨n, off, k + 1⟩ → present d ⟨n, off, k⟩

theorem contig_nil : Contig ([] : LDict) := by
  intro n off k h; simp [present] at h

/-- Pigeonhole: if sub-offsets `0..K-1` of one port are all keys, then `K ≤ length`. -/
theorem prefix_bound (d : LDict) (hnd : Dict.NodupKeys d) (n : Nat) (off : Int) (K : Nat)
    (h : ∀ k, k < K → present d ⟨n, off, k⟩) : K ≤ d.length := by
  have hsub : ((List.range K).map (fun k => (⟨n, off, k⟩ : SubPort))).Subperm (Dict.keys d) := by
    apply List.subperm_of_subset
    · refine List.pairwise_map.mpr (List.Pairwise.imp ?_ (List.nodup_range (n := K)))
      intro a b hab h
      exact hab (by simpa using congrArg SubPort.sub h)
    · intro x hx
      obtain ⟨k, hk, rfl⟩ := List.mem_map.mp hx
      exact (present_iff_mem d _).mp (h k (List.mem_range.mp hk))
  have := hsub.length_le
  simpa [Dict.keys] using this

/-- What the scan of `_unused_sub_offset` returns. -/
theorem unusedSub_scan (d : LDict) (n : Nat) (off : Int) : ∀ fuel k,
    k ≤ unusedSub d n off fuel k ∧
    (∀ j, k ≤ j → j < unusedSub d n off fuel k → present d ⟨n, off, j⟩) ∧
    (Dict.get ⟨n, off, unusedSub d n off fuel k⟩ d = none ∨ unusedSub d n off fuel k = k + fuel) := by
  intro fuel
  induction fuel with
  | zero => intro k; simp [unusedSub]; intro j h1 h2; omega
  | succ f ih =>
    intro k
    unfold unusedSub
    cases hg : Dict.get ⟨n, off, k⟩ d with
    | none => simp [hg]; intro j h1 h2; omega
    | some v =>
      simp only []
      obtain ⟨h1, h2, h3⟩ := ih (k + 1)
      refine ⟨by omega, ?_, ?_⟩
      · intro j hj1 hj2
        by_cases hjk : j = k
        · subst hjk; simp [present, hg]
        · exact h2 j (by omega) hj2
      · rcases h3 with h3 | h3
        · exact Or.inl h3
        · exact Or.inr (by omega)

/-- The first unused sub-offset of a port (`top`): unused, and everything below is used. -/
def top (d : LDict) (n : Nat) (off : Int) : Nat := unusedSub d n off (d.length + 1) 0

theorem top_spec (d : LDict) (hnd : Dict.NodupKeys d) (n : Nat) (off : Int) :
    Dict.get ⟨n, off, top d n off⟩ d = none ∧ ∀ j, j < top d n off → present d ⟨n, off, j⟩ := by
  obtain ⟨_, h2, h3⟩ := unusedSub_scan d n off (d.length + 1) 0
  have h2' : ∀ j, j < top d n off → present d ⟨n, off, j⟩ := fun j hj => h2 j (Nat.zero_le _) hj
  refine ⟨?_, h2'⟩
  rcases h3 with h3 | h3
  · exact h3
  · exfalso
    have hb := prefix_bound d hnd n off (top d n off) h2'
    unfold top at hb
    omega

/-- With contiguity, `top` separates used from unused sub-offsets. -/
theorem present_iff_lt_top (d : LDict) (hnd : Dict.NodupKeys d) (hc : Contig d) (n : Nat) (off : Int) (j : Nat) :
    present d ⟨n, off, j⟩ ↔ j < top d n off := by
  obtain ⟨h1, h2⟩ := top_spec d hnd n off
  constructor
  · intro hp
    apply Classical.byContradiction
    intro hlt
    have hge : top d n off ≤ j := by omega
    -- walk down from j to top by contiguity
    have : ∀ m, top d n off ≤ m → present d ⟨n, off, m⟩ → False := by
      intro m
      induction m with
      | zero =>
        intro hm hp0
        have : top d n off = 0 := by omega
        rw [this] at h1; exact hp0 h1
      | succ m ih =>
        intro hm hpm
        by_cases hmt : top d n off = m + 1
        · rw [hmt] at h1; exact hpm h1
        · exact ih (by omega) (hc n off m hpm)
    exact this j hge hp
  · exact h2 j

/-- Peers at sub-offsets `k, k+1, …, k+cnt-1`. -/
def peersRange (d : LDict) (n : Nat) (off : Int) (k cnt : Nat) : List Port :=
  (List.range' k cnt).filterMap (fun j => (Dict.get ⟨n, off, j⟩ d).map SubPort.port)

theorem linkedFrom_scan (d : LDict) (n : Nat) (off : Int) : ∀ fuel k,
    ∃ r, k ≤ r ∧ (∀ j, k ≤ j → j < r → present d ⟨n, off, j⟩) ∧
      (Dict.get ⟨n, off, r⟩ d = none ∨ r = k + fuel) ∧
      linkedFrom d n off fuel k = peersRange d n off k (r - k) := by
  intro fuel
  induction fuel with
  | zero => intro k; exact ⟨k, Nat.le_refl _, by intro j h1 h2; omega, Or.inr rfl, by simp [linkedFrom, peersRange]⟩
  | succ f ih =>
    intro k
    unfold linkedFrom
    cases hg : Dict.get ⟨n, off, k⟩ d with
    | none => exact ⟨k, Nat.le_refl _, by intro j h1 h2; omega, Or.inl hg, by simp [peersRange]⟩
    | some v =>
      obtain ⟨r, h1, h2, h3, h4⟩ := ih (k + 1)
      refine ⟨r, by omega, ?_, ?_, ?_⟩
      · intro j hj1 hj2
        by_cases hjk : j = k
        · subst hjk; simp [present, hg]
        · exact h2 j (by omega) hj2
      · rcases h3 with h3 | h3
        · exact Or.inl h3
        · exact Or.inr (by omega)
      · simp only [h4, peersRange]
        have : r - k = (r - (k + 1)) + 1 := by omega
        rw [this, List.range'_succ]
        simp [hg]

/-- `linked_ports(port)` lists the peers at sub-offsets `0 .. top-1`, in that order. -/
theorem linkedFrom_eq (d : LDict) (hnd : Dict.NodupKeys d) (n : Nat) (off : Int) :
    linkedFrom d n off (d.length + 1) 0 = peersRange d n off 0 (top d n off) := by
  obtain ⟨r, _, h2, h3, h4⟩ := linkedFrom_scan d n off (d.length + 1) 0
  obtain ⟨t1, t2⟩ := top_spec d hnd n off
  have hr : r = top d n off := by
    have h2' : ∀ j, j < r → present d ⟨n, off, j⟩ := fun j hj => h2 j (Nat.zero_le _) hj
    rcases h3 with h3 | h3
    · -- r unused, everything below used; same for top
      rcases Nat.lt_trichotomy r (top d n off) with hlt | heq | hgt
      · exact absurd h3 (t2 r hlt)
      · exact heq
      · exact absurd t1 (h2' _ hgt)
    · exfalso
      have hb := prefix_bound d hnd n off r h2'
      omega
  rw [h4, hr]; simp

theorem filterMap_eq_map_of {α β : Type} (l : List α) (f : α → Option β) (g : α → β)
    (h : ∀ e ∈ l, f e = some (g e)) : l.filterMap f = l.map g := by
  induction l with
  | nil => rfl
  | cons a t ih =>
    have ha := h a (by simp)
    have ht := ih (fun e he => h e (by simp [he]))
    simp [List.filterMap_cons, ha, ht]

/-- Dictionary entries whose key is a sub-port of port `(n, off)`. -/
def entriesOn (d : LDict) (n : Nat) (off : Int) : List (SubPort × SubPort) :=
  d.filter (fun e => decide (e.1.node = n ∧ e.1.offset = off))

/-- The peers of port `(n, off)` read off the raw dictionary (`links()` restricted to the port). -/
def linksOn (d : LDict) (n : Nat) (off : Int) : List Port := (entriesOn d n off).map (·.2.port)

theorem mem_entriesOn (d : LDict) (n : Nat) (off : Int) (e : SubPort × SubPort) :
    e ∈ entriesOn d n off ↔ e ∈ d ∧ e.1.node = n ∧ e.1.offset = off := by
  simp [entriesOn, List.mem_filter]

theorem subs_nodup (d : LDict) (hnd : Dict.NodupKeys d) (n : Nat) (off : Int) :
    ((entriesOn d n off).map (·.1.sub)).Nodup := by
  have h1 : ((entriesOn d n off).map (·.1)).Nodup := by
    have : ((entriesOn d n off).map (·.1)).Sublist (Dict.keys d) := by
      unfold entriesOn Dict.keys
      exact (List.filter_sublist).map _
    exact List.Nodup.sublist this hnd
  have h2 : (entriesOn d n off).map (·.1.sub) = ((entriesOn d n off).map (·.1)).map SubPort.sub := by
    simp [List.map_map, Function.comp_def]
  rw [h2]
  refine List.pairwise_map.mpr (List.Pairwise.imp_of_mem ?_ h1)
  intro a b ha hb hab heq
  obtain ⟨ea, hea, rfl⟩ := List.mem_map.mp ha
  obtain ⟨eb, heb, rfl⟩ := List.mem_map.mp hb
  have ha' := (mem_entriesOn d n off ea).mp hea
  have hb' := (mem_entriesOn d n off eb).mp heb
  apply hab
  cases hA : ea.1; cases hB : eb.1
  simp_all

theorem mem_subs_iff (d : LDict) (hnd : Dict.NodupKeys d) (n : Nat) (off : Int) (j : Nat) :
    j ∈ (entriesOn d n off).map (·.1.sub) ↔ present d ⟨n, off, j⟩ := by
  constructor
  · intro h
    obtain ⟨e, he, rfl⟩ := List.mem_map.mp h
    obtain ⟨hm, h1, h2⟩ := (mem_entriesOn d n off e).mp he
    have hk : e.1 = ⟨n, off, e.1.sub⟩ := by cases hE : e.1; simp_all
    have : Dict.get e.1 d = some e.2 := (Dict.get_some_iff_mem e.1 e.2 d hnd).mpr hm
    unfold present; rw [← hk, this]; simp
  · intro h
    unfold present at h
    cases hg : Dict.get ⟨n, off, j⟩ d with
    | none => exact absurd hg h
    | some v =>
      have hm := Dict.get_some_mem _ _ _ hg
      exact List.mem_map.mpr ⟨(⟨n, off, j⟩, v), (mem_entriesOn d n off _).mpr ⟨hm, rfl, rfl⟩, rfl⟩

/-- **Every link on a port is reported exactly once by `linked_ports`**: with contiguous
    sub-offsets the scan returns a permutation of the port's entries in the raw link map. -/
theorem linkedFrom_perm (d : LDict) (hnd : Dict.NodupKeys d) (hc : Contig d) (n : Nat) (off : Int) :
    (linkedFrom d n off (d.length + 1) 0).Perm (linksOn d n off) := by
  rw [linkedFrom_eq d hnd]
  have hperm : ((entriesOn d n off).map (·.1.sub)).Perm (List.range (top d n off)) := by
    rw [List.perm_ext_iff_of_nodup (subs_nodup d hnd n off) List.nodup_range]
    intro j
    rw [mem_subs_iff d hnd, present_iff_lt_top d hnd hc, List.mem_range]
  have h1 : peersRange d n off 0 (top d n off) =
      (List.range (top d n off)).filterMap (fun j => (Dict.get ⟨n, off, j⟩ d).map SubPort.port) := by
    simp [peersRange, List.range_eq_range']
  rw [h1]
  refine (hperm.filterMap _).symm.trans ?_
  unfold linksOn
  rw [List.filterMap_map]
  have : ∀ e ∈ entriesOn d n off,
      ((fun j => (Dict.get ⟨n, off, j⟩ d).map SubPort.port) ∘ (fun e : SubPort × SubPort => e.1.sub)) e
        = some e.2.port := by
    intro e he
    obtain ⟨hm, h1, h2⟩ := (mem_entriesOn d n off e).mp he
    have hk : e.1 = ⟨n, off, e.1.sub⟩ := by cases hE : e.1; simp_all
    have : Dict.get e.1 d = some e.2 := (Dict.get_some_iff_mem e.1 e.2 d hnd).mpr hm
    simp only [Function.comp]
    rw [← hk, this]; rfl
  rw [filterMap_eq_map_of _ _ _ this]

/-! ### the link map under `add_link` -/

theorem perm_cons_del {α β : Type} [DecidableEq α] (k : α) (v : β) (d : Dict α β)
    (h : Dict.get k d = some v) : d.Perm ((k, v) :: Dict.del k d) := by
  induction d with
  | nil => simp at h
  | cons hd t ih =>
    obtain ⟨a, b⟩ := hd
    by_cases hak : a = k
    · subst hak
      simp [Dict.get] at h
      simp [Dict.del, h]
    · simp [Dict.get, hak] at h
      simp only [Dict.del, hak, if_false]
      exact (List.Perm.cons _ (ih h)).trans (List.Perm.swap _ _ _)

theorem insertLeft_fresh (m : LMap) (k v : SubPort)
    (hk : Dict.get k m.fwd = none) (hv : Dict.get v m.bck = none) :
    BiMap.insertLeft m k v = ⟨m.fwd ++ [(k, v)], m.bck ++ [(v, k)]⟩ := by
  unfold BiMap.insertLeft
  simp only [hv, hk]
  rw [Dict.set_of_not_mem k v m.fwd ((Dict.get_none_iff k m.fwd).mp hk),
      Dict.set_of_not_mem v k m.bck ((Dict.get_none_iff v m.bck).mp hv)]

theorem get_append_single {α β : Type} [DecidableEq α] (d : Dict α β) (k x : α) (v : β)
    (hk : Dict.get k d = none) :
    Dict.get x (d ++ [(k, v)]) = if x = k then some v else Dict.get x d := by
  rw [← Dict.set_of_not_mem k v d ((Dict.get_none_iff k d).mp hk), Dict.get_set]

/-- Invariant of the link map: exact inverse views and contiguous sub-offsets on both sides. -/
structure LInv (m : LMap) : Prop where
  inv : BiMap.Inv m
  cF : Contig m.fwd
  cB : Contig m.bck

theorem linv_empty : LInv (BiMap.empty : LMap) :=
  ⟨BiMap.inv_empty, contig_nil, contig_nil⟩

/-- The link map after `add_link(src, dst)`. -/
def addLinkMap (m : LMap) (src dst : Port) : LMap :=
  BiMap.insertLeft m ⟨src.1, src.2, unusedSub m.fwd src.1 src.2 (m.fwd.length + 1) 0⟩
    ⟨dst.1, dst.2, unusedSub m.bck dst.1 dst.2 (m.bck.length + 1) 0⟩

theorem contig_append (d : LDict) (hnd : Dict.NodupKeys d) (hc : Contig d) (n : Nat) (off : Int) (v : SubPort) :
    Contig (d ++ [(⟨n, off, top d n off⟩, v)]) := by
  obtain ⟨t1, t2⟩ := top_spec d hnd n off
  intro n' off' k hp
  unfold present at *
  rw [get_append_single d _ _ v t1] at hp ⊢
  by_cases h1 : (⟨n', off', k + 1⟩ : SubPort) = ⟨n, off, top d n off⟩
  · -- the new entry sits at `top`; its predecessor is below `top`, hence present
    have hn : n' = n := by simpa using congrArg SubPort.node h1
    have ho : off' = off := by simpa using congrArg SubPort.offset h1
    have hk : k + 1 = top d n off := by simpa using congrArg SubPort.sub h1
    subst hn; subst ho
    have := t2 k (by omega)
    split
    · simp
    · exact this
  · simp only [h1, if_false] at hp
    have := hc n' off' k hp
    split
    · simp
    · exact this

/-- `add_link` appends exactly one entry to each view and keeps the invariant. -/
theorem addLinkMap_spec (m : LMap) (h : LInv m) (src dst : Port) :
    ∃ ks kd, addLinkMap m src dst =
        ⟨m.fwd ++ [(⟨src.1, src.2, ks⟩, ⟨dst.1, dst.2, kd⟩)], m.bck ++ [(⟨dst.1, dst.2, kd⟩, ⟨src.1, src.2, ks⟩)]⟩
      ∧ LInv (addLinkMap m src dst) := by
  obtain ⟨hi, hcF, hcB⟩ := h
  obtain ⟨f1, _⟩ := top_spec m.fwd hi.ndF src.1 src.2
  obtain ⟨b1, _⟩ := top_spec m.bck hi.ndB dst.1 dst.2
  refine ⟨top m.fwd src.1 src.2, top m.bck dst.1 dst.2, ?_, ?_⟩
  · exact insertLeft_fresh m _ _ f1 b1
  · have e := insertLeft_fresh m ⟨src.1, src.2, top m.fwd src.1 src.2⟩ ⟨dst.1, dst.2, top m.bck dst.1 dst.2⟩ f1 b1
    refine ⟨BiMap.inv_insertLeft m hi _ _, ?_, ?_⟩
    · show Contig (addLinkMap m src dst).fwd
      unfold addLinkMap; rw [show unusedSub m.fwd src.1 src.2 (m.fwd.length + 1) 0 = top m.fwd src.1 src.2 from rfl,
        show unusedSub m.bck dst.1 dst.2 (m.bck.length + 1) 0 = top m.bck dst.1 dst.2 from rfl, e]
      exact contig_append m.fwd hi.ndF hcF _ _ _
    · show Contig (addLinkMap m src dst).bck
      unfold addLinkMap; rw [show unusedSub m.fwd src.1 src.2 (m.fwd.length + 1) 0 = top m.fwd src.1 src.2 from rfl,
        show unusedSub m.bck dst.1 dst.2 (m.bck.length + 1) 0 = top m.bck dst.1 dst.2 from rfl, e]
      exact contig_append m.bck hi.ndB hcB _ _ _

/-! ### the gap-closing loops of `delete_link` -/

/-- Port pairs of the raw link map (`links()`), in dictionary order. -/
def portPairs (m : LMap) : List (Port × Port) := m.fwd.map (fun e => (e.1.port, e.2.port))

/-- Contiguous except for one hole at sub-offset `h` of port `(n, off)`. -/
structure HoleContig (d : LDict) (n : Nat) (off : Int) (h : Nat) : Prop where
  other : ∀ n' off' k, ¬ (n' = n ∧ off' = off) → present d ⟨n', off', k + 1⟩ → present d ⟨n', off', k⟩
  hole : ¬ present d ⟨n, off, h⟩
  below : ∀ k, k < h → present d ⟨n, off, k⟩
  above : ∀ k, h < k → present d ⟨n, off, k + 1⟩ → present d ⟨n, off, k⟩

theorem contig_of_hole_end (d : LDict) (n : Nat) (off : Int) (h : Nat) (hc : HoleContig d n off h)
    (hend : ¬ present d ⟨n, off, h + 1⟩) : Contig d := by
  intro n' off' k hp
  by_cases hport : n' = n ∧ off' = off
  · obtain ⟨rfl, rfl⟩ := hport
    rcases Nat.lt_trichotomy k h with hlt | heq | hgt
    · exact hc.below k hlt
    · subst heq; exact absurd hp hend
    · exact hc.above k hgt hp
  · exact hc.other n' off' k hport hp

theorem closeGapOut_spec : ∀ (fuel : Nat) (m : LMap) (n : Nat) (off : Int) (h : Nat),
    BiMap.Inv m → HoleContig m.fwd n off h → m.fwd.length + 1 ≤ fuel + h →
    ∃ m', closeGapOut fuel m ⟨n, off, h⟩ = .ok m' ∧ BiMap.Inv m' ∧ Contig m'.fwd ∧
      (∀ x, present m'.bck x ↔ present m.bck x) ∧
      (portPairs m').Perm (portPairs m) := by
  intro fuel
  induction fuel with
  | zero =>
    intro m n off h hi hc hf
    exfalso
    have := prefix_bound m.fwd hi.ndF n off h hc.below
    omega
  | succ f ih =>
    intro m n off h hi hc hf
    unfold closeGapOut
    simp only [SubPort.next, BiMap.getRight]
    cases hg : Dict.get ⟨n, off, h + 1⟩ m.fwd with
    | none =>
      refine ⟨m, rfl, hi, contig_of_hole_end m.fwd n off h hc ?_, fun _ => Iff.rfl, List.Perm.refl _⟩
      simp [present, hg]
    | some other =>
      simp only []
      rw [BiMap.deleteLeft_some m hi _ _ hg]
      simp only []
      -- the map after moving entry (h+1 ↦ other) down to (h ↦ other)
      have hbk : Dict.get other m.bck = some ⟨n, off, h + 1⟩ := (hi.inv _ _).mp hg
      let m1 : LMap := ⟨Dict.del ⟨n, off, h + 1⟩ m.fwd, Dict.del other m.bck⟩
      have hi1 : BiMap.Inv m1 := BiMap.inv_delPair m hi _ _ hg
      have hne : (⟨n, off, h⟩ : SubPort) ≠ ⟨n, off, h + 1⟩ := by
        intro e; have := congrArg SubPort.sub e; simp at this
      have hk : Dict.get ⟨n, off, h⟩ m1.fwd = none := by
        show Dict.get _ (Dict.del _ m.fwd) = none
        rw [Dict.get_del _ _ _ hi.ndF]
        have := hc.hole; unfold present at this
        simp [hne]; exact Classical.not_not.mp this
      have hv : Dict.get other m1.bck = none := by
        show Dict.get _ (Dict.del _ m.bck) = none
        rw [Dict.get_del _ _ _ hi.ndB]; simp
      have e := insertLeft_fresh m1 ⟨n, off, h⟩ other hk hv
      have hi2 : BiMap.Inv (BiMap.insertLeft m1 ⟨n, off, h⟩ other) := BiMap.inv_insertLeft m1 hi1 _ _
      -- presence in the new forward dict
      have hpF : ∀ x, present (BiMap.insertLeft m1 ⟨n, off, h⟩ other).fwd x ↔
          (x = ⟨n, off, h⟩ ∨ (x ≠ ⟨n, off, h + 1⟩ ∧ present m.fwd x)) := by
        intro x
        rw [e]; unfold present
        show Dict.get x (Dict.del _ m.fwd ++ _) ≠ none ↔ _
        rw [get_append_single _ _ _ _ hk, Dict.get_del _ _ _ hi.ndF]
        by_cases h1 : x = ⟨n, off, h⟩
        · simp [h1]
        · by_cases h2 : x = ⟨n, off, h + 1⟩
          · simp [h2]
          · simp [h1, h2]
      have hpB : ∀ x, present (BiMap.insertLeft m1 ⟨n, off, h⟩ other).bck x ↔ present m.bck x := by
        intro x
        rw [e]; unfold present
        show Dict.get x (Dict.del _ m.bck ++ _) ≠ none ↔ _
        rw [get_append_single _ _ _ _ hv, Dict.get_del _ _ _ hi.ndB]
        by_cases h1 : x = other
        · simp [h1, hbk]
        · simp [h1]
      have hc2 : HoleContig (BiMap.insertLeft m1 ⟨n, off, h⟩ other).fwd n off (h + 1) := by
        refine ⟨?_, ?_, ?_, ?_⟩
        · intro n' off' k hport hp
          rw [hpF] at hp ⊢
          rcases hp with hp | ⟨_, hp⟩
          · exfalso; apply hport
            exact ⟨by simpa using congrArg SubPort.node hp, by simpa using congrArg SubPort.offset hp⟩
          · right
            refine ⟨?_, hc.other n' off' k hport hp⟩
            intro e'; apply hport
            exact ⟨by simpa using congrArg SubPort.node e', by simpa using congrArg SubPort.offset e'⟩
        · rw [hpF]; simp
        · intro k hk'
          rw [hpF]
          by_cases hkh : k = h
          · left; rw [hkh]
          · right
            refine ⟨?_, hc.below k (by omega)⟩
            intro e'; have := congrArg SubPort.sub e'; simp at this; omega
        · intro k hk' hp
          rw [hpF] at hp ⊢
          rcases hp with hp | ⟨_, hp⟩
          · have := congrArg SubPort.sub hp; simp at this; omega
          · right
            refine ⟨?_, hc.above k (by omega) hp⟩
            intro e'; have := congrArg SubPort.sub e'; simp at this; omega
      have hlen : (BiMap.insertLeft m1 ⟨n, off, h⟩ other).fwd.length = m.fwd.length := by
        rw [e]
        show (Dict.del _ m.fwd ++ _).length = _
        have hmem : (⟨n, off, h + 1⟩ : SubPort) ∈ Dict.keys m.fwd := by
          have := (present_iff_mem m.fwd ⟨n, off, h + 1⟩).mp (by simp [present, hg])
          exact this
        have hpos : 0 < m.fwd.length := by
          cases hm : m.fwd with
          | nil => rw [hm] at hmem; simp at hmem
          | cons _ _ => simp
        simp [Dict.length_del, hmem]; omega
      obtain ⟨m', r1, r2, r3, r4, r5⟩ := ih (BiMap.insertLeft m1 ⟨n, off, h⟩ other) n off (h + 1) hi2 hc2 (by omega)
      refine ⟨m', r1, r2, r3, fun x => (r4 x).trans (hpB x), r5.trans ?_⟩
      -- port pairs: the moved entry keeps its ports
      unfold portPairs
      rw [e]
      show (List.map _ (Dict.del _ m.fwd ++ _)).Perm _
      have hp := perm_cons_del _ _ m.fwd hg
      have := (hp.map (fun e : SubPort × SubPort => (e.1.port, e.2.port))).symm
      refine List.Perm.trans ?_ this
      simp only [List.map_append, List.map_cons, List.map_nil]
      refine List.perm_append_comm.trans ?_
      simp [SubPort.port]

theorem closeGapIn_spec : ∀ (fuel : Nat) (m : LMap) (n : Nat) (off : Int) (h : Nat),
    BiMap.Inv m → HoleContig m.bck n off h → m.bck.length + 1 ≤ fuel + h →
    ∃ m', closeGapIn fuel m ⟨n, off, h⟩ = .ok m' ∧ BiMap.Inv m' ∧ Contig m'.bck ∧
      (∀ x, present m'.fwd x ↔ present m.fwd x) ∧
      (portPairs m').Perm (portPairs m) := by
  intro fuel
  induction fuel with
  | zero =>
    intro m n off h hi hc hf
    exfalso
    have := prefix_bound m.bck hi.ndB n off h hc.below
    omega
  | succ f ih =>
    intro m n off h hi hc hf
    unfold closeGapIn
    simp only [SubPort.next, BiMap.getLeft]
    cases hg : Dict.get ⟨n, off, h + 1⟩ m.bck with
    | none =>
      refine ⟨m, rfl, hi, contig_of_hole_end m.bck n off h hc ?_, fun _ => Iff.rfl, List.Perm.refl _⟩
      simp [present, hg]
    | some other =>
      simp only []
      rw [BiMap.deleteRight_some m hi _ _ hg]
      simp only [BiMap.insertRight]
      have hfw : Dict.get other m.fwd = some ⟨n, off, h + 1⟩ := (hi.inv _ _).mpr hg
      let m1 : LMap := ⟨Dict.del other m.fwd, Dict.del ⟨n, off, h + 1⟩ m.bck⟩
      have hi1 : BiMap.Inv m1 := BiMap.inv_delPair m hi _ _ hfw
      have hne : (⟨n, off, h⟩ : SubPort) ≠ ⟨n, off, h + 1⟩ := by
        intro e; have := congrArg SubPort.sub e; simp at this
      have hv : Dict.get ⟨n, off, h⟩ m1.bck = none := by
        show Dict.get _ (Dict.del _ m.bck) = none
        rw [Dict.get_del _ _ _ hi.ndB]
        have := hc.hole; unfold present at this
        simp [hne]; exact Classical.not_not.mp this
      have hk : Dict.get other m1.fwd = none := by
        show Dict.get _ (Dict.del _ m.fwd) = none
        rw [Dict.get_del _ _ _ hi.ndF]; simp
      have e := insertLeft_fresh m1 other ⟨n, off, h⟩ hk hv
      have hi2 : BiMap.Inv (BiMap.insertLeft m1 other ⟨n, off, h⟩) := BiMap.inv_insertLeft m1 hi1 _ _
      have hpB : ∀ x, present (BiMap.insertLeft m1 other ⟨n, off, h⟩).bck x ↔
          (x = ⟨n, off, h⟩ ∨ (x ≠ ⟨n, off, h + 1⟩ ∧ present m.bck x)) := by
        intro x
        rw [e]; unfold present
        show Dict.get x (Dict.del _ m.bck ++ _) ≠ none ↔ _
        rw [get_append_single _ _ _ _ hv, Dict.get_del _ _ _ hi.ndB]
        by_cases h1 : x = ⟨n, off, h⟩
        · simp [h1]
        · by_cases h2 : x = ⟨n, off, h + 1⟩
          · simp [h2]
          · simp [h1, h2]
      have hpF : ∀ x, present (BiMap.insertLeft m1 other ⟨n, off, h⟩).fwd x ↔ present m.fwd x := by
        intro x
        rw [e]; unfold present
        show Dict.get x (Dict.del _ m.fwd ++ _) ≠ none ↔ _
        rw [get_append_single _ _ _ _ hk, Dict.get_del _ _ _ hi.ndF]
        by_cases h1 : x = other
        · simp [h1, hfw]
        · simp [h1]
      have hc2 : HoleContig (BiMap.insertLeft m1 other ⟨n, off, h⟩).bck n off (h + 1) := by
        refine ⟨?_, ?_, ?_, ?_⟩
        · intro n' off' k hport hp
          rw [hpB] at hp ⊢
          rcases hp with hp | ⟨_, hp⟩
          · exfalso; apply hport
            exact ⟨by simpa using congrArg SubPort.node hp, by simpa using congrArg SubPort.offset hp⟩
          · right
            refine ⟨?_, hc.other n' off' k hport hp⟩
            intro e'; apply hport
            exact ⟨by simpa using congrArg SubPort.node e', by simpa using congrArg SubPort.offset e'⟩
        · rw [hpB]; simp
        · intro k hk'
          rw [hpB]
          by_cases hkh : k = h
          · left; rw [hkh]
          · right
            refine ⟨?_, hc.below k (by omega)⟩
            intro e'; have := congrArg SubPort.sub e'; simp at this; omega
        · intro k hk' hp
          rw [hpB] at hp ⊢
          rcases hp with hp | ⟨_, hp⟩
          · have := congrArg SubPort.sub hp; simp at this; omega
          · right
            refine ⟨?_, hc.above k (by omega) hp⟩
            intro e'; have := congrArg SubPort.sub e'; simp at this; omega
      have hlen : (BiMap.insertLeft m1 other ⟨n, off, h⟩).bck.length = m.bck.length := by
        rw [e]
        show (Dict.del _ m.bck ++ _).length = _
        have hmem : (⟨n, off, h + 1⟩ : SubPort) ∈ Dict.keys m.bck :=
          (present_iff_mem m.bck ⟨n, off, h + 1⟩).mp (by simp [present, hg])
        have hpos : 0 < m.bck.length := by
          cases hm : m.bck with
          | nil => rw [hm] at hmem; simp at hmem
          | cons _ _ => simp
        simp [Dict.length_del, hmem]; omega
      obtain ⟨m', r1, r2, r3, r4, r5⟩ := ih (BiMap.insertLeft m1 other ⟨n, off, h⟩) n off (h + 1) hi2 hc2 (by omega)
      refine ⟨m', r1, r2, r3, fun x => (r4 x).trans (hpF x), r5.trans ?_⟩
      unfold portPairs
      rw [e]
      show (List.map _ (Dict.del _ m.fwd ++ _)).Perm _
      have hp := perm_cons_del _ _ m.fwd hfw
      have := (hp.map (fun e : SubPort × SubPort => (e.1.port, e.2.port))).symm
      refine List.Perm.trans ?_ this
      simp only [List.map_append, List.map_cons, List.map_nil]
      refine List.perm_append_comm.trans ?_
      simp [SubPort.port]

/-! ### `delete_link` on the link map -/

theorem findIdx_linkedFrom (d : LDict) (n : Nat) (off : Int) (dst : Port) : ∀ fuel k j i,
    findIdx dst (linkedFrom d n off fuel k) j = some i →
    ∃ v, j ≤ i ∧ Dict.get ⟨n, off, k + (i - j)⟩ d = some v ∧ v.port = dst := by
  intro fuel
  induction fuel with
  | zero => intro k j i h; simp [linkedFrom, findIdx] at h
  | succ f ih =>
    intro k j i h
    unfold linkedFrom at h
    cases hg : Dict.get ⟨n, off, k⟩ d with
    | none => simp [hg, findIdx] at h
    | some q =>
      simp only [hg, findIdx] at h
      by_cases hq : q.port = dst
      · simp [hq] at h; subst h
        exact ⟨q, Nat.le_refl _, by simpa using hg, hq⟩
      · simp [hq] at h
        obtain ⟨v, h1, h2, h3⟩ := ih (k + 1) (j + 1) i h
        refine ⟨v, by omega, ?_, h3⟩
        have : k + 1 + (i - (j + 1)) = k + (i - j) := by omega
        rw [← this]; exact h2

theorem findIdx_none (dst : Port) : ∀ (l : List Port) j, findIdx dst l j = none → dst ∉ l := by
  intro l
  induction l with
  | nil => intro j _; simp
  | cons q qs ih =>
    intro j h
    simp only [findIdx] at h
    by_cases hq : q = dst
    · simp [hq] at h
    · simp [hq] at h
      have := ih (j + 1) h
      simp [this]; exact fun e => hq e.symm

theorem mem_portPairs_iff (m : LMap) (src dst : Port) :
    (src, dst) ∈ portPairs m ↔ dst ∈ linksOn m.fwd src.1 src.2 := by
  unfold portPairs linksOn
  simp only [List.mem_map]
  constructor
  · rintro ⟨e, he, heq⟩
    refine ⟨e, (mem_entriesOn _ _ _ e).mpr ⟨he, ?_, ?_⟩, ?_⟩
    · have := congrArg (·.1.1) heq; simpa [SubPort.port] using this
    · have := congrArg (·.1.2) heq; simpa [SubPort.port] using this
    · have := congrArg (·.2) heq; simpa using this
  · rintro ⟨e, he, heq⟩
    obtain ⟨hm, h1, h2⟩ := (mem_entriesOn _ _ _ e).mp he
    refine ⟨e, hm, ?_⟩
    simp [SubPort.port, h1, h2, ← heq]

/-- **`delete_link` removes exactly one `(src, dst)` link** (nothing if there is none) and keeps
    the link-map invariant. -/
theorem deleteLinkMap_spec (m : LMap) (h : LInv m) (src dst : Port) :
    ∃ m', deleteLinkMap m src dst = .ok m' ∧ LInv m' ∧
      (((src, dst) ∈ portPairs m ∧ (portPairs m).Perm ((src, dst) :: portPairs m')) ∨
       ((src, dst) ∉ portPairs m ∧ m' = m)) := by
  obtain ⟨hi, hcF, hcB⟩ := h
  unfold deleteLinkMap
  cases hf : findIdx dst (linkedFrom m.fwd src.1 src.2 (m.fwd.length + 1) 0) 0 with
  | none =>
    refine ⟨m, by simp only [hf]; rfl, ⟨hi, hcF, hcB⟩, Or.inr ⟨?_, rfl⟩⟩
    have hn := findIdx_none dst _ 0 hf
    rw [mem_portPairs_iff]
    intro hm
    exact hn ((linkedFrom_perm m.fwd hi.ndF hcF src.1 src.2).mem_iff.mpr hm)
  | some i =>
    obtain ⟨dstSub, _, hg, hport⟩ := findIdx_linkedFrom m.fwd src.1 src.2 dst _ 0 0 i hf
    simp only [Nat.zero_add, Nat.sub_zero] at hg
    simp only [hf, hg, BiMap.deleteLeft_some m hi _ _ hg]
    have hbk : Dict.get dstSub m.bck = some ⟨src.1, src.2, i⟩ := (hi.inv _ _).mp hg
    let m1 : LMap := ⟨Dict.del ⟨src.1, src.2, i⟩ m.fwd, Dict.del dstSub m.bck⟩
    have hi1 : BiMap.Inv m1 := BiMap.inv_delPair m hi _ _ hg
    have hpF1 : ∀ x, present m1.fwd x ↔ (x ≠ ⟨src.1, src.2, i⟩ ∧ present m.fwd x) := by
      intro x; unfold present
      show Dict.get x (Dict.del _ m.fwd) ≠ none ↔ _
      rw [Dict.get_del _ _ _ hi.ndF]
      by_cases hx : x = ⟨src.1, src.2, i⟩ <;> simp [hx]
    have hpB1 : ∀ x, present m1.bck x ↔ (x ≠ dstSub ∧ present m.bck x) := by
      intro x; unfold present
      show Dict.get x (Dict.del _ m.bck) ≠ none ↔ _
      rw [Dict.get_del _ _ _ hi.ndB]
      by_cases hx : x = dstSub <;> simp [hx]
    have hole_of : ∀ (d d1 : LDict) (hnd : Dict.NodupKeys d) (hc : Contig d) (n : Nat) (off : Int) (j : Nat),
        present d ⟨n, off, j⟩ →
        (∀ x, present d1 x ↔ (x ≠ ⟨n, off, j⟩ ∧ present d x)) → HoleContig d1 n off j := by
      intro d d1 hnd hc n off j hpj hp
      refine ⟨?_, ?_, ?_, ?_⟩
      · intro n' off' k hport hpk
        rw [hp] at hpk ⊢
        refine ⟨?_, hc n' off' k hpk.2⟩
        intro e; apply hport
        exact ⟨by simpa using congrArg SubPort.node e, by simpa using congrArg SubPort.offset e⟩
      · rw [hp]; simp
      · intro k hk
        rw [hp]
        refine ⟨?_, ?_⟩
        · intro e; have := congrArg SubPort.sub e; simp at this; omega
        · exact (present_iff_lt_top d hnd hc n off k).mpr
            (Nat.lt_trans hk ((present_iff_lt_top d hnd hc n off j).mp hpj))
      · intro k hk hpk
        rw [hp] at hpk ⊢
        refine ⟨?_, hc n off k hpk.2⟩
        intro e; have := congrArg SubPort.sub e; simp at this; omega
    have hcF1 : HoleContig m1.fwd src.1 src.2 i :=
      hole_of m.fwd m1.fwd hi.ndF hcF src.1 src.2 i (by simp [present, hg]) hpF1
    obtain ⟨m2, e2, hi2, hcF2, hpB2, hperm2⟩ :=
      closeGapOut_spec (m1.fwd.length + 1) m1 src.1 src.2 i hi1 hcF1 (by omega)
    have hds : dstSub = ⟨dstSub.node, dstSub.offset, dstSub.sub⟩ := by cases dstSub; rfl
    have hcB1 : HoleContig m1.bck dstSub.node dstSub.offset dstSub.sub :=
      hole_of m.bck m1.bck hi.ndB hcB dstSub.node dstSub.offset dstSub.sub
        (by rw [← hds]; simp [present, hbk]) (by rw [← hds]; exact hpB1)
    have hcB2 : HoleContig m2.bck dstSub.node dstSub.offset dstSub.sub := by
      refine ⟨?_, ?_, ?_, ?_⟩
      · intro n' off' k hport hpk; rw [hpB2] at hpk ⊢; exact hcB1.other n' off' k hport hpk
      · rw [hpB2]; exact hcB1.hole
      · intro k hk; rw [hpB2]; exact hcB1.below k hk
      · intro k hk hpk; rw [hpB2] at hpk ⊢; exact hcB1.above k hk hpk
    obtain ⟨m3, e3, hi3, hcB3, hpF3, hperm3⟩ :=
      closeGapIn_spec (m2.bck.length + 1) m2 dstSub.node dstSub.offset dstSub.sub hi2 hcB2 (by omega)
    have hcF3 : Contig m3.fwd := by
      intro n' off' k hpk; rw [hpF3] at hpk ⊢; exact hcF2 n' off' k hpk
    refine ⟨m3, ?_, ⟨hi3, hcF3, hcB3⟩, Or.inl ⟨?_, ?_⟩⟩
    · show (do let m2 ← closeGapOut (m1.fwd.length + 1) m1 ⟨src.1, src.2, i⟩
               closeGapIn (m2.bck.length + 1) m2 dstSub) = .ok m3
      rw [e2]
      show closeGapIn (m2.bck.length + 1) m2 dstSub = .ok m3
      rw [hds]; exact e3
    · unfold portPairs
      refine List.mem_map.mpr ⟨(⟨src.1, src.2, i⟩, dstSub), Dict.get_some_mem _ _ _ hg, ?_⟩
      rw [← hport]; rfl
    · have hp := perm_cons_del _ _ m.fwd hg
      have h1 : (portPairs m).Perm ((src, dst) :: portPairs m1) := by
        have := hp.map (fun e : SubPort × SubPort => (e.1.port, e.2.port))
        rw [← hport]
        exact this
      exact h1.trans (List.Perm.cons _ ((hperm3.trans hperm2).symm))

end HugrVerif.Store
