/-
  Lemmas for C01's validity specification (`HugrVerif/Validate.lean`):

  * `OpTag.isSuperset_iff`   the budgeted `is_superset` is the reflexive-transitive reading of
                             `immediate_supersets`;
  * `acyclicB_iff`           Kahn's elimination decides `Acyclic` (no node reaches itself);
  * `mem_reach_iff`          saturation computes exactly the end points of walks;
  * `dominatesB_iff`         "reachable, and unreachable once `a` is removed" is dominance
                             (every walk from the entry passes through `a`);
  * `violations_nil_iff`     `violations d = [] ↔ Valid d`  (⇒ `validate_iff`).
-/
import HugrVerif.Validate
import HugrVerif.Proofs.ValSpec
import Mathlib.Logic.Relation
import Mathlib.Tactic.ByContra

namespace HugrVerif.Validate
open HugrVerif Relation

/-! ### op tags -/

namespace OpTag

theorem isSupersetF_fix (s o : OpTag) :
    isSupersetF 6 s o = (s == o || (parents o).any (fun p => isSupersetF 6 s p)) := by
  cases o <;> simp [isSupersetF, parents]

theorem superset_of_isSupersetF : ∀ (k : Nat) (s o : OpTag), isSupersetF k s o = true → Superset s o
  | 0, s, o, h => by
    simp only [isSupersetF, beq_iff_eq] at h
    subst h; exact .refl
  | k + 1, s, o, h => by
    simp only [isSupersetF, Bool.or_eq_true, beq_iff_eq, List.any_eq_true] at h
    rcases h with h | ⟨p, hp, h⟩
    · subst h; exact .refl
    · exact .step o p hp (superset_of_isSupersetF k s p h)

theorem isSuperset_of_superset {s o : OpTag} (h : Superset s o) : isSuperset s o = true := by
  induction h with
  | refl => unfold isSuperset; rw [isSupersetF_fix]; simp
  | step o p hp _ ih =>
    unfold isSuperset at ih ⊢
    rw [isSupersetF_fix]
    simp only [Bool.or_eq_true, List.any_eq_true]
    exact Or.inr ⟨p, hp, ih⟩

/-- `is_superset` (tag.rs:79-94) decides "reachable through immediate supersets". -/
theorem isSuperset_iff (s o : OpTag) : isSuperset s o = true ↔ Superset s o :=
  ⟨superset_of_isSupersetF 6 s o, isSuperset_of_superset⟩

end OpTag

/-! ### iteration -/

theorem iter_fixed {α : Type} (f : α → α) (x : α) (h : f x = x) : ∀ k, iter f k x = x
  | 0 => rfl
  | k + 1 => by simp only [iter, h]; exact iter_fixed f x h k

theorem iter_succ' {α : Type} (f : α → α) : ∀ (k : Nat) (x : α), iter f (k + 1) x = f (iter f k x)
  | 0, _ => rfl
  | k + 1, x => by
    show iter f (k + 1) (f x) = f (iter f k (f x))
    exact iter_succ' f k (f x)

/-! ### Kahn's elimination -/

theorem mem_kahnStep (es : List (Nat × Nat)) (rem : List Nat) (y : Nat) :
    y ∈ kahnStep es rem ↔ y ∈ rem ∧ ∃ x ∈ rem, (x, y) ∈ es := by
  simp only [kahnStep, List.mem_filter, List.any_eq_true, List.contains_iff_mem, beq_iff_eq,
    Prod.exists]
  constructor
  · rintro ⟨hy, a, b, ⟨hab, ha⟩, hb⟩
    subst hb
    exact ⟨hy, a, ha, hab⟩
  · rintro ⟨hy, x, hx, hxy⟩
    exact ⟨hy, x, y, ⟨hxy, hx⟩, rfl⟩

/-- a step along `E'` is one or more steps along `E` -/
theorem transGen_of_steps {E E' : Nat → Nat → Prop} (h : ∀ a b, E' a b → TransGen E a b) {a b : Nat}
    (hab : TransGen E' a b) : TransGen E a b := by
  induction hab with
  | single h1 => exact h _ _ h1
  | tail _ h2 ih => exact ih.trans (h _ _ h2)

/-- A finite non-empty set in which every node has a predecessor in the set contains a cycle
    (by induction on the size: remove a node and route its predecessors to its successors). -/
theorem exists_cycle_of_no_source : ∀ (n : Nat) (R : List Nat) (E : Nat → Nat → Prop),
    R.length ≤ n → R ≠ [] → (∀ x ∈ R, ∃ y ∈ R, E y x) → ∃ a, TransGen E a a
  | 0, R, _, hl, hne, _ => by
    cases R with
    | nil => exact absurd rfl hne
    | cons _ _ => simp at hl
  | n + 1, R, E, hl, hne, hp => by
    cases R with
    | nil => exact absurd rfl hne
    | cons x R0 =>
      by_cases hxx : E x x
      · exact ⟨x, .single hxx⟩
      · let R' := (x :: R0).filter (fun z => z != x)
        have hmemR' : ∀ z, z ∈ R' ↔ z ∈ x :: R0 ∧ z ≠ x := by
          intro z; simp only [R', List.mem_filter, bne_iff_ne, ne_eq]
        have hlen : R'.length ≤ n := by
          have : R'.length < (x :: R0).length :=
            List.length_filter_lt_length_iff_exists.2 ⟨x, List.mem_cons_self, by simp⟩
          simp only [List.length_cons] at this hl
          omega
        by_cases hR' : R' = []
        · -- every element is `x`, so the predecessor of `x` is `x`
          obtain ⟨y, hy, hyx⟩ := hp x List.mem_cons_self
          have : y = x := by
            by_contra hne'
            have : y ∈ R' := (hmemR' y).2 ⟨hy, hne'⟩
            rw [hR'] at this
            cases this
          subst this
          exact absurd hyx hxx
        · let E' : Nat → Nat → Prop := fun y z => E y z ∨ (E y x ∧ E x z)
          have hp' : ∀ z ∈ R', ∃ y ∈ R', E' y z := by
            intro z hz
            obtain ⟨hzR, hzx⟩ := (hmemR' z).1 hz
            obtain ⟨y, hy, hyz⟩ := hp z hzR
            by_cases hyx : y = x
            · subst hyx
              obtain ⟨w, hw, hwy⟩ := hp y List.mem_cons_self
              have hwy' : w ≠ y := by
                intro e; subst e; exact hxx hwy
              exact ⟨w, (hmemR' w).2 ⟨hw, hwy'⟩, Or.inr ⟨hwy, hyz⟩⟩
            · exact ⟨y, (hmemR' y).2 ⟨hy, hyx⟩, Or.inl hyz⟩
          obtain ⟨a, ha⟩ := exists_cycle_of_no_source n R' E' hlen hR' hp'
          refine ⟨a, transGen_of_steps ?_ ha⟩
          intro u v huv
          rcases huv with h | ⟨h1, h2⟩
          · exact .single h
          · exact (TransGen.single h1).tail h2

theorem transGen_exists_pred {E : Nat → Nat → Prop} {a b : Nat} (h : TransGen E a b) :
    ∃ y, E y b ∧ (y = a ∨ TransGen E a y) := by
  cases h with
  | single h1 => exact ⟨a, h1, Or.inl rfl⟩
  | tail h1 h2 => exact ⟨_, h2, Or.inr h1⟩

theorem transGen_exists_succ {E : Nat → Nat → Prop} {a b : Nat} (h : TransGen E a b) : ∃ y, E a y := by
  induction h with
  | single h1 => exact ⟨_, h1⟩
  | tail _ _ ih => exact ih

/-- nodes on a cycle survive every round -/
theorem kahn_keeps_cycles (V : List Nat) (es : List (Nat × Nat))
    (hV : ∀ e ∈ es, e.1 ∈ V ∧ e.2 ∈ V) :
    ∀ (k : Nat) (rem : List Nat), (∀ x, TransGen (EdgeRel es) x x → x ∈ V → x ∈ rem) →
      ∀ x, TransGen (EdgeRel es) x x → x ∈ V → x ∈ iter (kahnStep es) k rem
  | 0, _, h => h
  | k + 1, rem, h => by
    apply kahn_keeps_cycles V es hV k (kahnStep es rem)
    intro x hx hxV
    rw [mem_kahnStep]
    refine ⟨h x hx hxV, ?_⟩
    obtain ⟨y, hyx, hy⟩ := transGen_exists_pred hx
    have hyV : y ∈ V := (hV (y, x) hyx).1
    have hyc : TransGen (EdgeRel es) y y := by
      rcases hy with rfl | hy
      · exact hx
      · exact TransGen.head hyx hy
    exact ⟨y, h y hyc hyV, hyx⟩

theorem kahnStep_length_lt (es : List (Nat × Nat)) (hac : Acyclic es) (rem : List Nat) (hne : rem ≠ []) :
    (kahnStep es rem).length < rem.length := by
  by_contra hnot
  have hall : ∀ x ∈ rem, ∃ y ∈ rem, EdgeRel es y x := by
    intro x hx
    by_contra hno
    apply hnot
    have : kahnStep es rem = rem.filter (fun y => ((es.filter (fun e => rem.contains e.1)).any (fun e => e.2 == y))) := rfl
    rw [this]
    apply List.length_filter_lt_length_iff_exists.2
    refine ⟨x, hx, ?_⟩
    intro hk
    have : x ∈ kahnStep es rem := by
      rw [‹kahnStep es rem = _›]; exact List.mem_filter.2 ⟨hx, hk⟩
    obtain ⟨_, y, hy, hyx⟩ := (mem_kahnStep es rem x).1 this
    exact hno ⟨y, hy, hyx⟩
  obtain ⟨a, ha⟩ := exists_cycle_of_no_source rem.length rem (EdgeRel es) (Nat.le_refl _) hne hall
  exact hac a ha

theorem kahn_length (es : List (Nat × Nat)) (hac : Acyclic es) :
    ∀ (k : Nat) (rem : List Nat), (iter (kahnStep es) k rem).length ≤ rem.length - k
  | 0, _ => by simp [iter]
  | k + 1, rem => by
    by_cases hne : rem = []
    · subst hne
      have : kahnStep es [] = [] := rfl
      simp only [iter, this]
      have := kahn_length es hac k []
      simpa using this
    · have h1 := kahn_length es hac k (kahnStep es rem)
      have h2 := kahnStep_length_lt es hac rem hne
      simp only [iter]
      omega

/-- **Kahn's elimination decides acyclicity.** -/
theorem acyclicB_iff (V : List Nat) (es : List (Nat × Nat)) (hV : ∀ e ∈ es, e.1 ∈ V ∧ e.2 ∈ V) :
    acyclicB V es = true ↔ Acyclic es := by
  unfold acyclicB
  constructor
  · intro h a ha
    obtain ⟨b, hab⟩ := transGen_exists_succ ha
    have haV : a ∈ V := (hV (a, b) hab).1
    have := kahn_keeps_cycles V es hV V.length V (fun x _ hx => hx) a ha haV
    rw [List.isEmpty_iff.1 h] at this
    cases this
  · intro hac
    have := kahn_length es hac V.length V
    rw [List.isEmpty_iff]
    exact List.eq_nil_of_length_eq_zero (by omega)

/-! ### walks -/

theorem Walk.start_mem {es : List (Nat × Nat)} {a b : Nat} {vs : List Nat} (h : Walk es a vs b) : a ∈ vs := by
  induction h with
  | nil => simp
  | snoc _ _ ih => exact List.mem_append_left _ ih

theorem Walk.end_mem {es : List (Nat × Nat)} {a b : Nat} {vs : List Nat} (h : Walk es a vs b) : b ∈ vs := by
  cases h with
  | nil => simp
  | snoc _ _ => simp

theorem Walk.mono {es es' : List (Nat × Nat)} (hsub : ∀ e ∈ es, e ∈ es') {a b : Nat} {vs : List Nat}
    (h : Walk es a vs b) : Walk es' a vs b := by
  induction h with
  | nil => exact .nil _
  | snoc _ he ih => exact .snoc ih (hsub _ he)

theorem mem_without (a : Nat) (es : List (Nat × Nat)) (e : Nat × Nat) :
    e ∈ without a es ↔ e ∈ es ∧ e.1 ≠ a ∧ e.2 ≠ a := by
  simp [without]

/-- a walk that avoids `a` is a walk of the graph without `a` -/
theorem Walk.avoid {es : List (Nat × Nat)} {a x y : Nat} {vs : List Nat} (h : Walk es x vs y)
    (ha : a ∉ vs) : Walk (without a es) x vs y := by
  induction h with
  | nil => exact .nil _
  | snoc hw he ih =>
    rename_i b c vs'
    have h1 : a ∉ vs' := fun hm => ha (List.mem_append_left _ hm)
    have h2 : c ≠ a := fun e => ha (by simp [e])
    have h3 : b ≠ a := fun e => h1 (e ▸ hw.end_mem)
    exact .snoc (ih h1) ((mem_without a es (b, c)).2 ⟨he, h3, h2⟩)

/-- a walk of the graph without `a` that does not start at `a` avoids `a` -/
theorem Walk.avoided {es : List (Nat × Nat)} {a x y : Nat} {vs : List Nat} (h : Walk (without a es) x vs y)
    (hx : x ≠ a) : a ∉ vs := by
  induction h with
  | nil => simpa using hx.symm
  | snoc _ he ih =>
    have := ((mem_without a es _).1 he).2.2
    simp only [List.mem_append, List.mem_singleton, not_or]
    exact ⟨ih, fun e => this e.symm⟩

/-! ### saturation -/

theorem mem_reachStep (V : List Nat) (es : List (Nat × Nat)) (S : List Nat) (y : Nat) :
    y ∈ reachStep V es S ↔ y ∈ S ∨ (y ∈ V ∧ y ∉ S ∧ ∃ x ∈ S, (x, y) ∈ es) := by
  simp only [reachStep, List.mem_append, List.mem_filter, List.any_eq_true, List.contains_iff_mem,
    beq_iff_eq, Prod.exists, Bool.and_eq_true, Bool.not_eq_true']
  constructor
  · rintro (h | ⟨hyV, hyS, a, b, ⟨hab, ha⟩, hb⟩)
    · exact Or.inl h
    · subst hb
      refine Or.inr ⟨hyV, ?_, a, ha, hab⟩
      simpa using hyS
  · rintro (h | ⟨hyV, hyS, x, hx, hxy⟩)
    · exact Or.inl h
    · refine Or.inr ⟨hyV, ?_, x, y, ⟨hxy, hx⟩, rfl⟩
      simpa using hyS

theorem reach_sound (V : List Nat) (es : List (Nat × Nat)) (a : Nat) :
    ∀ (k : Nat) (S : List Nat), (∀ y ∈ S, ∃ vs, Walk es a vs y) →
      ∀ y ∈ iter (reachStep V es) k S, ∃ vs, Walk es a vs y
  | 0, _, h => h
  | k + 1, S, h => by
    apply reach_sound V es a k (reachStep V es S)
    intro y hy
    rcases (mem_reachStep V es S y).1 hy with hy | ⟨_, _, x, hx, hxy⟩
    · exact h y hy
    · obtain ⟨vs, hw⟩ := h x hx
      exact ⟨_, .snoc hw hxy⟩

def Closed (es : List (Nat × Nat)) (S : List Nat) : Prop := ∀ x ∈ S, ∀ y, (x, y) ∈ es → y ∈ S

theorem reachStep_of_closed (V : List Nat) (es : List (Nat × Nat)) (S : List Nat) (h : Closed es S) :
    reachStep V es S = S := by
  have : V.filter (fun y => !S.contains y && (es.filter (fun e => S.contains e.1)).any (fun e => e.2 == y)) = [] := by
    rw [List.filter_eq_nil_iff]
    intro y _ hy
    simp only [Bool.and_eq_true, Bool.not_eq_true', List.any_eq_true, List.mem_filter,
      List.contains_iff_mem, beq_iff_eq, Prod.exists] at hy
    obtain ⟨hyS, a, b, ⟨hab, ha⟩, hb⟩ := hy
    subst hb
    have := h a ha b hab
    simp [this] at hyS
  show S ++ V.filter _ = S
  rw [this, List.append_nil]

theorem filter_length_lt_of_imp {V : List Nat} {p q : Nat → Bool} (himp : ∀ v, p v = true → q v = true)
    (hex : ∃ v ∈ V, q v = true ∧ p v = false) : (V.filter p).length < (V.filter q).length := by
  induction V with
  | nil => obtain ⟨v, hv, _⟩ := hex; cases hv
  | cons w V ih =>
    have hle : (V.filter p).length ≤ (V.filter q).length := by
      clear ih hex
      induction V with
      | nil => simp
      | cons u V ih2 =>
        simp only [List.filter_cons]
        by_cases hp : p u = true
        · simp [hp, himp u hp]; exact ih2
        · by_cases hq : q u = true
          · simp [hp, hq]; omega
          · simp [hp, hq]; exact ih2
    obtain ⟨v, hv, hqv, hpv⟩ := hex
    simp only [List.filter_cons]
    rcases List.mem_cons.1 hv with rfl | hvV
    · simp [hqv, hpv]; omega
    · have := ih ⟨v, hvV, hqv, hpv⟩
      by_cases hp : p w = true
      · simp [hp, himp w hp]; exact this
      · by_cases hq : q w = true
        · simp [hp, hq]; omega
        · simp [hp, hq]; exact this

/-- nodes of `V` not yet reached -/
def todo (V S : List Nat) : Nat := (V.filter (fun v => !S.contains v)).length

theorem todo_lt (V : List Nat) (es : List (Nat × Nat)) (hV : ∀ e ∈ es, e.2 ∈ V) (S : List Nat)
    (h : ¬ Closed es S) : todo V (reachStep V es S) < todo V S := by
  have h' : ∃ x ∈ S, ∃ y, (x, y) ∈ es ∧ y ∉ S := by
    by_contra hno
    apply h
    intro x hx y hxy
    by_contra hy
    exact hno ⟨x, hx, y, hxy, hy⟩
  obtain ⟨x, hx, y, hxy, hy⟩ := h'
  apply filter_length_lt_of_imp
  · intro v hv
    simp only [Bool.not_eq_true', List.contains_eq_mem, decide_eq_false_iff_not] at hv ⊢
    intro hvS
    exact hv ((mem_reachStep V es S v).2 (Or.inl hvS))
  · refine ⟨y, hV (x, y) hxy, by simpa using hy, ?_⟩
    simp only [Bool.not_eq_false', List.contains_eq_mem, decide_eq_true_eq]
    exact (mem_reachStep V es S y).2 (Or.inr ⟨hV (x, y) hxy, hy, x, hx, hxy⟩)

theorem closed_iter (V : List Nat) (es : List (Nat × Nat)) (hV : ∀ e ∈ es, e.2 ∈ V) :
    ∀ (k : Nat) (S : List Nat), todo V S ≤ k → Closed es (iter (reachStep V es) k S)
  | 0, S, h => by
    intro x _ y hxy
    have hyV := hV (x, y) hxy
    have h0 : V.filter (fun v => !S.contains v) = [] := List.eq_nil_of_length_eq_zero (by unfold todo at h; omega)
    rw [List.filter_eq_nil_iff] at h0
    have := h0 y hyV
    show y ∈ S
    simpa using this
  | k + 1, S, h => by
    by_cases hc : Closed es S
    · have := reachStep_of_closed V es S hc
      rw [iter_fixed _ _ this]
      exact hc
    · have := todo_lt V es hV S hc
      exact closed_iter V es hV k (reachStep V es S) (by omega)

theorem subset_iter_reachStep (V : List Nat) (es : List (Nat × Nat)) :
    ∀ (k : Nat) (S : List Nat), ∀ x ∈ S, x ∈ iter (reachStep V es) k S
  | 0, _, _, h => h
  | k + 1, S, x, h =>
    subset_iter_reachStep V es k (reachStep V es S) x ((mem_reachStep V es S x).2 (Or.inl h))

/-- **Saturation computes the end points of walks.** -/
theorem mem_reach_iff (V : List Nat) (es : List (Nat × Nat)) (hV : ∀ e ∈ es, e.2 ∈ V) (a b : Nat) :
    b ∈ reach V es [a] ↔ ∃ vs, Walk es a vs b := by
  unfold reach
  constructor
  · exact reach_sound V es a V.length [a] (by intro y hy; simp at hy; subst hy; exact ⟨_, .nil _⟩) b
  · rintro ⟨vs, hw⟩
    have hcl := closed_iter V es hV V.length [a] (by unfold todo; exact List.length_filter_le _ _)
    induction hw with
    | nil => exact subset_iter_reachStep V es _ _ a (by simp)
    | snoc _ he ih => exact hcl _ ih _ he

/-- **Dominance** = reachable, and cut off from the entry once `a` is removed. -/
theorem dominatesB_iff (V : List Nat) (es : List (Nat × Nat)) (hV : ∀ e ∈ es, e.2 ∈ V) (entry a b : Nat) :
    dominatesB V es entry a b = true ↔ Dominates es entry a b := by
  have hV' : ∀ e ∈ without a es, e.2 ∈ V.filter (· != a) := by
    intro e he
    obtain ⟨h1, _, h3⟩ := (mem_without a es e).1 he
    simp [hV e h1, h3]
  have key := mem_reach_iff (V.filter (· != a)) (without a es) hV' entry b
  unfold dominatesB Dominates
  simp only [Bool.and_eq_true, Bool.or_eq_true, List.contains_iff_mem, beq_iff_eq, Bool.not_eq_true',
    mem_reach_iff V es hV]
  constructor
  · rintro ⟨hr, hd⟩
    refine ⟨hr, fun vs hw => ?_⟩
    rcases hd with rfl | hd
    · exact hw.start_mem
    · by_contra hna
      have h1 : b ∈ reach (V.filter (· != a)) (without a es) [entry] := key.2 ⟨vs, hw.avoid hna⟩
      have h2 : (reach (V.filter (· != a)) (without a es) [entry]).contains b = true :=
        List.contains_iff_mem.2 h1
      rw [h2] at hd
      cases hd
  · rintro ⟨hr, hall⟩
    refine ⟨hr, ?_⟩
    by_cases hae : a = entry
    · exact Or.inl hae
    · right
      cases hc : (reach (V.filter (· != a)) (without a es) [entry]).contains b with
      | false => rfl
      | true =>
        exfalso
        obtain ⟨vs, hw⟩ := key.1 (List.contains_iff_mem.1 hc)
        have hav := hw.avoided (fun e => hae e.symm)
        exact hav (hall vs (hw.mono (fun e he => ((mem_without a es e).1 he).1)))

/-! ### tie to the operation-layer specification of C06 -/

/-- The dataflow signature the validator uses is one the C06 specification (`Spec.HasSig` of `Ops.lean`,
    transcribed separately from the same Rust sources) assigns to the operation — rows; the requirement
    set is free.  (`ExtOp` without cached signature does not occur in decoded documents.) -/
theorem vsig_hasSig (op : Op) (s : Sig) (hne : ∀ d a, op ≠ .extOp d none a) (h : vsig op = some s) :
    ∃ r, Spec.HasSig op ⟨s.inp, s.out, r⟩ := by
  cases op <;> simp only [vsig] at h
  case input ts => cases h; exact ⟨[], .input ts []⟩
  case output ts => cases ts <;> simp at h; cases h; exact ⟨[], .output _ []⟩
  case custom n sg d e a => cases h; exact ⟨s.reqs, .custom n s d e a⟩
  case extOp d sg a =>
    cases sg with
    | some s' => simp at h; cases h; exact ⟨s.reqs, .extOpCached d s a⟩
    | none => exact absurd rfl (hne d a)
  case makeTuple ts => cases ts <;> simp at h; cases h; exact ⟨_, .makeTuple _⟩
  case unpackTuple ts => cases ts <;> simp at h; cases h; exact ⟨_, .unpackTuple _⟩
  case noop t => cases t <;> simp at h; cases h; exact ⟨_, .noop _⟩
  case tag tg st =>
    split at h
    · rename_i h0
      cases hr : st.rows[tg.toNat]? with
      | none => simp [hr] at h
      | some row =>
        simp [hr] at h; cases h
        have : tg = ((tg.toNat : Nat) : Int) := (Int.toNat_of_nonneg h0).symm
        rw [this]
        exact ⟨[], .tag tg.toNat st row [] hr⟩
    · cases h
  case dfg i o d => cases o <;> simp at h; cases h; exact ⟨d, .dfg _ _ _ _⟩
  case cfg i o => cases o <;> simp at h; cases h; exact ⟨[], .cfg _ _ _⟩
  case loadConst t => cases t <;> simp at h; cases h; exact ⟨[], .loadConst _ _⟩
  case conditional st oi o => cases o <;> simp at h; cases h; exact ⟨[], .conditional _ _ _ _⟩
  case tailLoop ji rest jo d => cases jo <;> simp at h; cases h; exact ⟨[], .tailLoop _ _ _ _ _⟩
  case callIndirect sg => cases sg <;> simp at h; cases h; exact ⟨[], .callIndirect _ _⟩
  case call p inst a => cases h; exact ⟨[], .call _ _ _ _⟩
  case loadFunc p inst a => cases h; exact ⟨[], .loadFunc _ _ _ _⟩
  all_goals cases h

/-! ### the executable validator decides `Valid` -/

theorem failing_nil {α : Type} (rule : String) (loc : α → List Nat) (items : List α) (ok : α → Bool) :
    failing rule loc items ok = [] ↔ ∀ x ∈ items, ok x = true := by
  simp [failing, List.filter_eq_nil_iff]

theorem parent?_lt (d : VDoc) (n p : Nat) (h : d.parent? n = some p) : n ∈ d.nodeIds := by
  unfold VDoc.parent? at h
  split at h
  · cases h
  · cases hn : d.nodes[n]? with
    | none => simp [hn] at h
    | some v =>
      have := (List.getElem?_eq_some_iff.1 hn).1
      simpa [VDoc.nodeIds] using this

theorem mem_children (d : VDoc) (p n : Nat) : n ∈ d.children p ↔ d.parent? n = some p := by
  unfold VDoc.children
  rw [List.mem_filter]
  constructor
  · rintro ⟨_, h⟩; simpa using h
  · intro h; exact ⟨parent?_lt d n p h, by simp [h]⟩

theorem sibEdges_mem (d : VDoc) (res : List REdge) (p : Nat) (e : Nat × Nat) (h : e ∈ d.sibEdges res p) :
    e.1 ∈ d.children p ∧ e.2 ∈ d.children p := by
  unfold VDoc.sibEdges at h
  rw [List.mem_filterMap] at h
  obtain ⟨re, _, hre⟩ := h
  split at hre
  · rename_i hc
    cases hre
    simp only [Bool.and_eq_true, beq_iff_eq] at hc
    exact ⟨(mem_children d p _).2 hc.1, (mem_children d p _).2 hc.2⟩
  · cases hre

theorem R5_nodeB_iff (d : VDoc) (n : Nat) : R5_nodeB d d.redges n = true ↔ R5_node d n := by
  unfold R5_nodeB R5_node
  cases hop : d.op? n with
  | none => simp
  | some op =>
    have hV := sibEdges_mem d d.redges n
    simp only [Bool.or_eq_true, Bool.not_eq_true', Option.some.injEq, forall_eq']
    rw [acyclicB_iff _ _ hV]
    cases (flags op).requiresDag <;> simp

theorem hasOrderEdge_iff (d : VDoc) (src anc : Nat) :
    hasOrderEdge d d.redges src anc = true ↔ HasOrderEdge d src anc := by
  unfold hasOrderEdge HasOrderEdge
  simp only [List.any_eq_true, Bool.and_eq_true, beq_iff_eq]
  constructor
  · rintro ⟨e, he, ⟨h1, h2⟩, h3⟩; exact ⟨e, he, h1, h2, h3⟩
  · rintro ⟨e, he, h1, h2, h3⟩; exact ⟨e, he, ⟨h1, h2⟩, h3⟩

theorem R6c_nlB_iff (d : VDoc) (x : NonLocal) : R6c_nlB d d.redges x = true ↔ R6c_nl d x := by
  unfold R6c_nlB R6c_nl
  split <;> simp [hasOrderEdge_iff]

theorem R7_nlB_iff (d : VDoc) (x : NonLocal) : R7_nlB d d.redges x = true ↔ R7_nl d x := by
  unfold R7_nlB R7_nl
  cases x.loc with
  | ext _ _ => simp
  | unrelated => simp
  | dom g anc _ =>
    dsimp only
    cases hc : d.children g with
    | nil => simp
    | cons entry tl =>
      dsimp only
      exact dominatesB_iff _ _ (fun e he => hc ▸ (sibEdges_mem d d.redges g e he).2) entry x.fp anc

theorem R9_nodeB_iff (d : VDoc) (n : Nat) : R9_nodeB d n = true ↔ R9_node d n := by
  unfold R9_nodeB R9_node
  split
  · rename_i v hv
    rw [Value.valid_iff]
    constructor
    · intro h w hw
      rw [hv] at hw
      cases hw
      exact h
    · intro h; exact h v hv
  · rename_i hne
    simp only [true_iff]
    intro v hv
    exact absurd hv (hne v)

/-- **`violations d = [] ↔ Valid d`.** -/
theorem violations_nil_iff (d : VDoc) : violations d = [] ↔ Valid d := by
  unfold violations
  simp only [List.append_eq_nil_iff, failing_nil]
  constructor
  · rintro ⟨⟨⟨⟨⟨⟨⟨⟨⟨⟨⟨⟨⟨⟨⟨⟨⟨⟨⟨⟨⟨⟨⟨⟨⟨⟨⟨⟨⟨⟨⟨h0, h0'⟩, h1a⟩, h1b⟩, h1c⟩, h1d⟩, h1e⟩, h2a⟩, h2b⟩, h2c⟩, h2d⟩, h2e⟩, h2f⟩, h2g⟩,
      h2h⟩, h2i⟩, h2j⟩, h3a⟩, h3b⟩, h3c⟩, h3d⟩, h3e⟩, h3f⟩, h3g⟩, h4⟩, h5⟩, h6a⟩, h6b⟩, h6c⟩, h7⟩, h8⟩, h9⟩
    refine ⟨⟨?_, h0'⟩, h1a, h1b, h1c, h1d, h1e, h2a, h2b, h2c, h2d, h2e, h2f, h2g, h2h, h2i, h2j,
      h3a, h3b, h3c, h3d, h3e, h3f, h3g, h4, ?_, h6a, h6b, ?_, ?_, h8, ?_⟩
    · intro hn; rw [hn] at h0; simp at h0
    · intro n hn; exact (R5_nodeB_iff d n).1 (h5 n hn)
    · intro x hx; exact (R6c_nlB_iff d x).1 (h6c x hx)
    · intro x hx; exact (R7_nlB_iff d x).1 (h7 x hx)
    · intro n hn; exact (R9_nodeB_iff d n).1 (h9 n hn)
  · rintro ⟨⟨h0, h0'⟩, h1a, h1b, h1c, h1d, h1e, h2a, h2b, h2c, h2d, h2e, h2f, h2g, h2h, h2i, h2j,
      h3a, h3b, h3c, h3d, h3e, h3f, h3g, h4, h5, h6a, h6b, h6c, h7, h8, h9⟩
    refine ⟨⟨⟨⟨⟨⟨⟨⟨⟨⟨⟨⟨⟨⟨⟨⟨⟨⟨⟨⟨⟨⟨⟨⟨⟨⟨⟨⟨⟨⟨⟨?_, h0'⟩, h1a⟩, h1b⟩, h1c⟩, h1d⟩, h1e⟩, h2a⟩, h2b⟩, h2c⟩, h2d⟩, h2e⟩, h2f⟩, h2g⟩,
      h2h⟩, h2i⟩, h2j⟩, h3a⟩, h3b⟩, h3c⟩, h3d⟩, h3e⟩, h3f⟩, h3g⟩, h4⟩, ?_⟩, h6a⟩, h6b⟩, ?_⟩, ?_⟩, h8⟩, ?_⟩
    · cases hn : d.nodes with
      | nil => exact absurd hn h0
      | cons _ _ => simp
    · intro n hn; exact (R5_nodeB_iff d n).2 (h5 n hn)
    · intro x hx; exact (R6c_nlB_iff d x).2 (h6c x hx)
    · intro x hx; exact (R7_nlB_iff d x).2 (h7 x hx)
    · intro n hn; exact (R9_nodeB_iff d n).2 (h9 n hn)

/-- **The executable validator accepts exactly the valid documents.** -/
theorem validate_iff (d : VDoc) : validate d = .ok () ↔ Valid d := by
  rw [← violations_nil_iff]
  unfold validate
  split
  · rename_i h; simp [h]
  · rename_i vs h
    constructor
    · intro h'; cases h'
    · intro h'; exact absurd h' (by intro e; exact h e)

end HugrVerif.Validate
