/-
  When indices respect the hierarchy (every parent has a smaller index than its children and every
  children list is in increasing index order — true as long as no freed index has been reused out
  of order), `_hierarchy_order` is plain index order: the renumbering `_to_serial` performs is then
  order-preserving (the licence clause of C02).
-/
import HugrVerif.Proofs.StoreWalk

namespace HugrVerif.Store
open Py HugrVerif

variable {Ω μ : Type} {s : Store Ω μ}

/-- the walk with an additional invariant on the list built so far -/
theorem hierLoop_tree_inv (hh : HierInv s) (ha : Acyc s) (Q : List Nat → Prop)
    (hQ : ∀ ready ns acc m rest, GW s ready ns acc → Q acc → popMin ready = some (m, rest) → Q (acc ++ [m])) :
    ∀ (fuel : Nat) (ready : List Nat) (ns : Dict Nat Nat) (acc : List Nat), GW s ready ns acc → Q acc →
    s.nodes.length + 1 ≤ acc.length + fuel →
    ∃ order, hierLoop s fuel ready ns acc = .ok order ∧ order.Nodup ∧ Closed s order ∧
      (∀ c, liveN s c → c ∈ order) ∧ Q order := by
  intro fuel
  induction fuel with
  | zero =>
    intro ready ns acc hw _ hf
    have := nodup_live_length hw.accNd (fun x hx => (closed_mem hw.closed hx).1)
    omega
  | succ f ih =>
    intro ready ns acc hw hq hf
    unfold hierLoop
    cases hp : popMin ready with
    | none =>
      have : ready = [] := (popMin_none ready).mp hp
      subst this
      exact ⟨acc, rfl, hw.accNd, hw.closed, gw_done hh ha ns acc hw, hq⟩
    | some r =>
      obtain ⟨m, rest⟩ := r
      obtain ⟨_, hperm⟩ := popMin_perm ready m rest hp
      have hmr : m ∈ ready := hperm.mem_iff.mpr (by simp)
      obtain ⟨_, ⟨dm, hdm⟩, _⟩ := (hw.rmem m).mp hmr
      have hstep := gw_step hh ha ready ns acc hw m rest hp dm hdm
      have hq' := hQ ready ns acc m rest hw hq hp
      simp only [hdm]
      simp only at hstep
      have hlen : s.nodes.length + 1 ≤ (acc ++ [m]).length + f := by simp; omega
      cases hg : Dict.get m (recordSiblings ns dm.children) with
      | none =>
        rw [hg] at hstep
        exact ih _ _ _ hstep hq' hlen
      | some sib =>
        rw [hg] at hstep
        exact ih _ _ _ hstep hq' hlen

/-- indices respect the hierarchy -/
structure IdxMono (s : Store Ω μ) : Prop where
  parent : ∀ c p, parentOf s c = some p → p < c
  kids : ∀ p, (kidsOf s p).Pairwise (· < ·)

theorem mem_before_of_lt : ∀ (l : List Nat), l.Pairwise (· < ·) → ∀ x z, x ∈ l → z ∈ l → x < z → x ∈ before l z := by
  intro l
  induction l with
  | nil => intro _ x z hx; simp at hx
  | cons a t ih =>
    intro hp x z hx hz hlt
    have hat : ∀ y ∈ t, a < y := (List.pairwise_cons.mp hp).1
    have hpt := (List.pairwise_cons.mp hp).2
    by_cases haz : a = z
    · -- z is the head: nothing smaller is in the list
      subst haz
      rcases List.mem_cons.mp hx with e | e
      · omega
      · have := hat x e; omega
    · have hzt : z ∈ t := by
        rcases List.mem_cons.mp hz with e | e
        · exact absurd e.symm haz
        · exact e
      unfold before
      simp only [List.takeWhile_cons, bne_iff_ne, ne_eq, haz, not_false_eq_true, if_true]
      rcases List.mem_cons.mp hx with e | e
      · simp [e]
      · exact List.mem_cons_of_mem _ (ih hpt x z e hzt hlt)

/-- the smallest ready node is below every unlisted node -/
theorem ready_le (hh : HierInv s) (hm : IdxMono s) (ready : List Nat) (ns : Dict Nat Nat) (acc : List Nat)
    (hw : GW s ready ns acc) : ∀ x, liveN s x → x ∉ acc → ∃ y ∈ ready, y ≤ x := by
  intro x
  induction x using Nat.strongRecOn with
  | _ x ih =>
    intro hl hx
    cases hpx : parentOf s x with
    | none => exact ⟨x, (hw.rmem x).mpr ⟨hx, hl, Or.inl hpx⟩, Nat.le_refl _⟩
    | some p =>
      have hpl := hm.parent x p hpx
      obtain ⟨hxk, hlp, _⟩ := parent_kid hh hpx
      by_cases hpa : p ∈ acc
      · obtain ⟨z, hz1, hz2, hz3⟩ := first_outside acc (kidsOf s p) x hxk hx
        obtain ⟨hlz, hpz⟩ := kids_live hh hz1
        refine ⟨z, (hw.rmem z).mpr ⟨hz2, hlz, Or.inr ⟨p, hpz, hpa, hz3⟩⟩, ?_⟩
        apply Classical.byContradiction
        intro hnle
        have := mem_before_of_lt _ (hm.kids p) x z hxk hz1 (by omega)
        exact hx (hz3 x this)
      · obtain ⟨y, hy1, hy2⟩ := ih p hpl hlp hpa
        exact ⟨y, hy1, by omega⟩

theorem eq_of_sorted_same_mem : ∀ (l1 l2 : List Nat), l1.Pairwise (· < ·) → l2.Pairwise (· < ·) →
    (∀ x, x ∈ l1 ↔ x ∈ l2) → l1 = l2 := by
  intro l1
  induction l1 with
  | nil =>
    intro l2 _ _ h
    cases l2 with
    | nil => rfl
    | cons b t => have := (h b).mpr (by simp); simp at this
  | cons a t ih =>
    intro l2 h1 h2 h
    cases l2 with
    | nil => have := (h a).mp (by simp); simp at this
    | cons b u =>
      have ha : ∀ y ∈ t, a < y := (List.pairwise_cons.mp h1).1
      have hb : ∀ y ∈ u, b < y := (List.pairwise_cons.mp h2).1
      have hab : a = b := by
        have h1' := (h a).mp (by simp)
        have h2' := (h b).mpr (by simp)
        rcases List.mem_cons.mp h1' with e | e
        · exact e
        · rcases List.mem_cons.mp h2' with e' | e'
          · exact e'.symm
          · have := hb a e; have := ha b e'; omega
      subst hab
      congr 1
      apply ih u (List.pairwise_cons.mp h1).2 (List.pairwise_cons.mp h2).2
      intro x
      have := h x
      simp only [List.mem_cons] at this
      constructor
      · intro hx
        rcases this.mp (Or.inr hx) with e | e
        · have := ha x hx; omega
        · exact e
      · intro hx
        rcases this.mpr (Or.inr hx) with e | e
        · have := hb x hx; omega
        · exact e

theorem liveNodes_sorted (s : Store Ω μ) : (liveNodes s).Pairwise (· < ·) :=
  List.Pairwise.filter _ List.pairwise_lt_range

theorem mem_liveNodes_iff (s : Store Ω μ) (i : Nat) : i ∈ liveNodes s ↔ liveN s i := by
  unfold liveNodes liveN
  simp only [List.mem_filter, List.mem_range]
  constructor
  · rintro ⟨_, h⟩
    cases hn : s.nodes[i]? with
    | none => simp [hn] at h
    | some o =>
      cases o with
      | none => simp [hn] at h
      | some d => exact ⟨d, (getNode_ok_iff s i d).mpr hn⟩
  · rintro ⟨d, hd⟩
    have hn := (getNode_ok_iff s i d).mp hd
    exact ⟨(List.getElem?_eq_some_iff.mp hn).1, by simp [hn]⟩

/-- **`_hierarchy_order()` is index order when indices respect the hierarchy.** -/
theorem hierarchyOrder_sorted (hh : HierInv s) (hr : RootInv s) (ha : Acyc s) (hm : IdxMono s) :
    hierarchyOrder s = .ok (liveNodes s) := by
  let Q : List Nat → Prop := fun acc =>
    acc.Pairwise (· < ·) ∧ ∀ a ∈ acc, ∀ x, liveN s x → x ∉ acc → a < x
  have hQ : ∀ ready ns acc m rest, GW s ready ns acc → Q acc → popMin ready = some (m, rest) → Q (acc ++ [m]) := by
    intro ready ns acc m rest hw ⟨q1, q2⟩ hp
    obtain ⟨hmin, hperm⟩ := popMin_perm ready m rest hp
    have hmr : m ∈ ready := hperm.mem_iff.mpr (by simp)
    obtain ⟨hmacc, hml, _⟩ := (hw.rmem m).mp hmr
    refine ⟨?_, ?_⟩
    · rw [List.pairwise_append]
      refine ⟨q1, by simp, ?_⟩
      intro a ha' b hb
      simp at hb; subst hb
      exact q2 a ha' b hml hmacc
    · intro a ha' x hl hx
      have hxa : x ∉ acc := fun h => hx (by simp [h])
      have hxm : x ≠ m := fun h => hx (by simp [h])
      rcases List.mem_append.mp ha' with h | h
      · exact q2 a h x hl hxa
      · simp at h; subst h
        obtain ⟨y, hy1, hy2⟩ := ready_le hh hm ready ns acc hw x hl hxa
        have := hmin y hy1
        omega
  obtain ⟨order, h1, h2, h3, h4, q1, _⟩ := hierLoop_tree_inv hh ha Q hQ (s.nodes.length + 1) [s.root] [] []
    (gw_init hr) ⟨by simp, by simp⟩ (by simp)
  have hmem : ∀ c, c ∈ order ↔ liveN s c := fun c => ⟨fun hc => (closed_mem h3 hc).1, h4 c⟩
  have heq : order = liveNodes s := by
    apply eq_of_sorted_same_mem order (liveNodes s) q1 (liveNodes_sorted s)
    intro x; rw [hmem x, mem_liveNodes_iff]
  unfold hierarchyOrder
  rw [h1, heq]
  have : (liveNodes s).filter (fun i => !(liveNodes s).contains i) = [] := by
    apply List.filter_eq_nil_iff.mpr
    intro i hi; simp [hi]
  simp only [this, List.append_nil]

end HugrVerif.Store
