/-
  Load + re-save of a document that is NOT in the serialiser's normal form (a foreign document, C05):
  edges may come without port offsets, metadata may be absent / short / `{}`, and the nodes re-encode
  to other JSON than the one read.  Generalises `fromSerial_toSerial` of `SerialLoad.lean`.
-/
import HugrVerif.Proofs.SerialNormal

namespace HugrVerif.Serial
open HugrVerif HugrVerif.Store HugrVerif.Py

variable {Ω : Type}

/-- `get_offset` as a pure function of the operation's order-port offset, offset possibly absent -/
def loadOffO (order : Option Nat) (off? : Option Int) : Int :=
  match off? with
  | none => if order.isSome then -1 else 0
  | some o => loadOffP order o

/-- the link `_from_serial` adds for an edge -/
def decodeEdgeO (ordOf : Nat → Bool → Option Nat) (e : Edge) : Port × Port :=
  ((e.src, loadOffO (ordOf e.src false) e.srcOff), (e.dst, loadOffO (ordOf e.dst true) e.dstOff))

/-- the offset `_to_serial` writes for an edge end read as `off?` -/
def resavedOff (off? : Option Int) (r : Option Nat) : Int :=
  match off? with
  | some o => o
  | none => match r with | some k => k | none => 0

/-- the edge `_to_serial` writes for a loaded edge -/
def resavedEdge (ordOf : Nat → Bool → Option Nat) (e : Edge) : Edge :=
  ⟨e.src, some (resavedOff e.srcOff (ordOf e.src false)), e.dst, some (resavedOff e.dstOff (ordOf e.dst true))⟩

/-- endpoints in range, explicit offsets non-negative -/
def EdgeOKO (n : Nat) (e : Edge) : Prop :=
  e.src < n ∧ e.dst < n ∧ (∀ o, e.srcOff = some o → 0 ≤ o) ∧ (∀ o, e.dstOff = some o → 0 ≤ o)

theorem loadOffset_eqO (c : OpCodec Ω) (opOf : Nat → Ω) (ordOf : Nat → Bool → Option Nat) (n : Nat) (s : St Ω)
    (h : OpsAt c opOf ordOf n s) (m : Nat) (hm : m < n) (inc : Bool) (off? : Option Int) :
    loadOffset c s m off? inc = .ok (loadOffO (ordOf m inc) off?) := by
  cases off? with
  | some o => exact loadOffset_eq c opOf ordOf n s h m hm inc o
  | none =>
    obtain ⟨d, e, hop⟩ := h.live m hm
    simp only [loadOffset, e, liftS, hop, h.ord m inc hm, liftO, loadOffO]

theorem loadEdges_specO (c : OpCodec Ω) (opOf : Nat → Ω) (ordOf : Nat → Bool → Option Nat) (n : Nat) :
    ∀ (es : List Edge) (s : St Ω), OpsAt c opOf ordOf n s → LInv s.links → (∀ e ∈ es, EdgeOKO n e) →
    ∃ s', loadEdges c es s = .ok s' ∧ StoreGrow s s' ∧ LInv s'.links ∧
      linksList s' = linksList s ++ es.map (decodeEdgeO ordOf) := by
  intro es
  induction es with
  | nil => intro s _ hl _; exact ⟨s, rfl, StoreGrow.refl s, hl, by simp⟩
  | cons e es ih =>
    intro s ho hl hok
    obtain ⟨h1, h2, _, _⟩ := hok e (by simp)
    unfold loadEdges
    rw [loadOffset_eqO c opOf ordOf n s ho e.src h1 false e.srcOff,
        loadOffset_eqO c opOf ordOf n s ho e.dst h2 true e.dstOff]
    simp only []
    obtain ⟨ds, hds, _⟩ := ho.live e.src h1
    obtain ⟨dd, hdd, _⟩ := ho.live e.dst h2
    obtain ⟨s1, hs1⟩ := addLink_succeeds s (e.src, loadOffO (ordOf e.src false) e.srcOff)
      (e.dst, loadOffO (ordOf e.dst true) e.dstOff) ⟨ds, hds⟩ ⟨dd, hdd⟩
    simp only [hs1, liftS]
    obtain ⟨el, hl1⟩ := addLink_links s s1 hl _ _ hs1
    obtain ⟨G, _, _⟩ := addLink_nodes s s1 _ _ hs1
    obtain ⟨s', a, g, li, ll⟩ := ih s1 (ho.grow G) hl1 (fun x hx => hok x (List.mem_cons_of_mem _ hx))
    refine ⟨s', a, G.trans g, li, ?_⟩
    rw [ll, el]
    simp [decodeEdgeO]

/-- what `_constrain_offset` gives for a loaded port offset -/
theorem constrain_loadOffO (c : OpCodec Ω) (s : St Ω) (node : Nat) (inc : Bool) (d : NodeData Ω Meta)
    (r : Option Nat) (off? : Option Int) (hd : getNode s node = .ok d) (hr : c.orderOff d.op inc = .ok r)
    (hnn : ∀ o, off? = some o → 0 ≤ o) :
    constrainOffset c s node (loadOffO r off?) inc = .ok (resavedOff off? r) := by
  cases off? with
  | none =>
    cases r with
    | none => simp [loadOffO, resavedOff, constrainOffset]
    | some k =>
      simp only [loadOffO, resavedOff, Option.isSome_some, if_true]
      exact constrainOffset_order c s node inc d k hd hr
  | some o =>
    have ho := hnn o rfl
    simp only [loadOffO, resavedOff, loadOffP]
    by_cases hk : r.map (fun k => (k : Int)) = some o
    · simp only [hk, if_true]
      cases r with
      | none => simp at hk
      | some k =>
        simp at hk
        rw [constrainOffset_order c s node inc d k hd hr, hk]
    · simp only [hk, if_false]
      exact constrainOffset_value c s node inc o ho

theorem serialLink_decodeEdgeO (c : OpCodec Ω) (opOf : Nat → Ω) (ordOf : Nat → Bool → Option Nat) (n : Nat) (s : St Ω)
    (ho : OpsAt c opOf ordOf n s) (e : Edge) (he : EdgeOKO n e) (a b : SubPort)
    (hab : (a.port, b.port) = decodeEdgeO ordOf e) :
    serialLink c s (List.range n) (a, b) = .ok (resavedEdge ordOf e) := by
  obtain ⟨h1, h2, p1, p2⟩ := he
  simp only [decodeEdgeO, SubPort.port, Prod.mk.injEq] at hab
  obtain ⟨⟨an, ao⟩, ⟨bn, bo⟩⟩ := hab
  obtain ⟨ds, hds, hops⟩ := ho.live e.src h1
  obtain ⟨dd, hdd, hopd⟩ := ho.live e.dst h2
  have cs : constrainOffset c s a.node a.offset false = .ok (resavedOff e.srcOff (ordOf e.src false)) := by
    rw [an, ao]
    exact constrain_loadOffO c s e.src false ds _ e.srcOff hds (by rw [hops, ho.ord e.src false h1]) p1
  have cd : constrainOffset c s b.node b.offset true = .ok (resavedOff e.dstOff (ordOf e.dst true)) := by
    rw [bn, bo]
    exact constrain_loadOffO c s e.dst true dd _ e.dstOff hdd (by rw [hopd, ho.ord e.dst true h2]) p2
  rw [an] at cs
  rw [bn] at cd
  simp only [serialLink, an, bn, cs, cd, rekey_range n e.src h1, rekey_range n e.dst h2, resavedEdge]

/-- A document as any conformant writer may produce it: nodes parents-first, every node decodes and the
    decoded operation re-encodes (to `resaved k`), edges between existing nodes. -/
structure ForeignDoc (c : OpCodec Ω) (d : Doc) (opOf : Nat → Ω) (parOf : Nat → Nat)
    (ordOf : Nat → Bool → Option Nat) (resaved : Nat → Json) : Prop where
  nonempty : d.nodes ≠ []
  dec : Decoded c d.nodes opOf parOf
  enc : ∀ k, k < d.nodes.length → c.enc (opOf k) (parOf k) = .ok (resaved k)
  ord : ∀ m inc, m < d.nodes.length → c.orderOff (opOf m) inc = .ok (ordOf m inc)
  edges : ∀ e ∈ d.edges, EdgeOKO d.nodes.length e

/-- **Load + re-save of a foreign document**: loading succeeds, saving succeeds, and the saved
    document has node `k` re-encoded at position `k` (with its parent's own index), every edge in
    order with its offsets (an absent one at the order port's layout offset, or 0), and per node the
    metadata entry of that index (`null` for none / empty). -/
theorem foreign_load_save (c : OpCodec Ω) (d : Doc) (opOf : Nat → Ω) (parOf : Nat → Nat)
    (ordOf : Nat → Bool → Option Nat) (resaved : Nat → Json) (hn : ForeignDoc c d opOf parOf ordOf resaved) :
    ∃ s', fromSerial c d = .ok s' ∧ ∃ d', toSerial c s' = .ok d' ∧
      d'.nodes = (List.range d.nodes.length).map resaved ∧
      d'.edges = d.edges.map (resavedEdge ordOf) ∧
      d'.metadata = some ((List.range d.nodes.length).map fun k =>
        if (getMeta d.metadata k).isEmpty then none else some (getMeta d.metadata k)) := by
  -- stage 1: nodes
  have hinit : LoadedInv d.metadata opOf parOf ({ nodes := [], links := BiMap.empty, free := [], root := 0 } : St Ω) 0 :=
    ⟨rfl, rfl, rfl, by intro h; omega, by intro m hm; omega⟩
  obtain ⟨t, ht, hti⟩ := loadNodes_spec c d.metadata d.nodes opOf parOf hn.dec d.nodes 0 _ rfl (by simp) hinit
  have hot : OpsAt c opOf ordOf d.nodes.length t := by
    refine ⟨?_, hn.ord⟩
    intro m hm
    obtain ⟨dm, e, o, _⟩ := hti.node m hm
    exact ⟨dm, e, o⟩
  have hlt : LInv t.links := by rw [hti.links]; exact linv_empty
  -- stage 2: edges
  obtain ⟨s', hs', G, hls, hll'⟩ := loadEdges_specO c opOf ordOf d.nodes.length d.edges t hot hlt hn.edges
  have hfrom : fromSerial c d = .ok s' := by
    unfold fromSerial
    have : d.nodes.isEmpty = false := by
      cases hd : d.nodes with
      | nil => exact absurd hd hn.nonempty
      | cons _ _ => rfl
    simp only [this, Bool.false_eq_true, if_false, ht, hs']
  refine ⟨s', hfrom, ?_⟩
  have hpos : 0 < d.nodes.length := List.length_pos_iff.mpr hn.nonempty
  -- the loaded HUGR is walked in index order
  have hord : hierarchyOrder s' = .ok (List.range d.nodes.length) := by
    obtain ⟨r1, r2⟩ := loadEdges_shape c d.edges t s' hs'
    apply hierarchyOrder_range s' d.nodes.length parOf hpos (r1.trans (hti.root hpos)) (r2.trans hti.len)
    · intro k hk hkn; exact hn.dec.earlier k hk hkn
    · intro m hm
      obtain ⟨dm, e, _, _, _, ch⟩ := hti.node m hm
      obtain ⟨dm', e', gr⟩ := G.fwd m dm e
      exact ⟨dm', e', by unfold childIdxs at ch ⊢; rw [gr.children]; exact ch⟩
  have hos : OpsAt c opOf ordOf d.nodes.length s' := hot.grow G
  let mdOf : Nat → Option Meta := fun k =>
    if (getMeta d.metadata k).isEmpty then none else some (getMeta d.metadata k)
  -- nodes of the re-serialised document
  have hnode : ∀ k (hk : k < d.nodes.length),
      serialNode c s' (List.range d.nodes.length) k = .ok (resaved k, mdOf k) := by
    intro k hk
    obtain ⟨dm, e, o, p, mdm, _⟩ := hti.node k hk
    obtain ⟨dm', e', gr⟩ := G.fwd k dm e
    have hrk : rekey (List.range d.nodes.length) (dm'.parent.getD k) = .ok (parOf k) := by
      rw [gr.parent, p]
      by_cases h0 : k = 0
      · subst h0; simp [hn.dec.root, rekey_range _ 0 hk]
      · have := hn.dec.earlier k (by omega) hk
        simp only [h0, if_false, Option.getD_some]
        exact rekey_range _ (parOf k) (by omega)
    simp only [serialNode, e', liftS, hrk, gr.op, o, hn.enc k hk, liftO, gr.md, mdm, mdOf]
  have hnodes : (List.range d.nodes.length).mapM (serialNode c s' (List.range d.nodes.length)) =
      .ok ((List.range d.nodes.length).map fun k => (resaved k, mdOf k)) := by
    apply mapM_ok_zip
    · simp
    · intro i hi hr
      simp only [List.length_range] at hi
      simp only [List.getElem_range, List.getElem_map]
      exact hnode i hi
  -- edges of the re-serialised document
  have hfwd : s'.links.fwd.map (fun e => (e.1.port, e.2.port)) = d.edges.map (decodeEdgeO ordOf) := by
    have : linksList t = [] := by simp [linksList, hti.links, BiMap.empty]
    have h2 : linksList s' = d.edges.map (decodeEdgeO ordOf) := by rw [hll', this]; simp
    simpa [linksList] using h2
  have hedges : s'.links.fwd.mapM (serialLink c s' (List.range d.nodes.length)) =
      .ok (d.edges.map (resavedEdge ordOf)) := by
    apply mapM_ok_zip
    · have := congrArg List.length hfwd; simpa using this
    · intro i hi hr
      have hr' : i < d.edges.length := by simpa using hr
      have hmem : d.edges[i] ∈ d.edges := List.getElem_mem hr'
      have hpi : (s'.links.fwd[i].1.port, s'.links.fwd[i].2.port) = decodeEdgeO ordOf d.edges[i] := by
        have := congrArg (fun x => x[i]?) hfwd
        simp only [List.getElem?_map, List.getElem?_eq_getElem hi, List.getElem?_eq_getElem hr', Option.map_some] at this
        exact Option.some.inj this
      simp only [List.getElem_map]
      exact serialLink_decodeEdgeO c opOf ordOf d.nodes.length s' hos d.edges[i] (hn.edges _ hmem) _ _ hpi
  let ns := (List.range d.nodes.length).map fun k => (resaved k, mdOf k)
  refine ⟨{ nodes := ns.map (·.1), edges := d.edges.map (resavedEdge ordOf), metadata := some (ns.map (·.2)), encoder := none }, ?_, ?_, rfl, ?_⟩
  · unfold toSerial
    simp only [hord, liftS, hnodes, hedges, ns]
  · show ns.map (·.1) = _
    simp only [ns, List.map_map]; rfl
  · show some (ns.map (·.2)) = _
    simp only [ns, List.map_map, mdOf]; rfl

end HugrVerif.Serial
