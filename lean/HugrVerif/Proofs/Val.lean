/-
  Lemmas for C14 about the std constant classes (`HugrVerif/Std/Consts.lean`), on top of
  `Proofs/ValSpec.lean` (specification) and `Proofs/ValCodec.lean` (value codec).
-/
import HugrVerif.Proofs.ValSpec
import HugrVerif.Proofs.ValCodec
import HugrVerif.Std.Consts
import HugrVerif.ConstOps

set_option linter.unusedSimpArgs false
set_option linter.unusedVariables false

namespace HugrVerif
open Ty Codec

namespace Codec
open Value

/-! ### the normal form encodes to the same document -/

mutual
  theorem encVal_norm : ∀ (v : Value), encVal (Value.norm v) = encVal v
    | .sum tag typ vals => by simp only [Value.norm, encVal, encTy_norm, encVals_normList vals]
    | .tuple vals => by simp only [Value.norm, encVal, encVals_normList vals]
    | .function i o r body => by simp only [Value.norm, encVal]
    | .ext name typ payload exts => by simp only [Value.norm, encVal, encTy_norm]
  theorem encVals_normList : ∀ (vs : List Value), encVals (normList vs) = encVals vs
    | [] => rfl
    | v :: vs => by simp only [normList, encVals, encVal_norm v, encVals_normList vs]
end

end Codec

namespace StdConsts
open Value

/-- `collPayload` succeeds exactly when the elements and the element type can be serialised, and is
    then the object holding the complete encodings. -/
theorem collPayload_ok (vs : List Value) (ty : Ty) (p : Json) :
    collPayload vs ty = .ok p ↔
      ∃ js jt, encVals vs = .ok js ∧ isPoly ty = false ∧ encTy ty = .ok jt ∧
        p = .obj [("values", .arr js), ("typ", jt)] := by
  unfold collPayload
  cases hv : encVals vs with
  | error e => simp [bind, Except.bind]
  | ok js =>
    cases hp : isPoly ty with
    | true => simp [bind, Except.bind, pure, Except.pure, throw, throwThe, MonadExceptOf.throw]
    | false =>
      cases ht : encTy ty with
      | error e => simp [bind, Except.bind, pure, Except.pure]
      | ok jt => simp [bind, Except.bind, pure, Except.pure, eq_comm]

theorem arrayVal_ok (vs : List Value) (ty : Ty) (v : Value) :
    arrayVal vs ty = .ok v ↔
      ∃ p, collPayload vs ty = .ok p ∧ v = .ext "ArrayValue" (arrayT vs.length ty) p [Gen.StdValDefs.arrayExt] := by
  unfold arrayVal
  cases collPayload vs ty <;> simp [bind, Except.bind, pure, Except.pure, eq_comm]

theorem listVal_ok (vs : List Value) (ty : Ty) (v : Value) :
    listVal vs ty = .ok v ↔
      ∃ p, collPayload vs ty = .ok p ∧ v = .ext "ListValue" (listT ty) p [Gen.StdValDefs.listExt] := by
  unfold listVal
  cases collPayload vs ty <;> simp [bind, Except.bind, pure, Except.pure, eq_comm]

theorem staticArrayVal_ok (vs : List Value) (ty : Ty) (name : String) (v : Value) :
    staticArrayVal vs ty name = .ok v ↔
      Ty.bound ty = .ok .copyable ∧ ∃ p, collPayload vs ty = .ok p ∧
        v = .ext "StaticArrayValue" (staticArrayT ty) (.obj [("value", p), ("name", .str name)])
          [Gen.StdValDefs.staticArrayExt] := by
  unfold staticArrayVal
  cases hb : Ty.bound ty with
  | error e => simp [bind, Except.bind, pure, Except.pure, throw, throwThe, MonadExceptOf.throw]
  | ok b =>
    cases b with
    | any => simp [bind, Except.bind, pure, Except.pure, throw, throwThe, MonadExceptOf.throw]
    | copyable =>
      cases collPayload vs ty <;> simp [bind, Except.bind, pure, Except.pure, eq_comm]

/-- `StaticArrayVal` with a non-copyable element type raises `ValueError`. -/
theorem staticArrayVal_valueError (vs : List Value) (ty : Ty) (name : String) (h : Ty.bound ty = .ok .any) :
    staticArrayVal vs ty name = .error .valueError := by
  unfold staticArrayVal
  rw [h]; rfl

end StdConsts
end HugrVerif
